/- JSON codecs for the line protocol (DESIGN §4.1). States and symbols are Python `str`. -/
import Lean.Data.Json
import Gamba.Model
open Lean Gamba

namespace Driver

abbrev S := String

def getArr (j : Json) (k : String) : Except String (Array Json) := do
  (← j.getObjVal? k).getArr?

def getStr (j : Json) (k : String) : Except String String := do
  (← j.getObjVal? k).getStr?

def getNat (j : Json) (k : String) : Except String Nat := do
  (← j.getObjVal? k).getNat?

def asStrList (j : Json) : Except String (List String) := do
  let a ← j.getArr?
  a.toList.mapM (·.getStr?)

def getStrList (j : Json) (k : String) : Except String (List String) := do
  asStrList (← j.getObjVal? k)

def getNatList (j : Json) (k : String) : Except String (List Nat) := do
  let a ← getArr j k
  a.toList.mapM (·.getNat?)

def getSched (j : Json) : Except String Sched :=
  match j.getObjVal? "sched" with
  | .ok v => do let a ← v.getArr?; a.toList.mapM (·.getNat?)
  | .error _ => pure []

def decDFA (j : Json) : Except String (DFA S S) := do
  let d ← getArr j "delta"
  let delta ← d.toList.mapM fun e => do
    let l ← asStrList e
    match l with
    | [q, a, r] => pure ((q, a), r)
    | _ => throw "bad dfa delta entry"
  pure { Q := ← getStrList j "Q", Sigma := ← getStrList j "Sigma", delta := delta,
         q0 := ← getStr j "q0", F := ← getStrList j "F" }

def decNFA (j : Json) : Except String (NFA S S) := do
  let d ← getArr j "delta"
  let delta ← d.toList.mapM fun e => do
    let a ← e.getArr?
    if a.size != 3 then throw "bad nfa delta entry"
    pure ((← a[0]!.getStr?, ← a[1]!.getStr?), ← asStrList a[2]!)
  pure { Q := ← getStrList j "Q", Sigma := ← getStrList j "Sigma", delta := delta,
         q0 := ← getStr j "q0", F := ← getStrList j "F", eps := ← getStr j "eps" }

def decDir (s : String) : Except String Dir :=
  if s == "L" then pure .L else if s == "R" then pure .R else throw "bad dir"

def decTM (j : Json) : Except String (TM S S) := do
  let d ← getArr j "delta"
  let delta ← d.toList.mapM fun e => do
    let l ← asStrList e
    match l with
    | [p, a, q, b, dir] => pure ((p, a), (q, b, ← decDir dir))
    | _ => throw "bad tm delta entry"
  pure { Q := ← getStrList j "Q", Sigma := ← getStrList j "Sigma", Gamma := ← getStrList j "Gamma",
         delta := delta, q0 := ← getStr j "q0", qAccept := ← getStr j "qa", qReject := ← getStr j "qr",
         blank := ← getStr j "blank" }

partial def decRegexp (j : Json) : Except String (Regexp S) := do
  let a ← j.getArr?
  if a.size == 0 then throw "bad regexp"
  let tag ← a[0]!.getStr?
  match tag, a.size with
  | "zero", 1 => pure .zero
  | "one", 1 => pure .one
  | "sym", 2 => pure (.sym (← a[1]!.getStr?))
  | "star", 2 => pure (.star (← decRegexp a[1]!))
  | "sum", 3 => pure (.sum (← decRegexp a[1]!) (← decRegexp a[2]!))
  | "cat", 3 => pure (.cat (← decRegexp a[1]!) (← decRegexp a[2]!))
  | _, _ => throw "bad regexp tag"

def strToWord (s : String) : List String := s.toList.map String.singleton
def getWords (j : Json) (k : String) : Except String (List (List String)) := do
  pure ((← getStrList j k).map strToWord)

def encStrs (l : List String) : Json := Json.arr (l.map Json.str).toArray
def encWords (l : List (List String)) : Json := Json.arr (l.map fun w => Json.str (String.join w)).toArray

def encDFA (D : DFA S S) : Json :=
  Json.mkObj [("Q", encStrs D.Q), ("Sigma", encStrs D.Sigma),
    ("delta", Json.arr (D.delta.map fun e => encStrs [e.1.1, e.1.2, e.2]).toArray),
    ("q0", Json.str D.q0), ("F", encStrs D.F)]

def encNFA (N : NFA S S) : Json :=
  Json.mkObj [("Q", encStrs N.Q), ("Sigma", encStrs N.Sigma),
    ("delta", Json.arr (N.delta.map fun e => Json.arr #[Json.str e.1.1, Json.str e.1.2, encStrs e.2]).toArray),
    ("q0", Json.str N.q0), ("F", encStrs N.F), ("eps", Json.str N.eps)]

def encRegexp : Regexp S → Json
  | .zero => Json.arr #[Json.str "zero"]
  | .one => Json.arr #[Json.str "one"]
  | .sym a => Json.arr #[Json.str "sym", Json.str a]
  | .star r => Json.arr #[Json.str "star", encRegexp r]
  | .sum r s => Json.arr #[Json.str "sum", encRegexp r, encRegexp s]
  | .cat r s => Json.arr #[Json.str "cat", encRegexp r, encRegexp s]

def encDir : Dir → String | .L => "L" | .R => "R"

def encCfg (c : TMConfig S S) : Json :=
  Json.arr #[Json.str c.q, encStrs c.tape, Json.num c.head]

def decSym (j : Json) : Except String Sym := do
  let l ← asStrList j
  match l with
  | ["t", a] => pure (.t a)
  | ["v", a] => pure (.v a)
  | _ => throw "bad sym"

def encSym : Sym → Json
  | .t a => encStrs ["t", a]
  | .v a => encStrs ["v", a]

def decCFG (j : Json) : Except String CFG := do
  let rs ← getArr j "R"
  let R ← rs.toList.mapM fun e => do
    let a ← e.getArr?
    if a.size != 3 then throw "bad rule"
    let syms ← (← a[2]!.getArr?).toList.mapM decSym
    pure ({ lhs := ← a[0]!.getStr?, aid := ← a[1]!.getNat?, rhs := syms } : CRule)
  pure { V := ← getStrList j "V", Sigma := ← getStrList j "Sigma", R := R, S := ← getStr j "S" }

def encCFG (G : CFG) : Json :=
  Json.mkObj [("V", encStrs G.V), ("Sigma", encStrs G.Sigma), ("S", Json.str G.S),
    ("R", Json.arr (G.R.map fun r => Json.arr #[Json.str r.lhs, Json.num r.aid, Json.arr (r.rhs.map encSym).toArray]).toArray)]

def encCyk (X : CFG.CykTable) : Json :=
  Json.arr (X.map fun e => Json.arr #[Json.num e.1.1, Json.num e.1.2, encStrs e.2]).toArray

def decPDA (j : Json) : Except String SPDA := do
  let d ← getArr j "delta"
  let delta ← d.toList.mapM fun e => do
    let a ← e.getArr?
    if a.size != 4 then throw "bad pda delta entry"
    let ts ← (← a[3]!.getArr?).toList.mapM fun t => do
      let l ← asStrList t
      match l with
      | [q, v] => pure (q, v)
      | _ => throw "bad pda target"
    pure ((← a[0]!.getStr?, ← a[1]!.getStr?, ← a[2]!.getStr?), ts)
  let eps ← getStr j "eps"
  pure { Q := ← getStrList j "Q", Sigma := ← getStrList j "Sigma", Gamma := ← getStrList j "Gamma",
         delta := delta, q0 := ← getStr j "q0", F := ← getStrList j "F", eps := eps, epsG := eps }

def encPDA (P : SPDA) : Json :=
  Json.mkObj [("Q", encStrs P.Q), ("Sigma", encStrs P.Sigma), ("Gamma", encStrs P.Gamma),
    ("delta", Json.arr (P.delta.map fun e => Json.arr #[Json.str e.1.1, Json.str e.1.2.1, Json.str e.1.2.2,
       Json.arr (e.2.map fun t => encStrs [t.1, t.2]).toArray]).toArray),
    ("q0", Json.str P.q0), ("F", encStrs P.F), ("eps", Json.str P.eps)]

def decConfs (j : Json) (k : String) : Except String (List (PConf String String)) := do
  let a ← getArr j k
  a.toList.mapM fun c => do
    let x ← c.getArr?
    if x.size != 2 then throw "bad conf"
    pure (← x[0]!.getStr?, ← asStrList x[1]!)

def encConfs (l : List (PConf String String)) : Json :=
  Json.arr (l.map fun c => Json.arr #[Json.str c.1, encStrs c.2]).toArray

def encTM (T : TM S S) : Json :=
  Json.mkObj [("Q", encStrs T.Q), ("Sigma", encStrs T.Sigma), ("Gamma", encStrs T.Gamma),
    ("delta", Json.arr (T.delta.map fun e => encStrs [e.1.1, e.1.2, e.2.1, e.2.2.1, encDir e.2.2.2]).toArray),
    ("q0", Json.str T.q0), ("qa", Json.str T.qAccept), ("qr", Json.str T.qReject), ("blank", Json.str T.blank)]

def okJ (v : Json) : Json := Json.mkObj [("ok", v)]
def errJ (e : Err) : Json := Json.mkObj [("err", Json.str e.toString)]

def exc {α : Type} (f : α → Json) : Except Err α → Json
  | .ok v => okJ (f v)
  | .error e => errJ e

def encOptBool : Option Bool → Json
  | none => Json.null
  | some b => Json.bool b

end Driver
