/- Line-protocol driver: one JSON request per line on stdin, one JSON answer per line on stdout. -/
import Driver.Codec
open Lean Gamba Driver

def kindOf (s : String) : CheckAll.Kind :=
  match s with
  | "dfa" => .dfa | "nfa" => .nfa | "pda" => .pda | "tm" => .tm | "cfg" => .cfg | _ => .regexp

def handle (j : Json) : Except String Json := do
  let op ← getStr j "op"
  match op with
  | "ping" => pure (okJ (Json.str "pong"))
  -- C01
  | "dfa_accepts" => do
    let D ← decDFA (← j.getObjVal? "D"); let w ← getStrList j "w"
    pure (exc Json.bool (D.accepts w))
  | "eps_closure" => do
    let N ← decNFA (← j.getObjVal? "N"); let S ← getStrList j "S"
    pure (exc encStrs (N.closure (← getSched j) S))
  | "nfa_accepts" => do
    let N ← decNFA (← j.getObjVal? "N"); let w ← getStrList j "w"
    pure (exc Json.bool (N.accepts (← getSched j) w))
  -- C02
  | "dfa_words" => do
    let D ← decDFA (← j.getObjVal? "D")
    pure (okJ (encWords (D.wordsUpTo (← getNat j "n"))))
  | "nfa_words" => do
    let N ← decNFA (← j.getObjVal? "N")
    pure (exc encWords (N.wordsUpTo (← getSched j) (← getNat j "n")))
  | "regexp_words" => do
    let r ← decRegexp (← j.getObjVal? "r")
    pure (okJ (encWords (r.wordsUpTo (← getNat j "n"))))
  | "tm_words" => do
    let T ← decTM (← j.getObjVal? "T")
    pure (okJ (encWords (T.wordsUpTo (← getNat j "n") (← getNat j "k"))))
  -- C03
  | "nfa_to_dfa" => do
    let N ← decNFA (← j.getObjVal? "N")
    pure (exc encDFA (N.toDfa (← getSched j)))
  -- C05
  | "regexp_matches" => do
    let r ← decRegexp (← j.getObjVal? "r"); let w ← getStrList j "w"
    pure (okJ (Json.bool (r.matchesW w)))
  | "regexp_simplify" => do
    let r ← decRegexp (← j.getObjVal? "r")
    pure (okJ (encRegexp r.simplify))
  | "regexp_size" => do
    let r ← decRegexp (← j.getObjVal? "r")
    pure (okJ (Json.num r.size))
  -- C11
  | "tm_accepts" => do
    let T ← decTM (← j.getObjVal? "T"); let w ← getStrList j "w"
    pure (okJ (encOptBool (T.accepts w (← getNat j "k"))))
  | "tm_simulate" => do
    let T ← decTM (← j.getObjVal? "T"); let w ← getStrList j "w"
    pure (okJ (Json.arr ((T.simulate w (← getNat j "k")).map encCfg).toArray))
  | "tm_step" => do
    let T ← decTM (← j.getObjVal? "T")
    let c : TMConfig S S := { q := ← getStr j "q", tape := ← getStrList j "tape", head := ← getNat j "head" }
    pure (exc encCfg (T.doTransition c))
  -- C14
  | "dfa_complement" => do
    let D ← decDFA (← j.getObjVal? "D")
    pure (exc encDFA (DFA.checked D.complement))
  | "dfa_product" => do
    let D1 ← decDFA (← j.getObjVal? "D1"); let D2 ← decDFA (← j.getObjVal? "D2")
    let t ← match (← getStr j "type") with
      | "union" => pure ProductType.union
      | "intersection" => pure ProductType.intersection
      | "symmetric_difference" => pure ProductType.symmetricDifference
      | _ => throw "bad product type"
    if !(seq D1.Sigma D2.Sigma) then pure (errJ .assertion) else
    pure (exc encDFA (DFA.checked ((D1.product D2 t).mapStates productName)))
  | "dfa_reverse" => do
    let D ← decDFA (← j.getObjVal? "D")
    pure (exc encNFA (NFA.checked (D.reverse (freshState D.Q "q") "ε")))
  | "dfa_no_prefix" => do
    let D ← decDFA (← j.getObjVal? "D")
    pure (exc encNFA (NFA.checked (D.noPrefix "ε")))
  | "dfa_reachable" => do
    let D ← decDFA (← j.getObjVal? "D")
    pure (exc encStrs (D.reachableStates (← getStr j "q") (← getNat j "depth")))
  | "dfa_remove_unreachable" => do
    let D ← decDFA (← j.getObjVal? "D")
    pure (exc encDFA D.removeUnreachable)
  | "dfa_no_extend" => do
    let D ← decDFA (← j.getObjVal? "D")
    pure (exc encDFA D.noExtend)
  | "dfa_make_total" => do
    let D ← decDFA (← j.getObjVal? "D")
    pure (okJ (encDFA (D.makeTotal (freshState D.Q "trap"))))
  | "dfa_simulate" => do
    let D ← decDFA (← j.getObjVal? "D"); let w ← getStrList j "w"
    pure (exc (fun rows => Json.arr (rows.map fun r => Json.arr #[Json.str r.1, Json.str (String.join r.2)]).toArray)
      (D.simulate w))
  -- C18
  | "nfa_union" => do
    let N1 ← decNFA (← j.getObjVal? "N1"); let N2 ← decNFA (← j.getObjVal? "N2")
    let (q0, _) := genFresh (sunion N1.Q N2.Q) (← getNat j "counter")
    pure (exc encNFA (N1.union N2 q0))
  | "nfa_concat" => do
    let N1 ← decNFA (← j.getObjVal? "N1"); let N2 ← decNFA (← j.getObjVal? "N2")
    pure (exc encNFA (N1.concat N2))
  | "nfa_repetition" => do
    let N ← decNFA (← j.getObjVal? "N")
    let (q0, _) := genFresh N.Q (← getNat j "counter")
    pure (exc encNFA (N.repetition q0))
  -- finite languages (C14) and language comparison (C12)
  | "lang_reverse" => do pure (okJ (encWords (langReverse (← getWords j "L"))))
  | "lang_no_prefix" => do pure (okJ (encWords (langNoPrefix (← getWords j "L"))))
  | "lang_no_extend" => do pure (okJ (encWords (langNoExtend (← getWords j "L"))))
  | "lang_concat" => do pure (okJ (encWords (langConcat (← getWords j "L1") (← getWords j "L2"))))
  | "lang_union" => do pure (okJ (encWords (langUnion (← getWords j "L1") (← getWords j "L2"))))
  | "lang_inter" => do pure (okJ (encWords (langInter (← getWords j "L1") (← getWords j "L2"))))
  | "lang_symdiff" => do pure (okJ (encWords (langSymDiff (← getWords j "L1") (← getWords j "L2"))))
  | "words_of_length" => do pure (okJ (encWords (wordsOfLength (← getStrList j "Sigma") (← getNat j "n"))))
  | "words_up_to" => do pure (okJ (encWords (Gamba.wordsUpTo (← getStrList j "Sigma") (← getNat j "n"))))
  | "compare_languages" => do
    match compareLanguages (← getWords j "A1") (← getWords j "A2") with
    | none => pure (okJ Json.null)
    | some (w, extra) => pure (okJ (Json.arr #[Json.str (String.join w), Json.bool extra]))
  -- CFG (C02, C07, C08)
  | "cfg_is_chomsky" => do pure (okJ (Json.bool (← decCFG (← j.getObjVal? "G")).isChomsky))
  | "cfg_valid" => do pure (okJ (Json.bool (← decCFG (← j.getObjVal? "G")).valid))
  | "cfg_nullable" => do pure (okJ (encStrs (← decCFG (← j.getObjVal? "G")).nullable))
  | "cfg_derivable" => do pure (okJ (encStrs ((← decCFG (← j.getObjVal? "G")).derivable (← getStr j "A"))))
  | "cfg_fresh_variable" => do
    pure (okJ (Json.str (CFG.freshVariable (← getStrList j "V") (← getStr j "hint"))))
  | "cfg_add_start" => do pure (okJ (encCFG ((← decCFG (← j.getObjVal? "G")).addStart (← getStr j "hint"))))
  | "cfg_remove_eps" => do pure (okJ (encCFG (← decCFG (← j.getObjVal? "G")).removeEps))
  | "cfg_elim_unit" => do pure (okJ (encCFG (← decCFG (← j.getObjVal? "G")).elimUnit))
  | "cfg_binarise" => do pure (okJ (encCFG (← decCFG (← j.getObjVal? "G")).binarise))
  | "cfg_isolate" => do pure (okJ (encCFG (← decCFG (← j.getObjVal? "G")).isolateTerminals))
  | "cfg_to_chomsky" => do pure (okJ (encCFG (← decCFG (← j.getObjVal? "G")).toChomsky))
  | "cfg_apply_chomsky" => do
    pure (okJ (encCFG ((← decCFG (← j.getObjVal? "G")).applyChomsky (← getNat j "phase") (← getStr j "start"))))
  | "cfg_cyk" => do
    pure (exc encCyk ((← decCFG (← j.getObjVal? "G")).cykMatrix (← getStrList j "w")))
  | "cfg_accepts" => do
    pure (exc Json.bool ((← decCFG (← j.getObjVal? "G")).accepts (← getStrList j "w")))
  | "cfg_words" => do
    pure (okJ (encWords ((← decCFG (← j.getObjVal? "G")).wordsUpTo (← getNat j "n"))))
  -- PDA (C02, C09, C10)
  | "pda_eps_closure" => do
    let P ← decPDA (← j.getObjVal? "P")
    let (R, tr) := P.epsClosure (← getNat j "limit") (← getSched j) (← decConfs j "R")
    pure (okJ (Json.mkObj [("confs", encConfs R), ("truncated", Json.bool tr)]))
  | "pda_do_transition" => do
    let P ← decPDA (← j.getObjVal? "P")
    pure (okJ (encConfs (P.doTransition (← getStr j "a") (← decConfs j "R"))))
  | "pda_accepts" => do
    let P ← decPDA (← j.getObjVal? "P")
    let (b, tr) := P.acceptsT (← getNat j "limit") (← getSched j) (← getStrList j "w")
    pure (okJ (Json.mkObj [("accepts", Json.bool b), ("truncated", Json.bool tr)]))
  | "pda_words" => do
    let P ← decPDA (← j.getObjVal? "P")
    let (ws, tr) := P.wordsUpTo (← getNat j "limit") (← getSched j) (← getNat j "n")
    pure (okJ (Json.mkObj [("words", encWords ws), ("truncated", Json.bool tr)]))
  | "pda_is_push_pop" => do pure (okJ (Json.bool (← decPDA (← j.getObjVal? "P")).isPushPop))
  | "pda_one_accepting" => do pure (exc encPDA (PDA.checked (← decPDA (← j.getObjVal? "P")).toOneAcceptingS))
  | "pda_empty_stack" => do
    let P0 ← decPDA (← j.getObjVal? "P")
    pure (exc encPDA (do let P ← P0.toAcceptOnEmptyStackS; PDA.checked P))
  | "pda_push_pop" => do
    let P0 ← decPDA (← j.getObjVal? "P")
    pure (exc encPDA (do let P ← P0.toPushPopS; PDA.checked P))
  -- minimisation (C04)
  | "dfa_minimize" => do
    let D ← decDFA (← j.getObjVal? "D")
    pure (exc encDFA (do let M ← D.minimizeTable; pure (M.mapStates printStateSet)))
  | "dfa_quotient" => do
    let D ← decDFA (← j.getObjVal? "D")
    pure (exc encDFA (do let M ← D.quotient; pure (M.mapStates printStateSet)))
  | "dfa_hopcroft" => do
    let D ← decDFA (← j.getObjVal? "D")
    let sc ← getSched j
    pure (exc encDFA (do let M ← D.hopcroft sc; pure (M.mapStates printStateSet)))
  -- isomorphism (C20)
  | "dfa_isomorphic1" => do
    let D1 ← decDFA (← j.getObjVal? "D1"); let D2 ← decDFA (← j.getObjVal? "D2")
    pure (exc Json.bool (D1.isomorphic1 D2 (← getSched j)))
  | "dfa_isomorphic" => do
    let D1 ← decDFA (← j.getObjVal? "D1"); let D2 ← decDFA (← j.getObjVal? "D2")
    pure (exc Json.bool (D1.isomorphic D2 (← getSched j)))
  -- regexp <-> automata (C06)
  | "regexp_to_nfa" => do
    pure (exc encNFA (regexpToNfa (← decRegexp (← j.getObjVal? "r"))))
  | "dfa_to_regexp" => do
    let D ← decDFA (← j.getObjVal? "D")
    let (qs, qa) := gnfaNames D.Q
    pure (okJ (encRegexp (D.toRegexp qs qa (← getStrList j "order"))))
  | "dfa_to_gnfa" => do
    let D ← decDFA (← j.getObjVal? "D")
    let (qs, qa) := gnfaNames D.Q
    let G := D.toGnfa qs qa
    pure (okJ (Json.mkObj [("Q", encStrs G.Q), ("qs", Json.str G.qStart), ("qa", Json.str G.qAccept),
      ("delta", Json.arr (G.delta.map fun e => Json.arr #[Json.str e.1.1, Json.str e.1.2, encRegexp e.2]).toArray)]))
  -- witnesses (C15)
  | "nfa_simulate" => do
    let N ← decNFA (← j.getObjVal? "N"); let w ← getStrList j "w"
    pure (exc (fun (r : Option (List (String × List String))) => match r with
      | none => Json.null
      | some rows => Json.arr (rows.map fun x => Json.arr #[Json.str x.1, Json.str (String.join x.2)]).toArray)
      (N.simulate (← getSched j) w))
  | "pda_simulate" => do
    let P ← decPDA (← j.getObjVal? "P"); let w ← getStrList j "w"
    pure (exc (fun (r : Option (List (String × List String × List String))) => match r with
      | none => Json.null
      | some rows => Json.arr (rows.map fun x => Json.arr #[Json.str x.1, Json.str (String.join x.2.1), encStrs x.2.2]).toArray)
      (P.simulate (← getNat j "limit") (← getNat j "fuel") (← getSched j) w))
  | "cfg_derive" => do
    let G ← decCFG (← j.getObjVal? "G"); let w ← getStrList j "w"
    let lm ← (← j.getObjVal? "leftmost").getBool?
    pure (exc (fun (d : List (List Sym)) => Json.arr (d.map fun f => Json.arr (f.map encSym).toArray).toArray)
      (G.deriveWord w lm))
  | "cfg_print_cyk" => do
    let G ← decCFG (← j.getObjVal? "G"); let w ← getStrList j "w"
    pure (exc Json.str (do let X ← G.cykMatrix w; Keys.printCyk X w.length))
  | "cfg_derivation_key" => do
    let G ← decCFG (← j.getObjVal? "G"); let w ← getStrList j "w"
    let lm ← (← j.getObjVal? "leftmost").getBool?
    pure (exc Json.str (do let d ← G.deriveWord w lm; pure (Keys.printDerivation d)))
  | "pda_to_cfg" => do
    let P ← decPDA (← j.getObjVal? "P")
    pure (exc (fun (r : List String × List String × List (String × List (Bool × String)) × String) =>
      Json.mkObj [("V", encStrs r.1), ("Sigma", encStrs r.2.1), ("S", Json.str r.2.2.2),
        ("R", Json.arr (r.2.2.1.map fun e => Json.arr #[Json.str e.1,
           Json.arr (e.2.map fun x => encStrs [if x.1 then "v" else "t", x.2]).toArray]).toArray)])
      (P.toCfgRaw (match j.getObjVal? "aes" with | .ok (Json.bool b) => b | _ => false)))
  -- exercise checkers, object level (C12/C13)
  | "chk_language_from_words" => do
    pure (okJ (Json.bool (Check.languageFromWords (← getNat j "nQ") (← getNat j "max") (← getWords j "A") (← getWords j "words"))))
  | "chk_product" => do
    let D1 ← decDFA (← j.getObjVal? "D1"); let D2 ← decDFA (← j.getObjVal? "D2"); let A ← decDFA (← j.getObjVal? "A")
    let t ← match (← getStr j "type") with
      | "union" => pure ProductType.union
      | "intersection" => pure ProductType.intersection
      | "symmetric_difference" => pure ProductType.symmetricDifference
      | _ => throw "bad product type"
    pure (okJ (match Check.productCheck t D1 D2 A (← getNat j "len") with | none => Json.null | some b => Json.bool b))
  | "chk_complement" => do
    let D1 ← decDFA (← j.getObjVal? "D1"); let A ← decDFA (← j.getObjVal? "A")
    pure (okJ (Json.bool (Check.complementCheck D1 A)))
  | "chk_reverse" => do
    let D ← decDFA (← j.getObjVal? "D"); let A ← decNFA (← j.getObjVal? "A")
    pure (exc Json.bool (Check.reverseCheck D A (← getSched j) (← getNat j "len")))
  | "chk_minimal" => do
    let D ← decDFA (← j.getObjVal? "D"); let A ← decDFA (← j.getObjVal? "A")
    pure (exc Json.bool (Check.minimalCheck D A (← getNat j "len")))
  | "chk_nfa2dfa" => do
    let N ← decNFA (← j.getObjVal? "N"); let A ← decNFA (← j.getObjVal? "A")
    pure (exc Json.bool (Check.nfaToDfaCheck N A (← getSched j)))
  | "chk_cyk" => do
    let G ← decCFG (← j.getObjVal? "G")
    pure (exc Json.bool (Check.cykCheck G (← getStrList j "w") (← getStr j "answer")))
  | "chk_derivation" => do
    let G ← decCFG (← j.getObjVal? "G")
    pure (okJ (Json.bool (Check.derivationCheck G (← getStr j "derivation") (← getStrList j "w") (← getNat j "kind"))))
  | "chk_chomsky" => do
    let G ← decCFG (← j.getObjVal? "G"); let G1 ← decCFG (← j.getObjVal? "G1")
    pure (okJ (Json.bool (Check.chomskyCheck G G1 (← getNat j "phase") (← getStr j "start") (← getNat j "len"))))
  | "chk_text" => do
    let name ← getStr j "name"
    let ans ← getStr j "answer"
    let ref ← getStr j "ref"
    let gs := fun (k : String) => match j.getObjVal? k with | .ok (Json.str s) => s | _ => ""
    let gn := fun (k : String) => match j.getObjVal? k with | .ok v => (v.getNat?.toOption.getD 0) | _ => 0
    let sched := match getSched j with | .ok s => s | _ => []
    let v := match name with
      | "product_union" => CheckText.product .union ans ref (gs "ref2") (gn "len")
      | "product_intersection" => CheckText.product .intersection ans ref (gs "ref2") (gn "len")
      | "product_symmetric_difference" => CheckText.product .symmetricDifference ans ref (gs "ref2") (gn "len")
      | "complement" => CheckText.complement ans ref
      | "reverse" => CheckText.reverse ref ans sched (gn "len")
      | "minimal" => CheckText.minimal ref ans (gn "len")
      | "nfa2dfa" => CheckText.nfa2dfa ref ans sched
      | "dfa2regexp" => CheckText.dfa2regexp ref ans (gn "len")
      | "cyk" => CheckText.cyk ref (gs "word") ans
      | "derivation" => CheckText.derivation ref ans (gs "word") (gn "kind")
      | "chomsky" => CheckText.chomsky ref ans (gn "phase") (gs "start") (gn "len")
      | "dfa_accepts_rejects" => CheckText.dfaAcceptsRejects ans (gs "accepted") (gs "rejected")
      | "cfg_accepts_rejects" => CheckText.cfgAcceptsRejects ans (gs "accepted") (gs "rejected")
      | "dfa_language_words" => CheckText.dfaLanguageWords ans (gs "words") (gn "len") (gn "max")
      | "nfa_language_words" => CheckText.nfaLanguageWords ans (gs "words") sched (gn "len") (gn "max")
      | "cfg_language_words" => CheckText.cfgLanguageWords ans (gs "words") (gn "len")
      | "dfa_language_file" => CheckText.dfaLanguageFile ans ref (gn "len")
      | "nfa_language_file" => CheckText.nfaLanguageFile ans ref sched (gn "len")
      | "lang_words" => CheckAll.languageWords (kindOf (gs "kind")) ans (gs "words") { sched := sched } (gn "len") (gn "max")
      | "lang_file" => CheckAll.languageFile (kindOf (gs "kind")) (kindOf (gs "rkind")) ans ref { sched := sched } (gn "len")
      | "nfa_states" => CheckAll.numberOfNfaStates ans (gn "count")
      | "cfg_accepts" => (CheckAll.cfgAccepts ans (gs "words")).1
      | "cfg_rejects" => (CheckAll.cfgRejects ans (gs "words")).1
      | _ => CheckText.Verdict.error
    pure (okJ (Json.str v.toString))
  | "chk_cex" => do
    let name ← getStr j "name"
    let ans ← getStr j "answer"
    let ref ← getStr j "ref"
    let gs := fun (k : String) => match j.getObjVal? k with | .ok (Json.str s) => s | _ => ""
    let gn := fun (k : String) => match j.getObjVal? k with | .ok v => (v.getNat?.toOption.getD 0) | _ => 0
    let sched := match getSched j with | .ok s => s | _ => []
    let r := match name with
      | "product_union" => CheckCex.report (CheckCex.productLangs .union ans ref (gs "ref2") (gn "len"))
      | "product_intersection" => CheckCex.report (CheckCex.productLangs .intersection ans ref (gs "ref2") (gn "len"))
      | "product_symmetric_difference" => CheckCex.report (CheckCex.productLangs .symmetricDifference ans ref (gs "ref2") (gn "len"))
      | "reverse" => CheckCex.report (CheckCex.reverseLangs ref ans sched (gn "len"))
      | "minimal" => CheckCex.report (CheckCex.minimalLangs ref ans (gn "len"))
      | "dfa2regexp" => CheckCex.report (CheckCex.dfa2regexpLangs ref ans (gn "len"))
      | "chomsky" => CheckCex.report (CheckCex.chomskyLangs ref ans (gn "len"))
      | "dfa_accepts_rejects" => CheckCex.dfaAcceptsRejectsReport ans (gs "accepted") (gs "rejected")
      | "cfg_accepts_rejects" => CheckCex.cfgAcceptsRejectsReport ans (gs "accepted") (gs "rejected")
      | "dfa_language_words" => CheckCex.report (CheckCex.dfaLanguageWordsLangs ans (gs "words") (gn "len"))
      | "nfa_language_words" => CheckCex.report (CheckCex.nfaLanguageWordsLangs ans (gs "words") sched (gn "len"))
      | "cfg_language_words" => CheckCex.report (CheckCex.cfgLanguageWordsLangs ans (gs "words") (gn "len"))
      | "dfa_language_file" => CheckCex.report (CheckCex.dfaLanguageFileLangs ans ref (gn "len"))
      | "nfa_language_file" => CheckCex.report (CheckCex.nfaLanguageFileLangs ans ref sched (gn "len"))
      | "lang_words" => CheckCex.report (CheckAll.languageWordsLangs (kindOf (gs "kind")) ans (gs "words") { sched := sched } (gn "len"))
      | "lang_file" => CheckCex.report (CheckAll.languageFileLangs (kindOf (gs "kind")) (kindOf (gs "rkind")) ans ref { sched := sched } (gn "len"))
      | _ => none
    pure (okJ (match r with
      | none => Json.null
      | some (w, extra) => Json.mkObj [("word", Json.str (String.join w)), ("extra", Json.bool extra)]))
  -- text formats (C16/C17)
  | "parse_dfa" => do
    let sr := match j.getObjVal? "state_regex" with | .ok (Json.str s) => s | _ => ""
    let ok : Parse.Word → Bool := match sr with
      | "set" => CheckText.setStateOk | "product" => CheckText.productStateOk | "word_or_set" => CheckText.wordOrSetStateOk
      | _ => Parse.isWord
    pure (exc encDFA (Parse.parseDfa (← getStr j "text").toList ok))
  | "parse_nfa" => do
    let sr := match j.getObjVal? "state_regex" with | .ok (Json.str s) => s | _ => ""
    let ok : Parse.Word → Bool := match sr with
      | "set" => CheckText.setStateOk | "product" => CheckText.productStateOk | "word_or_set" => CheckText.wordOrSetStateOk
      | _ => Parse.isWord
    pure (exc encNFA (Parse.parseNfa (← getStr j "text").toList ok))
  | "parse_pda" => do pure (exc encPDA (Parse.parsePda (← getStr j "text").toList))
  | "parse_tm" => do pure (exc encTM (Parse.parseTm (← getStr j "text").toList))
  | "print_dfa" => do pure (okJ (Json.str (Parse.printDfa (← decDFA (← j.getObjVal? "D")))))
  | "print_nfa" => do pure (okJ (Json.str (Parse.printNfa (← decNFA (← j.getObjVal? "N")))))
  | "print_pda" => do pure (okJ (Json.str (Parse.printPda (← decPDA (← j.getObjVal? "P")))))
  | "print_tm" => do pure (okJ (Json.str (Parse.printTm (← decTM (← j.getObjVal? "T")))))
  | "regexp_print" => do
    let r ← decRegexp (← j.getObjVal? "r")
    pure (okJ (Json.mkObj [("full", Json.str (RegexpText.printFull r)), ("simple", Json.str (RegexpText.printSimple r)),
                           ("str", Json.str (RegexpText.printStr r))]))
  | "regexp_parse_simple" => do
    pure (okJ (match RegexpText.parseSimple (← getStr j "text") with | none => Json.null | some r => encRegexp r))
  | "regexp_parse_full" => do
    pure (okJ (match RegexpText.parseFull (← getStr j "text") with | none => Json.null | some r => encRegexp r))
  | "parse_simple_cfg" => do
    pure (exc (fun (r : CFG × String) => Json.mkObj [("G", encCFG r.1), ("eps", Json.str r.2)]) (CfgText.parseSimpleCfg (← getStr j "text").toList))
  | "print_simple_cfg" => do
    pure (exc Json.str (CfgText.printSimpleCfg (← decCFG (← j.getObjVal? "G"))))
  | _ => throw s!"unknown op {op}"

partial def loop (h : IO.FS.Stream) (out : IO.FS.Stream) : IO Unit := do
  let line ← h.getLine
  if line.isEmpty then return ()
  let ans := match Json.parse line with
    | .error e => Json.mkObj [("bad", Json.str e)]
    | .ok j => match handle j with
      | .ok r => r
      | .error e => Json.mkObj [("bad", Json.str e)]
  out.putStrLn ans.compress
  loop h out

def main : IO Unit := do
  let out ← IO.getStdout
  loop (← IO.getStdin) out
  out.flush
