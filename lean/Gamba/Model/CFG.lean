/-
  Gamba.Model.CFG — executable model of gambatools/cfg.py and cfg_algorithms.py:
  grammars, CNF recogniser, nullable/unit closures, the five CNF phases (with the aliasing of
  `Alternative` objects that `cfg_eliminate_unit_rules_in_place` creates and
  `cfg_make_rules_of_length_two_in_place` observes), CYK, membership, bounded enumeration and
  derivation extraction.

  Python's `Terminal`/`Variable` are `str` subclasses that compare equal by content; the model is
  typed (`Sym.t` / `Sym.v`), which is faithful exactly when terminal and variable names are
  disjoint as strings (both parsers guarantee it: terminals are lower case, variables are not).
-/
import Gamba.Model.Basic
namespace Gamba

inductive Sym where
  | t (a : String)
  | v (A : String)
  deriving DecidableEq, Repr, Inhabited

def Sym.name : Sym → String
  | .t a => a
  | .v A => A

def Sym.isVar : Sym → Bool
  | .v _ => true
  | .t _ => false

/-- A rule `lhs → rhs`; `aid` identifies the Python `Alternative` object (rules with the same
    `aid` share one object, hence always carry the same `rhs`). -/
structure CRule where
  lhs : String
  aid : Nat
  rhs : List Sym
  deriving DecidableEq, Repr, Inhabited

structure CFG where
  V : List String
  Sigma : List String
  R : List CRule
  S : String
  deriving Repr, Inhabited

namespace CFG

/-- content equality of rules (`Rule.__eq__`) -/
def sameRule (r s : CRule) : Bool := decide (r.lhs = s.lhs) && decide (r.rhs = s.rhs)

def nextAid (G : CFG) : Nat := (G.R.map (·.aid)).foldl max 0 + 1

/-- `CFG.check_validity` / `is_valid` -/
def valid (G : CFG) : Bool :=
  G.R.all fun r => decide (r.lhs ∈ G.V) && r.rhs.all fun x =>
    match x with
    | .v A => decide (A ∈ G.V)
    | .t a => decide (a ∈ G.Sigma)

def altIsChomsky (rhs : List Sym) : Bool :=
  match rhs with
  | [] => true
  | [.t _] => true
  | [.v _, .v _] => true
  | _ => false

/-- `CFG.is_chomsky` -/
def isChomsky (G : CFG) : Bool :=
  (G.R.all fun r => altIsChomsky r.rhs && decide (Sym.v G.S ∉ r.rhs)) &&
  (G.R.all fun r => !r.rhs.isEmpty || decide (r.lhs = G.S))

/-! ### nullable variables, ε-rule removal -/

def nullablePass (R : List CRule) (nullable : List String) : List String × Bool :=
  R.foldl (fun (acc : List String × Bool) r =>
    if r.lhs ∉ acc.1 ∧ r.rhs.all (fun x => match x with | .v A => decide (A ∈ acc.1) | .t _ => false)
    then (acc.1 ++ [r.lhs], true) else acc) (nullable, false)

def nullableLoop (R : List CRule) : Nat → List String → List String
  | 0, n => n
  | fuel + 1, n =>
    let (n', changed) := nullablePass R n
    if changed then nullableLoop R fuel n' else n'

/-- `cfg_nullable_variables` -/
def nullable (G : CFG) : List String := nullableLoop G.R (G.R.length + 1) []

/-- `expand_nullable_variables` -/
def expandNullable (W : List String) : List Sym → List (List Sym)
  | [] => [[]]
  | x :: xs =>
    let y := expandNullable W xs
    let result := y.map (x :: ·)
    match x with
    | .v A => if A ∈ W then result ++ y else result
    | .t _ => result

/-- `remove_duplicates` on rules (content equality, first occurrence kept) -/
def dedupRules : List CRule → List CRule → List CRule
  | seen, [] => seen
  | seen, r :: rs => if seen.any (sameRule r) then dedupRules seen rs else dedupRules (seen ++ [r]) rs

def renumber (start : Nat) (rs : List CRule) : List CRule :=
  rs.zipIdx.map fun (r, i) => { r with aid := start + i }

/-- `cfg_remove_epsilon_rules_in_place` -/
def removeEps (G : CFG) : CFG :=
  let W := G.nullable
  let R1 := G.R.flatMap fun r =>
    ((expandNullable W r.rhs).filter fun symbols => !(symbols.isEmpty && decide (r.lhs ∈ W) && decide (r.lhs ≠ G.S))).map
      fun symbols => ({ lhs := r.lhs, aid := 0, rhs := symbols } : CRule)
  { G with R := renumber G.nextAid (dedupRules [] R1) }

/-! ### unit rules -/

def isUnit (r : CRule) : Bool :=
  match r.rhs with
  | [.v _] => true
  | _ => false

/-- the single symbol of a length-one right-hand side, when it names a variable of `V` -/
def unitTarget (G : CFG) (r : CRule) : Option String :=
  match r.rhs with
  | [x] => if x.name ∈ G.V then some x.name else none
  | _ => none

def derivableLoop (G : CFG) : Nat → List String → List String
  | 0, W => W
  | fuel + 1, W =>
    let W' := G.R.foldl (fun acc r =>
      match unitTarget G r with
      | some B => if r.lhs ∈ W then sinsert acc B else acc
      | none => acc) W
    if W'.length = W.length then W' else derivableLoop G fuel W'

/-- `cfg_derivable_variables(G, A)` -/
def derivable (G : CFG) (A : String) : List String :=
  let W0 := G.R.foldl (fun acc r =>
    if r.lhs = A then (match unitTarget G r with | some B => sinsert acc B | none => acc) else acc) []
  (derivableLoop G (G.V.length + 1) W0).filter (· ≠ A)

/-- `cfg_put_start_variable_in_front`: swap `R[0]` with the first rule of `S` -/
def putStartInFront (S : String) (R : List CRule) : List CRule :=
  match R.findIdx? (fun r => r.lhs = S) with
  | none => R
  | some i =>
    match R[0]?, R[i]? with
    | some r0, some ri => (R.set 0 ri).set i r0
    | _, _ => R

/-- `cfg_eliminate_unit_rules_in_place`: new rules share the `Alternative` (same `aid`) of the
    rule they are copied from; `G.V` is iterated in list order. -/
def elimUnit (G : CFG) : CFG :=
  let R1 := G.V.foldl (fun R1 A =>
    let W := G.derivable A
    G.R.foldl (fun R1 r =>
      if r.lhs ∈ W ∧ !isUnit r then
        let r1 : CRule := { lhs := A, aid := r.aid, rhs := r.rhs }
        if R1.any (sameRule r1) then R1 else R1 ++ [r1]
      else R1) R1) G.R
  { G with R := putStartInFront G.S (R1.filter (fun r => !isUnit r)) }

/-! ### fresh variables -/

def upperLetters : List String :=
  ["A","B","C","D","E","F","G","H","I","J","K","L","M","N","O","P","Q","R","S","T","U","V","W","X","Y","Z"]

def freshIndexed (V : List String) (hint : String) : Nat → Nat → String
  | 0, i => hint ++ toString i
  | fuel + 1, i => if hint ++ toString i ∈ V then freshIndexed V hint fuel (i + 1) else hint ++ toString i

/-- `cfg_fresh_variable(G, hint)` -/
def freshVariable (V : List String) (hint : String) : String :=
  let n := (dedup V).length
  if n ≥ 26 then
    if hint ∈ V then freshIndexed V hint (V.length + 1) 0 else hint
  else if hint ∉ V then hint
  else (upperLetters.find? (· ∉ V)).getD hint

/-- `cfg_add_new_start_variable_in_place(G, hint)` -/
def addStart (G : CFG) (hint : String := "S") : CFG :=
  let S0 := freshVariable G.V hint
  { V := G.V ++ [S0], Sigma := G.Sigma, S := S0,
    R := { lhs := S0, aid := G.nextAid, rhs := [.v G.S] } :: G.R }

/-! ### rules of length two (observes aliasing) -/

def freshVariables (V : List String) (hint : String) : Nat → List String × List String
  | 0 => ([], V)
  | n + 1 =>
    let P := freshVariable V hint
    let (rest, V') := freshVariables (V ++ [P]) hint n
    (P :: rest, V')

/-- chain rules `A[k] → u[k+1] A[k+1]` … `A[-1] → u[-2:]` for `u` with `|u| = |A| + 2` -/
def chainRules (aidStart : Nat) : List String → List Sym → List CRule
  | [], _ => []
  | [a], u => [{ lhs := a, aid := aidStart, rhs := u }]
  | a :: a' :: as, x :: u => { lhs := a, aid := aidStart, rhs := [x, .v a'] } :: chainRules (aidStart + 1) (a' :: as) u
  | _ :: _ :: _, [] => []

/-- one iteration of `for rule in G.R.copy()` for the rule at position `i` of the original list -/
def binariseStep (G : CFG) (i : Nat) : CFG :=
  match G.R[i]? with
  | none => G
  | some rule =>
    let u := rule.rhs
    if u.length ≤ 2 then G else
    let (A, V') := freshVariables G.V rule.lhs (u.length - 2)
    match u, A with
    | u0 :: urest, A0 :: _ =>
      let newRules := chainRules G.nextAid A urest
      let R' := G.R.map fun r => if r.aid = rule.aid then { r with rhs := [u0, .v A0] } else r
      { G with V := V', R := R' ++ newRules }
    | _, _ => G

/-- `cfg_make_rules_of_length_two_in_place` -/
def binarise (G : CFG) : CFG :=
  (List.range G.R.length).foldl binariseStep G

/-! ### isolating terminals -/

def upperAscii (s : String) : String := s.map Char.toUpper

structure TermAcc where
  V : List String
  repl : List (String × String)   -- terminal ↦ variable, insertion order

def replaceSymbol (acc : TermAcc) (x : Sym) : TermAcc × Sym :=
  match x with
  | .v A => (acc, .v A)
  | .t a =>
    match acc.repl.lookup a with
    | some A => (acc, .v A)
    | none =>
      let A := freshVariable acc.V (upperAscii a)
      ({ V := acc.V ++ [A], repl := acc.repl ++ [(a, A)] }, .v A)

def replaceSymbols (acc : TermAcc) : List Sym → TermAcc × List Sym
  | [] => (acc, [])
  | x :: xs =>
    let (acc1, y) := replaceSymbol acc x
    let (acc2, ys) := replaceSymbols acc1 xs
    (acc2, y :: ys)

/-- the first loop of `cfg_eliminate_terminals_in_place`; rewriting an alternative rewrites all
    rules sharing it (idempotent, so the order of visits does not matter) -/
def isolateLoop : TermAcc → List CRule → List CRule → TermAcc × List CRule
  | acc, done, [] => (acc, done)
  | acc, done, r :: rs =>
    if r.rhs.length ≥ 2 then
      let (acc', rhs') := replaceSymbols acc r.rhs
      let fix := fun (x : CRule) => if x.aid = r.aid then { x with rhs := rhs' } else x
      isolateLoop acc' (done.map fix ++ [{ r with rhs := rhs' }]) (rs.map fix)
    else isolateLoop acc (done ++ [r]) rs
termination_by _ _ rs => rs.length
decreasing_by all_goals simp

/-- `cfg_eliminate_terminals_in_place` -/
def isolateTerminals (G : CFG) : CFG :=
  let (acc, R') := isolateLoop { V := G.V, repl := [] } [] G.R
  let start := G.nextAid
  let extra := acc.repl.zipIdx.map fun ((a, A), i) => ({ lhs := A, aid := start + i, rhs := [.t a] } : CRule)
  { G with V := acc.V, R := R' ++ extra }

/-- `cfg_to_chomsky` -/
def toChomsky (G : CFG) : CFG := isolateTerminals (binarise (elimUnit (removeEps (addStart G))))

/-- `cfg_apply_chomsky(G, phase, start_variable)` -/
def applyChomsky (G : CFG) (phase : Nat) (start : String) : CFG :=
  let G1 := if phase ≥ 1 then addStart G start else G
  let G2 := if phase ≥ 2 then removeEps G1 else G1
  let G3 := if phase ≥ 3 then elimUnit G2 else G2
  let G4 := if phase ≥ 4 then binarise G3 else G3
  if phase ≥ 5 then isolateTerminals G4 else G4

/-! ### CYK -/

def prods (G : CFG) (A : String) : List (List Sym) := (G.R.filter (·.lhs = A)).map (·.rhs)

abbrev CykTable := List ((Nat × Nat) × List String)

def cykGet (X : CykTable) (i j : Nat) : List String := (X.lookup (i, j)).getD []

/-- cell `(i, j)` from the cells of shorter spans -/
def cykCell (G : CFG) (X : CykTable) (i j : Nat) : List String :=
  (List.range (j - i)).foldl (fun acc d =>
    let k := i + d
    (cykGet X i k).foldl (fun acc B =>
      (cykGet X (k + 1) j).foldl (fun acc C =>
        sunion acc (G.V.filter fun A => decide ([Sym.v B, Sym.v C] ∈ G.prods A))) acc) acc) []

def cykRow (G : CFG) (n m : Nat) (X : CykTable) : CykTable :=
  (List.range (n - m)).foldl (fun X i => X ++ [((i, i + m), cykCell G X i (i + m))]) X

/-- `cfg_cyk_matrix(G, w)` (requires `isChomsky`) -/
def cykMatrix (G : CFG) (w : List String) : Except Err CykTable :=
  if !G.isChomsky then .error .assertion else
  let n := w.length
  let X0 : CykTable := w.zipIdx.map fun (a, i) => ((i, i), G.V.filter fun A => decide ([Sym.t a] ∈ G.prods A))
  .ok ((List.range n).foldl (fun X m => if m = 0 then X else cykRow G n m X) X0)

/-- `cfg_accepts_word` -/
def accepts (G : CFG) (w : List String) : Except Err Bool :=
  let G' := if G.isChomsky then G else G.toChomsky
  if w.isEmpty then .ok (G'.R.any fun r => decide (r.lhs = G'.S) && r.rhs.isEmpty)
  else do
    let X ← G'.cykMatrix w
    pure (decide (G'.S ∈ cykGet X 0 (w.length - 1)))

/-! ### bounded enumeration (`cfg_words_up_to_n`, as repaired: nothing of length 1 when n = 0) -/

def r1 (G : CFG) (A : String) : List String :=
  (G.R.filter (fun r => r.lhs = A && r.rhs.length = 1)).map fun r => match r.rhs with | [x] => x.name | _ => ""

def r2 (G : CFG) (A : String) : List (List Sym) :=
  (G.R.filter (fun r => r.lhs = A && r.rhs.length = 2)).map (·.rhs)

/-- `make_words(x)`: replace every variable of the form by one of its terminals -/
def makeWords (G : CFG) : List Sym → List (List String)
  | [] => []
  | [x] => (G.r1 x.name).map ([·])
  | x :: xs => let ws := makeWords G xs; (G.r1 x.name).flatMap fun a => ws.map (a :: ·)

/-- `replace(x)`: rewrite one position with a binary rule -/
def replaceOne (G : CFG) (x : List Sym) : List (List Sym) :=
  (List.range x.length).flatMap fun j =>
    match x[j]? with
    | some s => (G.r2 s.name).map fun rhs => x.take j ++ rhs ++ x.drop (j + 1)
    | none => []

def wordsLoop (G : CFG) : Nat → List (List Sym) → List (List String) → List (List String)
  | 0, _, words => words
  | k + 1, W, words =>
    let W' := dedup (W.flatMap G.replaceOne)
    wordsLoop G k W' (sunion words (sunions (W'.map G.makeWords)))

def wordsUpTo (G : CFG) (n : Nat) : List (List String) :=
  let G' := if G.isChomsky then G else G.toChomsky
  let w0 : List (List String) := if G'.R.any (fun r => decide (r.lhs = G'.S) && r.rhs.isEmpty) then [[]] else []
  let w1 := if n ≥ 1 then sunion w0 (dedup (G'.makeWords [.v G'.S])) else w0
  wordsLoop G' (n - 1) [[.v G'.S]] w1

end CFG
end Gamba
