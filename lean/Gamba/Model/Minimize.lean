/-
  Gamba.Model.Minimize — executable models of the three minimisation routines of
  dfa_algorithms.py: table filling (`dfa_minimize` + `dfa_from_table`, as repaired),
  Moore-style refinement (`dfa_quotient`) and Hopcroft (`dfa_hopfcroft`), on structured block
  states (`List σ`); the driver names blocks with `print_state_set`.
-/
import Gamba.Model.DFA
namespace Gamba
variable {σ τ : Type} [DecidableEq σ] [DecidableEq τ]

/-! ### table filling -/

/-- `not table[i, j]`: the pair is marked distinguishable (stored unordered) -/
def marked (m : List (σ × σ)) (p q : σ) : Bool := decide ((p, q) ∈ m) || decide ((q, p) ∈ m)

/-- all index pairs `i < j` in the order of `itertools.combinations(range(n), 2)` -/
def pairsLt : List σ → List (σ × σ)
  | [] => []
  | x :: xs => xs.map (fun y => (x, y)) ++ pairsLt xs

/-- one `for i, j in combinations(...)` sweep with in-place updates; returns the new marks and `changed` -/
def DFA.tablePass (D : DFA σ τ) (m : List (σ × σ)) : List (σ × σ) × Bool :=
  (pairsLt D.Q).foldl (fun (acc : List (σ × σ) × Bool) pq =>
    if !marked acc.1 pq.1 pq.2 ∧ D.Sigma.any (fun a => marked acc.1 (D.next pq.1 a) (D.next pq.2 a))
    then (acc.1 ++ [pq], true) else acc) (m, false)

def DFA.tableLoop (D : DFA σ τ) : Nat → List (σ × σ) → Except Err (List (σ × σ))
  | 0, _ => .error .fuel
  | fuel + 1, m =>
    let (m', changed) := D.tablePass m
    if changed then DFA.tableLoop D fuel m' else .ok m'

/-- the fixed point of the table (the list of distinguishable pairs) -/
def DFA.table (D : DFA σ τ) : Except Err (List (σ × σ)) :=
  D.tableLoop (D.Q.length * D.Q.length + 1)
    ((pairsLt D.Q).filter fun pq => decide (pq.1 ∈ D.F) != decide (pq.2 ∈ D.F))

/-- class assembly of `dfa_from_table`: `q[i]` opens a class unless already placed -/
def classesFrom (m : List (σ × σ)) : List σ → List σ → List (List σ)
  | _, [] => []
  | placed, x :: xs =>
    if x ∈ placed then classesFrom m placed xs
    else
      let cls := x :: xs.filter (fun y => !marked m x y)
      cls :: classesFrom m (placed ++ cls) xs

def blockOf (blocks : List (List σ)) (q : σ) : List σ := (blocks.find? (fun B => decide (q ∈ B))).getD []

/-- quotient automaton on a list of blocks, each with its head as representative -/
def DFA.ofBlocks (D : DFA σ τ) (blocks : List (List σ)) : DFA (List σ) τ :=
  { Q := blocks
    Sigma := D.Sigma
    delta := blocks.flatMap fun B =>
      match B with
      | [] => []
      | v :: _ => D.Sigma.map fun a => ((B, a), blockOf blocks (D.next v a))
    q0 := blockOf blocks D.q0
    F := blocks.filter fun B => !sdisjoint B D.F }

/-- `dfa_minimize` -/
def DFA.minimizeTable (D : DFA σ τ) : Except Err (DFA (List σ) τ) := do
  let m ← D.table
  DFA.checked (D.ofBlocks (classesFrom m [] D.Q))

/-! ### Moore-style refinement (`dfa_quotient`) -/

/-- signature test `all(eq[delta[v,a]] == eq[delta[w,a]] for a in Sigma)` w.r.t. the partition `VV` -/
def DFA.sameSig (D : DFA σ τ) (VV : List (List σ)) (v w : σ) : Bool :=
  D.Sigma.all fun a => seq (blockOf VV (D.next v a)) (blockOf VV (D.next w a))

/-- split one block: put `v` into the first sub-block whose representative has the same signature -/
def DFA.splitBlock (D : DFA σ τ) (VV : List (List σ)) (V : List σ) : List (List σ) :=
  V.foldl (fun WW v =>
    match WW.findIdx? (fun W => match W with | [] => false | w :: _ => D.sameSig VV v w) with
    | some i => WW.modify i (· ++ [v])
    | none => WW ++ [[v]]) []

def equalSets (A B : List (List σ)) : Bool :=
  A.all (fun x => B.any (seq x)) && B.all (fun x => A.any (seq x))

def DFA.quotientLoop (D : DFA σ τ) : Nat → List (List σ) → Except Err (List (List σ))
  | 0, _ => .error .fuel
  | fuel + 1, VV =>
    let VV1 := VV.flatMap (D.splitBlock VV)
    if equalSets VV VV1 then .ok VV else DFA.quotientLoop D fuel VV1

/-- `dfa_quotient` -/
def DFA.quotient (D : DFA σ τ) : Except Err (DFA (List σ) τ) := do
  let VV ← D.quotientLoop (D.Q.length + 2) [D.F, sdiff D.Q D.F]
  DFA.checked (D.ofBlocks VV)

/-! ### Hopcroft (`dfa_hopfcroft`) -/

/-- canonical list of a block (equal sets ⇒ equal lists) -/
def DFA.canonBlock (D : DFA σ τ) (B : List σ) : List σ := D.Q.filter fun q => decide (q ∈ B)

/-- `split(W, a, P)` -/
def DFA.hsplit (D : DFA σ τ) (W : List σ) (a : τ) (P : List σ) : List σ × List σ :=
  (P.filter fun p => decide (D.next p a ∈ W), P.filter fun p => !decide (D.next p a ∈ W))

def minBlock (P Q : List σ) : List σ := if P.length ≤ Q.length then P else Q

structure HopState (σ τ : Type) where
  P : List (List σ)
  W : List (List σ × τ)

/-- the `for P in P_cal_copy` loop for one popped splitter `(W, a)`; the stale test `if P in W_cal`
    (a frozenset is never equal to a (frozenset, symbol) pair) is always false, so the smaller half is added -/
def DFA.hopRefine (D : DFA σ τ) (Ws : List σ) (a : τ) (st : HopState σ τ) : HopState σ τ :=
  st.P.foldl (fun (acc : HopState σ τ) P =>
    if P.length = 1 then acc else
    let (P1, P2) := D.hsplit Ws a P
    if P1.isEmpty || P2.isEmpty then acc else
    { P := (acc.P.filter (· ≠ P)) ++ [P1, P2]
      W := D.Sigma.foldl (fun W b => sinsert W (minBlock P1 P2, b)) acc.W }) st

def DFA.hopLoop (D : DFA σ τ) : Nat → Sched → HopState σ τ → Except Err (HopState σ τ)
  | 0, _, st => if st.W.isEmpty then .ok st else .error .fuel
  | fuel + 1, s, st =>
    let (i, s') := s.next
    match pickAt st.W i with
    | none => .ok st
    | some ((Ws, a), rest) => DFA.hopLoop D fuel s' (D.hopRefine Ws a { st with W := rest })

/-- `dfa_hopfcroft` -/
def DFA.hopcroft (D : DFA σ τ) (s : Sched) : Except Err (DFA (List σ) τ) := do
  let F := D.canonBlock D.F
  let NF := D.canonBlock (sdiff D.Q D.F)
  let P0 := [F, NF].filter (fun B => !B.isEmpty)
  let W0 := D.Sigma.foldl (fun W a => sinsert W (minBlock F NF, a)) []
  let st ← D.hopLoop (D.Sigma.length * (D.Q.length + 2) + 1) s { P := dedup P0, W := W0 }
  DFA.checked (D.ofBlocks st.P)

end Gamba
