/-
  Gamba.Model.Regexp — executable model of gambatools/regexp.py (trees) and the matcher,
  simplifier, size and enumerator of regexp_algorithms.py.
-/
import Gamba.Model.NFA
namespace Gamba

inductive Regexp (τ : Type) where
  | zero | one
  | sym (a : τ)
  | star (r : Regexp τ)
  | sum (r s : Regexp τ)
  | cat (r s : Regexp τ)
  deriving DecidableEq, Repr, Inhabited

namespace Regexp
variable {τ : Type} [DecidableEq τ]

/-- `regexp_size`. -/
def size : Regexp τ → Nat
  | zero | one | sym _ => 0
  | star r => r.size + 1
  | sum r s | cat r s => r.size + s.size + 2

/-- number of nodes (a second, stricter size measure) -/
def nodes : Regexp τ → Nat
  | zero | one | sym _ => 1
  | star r => r.nodes + 1
  | sum r s | cat r s => r.nodes + s.nodes + 1

/-- `regexp_simplify` (the nine rules, bottom-up). -/
def simplify : Regexp τ → Regexp τ
  | zero => zero
  | one => one
  | sym a => sym a
  | star r =>
    match simplify r with
    | zero => one
    | one => one
    | star r' => star r'
    | r' => star r'
  | sum r s =>
    match simplify r, simplify s with
    | zero, s' => s'
    | r', zero => r'
    | r', s' => sum r' s'
  | cat r s =>
    match simplify r, simplify s with
    | zero, _ => zero
    | one, s' => s'
    | _, zero => zero
    | r', one => r'
    | r', s' => cat r' s'

/-- all splits `(w[:k], w[k:])` for `k` in `range(len(w)+1)` -/
def splits : List τ → List (List τ × List τ)
  | [] => [([], [])]
  | a :: w => ([], a :: w) :: (splits w).map fun p => (a :: p.1, p.2)

omit [DecidableEq τ] in
theorem splits_snd_length_le {w : List τ} {p : List τ × List τ} (h : p ∈ splits w) :
    p.2.length ≤ w.length := by
  induction w generalizing p with
  | nil => simp [splits] at h; subst h; simp
  | cons a w ih =>
    simp only [splits, List.mem_cons, List.mem_map] at h
    rcases h with rfl | ⟨q, hq, rfl⟩
    · simp
    · have := ih hq; simp; omega

/-- `regexp_accepts_word` for symbols that are single list elements.
    `star`: a non-empty prefix matches the operand and the rest matches the star again. -/
def matchesAux : Nat → Regexp τ → List τ → Bool
  | _, zero, _ => false
  | _, one, w => w.isEmpty
  | _, sym a, w => decide (w = [a])
  | n, sum r s, w => matchesAux n r w || matchesAux n s w
  | n, cat r s, w => (splits w).any fun p => matchesAux n r p.1 && matchesAux n s p.2
  | 0, star _, w => w.isEmpty
  | n + 1, star r, w =>
    w.isEmpty || (splits w).any fun p => !p.1.isEmpty && matchesAux (n + 1) r p.1 && matchesAux n (star r) p.2
termination_by n r _ => (n, r)

/-- the fuel `n` bounds the length of the word still to be matched by a star -/
def matchesW (r : Regexp τ) (w : List τ) : Bool := matchesAux w.length r w

/-- `concatenate(L1, L2)` -/
def concatLang (L1 L2 : List (List τ)) : List (List τ) :=
  dedup (L1.flatMap fun x => L2.map fun y => x ++ y)

/-- the `Iteration` case of `regexp_words_up_to_n`, given the enumerator `f` of the operand -/
def starWords (f : Nat → List (List τ)) : Nat → List (List τ)
  | 0 => [[]]
  | n + 1 =>
    sunion [[]] (sunions ((List.range (n + 1)).map fun j =>
      concatLang (f (j + 1)) (starWords f (n - j))))
termination_by n => n
decreasing_by omega

/-- `regexp_words_up_to_n`. -/
def wordsUpTo : Regexp τ → Nat → List (List τ)
  | zero, _ => []
  | one, _ => [[]]
  | sym a, n => if n > 0 then [[a]] else []
  | sum r s, n => sunion (wordsUpTo r n) (wordsUpTo s n)
  | cat r s, n =>
    sunions ((List.range (n + 1)).map fun k => concatLang (wordsUpTo r k) (wordsUpTo s (n - k)))
  | star r, n => starWords (wordsUpTo r) n

/-- `regexp_symbols` -/
def symbols : Regexp τ → List τ
  | zero | one => []
  | sym a => [a]
  | star r => r.symbols
  | sum r s | cat r s => sunion r.symbols s.symbols

end Regexp
end Gamba
