/-
  Gamba.Model.CheckText — the exercise checkers of notebook*.py as the notebooks call them: on TEXT.
  Each one parses its arguments with the library parsers (`Gamba.Model.Parse`, `CfgText`, `RegexpText`), runs the object-level
  check of `Gamba.Model.Check`, and prints `OK`, feedback lines, or `Error: …` (every exception is caught).
-/
import Gamba.Model.Check
import Gamba.Model.Parse
import Gamba.Model.CfgText
import Gamba.Model.RegexpText
namespace Gamba
namespace CheckText
open Parse

/-- what the checker prints -/
inductive Verdict | ok | feedback | error
  deriving DecidableEq, Repr, Inhabited

def Verdict.toString : Verdict → String
  | .ok => "OK" | .feedback => "FEEDBACK" | .error => "ERROR"

def ofBool (b : Bool) : Verdict := if b then .ok else .feedback

def ofExcept : Except Err Bool → Verdict
  | .ok b => ofBool b
  | .error _ => .error

/-- `re.fullmatch(r'\(\w+,\w+\)', s)` (`state_product_regex`) -/
def productStateOk (w : Word) : Bool :=
  match w with
  | '(' :: rest =>
    match rest.reverse with
    | ')' :: innerRev =>
      let inner := innerRev.reverse
      match Text.splitOn ',' inner with
      | [a, b] => isWord a && isWord b
      | _ => false
    | _ => false
  | _ => false

/-- `re.fullmatch(r'\{[\w,]*\}', s)` (`state_set_regex`) -/
def setStateOk (w : Word) : Bool := Check.isStateSetLabel (Text.str w)

/-- `re.fullmatch(r'(\w+)|(\{[\w,]*\})', s)` (`state_word_or_set_regex`) -/
def wordOrSetStateOk (w : Word) : Bool := isWord w || setStateOk w

/-- `check_dfa_union / _intersection / _symmetric_difference (dfa, dfa1, dfa2, length)` -/
def product (t : ProductType) (answer dfa1 dfa2 : String) (len : Nat) : Verdict :=
  match parseDfa dfa1.toList, parseDfa dfa2.toList, parseDfa answer.toList productStateOk with
  | .ok D1, .ok D2, .ok A =>
    match Check.productCheck t D1 D2 A len with
    | some b => ofBool b
    | none => .error
  | _, _, _ => .error

/-- `check_dfa_complement(dfa, dfa1)` -/
def complement (answer dfa1 : String) : Verdict :=
  match parseDfa dfa1.toList, parseDfa answer.toList with
  | .ok D1, .ok A => ofBool (Check.complementCheck D1 A)
  | _, _ => .error

/-- `check_dfa_reverse(dfa, nfa, length)` -/
def reverse (dfa answer : String) (s : Sched) (len : Nat) : Verdict :=
  match parseDfa dfa.toList, parseNfa answer.toList with
  | .ok D, .ok A => ofExcept (Check.reverseCheck D A s len)
  | _, _ => .error

/-- `check_dfa_minimal(dfa, answer_dfa, length)` -/
def minimal (dfa answer : String) (len : Nat) : Verdict :=
  match parseDfa dfa.toList, parseDfa answer.toList wordOrSetStateOk with
  | .ok D, .ok A => ofExcept (Check.minimalCheck D A len)
  | _, _ => .error

/-- `check_nfa2dfa(nfa, dfa)` -/
def nfa2dfa (nfa answer : String) (s : Sched) : Verdict :=
  match parseNfa nfa.toList, parseNfa answer.toList setStateOk with
  | .ok N, .ok A => ofExcept (Check.nfaToDfaCheck N A s)
  | _, _ => .error

/-- `check_dfa2regexp(dfa, regexp, length)` -/
def dfa2regexp (dfa answer : String) (len : Nat) : Verdict :=
  match parseDfa dfa.toList, RegexpText.parseSimple answer with
  | .ok D, some r => ofBool (Check.equalLanguages (r.wordsUpTo len) (D.wordsUpTo len))
  | _, _ => .error

/-- `check_cyk_matrix(cfg, word, answer)`; `word` is a Python string: one symbol per character -/
def cyk (cfg word answer : String) : Verdict :=
  match CfgText.parseSimpleCfg cfg.toList with
  | .ok (G, _) => ofExcept (Check.cykCheck G (word.toList.map String.singleton) answer)
  | .error _ => .error

/-- `check_cfg_derivation(cfg, derivation, word, derivation_type)`; kind 0 = any, 1 = leftmost, 2 = rightmost -/
def derivation (cfg deriv word : String) (kind : Nat) : Verdict :=
  match CfgText.parseSimpleCfg cfg.toList with
  | .ok (G, _) => ofBool (Check.derivationCheck G deriv (word.toList.map String.singleton) kind)
  | .error _ => .error

/-- `cfg_check_chomsky(cfg, cfg1, phase, start_variable, length)` -/
def chomsky (cfg answer : String) (phase : Nat) (start : String) (len : Nat) : Verdict :=
  match CfgText.parseSimpleCfg cfg.toList, CfgText.parseSimpleCfg answer.toList with
  | .ok (G, _), .ok (G1, _) => ofBool (Check.chomskyCheck G G1 phase start len)
  | _, _ => .error

/-- `check_dfa_language_from_file(text, filename, length)`: the reference automaton is read from a `.dfa` file -/
def dfaLanguageFile (answer refText : String) (len : Nat) : Verdict :=
  match parseDfa answer.toList, parseDfa refText.toList with
  | .ok A, .ok D => ofBool (Check.equalLanguages (A.wordsUpTo len) (D.wordsUpTo len))
  | _, _ => .error

/-- `check_nfa_language_from_file(text, filename, length)` with a `.nfa` reference file -/
def nfaLanguageFile (answer refText : String) (s : Sched) (len : Nat) : Verdict :=
  match parseNfa answer.toList, parseNfa refText.toList with
  | .ok A, .ok N =>
    match A.wordsUpTo s len, N.wordsUpTo s len with
    | .ok L1, .ok L2 => ofBool (Check.equalLanguages L1 L2)
    | _, _ => .error
  | _, _ => .error

/-- `parse_word_list(word_list)`: split on white space, `ε` and `_` denote the empty word; a word is a Python string, i.e. one
    symbol per character -/
def parseWordList (wordList : String) : List (List String) :=
  dedup ((Text.splitWs wordList.toList).map fun w =>
    if w = ['ε'] ∨ w = ['_'] then [] else w.map String.singleton)

/-- `check_automaton_accepts_rejects` on the verdicts of the acceptance test; an exception of the test propagates -/
def acceptsRejectsWith (acc : List String → Except Err Bool) (accepted rejected : String) : Verdict :=
  match (parseWordList accepted).mapM acc, (parseWordList rejected).mapM acc with
  | .ok a, .ok r => ofBool (Check.acceptsRejects (a.map some) (r.map some))
  | _, _ => .error

/-- `check_dfa_accepts_rejects(dfa, accepted_words, rejected_words)` (`.error` = the call raises: this checker has no try/except) -/
def dfaAcceptsRejects (dfa accepted rejected : String) : Verdict :=
  match parseDfa dfa.toList with
  | .ok D => acceptsRejectsWith D.accepts accepted rejected
  | .error _ => .error

/-- `check_cfg_accepts_rejects(cfg, accepted_words, rejected_words)` -/
def cfgAcceptsRejects (cfg accepted rejected : String) : Verdict :=
  match CfgText.parseSimpleCfg cfg.toList with
  | .ok (G, _) => acceptsRejectsWith G.accepts accepted rejected
  | .error _ => .error

/-- `check_dfa_language_from_words(text, word_list, length, max_states)`: the answer automaton must not exceed `max_states` states
    (0 = no bound) and its words up to `length` must be exactly the listed words -/
def dfaLanguageWords (answer wordList : String) (len maxStates : Nat) : Verdict :=
  match parseDfa answer.toList with
  | .ok A => ofBool (Check.languageFromWords (dedup A.Q).length maxStates (A.wordsUpTo len) (parseWordList wordList))
  | .error _ => .error

/-- `check_nfa_language_from_words` -/
def nfaLanguageWords (answer wordList : String) (s : Sched) (len maxStates : Nat) : Verdict :=
  match parseNfa answer.toList with
  | .ok A =>
    match A.wordsUpTo s len with
    | .ok L => ofBool (Check.languageFromWords (dedup A.Q).length maxStates L (parseWordList wordList))
    | .error _ => .error
  | .error _ => .error

/-- `check_cfg_language_from_words(text, word_list, length)` (no state bound) -/
def cfgLanguageWords (answer wordList : String) (len : Nat) : Verdict :=
  match CfgText.parseSimpleCfg answer.toList with
  | .ok (G, _) => ofBool (Check.equalLanguages (G.wordsUpTo len) (parseWordList wordList))
  | .error _ => .error

end CheckText
end Gamba
