/-
  Gamba.Model.Keys — executable model of the answer-key printers used by notebooks/make_notebook.py:apply_command
  (`cfg_print_cyk_matrix`, the ' => '-joined derivation, the DFA answer re-read as an NFA).
-/
import Gamba.Model.CFG
import Gamba.Model.NFA
import Gamba.Model.Simulate
import Gamba.Model.Text
namespace Gamba
namespace Keys

/-- `sep.join(parts)` on character lists -/
def joinWith (sep : List Char) : List (List Char) → List Char
  | [] => []
  | [x] => x
  | x :: xs => x ++ sep ++ joinWith sep xs

/-- `print_set` of `cfg_print_cyk_matrix`: `'{' + ','.join(sorted(S)) + '}'` -/
def printSet (S : List String) : List Char :=
  '{' :: joinWith [','] ((sortStrings (dedup S)).map String.toList) ++ ['}']

/-- `"{:<{width}}".format(s, width=width)`: left-aligned, padded with spaces, never truncated -/
def pad (width : Nat) (s : List Char) : List Char := s ++ List.replicate (width - s.length) ' '

/-- `(max(len(V) for _, V in X.items()) * 2) + 1` -/
def cykWidth (X : CFG.CykTable) : Nat := (X.map (·.2.length)).foldl max 0 * 2 + 1

/-- line `i` (before the lines are reversed): cells `X[j-i, j]` for `j = i .. n-1`, joined by two spaces -/
def cykLine (X : CFG.CykTable) (n i : Nat) : List Char :=
  joinWith [' ', ' '] ((List.range (n - i)).map fun d => pad (cykWidth X) (printSet (CFG.cykGet X d (d + i))))

/-- `cfg_print_cyk_matrix(X, n)`; `max()` of an empty table raises `ValueError` -/
def printCyk (X : CFG.CykTable) (n : Nat) : Except Err String :=
  if X.isEmpty then .error .valueError else
  .ok (String.ofList (joinWith ['\n'] ((List.range n).map (cykLine X n)).reverse))

/-- `' => '.join(''.join(element) for element in derivation)` -/
def printDerivation (d : List (List Sym)) : String :=
  String.ofList (joinWith [' ', '=', '>', ' '] (d.map fun el => el.flatMap fun x => x.name.toList))

/-- the answer DFA of the NFA→DFA exercise as the checker sees it after `parse_nfa`: every transition has one target -/
def dfaAsNfa (D : DFA String String) (eps : String) : NFA String String :=
  { Q := D.Q, Sigma := D.Sigma, delta := D.delta.map fun e => (e.1, [e.2]), q0 := D.q0, F := D.F, eps := eps }

end Keys
end Gamba
