/-
  Gamba.Model.Check — executable models of the object-level logic of the exercise checkers
  (notebook.py, notebook_dfa.py, notebook_nfa2dfa.py, notebook_cfg.py, notebook_chomsky.py).
  A checker's verdict is `true` ("OK" is printed) exactly when its feedback list is empty.
  Parsing the submitted text into automata / grammars is done by the library's own parsers
  (C16/C17); the CYK-table and derivation checkers, whose answer syntax is trivial, are modelled
  from the text.
-/
import Gamba.Model.Lang
import Gamba.Model.Text
import Gamba.Model.NFA
import Gamba.Model.Minimize
import Gamba.Model.CFG
namespace Gamba
namespace Check

/-- `check_max_states`: feedback iff `0 < max_states < |Q|` -/
def maxStatesOk (nQ maxStates : Nat) : Bool := !(0 < maxStates && maxStates < nQ)

/-- `check_language_from_words` after parsing: state limit + language comparison -/
def languageFromWords (nQ maxStates : Nat) (answerWords words : List (List String)) : Bool :=
  maxStatesOk nQ maxStates && (compareLanguages answerWords words).isNone

/-- `check_equal_languages(A1, A2)` on the two generated languages -/
def equalLanguages (A1 A2 : List (List String)) : Bool := (compareLanguages A1 A2).isNone

/-- `check_automaton_accepts_rejects` given the acceptance verdicts (`none` = the TM is undecided) -/
def acceptsRejects (accepted rejected : List (Option Bool)) : Bool :=
  accepted.all (fun v => v == some true) && rejected.all (fun v => v != some true)

/-! ### product automata -/

/-- `extract_states(q)`: `q[1:-1].split(',')`, first two labels -/
def extractPair (q : String) : Option (String × String) :=
  match Text.splitOn ',' (Text.inner q.toList) with
  | a :: b :: _ => some (Text.str a, Text.str b)
  | _ => none

/-- `check_product_automaton(D, D1, D2, answer)`: number of feedback messages is irrelevant; `none` = exception -/
def productFeedbackEmpty (D D1 D2 answer : DFA String String) : Option Bool :=
  if answer.Q.any (fun q => (extractPair q).isNone) then none else
  let okStates := answer.Q.all fun q =>
    match extractPair q with
    | some (q1, q2) => decide (q1 ∈ D1.Q) && decide (q2 ∈ D2.Q)
    | none => false
  let okSigma := seq D.Sigma answer.Sigma
  let okInit := decide (answer.q0 = D.q0)
  let okDelta := answer.delta.all fun e =>
    match D.delta.lookup e.1 with
    | some r => decide (e.2 = r)
    | none => true
  let okF := seq D.F answer.F
  some (okStates && okSigma && okInit && okDelta && okF)

/-- `check_dfa_union / intersection / symmetric_difference` after parsing -/
def productCheck (t : ProductType) (D1 D2 answer : DFA String String) (len : Nat) : Option Bool :=
  if !seq D1.Sigma D2.Sigma then none else
  let D := (D1.product D2 t).mapStates productName
  match productFeedbackEmpty D D1 D2 answer with
  | none => none
  | some fb =>
    let L1 := D1.wordsUpTo len
    let L2 := D2.wordsUpTo len
    let L := answer.wordsUpTo len
    let expected := match t with
      | .union => langUnion L1 L2
      | .intersection => langInter L1 L2
      | .symmetricDifference => langSymDiff L1 L2
    some (fb && (compareLanguages L expected).isNone)

/-- dict equality of two δ (both with unique keys) -/
def deltaEq (d1 d2 : Dict (String × String) String) : Bool :=
  d1.all (fun e => d2.lookup e.1 == some e.2) && d2.all (fun e => d1.lookup e.1 == some e.2)

/-- `check_dfa_complement` (as repaired: the feedback is no longer discarded) -/
def complementCheck (D1 answer : DFA String String) : Bool :=
  let D := D1.complement
  seq D.Sigma answer.Sigma && seq D.Q answer.Q && decide (D.q0 = answer.q0) && deltaEq D.delta answer.delta &&
  seq D.F answer.F

/-- `check_dfa_reverse(dfa, nfa)`; the answer is an NFA -/
def reverseCheck (D : DFA String String) (answer : NFA String String) (s : Sched) (len : Nat) : Except Err Bool := do
  let okSigma := seq D.Sigma answer.Sigma
  let okQ := ssubset D.Q answer.Q
  let okEdges := D.delta.all fun e => decide (e.1.1 ∈ answer.succ e.2 e.1.2)
  let okInit := decide (answer.q0 ∉ D.Q)
  let okF := seq answer.F [D.q0]
  let L1 ← answer.wordsUpTo s len
  let L2 := langReverse (D.wordsUpTo len)
  pure (okSigma && okQ && okEdges && okInit && okF && (compareLanguages L1 L2).isNone)

/-- `check_dfa_minimal(dfa, answer)` -/
def minimalCheck (D answer : DFA String String) (len : Nat) : Except Err Bool := do
  let M ← D.quotient
  let okSigma := seq M.Sigma answer.Sigma
  let okSize := decide ((dedup M.Q).length = (dedup answer.Q).length)
  let L1 := answer.wordsUpTo len
  let L2 := M.wordsUpTo len
  pure (okSigma && okSize && (compareLanguages L1 L2).isNone)

/-! ### NFA → DFA answer -/

def isWordChar (c : Char) : Bool := Text.isWordChar c

def braced (l : List Char) : Bool := l.length ≥ 2 && l.head? == some '{' && l.getLast? == some '}'

/-- `re.fullmatch(r'\{[\w,]*\}', q)` (ASCII `\w`) -/
def isStateSetLabel (q : String) : Bool :=
  braced q.toList && (Text.inner q.toList).all (fun c => isWordChar c || c == ',')

/-- `extract_states(q)` of notebook_nfa2dfa.py: strip the braces, split on commas, empty label = ∅ -/
def extractSet (q : String) : List String :=
  let label := if braced q.toList then Text.inner q.toList else q.toList
  if label.isEmpty then [] else dedup ((Text.splitOn ',' label).map Text.str)

/-- `check_nfa_to_dfa_answer(N, answer)` (as repaired: ε-transitions in the answer are rejected) -/
def nfaToDfaCheck (N answer : NFA String String) (s : Sched) : Except Err Bool := do
  let okNonEmpty := !answer.Q.isEmpty
  let okSigma := seq N.Sigma answer.Sigma
  let okLabels := answer.Q.all fun q => isStateSetLabel q && ssubset (extractSet q) N.Q
  let C0 ← N.closure s [N.q0]
  let okInit := seq (extractSet answer.q0) C0
  let okFinal := answer.Q.all fun q => decide (q ∈ answer.F) == !sdisjoint (extractSet q) N.F
  let okTargets ← (answer.Q.flatMap fun q => answer.Sigma.map fun a => (q, a)).allM fun (q, a) => do
    match dedup (answer.succ q a) with
    | [q1] =>
      let C ← N.closure s (N.moveSet (extractSet q) a)
      pure (seq (extractSet q1) C)
    | _ => pure true
  let okNoEps := answer.delta.all fun e => !(decide (e.1.2 = answer.eps) && !e.2.isEmpty)
  let okTotal := (answer.Q.flatMap fun q => answer.Sigma.map fun a => (q, a)).all fun (q, a) =>
    (dedup (answer.succ q a)).length == 1
  pure (okNonEmpty && okSigma && okLabels && okInit && okFinal && okTargets && okNoEps && okTotal)

/-! ### CYK table (from the answer text) -/

/-- `str.split()` on ASCII whitespace -/
def splitWs (s : List Char) : List (List Char) := Text.splitWs s

/-- a cell `{}` or `{\w(,\w)*}`; `none` = ill-formed -/
def parseCellInner : List Char → Option (List String)
  | [c] => if isWordChar c then some [String.singleton c] else none
  | c :: ',' :: rest => if isWordChar c then (parseCellInner rest).map (String.singleton c :: ·) else none
  | _ => none

def parseCell (w : List Char) : Option (List String) :=
  if w = ['{', '}'] then some [] else
  if braced w then parseCellInner (Text.inner w) else none

/-- `check_cyk_matrix(cfg, word, answer)` after parsing the grammar (as repaired: exactly `|word|` rows) -/
def cykCheck (G : CFG) (word : List String) (answer : String) : Except Err Bool := do
  let Y ← G.cykMatrix word
  let lines := (Text.splitOn '\n' (Text.strip answer.toList)).map splitWs
  let cells := lines.map fun ws => ws.map parseCell
  let okSyntax := cells.all fun row => row.all fun c =>
    match c with
    | some vs => ssubset vs G.V
    | none => false
  let okRows := decide (lines.length = word.length)
  let okSizes := lines.zipIdx.all fun (ws, i) => ws.length == i + 1
  if !(okSyntax && okRows && okSizes) then pure false else
  let rev := cells.reverse
  pure (rev.zipIdx.all fun (row, i) => row.zipIdx.all fun (c, j) =>
    match c with
    | some vs => seq vs (CFG.cykGet Y j (i + j))
    | none => false)

/-! ### derivations -/

def parseChar (c : Char) : Sym := if c.isUpper then .v (String.singleton c) else .t (String.singleton c)

/-- `cfg_apply_rule` / `cfg_has_derivation(G, elem1, elem2, derivation_type)`; kind 0 = any, 1 = leftmost, 2 = rightmost -/
def hasDerivation (G : CFG) (e1 e2 : List Sym) (kind : Nat) : Bool :=
  let vars := e1.filter Sym.isVar
  let allowed : List Sym := match kind with
    | 1 => vars.take 1
    | 2 => vars.reverse.take 1
    | _ => vars
  G.R.any fun r =>
    decide (Sym.v r.lhs ∈ allowed) &&
    (let positions := (List.range e1.length).filter fun i => e1[i]? == some (Sym.v r.lhs)
     let chosen := match kind with
       | 1 => positions.take 1
       | 2 => positions.reverse.take 1
       | _ => positions
     chosen.any fun pos => decide (e1.take pos ++ r.rhs ++ e1.drop (pos + 1) = e2))

/-- `check_cfg_derivation(cfg, derivation, word, type)` after parsing the grammar -/
def derivationCheck (G : CFG) (derivation : String) (word : List String) (kind : Nat) : Bool :=
  let words := (Text.splitArrow (Text.strip derivation.toList)).map Text.strip
  let elements := words.map fun w => w.map parseChar
  let okSymbols := elements.all fun el => el.all fun x =>
    match x with
    | .v A => decide (A ∈ G.V)
    | .t a => decide (a ∈ G.Sigma)
  let okFirst := match elements with
    | first :: _ => decide (first = [.v G.S])
    | [] => false
  let okSteps := (elements.zip elements.tail).all fun (a, b) => hasDerivation G a b kind
  let okLast := match elements.getLast? with
    | some last => decide (last = word.map Sym.t)
    | none => false
  okSymbols && okFirst && okSteps && okLast

/-! ### Chomsky phases -/

/-- `cfg_check_chomsky(cfg, cfg1, phase, start_variable, length)` after parsing both grammars -/
def chomskyCheck (G G1 : CFG) (phase : Nat) (start : String) (len : Nat) : Bool :=
  let A1 := G1.wordsUpTo len
  let A2 := G.wordsUpTo len
  let okLang := (compareLanguages A1 A2).isNone
  let okStart := phase < 1 || decide (G1.S = start)
  let okEps := phase < 2 || G1.R.all fun r => !(r.rhs.isEmpty && decide (r.lhs ≠ G1.S))
  let okUnit := phase < 3 || G1.R.all fun r => !CFG.isUnit r
  let okLen := phase < 4 || G1.R.all fun r => r.rhs.length ≤ 2
  let okCnf := phase < 5 || G1.R.all fun r => CFG.altIsChomsky r.rhs
  okLang && okStart && okEps && okUnit && okLen && okCnf

end Check
end Gamba
