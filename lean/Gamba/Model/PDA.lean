/-
  Gamba.Model.PDA — executable model of gambatools/pda.py and pda_algorithms.py:
  configurations, bounded ε-closure, symbol step, acceptance, enumeration, normal forms
  (single accepting state, accept on empty stack with the drain state, push/pop form).
  The stack top is the LAST list element, as in the Python lists.
-/
import Gamba.Model.DFA
import Gamba.Model.CFG
namespace Gamba

structure PDA (σ τ γ : Type) where
  Q : List σ
  Sigma : List τ
  Gamma : List γ
  delta : Dict (σ × τ × γ) (List (σ × γ))
  q0 : σ
  F : List σ
  eps : τ      -- ε as an input symbol
  epsG : γ     -- ε as a stack symbol (the same Python string)
  deriving Repr

abbrev PConf (σ γ : Type) := σ × List γ

section
variable {σ τ γ : Type} [DecidableEq σ] [DecidableEq τ] [DecidableEq γ]

/-- `PDA._check_validity` -/
def PDA.valid (P : PDA σ τ γ) : Bool :=
  decide (P.q0 ∈ P.Q) && decide (P.eps ∉ P.Sigma) && decide (P.epsG ∉ P.Gamma) && ssubset P.F P.Q &&
  P.delta.all fun e =>
    decide (e.1.1 ∈ P.Q) && (decide (e.1.2.1 ∈ P.Sigma) || decide (e.1.2.1 = P.eps)) &&
    (decide (e.1.2.2 ∈ P.Gamma) || decide (e.1.2.2 = P.epsG)) &&
    e.2.all fun t => decide (t.1 ∈ P.Q) && (decide (t.2 ∈ P.Gamma) || decide (t.2 = P.epsG))

def PDA.checked (P : PDA σ τ γ) : Except Err (PDA σ τ γ) :=
  if P.valid then .ok P else .error .assertion

/-- `pda_can_pop_push` -/
def PDA.canPopPush (P : PDA σ τ γ) (stack : List γ) (u : γ) : Bool :=
  decide (u = P.epsG) || (stack.getLast? == some u)

/-- `pda_pop_push` (only called when `canPopPush`) -/
def PDA.popPush (P : PDA σ τ γ) (stack : List γ) (u v : γ) : List γ :=
  let s1 := if u = P.epsG then stack else stack.dropLast
  if v = P.epsG then s1 else s1 ++ [v]

/-- all configurations reachable from `c` by one transition reading `a` (`a = eps` for ε-moves) -/
def PDA.moves (P : PDA σ τ γ) (a : τ) (c : PConf σ γ) : List (PConf σ γ) :=
  P.delta.flatMap fun e =>
    if e.1.1 = c.1 ∧ e.1.2.1 = a ∧ P.canPopPush c.2 e.1.2.2 then
      e.2.map fun t => (t.1, P.popPush c.2 e.1.2.2 t.2)
    else []

/-- `pda_epsilon_closure` with the iteration limit; returns the result and whether the loop
    stopped because of the limit (`todo` still non-empty). -/
def PDA.epsLoop (P : PDA σ τ γ) : Nat → Sched → List (PConf σ γ) → List (PConf σ γ) →
    List (PConf σ γ) × Bool
  | 0, _, result, todo => (result, !todo.isEmpty)
  | limit + 1, s, result, todo =>
    let (i, s') := s.next
    match pickAt todo i with
    | none => (result, false)
    | some (src, rest) =>
      let new := dedup ((P.moves P.eps src).filter fun t => decide (t ∉ result))
      PDA.epsLoop P limit s' (result ++ new) (rest ++ new)

def PDA.epsClosure (P : PDA σ τ γ) (limit : Nat) (s : Sched) (R : List (PConf σ γ)) :
    List (PConf σ γ) × Bool :=
  P.epsLoop limit s (dedup R) (dedup R)

/-- `pda_do_transition` -/
def PDA.doTransition (P : PDA σ τ γ) (a : τ) (R : List (PConf σ γ)) : List (PConf σ γ) :=
  dedup (R.flatMap (P.moves a))

def PDA.runConfs (P : PDA σ τ γ) (limit : Nat) (s : Sched) :
    List (PConf σ γ) × Bool → List τ → List (PConf σ γ) × Bool
  | acc, [] => acc
  | (R, tr), a :: w =>
    let (R', tr') := P.epsClosure limit s (P.doTransition a R)
    PDA.runConfs P limit s (R', tr || tr') w

/-- `pda_accepts_word`; second component: some closure was truncated by the limit -/
def PDA.acceptsT (P : PDA σ τ γ) (limit : Nat) (s : Sched) (w : List τ) : Bool × Bool :=
  let (R, tr) := P.runConfs limit s (P.epsClosure limit s [(P.q0, [])]) w
  (R.any fun c => decide (c.1 ∈ P.F), tr)

def PDA.accepts (P : PDA σ τ γ) (limit : Nat) (s : Sched) (w : List τ) : Bool := (P.acceptsT limit s w).1

/-- `pda_words_up_to_n`: frontier of (configuration, word) pairs -/
def PDA.wordsLoop (P : PDA σ τ γ) (limit : Nat) (s : Sched) :
    Nat → List (PConf σ γ × List τ) → List (List τ) → Bool → List (List τ) × Bool
  | 0, _, result, tr => (result, tr)
  | n + 1, W, result, tr =>
    let step := W.flatMap fun (r, w) => P.Sigma.map fun a =>
      let (R, t) := P.epsClosure limit s (P.doTransition a [r])
      (R.map fun r1 => (r1, w ++ [a]), t)
    let W1 := dedup (step.flatMap (·.1))
    let tr' := tr || step.any (·.2)
    let new := (W1.filter fun p => decide (p.1.1 ∈ P.F)).map (·.2)
    PDA.wordsLoop P limit s n W1 (sunion result new) tr'

def PDA.wordsUpTo (P : PDA σ τ γ) (limit : Nat) (s : Sched) (n : Nat) : List (List τ) × Bool :=
  let (R0, t0) := P.epsClosure limit s [(P.q0, [])]
  P.wordsLoop limit s n (R0.map fun r => (r, [])) (if R0.any (fun c => decide (c.1 ∈ P.F)) then [[]] else []) t0

/-- `pda_is_push_pop` -/
def PDA.isPushPop (P : PDA σ τ γ) : Bool :=
  P.delta.all fun e => e.2.all fun t =>
    (decide (e.1.2.2 = P.epsG) && decide (t.2 ≠ P.epsG)) || (decide (e.1.2.2 ≠ P.epsG) && decide (t.2 = P.epsG))

/-- `delta[k].add(t)` on a defaultdict(set) -/
def addMove (d : Dict (σ × τ × γ) (List (σ × γ))) (k : σ × τ × γ) (t : σ × γ) :
    Dict (σ × τ × γ) (List (σ × γ)) :=
  d.set k (sinsert ((d.lookup k).getD []) t)

/-- `pda_to_one_accepting_state_in_place` with the fresh state supplied -/
def PDA.toOneAccepting (P : PDA σ τ γ) (qAccept : σ) : PDA σ τ γ :=
  if (dedup P.F).length = 1 then P else
  { P with Q := sinsert P.Q qAccept
           delta := P.F.foldl (fun d q => addMove d (q, P.eps, P.epsG) (qAccept, P.epsG)) P.delta
           F := [qAccept] }

/-- `pda_to_accept_on_empty_stack_in_place` (as repaired: with the drain state of doc/main.tex) -/
def PDA.toAcceptOnEmptyStack (P : PDA σ τ γ) (bottom : γ) (qInitial qDrain qAccept : σ) : PDA σ τ γ :=
  let d1 := addMove P.delta (qInitial, P.eps, P.epsG) (P.q0, bottom)
  let d2 := P.F.foldl (fun d q => addMove d (q, P.eps, P.epsG) (qDrain, P.epsG)) d1
  let d3 := P.Gamma.foldl (fun d u => if u = bottom then d else addMove d (qDrain, P.eps, u) (qDrain, P.epsG)) d2
  let d4 := addMove d3 (qDrain, P.eps, bottom) (qAccept, P.epsG)
  { P with Q := sinsert (sinsert (sinsert P.Q qInitial) qDrain) qAccept
           Gamma := sinsert P.Gamma bottom
           delta := d4, q0 := qInitial, F := [qAccept] }

end

/-! ### String-level wrappers (fresh names as the library chooses them) -/

/-- `fresh_symbol(Gamma, '$@#*&!?')` -/
def freshSymbol (Gamma : List String) : Except Err String :=
  match ["$", "@", "#", "*", "&", "!", "?"].find? (· ∉ Gamma) with
  | some s => .ok s
  | none => .error .runtimeError

abbrev SPDA := PDA String String String

def SPDA.toOneAcceptingS (P : SPDA) : SPDA := P.toOneAccepting (freshState P.Q "q_accept")

def SPDA.toAcceptOnEmptyStackS (P : SPDA) : Except Err SPDA := do
  let bottom ← freshSymbol P.Gamma
  let qi := freshState P.Q "q_initial"
  let Q1 := sinsert P.Q qi
  let qd := freshState Q1 "q_drain"
  let Q2 := sinsert Q1 qd
  let qa := freshState Q2 "q_accept"
  pure (P.toAcceptOnEmptyStack bottom qi qd qa)

structure PPAcc where
  Q : List String
  delta : Dict (String × String × String) (List (String × String))

/-- `pda_to_push_pop_in_place` (after the single-accepting-state step); δ is traversed in dict order -/
def SPDA.toPushPopS (P0 : SPDA) : Except Err SPDA :=
  let P := P0.toOneAcceptingS
  let dummy := "∅"
  if dummy ∈ P.Gamma then .error .assertion else
  let eps := P.epsG
  let step := fun (acc : PPAcc) (e : (String × String × String) × List (String × String)) =>
    let (p, a, u) := e.1
    e.2.foldl (fun (acc : PPAcc) (t : String × String) =>
      let (q, v) := t
      if (u = eps ∧ v ≠ eps) ∨ (u ≠ eps ∧ v = eps) then
        { acc with delta := addMove acc.delta (p, a, u) (q, v) }
      else if u = eps ∧ v = eps then
        let m := freshState acc.Q "M"
        { Q := acc.Q ++ [m],
          delta := addMove (addMove acc.delta (p, a, eps) (m, dummy)) (m, P.eps, dummy) (q, eps) }
      else
        let m := freshState acc.Q "M"
        { Q := acc.Q ++ [m],
          delta := addMove (addMove acc.delta (p, a, u) (m, eps)) (m, P.eps, eps) (q, v) }) acc
  let acc := P.delta.foldl step { Q := P.Q, delta := [] }
  .ok { P with Q := acc.Q, Gamma := P.Gamma ++ [dummy], delta := acc.delta }

end Gamba

/-! ### PDA → CFG (Sipser's triple construction, `pda_to_cfg`, as repaired: empty-stack normalisation first) -/
namespace Gamba

def pdaVar (p q : String) : String := p ++ "'" ++ q

/-- the three rule families of Sipser's construction for a PDA `P` (meant to be in push/pop form):
    `A_pq → a A_rs b` for a push of `u` from `p` to `r` reading `a` and a pop of the same `u` from `s` to `q` reading `b`;
    `A_pq → A_pr A_rq`; `A_pp → ε`.  Right-hand sides are lists of `(isVariable, name)`. -/
def SPDA.tripleRules (P : SPDA) : List (String × List (Bool × String)) :=
  let eps := P.eps
  let trans := P.delta.flatMap fun e => e.2.map fun t => (e.1.1, e.1.2.1, e.1.2.2, t.1, t.2)
  let pushes := trans.filter fun t => t.2.2.1 = eps
  let pops := trans.filter fun t => t.2.2.1 ≠ eps
  let term := fun (a : String) => if a = eps then [] else [(false, a)]
  let r1 := P.Gamma.flatMap fun u =>
    (pushes.filter fun t => t.2.2.2.2 = u).flatMap fun (p, a, _, r, _) =>
      (pops.filter fun t => t.2.2.1 = u).map fun (s, b, _, q, _) =>
        (pdaVar p q, term a ++ [(true, pdaVar r s)] ++ term b)
  let r2 := P.Q.flatMap fun p => P.Q.flatMap fun q => P.Q.map fun r =>
    (pdaVar p q, [(true, pdaVar p r), (true, pdaVar r q)])
  let r3 := P.Q.map fun p => (pdaVar p p, ([] : List (Bool × String)))
  r1 ++ r2 ++ r3

/-- the grammar of a PDA already normalised (push/pop form, one accepting state `qAccept`) -/
def SPDA.tripleCfg (P : SPDA) (qAccept : String) : CFG :=
  { V := P.Q.flatMap fun p => P.Q.map fun q => pdaVar p q
    Sigma := P.Sigma
    S := pdaVar P.q0 qAccept
    R := P.tripleRules.zipIdx.map fun (r, i) =>
      ({ lhs := r.1, aid := i, rhs := r.2.map fun x => if x.1 then Sym.v x.2 else Sym.t x.2 } : CRule) }

/-- the normalisation pipeline of `pda_to_cfg` (as repaired: empty-stack acceptance first) -/
def SPDA.normalizeForCfg (P0 : SPDA) (acceptsOnEmptyStack : Bool := false) : Except Err SPDA := do
  let P1 ← if acceptsOnEmptyStack then pure P0 else P0.toAcceptOnEmptyStackS
  let P2 := if (dedup P1.F).length ≠ 1 then P1.toOneAcceptingS else P1
  if P2.isPushPop then pure P2 else P2.toPushPopS

/-- `pda_to_cfg(P, accepts_on_empty_stack)` as raw data (V, Sigma, rules, S) -/
def SPDA.toCfgRaw (P0 : SPDA) (acceptsOnEmptyStack : Bool := false) :
    Except Err (List String × List String × List (String × List (Bool × String)) × String) := do
  let P ← P0.normalizeForCfg acceptsOnEmptyStack
  match P.F with
  | [] => .error .stopIteration
  | qAccept :: _ =>
    pure (P.Q.flatMap fun p => P.Q.map fun q => pdaVar p q, P.Sigma, P.tripleRules, pdaVar P.q0 qAccept)

/-- `pda_to_cfg` as a `CFG` value (every rule its own `Alternative` object) -/
def SPDA.toCfg (P0 : SPDA) (acceptsOnEmptyStack : Bool := false) : Except Err CFG := do
  let P ← P0.normalizeForCfg acceptsOnEmptyStack
  match P.F with
  | [] => .error .stopIteration
  | qAccept :: _ => pure (P.tripleCfg qAccept)

end Gamba
