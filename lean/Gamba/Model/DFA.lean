/-
  Gamba.Model.DFA — executable model of gambatools/dfa.py and the language-level part of
  gambatools/dfa_algorithms.py (acceptance, simulation, enumeration, closure constructions).
  Minimisation and isomorphism live in Model/Minimize.lean and Model/Iso.lean.
-/
import Gamba.Model.Basic
namespace Gamba

structure DFA (σ τ : Type) where
  Q : List σ
  Sigma : List τ
  delta : Dict (σ × τ) σ
  q0 : σ
  F : List σ
  deriving Repr

structure NFA (σ τ : Type) where
  Q : List σ
  Sigma : List τ
  delta : Dict (σ × τ) (List σ)
  q0 : σ
  F : List σ
  eps : τ
  deriving Repr

section
variable {σ τ : Type} [DecidableEq σ] [DecidableEq τ]

/-- `DFA._is_total`. -/
def DFA.isTotal (D : DFA σ τ) : Bool :=
  D.Q.all fun q => D.Sigma.all fun a => D.delta.has (q, a)

/-- `DFA._check_validity` as a decidable predicate. -/
def DFA.valid (D : DFA σ τ) : Bool :=
  decide (D.q0 ∈ D.Q) && ssubset D.F D.Q &&
  D.delta.all (fun e => decide (e.1.1 ∈ D.Q) && decide (e.1.2 ∈ D.Sigma) && decide (e.2 ∈ D.Q)) &&
  D.isTotal

/-- The constructor `DFA(Q, Sigma, delta, q0, F)` with `check_validity=True`. -/
def DFA.checked (D : DFA σ τ) : Except Err (DFA σ τ) :=
  if D.valid then .ok D else .error .assertion

/-- `delta[q, a]` (KeyError when absent). -/
def DFA.step (D : DFA σ τ) (q : σ) (a : τ) : Except Err σ := D.delta.get (q, a)

/-- `delta[q, a]` for a DFA known to be valid (total): no error branch. -/
def DFA.next (D : DFA σ τ) (q : σ) (a : τ) : σ := (D.delta.lookup (q, a)).getD q

def DFA.run (D : DFA σ τ) (q : σ) : List τ → Except Err σ
  | [] => .ok q
  | a :: w => do let r ← D.step q a; D.run r w

/-- `dfa_accepts_word`. -/
def DFA.accepts (D : DFA σ τ) (w : List τ) : Except Err Bool := do
  let q ← D.run D.q0 w
  pure (decide (q ∈ D.F))

/-- total variant used in constructions and specifications -/
def DFA.runT (D : DFA σ τ) (q : σ) : List τ → σ
  | [] => q
  | a :: w => D.runT (D.next q a) w

def DFA.acceptsT (D : DFA σ τ) (w : List τ) : Bool := decide (D.runT D.q0 w ∈ D.F)

/-- `dfa_simulate_word`: rows `(state, unread input)`. -/
def DFA.simulateFrom (D : DFA σ τ) : σ → List τ → Except Err (List (σ × List τ))
  | q, [] => .ok [(q, [])]
  | q, a :: w => do
    let r ← D.step q a
    let rest ← DFA.simulateFrom D r w
    pure ((q, a :: w) :: rest)

def DFA.simulate (D : DFA σ τ) (word : List τ) : Except Err (List (σ × List τ)) :=
  D.simulateFrom D.q0 word

/-- One level of `dfa_words_up_to_n`: the frontier `W` of (state, word) pairs. -/
def DFA.frontierStep (D : DFA σ τ) (W : List (σ × List τ)) : List (σ × List τ) :=
  W.flatMap fun (q, w) => D.Sigma.map fun a => (D.next q a, w ++ [a])

def DFA.wordsUpToAux (D : DFA σ τ) : Nat → List (σ × List τ) → List (List τ) → List (List τ)
  | 0, _, words => words
  | n + 1, W, words =>
    let W1 := D.frontierStep W
    let new := (W1.filter fun p => decide (p.1 ∈ D.F)).map (·.2)
    DFA.wordsUpToAux D n W1 (words ++ new)

/-- `dfa_words_up_to_n` (as a list; read as a set). -/
def DFA.wordsUpTo (D : DFA σ τ) (n : Nat) : List (List τ) :=
  DFA.wordsUpToAux D n [(D.q0, [])] (if D.q0 ∈ D.F then [[]] else [])

/-- `dfa_complement`. -/
def DFA.complement (D : DFA σ τ) : DFA σ τ := { D with F := sdiff D.Q D.F }

inductive ProductType | union | intersection | symmetricDifference
  deriving DecidableEq, Repr

def ProductType.accept : ProductType → Bool → Bool → Bool
  | .union, a, b => a || b
  | .intersection, a, b => a && b
  | .symmetricDifference, a, b => (a && !b) || (!a && b)

/-- `dfa_product` on structured pair states (the Python code names them `"(p,q)"`). -/
def DFA.product {σ₂ : Type} [DecidableEq σ₂] (D1 : DFA σ τ) (D2 : DFA σ₂ τ) (t : ProductType) :
    DFA (σ × σ₂) τ :=
  let states := D1.Q.flatMap fun p => D2.Q.map fun q => (p, q)
  { Q := states
    Sigma := D1.Sigma
    delta := states.flatMap fun (p, q) => D1.Sigma.map fun a => (((p, q), a), (D1.next p a, D2.next q a))
    q0 := (D1.q0, D2.q0)
    F := states.filter fun (p, q) => t.accept (decide (p ∈ D1.F)) (decide (q ∈ D2.F)) }

/-- Rename states (used for `print_state_set`, product names, ...). -/
def DFA.mapStates {σ' : Type} (f : σ → σ') (D : DFA σ τ) : DFA σ' τ :=
  { Q := D.Q.map f, Sigma := D.Sigma, delta := D.delta.map (fun e => ((f e.1.1, e.1.2), f e.2)),
    q0 := f D.q0, F := D.F.map f }

/-- `dfa_reverse` with the fresh initial state given as a parameter (`fresh_state(D.Q,'q')`). -/
def DFA.reverse (D : DFA σ τ) (fresh : σ) (eps : τ) : NFA σ τ :=
  let addEdge (d : Dict (σ × τ) (List σ)) (e : (σ × τ) × σ) : Dict (σ × τ) (List σ) :=
    let key := (e.2, e.1.2)
    d.set key (sinsert ((d.lookup key).getD []) e.1.1)
  { Q := sinsert D.Q fresh
    Sigma := D.Sigma
    delta := (D.delta.foldl addEdge []).set (fresh, eps) D.F
    q0 := fresh
    F := [D.q0]
    eps := eps }

/-- `dfa_no_prefix`. -/
def DFA.noPrefix (D : DFA σ τ) (eps : τ) : NFA σ τ :=
  { Q := D.Q
    Sigma := D.Sigma
    delta := (D.delta.filter fun e => decide (e.1.1 ∉ D.F)).map fun e => (e.1, [e.2])
    q0 := D.q0
    F := D.F
    eps := eps }

/-- `dfa_reachable_states(D, q, depth)`: breadth-first levels; `discovered` starts as `{q}` when
    `depth == 0` and as `∅` otherwise. -/
def DFA.reachLoop (D : DFA σ τ) : Nat → List σ → List σ → Except Err (List σ)
  | 0, _, _ => .error .fuel
  | fuel + 1, V, discovered =>
    let step := fun (acc : List σ × List σ) (v : σ) =>
      if v ∈ acc.1 then acc else (acc.1 ++ [v], acc.2 ++ [v])
    let succs := V.flatMap fun u => D.Sigma.map fun a => D.next u a
    let (disc', vnext) := succs.foldl step (discovered, [])
    if vnext.isEmpty then .ok disc' else DFA.reachLoop D fuel vnext disc'

def DFA.reachableStates (D : DFA σ τ) (q : σ) (depth : Nat) : Except Err (List σ) :=
  DFA.reachLoop D (D.Q.length + 2) [q] (if depth = 0 then [q] else [])

/-- `dfa_remove_unreachable_states`. -/
def DFA.removeUnreachable (D : DFA σ τ) : Except Err (DFA σ τ) := do
  let Q1 ← D.reachableStates D.q0 0
  DFA.checked { Q := Q1, Sigma := D.Sigma, delta := D.delta.filter (fun e => decide (e.1.1 ∈ Q1)),
                q0 := D.q0, F := sinter D.F Q1 }

/-- `dfa_no_extend`. -/
def DFA.noExtend (D : DFA σ τ) : Except Err (DFA σ τ) := do
  let F ← D.F.filterM fun qf => do
    let R ← D.reachableStates qf 1
    pure (sinter R D.F).isEmpty
  DFA.checked { D with F := F }

/-- `dfa_make_total` with the trap state given (`fresh_state(Q,'trap')`). -/
def DFA.makeTotal (D : DFA σ τ) (trap : σ) : DFA σ τ :=
  let Q := sinsert D.Q trap
  let missing := Q.flatMap fun q => (D.Sigma.filter fun a => !D.delta.has (q, a)).map fun a => ((q, a), trap)
  { D with Q := Q, delta := D.delta ++ missing }

end

/-! ### String-level naming -/

/-- `sorted(names)` for Python `str` (code-point lexicographic order). -/
def sortStrings (l : List String) : List String := l.mergeSort (fun a b => decide (a ≤ b))

/-- `print_state_set`. -/
def printStateSet (Q : List String) : String := "{" ++ ",".intercalate (sortStrings (dedup Q)) ++ "}"

/-- `fresh_state(Q, hint)`: first of `hint1, hint2, …` not in `Q`. -/
def freshStateAux (Q : List String) (hint : String) : Nat → Nat → String
  | 0, i => hint ++ toString i
  | fuel + 1, i => if hint ++ toString i ∈ Q then freshStateAux Q hint fuel (i + 1) else hint ++ toString i

def freshState (Q : List String) (hint : String) : String := freshStateAux Q hint (Q.length + 1) 1

def productName (p : String × String) : String := "(" ++ p.1 ++ "," ++ p.2 ++ ")"

end Gamba
