/-
  Gamba.Model.Simulate — executable models of the witness-producing routines:
  `nfa_simulate_word` (+ `nfa_do_transition`, `nfa_find_epsilon_path`, `nfa_find_transition`),
  `pda_simulate_word` (+ the PDA twins) and `cfg_derive_word` (parse tree from the CYK table,
  leftmost / rightmost extraction).  All as repaired (back-pointers only on first visit;
  non-binary alternatives skipped by `find_rule`).
-/
import Gamba.Model.NFA
import Gamba.Model.PDA
import Gamba.Model.CFG
namespace Gamba

/-! ### generic back-pointer search (shared by the NFA and PDA versions) -/
section Search
variable {α : Type} [DecidableEq α]

/-- `make_path`: follow back-pointers from `q` until an element of `R` is reached -/
def makePath (R : List α) (bp : Dict α α) : Nat → α → List α → Except Err (List α)
  | 0, _, _ => .error .fuel
  | fuel + 1, q, path =>
    if q ∈ R then .ok (q :: path)
    else match bp.lookup q with
      | none => .error .keyError
      | some p => makePath R bp fuel p (q :: path)

structure SearchState (α : Type) where
  visited : List α
  todo : List α
  bp : Dict α α

/-- the `for q in Q1` loop: first unvisited target gets its back-pointer; stop when `f` is found -/
def searchTargets (f src : α) : List α → SearchState α → SearchState α × Bool
  | [], st => (st, false)
  | q :: qs, st =>
    if q ∈ st.visited then searchTargets f src qs st
    else
      let st' : SearchState α := { visited := st.visited ++ [q], todo := st.todo ++ [q], bp := st.bp ++ [(q, src)] }
      if q = f then (st', true) else searchTargets f src qs st'

/-- `*_find_epsilon_path(R, f)` for an ε-successor function `succ` -/
def searchLoop (succ : α → List α) (R : List α) (f : α) : Nat → Sched → SearchState α → Except Err (Option (List α))
  | 0, _, st => if st.todo.isEmpty then .ok none else .error .fuel
  | fuel + 1, s, st =>
    let (i, s') := s.next
    match pickAt st.todo i with
    | none => .ok none
    | some (src, rest) =>
      let (st', found) := searchTargets f src (succ src) { st with todo := rest }
      if found then do
        let p ← makePath R st'.bp (st'.bp.length + 1) f []
        pure (some p)
      else searchLoop succ R f fuel s' st'

def findPath (succ : α → List α) (fuel : Nat) (s : Sched) (R : List α) (f : α) : Except Err (Option (List α)) :=
  if f ∈ R then .ok (some [f])
  else searchLoop succ R f fuel s { visited := dedup R, todo := dedup R, bp := [] }

end Search

/-! ### NFA -/
section NFA
variable {σ τ : Type} [DecidableEq σ] [DecidableEq τ]

/-- `nfa_do_transition` -/
def NFA.doTransition (N : NFA σ τ) (a : τ) (R : List σ) : List σ := sunions (R.map fun r => N.succ r a)

/-- `nfa_find_epsilon_path` -/
def NFA.findEpsPath (N : NFA σ τ) (s : Sched) (R : List σ) (f : σ) : Except Err (Option (List σ)) :=
  findPath (fun q => N.succ q N.eps) (N.Q.length + R.length + 1) s R f

/-- `nfa_find_transition`: some `src ∈ R` with `src --a--> target` -/
def NFA.findTransition (N : NFA σ τ) (R : List σ) (a : τ) (target : σ) : Option σ :=
  R.find? fun src => decide (target ∈ N.succ src a)

/-- forward history `H` (raw and closed sets, most recent first) -/
def NFA.history (N : NFA σ τ) (s : Sched) : List τ → List σ → List (List σ) → Except Err (List (List σ))
  | [], _, H => .ok H
  | a :: w, R, H => do
    let R1 := N.doTransition a R
    let R2 ← N.closure s R1
    NFA.history N s w R2 (R2 :: R1 :: H)

/-- backward reconstruction: `rev` = the symbols still to undo (last symbol first), `H` = remaining history -/
def NFA.rebuild (N : NFA σ τ) (s : Sched) :
    List τ → List (List σ) → σ → List τ → List (σ × List τ) → Except Err (List (σ × List τ))
  | [], H, front, word, result =>
    match H with
    | S :: _ => do
      match ← N.findEpsPath s S front with
      | none => .error .runtimeError
      | some path => pure (path.dropLast.map (fun r => (r, word)) ++ result)
    | [] => .error .runtimeError
  | a :: rev, H, front, word, result =>
    match H with
    | S1 :: S2 :: H' => do
      match ← N.findEpsPath s S1 front with
      | none => .error .runtimeError
      | some path =>
        let result1 := path.dropLast.map (fun r => (r, word)) ++ result
        let front1 := path.headD front
        match N.findTransition S2 a front1 with
        | none => .error .runtimeError
        | some front2 => NFA.rebuild N s rev H' front2 (a :: word) ((front2, a :: word) :: result1)
    | _ => .error .runtimeError

/-- `nfa_simulate_word`: `none` when the word is rejected -/
def NFA.simulate (N : NFA σ τ) (s : Sched) (w : List τ) : Except Err (Option (List (σ × List τ))) := do
  let R0 ← N.closure s [N.q0]
  let H ← N.history s w R0 [R0, [N.q0]]
  match H with
  | [] => .error .runtimeError
  | S :: H' =>
    let cands := S.filter fun r => decide (r ∈ N.F)
    match pickAt cands s.next.1 with
    | none => pure none
    | some (front, _) => do
      let r ← N.rebuild s w.reverse H' front [] [(front, [])]
      pure (some r)
end NFA

/-! ### PDA -/
section PDA
variable {σ τ γ : Type} [DecidableEq σ] [DecidableEq τ] [DecidableEq γ]

def PDA.findEpsPath (P : PDA σ τ γ) (fuel : Nat) (s : Sched) (R : List (PConf σ γ)) (f : PConf σ γ) :
    Except Err (Option (List (PConf σ γ))) :=
  findPath (P.moves P.eps) fuel s R f

def PDA.findTransition (P : PDA σ τ γ) (R : List (PConf σ γ)) (a : τ) (target : PConf σ γ) : Option (PConf σ γ) :=
  R.find? fun src => decide (target ∈ P.moves a src)

def PDA.history (P : PDA σ τ γ) (limit : Nat) (s : Sched) :
    List τ → List (PConf σ γ) → List (List (PConf σ γ)) → List (List (PConf σ γ))
  | [], _, H => H
  | a :: w, R, H =>
    let R1 := P.doTransition a R
    let R2 := (P.epsClosure limit s R1).1
    PDA.history P limit s w R2 (R2 :: R1 :: H)

def PDA.rebuild (P : PDA σ τ γ) (fuel : Nat) (s : Sched) :
    List τ → List (List (PConf σ γ)) → PConf σ γ → List τ → List (σ × List τ × List γ) →
    Except Err (List (σ × List τ × List γ))
  | [], H, front, word, result =>
    match H with
    | S :: _ => do
      match ← P.findEpsPath fuel s S front with
      | none => .error .runtimeError
      | some path => pure (path.dropLast.map (fun r => (r.1, word, r.2)) ++ result)
    | [] => .error .runtimeError
  | a :: rev, H, front, word, result =>
    match H with
    | S1 :: S2 :: H' => do
      match ← P.findEpsPath fuel s S1 front with
      | none => .error .runtimeError
      | some path =>
        let result1 := path.dropLast.map (fun r => (r.1, word, r.2)) ++ result
        let front1 := path.headD front
        match P.findTransition S2 a front1 with
        | none => .error .runtimeError
        | some front2 => PDA.rebuild P fuel s rev H' front2 (a :: word) ((front2.1, a :: word, front2.2) :: result1)
    | _ => .error .runtimeError

/-- `pda_simulate_word` (closure limit `limit`, path-search fuel `fuel`) -/
def PDA.simulate (P : PDA σ τ γ) (limit fuel : Nat) (s : Sched) (w : List τ) :
    Except Err (Option (List (σ × List τ × List γ))) := do
  let R0 := (P.epsClosure limit s [(P.q0, [])]).1
  let H := P.history limit s w R0 [R0, [(P.q0, [])]]
  match H with
  | [] => .error .runtimeError
  | S :: H' =>
    let cands := S.filter fun r => decide (r.1 ∈ P.F)
    match pickAt cands s.next.1 with
    | none => pure none
    | some (front, _) => do
      let r ← P.rebuild fuel s w.reverse H' front [] [(front.1, [], front.2)]
      pure (some r)
end PDA

/-! ### CFG derivations -/
namespace CFG

inductive PTree where
  | leaf (a : String)
  | node (A : String) (children : List PTree)
  deriving Repr, Inhabited

def PTree.label : PTree → Sym
  | .leaf a => .t a
  | .node A _ => .v A

/-- `find_rule`: first binary alternative `B C` of `A` with `B ∈ X[p,m-1]`, `C ∈ X[m,q-1]` -/
def findRule (G : CFG) (A : String) (Xpm Xmq : List String) : Option (String × String) :=
  (G.prods A).findSome? fun rhs =>
    match rhs with
    | [x, y] => if x.name ∈ Xpm ∧ y.name ∈ Xmq then some (x.name, y.name) else none
    | _ => none

/-- the parse tree below node `(A, p, q)`; the split point is the first `m` for which a rule is found -/
def buildTree (G : CFG) (X : CykTable) (w : List String) : Nat → String → Nat → Nat → PTree
  | 0, A, _, _ => .node A []
  | fuel + 1, A, p, q =>
    if q - p = 1 then .node A [.leaf (w.getD p "")]
    else
      match (List.range (q - p - 1)).findSome? (fun d =>
        let m := p + 1 + d
        (findRule G A (cykGet X p (m - 1)) (cykGet X m (q - 1))).map fun bc => (m, bc)) with
      | none => .node A []
      | some (m, (B, C)) => .node A [buildTree G X w fuel B p m, buildTree G X w fuel C m q]

def replaceAt (l : List Sym) (pos : Nat) (value : List Sym) : List Sym := l.take pos ++ value ++ l.drop (pos + 1)

def lastIdxOf (l : List Sym) (x : Sym) : Nat := l.length - 1 - (l.reverse.idxOf x)

/-- `extract_derivation(root, leftmost)` with a work list of subtrees -/
def extractLoop (leftmost : Bool) : Nat → List PTree → List Sym → List (List Sym) → List (List Sym)
  | 0, _, _, result => result
  | _ + 1, [], _, result => result
  | fuel + 1, todo, element, result =>
    let (t, rest) := if leftmost then (todo.head!, todo.tail) else (todo.getLast!, todo.dropLast)
    match t with
    | .leaf _ => extractLoop leftmost fuel rest element result
    | .node _ [] => extractLoop leftmost fuel rest element result
    | .node A children =>
      let value := children.map PTree.label
      let pos := if leftmost then element.idxOf (.v A) else lastIdxOf element (.v A)
      let element' := replaceAt element pos value
      let todo' := if leftmost then children ++ rest else rest ++ children
      extractLoop leftmost fuel todo' element' (result ++ [element'])

def PTree.size : PTree → Nat
  | .leaf _ => 1
  | .node _ cs => 1 + sizeList cs
where sizeList : List PTree → Nat
  | [] => 0
  | t :: ts => t.size + sizeList ts

/-- `cfg_derive_word(G, w, derivation_type)`; `leftmost = true` for 'any' and 'leftmost' -/
def deriveWord (G : CFG) (w : List String) (leftmost : Bool) : Except Err (List (List Sym)) := do
  let X ← G.cykMatrix w
  let n := w.length
  if decide (G.S ∈ cykGet X 0 (n - 1)) = false then .error .runtimeError else
  let root := buildTree G X w (n + 1) G.S 0 n
  pure (extractLoop leftmost (root.size + 1) [root] [.v G.S] [[.v G.S]])

end CFG
end Gamba
