/-
  Gamba.Model.Text — the few Python `str` operations used by the parsers and checkers, on
  `List Char` (ASCII whitespace and ASCII `\w` only; see DESIGN.md "modelled, not verified").
-/
import Gamba.Model.Basic
namespace Gamba
namespace Text

def isSpace (c : Char) : Bool := c == ' ' || c == '\t' || c == '\n' || c == '\r' || c == '\x0b' || c == '\x0c'

/-- `\w` restricted to ASCII, plus the two non-ASCII symbols the library documents (ε and □ are matched by Python's `\w`? no:
    only letters/digits/underscore; ε is a Unicode letter, □ is not) -/
def isWordChar (c : Char) : Bool := c.isAlphanum || c == '_' || c == 'ε'

/-- `s.split(sep)` for a single-character separator (always at least one piece) -/
def splitOn (sep : Char) : List Char → List (List Char)
  | [] => [[]]
  | c :: cs =>
    if c = sep then [] :: splitOn sep cs
    else match splitOn sep cs with
      | [] => [[c]]
      | p :: ps => (c :: p) :: ps

/-- `s.split()` : maximal runs of non-whitespace characters -/
def splitWs : List Char → List (List Char)
  | [] => []
  | c :: cs =>
    if isSpace c then splitWs cs
    else match splitWs cs with
      | [] => [[c]]
      | p :: ps =>
        match cs with
        | d :: _ => if isSpace d then [c] :: p :: ps else (c :: p) :: ps
        | [] => [[c]]

def dropWhileSpace : List Char → List Char
  | [] => []
  | c :: cs => if isSpace c then dropWhileSpace cs else c :: cs

/-- `s.strip()` -/
def strip (l : List Char) : List Char := (dropWhileSpace (dropWhileSpace l).reverse).reverse

/-- `s.split('=>')` -/
def splitArrow : List Char → List (List Char)
  | [] => [[]]
  | '=' :: '>' :: cs => [] :: splitArrow cs
  | c :: cs =>
    match splitArrow cs with
    | [] => [[c]]
    | p :: ps => (c :: p) :: ps

/-- `s[1:-1]` -/
def inner (l : List Char) : List Char := (l.drop 1).dropLast

def str (l : List Char) : String := String.ofList l

end Text
end Gamba
