/-
  Gamba.Model.CheckAll — the remaining checkers of notebook.py / notebook_experimental.py, on TEXT, for every formalism:
  `check_<kind>_language_from_words` and `check_<kind>_language_from_file` for kind ∈ dfa, nfa, pda, tm, cfg, regexp (the reference
  file may be of ANY of the six kinds: `language_parser` picks the parser from the file extension), `check_number_of_nfa_states`,
  `check_cfg_accepts`, `check_cfg_rejects`.
  PDA enumeration: `limit` = `GambaTools.pda_epsilon_closure_max_iterations` (default 1000), `s` = pop order of the work sets.
  TM enumeration: the default step budget of `tm_words_up_to_n` (1000).
-/
import Gamba.Model.CheckText
import Gamba.Model.CheckCex
namespace Gamba
namespace CheckAll
open Parse CheckText

/-- the six kinds of language descriptions a notebook cell or a reference file can contain -/
inductive Kind | dfa | nfa | pda | tm | cfg | regexp
  deriving DecidableEq, Repr, Inhabited

/-- parameters of the enumerators that are not arguments of the checkers -/
structure Env where
  sched : Sched := []
  pdaLimit : Nat := 1000
  tmBudget : Nat := 1000

/-- `generate_language(parser(text), length)`: the parsed object, its number of states (for `check_max_states`; 0 where the
    checker has no state bound) and its words up to `len`; `none` = the parser or the enumerator raises.
    The truncation flag of the PDA enumeration is dropped: the checker cannot see it. -/
def langOfText (k : Kind) (text : String) (e : Env) (len : Nat) : Option (Nat × CheckCex.Lang) :=
  match k with
  | .dfa => match parseDfa text.toList with
    | .ok A => some ((dedup A.Q).length, A.wordsUpTo len)
    | .error _ => none
  | .nfa => match parseNfa text.toList with
    | .ok A => match A.wordsUpTo e.sched len with
      | .ok L => some ((dedup A.Q).length, L)
      | .error _ => none
    | .error _ => none
  | .pda => match parsePda text.toList with
    | .ok P => some ((dedup P.Q).length, (P.wordsUpTo e.pdaLimit e.sched len).1)
    | .error _ => none
  | .tm => match parseTm text.toList with
    | .ok T => some ((dedup T.Q).length, T.wordsUpTo len e.tmBudget)
    | .error _ => none
  | .cfg => match CfgText.parseSimpleCfg text.toList with
    | .ok (G, _) => some (0, G.wordsUpTo len)
    | .error _ => none
  | .regexp => match RegexpText.parseSimple text with
    | some r => some (0, r.wordsUpTo len)
    | none => none

/-- `check_<kind>_language_from_words(text, word_list, length, max_states)` (cfg / regexp: `max_states = 0`) -/
def languageWords (k : Kind) (answer wordList : String) (e : Env) (len maxStates : Nat) : Verdict :=
  match langOfText k answer e len with
  | some (nQ, L) => ofBool (Check.languageFromWords nQ maxStates L (parseWordList wordList))
  | none => .error

/-- the pair of languages that reaches `compare_languages` in `check_<kind>_language_from_words` -/
def languageWordsLangs (k : Kind) (answer wordList : String) (e : Env) (len : Nat) : Option (CheckCex.Lang × CheckCex.Lang) :=
  match langOfText k answer e len with
  | some (_, L) => some (L, parseWordList wordList)
  | none => none

/-- `check_<kind>_language_from_file(text, filename, length)`; `rk` = kind given by the extension of `filename` -/
def languageFile (k rk : Kind) (answer refText : String) (e : Env) (len : Nat) : Verdict :=
  match langOfText k answer e len, langOfText rk refText e len with
  | some (_, L1), some (_, L2) => ofBool (Check.equalLanguages L1 L2)
  | _, _ => .error

def languageFileLangs (k rk : Kind) (answer refText : String) (e : Env) (len : Nat) : Option (CheckCex.Lang × CheckCex.Lang) :=
  match langOfText k answer e len, langOfText rk refText e len with
  | some (_, L1), some (_, L2) => some (L1, L2)
  | _, _ => none

/-- `check_number_of_nfa_states(nfa, count)`: prints `OK` when the number of states is `count`, NOTHING otherwise (`.feedback`
    stands for "no OK line"), `Error: …` when the text does not parse -/
def numberOfNfaStates (nfa : String) (count : Nat) : Verdict :=
  match parseNfa nfa.toList with
  | .ok N => ofBool (decide ((dedup N.Q).length = count))
  | .error _ => .error

/-- `check_cfg_accepts(cfg, word_list)`: OK iff every listed word is accepted; the failures are printed as a set -/
def cfgAccepts (cfg wordList : String) : Verdict × List (List String) :=
  match CfgText.parseSimpleCfg cfg.toList with
  | .ok (G, _) =>
    match (parseWordList wordList).mapM (fun w => (G.accepts w).map fun b => (w, b)) with
    | .ok r => let failures := (r.filter fun p => !p.2).map (·.1)
               (ofBool failures.isEmpty, failures)
    | .error _ => (.error, [])
  | .error _ => (.error, [])

/-- `check_cfg_rejects(cfg, word_list)` (no try/except: `.error` = the call raises) -/
def cfgRejects (cfg wordList : String) : Verdict × List (List String) :=
  match CfgText.parseSimpleCfg cfg.toList with
  | .ok (G, _) =>
    match (parseWordList wordList).mapM (fun w => (G.accepts w).map fun b => (w, b)) with
    | .ok r => let failures := (r.filter fun p => p.2).map (·.1)
               (ofBool failures.isEmpty, failures)
    | .error _ => (.error, [])
  | .error _ => (.error, [])

/-- the word list printed by the notebook generator's `generate` command: `' '.join(word if word else 'ε' for word in words)` -/
def renderWords (L : CheckCex.Lang) : String :=
  String.intercalate " " (L.map fun w => if w.isEmpty then "ε" else String.join w)

end CheckAll
end Gamba
