/-
  Gamba.Model.GNFA — executable models of `regexp_to_nfa` (Thompson composition with generated
  state names and the shared alphabet accumulator) and of `dfa_to_gnfa`, `gnfa_minimize`,
  `dfa_to_regexp` (state ripping in a scheduler-given order).
-/
import Gamba.Model.Regexp
namespace Gamba

/-! ### regexp → NFA -/

/-- A generated sub-NFA; `shared = true` when its `Sigma` field is the generator's own accumulator
    object (`self.Sigma`), whose content keeps growing after the NFA was built. -/
structure GenNFA where
  N : NFA String String
  shared : Bool

structure GenState where
  counter : Nat
  Sigma : List String        -- `self.Sigma`

def GenNFA.eff (g : GenNFA) (st : GenState) : List String := if g.shared then st.Sigma else g.N.Sigma

def freshQ (st : GenState) : String × GenState := ("q" ++ toString st.counter, { st with counter := st.counter + 1 })

/-- `RegexpToNFAGenerator.generate`; ε is the empty string, as in the library. Errors are the
    assertion errors of the NFA constructor / `nfa_union` / `nfa_concatenation`. -/
def regexpGenerate : Regexp String → GenState → Except Err (GenNFA × GenState)
  | .zero, st =>
    let (q0, st1) := freshQ st
    .ok ({ N := { Q := [q0], Sigma := [], delta := [], q0 := q0, F := [], eps := "" }, shared := true }, st1)
  | .one, st =>
    let (q0, st1) := freshQ st
    .ok ({ N := { Q := [q0], Sigma := [], delta := [], q0 := q0, F := [q0], eps := "" }, shared := true }, st1)
  | .sym a, st =>
    let st0 := { st with Sigma := sinsert st.Sigma a }
    let (q0, st1) := freshQ st0
    let (q1, st2) := freshQ st1
    if a = "" then .error .assertion else
    .ok ({ N := { Q := [q0, q1], Sigma := [], delta := [((q0, a), [q1])], q0 := q0, F := [q1], eps := "" },
           shared := true }, st2)
  | .star r, st => do
    let (g, st1) ← regexpGenerate r st
    let N := { g.N with Sigma := g.eff st1 }
    let (q0, c) := genFresh N.Q st1.counter
    let R ← N.repetition q0
    pure ({ N := R, shared := g.shared }, { st1 with counter := c })
  | .sum r s, st => do
    let (g1, st1) ← regexpGenerate r st
    let (g2, st2) ← regexpGenerate s st1
    let N1 := { g1.N with Sigma := g1.eff st2 }
    let N2 := { g2.N with Sigma := g2.eff st2 }
    if !sdisjoint N1.Q N2.Q then .error .assertion else
    let (q0, c) := genFresh (sunion N1.Q N2.Q) st2.counter
    let R ← N1.union N2 q0
    pure ({ N := R, shared := false }, { st2 with counter := c })
  | .cat r s, st => do
    let (g1, st1) ← regexpGenerate r st
    let (g2, st2) ← regexpGenerate s st1
    let N1 := { g1.N with Sigma := g1.eff st2 }
    let N2 := { g2.N with Sigma := g2.eff st2 }
    let R ← N1.concat N2
    pure ({ N := R, shared := false }, st2)

/-- `regexp_to_nfa` -/
def regexpToNfa (r : Regexp String) : Except Err (NFA String String) := do
  let (g, st) ← regexpGenerate r { counter := 0, Sigma := [] }
  pure { g.N with Sigma := g.eff st }

/-! ### DFA → GNFA → regexp -/

structure GNFA (σ τ : Type) where
  Q : List σ
  Sigma : List τ
  delta : Dict (σ × σ) (Regexp τ)
  qStart : σ
  qAccept : σ

variable {σ τ : Type} [DecidableEq σ] [DecidableEq τ]

/-- `delta1[q, q1]` of the `defaultdict(lambda: Zero())` -/
def GNFA.get (G : GNFA σ τ) (p q : σ) : Regexp τ := (G.delta.lookup (p, q)).getD .zero

/-- `dfa_to_gnfa` with the two fresh states supplied -/
def DFA.toGnfa (D : DFA σ τ) (qStart qAccept : σ) : GNFA σ τ :=
  let d0 : Dict (σ × σ) (Regexp τ) := [((qStart, D.q0), .one)]
  let d1 := D.F.foldl (fun d q => d.set (q, qAccept) .one) d0
  let d2 := D.delta.foldl (fun d e =>
    let key := (e.1.1, e.2)
    match d.lookup key with
    | some r => d.set key (.sum r (.sym e.1.2))
    | none => d.set key (.sym e.1.2)) d1
  { Q := sinsert (sinsert D.Q qAccept) qStart, Sigma := D.Sigma, delta := d2, qStart := qStart, qAccept := qAccept }

/-- rip one state: `delta[q_i, q_j] = simplify(R1 . (R2* . R3) + R4)` for all remaining `q_i ≠ accept`, `q_j ≠ start` -/
def GNFA.rip (G : GNFA σ τ) (q : σ) : GNFA σ τ :=
  let Q' := G.Q.filter (· ≠ q)
  let R2 := G.get q q
  let d := (Q'.filter (· ≠ G.qAccept)).foldl (fun d qi =>
    let R1 := G.get qi q
    (Q'.filter (· ≠ G.qStart)).foldl (fun d qj =>
      let R3 := G.get q qj
      let R4 := (d.lookup (qi, qj)).getD .zero
      d.set (qi, qj) (Regexp.simplify (.sum (.cat R1 (.cat (.star R2) R3)) R4))) d) G.delta
  { G with Q := Q', delta := d }

/-- `gnfa_minimize` with the order in which the states are ripped -/
def GNFA.minimize (G : GNFA σ τ) (order : List σ) : GNFA σ τ := order.foldl GNFA.rip G

/-- `dfa_to_regexp`, given the elimination order (a permutation of `D.Q`) -/
def DFA.toRegexp (D : DFA σ τ) (qStart qAccept : σ) (order : List σ) : Regexp τ :=
  let G := (D.toGnfa qStart qAccept).minimize order
  G.get qStart qAccept

end Gamba

namespace Gamba
/-- the names `dfa_to_gnfa` picks (as repaired) -/
def gnfaNames (Q : List String) : String × String :=
  (if "start" ∈ Q then freshState Q "start" else "start", if "accept" ∈ Q then freshState Q "accept" else "accept")
end Gamba
