/-
  Gamba.Model.Heap — alias micro-model for C19: the target sets of an NFA's δ are heap objects
  (Python `set`s), so that "the operand is not modified" can be stated and proved for the
  constructions that update sets in place (`delta[q, eps] |= {…}`).  Two versions of
  `nfa_repetition` / `nfa_concatenation` are modelled: the original code (shallow
  `delta.update(N.delta)`, sharing the operand's set objects) and the repaired code
  (`_nfa_copy_delta`, fresh copies).
-/
import Gamba.Model.Basic
namespace Gamba
namespace Heap

abbrev Addr := Nat

/-- the heap: address ↦ content of a Python set -/
abbrev Store (σ : Type) := List (List σ)

/-- an NFA whose δ maps keys to ADDRESSES of set objects -/
structure HNFA (σ τ : Type) where
  Q : List σ
  delta : Dict (σ × τ) Addr
  q0 : σ
  F : List σ
  eps : τ

variable {σ τ : Type} [DecidableEq σ] [DecidableEq τ]

def Store.read (h : Store σ) (a : Addr) : List σ := h.getD a []

/-- `new set(content)` -/
def Store.alloc (h : Store σ) (content : List σ) : Store σ × Addr := (h ++ [content], h.length)

/-- `S |= X` in place -/
def Store.unionInPlace (h : Store σ) (a : Addr) (X : List σ) : Store σ := h.set a (sunion (h.read a) X)

/-- the observable δ of an NFA: keys with the CONTENT of their sets -/
def HNFA.view (N : HNFA σ τ) (h : Store σ) : List ((σ × τ) × List σ) := N.delta.map fun e => (e.1, h.read e.2)

/-- `delta[q, eps] |= {t}` on a `defaultdict(set)`: mutate the existing set object, or create a new one -/
def addInPlace (d : Dict (σ × τ) Addr) (h : Store σ) (k : σ × τ) (t : σ) : Dict (σ × τ) Addr × Store σ :=
  match d.lookup k with
  | some a => (d, h.unionInPlace a [t])
  | none => let (h', a) := h.alloc [t]; (d ++ [(k, a)], h')

/-- ORIGINAL `nfa_repetition`: `delta.update(N.delta)` shares the operand's set objects -/
def repetitionShared (N : HNFA σ τ) (h : Store σ) (q0 : σ) : HNFA σ τ × Store σ :=
  let F := sinsert N.F q0
  let (d1, h1) := F.foldl (fun (acc : Dict (σ × τ) Addr × Store σ) q => addInPlace acc.1 acc.2 (q, N.eps) N.q0) (N.delta, h)
  let (h2, a) := h1.alloc [N.q0]
  ({ Q := sinsert N.Q q0, delta := d1.set (q0, N.eps) a, q0 := q0, F := F, eps := N.eps }, h2)

/-- `_nfa_copy_delta`: every set is copied into a fresh object -/
def copyDelta (d : Dict (σ × τ) Addr) (h : Store σ) : Dict (σ × τ) Addr × Store σ :=
  d.foldl (fun (acc : Dict (σ × τ) Addr × Store σ) e =>
    let (h', a) := acc.2.alloc (acc.2.read e.2)
    (acc.1 ++ [(e.1, a)], h')) ([], h)

/-- REPAIRED `nfa_repetition` -/
def repetitionCopied (N : HNFA σ τ) (h : Store σ) (q0 : σ) : HNFA σ τ × Store σ :=
  let F := sinsert N.F q0
  let (d0, h0) := copyDelta N.delta h
  let (d1, h1) := F.foldl (fun (acc : Dict (σ × τ) Addr × Store σ) q => addInPlace acc.1 acc.2 (q, N.eps) N.q0) (d0, h0)
  let (h2, a) := h1.alloc [N.q0]
  ({ Q := sinsert N.Q q0, delta := d1.set (q0, N.eps) a, q0 := q0, F := F, eps := N.eps }, h2)

/-- REPAIRED `nfa_concatenation` (both operands copied, then `delta[f, eps] |= {N2.q0}` for f ∈ N1.F) -/
def concatCopied (N1 N2 : HNFA σ τ) (h : Store σ) : HNFA σ τ × Store σ :=
  let (d1, h1) := copyDelta N1.delta h
  let (d2, h2) := copyDelta N2.delta h1
  let (d3, h3) := N1.F.foldl (fun (acc : Dict (σ × τ) Addr × Store σ) q => addInPlace acc.1 acc.2 (q, N1.eps) N2.q0) (d1 ++ d2, h2)
  ({ Q := sunion N1.Q N2.Q, delta := d3, q0 := N1.q0, F := N2.F, eps := N1.eps }, h3)

/-- ORIGINAL `nfa_concatenation` -/
def concatShared (N1 N2 : HNFA σ τ) (h : Store σ) : HNFA σ τ × Store σ :=
  let (d3, h3) := N1.F.foldl (fun (acc : Dict (σ × τ) Addr × Store σ) q => addInPlace acc.1 acc.2 (q, N1.eps) N2.q0) (N1.delta ++ N2.delta, h)
  ({ Q := sunion N1.Q N2.Q, delta := d3, q0 := N1.q0, F := N2.F, eps := N1.eps }, h3)

/-- all addresses of the operand are allocated -/
def HNFA.WF (N : HNFA σ τ) (h : Store σ) : Prop := ∀ e, e ∈ N.delta → e.2 < h.length

end Heap
end Gamba
