/-
  Gamba.Model.Lang — executable model of gambatools/language_algorithms.py (finite languages)
  and of compare_languages (language_generator.py).  A word is a `List τ` (Python iterates a `str`
  character by character); a finite language is a list of words read as a set.
-/
import Gamba.Model.Basic
namespace Gamba
variable {τ : Type} [DecidableEq τ]

def langUnion (L1 L2 : List (List τ)) := sunion L1 L2
def langInter (L1 L2 : List (List τ)) := sinter L1 L2
def langSymDiff (L1 L2 : List (List τ)) := sunion (sdiff L1 L2) (sdiff L2 L1)

/-- `concatenation`. -/
def langConcat (L1 L2 : List (List τ)) : List (List τ) :=
  dedup (L1.flatMap fun x => L2.map fun y => x ++ y)

/-- `language_reverse`. -/
def langReverse (L : List (List τ)) : List (List τ) := dedup (L.map List.reverse)

/-- `w[:i] for i in range(len(w))` -/
def properPrefixes (w : List τ) : List (List τ) := (List.range w.length).map fun i => w.take i

/-- `language_no_prefix` (as repaired). -/
def langNoPrefix (L : List (List τ)) : List (List τ) :=
  L.filter fun w => !(properPrefixes w).any fun u => decide (u ∈ L)

/-- `language_no_extend`. -/
def langNoExtend (L : List (List τ)) : List (List τ) :=
  L.filter fun w => L.all fun v => !(w.isPrefixOf v && decide (v ≠ w))

/-- `compare_languages(A1, A2)`: `A1` the answer, `A2` the expected language.
    Result: `none` (empty feedback), or the reported word with its polarity
    (`true` = "should not be accepted", i.e. extra; `false` = "should be accepted", i.e. missing).
    `sorted(..., key=len)` is stable, so the first word of minimal length is reported. -/
def firstShortest : List (List τ) → Option (List τ)
  | [] => none
  | w :: l =>
    match firstShortest l with
    | none => some w
    | some v => if v.length < w.length then some v else some w

def compareLanguages (A1 A2 : List (List τ)) : Option (List τ × Bool) :=
  match firstShortest (sdiff (dedup A1) A2) with
  | some w => some (w, true)
  | none =>
    match firstShortest (sdiff (dedup A2) A1) with
    | some w => some (w, false)
    | none => none

end Gamba
