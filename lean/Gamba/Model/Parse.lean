/-
  Gamba.Model.Parse — executable model of the line-oriented automaton text format:
  `AutomatonParser` (keyword / transition line dispatch, duplicate detection), `AutomatonBuilder`
  (declared-versus-used checks, defaults) and the four builders `DFABuilder`, `NFABuilder`,
  `PDABuilder`, `TMBuilder` of automaton_algorithms.py / dfa|nfa|pda|tm_algorithms.py, and of the
  four printers `print_dfa`, `print_nfa`, `print_pda`, `print_tm`.
  Text is `List Char`; `\w` and whitespace are the ASCII classes of Model/Text.lean.
  Every rejection (RuntimeError or constructor AssertionError) is an `Except.error`.
-/
import Gamba.Model.Text
import Gamba.Model.NFA
import Gamba.Model.PDA
import Gamba.Model.TM
namespace Gamba
namespace Parse
open Text

abbrev Word := List Char

inductive Kind | dfa | nfa | pda | tm
  deriving DecidableEq, Repr

def keywords : Kind → List String
  | .dfa => ["input_symbols"]
  | .nfa => ["input_symbols", "epsilon"]
  | .pda => ["input_symbols", "stack_symbols", "epsilon"]
  | .tm => ["input_symbols", "tape_symbols", "blank", "accept", "reject"]

/-- `re.fullmatch(r'\w+', s)` -/
def isWord (s : Word) : Bool := !s.isEmpty && s.all isWordChar

/-- the PDA / TM label symbol class `[\w\d~!@#$%^&*]` (plus `□` for TMs) -/
def isLabelSym (tm : Bool) (c : Char) : Bool :=
  isWordChar c || "~!@#$%^&*".toList.contains c || (tm && c == '□')

/-- transition label regex of each kind: `.+` / `\w,SS` / `SS,[LR]` -/
def labelOk : Kind → Word → Bool
  | .dfa, l => !l.isEmpty
  | .nfa, l => !l.isEmpty
  | .pda, l => match l with
    | [a, ',', u, v] => isWordChar a && isLabelSym false u && isLabelSym false v
    | _ => false
  | .tm, l => match l with
    | [a, b, ',', d] => isLabelSym true a && isLabelSym true b && (d == 'L' || d == 'R')
    | _ => false

structure Raw where
  states : List String := []
  transitions : List (String × Word × String) := []
  initial : List String := []
  final : List String := []
  items : Dict String (List String) := []

def hasDup (ws : List String) : Bool := (dedup ws).length ≠ ws.length

/-- `AutomatonParser.parse_line` -/
def parseLine (k : Kind) (stateOk : Word → Bool) (st : Raw) (line : Word) : Except Err Raw :=
  let words := splitWs (strip line)
  match words with
  | [] => .ok st
  | w0 :: rest =>
    let restS := rest.map str
    if w0.head? == some '%' then .ok st
    else if str w0 = "states" ∨ str w0 = "final" ∨ str w0 = "initial" then
      let key := str w0
      if st.items.lookup key |>.isSome then .error .runtimeError
      else if hasDup restS then .error .runtimeError
      else if key = "states" ∧ rest.isEmpty then .error .runtimeError
      else if !rest.all stateOk then .error .runtimeError
      else
        let st' := { st with items := st.items ++ [(key, restS)] }
        if key = "states" then .ok { st' with states := restS }
        else if key = "final" then .ok { st' with final := restS }
        else .ok { st' with initial := restS }
    else if str w0 ∈ keywords k then
      if st.items.lookup (str w0) |>.isSome then .error .runtimeError
      else .ok { st with items := st.items ++ [(str w0, restS)] }
    else
      match rest with
      | [] => .error .runtimeError
      | [_] => .error .runtimeError
      | q :: labels =>
        if !stateOk w0 || !stateOk q then .error .runtimeError
        else if !labels.all (labelOk k) then .error .runtimeError
        else .ok { st with transitions := st.transitions ++ labels.map fun l => (str w0, l, str q) }

/-- `AutomatonParser.parse` -/
def parseRaw (k : Kind) (stateOk : Word → Bool) (text : Word) : Except Err Raw :=
  (splitOn '\n' text).foldlM (parseLine k stateOk) {}

def usedStates (A : Raw) : List String :=
  dedup (A.initial ++ A.final ++ A.transitions.flatMap fun t => [t.1, t.2.2])

/-- the checks shared by all builders; returns the automaton with its final state set -/
def commonChecks (A : Raw) (extraStates : List String) (stateOk : Word → Bool) : Except Err Raw :=
  let states := if A.states.isEmpty then dedup (usedStates A ++ extraStates) else A.states
  if !ssubset (usedStates A) states then .error .runtimeError
  else if !states.all (fun s => stateOk s.toList) then .error .runtimeError
  else if A.initial.length ≠ 1 then .error .runtimeError
  else .ok { A with states := states }

/-- `get_symbol_set(key, used)`: declared set (after checking it covers the used symbols, when any are used), else `used` -/
def getSymbolSet (A : Raw) (key : String) (used : List String) : Except Err (List String) :=
  match A.items.lookup key with
  | some declared =>
    if !used.isEmpty ∧ !ssubset used declared then .error .runtimeError else .ok (dedup declared)
  | none => .ok used

/-- `parse_symbol(key, value, default)`: declared value, else `value` if it occurs inside some label, else `default` -/
def parseSymbol (A : Raw) (key : String) (value : Char) (dflt : String) : Except Err String :=
  match A.items.lookup key with
  | some [v] => .ok v
  | some _ => .error .runtimeError
  | none => .ok (if A.transitions.any (fun t => t.2.1.contains value) then String.singleton value else dflt)

def wordsOk (l : List String) : Bool := l.all fun s => isWord s.toList

def initialOf (A : Raw) : String := A.initial.headD ""

/-- `parse_dfa` -/
def parseDfa (text : Word) (stateOk : Word → Bool := isWord) : Except Err (DFA String String) := do
  let A0 ← parseRaw .dfa stateOk text
  let A ← commonChecks A0 [] stateOk
  let keys := A.transitions.map fun t => (t.1, str t.2.1)
  if hasDupPairs keys then .error .runtimeError else
  let used := dedup (A.transitions.map fun t => str t.2.1)
  let Sigma ← getSymbolSet A "input_symbols" used
  if !wordsOk Sigma then .error .runtimeError else
  if !(A.states.all fun p => Sigma.all fun a => decide ((p, a) ∈ keys)) then .error .runtimeError else
  DFA.checked { Q := A.states, Sigma := Sigma, delta := A.transitions.map fun t => ((t.1, str t.2.1), t.2.2),
                q0 := initialOf A, F := A.final }
where hasDupPairs (l : List (String × String)) : Bool := (dedup l).length ≠ l.length

/-- group the transitions of an NFA-like automaton into δ (insertion order of first key occurrence) -/
def groupNfa (ts : List (String × String × String)) : Dict (String × String) (List String) :=
  ts.foldl (fun d t => d.set (t.1, t.2.1) (sinsert ((d.lookup (t.1, t.2.1)).getD []) t.2.2)) []

/-- `parse_nfa` -/
def parseNfa (text : Word) (stateOk : Word → Bool := isWord) : Except Err (NFA String String) := do
  let A0 ← parseRaw .nfa stateOk text
  let A ← commonChecks A0 [] stateOk
  let eps ← parseSymbol A "epsilon" 'ε' "_"
  let used := dedup ((A.transitions.map fun t => str t.2.1).filter (· ≠ eps))
  let Sigma ← getSymbolSet A "input_symbols" used
  if !wordsOk Sigma then .error .runtimeError else
  NFA.checked { Q := A.states, Sigma := Sigma, delta := groupNfa (A.transitions.map fun t => (t.1, str t.2.1, t.2.2)),
                q0 := initialOf A, F := A.final, eps := eps }

/-- `parse_pda` -/
def parsePda (text : Word) (stateOk : Word → Bool := isWord) : Except Err SPDA := do
  let A0 ← parseRaw .pda stateOk text
  let A ← commonChecks A0 [] stateOk
  let eps ← parseSymbol A "epsilon" 'ε' "_"
  let ch := fun (l : Word) (i : Nat) => String.singleton (l.getD i ' ')
  let usedIn := dedup ((A.transitions.map fun t => ch t.2.1 0).filter (· ≠ eps))
  let usedSt := dedup ((A.transitions.flatMap fun t => [ch t.2.1 2, ch t.2.1 3]).filter (· ≠ eps))
  let Sigma ← getSymbolSet A "input_symbols" usedIn
  let Gamma ← getSymbolSet A "stack_symbols" usedSt
  if !wordsOk Sigma then .error .runtimeError else
  let delta := A.transitions.foldl (fun (d : Dict (String × String × String) (List (String × String))) t =>
    let k := (t.1, ch t.2.1 0, ch t.2.1 2)
    d.set k (sinsert ((d.lookup k).getD []) (t.2.2, ch t.2.1 3))) []
  PDA.checked { Q := A.states, Sigma := Sigma, Gamma := Gamma, delta := delta, q0 := initialOf A, F := A.final,
                eps := eps, epsG := eps }

def tmFresh (states : List String) (hint : String) : String :=
  if hint ∉ states then hint else freshState states hint

def TM.checked (T : TM String String) : Except Err (TM String String) :=
  if T.valid then .ok T else .error .assertion

/-- `parse_tm` (as repaired: a declared empty `input_symbols` stays empty) -/
def parseTm (text : Word) (stateOk : Word → Bool := isWord) : Except Err (TM String String) := do
  let A0 ← parseRaw .tm stateOk text
  let getState := fun (key dflt : String) => match A0.items.lookup key with
    | some [v] => Except.ok v
    | some _ => Except.error Err.runtimeError
    | none => Except.ok dflt
  let qa ← getState "accept" (tmFresh A0.states "accept")
  let qr ← getState "reject" (tmFresh A0.states "reject")
  let A ← commonChecks A0 [qa, qr] stateOk
  let blank ← parseSymbol A "blank" '□' "_"
  let ch := fun (l : Word) (i : Nat) => String.singleton (l.getD i ' ')
  let usedTape := dedup (A.transitions.flatMap fun t => [ch t.2.1 0, ch t.2.1 1])
  let tape ← getSymbolSet A "tape_symbols" usedTape
  let Sigma := match A.items.lookup "input_symbols" with
    | some declared => dedup declared
    | none => tape.filter (· ≠ blank)
  let delta := A.transitions.foldl (fun (d : Dict (String × String) (String × String × Dir)) t =>
    d.set (t.1, ch t.2.1 0) (t.2.2, ch t.2.1 1, if t.2.1.getD 3 ' ' == 'L' then Dir.L else Dir.R)) []
  TM.checked { Q := A.states, Sigma := Sigma, Gamma := sinsert tape blank, delta := delta, q0 := initialOf A,
               qAccept := qa, qReject := qr, blank := blank }

/-! ### printers -/

def joinSp (l : List String) : String := " ".intercalate l

/-- the transition lines: labels grouped per `(p, q)` pair (pairs sorted, labels in δ order) -/
def transLines (ts : List (String × String × String)) : List String :=
  let keys := dedup (ts.map fun t => t.1 ++ " " ++ t.2.1)
  (sortStrings keys).map fun k => k ++ " " ++ joinSp ((ts.filter fun t => t.1 ++ " " ++ t.2.1 = k).map (·.2.2))

/-- `print_dfa` (the result is `.strip()`ped) -/
def printDfa (D : DFA String String) : String :=
  str (strip ("\n".intercalate ([ "states " ++ joinSp (sortStrings (dedup D.Q)), "final " ++ joinSp (sortStrings (dedup D.F)),
    "initial " ++ D.q0, "input_symbols " ++ joinSp (sortStrings (dedup D.Sigma)) ] ++
    transLines (D.delta.map fun e => (e.1.1, e.2, e.1.2)))).toList)

/-- `print_nfa` (every line ends with a newline) -/
def printNfa (N : NFA String String) : String :=
  "".intercalate (([ "states " ++ joinSp (sortStrings (dedup N.Q)), "final " ++ joinSp (sortStrings (dedup N.F)),
    "initial " ++ N.q0, "input_symbols " ++ joinSp (sortStrings (dedup N.Sigma)), "epsilon " ++ N.eps ] ++
    transLines (N.delta.flatMap fun e => e.2.map fun q => (e.1.1, q, e.1.2))).map (· ++ "\n"))

/-- `print_pda` -/
def printPda (P : SPDA) : String :=
  "".intercalate (([ "states " ++ joinSp (sortStrings (dedup P.Q)), "final " ++ joinSp (sortStrings (dedup P.F)),
    "initial " ++ P.q0, "input_symbols " ++ joinSp (sortStrings (dedup P.Sigma)),
    "stack_symbols " ++ joinSp (sortStrings (dedup P.Gamma)), "epsilon " ++ P.eps ] ++
    transLines (P.delta.flatMap fun e => e.2.map fun t => (e.1.1, t.1, e.1.2.1 ++ "," ++ e.1.2.2 ++ t.2))).map (· ++ "\n"))

def dirStr : Dir → String | .L => "L" | .R => "R"

/-- `print_tm` -/
def printTm (T : TM String String) : String :=
  "".intercalate (([ "states " ++ joinSp (sortStrings (dedup T.Q)), "initial " ++ T.q0, "accept " ++ T.qAccept,
    "reject " ++ T.qReject, "input_symbols " ++ joinSp (sortStrings (dedup T.Sigma)),
    "tape_symbols " ++ joinSp (sortStrings (dedup T.Gamma)), "blank " ++ T.blank ] ++
    transLines (T.delta.map fun e => (e.1.1, e.2.1, e.1.2 ++ e.2.2.1 ++ "," ++ dirStr e.2.2.2))).map (· ++ "\n"))

end Parse
end Gamba
