/-
  Gamba.Model.RegexpText — the two concrete syntaxes of regular expressions:
  printers `print_regexp` (fully parenthesised), `print_regexp_simple` (minimal parentheses, juxtaposition),
  `Regexp.__str__` (minimal parentheses, ` + ` and ` . `), and a REFERENCE precedence parser for the
  grammars regexp_simple.g4 / regexp.g4 (the library's parsers are ANTLR-generated; the reference parser is tied to
  them by correspondence on generated strings).  Symbols are single letters.
-/
import Gamba.Model.Regexp
namespace Gamba
namespace RegexpText

/-- `precedence(r)` -/
def prec : Regexp String → Nat
  | .zero | .one | .sym _ => 10
  | .star _ => 9
  | .cat _ _ => 8
  | .sum _ _ => 7

def paren (b : Bool) (s : String) : String := if b then "(" ++ s ++ ")" else s

/-- `print_regexp`: every operator application parenthesised -/
def printFull : Regexp String → String
  | .zero => "0"
  | .one => "1"
  | .sym a => a
  | .star r => "(" ++ printFull r ++ ")*"
  | .sum r s => "(" ++ printFull r ++ " + " ++ printFull s ++ ")"
  | .cat r s => "(" ++ printFull r ++ " . " ++ printFull s ++ ")"

/-- `print_regexp_simple`: parentheses only where the operand binds weaker; concatenation by juxtaposition -/
def printSimple : Regexp String → String
  | .zero => "0"
  | .one => "1"
  | .sym a => a
  | .star r => paren (prec r < 9) (printSimple r) ++ "*"
  | .sum r s => paren (prec r < 7) (printSimple r) ++ "+" ++ paren (prec s < 7) (printSimple s)
  | .cat r s => paren (prec r < 8) (printSimple r) ++ paren (prec s < 8) (printSimple s)

/-- `str(r)` (`Regexp.__str__`): like `printSimple` with ` + ` and ` . ` -/
def printStr : Regexp String → String
  | .zero => "0"
  | .one => "1"
  | .sym a => a
  | .star r => paren (prec r < 9) (printStr r) ++ "*"
  | .sum r s => paren (prec r < 7) (printStr r) ++ " + " ++ paren (prec s < 7) (printStr s)
  | .cat r s => paren (prec r < 8) (printStr r) ++ " . " ++ paren (prec s < 8) (printStr s)

/-! ### reference parser -/

inductive Tok where
  | zero | one | plus | star | dot | lp | rp
  | id (s : String)
  deriving DecidableEq, Repr

def isLetter (c : Char) : Bool := c.isAlpha
def isIdStart (c : Char) : Bool := c.isAlpha || c == '_'
def isIdChar (c : Char) : Bool := c.isAlphanum || c == '_'

/-- lexer of regexp_simple.g4: single-letter identifiers, white space skipped, `%` comments to end of line -/
def lexSimple (fuel : Nat) : List Char → Option (List Tok)
  | [] => some []
  | c :: cs =>
    match fuel with
    | 0 => none
    | fuel + 1 =>
      if c == ' ' || c == '\r' || c == '\n' then lexSimple fuel cs
      else if c == '%' then lexSimple fuel (cs.dropWhile (fun d => d != '\r' && d != '\n'))
      else
        let t : Option Tok :=
          if c == '0' then some .zero else if c == '1' then some .one else if c == '+' then some .plus
          else if c == '*' then some .star else if c == '(' then some .lp else if c == ')' then some .rp
          else if isLetter c then some (.id (String.singleton c)) else none
        match t, lexSimple fuel cs with
        | some t, some ts => some (t :: ts)
        | _, _ => none

/-- lexer of regexp.g4: identifiers `[a-zA-Z_][a-zA-Z_0-9]*`, `.` for concatenation -/
def lexFull (fuel : Nat) : List Char → Option (List Tok)
  | [] => some []
  | c :: cs =>
    match fuel with
    | 0 => none
    | fuel + 1 =>
      if c == ' ' || c == '\r' || c == '\n' then lexFull fuel cs
      else if isIdStart c then
        let rest := cs.takeWhile isIdChar
        (lexFull fuel (cs.dropWhile isIdChar)).map (Tok.id (String.ofList (c :: rest)) :: ·)
      else
        let t : Option Tok :=
          if c == '0' then some .zero else if c == '1' then some .one else if c == '+' then some .plus
          else if c == '*' then some .star else if c == '.' then some .dot else if c == '(' then some .lp
          else if c == ')' then some .rp else none
        match t, lexFull fuel cs with
        | some t, some ts => some (t :: ts)
        | _, _ => none

/-- does a token start an atom? (juxtaposition continues a concatenation) -/
def startsAtom : Tok → Bool
  | .zero | .one | .lp | .id _ => true
  | _ => false

mutual
/-- sum := cat ('+' cat)*, left associative -/
def parseSum (juxt : Bool) : Nat → List Tok → Option (Regexp String × List Tok)
  | 0, _ => none
  | fuel + 1, ts => do
    let (r, rest) ← parseCat juxt fuel ts
    sumTail juxt fuel r rest
def sumTail (juxt : Bool) : Nat → Regexp String → List Tok → Option (Regexp String × List Tok)
  | 0, _, _ => none
  | fuel + 1, acc, ts =>
    match ts with
    | .plus :: rest => do
      let (r, rest') ← parseCat juxt fuel rest
      sumTail juxt fuel (.sum acc r) rest'
    | _ => some (acc, ts)
/-- cat := post (('.')? post)*, left associative -/
def parseCat (juxt : Bool) : Nat → List Tok → Option (Regexp String × List Tok)
  | 0, _ => none
  | fuel + 1, ts => do
    let (r, rest) ← parsePost juxt fuel ts
    catTail juxt fuel r rest
def catTail (juxt : Bool) : Nat → Regexp String → List Tok → Option (Regexp String × List Tok)
  | 0, _, _ => none
  | fuel + 1, acc, ts =>
    if juxt then
      match ts with
      | t :: _ => if startsAtom t then do
          let (r, rest') ← parsePost juxt fuel ts
          catTail juxt fuel (.cat acc r) rest'
        else some (acc, ts)
      | [] => some (acc, ts)
    else
      match ts with
      | .dot :: rest => do
        let (r, rest') ← parsePost juxt fuel rest
        catTail juxt fuel (.cat acc r) rest'
      | _ => some (acc, ts)
/-- post := atom '*'* -/
def parsePost (juxt : Bool) : Nat → List Tok → Option (Regexp String × List Tok)
  | 0, _ => none
  | fuel + 1, ts => do
    let (r, rest) ← parseAtom juxt fuel ts
    some (starTail r rest)
def parseAtom (juxt : Bool) : Nat → List Tok → Option (Regexp String × List Tok)
  | 0, _ => none
  | fuel + 1, ts =>
    match ts with
    | .zero :: rest => some (.zero, rest)
    | .one :: rest => some (.one, rest)
    | .id s :: rest => some (.sym s, rest)
    | .lp :: rest => do
      let (r, rest') ← parseSum juxt fuel rest
      match rest' with
      | .rp :: rest'' => some (r, rest'')
      | _ => none
    | _ => none
def starTail (acc : Regexp String) : List Tok → Regexp String × List Tok
  | .star :: rest => starTail (.star acc) rest
  | ts => (acc, ts)
end

/-- reference parser for regexp_simple.g4 -/
def parseSimple (text : String) : Option (Regexp String) := do
  let ts ← lexSimple (text.length + 1) text.toList
  let (r, rest) ← parseSum true (6 * ts.length + 6) ts
  if rest.isEmpty then some r else none

/-- reference parser for regexp.g4 -/
def parseFull (text : String) : Option (Regexp String) := do
  let ts ← lexFull (text.length + 1) text.toList
  let (r, rest) ← parseSum false (6 * ts.length + 6) ts
  if rest.isEmpty then some r else none

end RegexpText
end Gamba
