/-
  Gamba.Model.CfgText — the simple grammar text format: `SimpleCFGParser` / `parse_simple_cfg` and
  `cfg_print_simple` of cfg_algorithms.py (single upper-case variables, single lower-case terminals,
  `A -> aB | ε`, optional `epsilon = x` line, `%` comments).
-/
import Gamba.Model.Text
import Gamba.Model.CFG
namespace Gamba
namespace CfgText
open Text

/-- `re.fullmatch(r'[\.\w]+', s)` -/
def isAltText (s : List Char) : Bool := !s.isEmpty && s.all fun c => isWordChar c || c == '.'

/-- split at the first occurrence of `->` -/
def splitArrowOnce : List Char → Option (List Char × List Char)
  | [] => none
  | '-' :: '>' :: rest => some ([], rest)
  | c :: rest => (splitArrowOnce rest).map fun p => (c :: p.1, p.2)

/-- a production line matching `\s*\w+\s*->\s*A(\s*\|\s*A\s*)*` (the line is already stripped) -/
def parseRuleLine (line : List Char) : Option (List Char × List (List Char)) :=
  match splitArrowOnce line with
  | none => none
  | some (l, r) =>
    let lhs := strip l
    let alts := (splitOn '|' r).map strip
    if !lhs.isEmpty && lhs.all isWordChar && alts.all isAltText then some (lhs, alts) else none

/-- `epsilon\s*=\s*(\w)` -/
def parseEpsLine (line : List Char) : Option Char :=
  match (strip (line.drop 7)) with
  | '=' :: rest =>
    match strip rest with
    | [c] => if isWordChar c then some c else none
    | _ => none
  | _ => none

def startsWith (p l : List Char) : Bool := p.isPrefixOf l

/-- `parse_variable(ch)` -/
def parseSym (c : Char) : Sym := if c.isLower || c == 'ε' then .t (String.singleton c) else .v (String.singleton c)

structure Lines where
  eps : Option Char := none
  rules : List (List Char × List (List Char)) := []

/-- `SimpleCFGParser.parse_epsilon` -/
def scanLine (acc : Lines) (raw : List Char) : Except Err Lines :=
  let line := strip raw
  if line.isEmpty || line.head? == some '%' then .ok acc
  else if startsWith "epsilon".toList line then
    match parseEpsLine line with
    | some c => .ok { acc with eps := some c }
    | none => .error .runtimeError
  else
    match parseRuleLine line with
    | some r => .ok { acc with rules := acc.rules ++ [r] }
    | none => .error .runtimeError

/-- `parse_simple_cfg(text)`; returns the grammar and its ε symbol -/
def parseSimpleCfg (text : List Char) : Except Err (CFG × String) := do
  let acc ← (splitOn '\n' text).foldlM scanLine {}
  let eps : Char := match acc.eps with
    | some c => c
    | none => if acc.rules.any (fun r => r.1.contains 'ε' || r.2.any (·.contains 'ε')) then 'ε' else '_'
  let rules := acc.rules.flatMap fun r =>
    (r.2.filter (· ≠ ['@'])).map fun alt => (str r.1, if alt = [eps] then [] else alt.map parseSym)
  match rules with
  | [] => .error .runtimeError
  | (s0, _) :: _ =>
    let V := dedup (rules.map (·.1))
    let Sigma := dedup (rules.flatMap fun r => r.2.filterMap fun x => match x with | .t a => some a | .v _ => none)
    let R := rules.zipIdx.map fun (r, i) => ({ lhs := r.1, aid := i, rhs := r.2 } : CRule)
    let G : CFG := { V := V, Sigma := Sigma, R := R, S := s0 }
    if G.valid then .ok (G, String.singleton eps) else .error .runtimeError

def isUpper1 (s : String) : Bool := match s.toList with | [c] => c.isUpper | _ => false
def isLower1 (s : String) : Bool := match s.toList with | [c] => c.isLower | _ => false

/-- `cfg_is_simple` -/
def isSimple (G : CFG) : Bool := G.V.all isUpper1 && G.Sigma.all isLower1

/-- `CFG.ordered_variables` -/
def orderedVariables (G : CFG) : List String := dedup' (G.R.map (·.lhs))
where dedup' : List String → List String
  | [] => []
  | x :: xs => x :: (dedup' xs).filter (· ≠ x)

/-- `cfg_print_simple(G)` -/
def printSimpleCfg (G : CFG) : Except Err String :=
  if !isSimple G then .error .runtimeError else
  .ok ("\n".intercalate ((orderedVariables G).map fun X =>
    X ++ " -> " ++ " | ".intercalate ((G.R.filter (·.lhs = X)).map fun r =>
      if r.rhs.isEmpty then "ε" else String.join (r.rhs.map Sym.name))))

end CfgText
end Gamba
