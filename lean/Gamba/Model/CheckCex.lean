/-
  Gamba.Model.CheckCex — the counterexample word a checker reports.
  Every checker that compares languages prints, through `compare_languages(A1, A2)`, at most one line
  `Error: word 'w' should not be accepted` (polarity `true`: w ∈ A1 \ A2) or `Error: word 'w' should be accepted`
  (polarity `false`: w ∈ A2 \ A1).  For each checker of `Gamba.Model.CheckText` this file gives the pair of languages
  (answer side, expected side) that reaches `compare_languages`, exactly as the verdict model computes them, and the reported
  word.  `none` for the pair = the checker raises before the comparison (its verdict is `Error: …`).
-/
import Gamba.Model.CheckText
namespace Gamba
namespace CheckCex
open Parse

abbrev Lang := List (List String)

/-- the reported word of `compare_languages` on a pair of languages -/
def report : Option (Lang × Lang) → Option (List String × Bool)
  | some (A1, A2) => compareLanguages A1 A2
  | none => none

def expectedProduct (t : ProductType) (L1 L2 : Lang) : Lang :=
  match t with
  | .union => langUnion L1 L2
  | .intersection => langInter L1 L2
  | .symmetricDifference => langSymDiff L1 L2

/-- `check_dfa_union / _intersection / _symmetric_difference` -/
def productLangs (t : ProductType) (answer dfa1 dfa2 : String) (len : Nat) : Option (Lang × Lang) :=
  match parseDfa dfa1.toList, parseDfa dfa2.toList, parseDfa answer.toList CheckText.productStateOk with
  | .ok D1, .ok D2, .ok A =>
    if !seq D1.Sigma D2.Sigma then none else
    match Check.productFeedbackEmpty ((D1.product D2 t).mapStates productName) D1 D2 A with
    | none => none
    | some _ => some (A.wordsUpTo len, expectedProduct t (D1.wordsUpTo len) (D2.wordsUpTo len))
  | _, _, _ => none

/-- `check_dfa_reverse(dfa, nfa, length)`: the answer is an NFA, the expected language the reversal of the DFA's -/
def reverseLangs (dfa answer : String) (s : Sched) (len : Nat) : Option (Lang × Lang) :=
  match parseDfa dfa.toList, parseNfa answer.toList with
  | .ok D, .ok A =>
    match A.wordsUpTo s len with
    | .ok L1 => some (L1, langReverse (D.wordsUpTo len))
    | .error _ => none
  | _, _ => none

/-- `check_dfa_minimal(dfa, answer_dfa, length)`: the expected language is that of the quotient automaton -/
def minimalLangs (dfa answer : String) (len : Nat) : Option (Lang × Lang) :=
  match parseDfa dfa.toList, parseDfa answer.toList CheckText.wordOrSetStateOk with
  | .ok D, .ok A =>
    match D.quotient with
    | .ok M => some (A.wordsUpTo len, M.wordsUpTo len)
    | .error _ => none
  | _, _ => none

/-- `check_dfa2regexp(dfa, regexp, length)` -/
def dfa2regexpLangs (dfa answer : String) (len : Nat) : Option (Lang × Lang) :=
  match parseDfa dfa.toList, RegexpText.parseSimple answer with
  | .ok D, some r => some (r.wordsUpTo len, D.wordsUpTo len)
  | _, _ => none

/-- `cfg_check_chomsky(cfg, cfg1, phase, start_variable, length)` -/
def chomskyLangs (cfg answer : String) (len : Nat) : Option (Lang × Lang) :=
  match CfgText.parseSimpleCfg cfg.toList, CfgText.parseSimpleCfg answer.toList with
  | .ok (G, _), .ok (G1, _) => some (G1.wordsUpTo len, G.wordsUpTo len)
  | _, _ => none

/-- `check_dfa_language_from_file` -/
def dfaLanguageFileLangs (answer refText : String) (len : Nat) : Option (Lang × Lang) :=
  match parseDfa answer.toList, parseDfa refText.toList with
  | .ok A, .ok D => some (A.wordsUpTo len, D.wordsUpTo len)
  | _, _ => none

/-- `check_nfa_language_from_file` -/
def nfaLanguageFileLangs (answer refText : String) (s : Sched) (len : Nat) : Option (Lang × Lang) :=
  match parseNfa answer.toList, parseNfa refText.toList with
  | .ok A, .ok N =>
    match A.wordsUpTo s len, N.wordsUpTo s len with
    | .ok L1, .ok L2 => some (L1, L2)
    | _, _ => none
  | _, _ => none

/-- `check_dfa_language_from_words` -/
def dfaLanguageWordsLangs (answer wordList : String) (len : Nat) : Option (Lang × Lang) :=
  match parseDfa answer.toList with
  | .ok A => some (A.wordsUpTo len, CheckText.parseWordList wordList)
  | .error _ => none

/-- `check_nfa_language_from_words` -/
def nfaLanguageWordsLangs (answer wordList : String) (s : Sched) (len : Nat) : Option (Lang × Lang) :=
  match parseNfa answer.toList with
  | .ok A =>
    match A.wordsUpTo s len with
    | .ok L => some (L, CheckText.parseWordList wordList)
    | .error _ => none
  | .error _ => none

/-- `check_cfg_language_from_words` -/
def cfgLanguageWordsLangs (answer wordList : String) (len : Nat) : Option (Lang × Lang) :=
  match CfgText.parseSimpleCfg answer.toList with
  | .ok (G, _) => some (G.wordsUpTo len, CheckText.parseWordList wordList)
  | .error _ => none

/-- `check_automaton_accepts_rejects`: the first listed word with the wrong verdict (the lists are sets in Python: WHICH offending
    word is printed depends on the iteration order, its polarity does not); `none` also when the acceptance test raises -/
def acceptsRejectsReport (acc : List String → Except Err Bool) (accepted rejected : String) : Option (List String × Bool) :=
  match (CheckText.parseWordList accepted).mapM acc, (CheckText.parseWordList rejected).mapM acc with
  | .ok a, .ok r =>
    match ((CheckText.parseWordList accepted).zip a).find? (fun p => !p.2) with
    | some p => some (p.1, false)
    | none =>
      match ((CheckText.parseWordList rejected).zip r).find? (fun p => p.2) with
      | some p => some (p.1, true)
      | none => none
  | _, _ => none

def dfaAcceptsRejectsReport (dfa accepted rejected : String) : Option (List String × Bool) :=
  match parseDfa dfa.toList with
  | .ok D => acceptsRejectsReport D.accepts accepted rejected
  | .error _ => none

def cfgAcceptsRejectsReport (cfg accepted rejected : String) : Option (List String × Bool) :=
  match CfgText.parseSimpleCfg cfg.toList with
  | .ok (G, _) => acceptsRejectsReport G.accepts accepted rejected
  | .error _ => none

end CheckCex
end Gamba
