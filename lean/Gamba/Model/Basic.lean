/-
  Gamba.Model.Basic — common conventions of every model (DESIGN.md §3).

  * Python `set`  → `List` read extensionally (`∀ x, x ∈ l ↔ …`).
  * Python `dict` → association list, `lookup` = first match.
  * Python exceptions → `Except Err α`.
  * `while` loops → recursion on a `fuel : Nat`; `Err.fuel` when exhausted.
  * `set.pop()` / iteration orders that can influence control flow → explicit
    scheduler oracle `Sched` (a list of indices); theorems quantify `∀ sched`.
  No imports: core Lean only.
-/
namespace Gamba

inductive Err where
  | keyError | assertion | runtimeError | valueError | fuel | stopIteration
  deriving DecidableEq, Repr, Inhabited

def Err.toString : Err → String
  | .keyError => "keyError" | .assertion => "assertion" | .runtimeError => "runtimeError"
  | .valueError => "valueError" | .fuel => "fuel" | .stopIteration => "stopIteration"

abbrev Dict (κ ν : Type) := List (κ × ν)

section Dict
variable {κ ν : Type} [DecidableEq κ]

/-- `d[k]` on a plain dict: `KeyError` when absent. -/
def Dict.get (d : Dict κ ν) (k : κ) : Except Err ν :=
  match d.lookup k with
  | some v => .ok v
  | none => .error .keyError

/-- `k in d`. -/
def Dict.has (d : Dict κ ν) (k : κ) : Bool := (d.lookup k).isSome

/-- `d[k] = v` (replace the first binding, or append a new one: insertion order kept). -/
def Dict.set : Dict κ ν → κ → ν → Dict κ ν
  | [], k, v => [(k, v)]
  | (k', v') :: d, k, v => if k' = k then (k, v) :: d else (k', v') :: Dict.set d k v

def Dict.keys (d : Dict κ ν) : List κ := d.map (·.1)
end Dict

section SetList
variable {α : Type} [DecidableEq α]

/-- `S.add(x)` / `S | {x}`. -/
def sinsert (l : List α) (x : α) : List α := if x ∈ l then l else l ++ [x]

/-- `A | B`. -/
def sunion (a b : List α) : List α := a ++ b.filter (fun x => x ∉ a)

/-- `A - B`. -/
def sdiff (a b : List α) : List α := a.filter (fun x => x ∉ b)

/-- `A & B`. -/
def sinter (a b : List α) : List α := a.filter (fun x => x ∈ b)

/-- `A.isdisjoint(B)`. -/
def sdisjoint (a b : List α) : Bool := a.all (fun x => x ∉ b)

/-- `A <= B`. -/
def ssubset (a b : List α) : Bool := a.all (fun x => x ∈ b)

/-- `A == B` for sets. -/
def seq (a b : List α) : Bool := ssubset a b && ssubset b a

/-- `set(l)`: duplicates removed, first occurrences kept. -/
def dedup : List α → List α
  | [] => []
  | x :: l => let r := dedup l; if x ∈ r then r else x :: r

/-- `set().union(*ls)`. -/
def sunions (ls : List (List α)) : List α := ls.foldl sunion []

@[simp] theorem mem_sinsert {l : List α} {x y : α} : y ∈ sinsert l x ↔ y ∈ l ∨ y = x := by
  unfold sinsert; split <;> simp_all

@[simp] theorem mem_sunion {a b : List α} {x : α} : x ∈ sunion a b ↔ x ∈ a ∨ x ∈ b := by
  unfold sunion; simp only [List.mem_append, List.mem_filter, decide_eq_true_eq]
  constructor
  · rintro (h | ⟨h, _⟩) <;> simp [h]
  · rintro (h | h)
    · exact Or.inl h
    · by_cases ha : x ∈ a
      · exact Or.inl ha
      · exact Or.inr ⟨h, ha⟩

@[simp] theorem mem_sdiff {a b : List α} {x : α} : x ∈ sdiff a b ↔ x ∈ a ∧ x ∉ b := by
  simp [sdiff]

@[simp] theorem mem_sinter {a b : List α} {x : α} : x ∈ sinter a b ↔ x ∈ a ∧ x ∈ b := by
  simp [sinter]

theorem sdisjoint_iff {a b : List α} : sdisjoint a b = true ↔ ∀ x, x ∈ a → x ∉ b := by
  simp [sdisjoint]

theorem sdisjoint_false_iff {a b : List α} : sdisjoint a b = false ↔ ∃ x, x ∈ a ∧ x ∈ b := by
  rw [← Bool.not_eq_true, sdisjoint_iff]
  constructor
  · intro h
    apply Classical.byContradiction
    intro hn
    apply h
    intro x hx hb
    exact hn ⟨x, hx, hb⟩
  · rintro ⟨x, hx, hb⟩ h
    exact h x hx hb

theorem ssubset_iff {a b : List α} : ssubset a b = true ↔ ∀ x, x ∈ a → x ∈ b := by
  simp [ssubset]

theorem seq_iff {a b : List α} : seq a b = true ↔ ∀ x, x ∈ a ↔ x ∈ b := by
  simp only [seq, Bool.and_eq_true, ssubset_iff]
  constructor
  · rintro ⟨h1, h2⟩ x; exact ⟨h1 x, h2 x⟩
  · intro h; exact ⟨fun x => (h x).1, fun x => (h x).2⟩

@[simp] theorem mem_dedup {l : List α} {x : α} : x ∈ dedup l ↔ x ∈ l := by
  induction l with
  | nil => simp [dedup]
  | cons y l ih =>
    simp only [dedup]
    split
    · rename_i h
      simp only [List.mem_cons, ih]
      constructor
      · exact Or.inr
      · rintro (h' | h')
        · subst h'; exact ih.mp h
        · exact h'
    · simp [ih]

theorem nodup_dedup (l : List α) : (dedup l).Nodup := by
  induction l with
  | nil => simp [dedup]
  | cons y l ih =>
    simp only [dedup]
    split
    · exact ih
    · rename_i h; exact List.nodup_cons.mpr ⟨h, ih⟩

theorem mem_sunions_aux {ls : List (List α)} {acc : List α} {x : α} :
    x ∈ ls.foldl sunion acc ↔ x ∈ acc ∨ ∃ l, l ∈ ls ∧ x ∈ l := by
  induction ls generalizing acc with
  | nil => simp
  | cons l ls ih =>
    simp only [List.foldl_cons, ih, mem_sunion, List.mem_cons]
    constructor
    · rintro ((h | h) | ⟨l', hl', hx⟩)
      · exact Or.inl h
      · exact Or.inr ⟨l, Or.inl rfl, h⟩
      · exact Or.inr ⟨l', Or.inr hl', hx⟩
    · rintro (h | ⟨l', (rfl | hl'), hx⟩)
      · exact Or.inl (Or.inl h)
      · exact Or.inl (Or.inr hx)
      · exact Or.inr ⟨l', hl', hx⟩

@[simp] theorem mem_sunions {ls : List (List α)} {x : α} :
    x ∈ sunions ls ↔ ∃ l, l ∈ ls ∧ x ∈ l := by
  simp [sunions, mem_sunions_aux]

end SetList

/-! ### Scheduler oracle -/

/-- A scheduler is a stream of indices; when it runs out index 0 is used. -/
abbrev Sched := List Nat

def Sched.next : Sched → Nat × Sched
  | [] => (0, [])
  | i :: s => (i, s)

/-- Remove the element at index `i % length` (models `set.pop()` / `next(iter(S))`). -/
def pickAt {α : Type} : (l : List α) → Nat → Option (α × List α)
  | [], _ => none
  | x :: l, i =>
    let k := i % (l.length + 1)
    some ((x :: l).getD k x, (x :: l).eraseIdx k)

/-- An arbitrary permutation of `l`, driven by the scheduler. -/
def shuffle {α : Type} : Nat → Sched → List α → List α × Sched
  | 0, s, l => (l, s)
  | n + 1, s, l =>
    let (i, s') := s.next
    match pickAt l i with
    | none => ([], s')
    | some (x, rest) => let (r, s'') := shuffle n s' rest; (x :: r, s'')

theorem pickAt_mem {α : Type} {l : List α} {i : Nat} {x : α} {rest : List α}
    (h : pickAt l i = some (x, rest)) : x ∈ l := by
  cases l with
  | nil => simp [pickAt] at h
  | cons y l =>
    simp only [pickAt, Option.some.injEq, Prod.mk.injEq] at h
    obtain ⟨h1, _⟩ := h
    rw [← h1, List.getD_eq_getElem?_getD]
    have hk : i % (l.length + 1) < (y :: l).length := by
      simp only [List.length_cons]; exact Nat.mod_lt _ (Nat.succ_pos _)
    rw [List.getElem?_eq_getElem hk]
    simp only [Option.getD_some]
    exact List.getElem_mem hk

theorem pickAt_mem_iff {α : Type} {l : List α} {i : Nat} {x : α} {rest : List α}
    (h : pickAt l i = some (x, rest)) (y : α) : y ∈ l ↔ y = x ∨ y ∈ rest := by
  cases l with
  | nil => simp [pickAt] at h
  | cons z l =>
    simp only [pickAt, Option.some.injEq, Prod.mk.injEq] at h
    obtain ⟨h1, h2⟩ := h
    have hk : i % (l.length + 1) < (z :: l).length := by
      simp only [List.length_cons]; exact Nat.mod_lt _ (Nat.succ_pos _)
    rw [List.getD_eq_getElem?_getD, List.getElem?_eq_getElem hk] at h1
    simp only [Option.getD_some] at h1
    subst h1 h2
    constructor
    · intro hy
      obtain ⟨j, hj, rfl⟩ := List.getElem_of_mem hy
      by_cases hjk : j = i % (l.length + 1)
      · subst hjk; exact Or.inl rfl
      · right
        rw [List.mem_iff_getElem?]
        by_cases hlt : j < i % (l.length + 1)
        · exact ⟨j, by rw [List.getElem?_eraseIdx_of_lt hlt, List.getElem?_eq_getElem hj]⟩
        · have hge : i % (l.length + 1) ≤ j - 1 := by omega
          refine ⟨j - 1, ?_⟩
          rw [List.getElem?_eraseIdx_of_ge hge]
          have : j - 1 + 1 = j := by omega
          rw [this, List.getElem?_eq_getElem hj]
    · rintro (rfl | hy)
      · exact List.getElem_mem hk
      · exact List.mem_of_mem_eraseIdx hy

theorem pickAt_length {α : Type} {l : List α} {i : Nat} {x : α} {rest : List α}
    (h : pickAt l i = some (x, rest)) : rest.length + 1 = l.length := by
  cases l with
  | nil => simp [pickAt] at h
  | cons z l =>
    simp only [pickAt, Option.some.injEq, Prod.mk.injEq] at h
    obtain ⟨_, h2⟩ := h
    subst h2
    have hk : i % (l.length + 1) < (z :: l).length := by
      simp only [List.length_cons]; exact Nat.mod_lt _ (Nat.succ_pos _)
    rw [List.length_eraseIdx_of_lt hk]
    simp

theorem pickAt_isSome {α : Type} {l : List α} (i : Nat) (h : l ≠ []) : (pickAt l i).isSome := by
  cases l with
  | nil => exact absurd rfl h
  | cons z l => simp [pickAt]

/-- All words over `Sigma` of length exactly `n` (`itertools.product(Sigma, repeat=n)`). -/
def wordsOfLength {τ : Type} (Sigma : List τ) : Nat → List (List τ)
  | 0 => [[]]
  | n + 1 => (wordsOfLength Sigma n).flatMap (fun w => Sigma.map (fun a => w ++ [a]))

/-- All words over `Sigma` of length at most `n`. -/
def wordsUpTo {τ : Type} (Sigma : List τ) (n : Nat) : List (List τ) :=
  (List.range (n + 1)).flatMap (wordsOfLength Sigma)

end Gamba
