/-
  Gamba.Model.Iso — executable models of `dfa_isomorphic1` and `dfa_isomorphic` (as repaired).
-/
import Gamba.Model.DFA
namespace Gamba
variable {σ σ₂ τ : Type} [DecidableEq σ] [DecidableEq σ₂] [DecidableEq τ]

structure Iso1State (σ σ₂ : Type) where
  matching : Dict σ σ₂
  inverse : Dict σ₂ σ
  todo : List (σ × σ₂)

/-- the `for a in Sigma` loop of `dfa_isomorphic1`: `none` = `return False` -/
def iso1Inner (D1 : DFA σ τ) (D2 : DFA σ₂ τ) (q1 : σ) (q2 : σ₂) (matching : Dict σ σ₂) :
    List τ → List (σ × σ₂) → Option (List (σ × σ₂))
  | [], todo => some todo
  | a :: as, todo =>
    let q1' := D1.next q1 a
    let q2' := D2.next q2 a
    match matching.lookup q1' with
    | none => iso1Inner D1 D2 q1 q2 matching as (sinsert todo (q1', q2'))
    | some m => if q2' ≠ m then none else iso1Inner D1 D2 q1 q2 matching as todo

def iso1Loop (D1 : DFA σ τ) (D2 : DFA σ₂ τ) : Nat → Sched → Iso1State σ σ₂ → Except Err Bool
  | 0, _, st => if st.todo.isEmpty then .ok true else .error .fuel
  | fuel + 1, s, st =>
    let (i, s') := s.next
    match pickAt st.todo i with
    | none => .ok true
    | some ((q1, q2), rest) =>
      if decide (q1 ∈ D1.F) != decide (q2 ∈ D2.F) then .ok false
      else if (st.matching.lookup q1).getD q2 ≠ q2 ∨ (st.inverse.lookup q2).getD q1 ≠ q1 then .ok false
      else
        let matching := st.matching.set q1 q2
        let inverse := st.inverse.set q2 q1
        match iso1Inner D1 D2 q1 q2 matching D1.Sigma rest with
        | none => .ok false
        | some todo => iso1Loop D1 D2 fuel s' { matching := matching, inverse := inverse, todo := todo }

/-- `dfa_isomorphic1(D1, D2)` -/
def DFA.isomorphic1 (D1 : DFA σ τ) (D2 : DFA σ₂ τ) (s : Sched) : Except Err Bool :=
  if !seq D1.Sigma D2.Sigma then .error .assertion else
  iso1Loop D1 D2 (D1.Q.length * D2.Q.length + 1) s { matching := [], inverse := [], todo := [(D1.q0, D2.q0)] }

/-- inner loop of `dfa_isomorphic`: extends the set of matched pairs; `none` = `return False` -/
def iso2Inner (D1 : DFA σ τ) (D2 : DFA σ₂ τ) (q1 : σ) (q2 : σ₂) :
    List τ → List (σ × σ₂) → List (σ × σ₂) → Option (List (σ × σ₂) × List (σ × σ₂))
  | [], matched, todo => some (matched, todo)
  | a :: as, matched, todo =>
    let p := (D1.next q1 a, D2.next q2 a)
    if p ∈ matched then iso2Inner D1 D2 q1 q2 as matched todo
    else if decide (p.1 ∈ D1.F) == decide (p.2 ∈ D2.F) then iso2Inner D1 D2 q1 q2 as (matched ++ [p]) (sinsert todo p)
    else none

def iso2Loop (D1 : DFA σ τ) (D2 : DFA σ₂ τ) : Nat → Sched → List (σ × σ₂) → List (σ × σ₂) →
    Except Err (Option (List (σ × σ₂)))
  | 0, _, matched, todo => if todo.isEmpty then .ok (some matched) else .error .fuel
  | fuel + 1, s, matched, todo =>
    let (i, s') := s.next
    match pickAt todo i with
    | none => .ok (some matched)
    | some ((q1, q2), rest) =>
      match iso2Inner D1 D2 q1 q2 D1.Sigma matched rest with
      | none => .ok none
      | some (matched', todo') => iso2Loop D1 D2 fuel s' matched' todo'

/-- `dfa_isomorphic(D1, D2)`: matching matrix, then at most one partner per state in both directions -/
def DFA.isomorphic (D1 : DFA σ τ) (D2 : DFA σ₂ τ) (s : Sched) : Except Err Bool :=
  if !seq D1.Sigma D2.Sigma then .error .assertion else
  if decide (D1.q0 ∈ D1.F) != decide (D2.q0 ∈ D2.F) then .ok false else do
  let r ← iso2Loop D1 D2 (D1.Q.length * D2.Q.length + 1) s [(D1.q0, D2.q0)] [(D1.q0, D2.q0)]
  match r with
  | none => pure false
  | some matched =>
    let m := dedup matched
    pure ((D1.Q.all fun q1 => (m.filter fun p => p.1 = q1).length ≤ 1) &&
          (D2.Q.all fun q2 => (m.filter fun p => p.2 = q2).length ≤ 1))

end Gamba
