/-
  Gamba.Model.NFA — executable model of gambatools/nfa.py and nfa_algorithms.py
  (ε-closure, cache, acceptance, enumeration, subset construction, the three Thompson blocks).
-/
import Gamba.Model.DFA
namespace Gamba

section
variable {σ τ : Type} [DecidableEq σ] [DecidableEq τ]

/-- `NFA._check_validity`. -/
def NFA.valid (N : NFA σ τ) : Bool :=
  decide (N.q0 ∈ N.Q) && ssubset N.F N.Q && decide (N.eps ∉ N.Sigma) &&
  N.delta.all (fun e => decide (e.1.1 ∈ N.Q) && (decide (e.1.2 ∈ N.Sigma) || decide (e.1.2 = N.eps)) &&
                        ssubset e.2 N.Q)

def NFA.checked (N : NFA σ τ) : Except Err (NFA σ τ) :=
  if N.valid then .ok N else .error .assertion

/-- `N.delta.get((q, a), set())` — a missing entry means ∅ (doc/main.tex). -/
def NFA.succ (N : NFA σ τ) (q : σ) (a : τ) : List σ := (N.delta.lookup (q, a)).getD []

/-- The `while todo:` loop of `epsilon_closure`; `todo.pop()` is scheduler-chosen. -/
def NFA.epsLoop (N : NFA σ τ) : Nat → Sched → List σ → List σ → Except Err (List σ)
  | 0, _, result, todo => if todo.isEmpty then .ok result else .error .fuel
  | fuel + 1, s, result, todo =>
    let (i, s') := s.next
    match pickAt todo i with
    | none => .ok result
    | some (q, rest) =>
      let Q1 := sdiff (dedup (N.succ q N.eps)) result   -- a Python set: no duplicates
      NFA.epsLoop N fuel s' (sunion result Q1) (sunion rest Q1)

/-- `epsilon_closure(N, S)` for a set argument (`{q}` for a single state). -/
def NFA.epsClosure (N : NFA σ τ) (fuel : Nat) (s : Sched) (S : List σ) : Except Err (List σ) :=
  N.epsLoop fuel s (dedup S) (dedup S)

/-- fuel sufficient for every closure in `N` (DESIGN §3.3): each pop adds its new states once. -/
def NFA.closureFuel (N : NFA σ τ) (S : List σ) : Nat := 2 * (N.Q.length + S.length) + 2

def NFA.closure (N : NFA σ τ) (s : Sched) (S : List σ) : Except Err (List σ) :=
  N.epsClosure (N.closureFuel S) s S

/-- `Eqa[(q, a)]` of `_nfa_cache`: ε-closure of the successors, ∅ for keys absent from δ. -/
def NFA.eqa (N : NFA σ τ) (s : Sched) (q : σ) (a : τ) : Except Err (List σ) :=
  match N.delta.lookup (q, a) with
  | none => .ok []
  | some Q1 => do
    let cs ← Q1.mapM fun q' => N.closure s [q']
    pure (sunions cs)

/-- one symbol step on a closed state set: `set().union(*[Eqa[q_i, a] for q_i in q])` -/
def NFA.stepSet (N : NFA σ τ) (s : Sched) (S : List σ) (a : τ) : Except Err (List σ) := do
  let cs ← S.mapM fun q => N.eqa s q a
  pure (sunions cs)

def NFA.runSet (N : NFA σ τ) (s : Sched) (S : List σ) : List τ → Except Err (List σ)
  | [] => .ok S
  | a :: w => do let S' ← N.stepSet s S a; NFA.runSet N s S' w

/-- `nfa_accepts_word`. -/
def NFA.accepts (N : NFA σ τ) (s : Sched) (w : List τ) : Except Err Bool := do
  let S0 ← N.closure s [N.q0]
  let S ← N.runSet s S0 w
  pure (!sdisjoint S N.F)

/-- `nfa_words_up_to_n`: frontier of (state, word) pairs. -/
def NFA.wordsLoop (N : NFA σ τ) (s : Sched) (F1 : List σ) :
    Nat → List (σ × List τ) → List (List τ) → Except Err (List (List τ))
  | 0, _, result => .ok result
  | n + 1, W, result => do
    let nexts ← W.mapM fun (q, w) => do
      let per ← N.Sigma.mapM fun a => do
        let T ← N.eqa s q a
        pure (T.map fun q1 => (q1, w ++ [a]))
      pure per.flatten
    let W1 := dedup nexts.flatten
    let new := (W1.filter fun p => decide (p.1 ∈ F1)).map (·.2)
    NFA.wordsLoop N s F1 n W1 (sunion result new)

def NFA.wordsUpTo (N : NFA σ τ) (s : Sched) (n : Nat) : Except Err (List (List τ)) := do
  let F1 ← N.Q.filterM fun q => do
    let C ← N.closure s [q]
    pure (!sdisjoint C N.F)
  let S0 ← N.closure s [N.q0]
  N.wordsLoop s F1 n (S0.map fun q => (q, [])) (if N.q0 ∈ F1 then [[]] else [])

/-! ### Subset construction -/

/-- canonical list for a subset of `N.Q` (equal sets ⇒ equal lists) -/
def NFA.canon (N : NFA σ τ) (S : List σ) : List σ := N.Q.filter fun q => decide (q ∈ S)

def NFA.moveSet (N : NFA σ τ) (S : List σ) (a : τ) : List σ := sunions (S.map fun q => N.succ q a)

structure SubsetAcc (σ τ : Type) where
  Q : List (List σ)
  delta : Dict (List σ × τ) (List σ)
  F : List (List σ)
  todo : List (List σ)   -- head = top of the Python list used as a stack

/-- body of `for a in Sigma:` inside `nfa_to_dfa` -/
def NFA.subsetInner (N : NFA σ τ) (s : Sched) (Q1 : List σ) (acc : SubsetAcc σ τ) (a : τ) :
    Except Err (SubsetAcc σ τ) := do
  let C ← N.closure s (N.moveSet Q1 a)
  let Q2 := N.canon C
  let F' := if !sdisjoint Q2 N.F then sinsert acc.F Q2 else acc.F
  let delta' := acc.delta.set (Q1, a) Q2
  if Q2 ∈ acc.Q then pure { acc with delta := delta', F := F' }
  else pure { Q := acc.Q ++ [Q2], delta := delta', F := F', todo := Q2 :: acc.todo }

def NFA.subsetLoop (N : NFA σ τ) (s : Sched) : Nat → SubsetAcc σ τ → Except Err (SubsetAcc σ τ)
  | 0, acc => if acc.todo.isEmpty then .ok acc else .error .fuel
  | fuel + 1, acc =>
    match acc.todo with
    | [] => .ok acc
    | Q1 :: rest => do
      let acc' ← N.Sigma.foldlM (N.subsetInner s Q1) { acc with todo := rest }
      NFA.subsetLoop N s fuel acc'

/-- `nfa_to_dfa` on structured subset states. -/
def NFA.toDfaSets (N : NFA σ τ) (s : Sched) : Except Err (DFA (List σ) τ) := do
  let C0 ← N.closure s [N.q0]
  let Q0 := N.canon C0
  let acc0 : SubsetAcc σ τ :=
    { Q := [Q0], delta := [], F := if !sdisjoint Q0 N.F then [Q0] else [], todo := [Q0] }
  let acc ← N.subsetLoop s (2 ^ N.Q.length + 1) acc0
  DFA.checked { Q := acc.Q, Sigma := N.Sigma, delta := acc.delta, q0 := Q0, F := acc.F }

/-! ### Thompson building blocks (as repaired: result ε = operand ε, fresh name supplied) -/

/-- `_nfa_copy_delta`: copy δ re-keying the operand's ε to `eps`. -/
def NFA.rekey (N : NFA σ τ) (eps : τ) : Dict (σ × τ) (List σ) :=
  N.delta.map fun e => ((e.1.1, if e.1.2 = N.eps then eps else e.1.2), e.2)

/-- merge a copied δ into an accumulating dict: later keys overwrite (`delta[k] = set(Q1)`) -/
def dictUpdate {κ ν : Type} [DecidableEq κ] (d : Dict κ ν) (e : Dict κ ν) : Dict κ ν :=
  e.foldl (fun acc kv => acc.set kv.1 kv.2) d

def addTarget (d : Dict (σ × τ) (List σ)) (k : σ × τ) (t : σ) : Dict (σ × τ) (List σ) :=
  d.set k (sinsert ((d.lookup k).getD []) t)

/-- `nfa_repetition(N)` with the generated fresh state `q0`. -/
def NFA.repetition (N : NFA σ τ) (q0 : σ) : Except Err (NFA σ τ) :=
  let F := sinsert N.F q0
  let d0 := dictUpdate [] (N.rekey N.eps)
  let d1 := F.foldl (fun d q => addTarget d (q, N.eps) N.q0) d0
  let d2 := d1.set (q0, N.eps) [N.q0]
  NFA.checked { Q := sinsert N.Q q0, Sigma := N.Sigma, delta := d2, q0 := q0, F := F, eps := N.eps }

/-- `nfa_union(N1, N2)` with the generated fresh state `q0`. -/
def NFA.union (N1 N2 : NFA σ τ) (q0 : σ) : Except Err (NFA σ τ) :=
  if !sdisjoint N1.Q N2.Q then .error .assertion else
  let d0 := dictUpdate (dictUpdate [] (N1.rekey N1.eps)) (N2.rekey N1.eps)
  let d1 := d0.set (q0, N1.eps) (dedup [N1.q0, N2.q0])
  NFA.checked { Q := sinsert (sunion N1.Q N2.Q) q0, Sigma := sunion N1.Sigma N2.Sigma, delta := d1,
                q0 := q0, F := sunion N1.F N2.F, eps := N1.eps }

/-- `nfa_concatenation(N1, N2)`. -/
def NFA.concat (N1 N2 : NFA σ τ) : Except Err (NFA σ τ) :=
  if !sdisjoint N1.Q N2.Q then .error .assertion else
  let d0 := dictUpdate (dictUpdate [] (N1.rekey N1.eps)) (N2.rekey N1.eps)
  let d1 := N1.F.foldl (fun d q => addTarget d (q, N1.eps) N2.q0) d0
  NFA.checked { Q := sinsert (sunion N1.Q N2.Q) N1.q0, Sigma := sunion N1.Sigma N2.Sigma, delta := d1,
                q0 := N1.q0, F := N2.F, eps := N1.eps }

def NFA.mapStates {σ' : Type} (f : σ → σ') (N : NFA σ τ) : NFA σ' τ :=
  { Q := N.Q.map f, Sigma := N.Sigma, delta := N.delta.map (fun e => ((f e.1.1, e.1.2), e.2.map f)),
    q0 := f N.q0, F := N.F.map f, eps := N.eps }

end

/-- `IdentifierGenerator.generate('q')` repeated until the name is not in `Q`
    (`_nfa_fresh_state`); returns the name and the new counter. -/
def genFreshAux (Q : List String) : Nat → Nat → String × Nat
  | 0, i => ("q" ++ toString i, i + 1)
  | fuel + 1, i => if "q" ++ toString i ∈ Q then genFreshAux Q fuel (i + 1) else ("q" ++ toString i, i + 1)

def genFresh (Q : List String) (i : Nat) : String × Nat := genFreshAux Q (Q.length + 1) i

/-- `nfa_to_dfa` with `print_state_set` names. -/
def NFA.toDfa (N : NFA String String) (s : Sched) : Except Err (DFA String String) := do
  let D ← N.toDfaSets s
  pure (D.mapStates printStateSet)

end Gamba
