/-
  Gamba.Model.TM — executable model of gambatools/tm.py and tm_algorithms.py
  (single step, bounded three-valued run, recorded run, brute-force enumerator).
-/
import Gamba.Model.Basic
namespace Gamba

inductive Dir | L | R
  deriving DecidableEq, Repr, Inhabited

structure TM (σ τ : Type) where
  Q : List σ
  Sigma : List τ
  Gamma : List τ
  delta : Dict (σ × τ) (σ × τ × Dir)
  q0 : σ
  qAccept : σ
  qReject : σ
  blank : τ
  deriving Repr

structure TMConfig (σ τ : Type) where
  q : σ
  tape : List τ
  head : Nat
  deriving DecidableEq, Repr

section
variable {σ τ : Type} [DecidableEq σ] [DecidableEq τ]

/-- `TM._check_validity`. -/
def TM.valid (T : TM σ τ) : Bool :=
  decide (T.q0 ∈ T.Q) && decide (T.qAccept ∈ T.Q) && decide (T.qReject ∈ T.Q) &&
  decide (T.qReject ≠ T.qAccept) && decide (T.blank ∉ T.Sigma) && decide (T.blank ∈ T.Gamma) &&
  ssubset T.Sigma T.Gamma &&
  T.delta.all fun e => decide (e.1.1 ∈ T.Q) && decide (e.1.2 ∈ T.Gamma) && decide (e.2.1 ∈ T.Q) &&
                       decide (e.2.2.1 ∈ T.Gamma)

def TM.halting (T : TM σ τ) (q : σ) : Bool := decide (q = T.qAccept) || decide (q = T.qReject)

/-- the pure step function of `tm_do_transition` (no halting guard) -/
def TM.step (T : TM σ τ) (c : TMConfig σ τ) : TMConfig σ τ :=
  let a := c.tape.getD c.head T.blank
  let (q, b, d) := (T.delta.lookup (c.q, a)).getD (T.qReject, a, Dir.R)
  let tape1 := c.tape.set c.head b
  let head1 := match d with | .L => c.head - 1 | .R => c.head + 1
  let tape2 := if head1 = tape1.length then tape1 ++ [T.blank] else tape1
  { q := q, tape := tape2, head := head1 }

/-- `tm_do_transition`: RuntimeError in a halting state. -/
def TM.doTransition (T : TM σ τ) (c : TMConfig σ τ) : Except Err (TMConfig σ τ) :=
  if T.halting c.q then .error .runtimeError else .ok (T.step c)

/-- initial configuration: the word on the tape (one blank for the empty word), head at 0 -/
def TM.init (T : TM σ τ) (w : List τ) : TMConfig σ τ :=
  { q := T.q0, tape := if w.isEmpty then [T.blank] else w, head := 0 }

def TM.verdict (T : TM σ τ) (q : σ) : Option Bool :=
  if q = T.qAccept then some true else if q = T.qReject then some false else none

/-- the `for _ in range(max_steps)` loop of `tm_accepts_word` -/
def TM.runLoop (T : TM σ τ) : Nat → TMConfig σ τ → Option Bool
  | 0, _ => none
  | k + 1, c =>
    let c' := T.step c
    match T.verdict c'.q with
    | some b => some b
    | none => TM.runLoop T k c'

/-- `tm_accepts_word(T, word, max_steps)` (as repaired: a halting initial state is decided). -/
def TM.accepts (T : TM σ τ) (w : List τ) (k : Nat) : Option Bool :=
  match T.verdict T.q0 with
  | some b => some b
  | none => T.runLoop k (T.init w)

def TM.traceLoop (T : TM σ τ) : Nat → TMConfig σ τ → List (TMConfig σ τ)
  | 0, _ => []
  | k + 1, c =>
    let c' := T.step c
    if T.halting c'.q then [c'] else c' :: TM.traceLoop T k c'

/-- `tm_simulate_word`. -/
def TM.simulate (T : TM σ τ) (w : List τ) (k : Nat) : List (TMConfig σ τ) :=
  let c0 := T.init w
  if T.halting T.q0 then [c0] else c0 :: T.traceLoop k c0

/-- `tm_words_up_to_n`. -/
def TM.wordsUpTo (T : TM σ τ) (n k : Nat) : List (List τ) :=
  (Gamba.wordsUpTo T.Sigma n).filter fun w => T.accepts w k = some true

end
end Gamba
