/-
  Gamba.Props.C15a — `dfa_simulate_word` and `nfa_simulate_word` (as repaired: back-pointers only on first visit)
  return genuine traces (`Gamba.Spec.Trace`), always terminate, and find a trace exactly for the accepted words.
-/
import Gamba.Proofs.C15a
namespace Gamba
variable {σ τ : Type} [DecidableEq σ] [DecidableEq τ]

/-- the DFA trace: one row per configuration, a valid trace ending in the state that decides acceptance -/
theorem dfa_simulate_valid (D : DFA σ τ) (hv : D.valid = true) (w : List τ) (hw : ∀ a, a ∈ w → a ∈ D.Sigma) :
    ∃ tr, D.simulate w = .ok tr ∧ D.ValidTrace w tr ∧ tr.length = w.length + 1 ∧
      ∀ q, tr.getLast? = some (q, []) → (q ∈ D.F ↔ D.Accepts w) := by
  obtain ⟨tr, htr, hhead, hchain, hlen, hlast⟩ := DFA.simulateFrom_spec hv w hw D.q0 (DFA.valid_q0 hv)
  refine ⟨tr, htr, ⟨hhead, hchain, _, hlast⟩, hlen, ?_⟩
  intro q hq
  rw [hlast] at hq
  simp only [Option.some.injEq, Prod.mk.injEq, and_true] at hq
  subst hq
  exact (DFA.Accepts_iff_runT hv hw).symm

example : C15.exDFA.valid = true ∧ (∀ a, a ∈ ["1", "0", "1", "1"] → a ∈ C15.exDFA.Sigma) ∧
    C15.exDFA.simulate ["1", "0", "1", "1"] =
      .ok [("p", ["1", "0", "1", "1"]), ("q", ["0", "1", "1"]), ("q", ["1", "1"]), ("p", ["1"]), ("q", [])] :=
  ⟨by decide, by decide, rfl⟩

/-- whatever is returned is a genuine accepting run — every pop order -/
theorem nfa_simulate_valid (N : NFA σ τ) (hv : N.valid = true) (s : Sched) (w : List τ)
    (hw : ∀ a, a ∈ w → a ∈ N.Sigma) (tr : List (σ × List τ)) (h : N.simulate s w = .ok (some tr)) :
    N.ValidTrace w tr := by
  obtain ⟨r, hr, hvalid, _⟩ := NFA.simulate_spec hv s w hw
  rw [hr] at h
  cases h
  exact hvalid tr rfl

/-- the witness of the repaired defect (ε-cycle `b ⇄ c` on the way from `a` to `f`): a trace is found, for several pop orders -/
example : C15.exNFA.valid = true ∧ (∀ a, a ∈ ([] : List String) → a ∈ C15.exNFA.Sigma) ∧
    C15.exNFA.simulate [] [] = .ok (some [("a", []), ("b", []), ("c", []), ("f", [])]) ∧
    C15.exNFA.simulate [1, 1, 1, 1, 1, 1, 1] [] = .ok (some [("a", []), ("b", []), ("c", []), ("f", [])]) :=
  ⟨by decide, by decide, rfl, rfl⟩

example : (∀ a, a ∈ ["x"] → a ∈ C15.exNFA.Sigma) ∧
    C15.exNFA.simulate [0, 2, 1, 3, 1, 0, 2] ["x"] =
      .ok (some [("a", ["x"]), ("b", ["x"]), ("c", ["x"]), ("f", ["x"]), ("a", []), ("b", []), ("c", []), ("f", [])]) :=
  ⟨by decide, rfl⟩

example : C15.exNFA.ValidTrace ["x"]
    [("a", ["x"]), ("b", ["x"]), ("c", ["x"]), ("f", ["x"]), ("a", []), ("b", []), ("c", []), ("f", [])] :=
  nfa_simulate_valid C15.exNFA (by decide) [0, 2, 1, 3, 1, 0, 2] ["x"] (by decide) _ rfl

/-- a trace is always produced, in finite time (no fuel error, no lookup failure), exactly for the accepted words -/
theorem nfa_simulate_some_iff (N : NFA σ τ) (hv : N.valid = true) (s : Sched) (w : List τ)
    (hw : ∀ a, a ∈ w → a ∈ N.Sigma) :
    ∃ r, N.simulate s w = .ok r ∧ (r.isSome = true ↔ N.Accepts w) := by
  obtain ⟨r, hr, _, hiff⟩ := NFA.simulate_spec hv s w hw
  exact ⟨r, hr, hiff⟩

/-- accepted and rejected words of the example -/
example : (∀ a, a ∈ ["x", "y"] → a ∈ C15.exNFA.Sigma) ∧
    C15.exNFA.simulate [3, 1, 2] ["x", "y"] = .ok none ∧
    (C15.exNFA.simulate [3, 1, 2] ["x", "x"]).toOption.join.isSome = true :=
  ⟨by decide, rfl, rfl⟩

example : ¬ C15.exNFA.Accepts ["x", "y"] := by
  obtain ⟨r, hr, hiff⟩ := nfa_simulate_some_iff C15.exNFA (by decide) [] ["x", "y"] (by decide)
  have h : C15.exNFA.simulate [] ["x", "y"] = .ok none := rfl
  rw [h] at hr
  cases hr
  intro ha
  exact absurd (hiff.mpr ha) (by decide)

/-- the generic search (Gamba.Proofs.Search) on a small graph: a genuine path, and `none` for an unreachable target -/
example : findPath (fun n : Nat => if n < 5 then [n + 1, n + 2] else []) 10 [3, 2, 1] [0] 5 = .ok (some [0, 1, 3, 5]) ∧
    findPath (fun n : Nat => if n < 5 then [n + 1, n + 2] else []) 10 [] [0] 9 = .ok none := ⟨rfl, rfl⟩

#print axioms findPath_sound
#print axioms findPath_none
#print axioms findPath_total
#print axioms dfa_simulate_valid
#print axioms nfa_simulate_valid
#print axioms nfa_simulate_some_iff

end Gamba
