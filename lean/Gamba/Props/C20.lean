/-
  Gamba.Props.C20 — the two DFA isomorphism tests `dfa_isomorphic1` (worklist with a matching and its
  inverse) and `dfa_isomorphic` (matching matrix), as repaired, terminate within their fuel and answer
  `True` exactly when the reachable parts of the two (valid, same-alphabet) DFAs are isomorphic —
  for every exploration order (`Sched`).  Consequences: symmetry, language equality, invariance under
  injective renaming, agreement of the two routines.
-/
import Gamba.Model.DFA
import Gamba.Model.Iso
import Gamba.Spec.Automata
import Gamba.Spec.Iso
import Gamba.Proofs.DFABasic
import Gamba.Proofs.C14a
import Gamba.Proofs.C20
namespace Gamba
variable {σ σ₂ τ : Type} [DecidableEq σ] [DecidableEq σ₂] [DecidableEq τ]

open C20

/-- `dfa_isomorphic1` terminates (no fuel error) and decides isomorphism of the reachable parts -/
theorem isomorphic1_iff (D1 : DFA σ τ) (D2 : DFA σ₂ τ) (h1 : D1.valid = true) (h2 : D2.valid = true)
    (hS : ∀ a, a ∈ D1.Sigma ↔ a ∈ D2.Sigma) (s : Sched) :
    ∃ b, D1.isomorphic1 D2 s = .ok b ∧ (b = true ↔ D1.Iso D2) := by
  obtain ⟨b, hb, hiff⟩ := DFA.isomorphic1_RChar D1 D2 h1 h2 hS s
  exact ⟨b, hb, hiff.trans (DFA.Iso_iff_RChar D1 D2 h1 h2 hS).symm⟩

/-- hypotheses hold on concrete automata; both answers occur, under different exploration orders -/
example : exA.valid = true ∧ exB.valid = true ∧ (∀ a, a ∈ exA.Sigma ↔ a ∈ exB.Sigma) ∧
    exA.isomorphic1 exB [] = .ok true ∧ exA.isomorphic1 exB [1, 0, 1] = .ok true ∧
    exCyc.valid = true ∧ exOne.valid = true ∧ (∀ a, a ∈ exCyc.Sigma ↔ a ∈ exOne.Sigma) ∧
    exCyc.isomorphic1 exOne [] = .ok false ∧ exOne.isomorphic1 exCyc [3] = .ok false :=
  ⟨exA_valid, exB_valid, exAB_sigma, rfl, rfl, exCyc_valid, exOne_valid, exCycOne_sigma, rfl, rfl⟩

/-- `dfa_isomorphic` terminates (no fuel error) and decides isomorphism of the reachable parts -/
theorem isomorphic_iff (D1 : DFA σ τ) (D2 : DFA σ₂ τ) (h1 : D1.valid = true) (h2 : D2.valid = true)
    (hS : ∀ a, a ∈ D1.Sigma ↔ a ∈ D2.Sigma) (s : Sched) :
    ∃ b, D1.isomorphic D2 s = .ok b ∧ (b = true ↔ D1.Iso D2) := by
  obtain ⟨b, hb, hiff⟩ := DFA.isomorphic_RChar D1 D2 h1 h2 hS s
  exact ⟨b, hb, hiff.trans (DFA.Iso_iff_RChar D1 D2 h1 h2 hS).symm⟩

example : exA.valid = true ∧ exB.valid = true ∧ (∀ a, a ∈ exA.Sigma ↔ a ∈ exB.Sigma) ∧
    exA.isomorphic exB [] = .ok true ∧ exB.isomorphic exA [2, 1] = .ok true ∧
    exCyc.valid = true ∧ exOne.valid = true ∧ (∀ a, a ∈ exCyc.Sigma ↔ a ∈ exOne.Sigma) ∧
    exCyc.isomorphic exOne [] = .ok false ∧ exOne.isomorphic exCyc [1] = .ok false :=
  ⟨exA_valid, exB_valid, exAB_sigma, rfl, rfl, exCyc_valid, exOne_valid, exCycOne_sigma, rfl, rfl⟩

/-- equal languages (both accept `a*`) do not make the 2-cycle and the 1-loop isomorphic (`exCycOne_not_iso`) -/
example (w : List String) (hw : ∀ a, a ∈ w → a ∈ exCyc.Sigma) : exCyc.Accepts w ∧ exOne.Accepts w :=
  ⟨(DFA.Accepts_iff_runT exCyc_valid hw).mpr (DFA.runT_mem exCyc_valid (DFA.valid_q0 exCyc_valid) hw),
   (DFA.Accepts_iff_runT exOne_valid hw).mpr (DFA.runT_mem exOne_valid (DFA.valid_q0 exOne_valid) hw)⟩

/-- consequences named in the property -/
theorem iso_symm (D1 : DFA σ τ) (D2 : DFA σ₂ τ) (h1 : D1.valid = true) (h2 : D2.valid = true)
    (hS : ∀ a, a ∈ D1.Sigma ↔ a ∈ D2.Sigma) : D1.Iso D2 ↔ D2.Iso D1 := by
  have hS' : ∀ a, a ∈ D2.Sigma ↔ a ∈ D1.Sigma := fun a => (hS a).symm
  rw [DFA.Iso_iff_RChar D1 D2 h1 h2 hS, DFA.Iso_iff_RChar D2 D1 h2 h1 hS']
  exact ⟨DFA.RChar_symm hS, DFA.RChar_symm hS'⟩

example : exA.valid = true ∧ exB.valid = true ∧ (∀ a, a ∈ exA.Sigma ↔ a ∈ exB.Sigma) ∧
    exA.Iso exB ∧ exB.Iso exA ∧ ¬ exCyc.Iso exOne ∧ ¬ exOne.Iso exCyc :=
  ⟨exA_valid, exB_valid, exAB_sigma, exAB_iso,
   (iso_symm exA exB exA_valid exB_valid exAB_sigma).mp exAB_iso, exCycOne_not_iso,
   fun h => exCycOne_not_iso ((iso_symm exCyc exOne exCyc_valid exOne_valid exCycOne_sigma).mpr h)⟩

theorem iso_lang (D1 : DFA σ τ) (D2 : DFA σ₂ τ) (h1 : D1.valid = true) (h2 : D2.valid = true)
    (hS : ∀ a, a ∈ D1.Sigma ↔ a ∈ D2.Sigma) (h : D1.Iso D2) (w : List τ) (hw : ∀ a, a ∈ w → a ∈ D1.Sigma) :
    D1.Accepts w ↔ D2.Accepts w := by
  have hR := (DFA.Iso_iff_RChar D1 D2 h1 h2 hS).mp h
  rw [DFA.Accepts_iff_runT h1 hw, DFA.Accepts_iff_runT h2 (fun a ha => (hS a).mp (hw a ha))]
  exact hR.2.2 _ _ ⟨w, hw, rfl, rfl⟩

example : exA.valid = true ∧ exB.valid = true ∧ (∀ a, a ∈ exA.Sigma ↔ a ∈ exB.Sigma) ∧ exA.Iso exB ∧
    (∀ a, a ∈ ["b", "a", "a"] → a ∈ exA.Sigma) ∧ exA.acceptsT ["b", "a", "a"] = true ∧
    exB.acceptsT ["b", "a", "a"] = true :=
  ⟨exA_valid, exB_valid, exAB_sigma, exAB_iso, by decide, by decide, by decide⟩

/-- a DFA is isomorphic to any injectively renamed copy of itself -/
theorem iso_rename {σ' : Type} [DecidableEq σ'] (f : σ → σ') (D : DFA σ τ) (h : D.valid = true)
    (hf : ∀ p q, p ∈ D.Q → q ∈ D.Q → f p = f q → p = q) : D.Iso (D.mapStates f) := by
  have hv' := DFA.mapStates_valid' f D h hf
  have hS : ∀ a, a ∈ D.Sigma ↔ a ∈ (D.mapStates f).Sigma := fun _ => Iff.rfl
  rw [DFA.Iso_iff_RChar D _ h hv' hS]
  have key : ∀ p q, D.JR (D.mapStates f) p q → q = f p ∧ p ∈ D.Q := by
    rintro p q ⟨w, hw, rfl, rfl⟩
    exact ⟨DFA.mapStates_runT f D h hf (DFA.valid_q0 h) w hw, DFA.runT_mem h (DFA.valid_q0 h) hw⟩
  refine ⟨?_, ?_, ?_⟩
  · intro p q q' hq hq'
    rw [(key p q hq).1, (key p q' hq').1]
  · intro p p' q hp hp'
    apply hf p p' (key p q hp).2 (key p' q hp').2
    rw [← (key p q hp).1, ← (key p' q hp').1]
  · intro p q hp
    obtain ⟨rfl, hpQ⟩ := key p q hp
    have hF : (D.mapStates f).F = D.F.map f := rfl
    rw [hF]
    constructor
    · exact fun hm => List.mem_map_of_mem hm
    · intro hm
      obtain ⟨y, hy, hfy⟩ := List.mem_map.mp hm
      rw [← hf y p (DFA.valid_F h hy) hpQ hfy]
      exact hy

example : exA.valid = true ∧
    (∀ p q : String, p ∈ exA.Q → q ∈ exA.Q → p ++ "'" = q ++ "'" → p = q) ∧
    (exA.mapStates (· ++ "'")).Q = ["p'", "q'"] ∧
    exA.isomorphic1 (exA.mapStates (· ++ "'")) [] = .ok true :=
  ⟨exA_valid, exRename_inj, by decide, rfl⟩

/-- the two routines agree with each other and do not depend on the exploration order or the argument order -/
theorem isomorphic_agree (D1 : DFA σ τ) (D2 : DFA σ₂ τ) (h1 : D1.valid = true) (h2 : D2.valid = true)
    (hS : ∀ a, a ∈ D1.Sigma ↔ a ∈ D2.Sigma) (s s' : Sched) :
    ∃ b, D1.isomorphic1 D2 s = .ok b ∧ D1.isomorphic D2 s' = .ok b ∧ D2.isomorphic1 D1 s' = .ok b ∧ D2.isomorphic D1 s = .ok b := by
  have hS' : ∀ a, a ∈ D2.Sigma ↔ a ∈ D1.Sigma := fun a => (hS a).symm
  have hsym := iso_symm D1 D2 h1 h2 hS
  obtain ⟨b1, e1, i1⟩ := isomorphic1_iff D1 D2 h1 h2 hS s
  obtain ⟨b2, e2, i2⟩ := isomorphic_iff D1 D2 h1 h2 hS s'
  obtain ⟨b3, e3, i3⟩ := isomorphic1_iff D2 D1 h2 h1 hS' s'
  obtain ⟨b4, e4, i4⟩ := isomorphic_iff D2 D1 h2 h1 hS' s
  have h12 : b2 = b1 := Bool.eq_iff_iff.mpr (i2.trans i1.symm)
  have h13 : b3 = b1 := Bool.eq_iff_iff.mpr (i3.trans (hsym.symm.trans i1.symm))
  have h14 : b4 = b1 := Bool.eq_iff_iff.mpr (i4.trans (hsym.symm.trans i1.symm))
  subst h12 h13 h14
  exact ⟨_, e1, e2, e3, e4⟩

example : exA.valid = true ∧ exB.valid = true ∧ (∀ a, a ∈ exA.Sigma ↔ a ∈ exB.Sigma) ∧
    exA.isomorphic1 exB [0, 1] = .ok true ∧ exA.isomorphic exB [4] = .ok true ∧
    exB.isomorphic1 exA [4] = .ok true ∧ exB.isomorphic exA [0, 1] = .ok true :=
  ⟨exA_valid, exB_valid, exAB_sigma, rfl, rfl, rfl, rfl⟩

#print axioms isomorphic1_iff
#print axioms isomorphic_iff
#print axioms iso_symm
#print axioms iso_lang
#print axioms iso_rename
#print axioms isomorphic_agree

end Gamba
