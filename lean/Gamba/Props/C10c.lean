/-
  Gamba.Props.C10c — end-to-end correctness of the model of `pda_to_cfg` (`SPDA.toCfg`, as repaired: the PDA is
  first brought to accept on the empty stack with the drain state, then to push/pop form, then Sipser's triple
  construction is applied): the grammar generates exactly the language of the PDA (acceptance by final state,
  any stack content).

  Hypotheses inherited from the parts (counterexamples without them in Props/C10a and Props/C10b):
  `heq` (the two ε fields are the same string), `hε` (the bottom marker chosen by `fresh_symbol` is not the PDA's ε),
  `hd` (the PDA's ε is not the dummy stack symbol `∅`), and `hnames`: no state name contains the character `'`
  which `pdaVar p q = p ++ "'" ++ q` uses as the separator in variable names (the fresh names `q_initial<i>`,
  `q_drain<i>`, `q_accept<i>`, `M<i>` never contain it).
-/
import Gamba.Props.C10a
import Gamba.Props.C10b
import Gamba.Proofs.C10c
namespace Gamba

open C10a C10c

/-- the grammar produced from a PDA generates exactly the PDA's language (also when the PDA accepts with symbols left on its stack) -/
theorem pda_toCfg_lang (P : SPDA) (hv : P.valid = true) (hk : (P.delta.map (·.1)).Nodup) (heq : P.epsG = P.eps)
    (hε : freshSymbol P.Gamma ≠ .ok P.epsG) (hd : P.epsG ≠ "∅")
    (hnames : ∀ q, q ∈ P.Q → '\'' ∉ q.toList)
    (G : CFG) (h : P.toCfg = .ok G) : ∀ w, G.Lang w ↔ P.Accepts w := by
  intro w
  obtain ⟨P', qa', l, hn, hF', rfl⟩ := toCfg_eq h
  obtain ⟨qa, hF, hv', hk', hpp, hinj, heq', hes, hl⟩ := normalize_spec P hv hk heq hε hd hnames P' hn
  have hqa : qa' = qa := by rw [hF] at hF'; exact (List.cons.inj hF').1.symm
  rw [hqa]
  exact (tripleCfg_lang P' hv' hk' hpp hinj heq' qa hF hes w).trans (hl w)

/-- the hypotheses hold for `exNE` (`q0 --a,ε→x--> q1`, `F = [q1]`), which accepts `a` only with the non-empty
    stack `[x]`: the witness of the repaired defect -/
example : exNE.valid = true ∧ (exNE.delta.map (·.1)).Nodup ∧ exNE.epsG = exNE.eps ∧
    freshSymbol exNE.Gamma ≠ .ok exNE.epsG ∧ exNE.epsG ≠ "∅" ∧ (∀ q, q ∈ exNE.Q → '\'' ∉ q.toList) ∧
    exNE.toCfg = .ok (exNEnorm.tripleCfg "q_accept1") ∧ exNE.Run (exNE.q0, []) ["a"] ("q1", ["x"]) :=
  ⟨by decide, by decide, rfl, exNE_marker, by decide, by decide, exNE_toCfg, exNE_run⟩

/-- … and its grammar (36 variables, 225 rules, start variable `q_initial1'q_accept1`) generates `a` -/
example : ∃ G, exNE.toCfg = .ok G ∧ G.S = "q_initial1'q_accept1" ∧ G.Lang ["a"] :=
  ⟨_, exNE_toCfg, by decide,
    (pda_toCfg_lang exNE (by decide) (by decide) rfl exNE_marker (by decide) (by decide) _ exNE_toCfg ["a"]).mpr
      exNE_accepts⟩

/-- … and nothing else of length ≤ 1 over `{a}`: the empty word is not generated -/
example : ∃ G, exNE.toCfg = .ok G ∧ ¬ G.Lang [] := by
  refine ⟨_, exNE_toCfg, fun h => ?_⟩
  have := (pda_toCfg_lang exNE (by decide) (by decide) rfl exNE_marker (by decide) (by decide) _ exNE_toCfg []).mp h
  exact absurd (PDA.accepts_complete' exNE 20 [] [] (by decide) this) (by decide)

end Gamba

#print axioms Gamba.pda_toCfg_lang
