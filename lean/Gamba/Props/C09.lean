/-
  Gamba.Props.C09 — the PDA acceptance test (`pda_accepts_word` with the ε-closure iteration limit) is always
  sound w.r.t. the Sipser-style semantics of `Gamba.Spec.PDA`, and complete whenever no ε-closure it computes
  was truncated by the limit.
-/
import Gamba.Proofs.C09
namespace Gamba
variable {σ τ γ : Type} [DecidableEq σ] [DecidableEq τ] [DecidableEq γ]

-- some hypotheses of the requested signatures (`hε`, `hv`, `hn`, `hw`) are not needed by the proofs
set_option linter.unusedVariables false

/-- `moves` is exactly the spec's one-move relation (for a PDA whose δ has unique keys, as a Python dict has) -/
theorem pda_moves_iff (P : PDA σ τ γ) (hk : (P.delta.map (·.1)).Nodup) (hε : P.epsG ∉ P.Gamma) (hv : P.valid = true)
    (a : τ) (c c' : PConf σ γ) : c' ∈ P.moves a c ↔ P.Move a c c' :=
  ⟨PDA.Move_of_mem_moves hk, PDA.mem_moves_of_Move⟩

example : (C09.exPDA.delta.map (·.1)).Nodup ∧ C09.exPDA.epsG ∉ C09.exPDA.Gamma ∧ C09.exPDA.valid = true :=
  ⟨by decide, by decide, by decide⟩

example : C09.exPDA.moves "b" ("q", ["$", "A", "A"]) = [("q", ["$", "A"])] ∧
    C09.exPDA.moves "eps" ("q", ["$"]) = [("f", [])] ∧ C09.exPDA.moves "b" ("q", ["$"]) = [] ∧
    C09.exPDA.moves "a" ("p", ["$"]) = [("p", ["$", "A"])] := ⟨rfl, rfl, rfl, rfl⟩

example : C09.exPDA.Move "b" ("q", ["$", "A", "A"]) ("q", ["$", "A"]) :=
  (pda_moves_iff C09.exPDA (by decide) (by decide) (by decide) _ _ _).mp (by decide)

/-- every configuration in a (possibly truncated) closure is ε-reachable: for EVERY limit and pop order -/
theorem pda_epsClosure_sound (P : PDA σ τ γ) (hk : (P.delta.map (·.1)).Nodup) (hv : P.valid = true)
    (limit : Nat) (s : Sched) (R : List (PConf σ γ)) (c : PConf σ γ)
    (h : c ∈ (P.epsClosure limit s R).1) : P.EpsReach R c :=
  P.epsClosure_sound' hk limit s R c h

example : C09.exPDA.epsClosure 1000 [] [("s", [])] = ([("s", []), ("p", ["$"]), ("q", ["$"]), ("f", [])], false) ∧
    C09.exPDA.epsClosure 2 [7, 1] [("s", [])] = ([("s", []), ("p", ["$"]), ("q", ["$"])], true) := ⟨rfl, rfl⟩

example : C09.exPDA.EpsReach [("s", [])] ("q", ["$"]) :=
  pda_epsClosure_sound C09.exPDA (by decide) (by decide) 2 [7, 1] _ _ (by decide)

/-- an untruncated closure is exactly ε-reachability -/
theorem pda_epsClosure_complete (P : PDA σ τ γ) (hk : (P.delta.map (·.1)).Nodup) (hv : P.valid = true)
    (limit : Nat) (s : Sched) (R : List (PConf σ γ)) (h : (P.epsClosure limit s R).2 = false) (c : PConf σ γ) :
    c ∈ (P.epsClosure limit s R).1 ↔ P.EpsReach R c :=
  ⟨P.epsClosure_sound' hk limit s R c, P.epsClosure_complete' limit s R h c⟩

example : (C09.exPDA.epsClosure 1000 [] [("s", [])]).2 = false := rfl

/-- hence `(f, [])` is the only ε-reachable configuration of `exPDA` with state `f` -/
example (st : List String) (h : C09.exPDA.EpsReach [("s", [])] ("f", st)) : st = [] := by
  have := (pda_epsClosure_complete C09.exPDA (by decide) (by decide) 1000 [] [("s", [])] rfl ("f", st)).mpr h
  have hcl : (C09.exPDA.epsClosure 1000 [] [("s", [])]).1 = [("s", []), ("p", ["$"]), ("q", ["$"]), ("f", [])] := rfl
  rw [hcl] at this
  simp at this
  exact this

/-- the truncation flag is false as soon as the ε-reachable set is finite of size at most the limit
    (each iteration pops a distinct configuration): given as — if some duplicate-free list `U` contains every
    ε-reachable configuration and `U.length ≤ limit` then the closure is not truncated -/
theorem pda_epsClosure_not_truncated (P : PDA σ τ γ) (hk : (P.delta.map (·.1)).Nodup) (hv : P.valid = true)
    (limit : Nat) (s : Sched) (R U : List (PConf σ γ)) (hU : ∀ c, P.EpsReach R c → c ∈ U) (hn : U.Nodup)
    (hl : U.length ≤ limit) : (P.epsClosure limit s R).2 = false := by
  apply P.epsLoop_not_truncated hk R U hU limit s _ _ (nodup_dedup R)
    (fun _ hx => .base (mem_dedup.mp hx)) (fun _ hx => .base (mem_dedup.mp hx))
  have hle : (dedup R).length ≤ U.length :=
    List.Nodup.length_le_of_subset (nodup_dedup R) (fun x hx => hU x (.base (mem_dedup.mp hx)))
  omega

/-- non-vacuity: for `exPDA` the four configurations of the closure are all that is ε-reachable from `(s, [])`
    (by `pda_epsClosure_complete`), so a limit of 4 suffices for every pop order -/
example (s : Sched) : (C09.exPDA.epsClosure 4 s [("s", [])]).2 = false :=
  pda_epsClosure_not_truncated C09.exPDA (by decide) (by decide) 4 s [("s", [])]
    [("s", []), ("p", ["$"]), ("q", ["$"]), ("f", [])]
    (fun c hc => (pda_epsClosure_complete C09.exPDA (by decide) (by decide) 1000 [] [("s", [])] rfl c).mpr hc)
    (by decide) (by decide)

/-- SOUNDNESS: the test never answers True for a word without an accepting computation — any limit, any pop order -/
theorem pda_accepts_sound (P : PDA σ τ γ) (hk : (P.delta.map (·.1)).Nodup) (hv : P.valid = true)
    (limit : Nat) (s : Sched) (w : List τ) (hw : ∀ a, a ∈ w → a ∈ P.Sigma)
    (h : P.accepts limit s w = true) : P.Accepts w :=
  P.accepts_sound' hk limit s w (fun a ha he => PDA.valid_eps hv (he ▸ hw a ha)) h

example : C09.exPDA.accepts 1000 [] ["a", "b"] = true ∧ C09.exPDA.accepts 1000 [] ["a", "a", "b", "b"] = true ∧
    C09.exPDA.accepts 1000 [] [] = true ∧ C09.exPDA.accepts 1000 [] ["a", "b", "b"] = false ∧
    C09.exPDA.accepts 1000 [] ["b", "a"] = false := ⟨rfl, rfl, rfl, rfl, rfl⟩

example : C09.exPDA.Accepts ["a", "a", "b", "b"] :=
  pda_accepts_sound C09.exPDA (by decide) (by decide) 1000 [] _ (by decide) rfl

/-- COMPLETENESS below the limit: if no closure on the way was truncated, every accepted word is answered True -/
theorem pda_accepts_complete (P : PDA σ τ γ) (hk : (P.delta.map (·.1)).Nodup) (hv : P.valid = true)
    (limit : Nat) (s : Sched) (w : List τ) (hw : ∀ a, a ∈ w → a ∈ P.Sigma)
    (ht : (P.acceptsT limit s w).2 = false) (h : P.Accepts w) : P.accepts limit s w = true :=
  P.accepts_complete' limit s w ht h

example : (C09.exPDA.acceptsT 1000 [] ["a", "b", "b"]).2 = false ∧
    (C09.exPDA.acceptsT 1000 [] ["a", "a", "b", "b"]).2 = false := ⟨rfl, rfl⟩

/-- used contrapositively: an untruncated `False` answer is a proof of non-membership -/
example : ¬ C09.exPDA.Accepts ["a", "b", "b"] := by
  intro h
  have := pda_accepts_complete C09.exPDA (by decide) (by decide) 1000 [] ["a", "b", "b"] (by decide) rfl h
  exact absurd this (by decide)

/-! ### The truncation hypothesis of `pda_accepts_complete` cannot be dropped

`exLoopPDA` has the stack-growing ε-cycle `(s, Xⁿ) ⊢ (s, Xⁿ⁺¹)`; every closure from `(s, [])` is truncated,
whatever the limit.  It accepts `aaa`, but with limit 2 the test answers `False` (flag `true`);
with limit 3 it answers `True` (still flagged as truncated). -/

example : C09.exLoopPDA.valid = true ∧ (C09.exLoopPDA.delta.map (·.1)).Nodup := ⟨by decide, by decide⟩

example : C09.exLoopPDA.epsClosure 3 [] [("s", [])] =
    ([("s", []), ("s", ["X"]), ("s", ["X", "X"]), ("s", ["X", "X", "X"])], true) := rfl

example : C09.exLoopPDA.acceptsT 2 [] ["a", "a", "a"] = (false, true) ∧
    C09.exLoopPDA.acceptsT 3 [] ["a", "a", "a"] = (true, true) := ⟨rfl, rfl⟩

example : C09.exLoopPDA.Accepts ["a", "a", "a"] ∧ C09.exLoopPDA.accepts 2 [] ["a", "a", "a"] = false :=
  ⟨pda_accepts_sound C09.exLoopPDA (by decide) (by decide) 3 [] _ (by decide) rfl, rfl⟩

#print axioms pda_moves_iff
#print axioms pda_epsClosure_sound
#print axioms pda_epsClosure_complete
#print axioms pda_epsClosure_not_truncated
#print axioms pda_accepts_sound
#print axioms pda_accepts_complete

end Gamba
