/-
  Gamba.Props.C03 — the subset construction `nfa_to_dfa` (`NFA.toDfaSets` on structured subset states,
  `NFA.toDfa` with `print_state_set` names) terminates within its fuel for every pop order and yields a
  valid total DFA with the same language, whose initial state is the ε-closure of the NFA's initial state
  and all of whose states are reachable.
-/
import Gamba.Model.NFA
import Gamba.Spec.Automata
import Gamba.Proofs.C03
namespace Gamba
variable {σ τ : Type} [DecidableEq σ] [DecidableEq τ]

/-- partial correctness + termination of the subset construction on structured (list) states -/
theorem nfaToDfa_spec (N : NFA σ τ) (hv : N.valid = true) (s : Sched) :
    ∃ D, N.toDfaSets s = .ok D ∧ D.valid = true ∧ D.Sigma = N.Sigma ∧
      (∀ q, q ∈ D.q0 ↔ N.EpsReach [N.q0] q) ∧
      (∀ S, S ∈ D.Q → D.Reachable S) ∧
      (∀ S, S ∈ D.Q → ∀ q, q ∈ S → q ∈ N.Q) ∧
      ∀ w, (∀ a, a ∈ w → a ∈ N.Sigma) → (D.Accepts w ↔ N.Accepts w) :=
  NFA.toDfaSets_spec hv s

/-- non-vacuity: a valid NFA with an ε-move, a nondeterministic `a`-move and a partial δ; the construction
    yields four subset states, among them the empty set, whatever the pop order -/
example : C03.exN.valid = true ∧ C03.exN.toDfaSets [] = .ok C03.exD ∧
    C03.exN.toDfaSets [3, 1, 2] = .ok C03.exD ∧
    C03.exD.Q = [["0"], ["0", "1", "2"], [], ["2"]] ∧ C03.exD.valid = true :=
  ⟨C03.exN_valid, C03.exN_toDfaSets, C03.exN_toDfaSets', rfl, by decide⟩

/-- (extra) partial correctness for EVERY fuel given to the `while todo:` loop: if the loop started on the
    initial accumulator returns at all, the assembled automaton has all the properties of `nfaToDfa_spec` -/
theorem nfaToDfa_loop_partial (N : NFA σ τ) (hv : N.valid = true) (s : Sched) (fuel : Nat)
    (acc : SubsetAcc σ τ)
    (h : N.subsetLoop s fuel
      { Q := [N.canon (N.closureT s [N.q0])], delta := [],
        F := if !sdisjoint (N.canon (N.closureT s [N.q0])) N.F then [N.canon (N.closureT s [N.q0])] else [],
        todo := [N.canon (N.closureT s [N.q0])] } = .ok acc) :
    acc.todo = [] ∧
    let D := acc.toDFA N.Sigma (N.canon (N.closureT s [N.q0]))
    D.valid = true ∧ D.Sigma = N.Sigma ∧
      (∀ q, q ∈ D.q0 ↔ N.EpsReach [N.q0] q) ∧
      (∀ S, S ∈ D.Q → D.Reachable S) ∧
      (∀ S, S ∈ D.Q → ∀ q, q ∈ S → q ∈ N.Q) ∧
      ∀ w, (∀ a, a ∈ w → a ∈ N.Sigma) → (D.Accepts w ↔ N.Accepts w) := by
  obtain ⟨h1, ht⟩ := NFA.subsetLoop_inv hv s _ fuel _ _ (NFA.OInv.initial hv s) h
  exact ⟨ht, h1.final hv ht⟩

/-- the language of the result does not depend on the pop order -/
theorem nfaToDfa_sched_indep (N : NFA σ τ) (hv : N.valid = true) (s s' : Sched) :
    ∃ D D', N.toDfaSets s = .ok D ∧ N.toDfaSets s' = .ok D' ∧
      ∀ w, (∀ a, a ∈ w → a ∈ N.Sigma) → (D.Accepts w ↔ D'.Accepts w) := by
  obtain ⟨D, hD, _, _, _, _, _, hL⟩ := nfaToDfa_spec N hv s
  obtain ⟨D', hD', _, _, _, _, _, hL'⟩ := nfaToDfa_spec N hv s'
  exact ⟨D, D', hD, hD', fun w hw => (hL w hw).trans (hL' w hw).symm⟩

example : C03.exN.valid = true ∧ (∀ a, a ∈ ["a", "b", "b"] → a ∈ C03.exN.Sigma) ∧
    C03.exD.Accepts ["a", "b", "b"] := by
  refine ⟨C03.exN_valid, by decide, ?_⟩
  rw [DFA.Accepts_iff_runT (by decide) (by decide)]
  decide

/-- with `print_state_set` names: if the naming is injective on the constructed subsets (true when NFA state
    names contain no ',' '{' '}'), the named DFA is valid and has the same language -/
theorem nfaToDfa_named (N : NFA String String) (hv : N.valid = true) (s : Sched) :
    ∃ D, N.toDfaSets s = .ok D ∧
      ((∀ S T, S ∈ D.Q → T ∈ D.Q → printStateSet S = printStateSet T → S = T) →
        ∃ D', N.toDfa s = .ok D' ∧ D'.valid = true ∧
          ∀ w, (∀ a, a ∈ w → a ∈ N.Sigma) → (D'.Accepts w ↔ N.Accepts w)) := by
  obtain ⟨D, hD, hval, hSig, _, _, _, hL⟩ := nfaToDfa_spec N hv s
  refine ⟨D, hD, ?_⟩
  intro hinj
  refine ⟨D.mapStates printStateSet, ?_, DFA.mapStates_valid' _ D hval hinj, ?_⟩
  · unfold NFA.toDfa
    rw [hD]
    rfl
  · intro w hw
    rw [DFA.mapStates_accepts_iff _ D hval hinj w (hSig ▸ hw)]
    exact hL w hw

/-- non-vacuity: the named automaton of `exN`, evaluated; the naming is injective on its four subsets -/
example : C03.exN.toDfa [] = .ok C03.exDnamed ∧
    C03.exDnamed.Q = ["{0}", "{0,1,2}", "{}", "{2}"] ∧ C03.exDnamed.valid = true ∧
    (∀ S T, S ∈ C03.exD.Q → T ∈ C03.exD.Q → printStateSet S = printStateSet T → S = T) :=
  ⟨C03.exN_toDfa, rfl, by decide, C03.exD_names_inj⟩

/-- the injectivity hypothesis of `nfaToDfa_named` cannot be dropped: state names containing ',' make two
    different subsets print alike -/
example : printStateSet ["a,b"] = printStateSet ["a", "b"] ∧ ["a,b"] ≠ ["a", "b"] := by
  refine ⟨?_, by decide⟩
  simp [printStateSet, sortStrings, dedup, List.mergeSort]

#print axioms nfaToDfa_spec
#print axioms nfaToDfa_loop_partial
#print axioms nfaToDfa_sched_indep
#print axioms nfaToDfa_named

end Gamba
