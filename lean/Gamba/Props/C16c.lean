/-
  Gamba.Props.C16c — the PDA and TM text formats: the parsers build exactly what was written (C17), and
  `parse_pda (print_pda P)`, `parse_tm (print_tm T)` give the automaton back (C16).
-/
import Gamba.Proofs.C16c
namespace Gamba
open Parse

/-! ### C17 — the parsers build exactly what was written -/

/-- `parse_pda` builds exactly what was written: the states are the declared ones (else the used ones), the initial and
    final states are the declared ones, ε is one string for both roles, and `(q, v) ∈ δ(p, a, u)` exactly when some
    transition entry `p q a,uv` was read (`a`, `u`, `v` one character each).  Moreover a declared `epsilon`,
    `input_symbols`, `stack_symbols` is taken as written, and an undeclared input alphabet is the set of first label
    characters other than ε. -/
theorem parsePda_builds (text : List Char) (P : SPDA) (h : Parse.parsePda text = .ok P) :
    ∃ A0, Parse.parseRaw .pda Parse.isWord text = .ok A0 ∧
      P.Q = (if A0.states.isEmpty then Parse.usedStates A0 else A0.states) ∧ A0.initial = [P.q0] ∧ P.F = A0.final ∧
      P.epsG = P.eps ∧
      (∀ p a u q v, (q, v) ∈ (P.delta.lookup (p, a, u)).getD [] ↔
          ∃ l, (p, l, q) ∈ A0.transitions ∧ l = a.toList ++ [','] ++ u.toList ++ v.toList ∧
            a.length = 1 ∧ u.length = 1 ∧ v.length = 1) ∧
      (∀ v, A0.items.lookup "epsilon" = some [v] → P.eps = v) ∧
      (∀ d, A0.items.lookup "input_symbols" = some d → ∀ a, a ∈ P.Sigma ↔ a ∈ d) ∧
      (∀ d, A0.items.lookup "stack_symbols" = some d → ∀ x, x ∈ P.Gamma ↔ x ∈ d) ∧
      (A0.items.lookup "input_symbols" = none → ∀ a, a ∈ P.Sigma ↔
          a ≠ P.eps ∧ ∃ p l q c, (p, l, q) ∈ A0.transitions ∧ l.head? = some c ∧ a = String.singleton c) :=
  Parse.parsePda_builds' text P h

/-- an accepted text: two labels on one line, ε in all three positions -/
example : Parse.parsePda "initial p\nfinal q\np p a,εA a,εB\np q b,Aε ε,εε".toList =
    .ok { Q := ["p", "q"], Sigma := ["a", "b"], Gamma := ["B", "A"], q0 := "p", F := ["q"], eps := "ε", epsG := "ε",
          delta := [(("p", "a", "ε"), [("p", "A"), ("p", "B")]), (("p", "b", "A"), [("q", "ε")]),
                    (("p", "ε", "ε"), [("q", "ε")])] } := by rfl

/-- `parse_tm` builds exactly what was written: initial / accept / reject / blank as declared; the input alphabet is the
    declared one — also when it is declared EMPTY — and `Γ ∖ {blank}` when there is no declaration; the blank is a
    tape symbol; and `δ(p, x) = (q, y, d)` exactly when `x`, `y` are single characters `a`, `b` and the LAST
    transition entry from `p` whose label starts with `a` is `p q ab,d` (`delta[(p, a)] = …` overwrites). -/
theorem parseTm_builds (text : List Char) (T : TM String String) (h : Parse.parseTm text = .ok T) :
    ∃ A0, Parse.parseRaw .tm Parse.isWord text = .ok A0 ∧ A0.initial = [T.q0] ∧
      (∀ v, A0.items.lookup "accept" = some [v] → T.qAccept = v) ∧
      (∀ v, A0.items.lookup "reject" = some [v] → T.qReject = v) ∧
      (A0.items.lookup "input_symbols" = none → ∀ a, a ∈ T.Sigma ↔ (a ∈ T.Gamma ∧ a ≠ T.blank)) ∧
      (∀ d, A0.items.lookup "input_symbols" = some d → ∀ a, a ∈ T.Sigma ↔ a ∈ d) ∧ T.blank ∈ T.Gamma ∧
      (∀ p x q y d, T.delta.lookup (p, x) = some (q, y, d) ↔
        ∃ a b pre post, x = String.singleton a ∧ y = String.singleton b ∧
          A0.transitions = pre ++ (p, [a, b, ','] ++ (dirStr d).toList, q) :: post ∧
          ∀ t, t ∈ post → ¬ (t.1 = p ∧ t.2.1.head? = some a)) ∧
      (∀ v, A0.items.lookup "blank" = some [v] → T.blank = v) ∧
      (∀ d, A0.items.lookup "tape_symbols" = some d → ∀ x, x ∈ T.Gamma ↔ x ∈ d ∨ x = T.blank) :=
  Parse.parseTm_builds' text T h

/-- an accepted text in which `(p, a)` is written twice: the last entry wins; the declared empty input alphabet
    stays empty -/
example : Parse.parseTm "initial p\ninput_symbols\np p aa,R\np q ab,L\np accept __,R".toList =
    .ok { Q := ["q", "p", "accept", "reject"], Sigma := [], Gamma := ["a", "b", "_"], q0 := "p",
          qAccept := "accept", qReject := "reject", blank := "_",
          delta := [(("p", "a"), ("q", "b", Dir.L)), (("p", "_"), ("accept", "_", Dir.R))] } := by rfl

#print axioms parsePda_builds
#print axioms parseTm_builds

end Gamba
