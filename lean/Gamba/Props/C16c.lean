/-
  Gamba.Props.C16c — the PDA and TM text formats: the parsers build exactly what was written (C17), and
  `parse_pda (print_pda P)`, `parse_tm (print_tm T)` give the automaton back (C16).
-/
import Gamba.Proofs.C16c
namespace Gamba
open Parse

/-! ### C17 — the parsers build exactly what was written -/

/-- `parse_pda` builds exactly what was written: the states are the declared ones (else the used ones), the initial and
    final states are the declared ones, ε is one string for both roles, and `(q, v) ∈ δ(p, a, u)` exactly when some
    transition entry `p q a,uv` was read (`a`, `u`, `v` one character each).  Moreover a declared `epsilon`,
    `input_symbols`, `stack_symbols` is taken as written, and an undeclared input alphabet is the set of first label
    characters other than ε. -/
theorem parsePda_builds (text : List Char) (P : SPDA) (h : Parse.parsePda text = .ok P) :
    ∃ A0, Parse.parseRaw .pda Parse.isWord text = .ok A0 ∧
      P.Q = (if A0.states.isEmpty then Parse.usedStates A0 else A0.states) ∧ A0.initial = [P.q0] ∧ P.F = A0.final ∧
      P.epsG = P.eps ∧
      (∀ p a u q v, (q, v) ∈ (P.delta.lookup (p, a, u)).getD [] ↔
          ∃ l, (p, l, q) ∈ A0.transitions ∧ l = a.toList ++ [','] ++ u.toList ++ v.toList ∧
            a.length = 1 ∧ u.length = 1 ∧ v.length = 1) ∧
      (∀ v, A0.items.lookup "epsilon" = some [v] → P.eps = v) ∧
      (∀ d, A0.items.lookup "input_symbols" = some d → ∀ a, a ∈ P.Sigma ↔ a ∈ d) ∧
      (∀ d, A0.items.lookup "stack_symbols" = some d → ∀ x, x ∈ P.Gamma ↔ x ∈ d) ∧
      (A0.items.lookup "input_symbols" = none → ∀ a, a ∈ P.Sigma ↔
          a ≠ P.eps ∧ ∃ p l q c, (p, l, q) ∈ A0.transitions ∧ l.head? = some c ∧ a = String.singleton c) :=
  Parse.parsePda_builds' text P h

/-- an accepted text: two labels on one line, ε in all three positions -/
example : Parse.parsePda "initial p\nfinal q\np p a,εA a,εB\np q b,Aε ε,εε".toList =
    .ok { Q := ["p", "q"], Sigma := ["a", "b"], Gamma := ["B", "A"], q0 := "p", F := ["q"], eps := "ε", epsG := "ε",
          delta := [(("p", "a", "ε"), [("p", "A"), ("p", "B")]), (("p", "b", "A"), [("q", "ε")]),
                    (("p", "ε", "ε"), [("q", "ε")])] } := by rfl

/-- `parse_tm` builds exactly what was written: initial / accept / reject / blank as declared; the input alphabet is the
    declared one — also when it is declared EMPTY — and `Γ ∖ {blank}` when there is no declaration; the blank is a
    tape symbol; and `δ(p, x) = (q, y, d)` exactly when `x`, `y` are single characters `a`, `b` and the LAST
    transition entry from `p` whose label starts with `a` is `p q ab,d` (`delta[(p, a)] = …` overwrites). -/
theorem parseTm_builds (text : List Char) (T : TM String String) (h : Parse.parseTm text = .ok T) :
    ∃ A0, Parse.parseRaw .tm Parse.isWord text = .ok A0 ∧ A0.initial = [T.q0] ∧
      (∀ v, A0.items.lookup "accept" = some [v] → T.qAccept = v) ∧
      (∀ v, A0.items.lookup "reject" = some [v] → T.qReject = v) ∧
      (A0.items.lookup "input_symbols" = none → ∀ a, a ∈ T.Sigma ↔ (a ∈ T.Gamma ∧ a ≠ T.blank)) ∧
      (∀ d, A0.items.lookup "input_symbols" = some d → ∀ a, a ∈ T.Sigma ↔ a ∈ d) ∧ T.blank ∈ T.Gamma ∧
      (∀ p x q y d, T.delta.lookup (p, x) = some (q, y, d) ↔
        ∃ a b pre post, x = String.singleton a ∧ y = String.singleton b ∧
          A0.transitions = pre ++ (p, [a, b, ','] ++ (dirStr d).toList, q) :: post ∧
          ∀ t, t ∈ post → ¬ (t.1 = p ∧ t.2.1.head? = some a)) ∧
      (∀ v, A0.items.lookup "blank" = some [v] → T.blank = v) ∧
      (∀ d, A0.items.lookup "tape_symbols" = some d → ∀ x, x ∈ T.Gamma ↔ x ∈ d ∨ x = T.blank) :=
  Parse.parseTm_builds' text T h

/-- an accepted text in which `(p, a)` is written twice: the last entry wins; the declared empty input alphabet
    stays empty -/
example : Parse.parseTm "initial p\ninput_symbols\np p aa,R\np q ab,L\np accept __,R".toList =
    .ok { Q := ["q", "p", "accept", "reject"], Sigma := [], Gamma := ["a", "b", "_"], q0 := "p",
          qAccept := "accept", qReject := "reject", blank := "_",
          delta := [(("p", "a"), ("q", "b", Dir.L)), (("p", "_"), ("accept", "_", Dir.R))] } := by rfl

/-! ### C16 — the TM and PDA round trips -/

/-- `parse_tm (print_tm T)` succeeds and gives `T` back — same states, input alphabet, tape alphabet (as sets), same
    initial / accepting / rejecting state and blank, same transition function — for every valid TM whose transition table
    has no repeated key, whose state names are words other than the keywords of the format, and whose tape symbols are
    single characters of the label class `[\w~!@#$%^&*□]`.  In particular an EMPTY input alphabet comes back empty
    (the `input_symbols` line is printed even then).  (`Parse.TmNameOk`, `Parse.Char1` are defined in Proofs/C16c.lean;
    the hypothesis on the blank follows from the one on `Γ` since `blank ∈ Γ`, it is kept for readability.) -/
theorem parse_print_tm (T : TM String String) (hv : T.valid = true) (hk : (T.delta.map (·.1)).Nodup)
    (hQ : ∀ q, q ∈ T.Q → Parse.TmNameOk q)
    (hG : ∀ x, x ∈ T.Gamma → Parse.Char1 (Parse.isLabelSym true) x)
    (_hb : Parse.Char1 (Parse.isLabelSym true) T.blank) :
    ∃ T', Parse.parseTm (Parse.printTm T).toList = .ok T' ∧
      (∀ q, q ∈ T'.Q ↔ q ∈ T.Q) ∧ (∀ a, a ∈ T'.Sigma ↔ a ∈ T.Sigma) ∧ (∀ x, x ∈ T'.Gamma ↔ x ∈ T.Gamma) ∧
      T'.q0 = T.q0 ∧ T'.qAccept = T.qAccept ∧ T'.qReject = T.qReject ∧ T'.blank = T.blank ∧
      ∀ k, T'.delta.lookup k = T.delta.lookup k := by
  obtain ⟨T', hp, _, hQ', hS', hG', h0, ha, hr, hb', hd'⟩ := Parse.parse_print_tm_explicit T hv hk hQ hG
  have hbG : T.blank ∈ T.Gamma := ((TM.valid_iff' T).mp hv).2.2.2.2.2.1
  refine ⟨T', hp, ?_, ?_, ?_, h0, ha, hr, hb', ?_⟩
  · intro q; rw [hQ']; exact mem_sortStrings_dedup
  · intro a; rw [hS', mem_dedup]; exact mem_sortStrings_dedup
  · intro x
    rw [hG', mem_sinsert, mem_dedup, mem_sortStrings_dedup]
    constructor
    · rintro (h | rfl)
      · exact h
      · exact hbG
    · exact Or.inl
  · intro k
    exact lookup_eq_of_perm hd' ((hd'.map (·.1)).nodup_iff.mpr hk) k

/-- a TM with an EMPTY input alphabet (it writes `x` on the blank tape, steps back and accepts) -/
def C16.exT : TM String String :=
  { Q := ["s", "qr", "qa"], Sigma := [], Gamma := ["x", "_"], q0 := "s", qAccept := "qa", qReject := "qr", blank := "_",
    delta := [(("s", "_"), ("s", "x", Dir.R)), (("s", "x"), ("qa", "_", Dir.L))] }

/-- the hypotheses of `parse_print_tm` hold for it -/
example : C16.exT.valid = true ∧ (C16.exT.delta.map (·.1)).Nodup ∧ (∀ q, q ∈ C16.exT.Q → Parse.TmNameOk q) ∧
    (∀ x, x ∈ C16.exT.Gamma → Parse.Char1 (Parse.isLabelSym true) x) ∧
    Parse.Char1 (Parse.isLabelSym true) C16.exT.blank := by
  refine ⟨by decide, by decide, ?_, ?_, ⟨'_', rfl, by decide⟩⟩
  · unfold Parse.TmNameOk; decide
  · intro x hx
    simp only [C16.exT, List.mem_cons, List.not_mem_nil, or_false] at hx
    rcases hx with rfl | rfl
    · exact ⟨'x', rfl, by decide⟩
    · exact ⟨'_', rfl, by decide⟩

theorem C16.exT_print : Parse.printTm C16.exT =
    "states qa qr s\ninitial s\naccept qa\nreject qr\ninput_symbols \ntape_symbols _ x\nblank _\ns qa x_,L\ns s _x,R\n" := by
  have s1 : sortStrings (dedup C16.exT.Q) = ["qa", "qr", "s"] := by
    have : dedup C16.exT.Q = ["s", "qr", "qa"] := by rfl
    rw [this]; simp [sortStrings, List.mergeSort, List.MergeSort.Internal.splitInTwo]
  have s2 : sortStrings (dedup C16.exT.Sigma) = [] := by
    have : dedup C16.exT.Sigma = [] := by rfl
    rw [this]; simp [sortStrings]
  have s3 : sortStrings (dedup C16.exT.Gamma) = ["_", "x"] := by
    have : dedup C16.exT.Gamma = ["x", "_"] := by rfl
    rw [this]; simp [sortStrings, List.mergeSort, List.MergeSort.Internal.splitInTwo]
  have s4 : sortStrings (dedup ((C16.exT.delta.map fun e => (e.1.1, e.2.1, e.1.2 ++ e.2.2.1 ++ "," ++ dirStr e.2.2.2)).map
      fun t => t.1 ++ " " ++ t.2.1)) = ["s qa", "s s"] := by
    have : dedup ((C16.exT.delta.map fun e => (e.1.1, e.2.1, e.1.2 ++ e.2.2.1 ++ "," ++ dirStr e.2.2.2)).map
        fun t => t.1 ++ " " ++ t.2.1) = ["s s", "s qa"] := by rfl
    rw [this]; simp [sortStrings, List.mergeSort, List.MergeSort.Internal.splitInTwo]
  unfold Parse.printTm Parse.transLines
  simp only [s1, s2, s3, s4]
  rfl

/-- … and the round trip evaluated: the sets come back sorted, the transition entries in printing order, the input
    alphabet EMPTY -/
example : Parse.parseTm (Parse.printTm C16.exT).toList =
    .ok { C16.exT with Q := ["qa", "qr", "s"], Sigma := [], Gamma := ["_", "x"],
                       delta := [(("s", "x"), ("qa", "_", Dir.L)), (("s", "_"), ("s", "x", Dir.R))] } := by
  rw [C16.exT_print]; rfl

/-- the name condition is needed: a source state called `accept` prints a second `accept` declaration -/
example : Parse.parseTm "states accept r\ninitial accept\naccept accept\nreject r\ninput_symbols \ntape_symbols _\nblank _\naccept r __,R\n".toList =
    .error .runtimeError := by rfl

/-- `parse_pda (print_pda P)` succeeds and gives `P` back — same states, alphabets, final states (as sets), same initial
    state and ε, and the same transition relation — for every valid PDA whose transition table has no repeated key,
    whose ε is one string for both roles, whose state names are words other than the keywords of the format, whose
    input symbols and ε are single `\w` characters and whose stack symbols are single characters of the label class
    `[\w~!@#$%^&*]`.  (`Parse.PdaNameOk`, `Parse.Char1` are defined in Proofs/C16c.lean.) -/
theorem parse_print_pda (P : SPDA) (hv : P.valid = true) (hk : (P.delta.map (·.1)).Nodup) (heq : P.epsG = P.eps)
    (hQ : ∀ q, q ∈ P.Q → Parse.PdaNameOk q)
    (hS : ∀ a, a ∈ P.Sigma → Parse.Char1 Text.isWordChar a)
    (hG : ∀ x, x ∈ P.Gamma → Parse.Char1 (Parse.isLabelSym false) x)
    (he : Parse.Char1 Text.isWordChar P.eps) :
    ∃ P', Parse.parsePda (Parse.printPda P).toList = .ok P' ∧
      (∀ q, q ∈ P'.Q ↔ q ∈ P.Q) ∧ (∀ a, a ∈ P'.Sigma ↔ a ∈ P.Sigma) ∧ (∀ x, x ∈ P'.Gamma ↔ x ∈ P.Gamma) ∧
      P'.q0 = P.q0 ∧ (∀ q, q ∈ P'.F ↔ q ∈ P.F) ∧ P'.eps = P.eps ∧ P'.epsG = P.epsG ∧
      ∀ k t, t ∈ (P'.delta.lookup k).getD [] ↔ t ∈ (P.delta.lookup k).getD [] := by
  obtain ⟨P', hp, _, hQ', hS', hG', h0, hF', he1, he2, hd'⟩ :=
    Parse.parse_print_pda_explicit P ⟨hv, heq, hS, hG, he⟩ hk hQ
  refine ⟨P', hp, ?_, ?_, ?_, h0, ?_, he1, he2.trans heq.symm, hd'⟩
  · intro q; rw [hQ']; exact mem_sortStrings_dedup
  · intro a; rw [hS', mem_dedup]; exact mem_sortStrings_dedup
  · intro x; rw [hG', mem_dedup]; exact mem_sortStrings_dedup
  · intro q; rw [hF']; exact mem_sortStrings_dedup

/-- an `aⁿbⁿ`-style PDA with single-character symbols (`C09.exPDA` itself calls ε `"eps"`, which the label syntax
    cannot carry); `δ(p, a, ε)` has two targets, printed on one line -/
def C16.exP : SPDA :=
  { Q := ["s", "p", "q", "f"], Sigma := ["b", "a"], Gamma := ["A", "$"],
    delta := [(("s", "ε", "ε"), [("p", "$")]), (("p", "a", "ε"), [("p", "A"), ("p", "$")]),
              (("p", "ε", "ε"), [("q", "ε")]), (("q", "b", "A"), [("q", "ε")]), (("q", "ε", "$"), [("f", "ε")])],
    q0 := "s", F := ["f"], eps := "ε", epsG := "ε" }

/-- the hypotheses of `parse_print_pda` hold for it -/
example : C16.exP.valid = true ∧ (C16.exP.delta.map (·.1)).Nodup ∧ C16.exP.epsG = C16.exP.eps ∧
    (∀ q, q ∈ C16.exP.Q → Parse.PdaNameOk q) ∧ (∀ a, a ∈ C16.exP.Sigma → Parse.Char1 Text.isWordChar a) ∧
    (∀ x, x ∈ C16.exP.Gamma → Parse.Char1 (Parse.isLabelSym false) x) ∧ Parse.Char1 Text.isWordChar C16.exP.eps := by
  refine ⟨by decide, by decide, rfl, ?_, ?_, ?_, ⟨'ε', rfl, by decide⟩⟩
  · unfold Parse.PdaNameOk; decide
  · intro x hx
    simp only [C16.exP, List.mem_cons, List.not_mem_nil, or_false] at hx
    rcases hx with rfl | rfl
    · exact ⟨'b', rfl, by decide⟩
    · exact ⟨'a', rfl, by decide⟩
  · intro x hx
    simp only [C16.exP, List.mem_cons, List.not_mem_nil, or_false] at hx
    rcases hx with rfl | rfl
    · exact ⟨'A', rfl, by decide⟩
    · exact ⟨'$', rfl, by decide⟩

set_option maxRecDepth 8192 in
theorem C16.exP_print : Parse.printPda C16.exP =
    "states f p q s\nfinal f\ninitial s\ninput_symbols a b\nstack_symbols $ A\nepsilon ε\np p a,εA a,ε$\np q ε,εε\nq f ε,$ε\nq q b,Aε\ns p ε,ε$\n" := by
  have s1 : sortStrings (dedup C16.exP.Q) = ["f", "p", "q", "s"] := by
    have : dedup C16.exP.Q = ["s", "p", "q", "f"] := by rfl
    rw [this]; simp [sortStrings, List.mergeSort, List.MergeSort.Internal.splitInTwo]
  have s2 : sortStrings (dedup C16.exP.F) = ["f"] := by
    have : dedup C16.exP.F = ["f"] := by rfl
    rw [this]; simp [sortStrings]
  have s3 : sortStrings (dedup C16.exP.Sigma) = ["a", "b"] := by
    have : dedup C16.exP.Sigma = ["b", "a"] := by rfl
    rw [this]; simp [sortStrings, List.mergeSort, List.MergeSort.Internal.splitInTwo]
  have s4 : sortStrings (dedup C16.exP.Gamma) = ["$", "A"] := by
    have : dedup C16.exP.Gamma = ["A", "$"] := by rfl
    rw [this]; simp [sortStrings, List.mergeSort, List.MergeSort.Internal.splitInTwo]
  have s5 : sortStrings (dedup ((C16.exP.delta.flatMap fun e => e.2.map fun t =>
      (e.1.1, t.1, e.1.2.1 ++ "," ++ e.1.2.2 ++ t.2)).map fun t => t.1 ++ " " ++ t.2.1)) =
      ["p p", "p q", "q f", "q q", "s p"] := by
    have : dedup ((C16.exP.delta.flatMap fun e => e.2.map fun t =>
        (e.1.1, t.1, e.1.2.1 ++ "," ++ e.1.2.2 ++ t.2)).map fun t => t.1 ++ " " ++ t.2.1) =
        ["s p", "p p", "p q", "q q", "q f"] := by rfl
    rw [this]; simp [sortStrings, List.mergeSort, List.MergeSort.Internal.splitInTwo]
  unfold Parse.printPda Parse.transLines
  simp only [s1, s2, s3, s4, s5]
  rfl

set_option maxRecDepth 8192 in
/-- … and the round trip evaluated: the sets come back sorted, the transition entries in printing order -/
example : Parse.parsePda (Parse.printPda C16.exP).toList =
    .ok { C16.exP with Q := ["f", "p", "q", "s"], Sigma := ["a", "b"], Gamma := ["$", "A"],
                       delta := [(("p", "a", "ε"), [("p", "A"), ("p", "$")]), (("p", "ε", "ε"), [("q", "ε")]),
                                 (("q", "ε", "$"), [("f", "ε")]), (("q", "b", "A"), [("q", "ε")]),
                                 (("s", "ε", "ε"), [("p", "$")])] } := by
  rw [C16.exP_print]; rfl

/-- the single-character conditions are needed: with ε called `eps` (as in `C09.exPDA`) the printed label
    `eps,epsA` is not of the form `\w,SS` and the line parser rejects it -/
example : Parse.parsePda "states p\nfinal \ninitial p\ninput_symbols a\nstack_symbols A\nepsilon eps\np p eps,epsA\n".toList =
    .error .runtimeError := by rfl

/-- a table listing the key `(p, a, ε)` twice, with targets `A` then `B` -/
def C16.exDup : SPDA :=
  { Q := ["p"], Sigma := ["a"], Gamma := ["A", "B"], q0 := "p", F := [], eps := "ε", epsG := "ε",
    delta := [(("p", "a", "ε"), [("p", "A")]), (("p", "a", "ε"), [("p", "B")])] }

theorem C16.exDup_print : Parse.printPda C16.exDup =
    "states p\nfinal \ninitial p\ninput_symbols a\nstack_symbols A B\nepsilon ε\np p a,εA a,εB\n" := by
  have s1 : sortStrings (dedup C16.exDup.Q) = ["p"] := by
    have : dedup C16.exDup.Q = ["p"] := by rfl
    rw [this]; simp [sortStrings]
  have s2 : sortStrings (dedup C16.exDup.F) = [] := by
    have : dedup C16.exDup.F = [] := by rfl
    rw [this]; simp [sortStrings]
  have s3 : sortStrings (dedup C16.exDup.Sigma) = ["a"] := by
    have : dedup C16.exDup.Sigma = ["a"] := by rfl
    rw [this]; simp [sortStrings]
  have s4 : sortStrings (dedup C16.exDup.Gamma) = ["A", "B"] := by
    have : dedup C16.exDup.Gamma = ["A", "B"] := by rfl
    rw [this]; simp [sortStrings, List.mergeSort, List.MergeSort.Internal.splitInTwo]
  have s5 : sortStrings (dedup ((C16.exDup.delta.flatMap fun e => e.2.map fun t =>
      (e.1.1, t.1, e.1.2.1 ++ "," ++ e.1.2.2 ++ t.2)).map fun t => t.1 ++ " " ++ t.2.1)) = ["p p"] := by
    have : dedup ((C16.exDup.delta.flatMap fun e => e.2.map fun t =>
        (e.1.1, t.1, e.1.2.1 ++ "," ++ e.1.2.2 ++ t.2)).map fun t => t.1 ++ " " ++ t.2.1) = ["p p"] := by rfl
    rw [this]; simp [sortStrings]
  unfold Parse.printPda Parse.transLines
  simp only [s1, s2, s3, s4, s5]
  rfl

/-- the condition on repeated keys is needed: both entries are printed (on one line) and read back as ONE entry with
    two targets, while the first-match lookup of the original only sees the first -/
example : ∃ P', Parse.parsePda (Parse.printPda C16.exDup).toList = .ok P' ∧
    P'.delta.lookup ("p", "a", "ε") = some [("p", "A"), ("p", "B")] ∧
    C16.exDup.delta.lookup ("p", "a", "ε") = some [("p", "A")] := by
  rw [C16.exDup_print]
  exact ⟨_, rfl, rfl, rfl⟩

#print axioms parsePda_builds
#print axioms parseTm_builds
#print axioms parse_print_tm
#print axioms parse_print_pda

end Gamba
