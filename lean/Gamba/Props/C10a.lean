/-
  Gamba.Props.C10a — the PDA normal-form constructions of the model (`pda_to_one_accepting_state_in_place`,
  `pda_to_accept_on_empty_stack_in_place` as repaired with the drain state, `pda_to_push_pop_in_place`)
  produce valid automata with exactly the language of the original (acceptance by final state, any stack),
  the empty-stack variant accepts only with the empty stack, and the push/pop variant has only push or pop moves.

  Two hypotheses had to be added to the String-level statements (counterexamples below):
  * `pda_emptyStackS_spec`: the bottom marker chosen by `fresh_symbol(Gamma, '$@#*&!?')` must differ from the
    PDA's ε (`freshSymbol P.Gamma ≠ .ok P.epsG`); a PDA whose ε is the string `$` gets the marker `$`;
  * `pda_pushPopS_spec`: the PDA's ε must not be the dummy symbol `∅` (`P.epsG ≠ "∅"`).
-/
import Gamba.Model.PDA
import Gamba.Spec.PDA
import Gamba.Proofs.C09
import Gamba.Proofs.C10a
namespace Gamba
variable {σ τ γ : Type} [DecidableEq σ] [DecidableEq τ] [DecidableEq γ]

open C10a

/-! ### single accepting state -/

/-- single accepting state -/
theorem pda_oneAccepting_spec (P : PDA σ τ γ) (hv : P.valid = true) (hk : (P.delta.map (·.1)).Nodup) (qa : σ) (hq : qa ∉ P.Q) :
    (P.toOneAccepting qa).valid = true ∧ ((P.toOneAccepting qa).delta.map (·.1)).Nodup ∧
    ((dedup P.F).length ≠ 1 → (P.toOneAccepting qa).F = [qa]) ∧
    ∀ w, (P.toOneAccepting qa).Accepts w ↔ P.Accepts w :=
  oneAcc_spec P hv hk qa hq

example : exNO.valid = true ∧ (exNO.delta.map (·.1)).Nodup ∧ "qa" ∉ exNO.Q ∧ (dedup exNO.F).length ≠ 1 :=
  ⟨by decide, by decide, by decide, by decide⟩

example : exNO.toOneAccepting "qa" =
    { exNO with Q := ["q0", "q1", "q2", "qa"], F := ["qa"],
                delta := [(("q0", "a", "eps"), [("q1", "x"), ("q0", "eps")]), (("q1", "eps", "x"), [("q2", "y")]),
                          (("q1", "eps", "eps"), [("qa", "eps")]), (("q2", "eps", "eps"), [("qa", "eps")])] } := by
  rfl

/-- a PDA that already has exactly one accepting state is returned unchanged -/
example : exNE.toOneAccepting "qa" = exNE := by rfl

/-! ### accept on the empty stack -/

/-- accept on empty stack (with the drain state): same language, and every accepting computation ends with the empty stack -/
theorem pda_emptyStack_spec (P : PDA σ τ γ) (hv : P.valid = true) (hk : (P.delta.map (·.1)).Nodup)
    (bottom : γ) (qi qd qa : σ) (hb : bottom ∉ P.Gamma) (hbe : bottom ≠ P.epsG)
    (hqi : qi ∉ P.Q) (hqd : qd ∉ P.Q) (hqa : qa ∉ P.Q) (h1 : qi ≠ qd) (h2 : qi ≠ qa) (h3 : qd ≠ qa) :
    let P' := P.toAcceptOnEmptyStack bottom qi qd qa
    P'.valid = true ∧ (P'.delta.map (·.1)).Nodup ∧ P'.F = [qa] ∧
    (∀ w, P'.Accepts w ↔ P.Accepts w) ∧
    (∀ w f st, f ∈ P'.F → P'.Run (P'.q0, []) w (f, st) → st = []) :=
  es_spec P hv hk bottom qi qd qa hb hbe hqi hqd hqa h1 h2 h3

example : exNE.valid = true ∧ (exNE.delta.map (·.1)).Nodup ∧ "$" ∉ exNE.Gamma ∧ "$" ≠ exNE.epsG ∧
    "i" ∉ exNE.Q ∧ "d" ∉ exNE.Q ∧ "f" ∉ exNE.Q ∧ "i" ≠ "d" ∧ "i" ≠ "f" ∧ "d" ≠ "f" :=
  ⟨by decide, by decide, by decide, by decide, by decide, by decide, by decide, by decide, by decide, by decide⟩

/-- `exNE` accepts `a` with the stack `[x]` … -/
example : exNE.Run (exNE.q0, []) ["a"] ("q1", ["x"]) ∧ exNE.Accepts ["a"] := ⟨exNE_run, exNE_accepts⟩

/-- … and so does its empty-stack normal form, which can only do so with the empty stack -/
example : (exNE.toAcceptOnEmptyStack "$" "i" "d" "f").Accepts ["a"] :=
  ((pda_emptyStack_spec exNE (by decide) (by decide) "$" "i" "d" "f" (by decide) (by decide) (by decide) (by decide)
    (by decide) (by decide) (by decide) (by decide)).2.2.2.1 ["a"]).mpr exNE_accepts

/-- the String-level wrapper picks fresh names, so the generic theorem applies whenever a fresh bottom marker exists
    (and differs from the PDA's ε: hypothesis `hε`, see `exDollar` below) -/
theorem pda_emptyStackS_spec (P : SPDA) (hv : P.valid = true) (hk : (P.delta.map (·.1)).Nodup)
    (hε : freshSymbol P.Gamma ≠ .ok P.epsG) (P' : SPDA)
    (h : P.toAcceptOnEmptyStackS = .ok P') :
    P'.valid = true ∧ (∀ w, P'.Accepts w ↔ P.Accepts w) ∧
    (∀ w f st, f ∈ P'.F → P'.Run (P'.q0, []) w (f, st) → st = []) :=
  let ⟨r1, _, r3, r4⟩ := esS_spec P hv hk hε P' h
  ⟨r1, r3, r4⟩

/-- the normal form of `exNE` accepts `a` (executable acceptance test), although `exNE` itself accepts `a`
    only with a non-empty stack -/
example : ∃ P', exNE.toAcceptOnEmptyStackS = .ok P' ∧ P'.accepts 20 [] ["a"] = true ∧ P'.Accepts ["a"] := by
  refine ⟨_, exNE_emptyStackS, by decide, ?_⟩
  exact ((pda_emptyStackS_spec exNE (by decide) (by decide) exNE_marker _ exNE_emptyStackS).2.1 ["a"]).mpr
    exNE_accepts

/-- counterexample to the statement without `hε`: for a PDA whose ε is `$` the chosen marker is ε itself,
    and the result is not a valid PDA -/
example : exDollar.valid = true ∧ (exDollar.delta.map (·.1)).Nodup ∧
    ∃ P', exDollar.toAcceptOnEmptyStackS = .ok P' ∧ P'.valid = false :=
  ⟨by decide, by decide, _, rfl, by decide⟩

/-! ### push/pop form -/

/-- push/pop form: same language, and every transition either pushes or pops exactly one symbol
    (for a PDA whose ε is not the dummy stack symbol `∅`: hypothesis `hd`, see `exEmptySet` below) -/
theorem pda_pushPopS_spec (P : SPDA) (hv : P.valid = true) (hk : (P.delta.map (·.1)).Nodup)
    (hd : P.epsG ≠ "∅") (P' : SPDA)
    (h : P.toPushPopS = .ok P') :
    P'.valid = true ∧ P'.isPushPop = true ∧ ∀ w, P'.Accepts w ↔ P.Accepts w :=
  ppS_spec P hv hk hd P' h

example : exNO.valid = true ∧ (exNO.delta.map (·.1)).Nodup ∧ exNO.epsG ≠ "∅" ∧ exNO.isPushPop = false :=
  ⟨by decide, by decide, by decide, by decide⟩

example : ∃ P', exNO.toPushPopS = .ok P' ∧ P'.isPushPop = true ∧ P'.Accepts ["a", "a"] := by
  refine ⟨_, exNO_pushPopS, by decide, ?_⟩
  refine ((pda_pushPopS_spec exNO (by decide) (by decide) (by decide) _ exNO_pushPopS).2.2 ["a", "a"]).mpr ?_
  exact PDA.accepts_sound' exNO (by decide) 20 [] ["a", "a"] (by decide) (by decide)

/-- counterexample to the statement without `hd`: for a PDA whose ε is `∅` the assertion `∅ ∉ Γ` passes
    (ε is never in Γ) and the result, with `∅ ∈ Γ`, is not a valid PDA -/
example : exEmptySet.valid = true ∧ (exEmptySet.delta.map (·.1)).Nodup ∧
    ∃ P', exEmptySet.toPushPopS = .ok P' ∧ P'.valid = false :=
  ⟨by decide, by decide, _, rfl, by decide⟩

end Gamba

#print axioms Gamba.pda_oneAccepting_spec
#print axioms Gamba.pda_emptyStack_spec
#print axioms Gamba.pda_emptyStackS_spec
#print axioms Gamba.pda_pushPopS_spec
