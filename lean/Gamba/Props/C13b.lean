/-
  Gamba.Props.C13b — the library's own answer key of the NFA→DFA exercise (`nfa_to_dfa` with `print_state_set`
  names, re-read by the checker as an NFA) passes the library's checker `check_nfa_to_dfa_answer`, whatever pop
  orders the construction and the checker use, provided the NFA's state names are words (`\w+`).
-/
import Gamba.Model.Check
import Gamba.Model.Keys
import Gamba.Proofs.C13b
namespace Gamba

set_option linter.unusedVariables false in
/-- the answer key produced by `nfa_to_dfa` is accepted by `check_nfa_to_dfa_answer`
    (`hk`, unique keys of δ, is not needed by the proof) -/
theorem own_nfa2dfa_ok (N : NFA String String) (hv : N.valid = true) (hk : (N.delta.map (·.1)).Nodup)
    (hn : ∀ q, q ∈ N.Q → WordName q) (s s' : Sched) (eps : String) (he : eps ∉ N.Sigma) :
    ∃ D, N.toDfa s = .ok D ∧ Check.nfaToDfaCheck N (Keys.dfaAsNfa D eps) s' = .ok true :=
  C13b.own_ok N hv hn s s' eps he

/-- non-vacuity: an NFA with an ε-move, a nondeterministic move and a partial δ whose names are words; its answer
    key (four subsets, among them `{}`) is computed with one pop order and checked with another -/
example : C03.exN.valid = true ∧ (C03.exN.delta.map (·.1)).Nodup ∧ (∀ q, q ∈ C03.exN.Q → WordName q) ∧
    "eps" ∉ C03.exN.Sigma ∧ C03.exN.toDfa [] = .ok C03.exDnamed ∧
    Check.nfaToDfaCheck C03.exN (Keys.dfaAsNfa C03.exDnamed "eps") [2, 1] = .ok true := by
  refine ⟨C03.exN_valid, by decide, ?_, by decide, C03.exN_toDfa, by rfl⟩
  intro q hq
  simp only [C03.exN, List.mem_cons, List.not_mem_nil, or_false] at hq
  rcases hq with rfl | rfl | rfl <;> exact ⟨by decide, by decide⟩

/-- the text-level key lemma on a concrete set: printing sorts, extracting splits at the commas -/
example : printStateSet ["q2", "q0", "q2"] = "{q0,q2}" ∧ Check.isStateSetLabel "{q0,q2}" = true ∧
    Check.extractSet "{q0,q2}" = ["q0", "q2"] ∧ Check.extractSet "{}" = [] := by
  refine ⟨by simp [printStateSet, sortStrings, dedup, List.mergeSort], by rfl, by rfl, by rfl⟩

/-- the hypothesis `WordName` cannot be dropped: with a state called `a,b` the key names the singleton subset
    `{a,b}`, the checker splits that name at the comma into `a` and `b`, which are not states of the NFA, and the
    library's own answer is rejected -/
example : C13b.cexN.valid = true ∧ (C13b.cexN.delta.map (·.1)).Nodup ∧ "eps" ∉ C13b.cexN.Sigma ∧
    (∃ D, C13b.cexN.toDfa [] = .ok D ∧ Check.nfaToDfaCheck C13b.cexN (Keys.dfaAsNfa D "eps") [] = .ok false) :=
  ⟨by decide, by decide, by decide, C13b.cexN_rejected⟩

#print axioms own_nfa2dfa_ok

end Gamba
