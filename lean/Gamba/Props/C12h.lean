/-
  Gamba.Props.C12h — property C12 for the remaining checkers (`Gamba.Model.CheckAll`):
  `check_<kind>_language_from_words` and `check_<kind>_language_from_file` for kind ∈ dfa, nfa, pda, tm, cfg, regexp (reference
  file of any kind), `check_number_of_nfa_states`, `check_cfg_accepts`, `check_cfg_rejects`.
  * the verdict `OK` is only printed when the texts parse and the enumerated languages agree as sets (with the word list /
    with each other); the enumerations are the semantic languages up to the length bound (`CheckAll.Sem`) — always for DFA,
    NFA, TM (budgeted acceptance), regular expressions; for PDAs always soundly and exactly when no ε-closure was truncated;
    for grammars under the side condition of `cfg_words_exact`;
  * a reported counterexample word is genuine, has the right polarity and minimal length; `OK` ⇒ nothing is reported;
  * the generic model agrees with the kind-specific models of C12c–C12g, so their theorems transfer.
  Vocabulary (`Gamba.Proofs.C12h`): `CheckAll.Sem`, `CheckAll.PdaUntruncated`, `CheckAll.CfgSide`, `CheckAll.Exact`.
-/
import Gamba.Model.CheckAll
import Gamba.Props.C12g
import Gamba.Props.C02pda
import Gamba.Props.C11
import Gamba.Proofs.C12h
namespace Gamba
open Parse CheckAll

/-! ### 1. `langOfText`: the enumerated language is the semantic language up to the bound -/

theorem langOfText_dfa_exact (text : String) (e : Env) (len nQ : Nat) (L : CheckCex.Lang)
    (h : langOfText .dfa text e len = some (nQ, L)) : ∀ w, w ∈ L ↔ Sem .dfa text e len w :=
  C12h.langOfText_dfa_exact h

example : langOfText .dfa "initial p\nfinal q\np q a\np p b\nq q a\nq p b" {} 2 = some (2, [["a"], ["a", "a"], ["b", "a"]]) := by
  decide +kernel

theorem langOfText_nfa_exact (text : String) (e : Env) (len nQ : Nat) (L : CheckCex.Lang)
    (h : langOfText .nfa text e len = some (nQ, L)) : ∀ w, w ∈ L ↔ Sem .nfa text e len w :=
  C12h.langOfText_nfa_exact h

example : langOfText .nfa "initial A\nfinal B\nA B x ε" {} 1 = some (2, [[], ["x"]]) := by rfl

/-- PDA, soundness, for every iteration limit and pop order: every enumerated word is accepted -/
theorem langOfText_pda_sound (text : String) (e : Env) (len nQ : Nat) (L : CheckCex.Lang)
    (h : langOfText .pda text e len = some (nQ, L)) : ∀ w, w ∈ L → Sem .pda text e len w :=
  C12h.langOfText_pda_sound h

/-- PDA, exactness when no ε-closure of the enumeration was truncated -/
theorem langOfText_pda_exact (text : String) (e : Env) (len nQ : Nat) (L : CheckCex.Lang)
    (h : langOfText .pda text e len = some (nQ, L))
    (ht : ∀ P, parsePda text.toList = .ok P → (P.wordsUpTo e.pdaLimit e.sched len).2 = false) :
    ∀ w, w ∈ L ↔ Sem .pda text e len w :=
  C12h.langOfText_pda_exact h ht

-- `p -a,ε→A-> p`, `p -b,A→ε-> q`, accepting `q` (acceptance by final state, any stack): `aⁱb` with i ≥ 1
example : langOfText .pda "initial p\nfinal q\np p a,εA\np q b,Aε" {} 3 = some (2, [["a", "b"], ["a", "a", "b"]]) := by
  decide +kernel
example : ∃ P, parsePda "initial p\nfinal q\np p a,εA\np q b,Aε".toList = .ok P ∧
    (P.wordsUpTo ({} : Env).pdaLimit ({} : Env).sched 3).2 = false := ⟨_, rfl, by decide +kernel⟩

/-- TM: the words over the input alphabet accepted within the step budget -/
theorem langOfText_tm_exact (text : String) (e : Env) (len nQ : Nat) (L : CheckCex.Lang)
    (h : langOfText .tm text e len = some (nQ, L)) : ∀ w, w ∈ L ↔ Sem .tm text e len w :=
  C12h.langOfText_tm_exact h

/-- … the TM predicate of `Sem` in terms of the Spec (`TM.HaltsAt`, C11): the machine first halts after `i ≤ budget` steps,
    in its accepting state -/
theorem sem_tm_iff_halts (text : String) (e : Env) (len : Nat) (w : List String) :
    Sem .tm text e len w ↔ ∃ T, parseTm text.toList = .ok T ∧ T.valid = true ∧ w.length ≤ len ∧
      (∀ a, a ∈ w → a ∈ T.Sigma) ∧ ∃ i, i ≤ e.tmBudget ∧ T.HaltsAt w i T.qAccept := by
  constructor
  · rintro ⟨T, hp, h1, h2, h3⟩
    have vT := parseTm_ok_valid _ T hp
    exact ⟨T, hp, vT, h1, h2, (tm_accepts_true_iff T (C12h.tm_valid_ne vT) w e.tmBudget).mp h3⟩
  · rintro ⟨T, hp, vT, h1, h2, h3⟩
    exact ⟨T, hp, h1, h2, (tm_accepts_true_iff T (C12h.tm_valid_ne vT) w e.tmBudget).mpr h3⟩

-- the machine that runs right over `a`s and accepts on the first blank: `a*`
example : langOfText .tm "initial p\np p aa,R\np accept __,R" {} 2 = some (3, [[], ["a"], ["a", "a"]]) := by
  decide +kernel
-- with a budget of 2 steps `aa` is not accepted in time
example : langOfText .tm "initial p\np p aa,R\np accept __,R" { tmBudget := 2 } 2 = some (3, [[], ["a"]]) := by
  decide +kernel

/-- grammar: unconditionally in terms of the enumeration `cfg_words_up_to_n` of the parsed grammar; in terms of the language
    under the side condition of `cfg_words_exact` (Chomsky normal form, or no terminal is a variable name) -/
theorem langOfText_cfg_exact (text : String) (e : Env) (len nQ : Nat) (L : CheckCex.Lang)
    (h : langOfText .cfg text e len = some (nQ, L)) :
    (∃ G eps, CfgText.parseSimpleCfg text.toList = .ok (G, eps) ∧ G.valid = true ∧ nQ = 0 ∧ L = G.wordsUpTo len) ∧
    ((∀ G eps, CfgText.parseSimpleCfg text.toList = .ok (G, eps) →
        G.isChomsky = true ∨ ∀ a, a ∈ G.Sigma → a ∉ G.V ∧ a ≠ CFG.freshVariable G.V "S") →
      ∀ w, w ∈ L ↔ Sem .cfg text e len w) := by
  refine ⟨?_, fun hs => C12h.langOfText_cfg_exact h hs⟩
  obtain ⟨G, eps, hp, h1, h2⟩ := C12h.langOfText_cfg_some h
  exact ⟨G, eps, hp, (parseSimpleCfg_ok_valid _ G eps hp).1, h1, h2⟩

example : langOfText .cfg "S -> aSb | ε" {} 4 = some (0, [[], ["a", "b"], ["a", "a", "b", "b"]]) := by decide +kernel
example : CfgSide "S -> aSb | ε" := C12h.exAnBn_side
-- hence `aabb` is generated and `abab` is not
example : Sem .cfg "S -> aSb | ε" {} 4 ["a", "a", "b", "b"] ∧ ¬ Sem .cfg "S -> aSb | ε" {} 4 ["a", "b", "a", "b"] := by
  have h := (langOfText_cfg_exact "S -> aSb | ε" {} 4 0 [[], ["a", "b"], ["a", "a", "b", "b"]] (by decide +kernel)).2 C12h.exAnBn_side
  exact ⟨(h _).mp (by decide), fun hc => absurd ((h _).mpr hc) (by decide)⟩

theorem langOfText_regexp_exact (text : String) (e : Env) (len nQ : Nat) (L : CheckCex.Lang)
    (h : langOfText .regexp text e len = some (nQ, L)) : ∀ w, w ∈ L ↔ Sem .regexp text e len w :=
  C12h.langOfText_regexp_exact h

example : langOfText .regexp "(a+b)*a" {} 2 = some (0, [["a"], ["a", "a"], ["b", "a"]]) := by decide +kernel

/-- all kinds in one statement: `Exact k text e len` is `True` for dfa / nfa / tm / regexp, "not truncated" for pda and the
    grammar side condition for cfg -/
theorem langOfText_exact (k : CheckAll.Kind) (text : String) (e : Env) (len nQ : Nat) (L : CheckCex.Lang)
    (h : langOfText k text e len = some (nQ, L)) (hx : Exact k text e len) : ∀ w, w ∈ L ↔ Sem k text e len w :=
  C12h.langOfText_exact h hx

example : Exact .tm "initial p\np p aa,R\np accept __,R" {} 2 ∧ Exact .dfa "x" {} 0 ∧
    Exact .pda "initial p\nfinal q\np p a,εA\np q b,Aε" {} 3 ∧ Exact .cfg "S -> aSb | ε" {} 4 :=
  ⟨True.intro, True.intro, C12h.exPda_untruncated, C12h.exAnBn_side⟩
-- hence the PDA accepts `aab` and does not accept `abb`
example : Sem .pda "initial p\nfinal q\np p a,εA\np q b,Aε" {} 3 ["a", "a", "b"] ∧
    ¬ Sem .pda "initial p\nfinal q\np p a,εA\np q b,Aε" {} 3 ["a", "b", "b"] := by
  have h := langOfText_exact .pda "initial p\nfinal q\np p a,εA\np q b,Aε" {} 3 2 [["a", "b"], ["a", "a", "b"]]
    (by decide +kernel) C12h.exPda_untruncated
  exact ⟨(h _).mp (by decide), fun hc => absurd ((h _).mpr hc) (by decide)⟩

/-! ### 2. `check_<kind>_language_from_words` -/

/-- the verdict `OK` is only printed when the answer parses (and its enumeration does not raise), the state bound holds and
    the enumerated language is exactly the word list -/
theorem languageWords_text_sound (k : CheckAll.Kind) (answer wordList : String) (e : Env) (len maxStates : Nat)
    (h : languageWords k answer wordList e len maxStates = .ok) :
    ∃ nQ L, langOfText k answer e len = some (nQ, L) ∧ Check.maxStatesOk nQ maxStates = true ∧
      ∀ w, w ∈ L ↔ w ∈ CheckText.parseWordList wordList :=
  (C12h.languageWords_ok_iff k answer wordList e len maxStates).mp h

example : languageWords .dfa "initial p\nfinal q\np q a\np p b\nq q a\nq p b" "ba a  aa\na" {} 2 2 = .ok := by
  decide +kernel

/-- … and conversely -/
theorem languageWords_text_ok_iff (k : CheckAll.Kind) (answer wordList : String) (e : Env) (len maxStates : Nat) :
    languageWords k answer wordList e len maxStates = .ok ↔
      ∃ nQ L, langOfText k answer e len = some (nQ, L) ∧ Check.maxStatesOk nQ maxStates = true ∧
        ∀ w, w ∈ L ↔ w ∈ CheckText.parseWordList wordList :=
  C12h.languageWords_ok_iff k answer wordList e len maxStates

/-- `Error: …` exactly when the parser or the enumerator raises -/
theorem languageWords_text_error_iff (k : CheckAll.Kind) (answer wordList : String) (e : Env) (len maxStates : Nat) :
    languageWords k answer wordList e len maxStates = .error ↔ langOfText k answer e len = none :=
  C12h.languageWords_error_iff k answer wordList e len maxStates

/-- semantic form, every kind: under the exactness condition of the kind, the listed words are exactly the words of length
    ≤ `len` of the answer's language -/
theorem languageWords_text_sound_sem (k : CheckAll.Kind) (answer wordList : String) (e : Env) (len maxStates : Nat)
    (h : languageWords k answer wordList e len maxStates = .ok) (hx : Exact k answer e len) :
    ∃ nQ L, langOfText k answer e len = some (nQ, L) ∧ (maxStates = 0 ∨ nQ ≤ maxStates) ∧
      (∀ w, Sem k answer e len w ↔ w ∈ CheckText.parseWordList wordList) ∧
      ∀ w, w ∈ CheckText.parseWordList wordList → w.length ≤ len := by
  obtain ⟨nQ, L, hL, hb, hw⟩ := languageWords_text_sound k answer wordList e len maxStates h
  have key : ∀ w, Sem k answer e len w ↔ w ∈ CheckText.parseWordList wordList := fun w => by
    rw [← hw w, C12h.langOfText_exact hL hx w]
  exact ⟨nQ, L, hL, (C12a.maxStatesOk_iff _ _).mp hb, key, fun w hm => C12h.Sem.length_le ((key w).mpr hm)⟩

-- the PDA `aⁱb` (i ≥ 1), bound 3, at most 2 states: the listed words are exactly its words of length ≤ 3
example : ∀ w, Sem .pda "initial p\nfinal q\np p a,εA\np q b,Aε" {} 3 w ↔ w ∈ CheckText.parseWordList "ab aab" := by
  obtain ⟨_, _, _, _, h, _⟩ := languageWords_text_sound_sem .pda "initial p\nfinal q\np p a,εA\np q b,Aε" "ab aab" {} 3 2
    (by decide +kernel) C12h.exPda_untruncated
  exact h

/-- `check_pda_language_from_words`: every listed word is accepted (and within the bound), for every limit and pop order; if no
    ε-closure was truncated, the listed words are exactly the accepted words of length ≤ `len` -/
theorem pda_language_words_text_sound (answer wordList : String) (e : Env) (len maxStates : Nat)
    (h : languageWords .pda answer wordList e len maxStates = .ok) :
    ∃ P, parsePda answer.toList = .ok P ∧ P.valid = true ∧ (maxStates = 0 ∨ (dedup P.Q).length ≤ maxStates) ∧
      (∀ w, w ∈ CheckText.parseWordList wordList → w.length ≤ len ∧ (∀ a, a ∈ w → a ∈ P.Sigma) ∧ P.Accepts w) ∧
      ((P.wordsUpTo e.pdaLimit e.sched len).2 = false →
        ∀ w, w.length ≤ len → (P.Accepts w ↔ w ∈ CheckText.parseWordList wordList)) := by
  obtain ⟨nQ, L, hL, hb, hw⟩ := languageWords_text_sound .pda answer wordList e len maxStates h
  obtain ⟨P, hp, rfl, rfl⟩ := C12h.langOfText_pda_some hL
  have vP := parsePda_ok_valid _ P hp
  have kP := C12h.parsePda_keys_nodup hp
  refine ⟨P, hp, vP, (C12a.maxStatesOk_iff _ _).mp hb, fun w hm => ?_, fun ht w hl => ?_⟩
  · exact pda_words_sound P kP vP e.pdaLimit e.sched len w ((hw w).mpr hm)
  · rw [← hw w, pda_words_exact P kP vP e.pdaLimit e.sched len ht w]
    exact ⟨fun ha => ⟨hl, C12h.PDA.Accepts.over vP ha, ha⟩, fun ha => ha.2.2⟩

example : languageWords .pda "initial p\nfinal q\np p a,εA\np q b,Aε" "ab aab" {} 3 2 = .ok := by decide +kernel

/-- `check_tm_language_from_words`: the listed words are exactly the words over the input alphabet, of length ≤ `len`, that
    the machine accepts within the step budget -/
theorem tm_language_words_text_sound (answer wordList : String) (e : Env) (len maxStates : Nat)
    (h : languageWords .tm answer wordList e len maxStates = .ok) :
    ∃ T, parseTm answer.toList = .ok T ∧ T.valid = true ∧ (maxStates = 0 ∨ (dedup T.Q).length ≤ maxStates) ∧
      (∀ w, w.length ≤ len → (((∀ a, a ∈ w → a ∈ T.Sigma) ∧ T.accepts w e.tmBudget = some true) ↔
        w ∈ CheckText.parseWordList wordList)) ∧
      ∀ w, w ∈ CheckText.parseWordList wordList → w.length ≤ len := by
  obtain ⟨nQ, L, hL, hb, hw⟩ := languageWords_text_sound .tm answer wordList e len maxStates h
  obtain ⟨T, hp, rfl, rfl⟩ := C12h.langOfText_tm_some hL
  refine ⟨T, hp, parseTm_ok_valid _ T hp, (C12a.maxStatesOk_iff _ _).mp hb, ?_⟩
  refine (C12f.bounded_eq_iff (fun w : List String => w.length ≤ len) _ _).mp fun w => ?_
  rw [← hw w, tm_words_exact T len e.tmBudget w]

example : languageWords .tm "initial p\np p aa,R\np accept __,R" "ε a aa" {} 2 3 = .ok := by decide +kernel

/-- `check_regexp_language_from_words` (no state bound) -/
theorem regexp_language_words_text_sound (answer wordList : String) (e : Env) (len maxStates : Nat)
    (h : languageWords .regexp answer wordList e len maxStates = .ok) :
    ∃ r, RegexpText.parseSimple answer = some r ∧
      (∀ w, w.length ≤ len → (r.Lang w ↔ w ∈ CheckText.parseWordList wordList)) ∧
      ∀ w, w ∈ CheckText.parseWordList wordList → w.length ≤ len := by
  obtain ⟨nQ, L, hL, _, hw⟩ := languageWords_text_sound .regexp answer wordList e len maxStates h
  obtain ⟨r, hp, rfl, rfl⟩ := C12h.langOfText_regexp_some hL
  refine ⟨r, hp, ?_⟩
  refine (C12f.bounded_eq_iff (fun w : List String => w.length ≤ len) _ _).mp fun w => ?_
  rw [← hw w, regexp_words_exact r len w]

example : languageWords .regexp "(a+b)*a" "a aa ba" {} 2 0 = .ok := by decide +kernel

/-! ### 3. `check_<kind>_language_from_file` (reference file of any kind) -/

/-- the verdict `OK` is only printed when both texts parse and the two enumerated languages are equal as sets -/
theorem languageFile_text_sound (k rk : CheckAll.Kind) (answer refText : String) (e : Env) (len : Nat)
    (h : languageFile k rk answer refText e len = .ok) :
    ∃ n1 L1 n2 L2, langOfText k answer e len = some (n1, L1) ∧ langOfText rk refText e len = some (n2, L2) ∧
      ∀ w, w ∈ L1 ↔ w ∈ L2 :=
  (C12h.languageFile_ok_iff k rk answer refText e len).mp h

theorem languageFile_text_ok_iff (k rk : CheckAll.Kind) (answer refText : String) (e : Env) (len : Nat) :
    languageFile k rk answer refText e len = .ok ↔
      ∃ n1 L1 n2 L2, langOfText k answer e len = some (n1, L1) ∧ langOfText rk refText e len = some (n2, L2) ∧
        ∀ w, w ∈ L1 ↔ w ∈ L2 :=
  C12h.languageFile_ok_iff k rk answer refText e len

theorem languageFile_text_error_iff (k rk : CheckAll.Kind) (answer refText : String) (e : Env) (len : Nat) :
    languageFile k rk answer refText e len = .error ↔
      langOfText k answer e len = none ∨ langOfText rk refText e len = none :=
  C12h.languageFile_error_iff k rk answer refText e len

/-- semantic form, any two kinds, under the exactness condition of each side -/
theorem languageFile_text_sound_exact (k rk : CheckAll.Kind) (answer refText : String) (e : Env) (len : Nat)
    (h : languageFile k rk answer refText e len = .ok) (hx : Exact k answer e len) (hr : Exact rk refText e len) :
    ∀ w, Sem k answer e len w ↔ Sem rk refText e len w := by
  obtain ⟨n1, L1, n2, L2, h1, h2, hw⟩ := languageFile_text_sound k rk answer refText e len h
  intro w
  rw [← C12h.langOfText_exact h1 hx w, ← C12h.langOfText_exact h2 hr w]
  exact hw w

/-- semantic form for dfa / nfa / regexp / tm on both sides: answer and reference have the same words of length ≤ `len`.
    How a pda / cfg side weakens it: a cfg side needs `CfgSide` of its text (`languageFile_text_sound_exact`); a pda side
    needs `PdaUntruncated`, and WITHOUT it only one inclusion survives (`languageFile_text_sound_half`): the enumeration of a
    truncated PDA may miss accepted words, so an answer PDA is only known to accept every reference word, and an answer
    checked against a reference PDA is only known to stay inside the reference language. -/
theorem languageFile_text_sound_sem (k rk : CheckAll.Kind) (answer refText : String) (e : Env) (len : Nat)
    (h : languageFile k rk answer refText e len = .ok)
    (hk : k ≠ .pda ∧ k ≠ .cfg ∧ rk ≠ .pda ∧ rk ≠ .cfg) :
    ∀ w, Sem k answer e len w ↔ Sem rk refText e len w :=
  languageFile_text_sound_exact k rk answer refText e len h (C12h.exact_of_ne hk.1 hk.2.1 _ _ _)
    (C12h.exact_of_ne hk.2.2.1 hk.2.2.2 _ _ _)

example : languageFile .regexp .dfa "(a+b)*a" "initial p\nfinal q\np q a\np p b\nq q a\nq p b" {} 2 = .ok := by
  decide +kernel
example : languageFile .tm .regexp "initial p\np p aa,R\np accept __,R" "a*" {} 2 = .ok := by decide +kernel

/-- one inclusion needs exactness of ONE side only (and no grammar on the other side) -/
theorem languageFile_text_sound_half (k rk : CheckAll.Kind) (answer refText : String) (e : Env) (len : Nat)
    (h : languageFile k rk answer refText e len = .ok) :
    (Exact rk refText e len → k ≠ .cfg → ∀ w, Sem rk refText e len w → Sem k answer e len w) ∧
    (Exact k answer e len → rk ≠ .cfg → ∀ w, Sem k answer e len w → Sem rk refText e len w) := by
  obtain ⟨n1, L1, n2, L2, h1, h2, hw⟩ := languageFile_text_sound k rk answer refText e len h
  refine ⟨fun hr hk w hs => ?_, fun hx hk w hs => ?_⟩
  · exact C12h.langOfText_sound hk h1 w ((hw w).mpr ((C12h.langOfText_exact h2 hr w).mpr hs))
  · exact C12h.langOfText_sound hk h2 w ((hw w).mp ((C12h.langOfText_exact h1 hx w).mpr hs))

-- a PDA answer against a regular expression: `aⁱb` (i ≥ 1) up to length 3
example : languageFile .pda .regexp "initial p\nfinal q\np p a,εA\np q b,Aε" "ab+aab" {} 3 = .ok := by decide +kernel

/-! ### 4. agreement with the kind-specific models (their theorems transfer) -/

theorem languageWords_dfa_eq (a ws : String) (e : Env) (len m : Nat) :
    languageWords .dfa a ws e len m = CheckText.dfaLanguageWords a ws len m :=
  C12h.languageWords_dfa_eq a ws e len m

theorem languageWords_nfa_eq (a ws : String) (e : Env) (len m : Nat) :
    languageWords .nfa a ws e len m = CheckText.nfaLanguageWords a ws e.sched len m :=
  C12h.languageWords_nfa_eq a ws e len m

theorem languageWords_cfg_eq (a ws : String) (e : Env) (len : Nat) :
    languageWords .cfg a ws e len 0 = CheckText.cfgLanguageWords a ws len :=
  C12h.languageWords_cfg_eq_any a ws e len 0

/-- … in fact for every `max_states`: the grammar checker has no state bound -/
theorem languageWords_cfg_eq_any (a ws : String) (e : Env) (len m : Nat) :
    languageWords .cfg a ws e len m = CheckText.cfgLanguageWords a ws len :=
  C12h.languageWords_cfg_eq_any a ws e len m

theorem languageFile_dfa_dfa_eq (a r : String) (e : Env) (len : Nat) :
    languageFile .dfa .dfa a r e len = CheckText.dfaLanguageFile a r len :=
  C12h.languageFile_dfa_dfa_eq a r e len

theorem languageFile_nfa_nfa_eq (a r : String) (e : Env) (len : Nat) :
    languageFile .nfa .nfa a r e len = CheckText.nfaLanguageFile a r e.sched len :=
  C12h.languageFile_nfa_nfa_eq a r e len

theorem languageWordsLangs_dfa_eq (a ws : String) (e : Env) (len : Nat) :
    languageWordsLangs .dfa a ws e len = CheckCex.dfaLanguageWordsLangs a ws len :=
  C12h.languageWordsLangs_dfa_eq a ws e len

theorem languageWordsLangs_nfa_eq (a ws : String) (e : Env) (len : Nat) :
    languageWordsLangs .nfa a ws e len = CheckCex.nfaLanguageWordsLangs a ws e.sched len :=
  C12h.languageWordsLangs_nfa_eq a ws e len

theorem languageWordsLangs_cfg_eq (a ws : String) (e : Env) (len : Nat) :
    languageWordsLangs .cfg a ws e len = CheckCex.cfgLanguageWordsLangs a ws len :=
  C12h.languageWordsLangs_cfg_eq a ws e len

theorem languageFileLangs_dfa_dfa_eq (a r : String) (e : Env) (len : Nat) :
    languageFileLangs .dfa .dfa a r e len = CheckCex.dfaLanguageFileLangs a r len :=
  C12h.languageFileLangs_dfa_dfa_eq a r e len

theorem languageFileLangs_nfa_nfa_eq (a r : String) (e : Env) (len : Nat) :
    languageFileLangs .nfa .nfa a r e len = CheckCex.nfaLanguageFileLangs a r e.sched len :=
  C12h.languageFileLangs_nfa_nfa_eq a r e len

/-- a transferred theorem, as an illustration: `dfaLanguageWords_text_lang` (C12f) for the generic checker -/
example (a ws : String) (e : Env) (len m : Nat) (h : languageWords .dfa a ws e len m = .ok) :
    ∃ A, Parse.parseDfa a.toList = .ok A ∧ (m = 0 ∨ A.Q.length ≤ m) ∧
      (∀ w, w.length ≤ len → (A.Accepts w ↔ w ∈ CheckText.parseWordList ws)) ∧
      ∀ w, w ∈ CheckText.parseWordList ws → w.length ≤ len :=
  dfaLanguageWords_text_lang a ws len m (languageWords_dfa_eq a ws e len m ▸ h)

/-! ### 5. the reported word -/

/-- `check_<kind>_language_from_words`, list level, every kind: the reported word is in exactly one of the two lists
    (enumeration of the answer: "should not be accepted"; word list only: "should be accepted"), of minimal length among
    such words, and "should be accepted" is only reported when every enumerated word is listed -/
theorem languageWords_cex_genuine (k : CheckAll.Kind) (answer wordList : String) (e : Env) (len : Nat) (w : List String)
    (b : Bool) (h : CheckCex.report (languageWordsLangs k answer wordList e len) = some (w, b)) :
    ∃ nQ L, langOfText k answer e len = some (nQ, L) ∧
      (b = true → w ∈ L ∧ w ∉ CheckText.parseWordList wordList ∧
        ∀ v, v ∈ L → v ∉ CheckText.parseWordList wordList → w.length ≤ v.length) ∧
      (b = false → w ∈ CheckText.parseWordList wordList ∧ w ∉ L ∧
        (∀ v, v ∈ CheckText.parseWordList wordList → v ∉ L → w.length ≤ v.length) ∧
        ∀ v, v ∈ L → v ∈ CheckText.parseWordList wordList) := by
  obtain ⟨A1, A2, hP, hc⟩ := C12g.report_some h
  obtain ⟨nQ, hL, rfl⟩ := C12h.languageWordsLangs_some hP
  exact ⟨nQ, A1, hL, C12h.genuine_lists hc⟩

/-- … semantically, under the exactness condition of the kind (none for dfa / nfa / tm / regexp) -/
theorem languageWords_cex_genuine_sem (k : CheckAll.Kind) (answer wordList : String) (e : Env) (len : Nat)
    (w : List String) (b : Bool) (h : CheckCex.report (languageWordsLangs k answer wordList e len) = some (w, b))
    (hx : Exact k answer e len) :
    (b = true → Sem k answer e len w ∧ w ∉ CheckText.parseWordList wordList ∧
      ∀ v, Sem k answer e len v → v ∉ CheckText.parseWordList wordList → w.length ≤ v.length) ∧
    (b = false → w ∈ CheckText.parseWordList wordList ∧ ¬ Sem k answer e len w ∧
      (∀ v, v ∈ CheckText.parseWordList wordList → ¬ Sem k answer e len v → w.length ≤ v.length) ∧
      ∀ v, Sem k answer e len v → v ∈ CheckText.parseWordList wordList) := by
  obtain ⟨A1, A2, hP, hc⟩ := C12g.report_some h
  obtain ⟨nQ, hL, rfl⟩ := C12h.languageWordsLangs_some hP
  exact C12h.genuine_sem (P2 := fun v => v ∈ CheckText.parseWordList wordList) (C12h.langOfText_exact hL hx)
    (fun _ => Iff.rfl) hc

-- PDA `aⁱb` (i ≥ 1), bound 2: the listed `a` is not accepted; TM `a*`, bound 2: the accepted `aa` is not listed
example : CheckCex.report (languageWordsLangs .pda "initial p\nfinal q\np p a,εA\np q b,Aε" "ab a" {} 2)
    = some (["a"], false) := by decide +kernel
example : languageWords .pda "initial p\nfinal q\np p a,εA\np q b,Aε" "ab a" {} 2 0 = .feedback := by decide +kernel
example : CheckCex.report (languageWordsLangs .tm "initial p\np p aa,R\np accept __,R" "ε a" {} 2)
    = some (["a", "a"], true) := by decide +kernel
example : languageWords .tm "initial p\np p aa,R\np accept __,R" "ε a" {} 2 0 = .feedback := by decide +kernel

/-- `check_<kind>_language_from_file`, list level, any two kinds -/
theorem languageFile_cex_genuine (k rk : CheckAll.Kind) (answer refText : String) (e : Env) (len : Nat) (w : List String)
    (b : Bool) (h : CheckCex.report (languageFileLangs k rk answer refText e len) = some (w, b)) :
    ∃ n1 L1 n2 L2, langOfText k answer e len = some (n1, L1) ∧ langOfText rk refText e len = some (n2, L2) ∧
      (b = true → w ∈ L1 ∧ w ∉ L2 ∧ ∀ v, v ∈ L1 → v ∉ L2 → w.length ≤ v.length) ∧
      (b = false → w ∈ L2 ∧ w ∉ L1 ∧ (∀ v, v ∈ L2 → v ∉ L1 → w.length ≤ v.length) ∧ ∀ v, v ∈ L1 → v ∈ L2) := by
  obtain ⟨A1, A2, hP, hc⟩ := C12g.report_some h
  obtain ⟨n1, n2, h1, h2⟩ := C12h.languageFileLangs_some hP
  exact ⟨n1, A1, n2, A2, h1, h2, C12h.genuine_lists hc⟩

/-- … semantically: the reported word is at most `len` long, in exactly one of the two languages, with the right polarity
    and of minimal length -/
theorem languageFile_cex_genuine_sem (k rk : CheckAll.Kind) (answer refText : String) (e : Env) (len : Nat)
    (w : List String) (b : Bool) (h : CheckCex.report (languageFileLangs k rk answer refText e len) = some (w, b))
    (hx : Exact k answer e len) (hr : Exact rk refText e len) :
    w.length ≤ len ∧
    (b = true → Sem k answer e len w ∧ ¬ Sem rk refText e len w ∧
      ∀ v, Sem k answer e len v → ¬ Sem rk refText e len v → w.length ≤ v.length) ∧
    (b = false → Sem rk refText e len w ∧ ¬ Sem k answer e len w ∧
      (∀ v, Sem rk refText e len v → ¬ Sem k answer e len v → w.length ≤ v.length) ∧
      ∀ v, Sem k answer e len v → Sem rk refText e len v) := by
  obtain ⟨A1, A2, hP, hc⟩ := C12g.report_some h
  obtain ⟨n1, n2, h1, h2⟩ := C12h.languageFileLangs_some hP
  have hg := C12h.genuine_sem (C12h.langOfText_exact h1 hx) (C12h.langOfText_exact h2 hr) hc
  refine ⟨?_, hg⟩
  cases b with
  | true => exact C12h.Sem.length_le (hg.1 rfl).1
  | false => exact C12h.Sem.length_le (hg.2 rfl).1

-- `(a+b)*` against the DFA "words ending in `a`": ε should not be accepted; `a` alone misses `aa`
example : CheckCex.report (languageFileLangs .regexp .dfa "(a+b)*" "initial p\nfinal q\np q a\np p b\nq q a\nq p b" {} 2)
    = some ([], true) := by decide +kernel
example : CheckCex.report (languageFileLangs .regexp .dfa "a" "initial p\nfinal q\np q a\np p b\nq q a\nq p b" {} 2)
    = some (["a", "a"], false) := by decide +kernel

/-- verdict `OK` ⇒ no word is reported -/
theorem languageWords_ok_no_report (k : CheckAll.Kind) (answer wordList : String) (e : Env) (len maxStates : Nat)
    (h : languageWords k answer wordList e len maxStates = .ok) :
    CheckCex.report (languageWordsLangs k answer wordList e len) = none := by
  refine C12g.report_none_of fun A1 A2 hP => ?_
  obtain ⟨nQ, L, hL, _, hw⟩ := languageWords_text_sound k answer wordList e len maxStates h
  obtain ⟨nQ', hL', rfl⟩ := C12h.languageWordsLangs_some hP
  rw [hL] at hL'
  cases hL'
  exact hw

example : CheckCex.report (languageWordsLangs .tm "initial p\np p aa,R\np accept __,R" "ε a aa" {} 2) = none :=
  languageWords_ok_no_report .tm _ _ {} 2 3 (by decide +kernel)

theorem languageFile_ok_no_report (k rk : CheckAll.Kind) (answer refText : String) (e : Env) (len : Nat)
    (h : languageFile k rk answer refText e len = .ok) :
    CheckCex.report (languageFileLangs k rk answer refText e len) = none := by
  refine C12g.report_none_of fun A1 A2 hP => ?_
  obtain ⟨n1, L1, n2, L2, h1, h2, hw⟩ := languageFile_text_sound k rk answer refText e len h
  obtain ⟨n1', n2', h1', h2'⟩ := C12h.languageFileLangs_some hP
  rw [h1] at h1'
  rw [h2] at h2'
  cases h1'
  cases h2'
  exact hw

example : CheckCex.report (languageFileLangs .regexp .dfa "(a+b)*a" "initial p\nfinal q\np q a\np p b\nq q a\nq p b" {} 2)
    = none := languageFile_ok_no_report .regexp .dfa _ _ {} 2 (by decide +kernel)

/-! ### 6. `check_number_of_nfa_states` -/

theorem numberOfNfaStates_ok_iff (nfa : String) (count : Nat) :
    numberOfNfaStates nfa count = .ok ↔ ∃ N, parseNfa nfa.toList = .ok N ∧ (dedup N.Q).length = count :=
  C12h.numberOfNfaStates_ok_iff nfa count

/-- nothing is printed (no `OK` line) exactly for a parsable text with another number of states -/
theorem numberOfNfaStates_feedback_iff (nfa : String) (count : Nat) :
    numberOfNfaStates nfa count = .feedback ↔ ∃ N, parseNfa nfa.toList = .ok N ∧ (dedup N.Q).length ≠ count :=
  C12h.numberOfNfaStates_feedback_iff nfa count

theorem numberOfNfaStates_error_iff (nfa : String) (count : Nat) :
    numberOfNfaStates nfa count = .error ↔ ∃ e, parseNfa nfa.toList = .error e :=
  C12h.numberOfNfaStates_error_iff nfa count

example : numberOfNfaStates "initial A\nfinal B\nA B x ε" 2 = .ok ∧
    numberOfNfaStates "initial A\nfinal B\nA B x ε" 3 = .feedback ∧
    numberOfNfaStates "initial A B\nfinal B\nA B x ε" 2 = .error := ⟨by rfl, by rfl, by rfl⟩

/-! ### 7. `check_cfg_accepts`, `check_cfg_rejects` -/

/-- `check_cfg_accepts`: OK iff the grammar parses and the membership test answers `True` on every listed word -/
theorem cfgAccepts_ok_iff (cfg ws : String) :
    (cfgAccepts cfg ws).1 = .ok ↔ ∃ G eps, CfgText.parseSimpleCfg cfg.toList = .ok (G, eps) ∧
      ∀ w, w ∈ CheckText.parseWordList ws → G.accepts w = .ok true := by
  rw [C12h.cfgAccepts_eq_check]
  exact C12h.cfgCheck_ok_iff false cfg ws

/-- every word of the printed failure set is listed and rejected by the membership test -/
theorem cfgAccepts_failures_genuine (cfg ws : String) (w : List String) (h : w ∈ (cfgAccepts cfg ws).2) :
    ∃ G eps, CfgText.parseSimpleCfg cfg.toList = .ok (G, eps) ∧ w ∈ CheckText.parseWordList ws ∧
      G.accepts w = .ok false := by
  rw [C12h.cfgAccepts_eq_check] at h
  exact ((C12h.cfgCheck_failures_iff false cfg ws w).mp h).2

/-- … and the failure set is complete: unless the checker raises, every listed word that is rejected is printed -/
theorem cfgAccepts_failures_iff (cfg ws : String) (w : List String) :
    w ∈ (cfgAccepts cfg ws).2 ↔ (cfgAccepts cfg ws).1 ≠ .error ∧
      ∃ G eps, CfgText.parseSimpleCfg cfg.toList = .ok (G, eps) ∧ w ∈ CheckText.parseWordList ws ∧
        G.accepts w = .ok false := by
  rw [C12h.cfgAccepts_eq_check]
  exact C12h.cfgCheck_failures_iff false cfg ws w

example : cfgAccepts "S -> aSb | ε" "ab aabb ε" = (.ok, []) := by decide +kernel
example : cfgAccepts "S -> aSb | ε" "ab aab ba" = (.feedback, [["a", "a", "b"], ["b", "a"]]) := by decide +kernel
example : cfgAccepts "S -> " "ab" = (.error, []) := by decide +kernel

/-- `check_cfg_rejects`: OK iff the grammar parses and the membership test answers `False` on every listed word -/
theorem cfgRejects_ok_iff (cfg ws : String) :
    (cfgRejects cfg ws).1 = .ok ↔ ∃ G eps, CfgText.parseSimpleCfg cfg.toList = .ok (G, eps) ∧
      ∀ w, w ∈ CheckText.parseWordList ws → G.accepts w = .ok false := by
  rw [C12h.cfgRejects_eq_check]
  exact C12h.cfgCheck_ok_iff true cfg ws

theorem cfgRejects_failures_genuine (cfg ws : String) (w : List String) (h : w ∈ (cfgRejects cfg ws).2) :
    ∃ G eps, CfgText.parseSimpleCfg cfg.toList = .ok (G, eps) ∧ w ∈ CheckText.parseWordList ws ∧
      G.accepts w = .ok true := by
  rw [C12h.cfgRejects_eq_check] at h
  exact ((C12h.cfgCheck_failures_iff true cfg ws w).mp h).2

theorem cfgRejects_failures_iff (cfg ws : String) (w : List String) :
    w ∈ (cfgRejects cfg ws).2 ↔ (cfgRejects cfg ws).1 ≠ .error ∧
      ∃ G eps, CfgText.parseSimpleCfg cfg.toList = .ok (G, eps) ∧ w ∈ CheckText.parseWordList ws ∧
        G.accepts w = .ok true := by
  rw [C12h.cfgRejects_eq_check]
  exact C12h.cfgCheck_failures_iff true cfg ws w

example : cfgRejects "S -> aSb | ε" "a ba" = (.ok, []) := by decide +kernel
example : cfgRejects "S -> aSb | ε" "a ab" = (.feedback, [["a", "b"]]) := by decide +kernel

/-- the verdict and the failure set are consistent: `OK` iff the checker does not raise and nothing is printed -/
theorem cfgAccepts_ok_iff_no_failures (cfg ws : String) :
    (cfgAccepts cfg ws).1 = .ok ↔ (cfgAccepts cfg ws).1 ≠ .error ∧ (cfgAccepts cfg ws).2 = [] := by
  rw [C12h.cfgAccepts_eq_check]
  exact C12h.cfgCheck_ok_iff_nil false cfg ws

theorem cfgRejects_ok_iff_no_failures (cfg ws : String) :
    (cfgRejects cfg ws).1 = .ok ↔ (cfgRejects cfg ws).1 ≠ .error ∧ (cfgRejects cfg ws).2 = [] := by
  rw [C12h.cfgRejects_eq_check]
  exact C12h.cfgCheck_ok_iff_nil true cfg ws

/-- `Error: …` (for `check_cfg_rejects`: the call raises) exactly when the grammar does not parse or the membership test
    raises on a listed word -/
theorem cfgAccepts_error_iff (cfg ws : String) :
    (cfgAccepts cfg ws).1 = .error ↔ (∃ e, CfgText.parseSimpleCfg cfg.toList = .error e) ∨
      ∃ G eps, CfgText.parseSimpleCfg cfg.toList = .ok (G, eps) ∧
        ∃ w, w ∈ CheckText.parseWordList ws ∧ ∃ e, G.accepts w = .error e := by
  rw [C12h.cfgAccepts_eq_check]
  exact C12h.cfgCheck_error_iff false cfg ws

theorem cfgRejects_error_iff (cfg ws : String) :
    (cfgRejects cfg ws).1 = .error ↔ (∃ e, CfgText.parseSimpleCfg cfg.toList = .error e) ∨
      ∃ G eps, CfgText.parseSimpleCfg cfg.toList = .ok (G, eps) ∧
        ∃ w, w ∈ CheckText.parseWordList ws ∧ ∃ e, G.accepts w = .error e := by
  rw [C12h.cfgRejects_eq_check]
  exact C12h.cfgCheck_error_iff true cfg ws

/-- in terms of the language, under the side condition of `cfgAcceptsRejects_text_sound` (the membership test is then
    total and decides `G.Lang`): OK ⇒ every listed word is generated / no listed word is generated -/
theorem cfgAccepts_ok_lang (cfg ws : String) (h : (cfgAccepts cfg ws).1 = .ok) (hs : CfgSide cfg) :
    ∃ G eps, CfgText.parseSimpleCfg cfg.toList = .ok (G, eps) ∧ ∀ w, w ∈ CheckText.parseWordList ws → G.Lang w := by
  obtain ⟨G, eps, hp, hall⟩ := (cfgAccepts_ok_iff cfg ws).mp h
  obtain ⟨v, sv, al⟩ := parseSimpleCfg_ok_valid _ G eps hp
  exact ⟨G, eps, hp, fun w hw => ((C12e.cfg_accepts_ok_iff v sv al (hs G eps hp) w true).mp (hall w hw)).mp rfl⟩

theorem cfgRejects_ok_lang (cfg ws : String) (h : (cfgRejects cfg ws).1 = .ok) (hs : CfgSide cfg) :
    ∃ G eps, CfgText.parseSimpleCfg cfg.toList = .ok (G, eps) ∧ ∀ w, w ∈ CheckText.parseWordList ws → ¬ G.Lang w := by
  obtain ⟨G, eps, hp, hall⟩ := (cfgRejects_ok_iff cfg ws).mp h
  obtain ⟨v, sv, al⟩ := parseSimpleCfg_ok_valid _ G eps hp
  exact ⟨G, eps, hp, fun w hw hl =>
    Bool.noConfusion (((C12e.cfg_accepts_ok_iff v sv al (hs G eps hp) w false).mp (hall w hw)).mpr hl)⟩

-- `S → aSb | ε`: the listed words are generated / not generated
example : ∃ G eps, CfgText.parseSimpleCfg "S -> aSb | ε".toList = .ok (G, eps) ∧ G.Lang ["a", "a", "b", "b"] ∧
    ¬ G.Lang ["b", "a"] := by
  obtain ⟨G, eps, hp, h1⟩ := cfgAccepts_ok_lang "S -> aSb | ε" "ab aabb ε" (by decide +kernel) C12h.exAnBn_side
  obtain ⟨G', eps', hp', h2⟩ := cfgRejects_ok_lang "S -> aSb | ε" "a ba" (by decide +kernel) C12h.exAnBn_side
  rw [hp] at hp'
  cases hp'
  exact ⟨G, eps, hp, h1 _ (by decide), h2 _ (by decide)⟩

#print axioms langOfText_dfa_exact
#print axioms langOfText_nfa_exact
#print axioms langOfText_pda_sound
#print axioms langOfText_pda_exact
#print axioms langOfText_tm_exact
#print axioms sem_tm_iff_halts
#print axioms langOfText_cfg_exact
#print axioms langOfText_regexp_exact
#print axioms langOfText_exact
#print axioms languageWords_text_sound
#print axioms languageWords_text_ok_iff
#print axioms languageWords_text_error_iff
#print axioms languageWords_text_sound_sem
#print axioms pda_language_words_text_sound
#print axioms tm_language_words_text_sound
#print axioms regexp_language_words_text_sound
#print axioms languageFile_text_sound
#print axioms languageFile_text_ok_iff
#print axioms languageFile_text_error_iff
#print axioms languageFile_text_sound_exact
#print axioms languageFile_text_sound_sem
#print axioms languageFile_text_sound_half
#print axioms languageWords_dfa_eq
#print axioms languageWords_nfa_eq
#print axioms languageWords_cfg_eq
#print axioms languageWords_cfg_eq_any
#print axioms languageFile_dfa_dfa_eq
#print axioms languageFile_nfa_nfa_eq
#print axioms languageWordsLangs_dfa_eq
#print axioms languageWordsLangs_nfa_eq
#print axioms languageWordsLangs_cfg_eq
#print axioms languageFileLangs_dfa_dfa_eq
#print axioms languageFileLangs_nfa_nfa_eq
#print axioms languageWords_cex_genuine
#print axioms languageWords_cex_genuine_sem
#print axioms languageFile_cex_genuine
#print axioms languageFile_cex_genuine_sem
#print axioms languageWords_ok_no_report
#print axioms languageFile_ok_no_report
#print axioms numberOfNfaStates_ok_iff
#print axioms numberOfNfaStates_feedback_iff
#print axioms numberOfNfaStates_error_iff
#print axioms cfgAccepts_ok_iff
#print axioms cfgAccepts_failures_genuine
#print axioms cfgAccepts_failures_iff
#print axioms cfgRejects_ok_iff
#print axioms cfgRejects_failures_genuine
#print axioms cfgRejects_failures_iff
#print axioms cfgAccepts_ok_iff_no_failures
#print axioms cfgRejects_ok_iff_no_failures
#print axioms cfgAccepts_error_iff
#print axioms cfgRejects_error_iff
#print axioms cfgAccepts_ok_lang
#print axioms cfgRejects_ok_lang

end Gamba
