/-
  Gamba.Props.C16d — the regular-expression clause of the print/parse round trip (C16):
  the fully parenthesised syntax (`print_regexp` / regexp.g4) re-parses to the same tree; the minimal-parenthesis
  syntax (`print_regexp_simple` / regexp_simple.g4) re-parses to an expression with the same language and the
  same printed form (the left-associated form of the tree).
-/
import Gamba.Proofs.C16d
namespace Gamba

/-- the fully parenthesised syntax re-parses to the SAME tree -/
theorem parseFull_printFull (r : Regexp String) (h : r.SimpleSyms) :
    RegexpText.parseFull (RegexpText.printFull r) = some r :=
  RegexpText.parseFull_printFull' r h

/-- `a(a+b)*c` as the right-nested tree `a · ((a+b)* · c)`: its symbols are single letters -/
example : (Regexp.cat (.sym "a") (.cat (.star (.sum (.sym "a") (.sym "b"))) (.sym "c"))).SimpleSyms :=
  ⟨⟨'a', rfl, by decide⟩, ⟨⟨'a', rfl, by decide⟩, ⟨'b', rfl, by decide⟩⟩, ⟨'c', rfl, by decide⟩⟩

example : RegexpText.parseFull (RegexpText.printFull
      (.cat (.sym "a") (.cat (.star (.sum (.sym "a") (.sym "b"))) (.sym "c")))) =
    some (.cat (.sym "a") (.cat (.star (.sum (.sym "a") (.sym "b"))) (.sym "c"))) :=
  parseFull_printFull _ ⟨⟨'a', rfl, by decide⟩, ⟨⟨'a', rfl, by decide⟩, ⟨'b', rfl, by decide⟩⟩, ⟨'c', rfl, by decide⟩⟩

/-- the same, by evaluation of the model (independent of the theorem) -/
example : RegexpText.parseFull (RegexpText.printFull
      (.cat (.sym "a") (.cat (.star (.sum (.sym "a") (.sym "b"))) (.sym "c")))) =
    some (.cat (.sym "a") (.cat (.star (.sum (.sym "a") (.sym "b"))) (.sym "c"))) := by decide +kernel

/-- the minimal-parenthesis syntax re-parses to an expression with the same language and the same printed form -/
theorem parseSimple_printSimple (r : Regexp String) (h : r.SimpleSyms) :
    ∃ r', RegexpText.parseSimple (RegexpText.printSimple r) = some r' ∧
      (∀ w, r'.Lang w ↔ r.Lang w) ∧ RegexpText.printSimple r' = RegexpText.printSimple r :=
  ⟨RegexpText.leftAssoc r, RegexpText.parseSimple_printSimple_eq r h, RegexpText.lang_leftAssoc r,
    RegexpText.printSimple_leftAssoc r⟩

/-- `a · ((a+b)* · c)` prints as `a(a+b)*c` and re-parses as the LEFT-nested tree `(a · (a+b)*) · c` -/
example : RegexpText.parseSimple (RegexpText.printSimple
      (.cat (.sym "a") (.cat (.star (.sum (.sym "a") (.sym "b"))) (.sym "c")))) =
    some (.cat (.cat (.sym "a") (.star (.sum (.sym "a") (.sym "b")))) (.sym "c")) :=
  RegexpText.parseSimple_printSimple_eq _
    ⟨⟨'a', rfl, by decide⟩, ⟨⟨'a', rfl, by decide⟩, ⟨'b', rfl, by decide⟩⟩, ⟨'c', rfl, by decide⟩⟩

/-- the same, by evaluation of the model (independent of the theorem); `a+(b+c)` re-parses as `(a+b)+c` -/
example : RegexpText.parseSimple (RegexpText.printSimple
      (.cat (.sym "a") (.cat (.star (.sum (.sym "a") (.sym "b"))) (.sym "c")))) =
    some (.cat (.cat (.sym "a") (.star (.sum (.sym "a") (.sym "b")))) (.sym "c")) := by decide +kernel
example : RegexpText.parseSimple (RegexpText.printSimple (.sum (.sym "a") (.sum (.sym "b") (.star (.star .one))))) =
    some (.sum (.sum (.sym "a") (.sym "b")) (.star (.star .one))) := by decide +kernel

#print axioms parseFull_printFull
#print axioms parseSimple_printSimple

end Gamba
