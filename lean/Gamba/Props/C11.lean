/- Gamba.Props.C11 — property theorems about the executable Turing-machine simulator
   (`tm_do_transition`, `tm_accepts_word`, `tm_simulate_word`, `tm_words_up_to_n`). -/
import Gamba.Model.TM
import Gamba.Spec.TM
import Gamba.Proofs.Words
import Gamba.Proofs.C11
namespace Gamba
variable {σ τ : Type} [DecidableEq σ] [DecidableEq τ]

/-! ### non-vacuity examples on the concrete machine `demoTM` (defined in `Gamba.Proofs.C11`) -/

example : demoTM.valid = true := by decide
example : demoTM.accepts ["a", "a"] 10 = some true := by decide
example : demoTM.accepts ["a", "a"] 4 = some true := by decide
example : demoTM.accepts ["a", "a"] 3 = none := by decide
example : demoTM.accepts ["a", "a"] 1 = none := by decide
example : demoTM.accepts ["a", "b"] 10 = some false := by decide
example : demoTM.accepts [] 10 = some true := by decide
/-- the left move at cell 0 keeps the head at 0 and does not touch the tape -/
example : demoTM.step (demoTM.init ["a", "a"]) = ⟨"r", ["a", "a"], 0⟩ := by decide
/-- walking off the right end appends one blank -/
example : demoTM.stepN 3 (demoTM.init ["a", "a"]) = ⟨"r", ["a", "a", "_"], 2⟩ := by decide
example : demoTM.stepN 4 (demoTM.init ["a", "a"]) = ⟨"acc", ["a", "a", "_", "_"], 3⟩ := by decide

/-! ### C11 theorems -/

/-- the executable step function is the Sipser step relation of the spec, whenever the head is on the tape -/
theorem tm_step_spec (T : TM σ τ) (c c' : TMConfig σ τ) (hh : c.head < c.tape.length) :
    T.step c = c' ↔ T.Step c c' := by
  constructor
  · rintro rfl; exact T.Step_of_step c hh
  · exact T.step_of_Step

example : (demoTM.init ["a", "a"]).head < (demoTM.init ["a", "a"]).tape.length := by decide
example : demoTM.Step (demoTM.init ["a", "a"]) ⟨"r", ["a", "a"], 0⟩ :=
  (tm_step_spec demoTM _ _ (by decide)).mp (by decide)

/-- the head stays on the tape (so the hypothesis of `tm_step_spec` holds along every run from `init`) -/
theorem tm_head_inv (T : TM σ τ) (w : List τ) (i : Nat) :
    (T.stepN i (T.init w)).head < (T.stepN i (T.init w)).tape.length :=
  T.stepN_head_lt i (T.init w) (T.init_head_lt w)

/-- `tm_do_transition` refuses to step in a halting state and otherwise performs exactly one step -/
theorem tm_doTransition_spec (T : TM σ τ) (c : TMConfig σ τ) :
    (T.halting c.q = true → T.doTransition c = .error .runtimeError) ∧
    (T.halting c.q = false → T.doTransition c = .ok (T.step c)) := by
  unfold TM.doTransition
  constructor
  · intro h; simp only [h, if_true]
  · intro h; simp only [h, Bool.false_eq_true, if_false]

example : demoTM.halting (⟨"acc", ["_"], 0⟩ : TMConfig String String).q = true := by decide
example : demoTM.doTransition ⟨"acc", ["_"], 0⟩ = .error .runtimeError :=
  (tm_doTransition_spec demoTM _).1 (by decide)
example : demoTM.halting (demoTM.init ["a"]).q = false := by decide
example : demoTM.doTransition (demoTM.init ["a"]) = .ok ⟨"r", ["a"], 0⟩ :=
  (tm_doTransition_spec demoTM _).2 (by decide)

set_option linter.unusedVariables false in
/-- verdict True  ⇔ the machine first halts within k steps and does so in the accepting state -/
theorem tm_accepts_true_iff (T : TM σ τ) (hne : T.qReject ≠ T.qAccept) (w : List τ) (k : Nat) :
    T.accepts w k = some true ↔ ∃ i, i ≤ k ∧ T.HaltsAt w i T.qAccept := by
  rw [T.accepts_eq_some_iff]
  unfold TM.HaltsAt
  constructor
  · rintro ⟨i, hi, hv, hmin⟩
    exact ⟨i, hi, (T.verdict_eq_true_iff _).mp hv, T.halting_qAccept, hmin⟩
  · rintro ⟨i, hi, hq, _, hmin⟩
    exact ⟨i, hi, (T.verdict_eq_true_iff _).mpr hq, hmin⟩

example : demoTM.qReject ≠ demoTM.qAccept := by decide
example : ∃ i, i ≤ 10 ∧ demoTM.HaltsAt ["a", "a"] i demoTM.qAccept :=
  (tm_accepts_true_iff demoTM (by decide) ["a", "a"] 10).mp (by decide)

/-- verdict False ⇔ the machine first halts within k steps and does so in the rejecting state -/
theorem tm_accepts_false_iff (T : TM σ τ) (hne : T.qReject ≠ T.qAccept) (w : List τ) (k : Nat) :
    T.accepts w k = some false ↔ ∃ i, i ≤ k ∧ T.HaltsAt w i T.qReject := by
  rw [T.accepts_eq_some_iff]
  unfold TM.HaltsAt
  constructor
  · rintro ⟨i, hi, hv, hmin⟩
    exact ⟨i, hi, (T.verdict_eq_false_iff hne _).mp hv, T.halting_qReject, hmin⟩
  · rintro ⟨i, hi, hq, _, hmin⟩
    exact ⟨i, hi, (T.verdict_eq_false_iff hne _).mpr hq, hmin⟩

example : ∃ i, i ≤ 10 ∧ demoTM.HaltsAt ["a", "b"] i demoTM.qReject :=
  (tm_accepts_false_iff demoTM (by decide) ["a", "b"] 10).mp (by decide)

/-- undecided ⇔ no halting state is entered within k steps -/
theorem tm_accepts_none_iff (T : TM σ τ) (w : List τ) (k : Nat) :
    T.accepts w k = none ↔ ∀ i, i ≤ k → T.halting (T.stepN i (T.init w)).q = false :=
  T.accepts_eq_none_iff w k

example : ∀ i, i ≤ 3 → demoTM.halting (demoTM.stepN i (demoTM.init ["a", "a"])).q = false :=
  (tm_accepts_none_iff demoTM ["a", "a"] 3).mp (by decide)

/-- a larger budget never changes a decided verdict -/
theorem tm_budget_mono (T : TM σ τ) (w : List τ) (k k' : Nat) (b : Bool) (hk : k ≤ k')
    (h : T.accepts w k = some b) : T.accepts w k' = some b := by
  rw [T.accepts_eq_some_iff] at h ⊢
  obtain ⟨i, hi, hv, hmin⟩ := h
  exact ⟨i, Nat.le_trans hi hk, hv, hmin⟩

example : demoTM.accepts ["a", "a"] 4 = some true ∧ 4 ≤ 100 := by decide
example : demoTM.accepts ["a", "a"] 100 = some true :=
  tm_budget_mono demoTM ["a", "a"] 4 100 true (by decide) (by decide)

/-- the recorded run: starts at the initial configuration, every next element is one step of the previous one,
    only the last element can be halting, at most k+1 elements, and it is a prefix of the step sequence -/
theorem tm_simulate_trace (T : TM σ τ) (w : List τ) (k : Nat) :
    let tr := T.simulate w k
    tr.head? = some (T.init w) ∧ tr.length ≤ k + 1 ∧
    (∀ i, i < tr.length → tr[i]? = some (T.stepN i (T.init w))) ∧
    (∀ i, i + 1 < tr.length → T.halting (T.stepN i (T.init w)).q = false) := by
  intro tr
  show tr.head? = some (T.init w) ∧ tr.length ≤ k + 1 ∧
    (∀ i, i < tr.length → tr[i]? = some (T.stepN i (T.init w))) ∧
    (∀ i, i + 1 < tr.length → T.halting (T.stepN i (T.init w)).q = false)
  have htr : tr = if T.halting T.q0 then [T.init w] else T.init w :: T.traceLoop k (T.init w) := rfl
  cases hq : T.halting T.q0 with
  | true =>
    simp only [hq, if_true] at htr
    rw [htr]
    refine ⟨rfl, by simp, ?_, ?_⟩
    · intro i hi
      simp only [List.length_singleton] at hi
      have : i = 0 := by omega
      subst this; rfl
    · intro i hi
      simp only [List.length_singleton] at hi
      omega
  | false =>
    simp only [hq, Bool.false_eq_true, if_false] at htr
    rw [htr]
    refine ⟨rfl, ?_, ?_, ?_⟩
    · have := T.traceLoop_length_le k (T.init w)
      simp only [List.length_cons]; omega
    · intro i hi
      simp only [List.length_cons] at hi
      cases i with
      | zero => rfl
      | succ i =>
        simp only [List.getElem?_cons_succ]
        exact T.traceLoop_getElem? k (T.init w) i (by omega)
    · intro i hi
      simp only [List.length_cons] at hi
      cases i with
      | zero => exact hq
      | succ i => exact T.traceLoop_nonhalting k (T.init w) i (by omega)

example : demoTM.simulate ["a", "a"] 10 =
    [⟨"s", ["a", "a"], 0⟩, ⟨"r", ["a", "a"], 0⟩, ⟨"r", ["a", "a"], 1⟩, ⟨"r", ["a", "a", "_"], 2⟩,
     ⟨"acc", ["a", "a", "_", "_"], 3⟩] := by decide
example : (demoTM.simulate ["a", "a"] 2).length = 3 := by decide

/-- the last recorded configuration agrees with the verdict -/
theorem tm_simulate_verdict (T : TM σ τ) (w : List τ) (k : Nat) :
    (T.simulate w k).getLast?.map (fun c => T.verdict c.q) = some (T.accepts w k) := by
  unfold TM.simulate TM.accepts
  cases hq : T.halting T.q0 with
  | true =>
    obtain ⟨b, hb⟩ := T.verdict_isSome_of_halting hq
    simp only [if_true, hb, List.getLast?_singleton, Option.map_some, TM.init_q]
  | false =>
    have hv := (T.verdict_eq_none_iff _).mpr hq
    simp only [hv, Bool.false_eq_true, if_false]
    exact T.traceLoop_getLast k (T.init w) hq

example : (demoTM.simulate ["a", "b"] 10).getLast?.map (fun c => demoTM.verdict c.q) = some (some false) := by
  decide
example : (demoTM.simulate ["a", "a"] 2).getLast?.map (fun c => demoTM.verdict c.q) = some none := by
  decide

/-- the enumerator returns exactly the words over Σ of length ≤ n accepted within k steps -/
theorem tm_words_exact (T : TM σ τ) (n k : Nat) (w : List τ) :
    w ∈ T.wordsUpTo n k ↔ w.length ≤ n ∧ (∀ a, a ∈ w → a ∈ T.Sigma) ∧ T.accepts w k = some true := by
  unfold TM.wordsUpTo
  simp only [List.mem_filter, mem_wordsUpTo, decide_eq_true_eq, and_assoc]

example : demoTM.wordsUpTo 2 10 = [[], ["a"], ["a", "a"]] := by decide
example : demoTM.wordsUpTo 2 3 = [[], ["a"]] := by decide

#print axioms tm_step_spec
#print axioms tm_head_inv
#print axioms tm_doTransition_spec
#print axioms tm_accepts_true_iff
#print axioms tm_accepts_false_iff
#print axioms tm_accepts_none_iff
#print axioms tm_budget_mono
#print axioms tm_simulate_trace
#print axioms tm_simulate_verdict
#print axioms tm_words_exact

end Gamba
