/-
  Gamba.Props.C14a — the DFA closure constructions (`dfa_product`, `dfa_complement`, state renaming,
  `dfa_no_prefix`, `dfa_make_total`, `fresh_state`) produce valid automata with the intended languages.
-/
import Gamba.Model.DFA
import Gamba.Model.NFA
import Gamba.Spec.Automata
import Gamba.Proofs.DFABasic
import Gamba.Proofs.C14a
namespace Gamba
variable {σ σ₂ τ : Type} [DecidableEq σ] [DecidableEq σ₂] [DecidableEq τ]

open C14a

/-! ### product -/

theorem product_valid (D1 : DFA σ τ) (D2 : DFA σ₂ τ) (t : ProductType)
    (h1 : D1.valid = true) (h2 : D2.valid = true) (hS : ∀ a, a ∈ D1.Sigma ↔ a ∈ D2.Sigma) :
    (D1.product D2 t).valid = true :=
  DFA.product_valid D1 D2 t h1 h2 hS

example : (exD1.product exD2 .union).valid = true :=
  product_valid exD1 exD2 .union exD1_valid exD2_valid exD12_sigma

theorem product_union_lang (D1 : DFA σ τ) (D2 : DFA σ₂ τ)
    (h1 : D1.valid = true) (h2 : D2.valid = true) (hS : ∀ a, a ∈ D1.Sigma ↔ a ∈ D2.Sigma)
    (w : List τ) (hw : ∀ a, a ∈ w → a ∈ D1.Sigma) :
    (D1.product D2 .union).Accepts w ↔ (D1.Accepts w ∨ D2.Accepts w) := by
  have hw2 : ∀ a, a ∈ w → a ∈ D2.Sigma := fun a ha => (hS a).mp (hw a ha)
  rw [DFA.product_accepts_iff D1 D2 .union h1 h2 hS w hw, DFA.Accepts_iff_runT h1 hw,
    DFA.Accepts_iff_runT h2 hw2]
  simp only [ProductType.accept, Bool.or_eq_true, decide_eq_true_eq]

example : (∀ a, a ∈ ["a", "b"] → a ∈ exD1.Sigma) ∧ (exD1.product exD2 .union).Accepts ["a", "b"] ∧
    ¬ exD1.Accepts ["a", "b"] ∧ exD2.Accepts ["a", "b"] := by
  have hw : ∀ a, a ∈ ["a", "b"] → a ∈ exD1.Sigma := by decide
  have hw2 : ∀ a, a ∈ ["a", "b"] → a ∈ exD2.Sigma := by decide
  have h1 : ¬ exD1.Accepts ["a", "b"] := by rw [DFA.Accepts_iff_runT exD1_valid hw]; decide
  have h2 : exD2.Accepts ["a", "b"] := by rw [DFA.Accepts_iff_runT exD2_valid hw2]; decide
  exact ⟨hw, (product_union_lang exD1 exD2 exD1_valid exD2_valid exD12_sigma _ hw).mpr (Or.inr h2), h1, h2⟩

theorem product_intersection_lang (D1 : DFA σ τ) (D2 : DFA σ₂ τ)
    (h1 : D1.valid = true) (h2 : D2.valid = true) (hS : ∀ a, a ∈ D1.Sigma ↔ a ∈ D2.Sigma)
    (w : List τ) (hw : ∀ a, a ∈ w → a ∈ D1.Sigma) :
    (D1.product D2 .intersection).Accepts w ↔ (D1.Accepts w ∧ D2.Accepts w) := by
  have hw2 : ∀ a, a ∈ w → a ∈ D2.Sigma := fun a ha => (hS a).mp (hw a ha)
  rw [DFA.product_accepts_iff D1 D2 .intersection h1 h2 hS w hw, DFA.Accepts_iff_runT h1 hw,
    DFA.Accepts_iff_runT h2 hw2]
  simp only [ProductType.accept, Bool.and_eq_true, decide_eq_true_eq]

example : (exD1.product exD2 .intersection).Accepts ["b", "a"] ∧
    ¬ (exD1.product exD2 .intersection).Accepts ["a", "b"] := by
  have hw : ∀ a, a ∈ ["b", "a"] → a ∈ exD1.Sigma := by decide
  have hw' : ∀ a, a ∈ ["a", "b"] → a ∈ exD1.Sigma := by decide
  rw [product_intersection_lang exD1 exD2 exD1_valid exD2_valid exD12_sigma _ hw,
    product_intersection_lang exD1 exD2 exD1_valid exD2_valid exD12_sigma _ hw',
    DFA.Accepts_iff_runT exD1_valid hw, DFA.Accepts_iff_runT exD1_valid hw',
    DFA.Accepts_iff_runT exD2_valid (by decide), DFA.Accepts_iff_runT exD2_valid (by decide)]
  decide

theorem product_symdiff_lang (D1 : DFA σ τ) (D2 : DFA σ₂ τ)
    (h1 : D1.valid = true) (h2 : D2.valid = true) (hS : ∀ a, a ∈ D1.Sigma ↔ a ∈ D2.Sigma)
    (w : List τ) (hw : ∀ a, a ∈ w → a ∈ D1.Sigma) :
    (D1.product D2 .symmetricDifference).Accepts w ↔
      ((D1.Accepts w ∧ ¬ D2.Accepts w) ∨ (¬ D1.Accepts w ∧ D2.Accepts w)) := by
  have hw2 : ∀ a, a ∈ w → a ∈ D2.Sigma := fun a ha => (hS a).mp (hw a ha)
  rw [DFA.product_accepts_iff D1 D2 .symmetricDifference h1 h2 hS w hw, DFA.Accepts_iff_runT h1 hw,
    DFA.Accepts_iff_runT h2 hw2]
  simp only [ProductType.accept, Bool.or_eq_true, Bool.and_eq_true, Bool.not_eq_true',
    decide_eq_true_eq, decide_eq_false_iff_not]

example : (exD1.product exD2 .symmetricDifference).Accepts ["a", "b"] ∧
    ¬ (exD1.product exD2 .symmetricDifference).Accepts ["b", "a"] := by
  have hw : ∀ a, a ∈ ["b", "a"] → a ∈ exD1.Sigma := by decide
  have hw' : ∀ a, a ∈ ["a", "b"] → a ∈ exD1.Sigma := by decide
  rw [product_symdiff_lang exD1 exD2 exD1_valid exD2_valid exD12_sigma _ hw,
    product_symdiff_lang exD1 exD2 exD1_valid exD2_valid exD12_sigma _ hw',
    DFA.Accepts_iff_runT exD1_valid hw, DFA.Accepts_iff_runT exD1_valid hw',
    DFA.Accepts_iff_runT exD2_valid (by decide), DFA.Accepts_iff_runT exD2_valid (by decide)]
  decide

/-! ### complement -/

theorem complement_valid (D : DFA σ τ) (h : D.valid = true) : D.complement.valid = true :=
  DFA.complement_valid D h

example : exD1.complement.valid = true := complement_valid exD1 exD1_valid

theorem complement_lang (D : DFA σ τ) (h : D.valid = true) (w : List τ)
    (hw : ∀ a, a ∈ w → a ∈ D.Sigma) : D.complement.Accepts w ↔ ¬ D.Accepts w :=
  DFA.complement_accepts_iff D h w hw

example : exD1.complement.Accepts ["a", "b"] ∧ ¬ exD1.complement.Accepts ["b", "a"] := by
  have hw : ∀ a, a ∈ ["b", "a"] → a ∈ exD1.Sigma := by decide
  have hw' : ∀ a, a ∈ ["a", "b"] → a ∈ exD1.Sigma := by decide
  rw [complement_lang exD1 exD1_valid _ hw, complement_lang exD1 exD1_valid _ hw',
    DFA.Accepts_iff_runT exD1_valid hw, DFA.Accepts_iff_runT exD1_valid hw']
  decide

/-! ### renaming of states -/

/-- renaming states by a function injective on Q preserves validity and the language -/
theorem mapStates_valid {σ' : Type} [DecidableEq σ'] (f : σ → σ') (D : DFA σ τ) (h : D.valid = true)
    (hf : ∀ p q, p ∈ D.Q → q ∈ D.Q → f p = f q → p = q) : (D.mapStates f).valid = true :=
  DFA.mapStates_valid' f D h hf

theorem mapStates_lang {σ' : Type} [DecidableEq σ'] (f : σ → σ') (D : DFA σ τ) (h : D.valid = true)
    (hf : ∀ p q, p ∈ D.Q → q ∈ D.Q → f p = f q → p = q) (w : List τ)
    (hw : ∀ a, a ∈ w → a ∈ D.Sigma) : (D.mapStates f).Accepts w ↔ D.Accepts w :=
  DFA.mapStates_accepts_iff f D h hf w hw

example : (exD1.mapStates (· ++ "'")).valid = true ∧ (exD1.mapStates (· ++ "'")).Q = ["p'", "q'"] :=
  ⟨mapStates_valid _ exD1 exD1_valid exRename_inj, by decide⟩

example : (exD1.mapStates (· ++ "'")).Accepts ["b", "a"] := by
  have hw : ∀ a, a ∈ ["b", "a"] → a ∈ exD1.Sigma := by decide
  rw [mapStates_lang _ exD1 exD1_valid exRename_inj _ hw, DFA.Accepts_iff_runT exD1_valid hw]
  decide

/-- product states renamed to the Python names `"(p,q)"` -/
example : ((exD1.product exD2 .union).mapStates productName).Q = ["(p,e)", "(p,o)", "(q,e)", "(q,o)"] ∧
    ((exD1.product exD2 .union).mapStates productName).valid = true := by
  decide

/-! ### noPrefix -/

/-- `dfa_no_prefix`: the NFA obtained by cutting the transitions that leave accepting states accepts exactly
    the words of L(D) none of whose proper prefixes is in L(D) -/
theorem noPrefix_valid (D : DFA σ τ) (eps : τ) (h : D.valid = true) (he : eps ∉ D.Sigma) :
    (D.noPrefix eps).valid = true :=
  DFA.noPrefix_valid' D eps h he

example : (exD1.noPrefix "").valid = true := noPrefix_valid exD1 "" exD1_valid (by decide)

theorem noPrefix_lang (D : DFA σ τ) (eps : τ) (h : D.valid = true) (he : eps ∉ D.Sigma)
    (w : List τ) (hw : ∀ a, a ∈ w → a ∈ D.Sigma) :
    (D.noPrefix eps).Accepts w ↔ (D.Accepts w ∧ ∀ u v, w = u ++ v → v ≠ [] → ¬ D.Accepts u) :=
  DFA.noPrefix_accepts_iff D eps h he w hw

/-- `b a` is accepted by the prefix-free automaton, `a a` (which has the accepted proper prefix `a`) is not
    although `exD1` accepts it -/
example : (exD1.noPrefix "").Accepts ["b", "a"] ∧ exD1.Accepts ["a", "a"] ∧
    ¬ (exD1.noPrefix "").Accepts ["a", "a"] := by
  have he : "" ∉ exD1.Sigma := by decide
  have hw : ∀ a, a ∈ ["b", "a"] → a ∈ exD1.Sigma := by decide
  have hw' : ∀ a, a ∈ ["a", "a"] → a ∈ exD1.Sigma := by decide
  have haa : exD1.Accepts ["a", "a"] := by rw [DFA.Accepts_iff_runT exD1_valid hw']; decide
  have ha : exD1.Accepts ["a"] := by rw [DFA.Accepts_iff_runT exD1_valid (by decide)]; decide
  refine ⟨?_, haa, ?_⟩
  · refine ⟨"q", by decide, ?_⟩
    refine NFA.Run.sym (q' := "p") (by decide) ⟨["p"], by decide, by decide⟩ ?_
    refine NFA.Run.sym (q' := "q") (by decide) ⟨["q"], by decide, by decide⟩ ?_
    exact NFA.Run.nil _
  · rw [noPrefix_lang exD1 "" exD1_valid he _ hw']
    rintro ⟨_, hall⟩
    exact hall ["a"] ["a"] rfl (by simp) ha

/-! ### makeTotal -/

/-- `dfa_make_total` on a partial DFA (`pvalid` = valid except for totality) -/
theorem makeTotal_valid (D : DFA σ τ) (trap : σ) (h : D.pvalid = true) (ht : trap ∉ D.Q) :
    (D.makeTotal trap).valid = true := by
  -- freshness of the trap state is not needed for validity (only for the language)
  have _ := ht
  exact DFA.makeTotal_valid' D trap h

example : exP.valid = false ∧ (exP.makeTotal "trap1").valid = true :=
  ⟨exP_not_valid, makeTotal_valid exP "trap1" exP_pvalid (by decide)⟩

theorem makeTotal_lang (D : DFA σ τ) (trap : σ) (h : D.pvalid = true) (ht : trap ∉ D.Q) (w : List τ) :
    (D.makeTotal trap).Accepts w ↔ D.Accepts w :=
  DFA.makeTotal_accepts_iff D trap h ht w

example : (exP.makeTotal "trap1").Accepts ["a"] ∧ ¬ (exP.makeTotal "trap1").Accepts ["a", "b"] := by
  have hv := makeTotal_valid exP "trap1" exP_pvalid (by decide)
  rw [DFA.Accepts_iff_runT hv (by decide), DFA.Accepts_iff_runT hv (by decide)]
  decide

example : exP.Accepts ["a"] :=
  (makeTotal_lang exP "trap1" exP_pvalid (by decide) ["a"]).mp (by
    rw [DFA.Accepts_iff_runT (makeTotal_valid exP "trap1" exP_pvalid (by decide)) (by decide)]; decide)

/-! ### freshState -/

/-- `fresh_state(Q, hint)` returns a name that is not in Q -/
theorem freshState_fresh (Q : List String) (hint : String) : freshState Q hint ∉ Q :=
  freshState_not_mem Q hint

example : freshState ["q1", "q2", "p"] "q" = "q3" := by decide

#print axioms product_valid
#print axioms product_union_lang
#print axioms product_intersection_lang
#print axioms product_symdiff_lang
#print axioms complement_valid
#print axioms complement_lang
#print axioms mapStates_valid
#print axioms mapStates_lang
#print axioms noPrefix_valid
#print axioms noPrefix_lang
#print axioms makeTotal_valid
#print axioms makeTotal_lang
#print axioms freshState_fresh

end Gamba
