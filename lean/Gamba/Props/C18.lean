/-
  Gamba.Props.C18 — property C18: the three Thompson building blocks `nfa_union`, `nfa_concatenation`,
  `nfa_repetition` (as repaired: result ε = operand ε, fresh state name supplied by the repaired generator)
  produce valid NFAs for L1 ∪ L2, L1·L2 and L1*, and the result does not depend on the generator history.

  Deviation from the requested statements: the hypotheses `(N.delta.map (·.1)).Nodup` ("δ is a Python dict:
  no repeated key") were added.  Without them the language clauses are false: `dictUpdate` folds `Dict.set`
  over ALL entries of the copied δ, so for a repeated key the LAST binding survives, whereas `lookup`
  (hence `NFA.Succ`/`NFA.Accepts` of the operand) reads the FIRST one — see the counterexample at the end.
-/
import Gamba.Model.NFA
import Gamba.Spec.Automata
import Gamba.Proofs.NFABasic
import Gamba.Proofs.C18
namespace Gamba
variable {σ τ : Type} [DecidableEq σ] [DecidableEq τ]

open C18

/-! ### union -/

theorem nfa_union_spec (N1 N2 : NFA σ τ) (q0 : σ) (h1 : N1.valid = true) (h2 : N2.valid = true)
    (hk1 : (N1.delta.map (·.1)).Nodup) (hk2 : (N2.delta.map (·.1)).Nodup)
    (hd : ∀ q, q ∈ N1.Q → q ∉ N2.Q) (hq1 : q0 ∉ N1.Q) (hq2 : q0 ∉ N2.Q) (he : N2.eps = N1.eps) :
    ∃ N, N1.union N2 q0 = .ok N ∧ N.valid = true ∧ N.eps = N1.eps ∧
      (∀ a, a ∈ N.Sigma ↔ a ∈ N1.Sigma ∨ a ∈ N2.Sigma) ∧
      ∀ w, N.Accepts w ↔ (N1.Accepts w ∨ N2.Accepts w) := by
  refine ⟨N1.unionRaw N2 q0, NFA.union_ok N1 N2 q0 h1 h2 hd he, NFA.unionRaw_valid N1 N2 q0 h1 h2 he,
    rfl, fun a => mem_sunion, ?_⟩
  exact union_lang_of_Succ N1 N2 _ q0 h1 h2 hd hq1 hq2 he rfl rfl (fun f => mem_sunion)
    (NFA.unionRaw_Succ_iff N1 N2 q0 h1 h2 hk1 hk2 hd hq1 hq2 he)

/-- the result is again a dict (so the constructions can be iterated) -/
theorem nfa_union_keys_nodup (N1 N2 : NFA σ τ) (q0 : σ) (N : NFA σ τ) (h : N1.union N2 q0 = .ok N) :
    (N.delta.map (·.1)).Nodup := by
  rw [NFA.union_eq] at h
  split at h
  · cases h
  · unfold NFA.checked at h
    split at h
    · cases h; exact NFA.unionRaw_keys_nodup N1 N2 q0
    · cases h

example : exA.valid = true ∧ exB.valid = true ∧ (exA.delta.map (·.1)).Nodup ∧ (exB.delta.map (·.1)).Nodup ∧
    (∀ q, q ∈ exA.Q → q ∉ exB.Q) ∧ "s" ∉ exA.Q ∧ "s" ∉ exB.Q ∧ exB.eps = exA.eps :=
  ⟨by decide, by decide, by decide, by decide, sdisjoint_iff.mp (by decide), by decide, by decide, rfl⟩

example : exA.union exB "s" = .ok
    { Q := ["a0", "a1", "b0", "b1", "s"], Sigma := ["a", "b"],
      delta := [(("a0", "a"), ["a1"]), (("b0", "b"), ["b1"]), (("b1", "eps"), ["b0"]),
                (("s", "eps"), ["a0", "b0"])],
      q0 := "s", F := ["a1", "b1"], eps := "eps" } := by rfl

/-! ### concatenation -/

theorem nfa_concat_spec (N1 N2 : NFA σ τ) (h1 : N1.valid = true) (h2 : N2.valid = true)
    (hk1 : (N1.delta.map (·.1)).Nodup) (hk2 : (N2.delta.map (·.1)).Nodup)
    (hd : ∀ q, q ∈ N1.Q → q ∉ N2.Q) (he : N2.eps = N1.eps) :
    ∃ N, N1.concat N2 = .ok N ∧ N.valid = true ∧ N.eps = N1.eps ∧
      (∀ a, a ∈ N.Sigma ↔ a ∈ N1.Sigma ∨ a ∈ N2.Sigma) ∧
      ∀ w, N.Accepts w ↔ ∃ u v, w = u ++ v ∧ N1.Accepts u ∧ N2.Accepts v := by
  refine ⟨N1.concatRaw N2, NFA.concat_ok N1 N2 h1 h2 hd he, NFA.concatRaw_valid N1 N2 h1 h2 he,
    rfl, fun a => mem_sunion, ?_⟩
  exact concat_lang_of_Succ N1 N2 _ h1 h2 hd he rfl rfl (fun f => Iff.rfl)
    (NFA.concatRaw_Succ_iff N1 N2 h1 h2 hk1 hk2 hd he)

theorem nfa_concat_keys_nodup (N1 N2 : NFA σ τ) (N : NFA σ τ) (h : N1.concat N2 = .ok N) :
    (N.delta.map (·.1)).Nodup := by
  rw [NFA.concat_eq] at h
  split at h
  · cases h
  · unfold NFA.checked at h
    split at h
    · cases h; exact NFA.concatRaw_keys_nodup N1 N2
    · cases h

example : exA.concat exB = .ok
    { Q := ["a0", "a1", "b0", "b1"], Sigma := ["a", "b"],
      delta := [(("a0", "a"), ["a1"]), (("b0", "b"), ["b1"]), (("b1", "eps"), ["b0"]),
                (("a1", "eps"), ["b0"])],
      q0 := "a0", F := ["b1"], eps := "eps" } := by rfl

/-! ### repetition -/

theorem nfa_repetition_spec (N1 : NFA σ τ) (q0 : σ) (h1 : N1.valid = true)
    (hk1 : (N1.delta.map (·.1)).Nodup) (hq : q0 ∉ N1.Q) :
    ∃ N, N1.repetition q0 = .ok N ∧ N.valid = true ∧ N.eps = N1.eps ∧ (∀ a, a ∈ N.Sigma ↔ a ∈ N1.Sigma) ∧
      ∀ w, N.Accepts w ↔ ∃ ws : List (List τ), w = ws.flatten ∧ ∀ u, u ∈ ws → N1.Accepts u := by
  refine ⟨N1.repetitionRaw q0, NFA.repetition_ok N1 q0 h1, NFA.repetitionRaw_valid N1 q0 h1,
    rfl, fun a => Iff.rfl, ?_⟩
  exact repetition_lang_of_Succ N1 _ q0 h1 hq rfl rfl (fun f => mem_sinsert)
    (NFA.repetitionRaw_Succ_iff N1 q0 h1 hk1 hq)

theorem nfa_repetition_keys_nodup (N1 : NFA σ τ) (q0 : σ) (N : NFA σ τ) (h : N1.repetition q0 = .ok N) :
    (N.delta.map (·.1)).Nodup := by
  rw [NFA.repetition_eq] at h
  unfold NFA.checked at h
  split at h
  · cases h; exact NFA.repetitionRaw_keys_nodup N1 q0
  · cases h

example : exB.valid = true ∧ (exB.delta.map (·.1)).Nodup ∧ "s" ∉ exB.Q := ⟨by decide, by decide, by decide⟩

example : exB.repetition "s" = .ok
    { Q := ["b0", "b1", "s"], Sigma := ["b"],
      delta := [(("b0", "b"), ["b1"]), (("b1", "eps"), ["b0"]), (("s", "eps"), ["b0"])],
      q0 := "s", F := ["b1", "s"], eps := "eps" } := by rfl

example : exA.repetition "s" = .ok
    { Q := ["a0", "a1", "s"], Sigma := ["a"],
      delta := [(("a0", "a"), ["a1"]), (("a1", "eps"), ["a0"]), (("s", "eps"), ["a0"])],
      q0 := "s", F := ["a1", "s"], eps := "eps" } := by rfl

/-! ### the fresh-name generator -/

/-- the state name drawn by the (repaired) generator is never an operand state, whatever the counter
    (= number of earlier calls) -/
theorem genFresh_fresh (Q : List String) (i : Nat) : (genFresh Q i).1 ∉ Q := genFresh_not_mem Q i

theorem genFresh_counter (Q : List String) (i : Nat) : i < (genFresh Q i).2 :=
  genFreshAux_snd Q _ i

example : genFresh ["q0", "q1", "q3", "p"] 0 = ("q2", 3) := by decide
example : genFresh ["q0", "q1", "q3", "p"] 3 = ("q4", 5) := by decide

/-- history independence: the language of the result does not depend on the generator state -/
theorem nfa_union_history_indep (N1 N2 : NFA String String) (i j : Nat) (h1 : N1.valid = true)
    (h2 : N2.valid = true)
    (hk1 : (N1.delta.map (·.1)).Nodup) (hk2 : (N2.delta.map (·.1)).Nodup)
    (hd : ∀ q, q ∈ N1.Q → q ∉ N2.Q) (he : N2.eps = N1.eps) :
    ∃ A B, N1.union N2 (genFresh (sunion N1.Q N2.Q) i).1 = .ok A ∧
      N1.union N2 (genFresh (sunion N1.Q N2.Q) j).1 = .ok B ∧
      ∀ w, A.Accepts w ↔ B.Accepts w := by
  have hf : ∀ k, (genFresh (sunion N1.Q N2.Q) k).1 ∉ N1.Q ∧ (genFresh (sunion N1.Q N2.Q) k).1 ∉ N2.Q := by
    intro k
    have := genFresh_fresh (sunion N1.Q N2.Q) k
    rw [mem_sunion, not_or] at this
    exact this
  obtain ⟨A, hA, _, _, _, hLA⟩ := nfa_union_spec N1 N2 _ h1 h2 hk1 hk2 hd (hf i).1 (hf i).2 he
  obtain ⟨B, hB, _, _, _, hLB⟩ := nfa_union_spec N1 N2 _ h1 h2 hk1 hk2 hd (hf j).1 (hf j).2 he
  exact ⟨A, B, hA, hB, fun w => (hLA w).trans (hLB w).symm⟩

example : (genFresh (sunion exA.Q exB.Q) 0).1 = "q0" ∧ (genFresh (sunion exA.Q exB.Q) 7).1 = "q7" := by
  decide

/-! ### why the `Nodup` hypotheses: a δ with a repeated key -/

/-- `exDup` is "valid" and reads `a` from `s` to the final state `t` (first binding), but its union with
    the empty automaton reads `a` from `s` only to the non-final `u` (last binding survives the copy). -/
example : exDup.delta.lookup ("s", "a") = some ["t"] ∧
    (exDup.unionRaw exEmpty "n").delta.lookup ("s", "a") = some ["u"] ∧ ¬ (exDup.delta.map (·.1)).Nodup :=
  ⟨by decide, by decide, by decide⟩

/-- all hypotheses of the originally requested `nfa_union_spec` (i.e. without `Nodup`) hold, the language
    clause does not: `a ∈ L(exDup)` but `a ∉ L(exDup ∪ exEmpty)` -/
theorem nfa_union_spec_needs_nodup :
    ∃ (N1 N2 : NFA String String) (q0 : String), N1.valid = true ∧ N2.valid = true ∧
      (∀ q, q ∈ N1.Q → q ∉ N2.Q) ∧ q0 ∉ N1.Q ∧ q0 ∉ N2.Q ∧ N2.eps = N1.eps ∧
      ∃ N, N1.union N2 q0 = .ok N ∧ ¬ ∀ w, N.Accepts w ↔ (N1.Accepts w ∨ N2.Accepts w) :=
  ⟨exDup, exEmpty, "n", exDup_union_counterexample⟩

/-! ### the language clauses at work on the concrete operands -/

example : ∃ N, exA.concat exB = .ok N ∧ N.Accepts ["a", "b", "b"] := by
  obtain ⟨N, hN, _, _, _, hL⟩ := nfa_concat_spec exA exB (by decide) (by decide) (by decide) (by decide)
    (sdisjoint_iff.mp (by decide)) rfl
  exact ⟨N, hN, (hL _).mpr ⟨["a"], ["b", "b"], rfl, exA_accepts, exB_accepts⟩⟩

example : ∃ N, exA.repetition "s" = .ok N ∧ N.Accepts [] ∧ N.Accepts ["a", "a", "a"] := by
  obtain ⟨N, hN, _, _, _, hL⟩ := nfa_repetition_spec exA "s" (by decide) (by decide) (by decide)
  refine ⟨N, hN, (hL _).mpr ⟨[], rfl, fun u hu => by cases hu⟩, (hL _).mpr ⟨[["a"], ["a"], ["a"]], rfl, ?_⟩⟩
  intro u hu
  simp only [List.mem_cons, List.not_mem_nil, or_false, or_self] at hu
  subst hu
  exact exA_accepts

#print axioms nfa_union_spec
#print axioms nfa_union_keys_nodup
#print axioms nfa_concat_spec
#print axioms nfa_concat_keys_nodup
#print axioms nfa_repetition_spec
#print axioms nfa_repetition_keys_nodup
#print axioms genFresh_fresh
#print axioms genFresh_counter
#print axioms nfa_union_history_indep
#print axioms nfa_union_spec_needs_nodup

end Gamba
