/-
  Gamba.Props.C12a — soundness of the exercise checkers of the notebooks (Model/Check.lean): each checker
  returns `true` ("OK" is printed) ONLY when the criterion of the exercise holds.
-/
import Gamba.Model.Check
import Gamba.Spec.Automata
import Gamba.Proofs.DFABasic
import Gamba.Proofs.MinBasic
import Gamba.Props.C14c
import Gamba.Props.C02reg
import Gamba.Props.C14a
import Gamba.Props.C14b
import Gamba.Props.C04b
import Gamba.Proofs.C12a
namespace Gamba
open Check C14a C14b C12a

/-! ### language from a word list / equal languages -/

/-- language-from-word-list: OK ⇒ state limit respected and the answer's enumerated language equals the word list -/
theorem chk_languageFromWords_sound (nQ maxStates : Nat) (A words : List (List String))
    (h : Check.languageFromWords nQ maxStates A words = true) :
    (maxStates = 0 ∨ nQ ≤ maxStates) ∧ ∀ w, w ∈ A ↔ w ∈ words := by
  unfold Check.languageFromWords at h
  rw [Bool.and_eq_true, C12a.maxStatesOk_iff, C12a.compare_isNone_iff] at h
  exact h

-- correct word list (other order, a duplicate), 2 states allowed, answer has 2 states: OK
example : Check.languageFromWords 2 2 [["a"], ["a", "a"], ["b", "a"]] [["b", "a"], ["a"], ["a", "a"], ["a"]] = true := by
  decide
-- no state limit (`max_states = 0`)
example : Check.languageFromWords 7 0 [["a"]] [["a"]] = true := by decide
-- a missing word / too many states: not OK
example : Check.languageFromWords 2 2 [["a"], ["a", "a"]] [["b", "a"], ["a"], ["a", "a"]] = false := by decide
example : Check.languageFromWords 3 2 [["a"]] [["a"]] = false := by decide

theorem chk_equalLanguages_sound (A1 A2 : List (List String)) (h : Check.equalLanguages A1 A2 = true) :
    ∀ w, w ∈ A1 ↔ w ∈ A2 :=
  (C12a.compare_isNone_iff A1 A2).mp h

example : Check.equalLanguages [["a"], ["a", "b"], ["a"]] [["a", "b"], ["a"]] = true := by decide
example : Check.equalLanguages [["a"], ["a", "b"]] [["a"]] = false := by decide
example : Check.equalLanguages [["a"]] [["a"], []] = false := by decide

/-- with the answer a valid DFA: OK ⇒ its language agrees with the word list on every word of length ≤ len -/
theorem chk_dfa_language_sound (D : DFA String String) (hv : D.valid = true) (maxStates len : Nat)
    (words : List (List String))
    (h : Check.languageFromWords D.Q.length maxStates (D.wordsUpTo len) words = true) :
    (maxStates = 0 ∨ D.Q.length ≤ maxStates) ∧
    ∀ w, w.length ≤ len → (∀ a, a ∈ w → a ∈ D.Sigma) → (D.Accepts w ↔ w ∈ words) := by
  obtain ⟨h1, h2⟩ := chk_languageFromWords_sound _ _ _ _ h
  refine ⟨h1, ?_⟩
  intro w hl hs
  rw [← h2 w, dfa_words_exact D hv len w]
  exact ⟨fun ha => ⟨hl, hs, ha⟩, fun ha => ha.2.2⟩

/-- `exD1` (words ending in `a`) against the word list of length ≤ 2 -/
example : exD1.valid = true ∧
    Check.languageFromWords exD1.Q.length 2 (exD1.wordsUpTo 2) [["a"], ["b", "a"], ["a", "a"]] = true := by decide
-- `exD2` (even length) handed in for the same list: not OK
example : exD2.valid = true ∧
    Check.languageFromWords exD2.Q.length 2 (exD2.wordsUpTo 2) [["a"], ["b", "a"], ["a", "a"]] = false := by decide
-- consequence on the example: `exD1` accepts `b a` and rejects `a b`
example : exD1.Accepts ["b", "a"] ∧ ¬ exD1.Accepts ["a", "b"] :=
  have h := (chk_dfa_language_sound exD1 exD1_valid 2 2 [["a"], ["b", "a"], ["a", "a"]] (by decide)).2
  ⟨(h ["b", "a"] (by decide) (by decide)).mpr (by decide),
   fun hacc => absurd ((h ["a", "b"] (by decide) (by decide)).mp hacc) (by decide)⟩

theorem chk_acceptsRejects_sound (accepted rejected : List (Option Bool))
    (h : Check.acceptsRejects accepted rejected = true) :
    (∀ v, v ∈ accepted → v = some true) ∧ (∀ v, v ∈ rejected → v ≠ some true) := by
  unfold Check.acceptsRejects at h
  simpa only [Bool.and_eq_true, List.all_eq_true, beq_iff_eq, bne_iff_ne] using h

-- all words of the first list accepted, none of the second (`none` = the TM did not decide within its step bound)
example : Check.acceptsRejects [some true, some true] [some false, none] = true := by decide
-- a word that should be accepted is rejected / undecided; a word that should be rejected is accepted
example : Check.acceptsRejects [some true, some false] [some false] = false := by decide
example : Check.acceptsRejects [none] [] = false := by decide
example : Check.acceptsRejects [] [some true] = false := by decide

/-! ### product automata -/

open Classical in
/-- product exercises: OK ⇒ structural requirement + bounded language agreement -/
theorem chk_product_sound (t : ProductType) (D1 D2 answer : DFA String String) (len : Nat)
    (h1 : D1.valid = true) (h2 : D2.valid = true) (ha : answer.valid = true)
    (h : Check.productCheck t D1 D2 answer len = some true) :
    (∀ a, a ∈ D1.Sigma ↔ a ∈ D2.Sigma) ∧
    (∀ q, q ∈ answer.Q → ∃ p r, Check.extractPair q = some (p, r) ∧ p ∈ D1.Q ∧ r ∈ D2.Q) ∧
    (∀ a, a ∈ answer.Sigma ↔ a ∈ D1.Sigma) ∧
    answer.q0 = productName (D1.q0, D2.q0) ∧
    (∀ q, q ∈ answer.F ↔ q ∈ ((D1.product D2 t).mapStates productName).F) ∧
    (∀ k r v, answer.delta.lookup k = some v →
      ((D1.product D2 t).mapStates productName).delta.lookup k = some r → v = r) ∧
    ∀ w, w.length ≤ len → (∀ a, a ∈ w → a ∈ D1.Sigma) →
      (answer.Accepts w ↔ t.accept (decide (D1.Accepts w)) (decide (D2.Accepts w)) = true) := by
  obtain ⟨hS12, hfb, hL⟩ := C12a.productCheck_true h
  obtain ⟨hQ, hS, h0, hd, hF⟩ := C12a.productFeedback_true hfb
  have hSa : ∀ a, a ∈ answer.Sigma ↔ a ∈ D1.Sigma := fun a => (hS a).symm
  exact ⟨hS12, hQ, hSa, h0, fun q => (hF q).symm, hd,
    fun w hl hw => C12a.product_lang_of_compare h1 h2 ha hS12 hSa hL w hl hw⟩

/-- hand-written correct answers (states and alphabet listed in another order) for the three exercises -/
example : exD1.valid = true ∧ exD2.valid = true ∧ exAnsUnion.valid = true ∧
    Check.productCheck .union exD1 exD2 exAnsUnion 3 = some true := by decide
example : exAnsInter.valid = true ∧ Check.productCheck .intersection exD1 exD2 exAnsInter 3 = some true := by decide
example : exAnsSymDiff.valid = true ∧
    Check.productCheck .symmetricDifference exD1 exD2 exAnsSymDiff 3 = some true := by decide
-- the intersection automaton handed in for the union exercise (wrong accepting states): not OK
example : Check.productCheck .union exD1 exD2 exAnsInter 3 = some false := by decide
-- a correct product automaton whose states are named `pe`, `po`, …: exception (`none`), not OK
example : exAnsBadNames.valid = true ∧ Check.productCheck .union exD1 exD2 exAnsBadNames 3 = none := by decide
-- different alphabets: exception
example : Check.productCheck .union exD1 { exD2 with Sigma := ["a"] } exAnsUnion 3 = none := by decide
example : Check.extractPair "(p,e)" = some ("p", "e") ∧ Check.extractPair "pe" = none ∧
    Check.extractPair "{p,e,x}" = some ("p", "e") := by decide
-- consequence on the example: `a b` (even length, does not end in `a`) is accepted by the union answer
example : exAnsUnion.Accepts ["a", "b"] := by
  have h := (chk_product_sound .union exD1 exD2 exAnsUnion 3 exD1_valid exD2_valid (by decide) (by decide)).2.2.2.2.2.2
  refine (h ["a", "b"] (by decide) (by decide)).mpr ?_
  have h2 : exD2.Accepts ["a", "b"] := by rw [DFA.Accepts_iff_runT exD2_valid (by decide)]; decide
  simp [ProductType.accept, h2]

/-! ### complement -/

/-- complement: OK ⇒ same alphabet, states, initial state and transitions, accepting set complemented; hence the
    language is the complement for words of EVERY length.
    (The key-uniqueness hypotheses `hk`, `hk1` hold for every Python dict; the proof does not need them: the two-sided
    test `deltaEq` already forces equal lookups.  They are kept because the statement was requested in this form.) -/
theorem chk_complement_sound (D1 answer : DFA String String) (h1 : D1.valid = true)
    (hk : (answer.delta.map (·.1)).Nodup) (hk1 : (D1.delta.map (·.1)).Nodup)
    (h : Check.complementCheck D1 answer = true) :
    (∀ a, a ∈ answer.Sigma ↔ a ∈ D1.Sigma) ∧ (∀ q, q ∈ answer.Q ↔ q ∈ D1.Q) ∧ answer.q0 = D1.q0 ∧
    (∀ k, answer.delta.lookup k = D1.delta.lookup k) ∧ (∀ q, q ∈ answer.F ↔ (q ∈ D1.Q ∧ q ∉ D1.F)) ∧
    ∀ w, (∀ a, a ∈ w → a ∈ D1.Sigma) → (answer.Accepts w ↔ ¬ D1.Accepts w) := by
  have _ := hk
  have _ := hk1
  unfold Check.complementCheck at h
  simp only [Bool.and_eq_true, decide_eq_true_eq, seq_iff] at h
  obtain ⟨⟨⟨⟨hS, hQ⟩, h0⟩, hd⟩, hF⟩ := h
  have hd' : ∀ k, answer.delta.lookup k = D1.delta.lookup k := C12a.deltaEq_lookup hd
  have hF' : ∀ q, q ∈ answer.F ↔ q ∈ D1.complement.F := fun q => (hF q).symm
  refine ⟨fun a => (hS a).symm, fun q => (hQ q).symm, h0.symm, hd', ?_, ?_⟩
  · intro q
    rw [hF' q]
    exact mem_sdiff
  · intro w hw
    rw [← complement_lang D1 h1 w hw]
    exact C12a.Accepts_of_lookup_eq (D' := D1.complement) hd' h0.symm hF' w

/-- the complement of `exD1` written out with states, alphabet and transitions in another order -/
example : exD1.valid = true ∧ (exAnsCompl.delta.map (·.1)).Nodup ∧ (exD1.delta.map (·.1)).Nodup ∧
    Check.complementCheck exD1 exAnsCompl = true := by decide
-- the witness of the repaired defect: accepting set not flipped (`exD1` itself) — not OK
example : Check.complementCheck exD1 exAnsComplBad = false ∧ Check.complementCheck exD1 exD1 = false := by decide
-- every state accepting: not OK
example : Check.complementCheck exD1 { exAnsCompl with F := ["p", "q"] } = false := by decide
-- a changed transition: not OK
example : Check.complementCheck exD1 { exAnsCompl with
    delta := [(("q", "b"), "q"), (("q", "a"), "q"), (("p", "a"), "q"), (("p", "b"), "p")] } = false := by decide

/-! ### reverse -/

/-- reverse: OK ⇒ structural requirement + bounded language agreement with the mirror image -/
theorem chk_reverse_sound (D : DFA String String) (answer : NFA String String) (s : Sched) (len : Nat)
    (hv : D.valid = true) (ha : answer.valid = true) (h : Check.reverseCheck D answer s len = .ok true) :
    (∀ a, a ∈ answer.Sigma ↔ a ∈ D.Sigma) ∧ (∀ q, q ∈ D.Q → q ∈ answer.Q) ∧ answer.q0 ∉ D.Q ∧
    (∀ q, q ∈ answer.F ↔ q = D.q0) ∧
    (∀ e, e ∈ D.delta → e.1.1 ∈ answer.succ e.2 e.1.2) ∧
    ∀ w, w.length ≤ len → (∀ a, a ∈ w → a ∈ D.Sigma) → (answer.Accepts w ↔ D.Accepts w.reverse) := by
  obtain ⟨L, hL, hm⟩ := nfa_words_exact answer ha s len
  unfold Check.reverseCheck at h
  rw [hL] at h
  simp only [bind, Except.bind, pure, Except.pure, Except.ok.injEq, Bool.and_eq_true, seq_iff, ssubset_iff,
    List.all_eq_true, decide_eq_true_eq, C12a.compare_isNone_iff] at h
  obtain ⟨⟨⟨⟨⟨hS, hQ⟩, hE⟩, h0⟩, hF⟩, hC⟩ := h
  refine ⟨fun a => (hS a).symm, hQ, h0, ?_, hE, ?_⟩
  · intro q
    rw [hF q, List.mem_singleton]
  · intro w hl hw
    have hwa : ∀ a, a ∈ w → a ∈ answer.Sigma := fun a h => (hS a).mp (hw a h)
    have e0 : answer.Accepts w ↔ w ∈ L := by
      rw [hm w]
      exact ⟨fun h => ⟨hl, hwa, h⟩, fun h => h.2.2⟩
    rw [e0, hC w, langReverse_spec, dfa_words_exact D hv len w.reverse]
    constructor
    · exact fun h => h.2.2
    · intro h
      refine ⟨by rw [List.length_reverse]; exact hl, ?_, h⟩
      intro a ha'
      exact hw a (List.mem_reverse.mp ha')

/-- the reversal of `exD` written out (fresh initial state `s`), for two pop orders -/
example : exD.valid = true ∧ exAnsRev.valid = true ∧ Check.reverseCheck exD exAnsRev [] 3 = .ok true ∧
    Check.reverseCheck exD exAnsRev [1, 3, 4] 3 = .ok true := ⟨by decide, by decide, rfl, rfl⟩
-- a reversed edge missing (language unchanged: `z` is a dead end): not OK
example : exAnsRevBad.valid = true ∧ Check.reverseCheck exD exAnsRevBad [] 3 = .ok false := ⟨by decide, rfl⟩
-- wrong accepting state: not OK
example : Check.reverseCheck exD { exAnsRev with F := ["q"] } [] 3 = .ok false := rfl
-- the old initial state reused as initial state: not OK
example : Check.reverseCheck exD { exAnsRev with q0 := "q" } [] 3 = .ok false := rfl

/-! ### minimal DFA -/

/-- minimal DFA: OK ⇒ same alphabet, as many states as there are Nerode classes of the input, bounded language
    agreement -/
theorem chk_minimal_sound (D answer : DFA String String) (len : Nat) (hv : D.valid = true) (hQ : D.Q.Nodup)
    (ha : answer.valid = true) (h : Check.minimalCheck D answer len = .ok true) :
    (∀ a, a ∈ answer.Sigma ↔ a ∈ D.Sigma) ∧
    (∃ blocks, D.IsNerode blocks ∧ (dedup blocks).length = (dedup answer.Q).length) ∧
    ∀ w, w.length ≤ len → (∀ a, a ∈ w → a ∈ D.Sigma) → (answer.Accepts w ↔ D.Accepts w) := by
  obtain ⟨M, hM, hMv, hMS, hN, hML, _⟩ := quotient_spec D hv hQ
  unfold Check.minimalCheck at h
  rw [hM] at h
  simp only [bind, Except.bind, pure, Except.pure, Except.ok.injEq, Bool.and_eq_true, seq_iff,
    decide_eq_true_eq, C12a.compare_isNone_iff] at h
  obtain ⟨⟨hS, hsz⟩, hC⟩ := h
  rw [hMS] at hS
  refine ⟨fun a => (hS a).symm, ⟨M.Q, hN, hsz⟩, ?_⟩
  intro w hl hw
  have hwa : ∀ a, a ∈ w → a ∈ answer.Sigma := fun a h => (hS a).mp (hw a h)
  have hwM : ∀ a, a ∈ w → a ∈ M.Sigma := by rw [hMS]; exact hw
  have e0 : answer.Accepts w ↔ w ∈ answer.wordsUpTo len := by
    rw [dfa_words_exact answer ha len w]
    exact ⟨fun h => ⟨hl, hwa, h⟩, fun h => h.2.2⟩
  rw [e0, hC w, dfa_words_exact M hMv len w, ← hML w hw]
  exact ⟨fun h => h.2.2, fun h => ⟨hl, hwM, h⟩⟩

/-- the 3-state minimal automaton of the 4-state `exC04b` (states `1` and `2` are equivalent) -/
example : exC04b.valid = true ∧ exC04b.Q.Nodup ∧ exAnsMin.valid = true ∧
    Check.minimalCheck exC04b exAnsMin 4 = .ok true := ⟨by decide, by decide, by decide, rfl⟩
-- the input itself (right language, 4 states): not OK
example : Check.minimalCheck exC04b exC04b 4 = .ok false := rfl
-- 3 states but another language: not OK
example : exAnsMinBad.valid = true ∧ Check.minimalCheck exC04b exAnsMinBad 4 = .ok false := ⟨by decide, rfl⟩

#print axioms chk_languageFromWords_sound
#print axioms chk_equalLanguages_sound
#print axioms chk_dfa_language_sound
#print axioms chk_acceptsRejects_sound
#print axioms chk_product_sound
#print axioms chk_complement_sound
#print axioms chk_reverse_sound
#print axioms chk_minimal_sound

end Gamba
