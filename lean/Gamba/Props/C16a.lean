/-
  Gamba.Props.C16a — the line-oriented automaton text format (C16 / C17-style structural facts):
  no parser ever returns an object violating its class invariant; the builders reject nondeterministic or
  partial DFAs, missing initial states, undeclared states, repeated declarations and short transition
  lines; and `parse_dfa (print_dfa D)` gives `D` back (as sets / as a function).
-/
import Gamba.Proofs.C16a
namespace Gamba
open Parse

/-! ### PART 2 — structural theorems -/

/-- no parser ever returns an object violating its class invariant — for EVERY text -/
theorem parseDfa_ok_valid (text : List Char) (D : DFA String String) (h : Parse.parseDfa text = .ok D) :
    D.valid = true := by
  obtain ⟨A0, A, Sigma, _, _, _, _, _, _, hc⟩ := Parse.parseDfa_ok_unpack h
  obtain ⟨rfl, hv⟩ := DFA.checked_ok hc
  exact hv

/-- a text that is accepted (so the theorem is not vacuous): two labels on one line, a comment, a blank line -/
def C16.exText : List Char := "% a DFA\nstates p q\ninitial p\nfinal q\n\np q a b\nq q a\nq p b".toList

def C16.exDFA : DFA String String :=
  { Q := ["p", "q"], Sigma := ["a", "b"], q0 := "p", F := ["q"],
    delta := [(("p", "a"), "q"), (("p", "b"), "q"), (("q", "a"), "q"), (("q", "b"), "p")] }

example : Parse.parseDfa C16.exText = .ok C16.exDFA := by rfl

theorem parseNfa_ok_valid (text : List Char) (N : NFA String String) (h : Parse.parseNfa text = .ok N) :
    N.valid = true := by
  unfold parseNfa at h
  simp only [bind, Except.bind] at h
  repeat' split at h
  all_goals first | cases h | skip
  obtain ⟨rfl, hv⟩ := NFA.checked_ok h
  exact hv

example : ∃ N, Parse.parseNfa "initial p\nfinal q\np q a ε\nq q a".toList = .ok N ∧ N.Sigma = ["a"] ∧ N.eps = "ε" :=
  ⟨_, rfl, rfl, rfl⟩

theorem parsePda_ok_valid (text : List Char) (P : SPDA) (h : Parse.parsePda text = .ok P) : P.valid = true := by
  unfold parsePda at h
  simp only [bind, Except.bind] at h
  repeat' split at h
  all_goals first | cases h | skip
  obtain ⟨rfl, hv⟩ := PDA.checked_ok h
  exact hv

example : ∃ P, Parse.parsePda "initial p\nfinal q\np p a,εA\np q b,Aε".toList = .ok P ∧ P.Sigma = ["a", "b"] ∧ P.Gamma = ["A"] :=
  ⟨_, rfl, rfl, rfl⟩

theorem parseTm_ok_valid (text : List Char) (T : TM String String) (h : Parse.parseTm text = .ok T) :
    T.valid = true := by
  unfold parseTm at h
  simp only [bind, Except.bind] at h
  repeat' split at h
  all_goals first | cases h | skip
  all_goals
    obtain ⟨rfl, hv⟩ := Parse.TM.checked_ok h
    exact hv

example : ∃ T, Parse.parseTm "initial p\np p aa,R\np accept __,R".toList = .ok T ∧ T.Sigma = ["a"] ∧ T.blank = "_" ∧
    T.qReject = "reject" :=
  ⟨_, rfl, rfl, rfl, rfl⟩

/-- two transition entries with the same source and the same symbol (at different positions of the parsed
    transition list — on one line or on two) make the DFA parser fail -/
theorem parseDfa_rejects_nondeterministic (text : List Char) (A0 : Parse.Raw)
    (h0 : Parse.parseRaw .dfa Parse.isWord text = .ok A0)
    (p : String) (a : List Char) (q q' : String) (i j : Nat) (hij : i ≠ j)
    (hi : A0.transitions[i]? = some (p, a, q)) (hj : A0.transitions[j]? = some (p, a, q')) :
    ∃ e, Parse.parseDfa text = .error e := by
  cases hres : Parse.parseDfa text with
  | error e => exact ⟨e, rfl⟩
  | ok D =>
    exfalso
    obtain ⟨A0', A, Sigma, h0', h1, h2, _⟩ := Parse.parseDfa_ok_unpack hres
    rw [h0] at h0'; cases h0'
    obtain ⟨rfl, _⟩ := Parse.commonChecks_ok h1
    have hnd := Parse.hasDupPairs_eq_false_iff.mp h2
    simp only at hnd
    have hi' : (A0.transitions.map fun t => (t.1, Text.str t.2.1))[i]? = some (p, Text.str a) := by
      rw [List.getElem?_map, hi]; rfl
    have hj' : (A0.transitions.map fun t => (t.1, Text.str t.2.1))[j]? = some (p, Text.str a) := by
      rw [List.getElem?_map, hj]; rfl
    have hlt : i < (A0.transitions.map fun t => (t.1, Text.str t.2.1)).length := by
      rcases Nat.lt_or_ge i (A0.transitions.map fun t => (t.1, Text.str t.2.1)).length with h | h
      · exact h
      · rw [List.getElem?_eq_none h] at hi'; cases hi'
    exact hij ((List.getElem?_inj hlt hnd).mp (hi'.trans hj'.symm))

example : Parse.parseRaw .dfa Parse.isWord "initial p\np p a\np q a".toList =
      .ok { initial := ["p"], items := [("initial", ["p"])], transitions := [("p", ['a'], "p"), ("p", ['a'], "q")] } ∧
    Parse.parseDfa "initial p\np p a\np q a".toList = .error .runtimeError := ⟨rfl, rfl⟩

/-- every DFA that comes out of the parser is total *in the text*: each declared (state, symbol) pair has a
    transition entry among the parsed lines — a partial transition table is rejected -/
theorem parseDfa_rejects_not_total (text : List Char) (A0 : Parse.Raw)
    (h0 : Parse.parseRaw .dfa Parse.isWord text = .ok A0)
    (D : DFA String String) (h : Parse.parseDfa text = .ok D) :
    ∀ p a, p ∈ D.Q → a ∈ D.Sigma → ∃ q, (p, a.toList, q) ∈ A0.transitions := by
  obtain ⟨A0', A, Sigma, h0', h1, _, _, _, h5, hc⟩ := Parse.parseDfa_ok_unpack h
  rw [h0] at h0'; cases h0'
  obtain ⟨rfl, _⟩ := DFA.checked_ok hc
  obtain ⟨rfl, _⟩ := Parse.commonChecks_ok h1
  intro p a hp ha
  simp only [List.all_eq_true, decide_eq_true_eq] at h5
  obtain ⟨t, ht, he⟩ := List.mem_map.mp (h5 p hp a ha)
  simp only [Prod.mk.injEq] at he
  obtain ⟨rfl, rfl⟩ := he
  exact ⟨t.2.2, by simpa using ht⟩

example : Parse.parseDfa "initial p\ninput_symbols a b\np p a".toList = .error .runtimeError := rfl

/-- no (or more than one) initial state: the shared builder checks fail, for every kind of automaton -/
theorem parse_rejects_no_initial (k : Parse.Kind) (text : List Char) (A0 : Parse.Raw)
    (_h0 : Parse.parseRaw k Parse.isWord text = .ok A0) (hi : A0.initial.length ≠ 1) :
    ∀ A, Parse.commonChecks A0 [] Parse.isWord ≠ .ok A := by
  intro A h
  exact hi (Parse.commonChecks_ok h).2.2.2

example : ∃ A0, Parse.parseRaw .dfa Parse.isWord "states p\np p a".toList = .ok A0 ∧ A0.initial.length ≠ 1 ∧
    Parse.parseDfa "states p\np p a".toList = .error .runtimeError := ⟨_, rfl, by decide, rfl⟩

/-- a state that is used (initial, final, source or target of a transition) but not declared in a non-empty
    `states` declaration -/
theorem parse_rejects_undeclared_state (k : Parse.Kind) (text : List Char) (A0 : Parse.Raw)
    (_h0 : Parse.parseRaw k Parse.isWord text = .ok A0) (hs : A0.states ≠ []) (q : String)
    (hq : q ∈ Parse.usedStates A0) (hn : q ∉ A0.states) : ∀ A, Parse.commonChecks A0 [] Parse.isWord ≠ .ok A := by
  intro A h
  obtain ⟨rfl, h1, _, _⟩ := Parse.commonChecks_ok h
  have := h1 q hq
  have he : A0.states.isEmpty = false := by cases hA : A0.states <;> simp_all
  simp only [he] at this
  exact hn this

example : ∃ A0, Parse.parseRaw .dfa Parse.isWord "states p\ninitial p\np q a".toList = .ok A0 ∧ A0.states ≠ [] ∧
    "q" ∈ Parse.usedStates A0 ∧ "q" ∉ A0.states ∧
    Parse.parseDfa "states p\ninitial p\np q a".toList = .error .runtimeError :=
  ⟨_, rfl, by decide, by decide, by decide, rfl⟩

/-- the two previous facts at the level of the DFA parser: it returns an error -/
theorem parseDfa_rejects_failed_checks (text : List Char) (A0 : Parse.Raw)
    (h0 : Parse.parseRaw .dfa Parse.isWord text = .ok A0)
    (hc : ∀ A, Parse.commonChecks A0 [] Parse.isWord ≠ .ok A) : ∃ e, Parse.parseDfa text = .error e := by
  cases hres : Parse.parseDfa text with
  | error e => exact ⟨e, rfl⟩
  | ok D =>
    obtain ⟨A0', A, _, h0', h1, _⟩ := Parse.parseDfa_ok_unpack hres
    rw [h0] at h0'; cases h0'
    exact absurd h1 (hc A)

/-- a repeated declaration makes the line parser fail -/
theorem parseLine_rejects_repeated (k : Parse.Kind) (st : Parse.Raw) (line : List Char) (w0 : List Char)
    (rest : List (List Char)) (hw : Text.splitWs (Text.strip line) = w0 :: rest)
    (hkw : Text.str w0 ∈ ["states", "final", "initial"] ++ Parse.keywords k)
    (hdup : (st.items.lookup (Text.str w0)).isSome = true) :
    ∃ e, Parse.parseLine k Parse.isWord st line = .error e := by
  rw [Text.splitWs_strip] at hw
  rw [parseLine_eq, hw]
  have hh : (w0.head? == some '%') = false := by
    rcases List.mem_append.mp hkw with h | h
    · simp only [List.mem_cons, List.not_mem_nil, or_false, Text.str_eq_iff] at h
      rcases h with h | h | h <;> subst h <;> decide
    · have := (keywords_ne k h).2.2.2
      simpa using this
  by_cases h1 : Text.str w0 = "states" ∨ Text.str w0 = "final" ∨ Text.str w0 = "initial"
  · exact ⟨.runtimeError, by simp [parseWords, hh, h1, hdup]⟩
  · have h2 : Text.str w0 ∈ keywords k := by
      rcases List.mem_append.mp hkw with h | h
      · simp only [List.mem_cons, List.not_mem_nil, or_false] at h; exact absurd h h1
      · exact h
    exact ⟨.runtimeError, by simp [parseWords, hh, h1, h2, hdup]⟩

example : Text.splitWs (Text.strip " final q ".toList) = "final".toList :: ["q".toList] ∧
    Text.str "final".toList ∈ ["states", "final", "initial"] ++ Parse.keywords .nfa ∧
    (({ items := [("final", ["p"])] } : Parse.Raw).items.lookup (Text.str "final".toList)).isSome = true ∧
    Parse.parseRaw .nfa Parse.isWord "final p\nfinal q".toList = .error .runtimeError :=
  ⟨rfl, by decide, rfl, rfl⟩

/-- a transition line with fewer than three words makes the line parser fail -/
theorem parseLine_rejects_short (k : Parse.Kind) (st : Parse.Raw) (line : List Char) (w0 : List Char)
    (rest : List (List Char)) (hw : Text.splitWs (Text.strip line) = w0 :: rest) (hc : w0.head? ≠ some '%')
    (hkw : Text.str w0 ∉ ["states", "final", "initial"] ++ Parse.keywords k) (hlen : rest.length ≤ 1) :
    ∃ e, Parse.parseLine k Parse.isWord st line = .error e := by
  rw [Text.splitWs_strip] at hw
  rw [parseLine_eq, hw]
  have hh : (w0.head? == some '%') = false := by simpa using hc
  simp only [List.mem_append, List.mem_cons, List.not_mem_nil, or_false, not_or] at hkw
  obtain ⟨⟨n1, n2, n3⟩, n4⟩ := hkw
  match rest, hlen with
  | [], _ => exact ⟨.runtimeError, by simp [parseWords, hh, n1, n2, n3, n4]⟩
  | [x], _ => exact ⟨.runtimeError, by simp [parseWords, hh, n1, n2, n3, n4]⟩

example : Text.splitWs (Text.strip "p q".toList) = "p".toList :: ["q".toList] ∧ "p".toList.head? ≠ some '%' ∧
    Text.str "p".toList ∉ ["states", "final", "initial"] ++ Parse.keywords .tm ∧
    Parse.parseLine .tm Parse.isWord {} "p q".toList = .error .runtimeError :=
  ⟨rfl, by decide, by decide, rfl⟩

/-! ### PART 3 — the DFA round trip (C16) -/

/-- `parse_dfa (print_dfa D)` succeeds and gives `D` back — same states, alphabet, initial and final states (as
    sets) and the same transition function — for every valid DFA whose transition table has no repeated key,
    whose state names are words (`\\w+`) other than the four keywords of the format, and whose symbols are words.
    (`Parse.DfaNameOk` is defined in Proofs/C16a.lean.) -/
theorem parse_print_dfa (D : DFA String String) (hv : D.valid = true) (hk : (D.delta.map (·.1)).Nodup)
    (hQ : ∀ q, q ∈ D.Q → Parse.DfaNameOk q) (hS : ∀ a, a ∈ D.Sigma → Parse.isWord a.toList = true) :
    ∃ D', Parse.parseDfa (Parse.printDfa D).toList = .ok D' ∧
      (∀ q, q ∈ D'.Q ↔ q ∈ D.Q) ∧ (∀ a, a ∈ D'.Sigma ↔ a ∈ D.Sigma) ∧ D'.q0 = D.q0 ∧ (∀ q, q ∈ D'.F ↔ q ∈ D.F) ∧
      ∀ k, D'.delta.lookup k = D.delta.lookup k := by
  obtain ⟨D', hp, _, hQ', hS', hq', hF', hd'⟩ := Parse.parse_print_dfa_explicit D hv hk hQ hS
  refine ⟨D', hp, ?_, ?_, hq', ?_, ?_⟩
  · intro q; rw [hQ']; exact mem_sortStrings_dedup
  · intro a; rw [hS', mem_dedup]; exact mem_sortStrings_dedup
  · intro q; rw [hF']; exact mem_sortStrings_dedup
  · intro k
    exact lookup_eq_of_perm hd' ((hd'.map (·.1)).nodup_iff.mpr hk) k

/-- step (1) alone: the line parser reads back exactly the declarations and the transition entries that were
    printed (no hypothesis on repeated keys is needed here) -/
theorem parse_print_dfa_raw (D : DFA String String) (hv : D.valid = true)
    (hQ : ∀ q, q ∈ D.Q → Parse.DfaNameOk q) (hS : ∀ a, a ∈ D.Sigma → Parse.isWord a.toList = true) :
    ∃ A, Parse.parseRaw .dfa Parse.isWord (Parse.printDfa D).toList = .ok A ∧
      A.states = sortStrings (dedup D.Q) ∧ A.final = sortStrings (dedup D.F) ∧ A.initial = [D.q0] ∧
      A.items.lookup "input_symbols" = some (sortStrings (dedup D.Sigma)) ∧
      ∀ p a q, (p, a, q) ∈ A.transitions ↔ ((p, Text.str a), q) ∈ D.delta ∧ a = (Text.str a).toList :=
  ⟨_, Parse.parse_print_dfa_raw D hv hQ hS, rfl, rfl, rfl, rfl, by
    intro p a q
    show (p, a, q) ∈ Parse.transOf (Parse.dfaTrans D) ↔ _
    rw [Parse.mem_transOf]
    constructor
    · rintro ⟨t, ht, he⟩
      obtain ⟨⟨⟨p', a'⟩, q'⟩, hm, rfl⟩ := List.mem_map.mp ht
      simp only [Prod.mk.injEq] at he
      obtain ⟨rfl, rfl, rfl⟩ := he
      simpa using hm
    · rintro ⟨hm, ha⟩
      exact ⟨(p, q, Text.str a), List.mem_map.mpr ⟨_, hm, rfl⟩, by simp⟩⟩

/-- a 2-state DFA with no accepting state, unsorted declarations and two labels on one edge -/
def C16.exD : DFA String String :=
  { Q := ["q", "p"], Sigma := ["b", "a"], q0 := "p", F := [],
    delta := [(("p", "b"), "q"), (("p", "a"), "q"), (("q", "a"), "q"), (("q", "b"), "p")] }

/-- the hypotheses of `parse_print_dfa` hold for it -/
example : C16.exD.valid = true ∧ (C16.exD.delta.map (·.1)).Nodup ∧ (∀ q, q ∈ C16.exD.Q → Parse.DfaNameOk q) ∧
    (∀ a, a ∈ C16.exD.Sigma → Parse.isWord a.toList = true) := by
  refine ⟨by decide, by decide, ?_, by decide⟩
  unfold Parse.DfaNameOk
  decide

theorem C16.exD_print :
    Parse.printDfa C16.exD = "states p q\nfinal \ninitial p\ninput_symbols a b\np q b a\nq p b\nq q a" := by
  have s1 : sortStrings (dedup C16.exD.Q) = ["p", "q"] := by
    have : dedup C16.exD.Q = ["q", "p"] := by rfl
    rw [this]; simp [sortStrings, List.mergeSort, List.MergeSort.Internal.splitInTwo]
  have s2 : sortStrings (dedup C16.exD.F) = [] := by
    have : dedup C16.exD.F = [] := by rfl
    rw [this]; simp [sortStrings]
  have s3 : sortStrings (dedup C16.exD.Sigma) = ["a", "b"] := by
    have : dedup C16.exD.Sigma = ["b", "a"] := by rfl
    rw [this]; simp [sortStrings, List.mergeSort, List.MergeSort.Internal.splitInTwo]
  have s4 : sortStrings (dedup ((C16.exD.delta.map fun e => (e.1.1, e.2, e.1.2)).map fun t => t.1 ++ " " ++ t.2.1)) =
      ["p q", "q p", "q q"] := by
    have : dedup ((C16.exD.delta.map fun e => (e.1.1, e.2, e.1.2)).map fun t => t.1 ++ " " ++ t.2.1) =
        ["p q", "q q", "q p"] := by rfl
    rw [this]; simp [sortStrings, List.mergeSort, List.MergeSort.Internal.splitInTwo]
  unfold Parse.printDfa Parse.transLines
  simp only [s1, s2, s3, s4]
  rfl

/-- … and the round trip evaluated: the sets come back sorted, the transition entries in printing order -/
example : Parse.parseDfa (Parse.printDfa C16.exD).toList =
    .ok { C16.exD with Q := ["p", "q"], Sigma := ["a", "b"],
                       delta := [(("p", "b"), "q"), (("p", "a"), "q"), (("q", "b"), "p"), (("q", "a"), "q")] } := by
  rw [C16.exD_print]; rfl

/-- the name condition is needed: a state called `final` prints as a second `final` declaration -/
example : Parse.parseDfa "states final p\nfinal final\ninitial p\ninput_symbols a\nfinal final a\np final a".toList =
    .error .runtimeError := rfl

/-- the condition on repeated keys is needed: a table listing `(p, a)` twice prints as `p p a a`, which the
    determinism check rejects -/
example : Parse.parseDfa "states p\nfinal \ninitial p\ninput_symbols a\np p a a".toList = .error .runtimeError := rfl

#print axioms parseDfa_ok_valid
#print axioms parseNfa_ok_valid
#print axioms parsePda_ok_valid
#print axioms parseTm_ok_valid
#print axioms parseDfa_rejects_nondeterministic
#print axioms parseDfa_rejects_not_total
#print axioms parse_rejects_no_initial
#print axioms parse_rejects_undeclared_state
#print axioms parseDfa_rejects_failed_checks
#print axioms parseLine_rejects_repeated
#print axioms parseLine_rejects_short
#print axioms parse_print_dfa
#print axioms parse_print_dfa_raw

end Gamba
