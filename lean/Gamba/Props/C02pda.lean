/-
  Gamba.Props.C02pda — property C02 (PDA part): the model of `pda_words_up_to_n` (`PDA.wordsUpTo`, with the
  ε-closure iteration limit) is always sound w.r.t. the semantics of `Gamba.Spec.PDA`, and returns exactly the
  accepted words of length ≤ n over Σ whenever no ε-closure it computes was truncated by the limit.
-/
import Gamba.Proofs.C09
import Gamba.Proofs.C02pda
namespace Gamba
variable {σ τ γ : Type} [DecidableEq σ] [DecidableEq τ] [DecidableEq γ]

-- some hypotheses of the requested signatures (`hk`/`hv` in the complete direction) are not needed by the proofs
set_option linter.unusedVariables false

/-- soundness for every limit and pop order: every enumerated word is over Σ, has length ≤ n and has an
    accepting computation -/
theorem pda_words_sound (P : PDA σ τ γ) (hk : (P.delta.map (·.1)).Nodup) (hv : P.valid = true)
    (limit : Nat) (s : Sched) (n : Nat) (w : List τ) (h : w ∈ (P.wordsUpTo limit s n).1) :
    w.length ≤ n ∧ (∀ a, a ∈ w → a ∈ P.Sigma) ∧ P.Accepts w :=
  P.wordsUpTo_sound' hk hv limit s n w h

example : (C09.exPDA.delta.map (·.1)).Nodup ∧ C09.exPDA.valid = true := ⟨by decide, by decide⟩

example : C09.exPDA.wordsUpTo 1000 [] 2 = ([[], ["a", "b"]], false) ∧
    C09.exPDA.wordsUpTo 1000 [] 4 = ([[], ["a", "b"], ["a", "a", "b", "b"]], false) ∧
    C09.exPDA.wordsUpTo 3 [] 2 = ([[], ["a", "b"]], true) := ⟨by decide, by decide, by decide⟩

/-- soundness also holds for truncated enumerations: limit 3 truncates the first closure of `exPDA` -/
example : C09.exPDA.Accepts ["a", "b"] :=
  (pda_words_sound C09.exPDA (by decide) (by decide) 3 [] 2 ["a", "b"] (by decide)).2.2

/-- exactness below the limit: if the enumerator's truncation flag is false, it returns exactly the accepted
    words of length ≤ n over Σ -/
theorem pda_words_exact (P : PDA σ τ γ) (hk : (P.delta.map (·.1)).Nodup) (hv : P.valid = true)
    (limit : Nat) (s : Sched) (n : Nat) (ht : (P.wordsUpTo limit s n).2 = false) (w : List τ) :
    w ∈ (P.wordsUpTo limit s n).1 ↔ (w.length ≤ n ∧ (∀ a, a ∈ w → a ∈ P.Sigma) ∧ P.Accepts w) :=
  ⟨P.wordsUpTo_sound' hk hv limit s n w,
   fun h => P.wordsUpTo_complete' limit s n ht w h.1 h.2.1 h.2.2⟩

example : (C09.exPDA.wordsUpTo 1000 [] 4).2 = false := by decide

/-- used contrapositively: `abab`, `aab` are not accepted by `exPDA` -/
example : ¬ C09.exPDA.Accepts ["a", "b", "a", "b"] ∧ ¬ C09.exPDA.Accepts ["a", "a", "b"] := by
  refine ⟨fun h => ?_, fun h => ?_⟩
  · have := (pda_words_exact C09.exPDA (by decide) (by decide) 1000 [] 4 (by decide) _).mpr
      ⟨by decide, by decide, h⟩
    exact absurd this (by decide)
  · have := (pda_words_exact C09.exPDA (by decide) (by decide) 1000 [] 4 (by decide) _).mpr
      ⟨by decide, by decide, h⟩
    exact absurd this (by decide)

/-- and then it agrees with the acceptance test (same limit, any pop orders) on every word whose own run is
    untruncated -/
theorem pda_words_matches_accepts (P : PDA σ τ γ) (hk : (P.delta.map (·.1)).Nodup) (hv : P.valid = true)
    (limit : Nat) (s s' : Sched) (n : Nat) (ht : (P.wordsUpTo limit s n).2 = false) (w : List τ)
    (hw : ∀ a, a ∈ w → a ∈ P.Sigma) (hl : w.length ≤ n) (ht' : (P.acceptsT limit s' w).2 = false) :
    w ∈ (P.wordsUpTo limit s n).1 ↔ P.accepts limit s' w = true := by
  rw [pda_words_exact P hk hv limit s n ht w]
  constructor
  · intro h
    exact P.accepts_complete' limit s' w ht' h.2.2
  · intro h
    exact ⟨hl, hw, P.accepts_sound' hk limit s' w (fun a ha he => PDA.valid_eps hv (he ▸ hw a ha)) h⟩

example : (C09.exPDA.wordsUpTo 1000 [] 4).2 = false ∧
    (C09.exPDA.acceptsT 1000 [3, 1] ["a", "a", "b", "b"]).2 = false ∧
    (C09.exPDA.acceptsT 1000 [3, 1] ["a", "b", "b"]).2 = false := ⟨by decide, by decide, by decide⟩

example : (["a", "a", "b", "b"] ∈ (C09.exPDA.wordsUpTo 1000 [] 4).1 ↔
      C09.exPDA.accepts 1000 [3, 1] ["a", "a", "b", "b"] = true) ∧
    (["a", "b", "b"] ∈ (C09.exPDA.wordsUpTo 1000 [] 4).1 ↔
      C09.exPDA.accepts 1000 [3, 1] ["a", "b", "b"] = true) :=
  ⟨pda_words_matches_accepts C09.exPDA (by decide) (by decide) 1000 [] [3, 1] 4 (by decide) _
      (by decide) (by decide) (by decide),
   pda_words_matches_accepts C09.exPDA (by decide) (by decide) 1000 [] [3, 1] 4 (by decide) _
      (by decide) (by decide) (by decide)⟩

/-! ### The truncation hypothesis of `pda_words_exact` cannot be dropped

`C09.exLoopPDA` (stack-growing ε-cycle; every closure from `(s, [])` is truncated) accepts `aaa`,
but with limit 2 the enumeration up to length 3 is empty (flag `true`). -/

example : C09.exLoopPDA.wordsUpTo 2 [] 3 = ([], true) ∧
    C09.exLoopPDA.wordsUpTo 3 [] 3 = ([["a", "a", "a"]], true) := ⟨by decide, by decide⟩

example : C09.exLoopPDA.Accepts ["a", "a", "a"] ∧ ["a", "a", "a"] ∉ (C09.exLoopPDA.wordsUpTo 2 [] 3).1 :=
  ⟨(pda_words_sound C09.exLoopPDA (by decide) (by decide) 3 [] 3 _ (by decide)).2.2, by decide⟩

#print axioms pda_words_sound
#print axioms pda_words_exact
#print axioms pda_words_matches_accepts

end Gamba
