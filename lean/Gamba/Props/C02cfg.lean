/-
  Gamba.Props.C02cfg — the bounded enumerator `cfg_words_up_to_n` (`CFG.wordsUpTo`, as repaired) is
  exact: on a grammar in Chomsky normal form it returns exactly the words of length ≤ n of the
  language; on an arbitrary grammar it goes through `toChomsky` and is exact as soon as `toChomsky G`
  is a CNF grammar with the same language (which `toChomsky_spec` of `Props/C08d.lean` provides).

  No validity hypothesis is needed for the CNF statement (the enumerator never ranges over `G.V`).
-/
import Gamba.Model.CFG
import Gamba.Spec.CFG
import Gamba.Proofs.CFGBasic
import Gamba.Proofs.C02cfg
import Gamba.Props.C08d
namespace Gamba

/-- the CNF grammar `S → AB | a`, `A → a`, `B → b` -/
def C02cfg.exG : CFG :=
  { V := ["S", "A", "B"], Sigma := ["a", "b"], S := "S",
    R := [⟨"S", 0, [.v "A", .v "B"]⟩, ⟨"S", 1, [.t "a"]⟩, ⟨"A", 2, [.t "a"]⟩, ⟨"B", 3, [.t "b"]⟩] }

theorem C02cfg.exG_chomsky : C02cfg.exG.isChomsky = true := by decide

/-- the CNF grammar `S → ε | AA | AB`, `A → a | AA`, `B → b` (ε-rule, recursion) -/
def C02cfg.exG2 : CFG :=
  { V := ["S", "A", "B"], Sigma := ["a", "b"], S := "S",
    R := [⟨"S", 0, []⟩, ⟨"S", 1, [.v "A", .v "A"]⟩, ⟨"S", 2, [.v "A", .v "B"]⟩,
          ⟨"A", 3, [.t "a"]⟩, ⟨"A", 4, [.v "A", .v "A"]⟩, ⟨"B", 5, [.t "b"]⟩] }

theorem C02cfg.exG2_chomsky : C02cfg.exG2.isChomsky = true := by decide

/-- `cfg_words_up_to_n` on a CNF grammar: exactly the words of length ≤ n of the language -/
theorem cfg_words_exact_cnf (G : CFG) (hc : G.isChomsky = true) (n : Nat) (w : List String) :
    w ∈ G.wordsUpTo n ↔ w.length ≤ n ∧ G.Lang w := by
  rw [CFG.mem_wordsUpTo_cnf hc, CFG.Lang]
  constructor
  · rintro (⟨rfl, hr⟩ | ⟨k, f, hk, hit, hmw⟩)
    · exact ⟨Nat.zero_le _, (CFG.cnf_gen_v_nil_iff hc).mpr hr⟩
    · have h1 := CFG.iterN_step2_length hit
      have h2 := hmw.length
      simp only [List.length_cons, List.length_nil] at h1
      exact ⟨by omega, CFG.iterN_step2_gen hit hmw.gen⟩
  · rintro ⟨hlen, hgen⟩
    by_cases hw : w = []
    · subst hw
      exact Or.inl ⟨rfl, (CFG.cnf_gen_v_nil_iff hc).mp hgen⟩
    · obtain ⟨k, f, hk, hit, hmw⟩ := (CFG.cnf_gen_iff_steps hc hw).mp hgen
      exact Or.inr ⟨k, f, by omega, hit, hmw⟩

example : C02cfg.exG.wordsUpTo 0 = [] ∧ C02cfg.exG.wordsUpTo 1 = [["a"]] ∧
    C02cfg.exG.wordsUpTo 2 = [["a"], ["a", "b"]] ∧ C02cfg.exG.wordsUpTo 5 = [["a"], ["a", "b"]] := by
  decide

example : C02cfg.exG2.wordsUpTo 0 = [[]] ∧
    C02cfg.exG2.wordsUpTo 3 =
      [[], ["a", "a"], ["a", "b"], ["a", "a", "a"], ["a", "a", "b"]] := by
  decide

/-- the theorem applied to the examples: `ab ∈ L(exG)`, `b ∉ L(exG)`, `aab ∈ L(exG2)`, `ε ∈ L(exG2)` -/
example : C02cfg.exG.Lang ["a", "b"] ∧ ¬ C02cfg.exG.Lang ["b"] ∧ C02cfg.exG2.Lang ["a", "a", "b"] ∧
    C02cfg.exG2.Lang [] := by
  refine ⟨?_, ?_, ?_, ?_⟩
  · exact ((cfg_words_exact_cnf C02cfg.exG C02cfg.exG_chomsky 2 ["a", "b"]).mp (by decide)).2
  · intro h
    have := (cfg_words_exact_cnf C02cfg.exG C02cfg.exG_chomsky 1 ["b"]).mpr ⟨by decide, h⟩
    revert this; decide
  · exact ((cfg_words_exact_cnf C02cfg.exG2 C02cfg.exG2_chomsky 3 ["a", "a", "b"]).mp (by decide)).2
  · exact ((cfg_words_exact_cnf C02cfg.exG2 C02cfg.exG2_chomsky 0 []).mp (by decide)).2

/-- arbitrary grammar: the enumerator goes through `toChomsky`; given that `toChomsky G` is CNF with
    the same language, the enumeration is exact -/
theorem cfg_words_exact_of_chomsky (G : CFG) (n : Nat) (w : List String)
    (hC : (G.toChomsky).isChomsky = true) (hL : ∀ w, (G.toChomsky).Lang w ↔ G.Lang w) :
    w ∈ G.wordsUpTo n ↔ w.length ≤ n ∧ G.Lang w := by
  cases hc : G.isChomsky with
  | true => exact cfg_words_exact_cnf G hc n w
  | false =>
    rw [CFG.wordsUpTo_toChomsky hc hC, cfg_words_exact_cnf G.toChomsky hC n w, hL]

/-- arbitrary valid grammar (hypotheses of `toChomsky_spec`): the enumeration is exact -/
theorem cfg_words_exact (G : CFG) (hv : G.valid = true) (hS : G.S ∈ G.V) (ha : CFG.AliasOK G)
    (hd : ∀ a, a ∈ G.Sigma → a ∉ G.V ∧ a ≠ CFG.freshVariable G.V "S") (n : Nat) (w : List String) :
    w ∈ G.wordsUpTo n ↔ w.length ≤ n ∧ G.Lang w := by
  obtain ⟨_, hC, _, _, _, hL⟩ := toChomsky_spec G hv hS ha hd
  exact cfg_words_exact_of_chomsky G n w hC hL

/-- non-vacuity: the grammar `S → aSb | ε | T`, `T → c` of `C08d` is not in CNF, satisfies the
    hypotheses, and `acb` is enumerated for `n = 3` -/
example : C08d.exG.isChomsky = false ∧ C08d.exG.toChomsky.isChomsky = true ∧
    (∀ w, C08d.exG.toChomsky.Lang w ↔ C08d.exG.Lang w) ∧
    ["a", "c", "b"] ∈ C08d.exG.wordsUpTo 3 := by
  obtain ⟨_, hC, _, _, _, hL⟩ :=
    toChomsky_spec C08d.exG C08d.exG_valid C08d.exG_S C08d.exG_alias C08d.exG_disj
  exact ⟨by decide, hC, hL,
    (cfg_words_exact C08d.exG C08d.exG_valid C08d.exG_S C08d.exG_alias C08d.exG_disj 3 _).mpr
      ⟨by decide, C08d.exG_lang_acb⟩⟩

end Gamba

#print axioms Gamba.cfg_words_exact_cnf
#print axioms Gamba.cfg_words_exact_of_chomsky
#print axioms Gamba.cfg_words_exact
