/-
  Gamba.Props.C16e — the simple grammar text format (`cfg_print_simple` / `parse_simple_cfg`): printing a grammar the
  format can represent and parsing the text again gives the same grammar (C16, grammar clause).
-/
import Gamba.Proofs.C16e
namespace Gamba

/-- C16 (grammars): `parse_simple_cfg (cfg_print_simple G)` succeeds and gives `G` back — the same variables, terminals
    and start variable, and the same rules as a set (the printer groups the alternatives by variable, in order of first
    appearance, so the ORDER of the rules changes; `CFG.__eq__` compares sorted rules too) — for every `Printable`
    grammar: valid, single upper-case variables, single lower-case ASCII terminals, every variable has a rule, the
    start variable heads the first rule, and Σ has no terminal that does not occur.  The ε symbol the parser reports
    is `ε` (some rule has an empty right-hand side) or the default `_`. -/
theorem parse_print_cfg (G : CFG) (h : CfgText.Printable G) :
    ∃ text G' eps, CfgText.printSimpleCfg G = .ok text ∧ CfgText.parseSimpleCfg text.toList = .ok (G', eps) ∧
      (∀ A, A ∈ G'.V ↔ A ∈ G.V) ∧ (∀ a, a ∈ G'.Sigma ↔ a ∈ G.Sigma) ∧ G'.S = G.S ∧
      (∀ A rhs, (∃ r, r ∈ G'.R ∧ r.lhs = A ∧ r.rhs = rhs) ↔ (∃ r, r ∈ G.R ∧ r.lhs = A ∧ r.rhs = rhs)) ∧
      (eps = "ε" ∨ eps = "_") :=
  CfgText.parse_print G h

/-- `S -> aSb | ε | T`, `T -> c`, with the alternatives of `S` interleaved with the rule of `T` -/
def C16e.exG : CFG :=
  { V := ["S", "T"], Sigma := ["a", "b", "c"],
    R := [⟨"S", 0, [.t "a", .v "S", .t "b"]⟩, ⟨"S", 1, []⟩, ⟨"T", 2, [.t "c"]⟩, ⟨"S", 3, [.v "T"]⟩], S := "S" }

/-- non-vacuity: the example grammar is printable … -/
theorem C16e.exG_printable : CfgText.Printable C16e.exG where
  simple := by rfl
  valid := by decide
  hasRules := by
    intro A hA
    simp only [C16e.exG, List.mem_cons, List.not_mem_nil, or_false] at hA
    rcases hA with rfl | rfl
    · exact ⟨⟨"S", 1, []⟩, by simp [C16e.exG], rfl⟩
    · exact ⟨⟨"T", 2, [.t "c"]⟩, by simp [C16e.exG], rfl⟩
  startFirst := ⟨_, _, rfl, rfl⟩
  sigmaUsed := by
    intro a ha
    simp only [C16e.exG, List.mem_cons, List.not_mem_nil, or_false] at ha
    rcases ha with rfl | rfl | rfl
    · exact ⟨⟨"S", 0, [.t "a", .v "S", .t "b"]⟩, by simp [C16e.exG], by simp⟩
    · exact ⟨⟨"S", 0, [.t "a", .v "S", .t "b"]⟩, by simp [C16e.exG], by simp⟩
    · exact ⟨⟨"T", 2, [.t "c"]⟩, by simp [C16e.exG], by simp⟩

example := parse_print_cfg C16e.exG C16e.exG_printable

/-- … it is printed with the alternatives grouped by variable … -/
example : CfgText.printSimpleCfg C16e.exG = .ok "S -> aSb | ε | T\nT -> c" := by rfl

/-- … and parsed back with the rules in the printed order (not the original one) and ε reported as `ε` -/
example : CfgText.parseSimpleCfg "S -> aSb | ε | T\nT -> c".toList =
    .ok ({ V := ["S", "T"], Sigma := ["a", "b", "c"],
           R := [⟨"S", 0, [.t "a", .v "S", .t "b"]⟩, ⟨"S", 1, []⟩, ⟨"S", 2, [.v "T"]⟩, ⟨"T", 3, [.t "c"]⟩], S := "S" }, "ε") := by
  rfl

/-- a grammar without an ε-rule: the parser reports the default ε symbol `_` -/
example : CfgText.parseSimpleCfg "S -> aS | a".toList =
    .ok ({ V := ["S"], Sigma := ["a"], R := [⟨"S", 0, [.t "a", .v "S"]⟩, ⟨"S", 1, [.t "a"]⟩], S := "S" }, "_") := by rfl

/-- a grammar whose every right-hand side is empty is fine (`S -> ε`) -/
example : CfgText.parseSimpleCfg "S -> ε".toList = .ok ({ V := ["S"], Sigma := [], R := [⟨"S", 0, []⟩], S := "S" }, "ε") := by rfl

/-! The hypotheses of `Printable` are needed (each `G` below is valid and simple): -/

/-- `sigmaUsed`: a terminal of Σ that occurs in no rule is lost -/
example : (CfgText.printSimpleCfg { V := ["S"], Sigma := ["a", "b"], R := [⟨"S", 0, [.t "a"]⟩], S := "S" } = .ok "S -> a") ∧
    CfgText.parseSimpleCfg "S -> a".toList = .ok ({ V := ["S"], Sigma := ["a"], R := [⟨"S", 0, [.t "a"]⟩], S := "S" }, "_") :=
  ⟨by rfl, by rfl⟩

/-- `startFirst`: the start variable becomes the variable of the first printed line -/
example : (CfgText.printSimpleCfg { V := ["S", "T"], Sigma := ["a"], R := [⟨"T", 0, [.t "a"]⟩, ⟨"S", 1, [.v "T"]⟩], S := "S" } =
      .ok "T -> a\nS -> T") ∧
    CfgText.parseSimpleCfg "T -> a\nS -> T".toList =
      .ok ({ V := ["T", "S"], Sigma := ["a"], R := [⟨"T", 0, [.t "a"]⟩, ⟨"S", 1, [.v "T"]⟩], S := "T" }, "_") :=
  ⟨by rfl, by rfl⟩

/-- `hasRules`: a variable without a rule that occurs in a right-hand side makes the re-parse fail … -/
example : (CfgText.printSimpleCfg { V := ["S", "T"], Sigma := ["a"], R := [⟨"S", 0, [.t "a", .v "T"]⟩], S := "S" } = .ok "S -> aT") ∧
    CfgText.parseSimpleCfg "S -> aT".toList = .error .runtimeError :=
  ⟨by rfl, by rfl⟩

/-- … and one that occurs nowhere is lost; a grammar without any rule prints as the empty text, which is rejected -/
example : (CfgText.printSimpleCfg { V := ["S", "T"], Sigma := ["a"], R := [⟨"S", 0, [.t "a"]⟩], S := "S" } = .ok "S -> a") ∧
    (CfgText.printSimpleCfg { V := ["S"], Sigma := [], R := [], S := "S" } = .ok "") ∧
    CfgText.parseSimpleCfg "".toList = .error .runtimeError :=
  ⟨by rfl, by rfl, by rfl⟩

#print axioms parse_print_cfg
