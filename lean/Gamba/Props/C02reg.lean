/-
  Gamba.Props.C02reg — the bounded enumerations `dfa_words_up_to_n` and `nfa_words_up_to_n` return
  exactly the accepted words over Σ of length ≤ n (lists read as sets).
-/
import Gamba.Proofs.C02reg
namespace Gamba
variable {σ τ : Type} [DecidableEq σ] [DecidableEq τ]

/-- `dfa_words_up_to_n` is exact -/
theorem dfa_words_exact (D : DFA σ τ) (hv : D.valid = true) (n : Nat) (w : List τ) :
    w ∈ D.wordsUpTo n ↔ w.length ≤ n ∧ (∀ a, a ∈ w → a ∈ D.Sigma) ∧ D.Accepts w := by
  rw [D.mem_wordsUpTo n w]
  constructor
  · rintro ⟨hl, hs, hf⟩; exact ⟨hl, hs, (DFA.Accepts_iff_runT hv hs).mpr hf⟩
  · rintro ⟨hl, hs, hf⟩; exact ⟨hl, hs, (DFA.Accepts_iff_runT hv hs).mp hf⟩

example : C01.exDFA.valid = true ∧ C01.exDFA.wordsUpTo 2 = [["a"], ["a", "b"], ["b", "a"]] :=
  ⟨by decide, rfl⟩

example : C01.exDFA.Accepts ["b", "a"] ∧ ¬ C01.exDFA.Accepts ["a", "a"] :=
  ⟨((dfa_words_exact C01.exDFA (by decide) 2 ["b", "a"]).mp (by decide)).2.2,
   fun h => absurd ((dfa_words_exact C01.exDFA (by decide) 2 ["a", "a"]).mpr ⟨by decide, by decide, h⟩)
     (by decide)⟩

/-- `nfa_words_up_to_n` is exact, for every pop order -/
theorem nfa_words_exact (N : NFA σ τ) (hv : N.valid = true) (s : Sched) (n : Nat) :
    ∃ L, N.wordsUpTo s n = .ok L ∧ ∀ w, w ∈ L ↔ w.length ≤ n ∧ (∀ a, a ∈ w → a ∈ N.Sigma) ∧ N.Accepts w :=
  NFA.wordsUpTo_spec hv s n

example : C01.exNFA.valid = true ∧
    C01.exNFA.wordsUpTo [3, 1, 2, 5] 1 = .ok [[], ["x"], ["x"], ["x"], ["y"], ["y"], ["y"]] :=
  ⟨by decide, rfl⟩

example : C01.exNFA.Accepts ["y", "x"] := by
  obtain ⟨L, hL, hm⟩ := nfa_words_exact C01.exNFA (by decide) [] 2
  have h : C01.exNFA.wordsUpTo [] 2 = .ok [[], ["x"], ["x"], ["x"], ["y"], ["y"], ["y"],
      ["x", "x"], ["x", "x"], ["x", "x"], ["x", "y"], ["x", "y"], ["x", "y"],
      ["y", "y"], ["y", "y"], ["y", "y"], ["y", "x"], ["y", "x"], ["y", "x"]] := rfl
  rw [h] at hL
  cases hL
  exact ((hm ["y", "x"]).mp (by decide)).2.2

#print axioms dfa_words_exact
#print axioms nfa_words_exact

end Gamba
