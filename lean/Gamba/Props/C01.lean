/-
  Gamba.Props.C01 — DFA/NFA acceptance and ε-closure agree with the textbook semantics
  (`Gamba.Spec.Automata`).
-/
import Gamba.Proofs.C01
namespace Gamba
variable {σ τ : Type} [DecidableEq σ] [DecidableEq τ]

/-- DFA acceptance: for a valid DFA and a word over its alphabet the test returns (no KeyError) exactly the spec verdict. -/
theorem dfa_accepts_iff (D : DFA σ τ) (hv : D.valid = true) (w : List τ) (hw : ∀ a, a ∈ w → a ∈ D.Sigma) :
    ∃ b, D.accepts w = .ok b ∧ (b = true ↔ D.Accepts w) := by
  obtain ⟨r, hr⟩ := DFA.c01_run_total hv w hw D.q0 (DFA.c01_valid_q0 hv)
  refine ⟨decide (r ∈ D.F), ?_, ?_⟩
  · simp only [DFA.accepts, hr]; rfl
  · rw [decide_eq_true_eq]
    constructor
    · intro hf; exact ⟨r, hf, (D.c01_run_ok_iff _ _ _).mp hr⟩
    · rintro ⟨f, hf, hrun⟩
      have := (D.c01_run_ok_iff _ _ _).mpr hrun
      rw [hr] at this
      cases this
      exact hf

example : C01.exDFA.valid = true ∧ (∀ a, a ∈ ["a", "b", "a", "a"] → a ∈ C01.exDFA.Sigma) ∧
    C01.exDFA.accepts ["a", "b", "a", "a"] = .ok true ∧ C01.exDFA.accepts ["a", "b", "a"] = .ok false :=
  ⟨by decide, by decide, rfl, rfl⟩

example : C01.exDFA.Accepts ["a", "b", "a", "a"] := by
  obtain ⟨b, hb, hiff⟩ := dfa_accepts_iff C01.exDFA (by decide) ["a", "b", "a", "a"] (by decide)
  have h : C01.exDFA.accepts ["a", "b", "a", "a"] = .ok true := rfl
  rw [h] at hb
  cases hb
  exact hiff.mp rfl

/-- partial correctness of the ε-closure worklist, for every fuel and every pop order -/
theorem epsClosure_exact (N : NFA σ τ) (fuel : Nat) (s : Sched) (S R : List σ)
    (h : N.epsClosure fuel s S = .ok R) : ∀ q, q ∈ R ↔ N.EpsReach S q :=
  N.epsClosure_sound_complete fuel s S R h

example : C01.exNFA.epsClosure 3 [0, 1, 0] ["B"] = .ok ["B", "C", "A"] := rfl

/-- termination: with the fuel used by `NFA.closure` the loop never runs out, for every pop order -/
theorem closure_terminates (N : NFA σ τ) (hv : N.valid = true) (s : Sched) (S : List σ)
    (_hS : ∀ q, q ∈ S → q ∈ N.Q) : ∃ R, N.closure s S = .ok R :=
  N.closure_ok hv s S

example : C01.exNFA.valid = true ∧ (∀ q, q ∈ ["B"] → q ∈ C01.exNFA.Q) := ⟨by decide, by decide⟩

/-- (extra) total correctness of the ε-closure worklist with NO hypothesis on `N` (not even validity): for every pop
    order, any fuel ≥ `S.length + N.epsWork` (`epsWork` = total length of the ε-successor lists of the states
    occurring as keys of δ) suffices, and the result is exactly ε-reachability. -/
theorem epsClosure_total_of_fuel (N : NFA σ τ) (s : Sched) (S : List σ) (fuel : Nat)
    (hf : S.length + N.epsWork ≤ fuel) :
    ∃ R, N.epsClosure fuel s S = .ok R ∧ ∀ q, q ∈ R ↔ N.EpsReach S q := by
  obtain ⟨R, hR⟩ := N.epsClosure_ok_of_fuel s S fuel hf
  exact ⟨R, hR, epsClosure_exact N fuel s S R hR⟩

example : ["B"].length + C01.exNFA.epsWork ≤ 4 := by decide

/-- hence: `NFA.closure` is exactly ε-reachability, independent of the scheduler -/
theorem closure_exact (N : NFA σ τ) (hv : N.valid = true) (s : Sched) (S : List σ)
    (_hS : ∀ q, q ∈ S → q ∈ N.Q) : ∃ R, N.closure s S = .ok R ∧ ∀ q, q ∈ R ↔ N.EpsReach S q :=
  N.closure_spec hv s S

example : C01.exNFA.closure [5, 3, 1] ["B"] = .ok ["B", "C", "A"] := rfl

/-- the cache entry Eqa[(q,a)] is the ε-closure of δ(q,a) (∅ for absent keys) -/
theorem eqa_exact (N : NFA σ τ) (hv : N.valid = true) (s : Sched) (q : σ) (a : τ) (_hq : q ∈ N.Q) :
    ∃ R, N.eqa s q a = .ok R ∧ ∀ r, r ∈ R ↔ ∃ q', N.Succ q a q' ∧ N.EpsReach [q'] r :=
  N.eqa_spec hv s q a

example : "A" ∈ C01.exNFA.Q ∧ C01.exNFA.eqa [] "A" "x" = .ok ["A", "B", "C"] ∧
    C01.exNFA.eqa [] "B" "x" = .ok [] := ⟨by decide, rfl, rfl⟩

/-- NFA acceptance: for a valid NFA (ε-cycles, partial δ, F = ∅, unreachable states all allowed), every word over the
    alphabet and every pop order, the test returns exactly the spec verdict. -/
theorem nfa_accepts_iff (N : NFA σ τ) (hv : N.valid = true) (s : Sched) (w : List τ)
    (hw : ∀ a, a ∈ w → a ∈ N.Sigma) : ∃ b, N.accepts s w = .ok b ∧ (b = true ↔ N.Accepts w) :=
  N.accepts_spec hv s w hw

example : (∀ a, a ∈ ["x", "x", "y"] → a ∈ C01.exNFA.Sigma) ∧
    C01.exNFA.accepts [2, 0, 1] ["x", "x", "y"] = .ok true := ⟨by decide, rfl⟩

example : C01.exNFA.Accepts ["x", "x", "y"] := by
  obtain ⟨b, hb, hiff⟩ := nfa_accepts_iff C01.exNFA (by decide) [] ["x", "x", "y"] (by decide)
  have h : C01.exNFA.accepts [] ["x", "x", "y"] = .ok true := rfl
  rw [h] at hb
  cases hb
  exact hiff.mp rfl

/-- corollary: the verdict does not depend on the scheduler -/
theorem nfa_accepts_sched_indep (N : NFA σ τ) (hv : N.valid = true) (s s' : Sched) (w : List τ)
    (hw : ∀ a, a ∈ w → a ∈ N.Sigma) : N.accepts s w = N.accepts s' w := by
  obtain ⟨b, hb, hiff⟩ := nfa_accepts_iff N hv s w hw
  obtain ⟨b', hb', hiff'⟩ := nfa_accepts_iff N hv s' w hw
  have : b = b' := by
    cases b <;> cases b' <;> simp_all
  rw [hb, hb', this]

example : C01.exNFA.accepts [2, 0, 1] ["x", "y"] = C01.exNFA.accepts [7, 7, 7, 7] ["x", "y"] :=
  nfa_accepts_sched_indep C01.exNFA (by decide) _ _ _ (by decide)

#print axioms dfa_accepts_iff
#print axioms epsClosure_exact
#print axioms closure_terminates
#print axioms epsClosure_total_of_fuel
#print axioms closure_exact
#print axioms eqa_exact
#print axioms nfa_accepts_iff
#print axioms nfa_accepts_sched_indep

end Gamba
