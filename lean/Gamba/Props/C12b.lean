/-
  Gamba.Props.C12b — soundness of the exercise checkers with a structured answer
  (`Gamba.Check.nfaToDfaCheck`, `cykCheck`, `hasDerivation`, `derivationCheck`, `chomskyCheck`):
  the verdict `true` ("OK") is only given when the exercise criterion holds.

  NOTES.
  * `chk_nfaToDfa_sound`: the hypothesis `hv : N.valid = true` is kept as requested but is not needed
    (the ε-closures are partial-correct for every fuel, and the check returned `.ok`, so they succeeded).
  * `chk_cyk_sound`: rows are numbered from the bottom (`rows` = the reversed list of lines); cell `j` of row `i`
    is compared with `cykGet Y j (i + j)`, i.e. the subword of length `i + 1` starting at position `j`,
    which is what the requested statement says: no change was necessary.
-/
import Gamba.Model.Check
import Gamba.Spec.Automata
import Gamba.Spec.CFG
import Gamba.Spec.Trace
import Gamba.Props.C01
import Gamba.Props.C07
import Gamba.Props.C14c
import Gamba.Proofs.C12b
namespace Gamba

/-! ### one derivation step -/

/-- one checked step is a genuine derivation step of the required kind -/
theorem chk_hasDerivation_sound (G : CFG) (e1 e2 : List Sym) (kind : Nat)
    (h : Check.hasDerivation G e1 e2 kind = true) :
    (kind = 1 → G.LStep e1 e2) ∧ (kind = 2 → G.RStep e1 e2) ∧ G.Step e1 e2 :=
  C12b.hasDerivation_sound G e1 e2 kind h

-- S → AB | a, A → a, B → b
example : Check.hasDerivation C07.exG [.v "S"] [.v "A", .v "B"] 1 = true := by decide
example : Check.hasDerivation C07.exG [.v "A", .v "B"] [.t "a", .v "B"] 1 = true := by decide
-- rewriting `B` in `AB` is a rightmost step and a step, but not a leftmost one
example : Check.hasDerivation C07.exG [.v "A", .v "B"] [.v "A", .t "b"] 2 = true := by decide
example : Check.hasDerivation C07.exG [.v "A", .v "B"] [.v "A", .t "b"] 0 = true := by decide
example : Check.hasDerivation C07.exG [.v "A", .v "B"] [.v "A", .t "b"] 1 = false := by decide
-- not a rule of the grammar
example : Check.hasDerivation C07.exG [.v "A", .v "B"] [.t "b", .v "B"] 0 = false := by decide

example : C07.exG.RStep [.v "A", .v "B"] [.v "A", .t "b"] :=
  (chk_hasDerivation_sound C07.exG _ _ 2 (by decide)).2.1 rfl

/-! ### derivation exercise -/

/-- derivation exercise: OK ⇒ the submitted text is a derivation of the word: starts with S, every step is a
    (leftmost / rightmost / arbitrary) step of G, ends with the word; hence the word is in L(G) -/
theorem chk_derivation_sound (G : CFG) (derivation : String) (word : List String) (kind : Nat)
    (h : Check.derivationCheck G derivation word kind = true) :
    let forms := ((Text.splitArrow (Text.strip derivation.toList)).map Text.strip).map (fun w => w.map Check.parseChar)
    forms.head? = some [.v G.S] ∧ forms.getLast? = some (word.map Sym.t) ∧
    ChainOf (fun a b => (kind = 1 → G.LStep a b) ∧ (kind = 2 → G.RStep a b) ∧ G.Step a b) forms ∧
    G.Lang word :=
  C12b.derivationCheck_sound G derivation word kind h

example : Check.derivationCheck C07.exG "S => AB => aB => ab" ["a", "b"] 1 = true := by decide
example : Check.derivationCheck C07.exG "  S => AB =>aB=> ab\n" ["a", "b"] 0 = true := by decide
example : Check.derivationCheck C07.exG "S => AB => Ab => ab" ["a", "b"] 2 = true := by decide
-- a leftmost derivation is not accepted as a rightmost one
example : Check.derivationCheck C07.exG "S => AB => aB => ab" ["a", "b"] 2 = false := by decide
-- a step is skipped / the wrong word is derived / the derivation does not start with S
example : Check.derivationCheck C07.exG "S => AB => ab" ["a", "b"] 0 = false := by decide
example : Check.derivationCheck C07.exG "S => a" ["a", "b"] 0 = false := by decide
example : Check.derivationCheck C07.exG "AB => aB => ab" ["a", "b"] 0 = false := by decide

example : C07.exG.Lang ["a", "b"] :=
  (chk_derivation_sound C07.exG "S => AB => aB => ab" ["a", "b"] 1 (by decide)).2.2.2

/-! ### Chomsky-phase exercise -/

/-- Chomsky-phase exercise: OK ⇒ bounded language agreement with the input grammar and the postconditions of
    phases 1..phase -/
theorem chk_chomsky_sound (G G1 : CFG) (phase : Nat) (start : String) (len : Nat)
    (h : Check.chomskyCheck G G1 phase start len = true) :
    (∀ w, w ∈ G1.wordsUpTo len ↔ w ∈ G.wordsUpTo len) ∧
    (1 ≤ phase → G1.S = start) ∧ (2 ≤ phase → CFG.NoEpsExceptStart G1) ∧ (3 ≤ phase → CFG.NoUnit G1) ∧
    (4 ≤ phase → CFG.RhsLe2 G1) ∧ (5 ≤ phase → CFG.AllCnfShaped G1) := by
  obtain ⟨hL, hrest⟩ := C12b.chomskyCheck_sound G G1 phase start len h
  exact ⟨(compare_none_iff _ _).mp hL, hrest⟩

-- `C07.exG`: S → AB | a, A → a, B → b;  `C12b.exCnf`: S → XB | a, X → a, B → b
example : Check.chomskyCheck C07.exG C12b.exCnf 5 "S" 3 = true := by decide
-- S → a dropped: the word `a` is missing
example : Check.chomskyCheck C07.exG C12b.exCnfMissing 5 "S" 3 = false := by decide
-- wrong start variable
example : Check.chomskyCheck C07.exG C12b.exCnf 5 "T" 3 = false := by decide
-- `C12b.exG`: S → aSb | ε | T, T → c still has the unit rule S → T: not a valid answer for phase 3
example : Check.chomskyCheck C12b.exG C12b.exG 3 "S" 2 = false := by
  simp [Check.chomskyCheck, C12b.exG, CFG.isUnit]

example : CFG.AllCnfShaped C12b.exCnf :=
  (chk_chomsky_sound C07.exG C12b.exCnf 5 "S" 3 (by decide)).2.2.2.2.2 (by decide)

/-! ### CYK exercise -/

/-- CYK exercise: OK ⇒ the table has |w| rows, row i (from the bottom) has |w|-i cells, and every cell is exactly
    the set of variables deriving the corresponding subword -/
theorem chk_cyk_sound (G : CFG) (hc : G.isChomsky = true) (hv : G.valid = true) (word : List String) (answer : String)
    (h : Check.cykCheck G word answer = .ok true) :
    let rows := ((Text.splitOn '\n' (Text.strip answer.toList)).map Check.splitWs).reverse
    rows.length = word.length ∧
    ∀ i j, i + j < word.length → ∃ row cell vs, rows[i]? = some row ∧ row.length = word.length - i ∧ row[j]? = some cell ∧
      Check.parseCell cell = some vs ∧
      ∀ A, A ∈ vs ↔ (A ∈ G.V ∧ G.Gen [.v A] ((word.drop j).take (i + 1))) :=
  C12b.cykCheck_sound G hc hv word answer h

example : C07.exG.isChomsky = true ∧ C07.exG.valid = true ∧
    Check.cykCheck C07.exG ["a", "b"] "{S}\n{A,S} {B}" = .ok true := ⟨by decide, by decide, rfl⟩
example : Check.cykCheck C07.exG ["a", "a", "b"] "{}\n{} {S}\n  {A,S}   {S,A} {B}\n" = .ok true := rfl
-- a missing row (the witness of the repaired defect: the top row, which decides membership, is absent)
example : Check.cykCheck C07.exG ["a", "b"] "{A,S} {B}" = .ok false := rfl
-- a wrong cell / a row of the wrong size / an ill-formed cell / an undeclared variable
example : Check.cykCheck C07.exG ["a", "b"] "{A}\n{A,S} {B}" = .ok false := rfl
example : Check.cykCheck C07.exG ["a", "b"] "{S} {}\n{A,S} {B}" = .ok false := rfl
example : Check.cykCheck C07.exG ["a", "b"] "{S}\n{A,S {B}" = .ok false := rfl
example : Check.cykCheck C07.exG ["a", "b"] "{S}\n{A,S} {B,C}" = .ok false := rfl

/-! ### NFA → DFA exercise -/

/-- NFA→DFA exercise: OK ⇒ the submitted automaton is, state by state, the subset construction -/
theorem chk_nfaToDfa_sound (N answer : NFA String String) (s : Sched) (hv : N.valid = true)
    (h : Check.nfaToDfaCheck N answer s = .ok true) :
    answer.Q ≠ [] ∧ (∀ a, a ∈ answer.Sigma ↔ a ∈ N.Sigma) ∧
    (∀ q, q ∈ answer.Q → ∀ x, x ∈ Check.extractSet q → x ∈ N.Q) ∧
    (∀ x, x ∈ Check.extractSet answer.q0 ↔ N.EpsReach [N.q0] x) ∧
    (∀ q, q ∈ answer.Q → (q ∈ answer.F ↔ ∃ x, x ∈ Check.extractSet q ∧ x ∈ N.F)) ∧
    (∀ q a, q ∈ answer.Q → a ∈ answer.Sigma → ∃ q1, (∀ t, t ∈ answer.succ q a ↔ t = q1) ∧
        ∀ x, x ∈ Check.extractSet q1 ↔ ∃ p y, p ∈ Check.extractSet q ∧ N.Succ p a y ∧ N.EpsReach [y] x) ∧
    (∀ e, e ∈ answer.delta → e.1.2 = answer.eps → e.2 = []) := by
  have _ := hv
  exact C12b.nfaToDfaCheck_sound N answer s h

-- `C12b.exN`: A --x--> B, A --ε--> B, F = {B};  answer: {A,B} --x--> {B} --x--> {} --x--> {}, F = {{A,B}, {B}}
example : C12b.exN.valid = true ∧ Check.nfaToDfaCheck C12b.exN C12b.exAnswer [3, 1, 2] = .ok true :=
  ⟨by decide, rfl⟩
-- an extra ε-edge in the answer (the witness of the repaired defect)
example : Check.nfaToDfaCheck C12b.exN C12b.exAnswerEps [] = .ok false := rfl
-- a wrong target
example : Check.nfaToDfaCheck C12b.exN C12b.exAnswerWrong [] = .ok false := rfl

#print axioms chk_hasDerivation_sound
#print axioms chk_derivation_sound
#print axioms chk_chomsky_sound
#print axioms chk_cyk_sound
#print axioms chk_nfaToDfa_sound

end Gamba
