/-
  Gamba.Props.C13g — C13 for the Chomsky-normal-form exercises ON TEXT: the answer key that the library prints
  (`cfg_print_simple (cfg_apply_chomsky G phase start)`) passes the library's own text-level checker
  `cfg_check_chomsky(cfg, key, phase, start, length)` (`CheckText.chomsky`), for every phase and every length bound.

  Route: `parse_print_cfg` (C16e) re-parses the key to a grammar with the same start variable and the same SET of
  productions as `G1 = G.applyChomsky phase start` (other rule order, renumbered alternatives, `V`/`Σ` rebuilt);
  the checker looks at the answer only through the start variable, the set of productions (structural tests) and
  the language (`cfg_words_exact`), so the verdict is that of `own_chomsky_ok` (C13a).
  Validity, `S ∈ V` and `AliasOK` of `G` come from the parser (C12c).
-/
import Gamba.Proofs.C13g
namespace Gamba

/-- Text-level C13 for the Chomsky exercises, hypotheses reduced to the minimum: the grammar text parses, the new start
    variable is not a variable of `G`, and the answer key is `Printable` (C16e: single upper-case variables, single
    lower-case terminals, every variable has a rule, the start variable heads the first rule, every terminal occurs).
    The name conditions `hd`, `hd0`, `hd1` of `own_chomsky_ok` FOLLOW from `Printable` (terminals are lower-case
    letters, variables and the names `fresh_variable` can return are not), for phase 0 the start variable is not even
    looked at. -/
theorem own_chomsky_text_ok_printable (cfg : String) (G : CFG) (e : String)
    (hp : CfgText.parseSimpleCfg cfg.toList = .ok (G, e))
    (phase : Nat) (start : String) (len : Nat) (hstart : start ∉ G.V)
    (hpr : CfgText.Printable (G.applyChomsky phase start))
    (key : String) (hk : CfgText.printSimpleCfg (G.applyChomsky phase start) = .ok key) :
    CheckText.chomsky cfg key phase start len = .ok :=
  C13g.chomsky_text_self' hp phase start len hstart hpr hk

/-- the statement as requested, with the hypotheses of `own_chomsky_ok` (`hd`, `hd0`, `hd1` are not used: see
    `own_chomsky_text_ok_printable`) -/
theorem own_chomsky_text_ok (cfg : String) (G : CFG) (e : String) (hp : CfgText.parseSimpleCfg cfg.toList = .ok (G, e))
    (phase : Nat) (start : String) (len : Nat) (hstart : start ∉ G.V)
    (hd : ∀ a, a ∈ G.Sigma → a ∉ G.V ∧ a ≠ CFG.freshVariable G.V start)
    (hd0 : ∀ a, a ∈ G.Sigma → a ≠ CFG.freshVariable G.V "S")
    (hd1 : phase ≤ 4 → ∀ a, a ∈ G.Sigma →
      a ∉ (G.applyChomsky phase start).V ∧ a ≠ CFG.freshVariable (G.applyChomsky phase start).V "S")
    (hpr : CfgText.Printable (G.applyChomsky phase start))
    (key : String) (hk : CfgText.printSimpleCfg (G.applyChomsky phase start) = .ok key) :
    CheckText.chomsky cfg key phase start len = .ok := by
  have _ := hd; have _ := hd0; have _ := hd1
  exact own_chomsky_text_ok_printable cfg G e hp phase start len hstart hpr key hk

/-! ### non-vacuity: `S -> aSb | ε`, new start variable `T` -/

/-- the text parses to the example grammar `C13a.exS` of the object-level theorem -/
theorem C13g.exS_parse : CfgText.parseSimpleCfg "S -> aSb | ε".toList = .ok (C13a.exS, "ε") := by rfl

/-- the answer keys of phases 2 and 5 are printable … -/
theorem C13g.exS_printable2 : CfgText.Printable (C13a.exS.applyChomsky 2 "T") :=
  C13g.printable_of_printableB (by decide)
theorem C13g.exS_printable5 : CfgText.Printable (C13a.exS.applyChomsky 5 "T") :=
  C13g.printable_of_printableB (by decide +kernel)

/-- … these are their texts … -/
theorem C13g.exS_key2 : CfgText.printSimpleCfg (C13a.exS.applyChomsky 2 "T") = .ok "T -> S | ε\nS -> aSb | ab" := by
  rfl
theorem C13g.exS_key5 : CfgText.printSimpleCfg (C13a.exS.applyChomsky 5 "T") =
    .ok "T -> ε | BA | BC\nS -> BA | BC\nA -> SC\nB -> a\nC -> b" :=
  C13g.print_eq_of_toOption (by decide +kernel)

/-- … all hypotheses of `own_chomsky_text_ok` hold, and the verdict is `OK` for every length bound -/
example (len : Nat) :
    CfgText.parseSimpleCfg "S -> aSb | ε".toList = .ok (C13a.exS, "ε") ∧ "T" ∉ C13a.exS.V ∧
    (∀ a, a ∈ C13a.exS.Sigma → a ∉ C13a.exS.V ∧ a ≠ CFG.freshVariable C13a.exS.V "T") ∧
    (∀ a, a ∈ C13a.exS.Sigma → a ≠ CFG.freshVariable C13a.exS.V "S") ∧
    (5 ≤ 4 → ∀ a, a ∈ C13a.exS.Sigma → a ∉ (C13a.exS.applyChomsky 5 "T").V ∧
      a ≠ CFG.freshVariable (C13a.exS.applyChomsky 5 "T").V "S") ∧
    CfgText.Printable (C13a.exS.applyChomsky 5 "T") ∧
    CfgText.printSimpleCfg (C13a.exS.applyChomsky 5 "T") =
      .ok "T -> ε | BA | BC\nS -> BA | BC\nA -> SC\nB -> a\nC -> b" ∧
    CheckText.chomsky "S -> aSb | ε" "T -> ε | BA | BC\nS -> BA | BC\nA -> SC\nB -> a\nC -> b" 5 "T" len = .ok :=
  ⟨C13g.exS_parse, by decide, C13a.exS_hd, C13a.exS_hd0, C13a.exS_hd1 5, C13g.exS_printable5, C13g.exS_key5,
    own_chomsky_text_ok _ _ _ C13g.exS_parse 5 "T" len (by decide) C13a.exS_hd C13a.exS_hd0 (C13a.exS_hd1 5)
      C13g.exS_printable5 _ C13g.exS_key5⟩

example (len : Nat) : CheckText.chomsky "S -> aSb | ε" "T -> S | ε\nS -> aSb | ab" 2 "T" len = .ok :=
  own_chomsky_text_ok_printable _ _ _ C13g.exS_parse 2 "T" len (by decide) C13g.exS_printable2 _ C13g.exS_key2

/-- the verdicts evaluated directly (length bound 4) -/
example : CheckText.chomsky "S -> aSb | ε" "T -> S | ε\nS -> aSb | ab" 2 "T" 4 = .ok ∧
    CheckText.chomsky "S -> aSb | ε" "T -> ε | BA | BC\nS -> BA | BC\nA -> SC\nB -> a\nC -> b" 5 "T" 4 = .ok := by
  decide +kernel

/-! ### the hypotheses are needed -/

/-- `hstart`: with a start variable that `G` already has, `fresh_variable` picks another name (`A`) and the key is
    rejected by the start-variable test of the checker (verdict: feedback) -/
example : "S" ∈ C13a.exS.V ∧ CfgText.Printable (C13a.exS.applyChomsky 1 "S") ∧
    CfgText.printSimpleCfg (C13a.exS.applyChomsky 1 "S") = .ok "A -> S\nS -> aSb | ε" ∧
    CheckText.chomsky "S -> aSb | ε" "A -> S\nS -> aSb | ε" 1 "S" 3 = .feedback :=
  ⟨by decide, C13g.printable_of_printableB (by decide), by rfl, by decide +kernel⟩

/-- `S -> aA`, `A -> ε` -/
def C13g.exA : CFG :=
  { V := ["S", "A"], Sigma := ["a"], S := "S", R := [⟨"S", 0, [.t "a", .v "A"]⟩, ⟨"A", 1, []⟩] }

theorem C13g.exA_parse : CfgText.parseSimpleCfg "S -> aA\nA -> ε".toList = .ok (C13g.exA, "ε") := by rfl

/-- the text-level statement WITHOUT `Printable` (all other hypotheses of `own_chomsky_text_ok` kept) -/
def own_chomsky_text_ok_noPrintable_stmt : Prop :=
  ∀ (cfg : String) (G : CFG) (e : String), CfgText.parseSimpleCfg cfg.toList = .ok (G, e) →
    ∀ (phase : Nat) (start : String) (len : Nat), start ∉ G.V →
    (∀ a, a ∈ G.Sigma → a ∉ G.V ∧ a ≠ CFG.freshVariable G.V start) →
    (∀ a, a ∈ G.Sigma → a ≠ CFG.freshVariable G.V "S") →
    (phase ≤ 4 → ∀ a, a ∈ G.Sigma →
      a ∉ (G.applyChomsky phase start).V ∧ a ≠ CFG.freshVariable (G.applyChomsky phase start).V "S") →
    ∀ key : String, CfgText.printSimpleCfg (G.applyChomsky phase start) = .ok key →
    CheckText.chomsky cfg key phase start len = .ok

/-- … is FALSE: for `S -> aA`, `A -> ε`, phase 2 removes the only rule of `A` but keeps `S -> aA`; the key is printed
    (`T -> S`, `S -> aA | a`: the grammar is in the simple format), but the text format rebuilds `V` from the left-hand
    sides, so the re-parsed key mentions the undeclared variable `A`, the validity check of the parser fails, and
    `cfg_check_chomsky` prints `Error` for the library's own answer key — although the object-level check of C13a
    accepts it.  (Same for phases 3–5.)  So `Printable.hasRules` cannot be dropped. -/
theorem own_chomsky_text_ok_noPrintable_false : ¬ own_chomsky_text_ok_noPrintable_stmt := by
  intro h
  have := h "S -> aA\nA -> ε" C13g.exA "ε" C13g.exA_parse 2 "T" 3 (by decide) (by decide) (by decide)
    (fun _ => by decide) "T -> S\nS -> aA | a" (by rfl)
  revert this
  decide +kernel

/-- the same example, object level against text level -/
example : Check.chomskyCheck C13g.exA (C13g.exA.applyChomsky 2 "T") 2 "T" 3 = true ∧
    CfgText.printSimpleCfg (C13g.exA.applyChomsky 2 "T") = .ok "T -> S\nS -> aA | a" ∧
    CfgText.parseSimpleCfg "T -> S\nS -> aA | a".toList = .error .runtimeError ∧
    CheckText.chomsky "S -> aA\nA -> ε" "T -> S\nS -> aA | a" 2 "T" 3 = .error ∧
    CfgText.printSimpleCfg (C13g.exA.applyChomsky 5 "T") = .ok "T -> BA | a\nS -> a | BA\nB -> a" ∧
    CheckText.chomsky "S -> aA\nA -> ε" "T -> BA | a\nS -> a | BA\nB -> a" 5 "T" 3 = .error :=
  ⟨by decide +kernel, by rfl, by rfl, by decide +kernel, C13g.print_eq_of_toOption (by decide +kernel), by decide +kernel⟩

#print axioms own_chomsky_text_ok_printable
#print axioms own_chomsky_text_ok
#print axioms own_chomsky_text_ok_noPrintable_false

end Gamba
