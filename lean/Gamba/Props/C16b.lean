/-
  Gamba.Props.C16b — the text format, continued: the parsers build exactly what was written (C17, DFA and NFA),
  and `parse_nfa (print_nfa N)` gives `N` back (C16, NFA).
-/
import Gamba.Proofs.C16b
namespace Gamba
open Parse

/-! ### C17 — the parser builds exactly what was written -/

/-- C17: the parser builds exactly what was written — the returned DFA is a function of the parsed lines in the
    documented way -/
theorem parseDfa_builds (text : List Char) (D : DFA String String) (h : Parse.parseDfa text = .ok D) :
    ∃ A0, Parse.parseRaw .dfa Parse.isWord text = .ok A0 ∧
      D.Q = (if A0.states.isEmpty then Parse.usedStates A0 else A0.states) ∧
      A0.initial = [D.q0] ∧ D.F = A0.final ∧
      (∀ p a q, D.delta.lookup (p, a) = some q ↔ (p, a.toList, q) ∈ A0.transitions) ∧
      (∀ a, a ∈ D.Sigma ↔ (match A0.items.lookup "input_symbols" with
                           | some declared => a ∈ declared
                           | none => ∃ p q, (p, a.toList, q) ∈ A0.transitions)) := by
  obtain ⟨A0, A, Sigma, h0, h1, h2, h3, _, _, hc⟩ := Parse.parseDfa_ok_unpack h
  obtain ⟨rfl, _⟩ := DFA.checked_ok hc
  obtain ⟨hst, htr, hin, hfi, hit, hq0⟩ := Parse.commonChecks_nil_ok h1
  refine ⟨A0, h0, hst, hq0, hfi, ?_, ?_⟩
  · intro p a q
    have hnd : ((A.transitions.map fun t => ((t.1, Text.str t.2.1), t.2.2)).map (·.1)).Nodup := by
      rw [List.map_map]
      exact Parse.hasDupPairs_eq_false_iff.mp h2
    show List.lookup (p, a) (A.transitions.map fun t => ((t.1, Text.str t.2.1), t.2.2)) = some q ↔ _
    rw [C16b.lookup_eq_some_iff_mem hnd, ← htr, List.mem_map]
    constructor
    · rintro ⟨⟨p', l, q'⟩, ht, he⟩
      simp only [Prod.mk.injEq] at he
      obtain ⟨⟨rfl, rfl⟩, rfl⟩ := he
      simpa using ht
    · intro ht
      exact ⟨_, ht, by simp⟩
  · intro a
    have := Parse.getSymbolSet_mem h3 a
    rw [hit] at this
    show a ∈ Sigma ↔ _
    rw [this]
    cases A0.items.lookup "input_symbols" with
    | some declared => exact Iff.rfl
    | none =>
      simp only [mem_dedup, List.mem_map, htr]
      constructor
      · rintro ⟨⟨p, l, q⟩, ht, rfl⟩
        exact ⟨p, q, by simpa using ht⟩
      · rintro ⟨p, q, ht⟩
        exact ⟨_, ht, by simp⟩

/-- non-vacuity: an accepted text without `states` / `input_symbols` declarations … -/
example : Parse.parseDfa "initial p\nfinal q\np q a b\nq q a\nq p b".toList =
    .ok { Q := ["q", "p"], Sigma := ["a", "b"], q0 := "p", F := ["q"],
          delta := [(("p", "a"), "q"), (("p", "b"), "q"), (("q", "a"), "q"), (("q", "b"), "p")] } := by rfl
/-- … and one with both -/
example : Parse.parseDfa "states q p r\ninput_symbols b a\ninitial p\nfinal q\np q a b\nq q a\nq p b\nr r a b".toList =
    .ok { Q := ["q", "p", "r"], Sigma := ["b", "a"], q0 := "p", F := ["q"],
          delta := [(("p", "a"), "q"), (("p", "b"), "q"), (("q", "a"), "q"), (("q", "b"), "p"),
                    (("r", "a"), "r"), (("r", "b"), "r")] } := by rfl

theorem parseNfa_builds (text : List Char) (N : NFA String String) (h : Parse.parseNfa text = .ok N) :
    ∃ A0, Parse.parseRaw .nfa Parse.isWord text = .ok A0 ∧
      N.Q = (if A0.states.isEmpty then Parse.usedStates A0 else A0.states) ∧
      A0.initial = [N.q0] ∧ N.F = A0.final ∧
      (∀ p a q, q ∈ N.succ p a ↔ (p, a.toList, q) ∈ A0.transitions) ∧
      (match A0.items.lookup "epsilon" with
       | some [v] => N.eps = v
       | some _ => False
       | none => N.eps = (if A0.transitions.any (fun t => t.2.1.contains 'ε') then "ε" else "_")) ∧
      (∀ a, a ∈ N.Sigma ↔ (match A0.items.lookup "input_symbols" with
                           | some declared => a ∈ declared
                           | none => a ≠ N.eps ∧ ∃ p q, (p, a.toList, q) ∈ A0.transitions)) := by
  obtain ⟨A0, A, eps, Sigma, h0, h1, h2, h3, _, hc⟩ := Parse.parseNfa_ok_unpack h
  obtain ⟨rfl, _⟩ := NFA.checked_ok hc
  obtain ⟨hst, htr, hin, hfi, hit, hq0⟩ := Parse.commonChecks_nil_ok h1
  refine ⟨A0, h0, hst, hq0, hfi, ?_, ?_, ?_⟩
  · intro p a q
    show q ∈ ((Parse.groupNfa (A.transitions.map fun t => (t.1, Text.str t.2.1, t.2.2))).lookup (p, a)).getD [] ↔ _
    rw [Parse.mem_groupNfa_lookup, ← htr, List.mem_map]
    constructor
    · rintro ⟨⟨p', l, q'⟩, ht, he⟩
      simp only [Prod.mk.injEq] at he
      obtain ⟨rfl, rfl, rfl⟩ := he
      simpa using ht
    · intro ht
      exact ⟨_, ht, by simp⟩
  · have := Parse.parseSymbol_ok h2
    rw [hit, htr] at this
    exact this
  · intro a
    have := Parse.getSymbolSet_mem h3 a
    rw [hit] at this
    show a ∈ Sigma ↔ _
    rw [this]
    cases A0.items.lookup "input_symbols" with
    | some declared => exact Iff.rfl
    | none =>
      show _ ↔ a ≠ eps ∧ _
      simp only [mem_dedup, List.mem_filter, List.mem_map, htr, decide_eq_true_eq]
      constructor
      · rintro ⟨⟨⟨p, l, q⟩, ht, rfl⟩, hne⟩
        exact ⟨hne, p, q, by simpa using ht⟩
      · rintro ⟨hne, p, q, ht⟩
        exact ⟨⟨_, ht, by simp⟩, hne⟩

/-- non-vacuity: ε inferred from a label, Σ inferred from the labels -/
example : Parse.parseNfa "initial p\nfinal q\np q a ε\nq q a".toList =
    .ok { Q := ["p", "q"], Sigma := ["a"], q0 := "p", F := ["q"], eps := "ε",
          delta := [(("p", "a"), ["q"]), (("p", "ε"), ["q"]), (("q", "a"), ["q"])] } := by rfl
/-- … and everything declared -/
example : Parse.parseNfa "states p q\nepsilon e\ninput_symbols a b\ninitial p\nfinal q\np q a e\np p a".toList =
    .ok { Q := ["p", "q"], Sigma := ["a", "b"], q0 := "p", F := ["q"], eps := "e",
          delta := [(("p", "a"), ["q", "p"]), (("p", "e"), ["q"])] } := by rfl

/-! ### C16 — the NFA round trip -/

/-- `parse_nfa (print_nfa N)` succeeds and gives `N` back — same states, alphabet, initial and final states (as sets),
    the same ε and the same successor sets (a `δ` entry with an empty target set prints no line and comes back as a
    missing entry, which `succ` reads as ∅) — for every valid NFA whose `δ` has no repeated key, whose state names are
    words other than the five keywords of the format, and whose symbols and ε are words.
    (`Parse.NfaNameOk` is defined in Proofs/C16b.lean.) -/
theorem parse_print_nfa (N : NFA String String) (hv : N.valid = true) (hk : (N.delta.map (·.1)).Nodup)
    (hQ : ∀ q, q ∈ N.Q → Parse.NfaNameOk q) (hS : ∀ a, a ∈ N.Sigma → Parse.isWord a.toList = true)
    (he : Parse.isWord N.eps.toList = true) :
    ∃ N', Parse.parseNfa (Parse.printNfa N).toList = .ok N' ∧
      (∀ q, q ∈ N'.Q ↔ q ∈ N.Q) ∧ (∀ a, a ∈ N'.Sigma ↔ a ∈ N.Sigma) ∧ N'.q0 = N.q0 ∧ (∀ q, q ∈ N'.F ↔ q ∈ N.F) ∧
      N'.eps = N.eps ∧ ∀ q a x, x ∈ N'.succ q a ↔ x ∈ N.succ q a := by
  obtain ⟨N', hp, _, hQ', hS', hq', hF', he', hd'⟩ := Parse.parse_print_nfa_explicit N hv hQ hS he
  refine ⟨N', hp, ?_, ?_, hq', ?_, he', ?_⟩
  · intro q; rw [hQ']; exact mem_sortStrings_dedup
  · intro a; rw [hS', mem_dedup]; exact mem_sortStrings_dedup
  · intro q; rw [hF']; exact mem_sortStrings_dedup
  · intro q a x
    have := Parse.nfaRaw_succ N hk q a x
    rw [← hd'] at this
    exact this

/-- step (1) alone: the line parser reads back exactly the declarations and the transition entries that were printed
    (no hypothesis on repeated keys is needed here) -/
theorem parse_print_nfa_raw (N : NFA String String) (hv : N.valid = true)
    (hQ : ∀ q, q ∈ N.Q → Parse.NfaNameOk q) (hS : ∀ a, a ∈ N.Sigma → Parse.isWord a.toList = true)
    (he : Parse.isWord N.eps.toList = true) :
    ∃ A, Parse.parseRaw .nfa Parse.isWord (Parse.printNfa N).toList = .ok A ∧
      A.states = sortStrings (dedup N.Q) ∧ A.final = sortStrings (dedup N.F) ∧ A.initial = [N.q0] ∧
      A.items.lookup "input_symbols" = some (sortStrings (dedup N.Sigma)) ∧
      A.items.lookup "epsilon" = some [N.eps] ∧
      ∀ p a x, (p, a, x) ∈ A.transitions ↔
        (∃ T, ((p, Text.str a), T) ∈ N.delta ∧ x ∈ T) ∧ a = (Text.str a).toList :=
  ⟨_, Parse.parse_print_nfa_raw N hv hQ hS he, rfl, rfl, rfl, rfl, rfl, by
    intro p a x
    show (p, a, x) ∈ Parse.transOf (Parse.nfaTrans N) ↔ _
    rw [Parse.mem_transOf]
    constructor
    · rintro ⟨t, ht, he⟩
      obtain ⟨T, hm, hx⟩ := Parse.mem_nfaTrans.mp ht
      simp only [Prod.mk.injEq] at he
      obtain ⟨rfl, rfl, rfl⟩ := he
      exact ⟨⟨T, by simpa using hm, hx⟩, by simp⟩
    · rintro ⟨⟨T, hm, hx⟩, ha⟩
      exact ⟨(p, x, Text.str a), Parse.mem_nfaTrans.mpr ⟨T, hm, hx⟩, by simp⟩⟩

/-- a 3-state NFA with ε = "_", no accepting state, unsorted declarations, two labels (`b` and ε) on the edge
    `p → q`, two targets for `(q, a)`, and an isolated state `r` whose only `δ` entry has an empty target set -/
def C16.exN : NFA String String :=
  { Q := ["q", "p", "r"], Sigma := ["b", "a"], q0 := "p", F := [], eps := "_",
    delta := [(("p", "b"), ["q"]), (("p", "_"), ["q"]), (("q", "a"), ["q", "p"]), (("r", "a"), [])] }

/-- the hypotheses of `parse_print_nfa` hold for it -/
example : C16.exN.valid = true ∧ (C16.exN.delta.map (·.1)).Nodup ∧ (∀ q, q ∈ C16.exN.Q → Parse.NfaNameOk q) ∧
    (∀ a, a ∈ C16.exN.Sigma → Parse.isWord a.toList = true) ∧ Parse.isWord C16.exN.eps.toList = true := by
  refine ⟨by decide, by decide, ?_, by decide, by decide⟩
  unfold Parse.NfaNameOk
  decide

theorem C16.exN_print :
    Parse.printNfa C16.exN =
      "states p q r\nfinal \ninitial p\ninput_symbols a b\nepsilon _\np q b _\nq p a\nq q a\n" := by
  have s1 : sortStrings (dedup C16.exN.Q) = ["p", "q", "r"] := by
    have : dedup C16.exN.Q = ["q", "p", "r"] := by rfl
    rw [this]; simp [sortStrings, List.mergeSort, List.MergeSort.Internal.splitInTwo]
  have s2 : sortStrings (dedup C16.exN.F) = [] := by
    have : dedup C16.exN.F = [] := by rfl
    rw [this]; simp [sortStrings]
  have s3 : sortStrings (dedup C16.exN.Sigma) = ["a", "b"] := by
    have : dedup C16.exN.Sigma = ["b", "a"] := by rfl
    rw [this]; simp [sortStrings, List.mergeSort, List.MergeSort.Internal.splitInTwo]
  have s4 : sortStrings (dedup ((C16.exN.delta.flatMap fun e => e.2.map fun q => (e.1.1, q, e.1.2)).map
      fun t => t.1 ++ " " ++ t.2.1)) = ["p q", "q p", "q q"] := by
    have : dedup ((C16.exN.delta.flatMap fun e => e.2.map fun q => (e.1.1, q, e.1.2)).map
        fun t => t.1 ++ " " ++ t.2.1) = ["p q", "q q", "q p"] := by rfl
    rw [this]; simp [sortStrings, List.mergeSort, List.MergeSort.Internal.splitInTwo]
  unfold Parse.printNfa Parse.transLines
  simp only [s1, s2, s3, s4]
  rfl

/-- … and the round trip evaluated: the sets come back sorted, the entry with the empty target set is gone, the
    targets of `(q, a)` come back in printing order -/
example : Parse.parseNfa (Parse.printNfa C16.exN).toList =
    .ok { C16.exN with Q := ["p", "q", "r"], Sigma := ["a", "b"],
                       delta := [(("p", "b"), ["q"]), (("p", "_"), ["q"]), (("q", "a"), ["p", "q"])] } := by
  rw [C16.exN_print]; rfl

/-- the name condition is needed: a state called `epsilon` prints its transitions as a second `epsilon` declaration -/
example : Parse.parseNfa "states epsilon p\nfinal \ninitial p\ninput_symbols a\nepsilon _\nepsilon p a\np epsilon a\n".toList =
    .error .runtimeError := rfl

/-- the condition on repeated keys is needed: a `δ` listing the key `(p, a)` twice — `succ` only reads the first entry —
    prints both targets, and both come back -/
example : Parse.parseNfa "states p q\nfinal \ninitial p\ninput_symbols a\nepsilon _\np p a\np q a\n".toList =
    .ok { Q := ["p", "q"], Sigma := ["a"], q0 := "p", F := [], eps := "_", delta := [(("p", "a"), ["p", "q"])] } := rfl

#print axioms parseDfa_builds
#print axioms parseNfa_builds
#print axioms parse_print_nfa
#print axioms parse_print_nfa_raw

end Gamba
