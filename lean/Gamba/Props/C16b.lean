/-
  Gamba.Props.C16b — the text format, continued: the parsers build exactly what was written (C17, DFA and NFA),
  and `parse_nfa (print_nfa N)` gives `N` back (C16, NFA).
-/
import Gamba.Proofs.C16b
namespace Gamba
open Parse

/-! ### C17 — the parser builds exactly what was written -/

/-- C17: the parser builds exactly what was written — the returned DFA is a function of the parsed lines in the
    documented way -/
theorem parseDfa_builds (text : List Char) (D : DFA String String) (h : Parse.parseDfa text = .ok D) :
    ∃ A0, Parse.parseRaw .dfa Parse.isWord text = .ok A0 ∧
      D.Q = (if A0.states.isEmpty then Parse.usedStates A0 else A0.states) ∧
      A0.initial = [D.q0] ∧ D.F = A0.final ∧
      (∀ p a q, D.delta.lookup (p, a) = some q ↔ (p, a.toList, q) ∈ A0.transitions) ∧
      (∀ a, a ∈ D.Sigma ↔ (match A0.items.lookup "input_symbols" with
                           | some declared => a ∈ declared
                           | none => ∃ p q, (p, a.toList, q) ∈ A0.transitions)) := by
  obtain ⟨A0, A, Sigma, h0, h1, h2, h3, _, _, hc⟩ := Parse.parseDfa_ok_unpack h
  obtain ⟨rfl, _⟩ := DFA.checked_ok hc
  obtain ⟨hst, htr, hin, hfi, hit, hq0⟩ := Parse.commonChecks_nil_ok h1
  refine ⟨A0, h0, hst, hq0, hfi, ?_, ?_⟩
  · intro p a q
    have hnd : ((A.transitions.map fun t => ((t.1, Text.str t.2.1), t.2.2)).map (·.1)).Nodup := by
      rw [List.map_map]
      exact Parse.hasDupPairs_eq_false_iff.mp h2
    show List.lookup (p, a) (A.transitions.map fun t => ((t.1, Text.str t.2.1), t.2.2)) = some q ↔ _
    rw [C16b.lookup_eq_some_iff_mem hnd, ← htr, List.mem_map]
    constructor
    · rintro ⟨⟨p', l, q'⟩, ht, he⟩
      simp only [Prod.mk.injEq] at he
      obtain ⟨⟨rfl, rfl⟩, rfl⟩ := he
      simpa using ht
    · intro ht
      exact ⟨_, ht, by simp⟩
  · intro a
    have := Parse.getSymbolSet_mem h3 a
    rw [hit] at this
    show a ∈ Sigma ↔ _
    rw [this]
    cases A0.items.lookup "input_symbols" with
    | some declared => exact Iff.rfl
    | none =>
      simp only [mem_dedup, List.mem_map, htr]
      constructor
      · rintro ⟨⟨p, l, q⟩, ht, rfl⟩
        exact ⟨p, q, by simpa using ht⟩
      · rintro ⟨p, q, ht⟩
        exact ⟨_, ht, by simp⟩

/-- non-vacuity: an accepted text without `states` / `input_symbols` declarations … -/
example : Parse.parseDfa "initial p\nfinal q\np q a b\nq q a\nq p b".toList =
    .ok { Q := ["q", "p"], Sigma := ["a", "b"], q0 := "p", F := ["q"],
          delta := [(("p", "a"), "q"), (("p", "b"), "q"), (("q", "a"), "q"), (("q", "b"), "p")] } := by rfl
/-- … and one with both -/
example : Parse.parseDfa "states q p r\ninput_symbols b a\ninitial p\nfinal q\np q a b\nq q a\nq p b\nr r a b".toList =
    .ok { Q := ["q", "p", "r"], Sigma := ["b", "a"], q0 := "p", F := ["q"],
          delta := [(("p", "a"), "q"), (("p", "b"), "q"), (("q", "a"), "q"), (("q", "b"), "p"),
                    (("r", "a"), "r"), (("r", "b"), "r")] } := by rfl

theorem parseNfa_builds (text : List Char) (N : NFA String String) (h : Parse.parseNfa text = .ok N) :
    ∃ A0, Parse.parseRaw .nfa Parse.isWord text = .ok A0 ∧
      N.Q = (if A0.states.isEmpty then Parse.usedStates A0 else A0.states) ∧
      A0.initial = [N.q0] ∧ N.F = A0.final ∧
      (∀ p a q, q ∈ N.succ p a ↔ (p, a.toList, q) ∈ A0.transitions) ∧
      (match A0.items.lookup "epsilon" with
       | some [v] => N.eps = v
       | some _ => False
       | none => N.eps = (if A0.transitions.any (fun t => t.2.1.contains 'ε') then "ε" else "_")) ∧
      (∀ a, a ∈ N.Sigma ↔ (match A0.items.lookup "input_symbols" with
                           | some declared => a ∈ declared
                           | none => a ≠ N.eps ∧ ∃ p q, (p, a.toList, q) ∈ A0.transitions)) := by
  obtain ⟨A0, A, eps, Sigma, h0, h1, h2, h3, _, hc⟩ := Parse.parseNfa_ok_unpack h
  obtain ⟨rfl, _⟩ := NFA.checked_ok hc
  obtain ⟨hst, htr, hin, hfi, hit, hq0⟩ := Parse.commonChecks_nil_ok h1
  refine ⟨A0, h0, hst, hq0, hfi, ?_, ?_, ?_⟩
  · intro p a q
    show q ∈ ((Parse.groupNfa (A.transitions.map fun t => (t.1, Text.str t.2.1, t.2.2))).lookup (p, a)).getD [] ↔ _
    rw [Parse.mem_groupNfa_lookup, ← htr, List.mem_map]
    constructor
    · rintro ⟨⟨p', l, q'⟩, ht, he⟩
      simp only [Prod.mk.injEq] at he
      obtain ⟨rfl, rfl, rfl⟩ := he
      simpa using ht
    · intro ht
      exact ⟨_, ht, by simp⟩
  · have := Parse.parseSymbol_ok h2
    rw [hit, htr] at this
    exact this
  · intro a
    have := Parse.getSymbolSet_mem h3 a
    rw [hit] at this
    show a ∈ Sigma ↔ _
    rw [this]
    cases A0.items.lookup "input_symbols" with
    | some declared => exact Iff.rfl
    | none =>
      show _ ↔ a ≠ eps ∧ _
      simp only [mem_dedup, List.mem_filter, List.mem_map, htr, decide_eq_true_eq]
      constructor
      · rintro ⟨⟨⟨p, l, q⟩, ht, rfl⟩, hne⟩
        exact ⟨hne, p, q, by simpa using ht⟩
      · rintro ⟨hne, p, q, ht⟩
        exact ⟨⟨_, ht, by simp⟩, hne⟩

/-- non-vacuity: ε inferred from a label, Σ inferred from the labels -/
example : Parse.parseNfa "initial p\nfinal q\np q a ε\nq q a".toList =
    .ok { Q := ["p", "q"], Sigma := ["a"], q0 := "p", F := ["q"], eps := "ε",
          delta := [(("p", "a"), ["q"]), (("p", "ε"), ["q"]), (("q", "a"), ["q"])] } := by rfl
/-- … and everything declared -/
example : Parse.parseNfa "states p q\nepsilon e\ninput_symbols a b\ninitial p\nfinal q\np q a e\np p a".toList =
    .ok { Q := ["p", "q"], Sigma := ["a", "b"], q0 := "p", F := ["q"], eps := "e",
          delta := [(("p", "a"), ["q", "p"]), (("p", "e"), ["q"])] } := by rfl

#print axioms parseDfa_builds
#print axioms parseNfa_builds

end Gamba
