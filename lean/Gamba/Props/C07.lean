/-
  Gamba.Props.C07 — the CYK table of the model is exact for grammars in Chomsky normal form.

  NOTE.  The statements originally requested (`cyk_cell_exact`, `cfg_accepts_cnf_iff`) are FALSE for
  grammars that are in CNF but use, on a right-hand side, a variable that is not declared in `G.V`
  (`isChomsky` does not imply `valid`; the CYK loops only range over `G.V`).  They are kept as
  `*_stmt`, refuted by `*_stmt_false` on `C07.exBad`, and proved under the extra hypothesis that
  right-hand-side variables are declared (`*_partial`), which follows from `G.valid` (`*_of_valid`).
  Soundness (`cyk_cell_sound`, `cfg_accepts_cnf_sound`) and `cyk_total` hold unconditionally.
-/
import Gamba.Model.CFG
import Gamba.Spec.CFG
import Gamba.Proofs.CFGBasic
import Gamba.Proofs.C07
namespace Gamba

namespace C07

/-- S → A B | a, A → a, B → b -/
def exG : CFG where
  V := ["S", "A", "B"]
  Sigma := ["a", "b"]
  S := "S"
  R := [⟨"S", 0, [.v "A", .v "B"]⟩, ⟨"S", 1, [.t "a"]⟩, ⟨"A", 2, [.t "a"]⟩, ⟨"B", 3, [.t "b"]⟩]

/-- a CNF grammar whose variables `A`, `B` are not declared in `V` -/
def exBad : CFG where
  V := ["S"]
  Sigma := ["a", "b"]
  S := "S"
  R := [⟨"S", 0, [.v "A", .v "B"]⟩, ⟨"A", 1, [.t "a"]⟩, ⟨"B", 2, [.t "b"]⟩]

theorem exBad_gen : exBad.Gen [.v "S"] ["a", "b"] := by
  refine CFG.gen_v_iff.mpr ⟨[.v "A", .v "B"], ⟨⟨"S", 0, [.v "A", .v "B"]⟩, by decide, rfl, rfl⟩, ?_⟩
  refine CFG.gen_vv_iff.mpr ⟨["a"], ["b"], rfl, ?_, ?_⟩
  · exact CFG.gen_v_iff.mpr ⟨[.t "a"], ⟨⟨"A", 1, [.t "a"]⟩, by decide, rfl, rfl⟩, CFG.gen_t_iff.mpr rfl⟩
  · exact CFG.gen_v_iff.mpr ⟨[.t "b"], ⟨⟨"B", 2, [.t "b"]⟩, by decide, rfl, rfl⟩, CFG.gen_t_iff.mpr rfl⟩

end C07

/-! ### totality -/

/-- the table is always produced for a CNF grammar -/
theorem cyk_total (G : CFG) (hc : G.isChomsky = true) (w : List String) : ∃ X, G.cykMatrix w = .ok X :=
  ⟨_, CFG.cykMatrix_eq hc w⟩

example : C07.exG.isChomsky = true := by decide
example : C07.exG.valid = true := by decide
example : C07.exG.cykMatrix ["a", "b"] = .ok [((0, 0), ["S", "A"]), ((1, 1), ["B"]), ((0, 1), ["S"])] := rfl
example : CFG.cykGet [((0, 0), ["S", "A"]), ((1, 1), ["B"]), ((0, 1), ["S"])] 0 1 = ["S"] := by decide
example : C07.exG.cykMatrix ["a", "a", "b"] =
    .ok [((0, 0), ["S", "A"]), ((1, 1), ["S", "A"]), ((2, 2), ["B"]), ((0, 1), []), ((1, 2), ["S"]), ((0, 2), [])] := rfl

/-! ### soundness of the table (unconditional) -/

/-- every variable in cell (i,j) is a declared variable generating w[i..j] -/
theorem cyk_cell_sound (G : CFG) (hc : G.isChomsky = true) (w : List String) (X : CFG.CykTable)
    (hX : G.cykMatrix w = .ok X) (i j : Nat) (hij : i ≤ j) (hj : j < w.length) (A : String)
    (hA : A ∈ CFG.cykGet X i j) : A ∈ G.V ∧ G.Gen [.v A] ((w.drop i).take (j - i + 1)) :=
  CFG.cykMatrix_sound hc hX hij hj hA

example : C07.exG.Gen [.v "S"] ((["a", "b"].drop 0).take (1 - 0 + 1)) :=
  (cyk_cell_sound C07.exG (by decide) ["a", "b"] _ rfl 0 1 (by decide) (by decide) "S" (by decide)).2

/-! ### exactness of the table -/

/-- the requested statement (false in general: see `cyk_cell_exact_stmt_false`) -/
def cyk_cell_exact_stmt : Prop :=
  ∀ (G : CFG) (_hc : G.isChomsky = true) (w : List String) (X : CFG.CykTable)
    (_hX : G.cykMatrix w = .ok X) (i j : Nat) (_hij : i ≤ j) (_hj : j < w.length) (A : String),
    A ∈ CFG.cykGet X i j ↔ (A ∈ G.V ∧ G.Gen [.v A] ((w.drop i).take (j - i + 1)))

/-- counterexample: `S → A B, A → a, B → b` with `V = {S}` -/
theorem cyk_cell_exact_stmt_false : ¬ cyk_cell_exact_stmt := by
  intro h
  have h' := (h C07.exBad (by decide) ["a", "b"] _ rfl 0 1 (by decide) (by decide) "S").mpr
    ⟨by decide, C07.exBad_gen⟩
  revert h'
  decide

/-- every cell (i,j), i ≤ j < |w|, of the CYK table holds exactly the variables (of G.V) generating
    w[i..j] — provided the variables occurring on right-hand sides are declared in `G.V` -/
theorem cyk_cell_exact_partial (G : CFG) (hc : G.isChomsky = true)
    (hv : ∀ r, r ∈ G.R → ∀ B, Sym.v B ∈ r.rhs → B ∈ G.V)
    (w : List String) (X : CFG.CykTable)
    (hX : G.cykMatrix w = .ok X) (i j : Nat) (hij : i ≤ j) (hj : j < w.length) (A : String) :
    A ∈ CFG.cykGet X i j ↔ (A ∈ G.V ∧ G.Gen [.v A] ((w.drop i).take (j - i + 1))) :=
  ⟨CFG.cykMatrix_sound hc hX hij hj, fun h => CFG.cykMatrix_complete hc hv hX hij hj h.1 h.2⟩

example : ∀ r, r ∈ C07.exG.R → ∀ B, Sym.v B ∈ r.rhs → B ∈ C07.exG.V :=
  CFG.rhsDeclared_of_valid (by decide)

/-- the same for a valid grammar (`CFG.valid`: all symbols of all rules are declared) -/
theorem cyk_cell_exact_of_valid (G : CFG) (hc : G.isChomsky = true) (hv : G.valid = true)
    (w : List String) (X : CFG.CykTable)
    (hX : G.cykMatrix w = .ok X) (i j : Nat) (hij : i ≤ j) (hj : j < w.length) (A : String) :
    A ∈ CFG.cykGet X i j ↔ (A ∈ G.V ∧ G.Gen [.v A] ((w.drop i).take (j - i + 1))) :=
  cyk_cell_exact_partial G hc (CFG.rhsDeclared_of_valid hv) w X hX i j hij hj A

-- "S" does not generate "aa" in `exG`: read off the table
example : ¬ C07.exG.Gen [.v "S"] ["a", "a"] := fun h =>
  absurd ((cyk_cell_exact_of_valid C07.exG (by decide) (by decide) ["a", "a"] _ rfl 0 1 (by decide)
    (by decide) "S").mpr ⟨by decide, h⟩) (by decide)

/-! ### membership -/

/-- unconditional soundness of `accepts` on a CNF grammar: it always answers, and `true` is right -/
theorem cfg_accepts_cnf_sound (G : CFG) (hc : G.isChomsky = true) (w : List String) :
    ∃ b, G.accepts w = .ok b ∧ (b = true → G.Lang w) := by
  by_cases hw : w = []
  · subst hw
    refine ⟨_, CFG.accepts_cnf_nil hc, fun h => ?_⟩
    exact (CFG.cnf_gen_v_nil_iff hc).mpr (CFG.any_eps_rule_iff.mp h)
  · obtain ⟨X, hX⟩ := cyk_total G hc w
    refine ⟨_, CFG.accepts_cnf_cons hc hw hX, fun h => ?_⟩
    have hpos := List.length_pos_iff.mpr hw
    have := (CFG.cykMatrix_sound hc hX (Nat.zero_le _) (by omega) (of_decide_eq_true h)).2
    rw [show (w.drop 0).take (w.length - 1 - 0 + 1) = CFG.subw w 0 (w.length - 1) from rfl,
      CFG.subw_full] at this
    exact this

/-- the requested statement (false in general: see `cfg_accepts_cnf_iff_stmt_false`) -/
def cfg_accepts_cnf_iff_stmt : Prop :=
  ∀ (G : CFG) (_hc : G.isChomsky = true) (_hS : G.S ∈ G.V) (w : List String),
    ∃ b, G.accepts w = .ok b ∧ (b = true ↔ G.Lang w)

theorem cfg_accepts_cnf_iff_stmt_false : ¬ cfg_accepts_cnf_iff_stmt := by
  intro h
  obtain ⟨b, hb, hiff⟩ := h C07.exBad (by decide) (by decide) ["a", "b"]
  have hfalse : C07.exBad.accepts ["a", "b"] = .ok false := rfl
  rw [hfalse] at hb
  injection hb with hb
  subst hb
  exact absurd (hiff.mpr C07.exBad_gen) (by decide)

/-- membership for a grammar already in CNF (the start variable must be declared: S ∈ V, and so must
    the variables occurring on right-hand sides) -/
theorem cfg_accepts_cnf_iff_partial (G : CFG) (hc : G.isChomsky = true) (hS : G.S ∈ G.V)
    (hv : ∀ r, r ∈ G.R → ∀ B, Sym.v B ∈ r.rhs → B ∈ G.V) (w : List String) :
    ∃ b, G.accepts w = .ok b ∧ (b = true ↔ G.Lang w) := by
  by_cases hw : w = []
  · subst hw
    refine ⟨_, CFG.accepts_cnf_nil hc, ?_⟩
    rw [CFG.any_eps_rule_iff]
    exact (CFG.cnf_gen_v_nil_iff hc).symm
  · obtain ⟨X, hX⟩ := cyk_total G hc w
    refine ⟨_, CFG.accepts_cnf_cons hc hw hX, ?_⟩
    have hpos := List.length_pos_iff.mpr hw
    rw [decide_eq_true_eq,
      cyk_cell_exact_partial G hc hv w X hX 0 (w.length - 1) (Nat.zero_le _) (by omega) G.S,
      show (w.drop 0).take (w.length - 1 - 0 + 1) = CFG.subw w 0 (w.length - 1) from rfl,
      CFG.subw_full]
    exact ⟨fun h => h.2, fun h => ⟨hS, h⟩⟩

example : C07.exG.isChomsky = true ∧ C07.exG.S ∈ C07.exG.V ∧
    (∀ r, r ∈ C07.exG.R → ∀ B, Sym.v B ∈ r.rhs → B ∈ C07.exG.V) :=
  ⟨by decide, by decide, CFG.rhsDeclared_of_valid (by decide)⟩

/-- membership for a valid grammar already in CNF -/
theorem cfg_accepts_cnf_iff_of_valid (G : CFG) (hc : G.isChomsky = true) (hS : G.S ∈ G.V)
    (hv : G.valid = true) (w : List String) :
    ∃ b, G.accepts w = .ok b ∧ (b = true ↔ G.Lang w) :=
  cfg_accepts_cnf_iff_partial G hc hS (CFG.rhsDeclared_of_valid hv) w

example : C07.exG.accepts ["a", "b"] = .ok true ∧ C07.exG.accepts ["a", "a"] = .ok false ∧
    C07.exG.accepts [] = .ok false := ⟨rfl, rfl, rfl⟩

example : C07.exG.Lang ["a", "b"] ∧ ¬ C07.exG.Lang ["a", "a"] := by
  obtain ⟨b, hb, hiff⟩ := cfg_accepts_cnf_iff_of_valid C07.exG (by decide) (by decide) (by decide) ["a", "b"]
  obtain ⟨b', hb', hiff'⟩ := cfg_accepts_cnf_iff_of_valid C07.exG (by decide) (by decide) (by decide) ["a", "a"]
  have h : C07.exG.accepts ["a", "b"] = .ok true := rfl
  have h' : C07.exG.accepts ["a", "a"] = .ok false := rfl
  rw [h] at hb; rw [h'] at hb'
  injection hb with hb; injection hb' with hb'
  subst hb; subst hb'
  exact ⟨hiff.mp rfl, fun hl => absurd (hiff'.mpr hl) (by decide)⟩

#print axioms cyk_total
#print axioms cyk_cell_sound
#print axioms cyk_cell_exact_partial
#print axioms cyk_cell_exact_of_valid
#print axioms cyk_cell_exact_stmt_false
#print axioms cfg_accepts_cnf_sound
#print axioms cfg_accepts_cnf_iff_partial
#print axioms cfg_accepts_cnf_iff_of_valid
#print axioms cfg_accepts_cnf_iff_stmt_false

end Gamba
