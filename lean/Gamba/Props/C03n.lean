/-
  Gamba.Props.C03n — the subset construction with `print_state_set` names, for NFAs whose state names are
  CLEAN (non-empty, no comma): the set notation determines the set, so the injectivity hypothesis of
  `nfaToDfa_named` disappears.  Both conditions on the names are needed: a state named `""` (or names
  containing `,`) makes two different subsets print alike, and the named automaton then accepts a
  different language (`nfaToDfa_name_collision_witness`, the recorded defect).
-/
import Gamba.Model.NFA
import Gamba.Spec.Automata
import Gamba.Proofs.C03n
namespace Gamba

/-- the set notation determines the set, for clean names -/
theorem printStateSet_inj (S T : List String) (hS : ∀ q, q ∈ S → CleanName q) (hT : ∀ q, q ∈ T → CleanName q)
    (h : printStateSet S = printStateSet T) : ∀ q, q ∈ S ↔ q ∈ T :=
  printStateSet_mem_iff S T hS hT h

/-- non-vacuity: clean names exist, and two different lists denoting the same set print alike -/
example : CleanName "q0" ∧ CleanName "{a}" ∧ ¬ CleanName "" ∧ ¬ CleanName "p,q" := by
  refine ⟨?_, ?_, ?_, ?_⟩ <;> decide

example : (∀ q, q ∈ ["b", "a", "b"] → CleanName q) ∧ (∀ q, q ∈ ["a", "b"] → CleanName q) ∧
    printStateSet ["b", "a", "b"] = printStateSet ["a", "b"] := by
  refine ⟨by decide, by decide, ?_⟩
  simp [printStateSet, sortStrings, dedup, List.mergeSort]

/-- both hypotheses are needed: these are the two collisions that the real library exhibits -/
theorem printStateSet_collision_empty_name : printStateSet [""] = printStateSet [] := by
  rw [C03n.name_emptyName, C03n.name_empty]

theorem printStateSet_collision_comma : printStateSet ["p", "q"] = printStateSet ["p,q"] := by
  simp [printStateSet, sortStrings, dedup, List.mergeSort]

/-- … and the two sets are indeed different in each case -/
example : ¬ (∀ q, q ∈ [""] ↔ q ∈ ([] : List String)) ∧ ¬ (∀ q, q ∈ ["p", "q"] ↔ q ∈ ["p,q"]) := by
  refine ⟨fun h => ?_, fun h => ?_⟩
  · exact absurd ((h "").mp (by decide)) (by decide)
  · exact absurd ((h "p").mp (by decide)) (by decide)

/-- subset construction with `print_state_set` names, for NFAs with clean state names: no injectivity
    hypothesis left -/
theorem nfaToDfa_named_clean (N : NFA String String) (hv : N.valid = true) (hn : ∀ q, q ∈ N.Q → CleanName q)
    (s : Sched) :
    ∃ D', N.toDfa s = .ok D' ∧ D'.valid = true ∧ D'.Sigma = N.Sigma ∧
      (∀ q, D'.Reachable q ∨ q ∉ D'.Q) ∧
      ∀ w, (∀ a, a ∈ w → a ∈ N.Sigma) → (D'.Accepts w ↔ N.Accepts w) := by
  obtain ⟨D, hD, hval, hSig, hreach, hcanon, hL⟩ := NFA.toDfaSets_spec_canon hv s
  have hinj : ∀ S T, S ∈ D.Q → T ∈ D.Q → printStateSet S = printStateSet T → S = T :=
    fun S T hS hT h => N.printStateSet_inj_on_canon hn (hcanon S hS) (hcanon T hT) h
  refine ⟨D.mapStates printStateSet, ?_, DFA.mapStates_valid' _ D hval hinj, hSig, ?_, ?_⟩
  · unfold NFA.toDfa
    rw [hD]
    rfl
  · intro q
    by_cases hq : q ∈ (D.mapStates printStateSet).Q
    · left
      obtain ⟨S, hS, rfl⟩ := List.mem_map.mp hq
      exact DFA.mapStates_reachable _ D hval hinj (hreach S hS)
    · exact Or.inr hq
  · intro w hw
    rw [DFA.mapStates_accepts_iff _ D hval hinj w (hSig ▸ hw)]
    exact hL w hw

/-- non-vacuity: `exN` (ε-move, nondeterminism, partial δ) is valid with clean names; its named automaton has
    four states, all reachable -/
example : C03.exN.valid = true ∧ (∀ q, q ∈ C03.exN.Q → CleanName q) ∧
    C03.exN.toDfa [] = .ok C03.exDnamed ∧ C03.exDnamed.Q = ["{0}", "{0,1,2}", "{}", "{2}"] :=
  ⟨C03.exN_valid, by decide, C03.exN_toDfa, rfl⟩

example : C03.exDnamed.valid = true ∧ (∀ q, C03.exDnamed.Reachable q ∨ q ∉ C03.exDnamed.Q) ∧
    ∀ w, (∀ a, a ∈ w → a ∈ C03.exN.Sigma) → (C03.exDnamed.Accepts w ↔ C03.exN.Accepts w) := by
  obtain ⟨D', h1, h2, _, h4, h5⟩ := nfaToDfa_named_clean C03.exN C03.exN_valid (by decide) []
  rw [C03.exN_toDfa] at h1
  cases h1
  exact ⟨h2, h4, h5⟩

/-- the recorded defect, formally: a valid NFA with a state named `""` whose named subset automaton (itself a
    valid DFA) is NOT equivalent: the subsets `{""}` and `∅` are both named `"{}"`, and the word `y x` is
    accepted by the named DFA only. -/
theorem nfaToDfa_name_collision_witness : ∃ (N : NFA String String) (D' : DFA String String) (w : List String),
    N.valid = true ∧ N.toDfa [] = .ok D' ∧ (∀ a, a ∈ w → a ∈ N.Sigma) ∧ ¬ (D'.Accepts w ↔ N.Accepts w) := by
  refine ⟨C03n.badN, C03n.badDnamed, ["y", "x"], C03n.badN_valid, C03n.badN_toDfa, by decide, ?_⟩
  intro h
  have hD : C03n.badDnamed.Accepts ["y", "x"] :=
    (DFA.Accepts_iff_acceptsT C03n.badDnamed_valid (w := ["y", "x"]) (by decide)).mpr
      C03n.badDnamed_acceptsT_yx
  obtain ⟨b, hb, hiff⟩ := C03n.badN.accepts_spec C03n.badN_valid [] ["y", "x"] (by decide)
  rw [C03n.badN_accepts_yx] at hb
  cases hb
  exact absurd (hiff.mpr (h.mp hD)) (by decide)

/-- the witness in detail: the names are not clean only because of `""`; the structured automaton is fine -/
example : ¬ (∀ q, q ∈ C03n.badN.Q → CleanName q) ∧ CleanName "q" ∧
    C03n.badN.toDfaSets [] = .ok C03n.badD ∧ C03n.badD.valid = true ∧
    C03n.badDnamed.Q = ["{}", "{,q}", "{}"] ∧ C03n.badDnamed.valid = true ∧
    C03n.badDnamed.accepts ["y", "x"] = .ok true ∧ C03n.badN.accepts [] ["y", "x"] = .ok false := by
  refine ⟨fun h => ?_, by decide, C03n.badN_toDfaSets, by decide, rfl, C03n.badDnamed_valid, by rfl, by rfl⟩
  exact absurd (h "" (by decide)) (by decide)

#print axioms printStateSet_inj
#print axioms printStateSet_collision_empty_name
#print axioms printStateSet_collision_comma
#print axioms nfaToDfa_named_clean
#print axioms nfaToDfa_name_collision_witness

end Gamba
