/-
  Gamba.Props.C13h — C13 ("the library's own answers pass its checkers") for the language exercises of EVERY kind
  (dfa, nfa, pda, tm, cfg, regexp), on text:

  1. a reference file checked against itself with `check_<kind>_language_from_file` prints `OK` whenever it can be
     enumerated at all (`own_language_file_ok`), and `Error` exactly when it cannot (`languageFile_self_error_iff`);
  2. the word list the notebook generator prints with `generate` (`CheckAll.renderWords`) is read back by
     `parse_word_list` as the same set of words, under `CheckAll.Renderable` (`parseWordList_renderWords`);
  3. hence the reference text passes `check_<kind>_language_from_words` against its own generated word list
     (`own_language_words_ok`, `own_language_words_ok_unbounded`);
  4. the side condition matters: a DFA over the alphabet `{_}` (or `{ε}`) parses, but its own generated word list is read
     back with the word `_` turned into the empty word, and the checker prints feedback
     (`own_language_words_needs_renderable`).
-/
import Gamba.Model.CheckAll
import Gamba.Props.C12h
import Gamba.Proofs.C13h
namespace Gamba
open Parse CheckAll

/-! ### 1. the reference file against itself -/

/-- a reference text that can be enumerated passes the file checker of its own kind against itself -/
theorem own_language_file_ok (k : CheckAll.Kind) (text : String) (e : Env) (len : Nat) (r : Nat × CheckCex.Lang)
    (h : langOfText k text e len = some r) :
    languageFile k k text text e len = .ok :=
  (languageFile_text_ok_iff k k text text e len).mpr ⟨r.1, r.2, r.1, r.2, h, h, fun _ => Iff.rfl⟩

example : langOfText .dfa "initial p\nfinal q\np q a\np p b\nq q a\nq p b" {} 2 = some (2, [["a"], ["a", "a"], ["b", "a"]]) := by
  decide +kernel
example : langOfText .pda "initial p\nfinal q\np p a,εA\np q b,Aε" {} 3 = some (2, [["a", "b"], ["a", "a", "b"]]) := by
  decide +kernel
example : langOfText .regexp "a(b+c)*" {} 2 = some (0, [["a"], ["a", "b"], ["a", "c"]]) := by decide +kernel
example : languageFile .dfa .dfa "initial p\nfinal q\np q a\np p b\nq q a\nq p b"
    "initial p\nfinal q\np q a\np p b\nq q a\nq p b" {} 2 = .ok := by decide +kernel
example : languageFile .pda .pda "initial p\nfinal q\np p a,εA\np q b,Aε" "initial p\nfinal q\np p a,εA\np q b,Aε" {} 3 = .ok := by
  decide +kernel
example : languageFile .regexp .regexp "a(b+c)*" "a(b+c)*" {} 2 = .ok := by decide +kernel

/-- … and `Error: …` is printed exactly when the parser or the enumerator raises on the reference text -/
theorem languageFile_self_error_iff (k : CheckAll.Kind) (text : String) (e : Env) (len : Nat) :
    languageFile k k text text e len = .error ↔ langOfText k text e len = none := by
  rw [languageFile_text_error_iff]
  exact ⟨fun h => h.elim id id, Or.inl⟩

example : languageFile .dfa .dfa "initial p\nfinal q\np q a" "initial p\nfinal q\np q a" {} 2 = .error ∧
    langOfText .dfa "initial p\nfinal q\np q a" {} 2 = none := by decide +kernel

/-- the self check never prints feedback -/
theorem languageFile_self_ne_feedback (k : CheckAll.Kind) (text : String) (e : Env) (len : Nat) :
    languageFile k k text text e len ≠ .feedback := by
  cases h : langOfText k text e len with
  | none => rw [(languageFile_self_error_iff k text e len).mpr h]; decide
  | some r => rw [own_language_file_ok k text e len r h]; decide

/-! ### 2. `parse_word_list (generate …)` -/

/-- the generated word list is read back as the same set of words -/
theorem parseWordList_renderWords (L : CheckCex.Lang) (h : Renderable L) :
    ∀ w, w ∈ CheckText.parseWordList (renderWords L) ↔ w ∈ L :=
  C13h.mem_parseWordList_renderWords h

example : Renderable [[], ["a", "b"], ["a", "a", "b", "b"]] ∧ renderWords [[], ["a", "b"], ["a", "a", "b", "b"]] = "ε ab aabb" ∧
    CheckText.parseWordList "ε ab aabb" = [[], ["a", "b"], ["a", "a", "b", "b"]] := by decide +kernel

/-- no word at all: the empty text, the empty list -/
theorem parseWordList_renderWords_nil : renderWords [] = "" ∧ CheckText.parseWordList (renderWords []) = [] :=
  ⟨rfl, C13h.parseWordList_renderWords_nil⟩

/-- the side condition cannot be dropped: `_` (and `ε`) as a one-symbol word is read back as the empty word -/
example : ¬ Renderable [["_"]] ∧ ¬ Renderable [["ε"]] ∧ ¬ Renderable [["a b"]] ∧ ¬ Renderable [["a", " "]] ∧
    CheckText.parseWordList (renderWords [["_"]]) = [[]] ∧ CheckText.parseWordList (renderWords [["ε"]]) = [[]] := by
  decide +kernel

/-! ### 3. the reference text against its own generated word list -/

theorem own_language_words_ok (k : CheckAll.Kind) (text : String) (e : Env) (len maxStates nQ : Nat) (L : CheckCex.Lang)
    (h : langOfText k text e len = some (nQ, L)) (hr : Renderable L) (hm : Check.maxStatesOk nQ maxStates = true) :
    languageWords k text (renderWords L) e len maxStates = .ok :=
  (languageWords_text_ok_iff k text (renderWords L) e len maxStates).mpr
    ⟨nQ, L, h, hm, fun w => (parseWordList_renderWords L hr w).symm⟩

example : langOfText .dfa "initial p\nfinal q\np q a\np p b\nq q a\nq p b" {} 2 = some (2, [["a"], ["a", "a"], ["b", "a"]]) ∧
    Renderable [["a"], ["a", "a"], ["b", "a"]] ∧ Check.maxStatesOk 2 2 = true ∧
    renderWords [["a"], ["a", "a"], ["b", "a"]] = "a aa ba" ∧
    languageWords .dfa "initial p\nfinal q\np q a\np p b\nq q a\nq p b" "a aa ba" {} 2 2 = .ok := by decide +kernel
example : langOfText .pda "initial p\nfinal q\np p a,εA\np q b,Aε" {} 3 = some (2, [["a", "b"], ["a", "a", "b"]]) ∧
    Renderable [["a", "b"], ["a", "a", "b"]] ∧ Check.maxStatesOk 2 3 = true ∧
    renderWords [["a", "b"], ["a", "a", "b"]] = "ab aab" ∧
    languageWords .pda "initial p\nfinal q\np p a,εA\np q b,Aε" "ab aab" {} 3 3 = .ok := by decide +kernel
example : langOfText .regexp "a(b+c)*" {} 2 = some (0, [["a"], ["a", "b"], ["a", "c"]]) ∧
    Renderable [["a"], ["a", "b"], ["a", "c"]] ∧ Check.maxStatesOk 0 0 = true ∧
    renderWords [["a"], ["a", "b"], ["a", "c"]] = "a ab ac" ∧
    languageWords .regexp "a(b+c)*" "a ab ac" {} 2 0 = .ok := by decide +kernel
/-- the empty word is printed as `ε` and read back as the empty word (an NFA with an `ε` move, a grammar with an `ε` rule) -/
example : langOfText .cfg "S -> aSb | ε" {} 4 = some (0, [[], ["a", "b"], ["a", "a", "b", "b"]]) ∧
    languageWords .cfg "S -> aSb | ε" (renderWords [[], ["a", "b"], ["a", "a", "b", "b"]]) {} 4 0 = .ok := by decide +kernel

/-- no state bound (`max_states = 0`, the only value the cfg / regexp checkers use) -/
theorem own_language_words_ok_unbounded (k : CheckAll.Kind) (text : String) (e : Env) (len nQ : Nat) (L : CheckCex.Lang)
    (h : langOfText k text e len = some (nQ, L)) (hr : Renderable L) :
    languageWords k text (renderWords L) e len 0 = .ok :=
  own_language_words_ok k text e len 0 nQ L h hr (by simp [Check.maxStatesOk])

example : langOfText .tm "initial p\np p aa,R\np accept __,R" {} 2 = some (3, [[], ["a"], ["a", "a"]]) ∧
    Renderable [[], ["a"], ["a", "a"]] ∧
    languageWords .tm "initial p\np p aa,R\np accept __,R" (renderWords [[], ["a"], ["a", "a"]]) {} 2 0 = .ok := by
  decide +kernel

/-- when the state bound is exceeded the verdict is feedback even for the own word list: the hypothesis `hm` is needed -/
example : languageWords .dfa "initial p\nfinal q\np q a\np p b\nq q a\nq p b" "a aa ba" {} 2 1 = .feedback := by decide +kernel

/-! ### 4. the side condition matters for parsed objects

  The DFA / PDA parsers accept `_` and `ε` as ordinary input symbols (the NFA parser reads them as the silent move, the
  regexp / cfg parsers as the empty word, so for those kinds the one-symbol words `_` / `ε` never occur).  The DFA below has
  the language `{_, __}` up to length 2; `generate` prints `_ __`; `parse_word_list` reads `_` back as the EMPTY word and the
  checker reports a difference for the library's own answer. -/

theorem own_language_words_needs_renderable :
    langOfText .dfa "initial p\nfinal q\np q _\nq q _" {} 2 = some (2, [["_"], ["_", "_"]]) ∧
    ¬ Renderable [["_"], ["_", "_"]] ∧
    renderWords [["_"], ["_", "_"]] = "_ __" ∧
    CheckText.parseWordList "_ __" = [[], ["_", "_"]] ∧
    languageWords .dfa "initial p\nfinal q\np q _\nq q _" (renderWords [["_"], ["_", "_"]]) {} 2 0 = .feedback := by
  decide +kernel

/-- the same with the alphabet `{ε}`, and for a PDA -/
theorem own_language_words_needs_renderable_eps :
    langOfText .dfa "initial p\nfinal q\np q ε\nq q ε" {} 2 = some (2, [["ε"], ["ε", "ε"]]) ∧
    languageWords .dfa "initial p\nfinal q\np q ε\nq q ε" (renderWords [["ε"], ["ε", "ε"]]) {} 2 0 = .feedback ∧
    langOfText .pda "initial p\nfinal q\np q _,εε" {} 3 = some (2, [["_"]]) ∧
    languageWords .pda "initial p\nfinal q\np q _,εε" (renderWords [["_"]]) {} 3 0 = .feedback := by
  decide +kernel

#print axioms own_language_file_ok
#print axioms languageFile_self_error_iff
#print axioms languageFile_self_ne_feedback
#print axioms parseWordList_renderWords
#print axioms parseWordList_renderWords_nil
#print axioms own_language_words_ok
#print axioms own_language_words_ok_unbounded
#print axioms own_language_words_needs_renderable
#print axioms own_language_words_needs_renderable_eps

end Gamba
