/-
  Gamba.Props.C15c — property C15 (PDA part): `pda_simulate_word` (`PDA.simulate`).
  Whatever it returns is a genuine accepting computation (for every closure limit, search fuel and pop order);
  `none` is returned exactly when the acceptance test with the same limit says no; and it never fails with a
  fuel / runtime error when the reachable configurations lie in a finite universe smaller than the search fuel
  (`pda_simulate_terminates_partial` — "partial" because termination is only claimed under that hypothesis; it is
  fully proved as stated).
-/
import Gamba.Model.PDA
import Gamba.Model.Simulate
import Gamba.Spec.PDA
import Gamba.Spec.Trace
import Gamba.Proofs.C15c
namespace Gamba
variable {σ τ γ : Type} [DecidableEq σ] [DecidableEq τ] [DecidableEq γ]

-- some hypotheses of the requested signatures (`hv`, `hk`, `hw`) are only partly needed by the proofs
set_option linter.unusedVariables false

/-- whatever `pda_simulate_word` returns is a genuine accepting computation: for every closure limit, search fuel
    and pop order -/
theorem pda_simulate_valid (P : PDA σ τ γ) (hv : P.valid = true) (hk : (P.delta.map (·.1)).Nodup)
    (limit fuel : Nat) (s : Sched) (w : List τ) (hw : ∀ a, a ∈ w → a ∈ P.Sigma)
    (tr : List (σ × List τ × List γ)) (h : P.simulate limit fuel s w = .ok (some tr)) :
    P.ValidTrace w tr :=
  P.simulate_valid' hk limit fuel s w (fun a ha he => PDA.valid_eps hv (he ▸ hw a ha)) tr h

example : C09.exPDA.simulate 1000 100 [] ["a", "b"] =
    .ok (some [("s", ["a", "b"], []), ("p", ["a", "b"], ["$"]), ("p", ["b"], ["$", "A"]),
               ("q", ["b"], ["$", "A"]), ("q", [], ["$"]), ("f", [], [])]) := rfl

example : C09.exPDA.ValidTrace ["a", "b"]
    [("s", ["a", "b"], []), ("p", ["a", "b"], ["$"]), ("p", ["b"], ["$", "A"]),
     ("q", ["b"], ["$", "A"]), ("q", [], ["$"]), ("f", [], [])] :=
  pda_simulate_valid C09.exPDA (by decide) (by decide) 1000 100 [] ["a", "b"] (by decide) _ rfl

/-- another pop order, longer word -/
example : C09.exPDA.ValidTrace ["a", "a", "b", "b"]
    [("s", ["a", "a", "b", "b"], []), ("p", ["a", "a", "b", "b"], ["$"]), ("p", ["a", "b", "b"], ["$", "A"]),
     ("p", ["b", "b"], ["$", "A", "A"]), ("q", ["b", "b"], ["$", "A", "A"]), ("q", ["b"], ["$", "A"]),
     ("q", [], ["$"]), ("f", [], [])] :=
  pda_simulate_valid C09.exPDA (by decide) (by decide) 1000 100 [3, 1, 2] _ (by decide) _ rfl

/-- validity does not need the closures to be complete: with the stack-growing ε-cycle of `exLoopPDA` every
    closure is truncated (limit 3), yet the returned trace is a genuine computation -/
example : C09.exLoopPDA.ValidTrace ["a", "a", "a"]
    [("s", ["a", "a", "a"], []), ("s", ["a", "a", "a"], ["X"]), ("s", ["a", "a", "a"], ["X", "X"]),
     ("s", ["a", "a", "a"], ["X", "X", "X"]), ("t", ["a", "a"], ["X", "X"]), ("u", ["a"], ["X"]), ("f", [], [])] :=
  pda_simulate_valid C09.exLoopPDA (by decide) (by decide) 3 100 [] _ (by decide) _ rfl

/-- hence a returned trace certifies acceptance (proved from the trace itself: a valid trace is an accepting run) -/
theorem pda_simulate_accepts (P : PDA σ τ γ) (hv : P.valid = true) (hk : (P.delta.map (·.1)).Nodup)
    (limit fuel : Nat) (s : Sched) (w : List τ) (hw : ∀ a, a ∈ w → a ∈ P.Sigma)
    (tr : List (σ × List τ × List γ)) (h : P.simulate limit fuel s w = .ok (some tr)) : P.Accepts w :=
  (pda_simulate_valid P hv hk limit fuel s w hw tr h).accepts

example : C09.exPDA.Accepts ["a", "a", "b", "b"] :=
  pda_simulate_accepts C09.exPDA (by decide) (by decide) 1000 100 [3, 1, 2] _ (by decide) _ rfl

/-- `none` is returned exactly when the (same-limit) acceptance test says no -/
theorem pda_simulate_none_iff (P : PDA σ τ γ) (limit fuel : Nat) (s : Sched) (w : List τ) :
    P.simulate limit fuel s w = .ok none ↔ P.accepts limit s w = false :=
  P.simulate_none_iff' limit fuel s w

example : C09.exPDA.simulate 1000 100 [] ["a", "b", "b"] = .ok none ∧
    C09.exPDA.accepts 1000 [] ["a", "b", "b"] = false := ⟨rfl, rfl⟩

/-- with a too small limit both say no, although the word is accepted (see `Gamba.Props.C09`) -/
example : C09.exLoopPDA.simulate 2 100 [] ["a", "a", "a"] = .ok none ∧
    C09.exLoopPDA.accepts 2 [] ["a", "a", "a"] = false := ⟨rfl, rfl⟩

/-- termination (partial clause): if all configurations ε-reachable from each history set lie in a finite list `U`
    and the search fuel exceeds its length, the simulation never fails with a fuel / runtime error -/
theorem pda_simulate_terminates_partial (P : PDA σ τ γ) (hv : P.valid = true) (hk : (P.delta.map (·.1)).Nodup)
    (limit fuel : Nat) (s : Sched) (w : List τ) (hw : ∀ a, a ∈ w → a ∈ P.Sigma)
    (U : List (PConf σ γ)) (hU : ∀ R c, (∀ r, r ∈ R → ∃ u, P.Run (P.q0, []) u r) → P.EpsReach R c → c ∈ U)
    (hf : U.length + 1 ≤ fuel) : ∃ r, P.simulate limit fuel s w = .ok r :=
  P.simulate_total hk limit fuel s w (fun a ha he => PDA.valid_eps hv (he ▸ hw a ha)) U hU hf

/-- non-vacuity: `exFin` (language `{ab}`, bounded stack) has exactly five reachable configurations, so a search
    fuel of 6 suffices for every word, closure limit and pop order -/
example (limit : Nat) (s : Sched) (w : List String) (hw : ∀ a, a ∈ w → a ∈ C15c.exFin.Sigma) :
    ∃ r, C15c.exFin.simulate limit 6 s w = .ok r :=
  pda_simulate_terminates_partial C15c.exFin (by decide) (by decide) limit 6 s w hw
    C15c.exFinU C15c.exFin_universe (by decide)

example : C15c.exFin.simulate 10 6 [] ["a", "b"] =
    .ok (some [("s", ["a", "b"], []), ("t", ["a", "b"], ["$"]), ("p", ["b"], ["$", "A"]), ("q", [], ["$"]),
               ("f", [], [])]) ∧
    C15c.exFin.simulate 10 6 [] ["a", "a"] = .ok none := ⟨rfl, rfl⟩

/-- the fuel hypothesis cannot be dropped: with no search fuel the simulation of an accepted word fails -/
example : C09.exPDA.simulate 1000 0 [] ["a", "b"] = .error .fuel := rfl

#print axioms pda_simulate_valid
#print axioms pda_simulate_accepts
#print axioms pda_simulate_none_iff
#print axioms pda_simulate_terminates_partial

end Gamba
