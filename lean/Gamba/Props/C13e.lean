/-
  Gamba.Props.C13e — two END-TO-END statements about the library's answer keys
  ("the library's own answer passes the library's own checker"):

  * DFA → regular expression exercise: `dfa_to_regexp(D)` (fresh GNFA state names as picked by `dfa_to_gnfa`, any
    elimination order), printed by `print_regexp_simple`, re-parses with the parser of regexp_simple.g4, and the
    re-parsed expression passes `check_equal_languages` against `D` for every length bound — provided the symbols
    of `D` are single letters (what the simple syntax can express).
  * minimal-DFA exercise: the quotient / Hopcroft answer keys pass `check_dfa_minimal` whenever the state names of
    `D` are clean (non-empty, no comma); the naming-injectivity hypothesis of `own_minimal_*_ok` is discharged.
-/
import Gamba.Model.GNFA
import Gamba.Model.Check
import Gamba.Model.RegexpText
import Gamba.Props.C02reg
import Gamba.Props.C03n
import Gamba.Props.C04b
import Gamba.Props.C04c
import Gamba.Props.C05
import Gamba.Props.C06b
import Gamba.Props.C13a
import Gamba.Props.C16d
import Gamba.Proofs.C13e
namespace Gamba

/-! ### DFA → regular expression -/

/-- the answer key of the DFA → regexp exercise, as TEXT, passes the checker of the exercise -/
theorem own_dfa2regexp_ok (D : DFA String String) (hv : D.valid = true) (hk : (D.delta.map (·.1)).Nodup) (hQ : D.Q.Nodup)
    (hsig : ∀ a, a ∈ D.Sigma → ∃ c : Char, a = String.singleton c ∧ c.isAlpha = true)
    (order : List String) (ho : order.Nodup) (hm : ∀ q, q ∈ order ↔ q ∈ D.Q) (len : Nat) :
    ∃ r', RegexpText.parseSimple (RegexpText.printSimple (D.toRegexp (gnfaNames D.Q).1 (gnfaNames D.Q).2 order)) = some r' ∧
      Check.equalLanguages (r'.wordsUpTo len) (D.wordsUpTo len) = true := by
  obtain ⟨hs, ha, hne⟩ := C13e.gnfaNames_fresh D.Q
  have hsyms := C13e.toRegexp_syms_sigma D hv (gnfaNames D.Q).1 (gnfaNames D.Q).2 order
  have hsimple : (D.toRegexp (gnfaNames D.Q).1 (gnfaNames D.Q).2 order).SimpleSyms :=
    C13e.simpleSyms_of_allSyms _ (C13e.AllSyms.mono hsig _ hsyms)
  obtain ⟨r', hr', hL, _⟩ := parseSimple_printSimple _ hsimple
  refine ⟨r', hr', ?_⟩
  unfold Check.equalLanguages
  rw [C12a.compare_isNone_iff]
  intro w
  rw [regexp_words_exact, dfa_words_exact D hv, hL w,
    toRegexp_lang D hv hk hQ _ _ hs ha hne order ho hm w]
  constructor
  · rintro ⟨hl, hacc⟩
    refine ⟨hl, ?_, hacc⟩
    have hlang := (toRegexp_lang D hv hk hQ _ _ hs ha hne order ho hm w).mpr hacc
    exact C13e.lang_letters hlang hsyms
  · rintro ⟨hl, _, hacc⟩
    exact ⟨hl, hacc⟩

/-- the hypotheses on the even-number-of-`a`s DFA, with both elimination orders -/
example : C06b.evenA.valid = true ∧ (C06b.evenA.delta.map (·.1)).Nodup ∧ C06b.evenA.Q.Nodup ∧
    (∀ a, a ∈ C06b.evenA.Sigma → ∃ c : Char, a = String.singleton c ∧ c.isAlpha = true) ∧
    ["q1", "q0"].Nodup ∧ (∀ q, q ∈ ["q1", "q0"] ↔ q ∈ C06b.evenA.Q) ∧
    ["q0", "q1"].Nodup ∧ (∀ q, q ∈ ["q0", "q1"] ↔ q ∈ C06b.evenA.Q) := by
  refine ⟨by decide, by decide, by decide, ?_, by decide, ?_, by decide, ?_⟩
  · intro a ha
    simp only [C06b.evenA, List.mem_cons, List.not_mem_nil, or_false] at ha
    rcases ha with rfl | rfl
    · exact ⟨'a', rfl, by decide⟩
    · exact ⟨'b', rfl, by decide⟩
  · intro q; simp [C06b.evenA]; exact Or.comm
  · intro q; simp [C06b.evenA]

/-- the text of the answer key and its verdict, evaluated directly (independent of the theorem) -/
example : gnfaNames C06b.evenA.Q = ("start", "accept") ∧
    RegexpText.printSimple (C06b.evenA.toRegexp (gnfaNames C06b.evenA.Q).1 (gnfaNames C06b.evenA.Q).2 ["q1", "q0"]) =
      "(ab*a+b)*" ∧
    RegexpText.parseSimple "(ab*a+b)*" =
      some (.star (.sum (.cat (.cat (.sym "a") (.star (.sym "b"))) (.sym "a")) (.sym "b"))) ∧
    Check.equalLanguages
      ((Regexp.star (.sum (.cat (.cat (.sym "a") (.star (.sym "b"))) (.sym "a")) (.sym "b"))).wordsUpTo 3)
      (C06b.evenA.wordsUpTo 3) = true := by
  refine ⟨by decide, by decide, by decide +kernel, by decide +kernel⟩

/- `C13e.exNamed`: a DFA that already has states called `start` and `accept`: the generated names are `start1`,
   `accept1`, they are fresh, and the theorem applies -/
example : gnfaNames C13e.exNamed.Q = ("start1", "accept1") := by decide

example (len : Nat) :
    ∃ r', RegexpText.parseSimple (RegexpText.printSimple
        (C13e.exNamed.toRegexp (gnfaNames C13e.exNamed.Q).1 (gnfaNames C13e.exNamed.Q).2 ["accept", "start"])) = some r' ∧
      Check.equalLanguages (r'.wordsUpTo len) (C13e.exNamed.wordsUpTo len) = true :=
  own_dfa2regexp_ok C13e.exNamed (by decide) (by decide) (by decide)
    (by
      intro a ha
      simp only [C13e.exNamed, List.mem_cons, List.not_mem_nil, or_false] at ha
      subst ha
      exact ⟨'a', rfl, by decide⟩)
    ["accept", "start"] (by decide) (by intro q; simp [C13e.exNamed]; exact Or.comm) len

/-- `hsig` cannot be dropped (`C13e.exLong`): with the two-letter symbol `ab` the printed answer key `abab*`
    re-parses as a concatenation of the symbols `a` and `b`, and the checker rejects it -/
example : C13e.exLong.valid = true ∧ (C13e.exLong.delta.map (·.1)).Nodup ∧ C13e.exLong.Q.Nodup ∧
    RegexpText.printSimple (C13e.exLong.toRegexp (gnfaNames C13e.exLong.Q).1 (gnfaNames C13e.exLong.Q).2 ["p", "q"]) =
      "abab*" ∧
    RegexpText.parseSimple "abab*" =
      some (.cat (.cat (.cat (.sym "a") (.sym "b")) (.sym "a")) (.star (.sym "b"))) ∧
    Check.equalLanguages
      ((Regexp.cat (.cat (.cat (.sym "a") (.sym "b")) (.sym "a")) (.star (.sym "b"))).wordsUpTo 2)
      (C13e.exLong.wordsUpTo 2) = false := by
  refine ⟨by decide, by decide, by decide, by decide, by decide +kernel, by decide +kernel⟩

/-! ### minimal DFA, clean state names -/

/-- minimal-DFA exercise, quotient answer: no naming hypothesis left but cleanness of the names of `D` -/
theorem own_minimal_quotient_ok_clean (D : DFA String String) (hv : D.valid = true) (hQ : D.Q.Nodup)
    (hn : ∀ q, q ∈ D.Q → CleanName q) (len : Nat) :
    ∃ M, D.quotient = .ok M ∧ Check.minimalCheck D (M.mapStates printStateSet) len = .ok true := by
  obtain ⟨M, hM, _, _, hMN, _, _⟩ := quotient_spec D hv hQ
  exact ⟨M, hM, own_minimal_quotient_ok D hv hQ len M hM (C13e.nerode_names_inj hMN hn)⟩

example : exC04b.valid = true ∧ exC04b.Q.Nodup ∧ (∀ q, q ∈ exC04b.Q → CleanName q) ∧
    exC04b.quotient = .ok C13a.exQuot ∧
    (C13a.exQuot.mapStates printStateSet).Q = ["{3}", "{0}", "{1,2}"] := by
  refine ⟨by decide, by decide, by decide, by rfl, ?_⟩
  rw [C13a.exQuot_named]; rfl

example (len : Nat) : Check.minimalCheck exC04b (C13a.exQuot.mapStates printStateSet) len = .ok true := by
  obtain ⟨M, hM, h⟩ := own_minimal_quotient_ok_clean exC04b (by decide) (by decide) (by decide) len
  have h0 : exC04b.quotient = .ok C13a.exQuot := by rfl
  rw [h0] at hM
  cases hM
  exact h

/-- … and the Hopcroft answer, for every pop order -/
theorem own_minimal_hopcroft_ok_clean (D : DFA String String) (hv : D.valid = true) (hQ : D.Q.Nodup)
    (hn : ∀ q, q ∈ D.Q → CleanName q) (len : Nat) (s : Sched) (M : DFA (List String) String) (hM : D.hopcroft s = .ok M) :
    Check.minimalCheck D (M.mapStates printStateSet) len = .ok true := by
  obtain ⟨_, _, hMN, _, _⟩ := hopcroft_spec D hv hQ s M hM
  exact own_minimal_hopcroft_ok D hv hQ len s M hM (C13e.nerode_names_inj hMN hn)

example (len : Nat) : exC04b.hopcroft [2, 0, 1] = .ok C13a.exHop ∧
    Check.minimalCheck exC04b (C13a.exHop.mapStates printStateSet) len = .ok true :=
  ⟨by rfl, own_minimal_hopcroft_ok_clean exC04b (by decide) (by decide) (by decide) len [2, 0, 1] C13a.exHop (by rfl)⟩

example : C04c.exD.valid = true ∧ C04c.exD.Q.Nodup ∧ (∀ q, q ∈ C04c.exD.Q → CleanName q) ∧
    (C04c.exD.hopcroft []).toOption.map (·.Q) = some [["q3"], ["q1", "q2"], ["q0"], ["q4"]] := by
  refine ⟨by decide, by decide, by decide, by rfl⟩

/-- cleanness cannot be dropped altogether: with a state named `""` … the recorded naming defect
    (`printStateSet_collision_empty_name`) makes two different blocks print alike -/
example : printStateSet [""] = printStateSet [] := printStateSet_collision_empty_name

#print axioms own_dfa2regexp_ok
#print axioms own_minimal_quotient_ok_clean
#print axioms own_minimal_hopcroft_ok_clean

end Gamba
