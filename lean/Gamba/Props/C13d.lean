/-
  Gamba.Props.C13d — the library's own answer key of the derivation exercises passes the library's own checker:
  for a valid CNF grammar in the simple notebook format (one character per symbol) and a non-empty word of its
  language, the text `' => '.join(''.join(e) for e in cfg_derive_word(G, w, leftmost))` is accepted by
  `check_cfg_derivation(G, text, w, leftmost / rightmost)`.
-/
import Gamba.Model.CFG
import Gamba.Model.Simulate
import Gamba.Model.Keys
import Gamba.Model.Check
import Gamba.Spec.CFG
import Gamba.Spec.Trace
import Gamba.Props.C15b
import Gamba.Proofs.C13d
namespace Gamba

theorem own_derivation_ok (G : CFG) (hc : G.isChomsky = true) (hv : G.valid = true) (hS : G.S ∈ G.V) (hn : G.SimpleNames)
    (w : List String) (hw : w ≠ []) (hL : G.Lang w) (leftmost : Bool) :
    ∃ d, G.deriveWord w leftmost = .ok d ∧
      Check.derivationCheck G (Keys.printDerivation d) w (if leftmost then 1 else 2) = true := by
  obtain ⟨d, hd, hvd⟩ := cfg_derive_valid G hc hv hS w hw hL leftmost
  obtain ⟨hok, hnn, hsteps⟩ := C13d.validDerivation_facts hv hS hw hvd
  exact ⟨d, hd, C13d.derivationCheck_print hn hok hnn hvd.1 hsteps hvd.2.2⟩

namespace C13d

/-- the grammar `C15b.exG` (S → a | A B, A → a, B → b) is written in the simple format -/
theorem exG_simple : C15b.exG.SimpleNames where
  vars := by
    intro A hA
    simp only [C15b.exG, List.mem_cons, List.not_mem_nil, or_false] at hA
    rcases hA with rfl | rfl | rfl
    · exact ⟨'S', by decide, by decide⟩
    · exact ⟨'A', by decide, by decide⟩
    · exact ⟨'B', by decide, by decide⟩
  terms := by
    intro a ha
    simp only [C15b.exG, List.mem_cons, List.not_mem_nil, or_false] at ha
    rcases ha with rfl | rfl
    · exact ⟨'a', by decide, by decide, by decide, by decide, by decide⟩
    · exact ⟨'b', by decide, by decide, by decide, by decide, by decide⟩

end C13d

-- the hypotheses hold on a concrete CNF grammar (three variables) and a word of length two
example : C15b.exG.isChomsky = true ∧ C15b.exG.valid = true ∧ C15b.exG.S ∈ C15b.exG.V ∧ C15b.exG.SimpleNames ∧
    ["a", "b"] ≠ ([] : List String) ∧ C15b.exG.Lang ["a", "b"] :=
  ⟨by decide, by decide, by decide, C13d.exG_simple, by decide, C15b.exG_lang⟩

-- the answer keys (leftmost, rightmost) ...
example : ∃ d, C15b.exG.deriveWord ["a", "b"] true = .ok d ∧ Keys.printDerivation d = "S => AB => aB => ab" :=
  ⟨_, rfl, by decide +kernel⟩
example : ∃ d, C15b.exG.deriveWord ["a", "b"] false = .ok d ∧ Keys.printDerivation d = "S => AB => Ab => ab" :=
  ⟨_, rfl, by decide +kernel⟩
example : ∃ d, C15b.exG2.deriveWord ["a", "a", "b"] true = .ok d ∧
    Keys.printDerivation d = "S => AB => AAB => aAB => aaB => aab" :=
  ⟨_, rfl, by decide +kernel⟩

-- ... are accepted by the checker, which is not trivial: the rightmost key is rejected as a leftmost derivation,
-- and so are a key for another word and a key with a skipped step
example : Check.derivationCheck C15b.exG "S => AB => aB => ab" ["a", "b"] 1 = true := by decide +kernel
example : Check.derivationCheck C15b.exG "S => AB => Ab => ab" ["a", "b"] 2 = true := by decide +kernel
example : Check.derivationCheck C15b.exG "S => AB => Ab => ab" ["a", "b"] 1 = false := by decide +kernel
example : Check.derivationCheck C15b.exG "S => AB => aB => ab" ["a", "b"] 2 = false := by decide +kernel
example : Check.derivationCheck C15b.exG "S => a" ["a", "b"] 1 = false := by decide +kernel
example : Check.derivationCheck C15b.exG "S => AB => ab" ["a", "b"] 1 = false := by decide +kernel

example : ∃ d, C15b.exG.deriveWord ["a", "b"] true = .ok d ∧
    Check.derivationCheck C15b.exG (Keys.printDerivation d) ["a", "b"] 1 = true :=
  own_derivation_ok C15b.exG (by decide) (by decide) (by decide) C13d.exG_simple ["a", "b"] (by decide)
    C15b.exG_lang true

#print axioms own_derivation_ok

end Gamba
