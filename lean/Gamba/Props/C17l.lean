/-
  Gamba.Props.C17l — layout independence of the automaton text format (C17): a description parses to the
  same automaton whatever the order of its lines, with comment and blank lines, with extra white space, and
  with the labels of an edge on one line or spread over several lines.
  Definitions used (Proofs/C17l.lean): `Parse.parseLines` (the line parser on a list of lines),
  `Parse.isSkipLine` (blank line or `%` comment), `Parse.unwords` (`" ".join`), `Parse.normLines` (the word lists
  of the lines that are not skipped), `Parse.Raw.Equiv`, `Parse.parseDfaLines` / `Parse.parseNfaLines` (`parse_dfa` / `parse_nfa` on a list of lines).
-/
import Gamba.Proofs.C17l
namespace Gamba
open Parse

/-! ### the parser is a fold over the lines of the text -/

theorem parseRaw_eq_parseLines (k : Parse.Kind) (ok : Parse.Word → Bool) (text : Parse.Word) :
    Parse.parseRaw k ok text = Parse.parseLines k ok (Text.splitOn '\n' text) := rfl

theorem parseDfa_eq_parseDfaLines (text : Parse.Word) (ok : Parse.Word → Bool) :
    Parse.parseDfa text ok = Parse.parseDfaLines (Text.splitOn '\n' text) ok := rfl

/-! ### 1 — comments and blank lines -/

/-- a blank line or a `%` comment can be inserted or removed anywhere -/
theorem parseLines_skip (k : Parse.Kind) (ok : Parse.Word → Bool) (pre post : List Parse.Word) (l : Parse.Word)
    (hl : Parse.isSkipLine l = true) :
    Parse.parseLines k ok (pre ++ l :: post) = Parse.parseLines k ok (pre ++ post) := by
  rw [parseLines_eq_norm, parseLines_eq_norm, normLines_append, normLines_append, normLines_cons_skip hl]

example : Parse.isSkipLine "  % the start state".toList = true ∧ Parse.isSkipLine " \t ".toList = true ∧
    Parse.isSkipLine "".toList = true ∧ Parse.isSkipLine "%".toList = true ∧ Parse.isSkipLine "p q %".toList = false := by
  decide

/-! ### 2 — white space -/

/-- the parser only sees the words of a line -/
theorem parseLine_ws (k : Parse.Kind) (ok : Parse.Word → Bool) (st : Parse.Raw) (l l' : Parse.Word)
    (h : Text.splitWs (Text.strip l) = Text.splitWs (Text.strip l')) :
    Parse.parseLine k ok st l = Parse.parseLine k ok st l' := by
  rw [parseLine_eq', parseLine_eq', h]

/-- two texts whose lines have, one by one, the same words parse alike -/
theorem parseLines_ws (k : Parse.Kind) (ok : Parse.Word → Bool) (ls ls' : List Parse.Word)
    (h : ls.map (fun l => Text.splitWs (Text.strip l)) = ls'.map (fun l => Text.splitWs (Text.strip l))) :
    Parse.parseLines k ok ls = Parse.parseLines k ok ls' := by
  rw [parseLines_eq_norm, parseLines_eq_norm, normLines_congr h]

example : ["p q a b".toList, "initial p".toList].map (fun l => Text.splitWs (Text.strip l)) =
    ["  p\tq   a b ".toList, "initial\t\tp\r".toList].map (fun l => Text.splitWs (Text.strip l)) := by decide

/-! ### 3 — several labels on one line, or one line per group of labels -/

/-- a transition line `p q l₁ … lₘ lₘ₊₁ … lₙ` can be cut into `p q l₁ … lₘ` and `p q lₘ₊₁ … lₙ`
    (`p` not a declaration keyword; the words contain no white space) -/
theorem parseLines_split_labels (k : Parse.Kind) (ok : Parse.Word → Bool) (pre post : List Parse.Word)
    (p q : Parse.Word) (ls1 ls2 : List Parse.Word) (hp : Text.Token p) (hq : Text.Token q)
    (hl1 : ∀ w, w ∈ ls1 → Text.Token w) (hl2 : ∀ w, w ∈ ls2 → Text.Token w) (hne1 : ls1 ≠ []) (hne2 : ls2 ≠ [])
    (hkw : Text.str p ∉ ["states", "final", "initial"] ++ Parse.keywords k) :
    Parse.parseLines k ok (pre ++ Parse.unwords (p :: q :: (ls1 ++ ls2)) :: post) =
      Parse.parseLines k ok (pre ++ Parse.unwords (p :: q :: ls1) :: Parse.unwords (p :: q :: ls2) :: post) :=
  foldlM_append_congr pre fun st =>
    foldlM_parseLine_split_labels k ok st post p q ls1 ls2 hp hq hl1 hl2 hne1 hne2 hkw

example : Parse.unwords ("p".toList :: "q".toList :: (["a".toList] ++ ["b".toList, "c".toList])) = "p q a b c".toList ∧
    Parse.unwords ("p".toList :: "q".toList :: ["a".toList]) = "p q a".toList ∧
    Parse.unwords ("p".toList :: "q".toList :: ["b".toList, "c".toList]) = "p q b c".toList ∧
    Text.str "p".toList ∉ ["states", "final", "initial"] ++ Parse.keywords .dfa := by decide

/-- the keyword condition is needed: `states p q` is not `states p` followed by `states q` -/
example : Parse.parseLines .dfa Parse.isWord ["states p q".toList] =
      .ok { states := ["p", "q"], items := [("states", ["p", "q"])] } ∧
    Parse.parseLines .dfa Parse.isWord ["states p".toList, "states q".toList] = .error .runtimeError := ⟨rfl, rfl⟩

/-! ### 4 — the order of the lines -/

/-- a permutation of the lines of a text that parses also parses, to an equivalent record: same `states`,
    `initial`, `final`, same declarations, the same transition entries in a possibly different order -/
theorem parseLines_perm (k : Parse.Kind) (ok : Parse.Word → Bool) (ls ls' : List Parse.Word) (hp : ls.Perm ls')
    (A : Parse.Raw) (h : Parse.parseLines k ok ls = .ok A) :
    ∃ A', Parse.parseLines k ok ls' = .ok A' ∧ Parse.Raw.Equiv A A' := by
  have he := parseLines_layout k ok (normLines_perm hp)
  rw [h] at he
  exact he.ok_left

/-- … and a permutation of the lines of a text that is rejected is rejected -/
theorem parseLines_perm_error (k : Parse.Kind) (ok : Parse.Word → Bool) (ls ls' : List Parse.Word) (hp : ls.Perm ls')
    (e : Err) (h : Parse.parseLines k ok ls = .error e) : ∃ e', Parse.parseLines k ok ls' = .error e' := by
  have he := parseLines_layout k ok (normLines_perm hp)
  rw [h] at he
  cases h' : Parse.parseLines k ok ls' with
  | error e' => exact ⟨e', rfl⟩
  | ok A' => rw [h'] at he; exact absurd he (by simp [ExEquiv])

/-- a repeated declaration is rejected wherever the two lines stand -/
example : ["final p".toList, "p p a".toList, "final q".toList].Perm ["final q".toList, "final p".toList, "p p a".toList] ∧
    Parse.parseLines .dfa Parse.isWord ["final p".toList, "p p a".toList, "final q".toList] = .error .runtimeError ∧
    Parse.parseLines .dfa Parse.isWord ["final q".toList, "final p".toList, "p p a".toList] = .error .runtimeError :=
  ⟨by decide, rfl, rfl⟩

/-- 1, 2 and 4 together: only the multiset of the word lists of the non-comment, non-blank lines matters -/
theorem parseLines_layout_independent (k : Parse.Kind) (ok : Parse.Word → Bool) (ls ls' : List Parse.Word)
    (hp : (Parse.normLines ls).Perm (Parse.normLines ls')) (A : Parse.Raw) (h : Parse.parseLines k ok ls = .ok A) :
    ∃ A', Parse.parseLines k ok ls' = .ok A' ∧ Parse.Raw.Equiv A A' := by
  have he := parseLines_layout k ok hp
  rw [h] at he
  exact he.ok_left

def C17.lines1 : List Parse.Word :=
  ["states p q".toList, "initial p".toList, "final q".toList, "p q a b".toList, "q p a b".toList]

/-- the same description: shuffled, commented, re-spaced -/
def C17.lines2 : List Parse.Word :=
  ["% a shuffled copy".toList, "  q   p\ta b ".toList, "".toList, "final q".toList, "initial   p".toList,
   "%% transitions of p".toList, " p q a b".toList, "states  p q \r".toList]

example : C17.lines1.Perm ["q p a b".toList, "final q".toList, "initial p".toList, "p q a b".toList, "states p q".toList] := by
  decide

example : (Parse.normLines C17.lines1).Perm (Parse.normLines C17.lines2) := by decide

example : Parse.parseLines .dfa Parse.isWord C17.lines1 =
      .ok { states := ["p", "q"], initial := ["p"], final := ["q"],
            items := [("states", ["p", "q"]), ("initial", ["p"]), ("final", ["q"])],
            transitions := [("p", ['a'], "q"), ("p", ['b'], "q"), ("q", ['a'], "p"), ("q", ['b'], "p")] } ∧
    Parse.parseLines .dfa Parse.isWord C17.lines2 =
      .ok { states := ["p", "q"], initial := ["p"], final := ["q"],
            items := [("final", ["q"]), ("initial", ["p"]), ("states", ["p", "q"])],
            transitions := [("q", ['a'], "p"), ("q", ['b'], "p"), ("p", ['a'], "q"), ("p", ['b'], "q")] } := ⟨rfl, rfl⟩

/-! ### 5 — the DFA builder -/

/-- a permutation of the lines of a text that `parse_dfa` accepts is accepted, and gives the same initial state,
    the same final states, the same alphabet (as a set), the same transition function, and the same states —
    as a list up to order in general (`Perm`), and literally the same list if the text has a `states` line (see
    `parseDfa_lines_perm_partial`).  The literal equality `D'.Q = D.Q` of the requested statement fails without
    a `states` line (`parseDfa_lines_perm_stmt_false`). -/
theorem parseDfa_lines_perm (ok : Parse.Word → Bool) (ls ls' : List Parse.Word) (hp : ls.Perm ls')
    (D : DFA String String) (h : Parse.parseDfaLines ls ok = .ok D) :
    ∃ D', Parse.parseDfaLines ls' ok = .ok D' ∧ D'.Q.Perm D.Q ∧ (∀ q, q ∈ D'.Q ↔ q ∈ D.Q) ∧ D'.q0 = D.q0 ∧ D'.F = D.F ∧
      (∀ a, a ∈ D'.Sigma ↔ a ∈ D.Sigma) ∧ ∀ k, D'.delta.lookup k = D.delta.lookup k := by
  obtain ⟨A0, D', _, hD', hQ, _, hq0, hF, hS, hl, _⟩ := parseDfaLines_layout ok (normLines_perm hp) h
  exact ⟨D', hD', hQ, fun q => hQ.mem_iff, hq0, hF, hS, hl⟩

/-- with an explicit `states` line the state list is literally the same -/
theorem parseDfa_lines_perm_partial (ok : Parse.Word → Bool) (ls ls' : List Parse.Word) (hp : ls.Perm ls')
    (D : DFA String String) (h : Parse.parseDfaLines ls ok = .ok D)
    (hst : ∃ l rest, l ∈ ls ∧ Text.splitWs (Text.strip l) = "states".toList :: rest) :
    ∃ D', Parse.parseDfaLines ls' ok = .ok D' ∧ D'.Q = D.Q ∧ D'.q0 = D.q0 ∧ D'.F = D.F ∧
      (∀ a, a ∈ D'.Sigma ↔ a ∈ D.Sigma) ∧ ∀ k, D'.delta.lookup k = D.delta.lookup k := by
  obtain ⟨A0, D', h0, hD', _, hQ, hq0, hF, hS, hl, _⟩ := parseDfaLines_layout ok (normLines_perm hp) h
  obtain ⟨l, rest, hl', hw⟩ := hst
  exact ⟨D', hD', hQ (parseLines_states_ne .dfa ok hl' hw h0), hq0, hF, hS, hl⟩

/-- the statement as requested, with `D'.Q = D.Q` and no `states` line required -/
def parseDfa_lines_perm_stmt : Prop :=
  ∀ (ok : Parse.Word → Bool) (ls ls' : List Parse.Word) (_ : ls.Perm ls') (D : DFA String String)
    (_ : Parse.parseDfaLines ls ok = .ok D),
    ∃ D', Parse.parseDfaLines ls' ok = .ok D' ∧ D'.Q = D.Q ∧ D'.q0 = D.q0 ∧ D'.F = D.F ∧
      (∀ a, a ∈ D'.Sigma ↔ a ∈ D.Sigma) ∧ ∀ k, D'.delta.lookup k = D.delta.lookup k

def C17.noStates1 : List Parse.Word := ["initial p".toList, "p q a".toList, "q p a".toList]
def C17.noStates2 : List Parse.Word := ["initial p".toList, "q p a".toList, "p q a".toList]

/-- without a `states` line the state list is collected from the transitions, in an order that depends on the
    order of the lines -/
theorem C17.noStates_eval :
    Parse.parseDfaLines C17.noStates1 =
      .ok { Q := ["q", "p"], Sigma := ["a"], q0 := "p", F := [], delta := [(("p", "a"), "q"), (("q", "a"), "p")] } ∧
    Parse.parseDfaLines C17.noStates2 =
      .ok { Q := ["p", "q"], Sigma := ["a"], q0 := "p", F := [], delta := [(("q", "a"), "p"), (("p", "a"), "q")] } :=
  ⟨rfl, rfl⟩

theorem parseDfa_lines_perm_stmt_false : ¬ parseDfa_lines_perm_stmt := by
  intro H
  obtain ⟨D', h1, h2, _⟩ := H Parse.isWord C17.noStates1 C17.noStates2 (by decide) _ C17.noStates_eval.1
  rw [C17.noStates_eval.2] at h1
  cases h1
  revert h2
  decide

/-- the 5-line DFA and three other layouts of it -/
def C17.text1 : List Char := "states p q\ninitial p\nfinal q\np q a b\nq p a b".toList

/-- declarations reordered, comments and blank lines added, white space changed, the labels of `q p` on two
    lines; the transition entries come in the same order, so the result is literally the same -/
def C17.text2 : List Char :=
  "% a DFA\n\nfinal   q\n p  q\ta b \nstates p q\n%% second state\nq p a\n   q p   b\ninitial p\n".toList

/-- the transition lines swapped as well -/
def C17.text3 : List Char := "q p a b\nfinal q\ninitial p\np q a b\nstates p q".toList

example : Parse.parseDfa C17.text1 =
    .ok { Q := ["p", "q"], Sigma := ["a", "b"], q0 := "p", F := ["q"],
          delta := [(("p", "a"), "q"), (("p", "b"), "q"), (("q", "a"), "p"), (("q", "b"), "p")] } := by rfl

example : Parse.parseDfa C17.text2 = Parse.parseDfa C17.text1 := by rfl

example : Parse.parseDfa C17.text3 =
    .ok { Q := ["p", "q"], Sigma := ["a", "b"], q0 := "p", F := ["q"],
          delta := [(("q", "a"), "p"), (("q", "b"), "p"), (("p", "a"), "q"), (("p", "b"), "q")] } := by rfl

example : (Text.splitOn '\n' C17.text1).Perm (Text.splitOn '\n' C17.text3) ∧
    (∃ l rest, l ∈ Text.splitOn '\n' C17.text1 ∧ Text.splitWs (Text.strip l) = "states".toList :: rest) :=
  ⟨by decide, "states p q".toList, ["p".toList, "q".toList], by decide, by decide⟩

/-! ### 5′ — the NFA builder -/

theorem parseNfa_eq_parseNfaLines (text : Parse.Word) (ok : Parse.Word → Bool) :
    Parse.parseNfa text ok = Parse.parseNfaLines (Text.splitOn '\n' text) ok := rfl

/-- a permutation of the lines of a text that `parse_nfa` accepts is accepted, and gives the same initial state,
    final states and ε symbol, the same alphabet (as a set), the same states (up to order) and the same set of
    successors for every state and symbol -/
theorem parseNfa_lines_perm (ok : Parse.Word → Bool) (ls ls' : List Parse.Word) (hp : ls.Perm ls')
    (N : NFA String String) (h : Parse.parseNfaLines ls ok = .ok N) :
    ∃ N', Parse.parseNfaLines ls' ok = .ok N' ∧ N'.Q.Perm N.Q ∧ (∀ q, q ∈ N'.Q ↔ q ∈ N.Q) ∧ N'.q0 = N.q0 ∧ N'.F = N.F ∧
      N'.eps = N.eps ∧ (∀ a, a ∈ N'.Sigma ↔ a ∈ N.Sigma) ∧ ∀ p a x, x ∈ N'.succ p a ↔ x ∈ N.succ p a := by
  obtain ⟨A0, N', _, hN', hQ, _, hq0, hF, he, hS, hl⟩ := parseNfaLines_layout ok (normLines_perm hp) h
  exact ⟨N', hN', hQ, fun q => hQ.mem_iff, hq0, hF, he, hS, hl⟩

/-- with an explicit `states` line the state list is literally the same -/
theorem parseNfa_lines_perm_states (ok : Parse.Word → Bool) (ls ls' : List Parse.Word) (hp : ls.Perm ls')
    (N : NFA String String) (h : Parse.parseNfaLines ls ok = .ok N)
    (hst : ∃ l rest, l ∈ ls ∧ Text.splitWs (Text.strip l) = "states".toList :: rest) :
    ∃ N', Parse.parseNfaLines ls' ok = .ok N' ∧ N'.Q = N.Q ∧ N'.q0 = N.q0 ∧ N'.F = N.F ∧ N'.eps = N.eps ∧
      (∀ a, a ∈ N'.Sigma ↔ a ∈ N.Sigma) ∧ ∀ p a x, x ∈ N'.succ p a ↔ x ∈ N.succ p a := by
  obtain ⟨A0, N', h0, hN', _, hQ, hq0, hF, he, hS, hl⟩ := parseNfaLines_layout ok (normLines_perm hp) h
  obtain ⟨l, rest, hl', hw⟩ := hst
  exact ⟨N', hN', hQ (parseLines_states_ne .nfa ok hl' hw h0), hq0, hF, he, hS, hl⟩

def C17.nfaLines1 : List Parse.Word :=
  ["states p q r".toList, "initial p".toList, "final r".toList, "p q a".toList, "p r a ε".toList, "q r b".toList]

def C17.nfaLines2 : List Parse.Word :=
  ["p r a ε".toList, "q r b".toList, "final r".toList, "p q a".toList, "states p q r".toList, "initial p".toList]

/-- the successor sets and the (undeclared) alphabet come out in a different order: `δ(p, a)` is `[q, r]` in one
    layout and `[r, q]` in the other -/
example : C17.nfaLines1.Perm C17.nfaLines2 ∧
    Parse.parseNfaLines C17.nfaLines1 =
      .ok { Q := ["p", "q", "r"], Sigma := ["a", "b"], q0 := "p", F := ["r"], eps := "ε",
            delta := [(("p", "a"), ["q", "r"]), (("p", "ε"), ["r"]), (("q", "b"), ["r"])] } ∧
    Parse.parseNfaLines C17.nfaLines2 =
      .ok { Q := ["p", "q", "r"], Sigma := ["b", "a"], q0 := "p", F := ["r"], eps := "ε",
            delta := [(("p", "a"), ["r", "q"]), (("p", "ε"), ["r"]), (("q", "b"), ["r"])] } :=
  ⟨by decide, rfl, rfl⟩

example : ∃ l rest, l ∈ C17.nfaLines1 ∧ Text.splitWs (Text.strip l) = "states".toList :: rest :=
  ⟨"states p q r".toList, ["p".toList, "q".toList, "r".toList], by decide, by decide⟩

/-! ### 6 — any layout of the printed text of a DFA -/

/-- the most general form: a text whose non-comment, non-blank lines have the same words as those of
    `print_dfa D`, in any order, parses to `D` (same members / lookups) -/
theorem parse_any_layout_dfa_words (D : DFA String String) (hv : D.valid = true) (hk : (D.delta.map (·.1)).Nodup)
    (hQ : ∀ q, q ∈ D.Q → Parse.DfaNameOk q) (hS : ∀ a, a ∈ D.Sigma → Parse.isWord a.toList = true)
    (text : List Char)
    (hp : (Parse.normLines (Text.splitOn '\n' text)).Perm (Parse.normLines (Text.splitOn '\n' (Parse.printDfa D).toList))) :
    ∃ D', Parse.parseDfa text = .ok D' ∧
      (∀ q, q ∈ D'.Q ↔ q ∈ D.Q) ∧ (∀ a, a ∈ D'.Sigma ↔ a ∈ D.Sigma) ∧ D'.q0 = D.q0 ∧ (∀ q, q ∈ D'.F ↔ q ∈ D.F) ∧
      ∀ k, D'.delta.lookup k = D.delta.lookup k := by
  obtain ⟨D1, hp1, _, hQ1, hS1, hq1, hF1, hd1⟩ := Parse.parse_print_dfa_explicit D hv hk hQ hS
  rw [parseDfa_eq_parseDfaLines] at hp1
  obtain ⟨A0, D', _, hD', gQ, _, gq0, gF, gS, gl, _⟩ := parseDfaLines_layout Parse.isWord hp.symm hp1
  refine ⟨D', by rw [parseDfa_eq_parseDfaLines]; exact hD', ?_, ?_, gq0.trans hq1, ?_, ?_⟩
  · intro q; rw [gQ.mem_iff, hQ1]; exact mem_sortStrings_dedup
  · intro a; rw [gS a, hS1, mem_dedup]; exact mem_sortStrings_dedup
  · intro q; rw [gF, hF1]; exact mem_sortStrings_dedup
  · intro k
    rw [gl k]
    exact lookup_eq_of_perm hd1 ((hd1.map (·.1)).nodup_iff.mpr hk) k

/-- any permutation of the lines of `print_dfa D`, with comment and blank lines `cs` inserted anywhere, parses
    to `D` (hypotheses of `parse_print_dfa`) -/
theorem parse_any_layout_dfa (D : DFA String String) (hv : D.valid = true) (hk : (D.delta.map (·.1)).Nodup)
    (hQ : ∀ q, q ∈ D.Q → Parse.DfaNameOk q) (hS : ∀ a, a ∈ D.Sigma → Parse.isWord a.toList = true)
    (text : List Char) (cs : List Parse.Word) (hcs : ∀ c, c ∈ cs → Parse.isSkipLine c = true)
    (hp : (Text.splitOn '\n' text).Perm (Text.splitOn '\n' (Parse.printDfa D).toList ++ cs)) :
    ∃ D', Parse.parseDfa text = .ok D' ∧
      (∀ q, q ∈ D'.Q ↔ q ∈ D.Q) ∧ (∀ a, a ∈ D'.Sigma ↔ a ∈ D.Sigma) ∧ D'.q0 = D.q0 ∧ (∀ q, q ∈ D'.F ↔ q ∈ D.F) ∧
      ∀ k, D'.delta.lookup k = D.delta.lookup k := by
  apply parse_any_layout_dfa_words D hv hk hQ hS text
  have := normLines_perm hp
  rw [normLines_append, normLines_all_skip hcs, List.append_nil] at this
  exact this

/-- the DFA of Props/C16a (unsorted declarations, two labels on one edge): its printed text, and a shuffled and
    commented layout of it -/
def C17.exD : DFA String String :=
  { Q := ["q", "p"], Sigma := ["b", "a"], q0 := "p", F := [],
    delta := [(("p", "b"), "q"), (("p", "a"), "q"), (("q", "a"), "q"), (("q", "b"), "p")] }

example : C17.exD.valid = true ∧ (C17.exD.delta.map (·.1)).Nodup ∧ (∀ q, q ∈ C17.exD.Q → Parse.DfaNameOk q) ∧
    (∀ a, a ∈ C17.exD.Sigma → Parse.isWord a.toList = true) := by
  refine ⟨by decide, by decide, ?_, by decide⟩
  unfold Parse.DfaNameOk
  decide

/-- the printed text is `"states p q\nfinal \ninitial p\ninput_symbols a b\np q b a\nq p b\nq q a"`
    (`C16.exD_print` in Props/C16a.lean); this is a permutation of its lines with two comment lines and a blank one -/
def C17.exShuffled : List Char :=
  "% shuffled\nq q a\ninput_symbols a b\nq p b\n\nfinal \nstates p q\n% the only two-label edge\np q b a\ninitial p".toList

example : (Text.splitOn '\n' C17.exShuffled).Perm
    (Text.splitOn '\n' "states p q\nfinal \ninitial p\ninput_symbols a b\np q b a\nq p b\nq q a".toList ++
      ["% shuffled".toList, "".toList, "% the only two-label edge".toList]) ∧
    (∀ c, c ∈ ["% shuffled".toList, "".toList, "% the only two-label edge".toList] → Parse.isSkipLine c = true) := by
  decide

example : Parse.parseDfa C17.exShuffled =
    .ok { Q := ["p", "q"], Sigma := ["a", "b"], q0 := "p", F := [],
          delta := [(("q", "a"), "q"), (("q", "b"), "p"), (("p", "b"), "q"), (("p", "a"), "q")] } := by rfl

#print axioms parseRaw_eq_parseLines
#print axioms parseDfa_eq_parseDfaLines
#print axioms parseLines_skip
#print axioms parseLine_ws
#print axioms parseLines_ws
#print axioms parseLines_split_labels
#print axioms parseLines_perm
#print axioms parseLines_perm_error
#print axioms parseLines_layout_independent
#print axioms parseDfa_lines_perm
#print axioms parseDfa_lines_perm_partial
#print axioms parseDfa_lines_perm_stmt_false
#print axioms parseNfa_eq_parseNfaLines
#print axioms parseNfa_lines_perm
#print axioms parseNfa_lines_perm_states
#print axioms parse_any_layout_dfa_words
#print axioms parse_any_layout_dfa

end Gamba
