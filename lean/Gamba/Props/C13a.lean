/-
  Gamba.Props.C13a — the exercise checkers of the notebooks (Model/Check.lean) ACCEPT the library's own answers:
  the object returned by the generator function of each exercise passes the checker of that exercise.
-/
import Gamba.Model.Check
import Gamba.Proofs.C13a
namespace Gamba
open Check C14a C14b

/-! ### complement -/

/-- complement exercise: `dfa_complement(D)` passes `check_dfa_complement`
    (`hv` is not needed: the comparison is structural; `hk` = unique keys, as in every Python dict) -/
theorem own_complement_ok (D : DFA String String) (hv : D.valid = true) (hk : (D.delta.map (·.1)).Nodup) :
    Check.complementCheck D D.complement = true := by
  have _ := hv
  unfold Check.complementCheck
  simp only [C13a.seq_refl, decide_true, Bool.and_true, Bool.true_and]
  exact C13a.deltaEq_refl _ hk

example : exD1.valid = true ∧ (exD1.delta.map (·.1)).Nodup ∧ Check.complementCheck exD1 exD1.complement = true := by
  decide

/-- without `hk` the statement fails in the association-list model: a shadowed second binding of a key is
    compared with the first one -/
example : C14b.exDup.valid = true ∧ Check.complementCheck C14b.exDup C14b.exDup.complement = false := by decide

/-! ### language from a word list -/

/-- language-from-words exercise: the word list generated from the reference passes for the reference itself -/
theorem own_language_ok (D : DFA String String) (len maxStates : Nat) (hm : maxStates = 0 ∨ D.Q.length ≤ maxStates) :
    Check.languageFromWords D.Q.length maxStates (D.wordsUpTo len) (D.wordsUpTo len) = true := by
  unfold Check.languageFromWords
  rw [Bool.and_eq_true, C12a.maxStatesOk_iff]
  exact ⟨hm, C13a.compare_refl _⟩

example : (2 = 0 ∨ exD1.Q.length ≤ 2) ∧
    Check.languageFromWords exD1.Q.length 2 (exD1.wordsUpTo 3) (exD1.wordsUpTo 3) = true := by decide
-- no state limit
example : Check.languageFromWords exD1.Q.length 0 (exD1.wordsUpTo 3) (exD1.wordsUpTo 3) = true :=
  own_language_ok exD1 3 0 (Or.inl rfl)
-- the hypothesis is needed: with a limit below the size of the reference the reference itself is rejected
example : Check.languageFromWords exD1.Q.length 1 (exD1.wordsUpTo 3) (exD1.wordsUpTo 3) = false := by decide

/-! ### product automata -/

/-- product exercises: the library's product automaton passes its checker.
    (`hn2` had to be strengthened from the placeholder `True`: see the counterexample below.) -/
theorem own_product_ok (t : ProductType) (D1 D2 : DFA String String) (len : Nat)
    (h1 : D1.valid = true) (h2 : D2.valid = true) (hS : ∀ a, a ∈ D1.Sigma ↔ a ∈ D2.Sigma)
    (hn1 : ∀ q, q ∈ D1.Q → ',' ∉ q.toList) (hn2 : ∀ q, q ∈ D2.Q → ',' ∉ q.toList) :
    Check.productCheck t D1 D2 ((D1.product D2 t).mapStates productName) len = some true :=
  C13a.productCheck_self t D1 D2 len h1 h2 hS hn1 hn2

example : exD1.valid = true ∧ exD2.valid = true ∧ (∀ a, a ∈ exD1.Sigma ↔ a ∈ exD2.Sigma) ∧
    (∀ q, q ∈ exD1.Q → ',' ∉ q.toList) ∧ (∀ q, q ∈ exD2.Q → ',' ∉ q.toList) ∧
    Check.productCheck .union exD1 exD2 ((exD1.product exD2 .union).mapStates productName) 3 = some true :=
  ⟨exD1_valid, exD2_valid, exD12_sigma, by decide, by decide, by decide⟩
example : Check.productCheck .intersection exD1 exD2
      ((exD1.product exD2 .intersection).mapStates productName) 3 = some true ∧
    Check.productCheck .symmetricDifference exD1 exD2
      ((exD1.product exD2 .symmetricDifference).mapStates productName) 3 = some true := by decide

/-- a comma in a state name of the SECOND automaton: `extract_states` cuts the name at the comma, the label is not a
    state of `D2`, and the library's own product automaton is rejected (so `hn2` cannot be `True`) -/
example : C13a.exComma.valid = true ∧ (∀ q, q ∈ exD1.Q → ',' ∉ q.toList) ∧
    Check.productCheck .union exD1 C13a.exComma ((exD1.product C13a.exComma .union).mapStates productName) 2 =
      some false := by decide
/-- … and in a state name of the FIRST automaton -/
example : Check.productCheck .union C13a.exComma exD1 ((C13a.exComma.product exD1 .union).mapStates productName) 2 =
      some false := by decide

/-! ### reverse -/

/-- reverse exercise: `dfa_reverse(D)` (fresh initial state `fresh_state(D.Q, 'q')`, ε-label `ε`) passes
    `check_dfa_reverse`, for every pop order of the NFA enumeration -/
theorem own_reverse_ok (D : DFA String String) (hv : D.valid = true) (hk : (D.delta.map (·.1)).Nodup) (s : Sched) (len : Nat)
    (he : "ε" ∉ D.Sigma) :
    Check.reverseCheck D (D.reverse (freshState D.Q "q") "ε") s len = .ok true :=
  C13a.reverseCheck_self D hv hk _ _ (freshState_fresh D.Q "q") he s len

example : C14b.exD.valid = true ∧ (C14b.exD.delta.map (·.1)).Nodup ∧ "ε" ∉ C14b.exD.Sigma ∧
    freshState C14b.exD.Q "q" = "q1" ∧
    Check.reverseCheck C14b.exD (C14b.exD.reverse (freshState C14b.exD.Q "q") "ε") [1, 3, 4] 3 = .ok true :=
  ⟨by decide, by decide, by decide, by decide, rfl⟩

/-! ### minimal DFA -/

/-- minimal-DFA exercise: the quotient answer (the checker's own reference) passes -/
theorem own_minimal_quotient_ok (D : DFA String String) (hv : D.valid = true) (hQ : D.Q.Nodup) (len : Nat)
    (M : DFA (List String) String) (hM : D.quotient = .ok M)
    (hinj : ∀ B C, B ∈ M.Q → C ∈ M.Q → printStateSet B = printStateSet C → B = C) :
    Check.minimalCheck D (M.mapStates printStateSet) len = .ok true := by
  obtain ⟨M0, hM0, hMv, hMS, hMN, hML, _⟩ := quotient_spec D hv hQ
  rw [hM] at hM0
  cases hM0
  exact C13a.minimalCheck_of_nerode D hv hQ len M hMv hMS hMN hML hinj

example : exC04b.valid = true ∧ exC04b.Q.Nodup ∧ exC04b.quotient = .ok C13a.exQuot ∧
    (∀ B C, B ∈ C13a.exQuot.Q → C ∈ C13a.exQuot.Q → printStateSet B = printStateSet C → B = C) ∧
    (C13a.exQuot.mapStates printStateSet).Q = ["{3}", "{0}", "{1,2}"] ∧
    Check.minimalCheck exC04b (C13a.exQuot.mapStates printStateSet) 4 = .ok true := by
  refine ⟨by decide, by decide, by rfl, C13a.ex_names_inj _ (by decide), ?_, ?_⟩ <;> rw [C13a.exQuot_named] <;> rfl

/-- … and so does the Hopcroft answer, for every pop order -/
theorem own_minimal_hopcroft_ok (D : DFA String String) (hv : D.valid = true) (hQ : D.Q.Nodup) (len : Nat) (s : Sched)
    (M : DFA (List String) String) (hM : D.hopcroft s = .ok M)
    (hinj : ∀ B C, B ∈ M.Q → C ∈ M.Q → printStateSet B = printStateSet C → B = C) :
    Check.minimalCheck D (M.mapStates printStateSet) len = .ok true := by
  obtain ⟨hMv, hMS, hMN, hML, _⟩ := hopcroft_spec D hv hQ s M hM
  exact C13a.minimalCheck_of_nerode D hv hQ len M hMv hMS hMN hML hinj

example : exC04b.hopcroft [2, 0, 1] = .ok C13a.exHop ∧
    (∀ B C, B ∈ C13a.exHop.Q → C ∈ C13a.exHop.Q → printStateSet B = printStateSet C → B = C) ∧
    Check.minimalCheck exC04b (C13a.exHop.mapStates printStateSet) 4 = .ok true := by
  refine ⟨by rfl, C13a.ex_names_inj _ (by decide), ?_⟩
  rw [C13a.exHop_named]; rfl

/-! ### Chomsky phases -/

/-- the statement as first requested (without `hd0`, `hd1`) -/
def own_chomsky_ok_stmt : Prop :=
  ∀ (G : CFG) (phase : Nat) (start : String) (len : Nat),
    G.valid = true → G.S ∈ G.V → CFG.AliasOK G →
    (∀ a, a ∈ G.Sigma → a ∉ G.V ∧ a ≠ CFG.freshVariable G.V start) → start ∉ G.V →
    Check.chomskyCheck G (G.applyChomsky phase start) phase start len = true

/-- … is FALSE in the model: `X → A | bbb` with the upper-case TERMINAL `A`, phase 4, start variable `T`.
    Phase 4 names the new variable for `bb` `A`; `cfg_words_up_to_n` normalises the answer key again and its
    unit-rule phase (`rhs[0] in V`, a comparison of strings) takes the terminal of `T → A` for that variable, so the
    enumeration of the answer key contains `bb` and the library's own answer key is rejected. -/
theorem own_chomsky_ok_stmt_false : ¬ own_chomsky_ok_stmt := by
  intro h
  have := h C13a.cexG 4 "T" 3 C13a.cexG_valid C13a.cexG_S C13a.cexG_alias C13a.cexG_hd (by decide)
  rw [C13a.cexG_rejected] at this
  cases this

/-- Chomsky exercise: the answer key of every phase passes.  Two hypotheses had to be added to the requested
    statement (see `own_chomsky_ok_stmt_false`); both say that terminals are not mistaken for variables when
    `cfg_words_up_to_n` normalises a grammar that is not in CNF:
    `hd0` — for the input grammar (start hint `"S"` of `cfg_to_chomsky`),
    `hd1` — for the answer key of phases 0–4 (the answer key of phase 5 is in CNF and is enumerated as it is).
    Both hold whenever no terminal is an upper-case letter / a name `fresh_variable` can produce; for phases ≤ 3
    `hd1` follows from a condition on the input (`own_chomsky_ok_le3`). -/
theorem own_chomsky_ok (G : CFG) (phase : Nat) (start : String) (len : Nat)
    (hv : G.valid = true) (hS : G.S ∈ G.V) (ha : CFG.AliasOK G)
    (hd : ∀ a, a ∈ G.Sigma → a ∉ G.V ∧ a ≠ CFG.freshVariable G.V start)
    (hstart : start ∉ G.V)
    (hd0 : ∀ a, a ∈ G.Sigma → a ≠ CFG.freshVariable G.V "S")
    (hd1 : phase ≤ 4 → ∀ a, a ∈ G.Sigma →
      a ∉ (G.applyChomsky phase start).V ∧ a ≠ CFG.freshVariable (G.applyChomsky phase start).V "S") :
    Check.chomskyCheck G (G.applyChomsky phase start) phase start len = true :=
  C13a.chomskyCheck_self G phase start len hv hS ha hd hstart hd0 hd1

/-- `S → aSb | ε`, new start variable `T`: the hypotheses hold and the answer key of EVERY phase passes, for every
    length bound -/
example (phase len : Nat) : C13a.exS.valid = true ∧ C13a.exS.S ∈ C13a.exS.V ∧ CFG.AliasOK C13a.exS ∧
    (∀ a, a ∈ C13a.exS.Sigma → a ∉ C13a.exS.V ∧ a ≠ CFG.freshVariable C13a.exS.V "T") ∧ "T" ∉ C13a.exS.V ∧
    (∀ a, a ∈ C13a.exS.Sigma → a ≠ CFG.freshVariable C13a.exS.V "S") ∧
    (phase ≤ 4 → ∀ a, a ∈ C13a.exS.Sigma → a ∉ (C13a.exS.applyChomsky phase "T").V ∧
      a ≠ CFG.freshVariable (C13a.exS.applyChomsky phase "T").V "S") ∧
    Check.chomskyCheck C13a.exS (C13a.exS.applyChomsky phase "T") phase "T" len = true :=
  ⟨C13a.exS_valid, C13a.exS_S, C13a.exS_alias, C13a.exS_hd, by decide, C13a.exS_hd0, C13a.exS_hd1 phase,
    own_chomsky_ok C13a.exS phase "T" len C13a.exS_valid C13a.exS_S C13a.exS_alias C13a.exS_hd (by decide)
      C13a.exS_hd0 (C13a.exS_hd1 phase)⟩

/-- the answer key of phase 3 for `S → aSb | ε`, and the verdict evaluated directly -/
example : (C13a.exS.applyChomsky 3 "T").R =
      [⟨"T", 4, []⟩, ⟨"S", 5, [.t "a", .v "S", .t "b"]⟩, ⟨"S", 6, [.t "a", .t "b"]⟩,
       ⟨"T", 5, [.t "a", .v "S", .t "b"]⟩, ⟨"T", 6, [.t "a", .t "b"]⟩] ∧
    Check.chomskyCheck C13a.exS (C13a.exS.applyChomsky 3 "T") 3 "T" 4 = true := by decide +kernel

/-- the counterexample grammar satisfies every hypothesis but `hd1` -/
example : C13a.cexG.valid = true ∧ C13a.cexG.S ∈ C13a.cexG.V ∧ CFG.AliasOK C13a.cexG ∧
    (∀ a, a ∈ C13a.cexG.Sigma → a ∉ C13a.cexG.V ∧ a ≠ CFG.freshVariable C13a.cexG.V "T") ∧ "T" ∉ C13a.cexG.V ∧
    (∀ a, a ∈ C13a.cexG.Sigma → a ≠ CFG.freshVariable C13a.cexG.V "S") ∧
    "A" ∈ C13a.cexG.Sigma ∧ "A" ∈ (C13a.cexG.applyChomsky 4 "T").V ∧
    Check.chomskyCheck C13a.cexG (C13a.cexG.applyChomsky 4 "T") 4 "T" 3 = false :=
  ⟨C13a.cexG_valid, C13a.cexG_S, C13a.cexG_alias, C13a.cexG_hd, by decide, C13a.cexG_hd0, by decide,
    by rw [C13a.cexG_key.1]; decide, C13a.cexG_rejected⟩

/-- the structural part (new start variable, no ε-rules except for it, no unit rules, right-hand sides of length
    ≤ 2, CNF shape — as far as the phase requires) holds under the originally requested hypotheses alone -/
theorem own_chomsky_struct_ok (G : CFG) (phase : Nat) (start : String)
    (hv : G.valid = true) (hS : G.S ∈ G.V) (ha : CFG.AliasOK G)
    (hd : ∀ a, a ∈ G.Sigma → a ∉ G.V ∧ a ≠ CFG.freshVariable G.V start)
    (hstart : start ∉ G.V) :
    C13a.chomskyStruct (G.applyChomsky phase start) phase start = true ∧
    ∀ len, Check.chomskyCheck G (G.applyChomsky phase start) phase start len =
      (compareLanguages ((G.applyChomsky phase start).wordsUpTo len) (G.wordsUpTo len)).isNone := by
  have h := C13a.chomskyStruct_self G phase start hv hS ha hd hstart
  refine ⟨h, fun len => ?_⟩
  rw [C13a.chomskyCheck_eq, h, Bool.and_true]

example : C13a.chomskyStruct (C13a.cexG.applyChomsky 4 "T") 4 "T" = true :=
  (own_chomsky_struct_ok C13a.cexG 4 "T" C13a.cexG_valid C13a.cexG_S C13a.cexG_alias C13a.cexG_hd (by decide)).1

/-- phases 0–3 introduce no variable but the new start variable, so the extra hypotheses can be stated on the input:
    no terminal is the start variable that `cfg_to_chomsky` would add to `G` or to `G` extended by `start` -/
theorem own_chomsky_ok_le3 (G : CFG) (phase : Nat) (start : String) (len : Nat) (h3 : phase ≤ 3)
    (hv : G.valid = true) (hS : G.S ∈ G.V) (ha : CFG.AliasOK G)
    (hd : ∀ a, a ∈ G.Sigma → a ∉ G.V ∧ a ≠ CFG.freshVariable G.V start)
    (hstart : start ∉ G.V)
    (hd0 : ∀ a, a ∈ G.Sigma → a ≠ CFG.freshVariable G.V "S")
    (hd0' : ∀ a, a ∈ G.Sigma → a ≠ CFG.freshVariable (G.V ++ [start]) "S") :
    Check.chomskyCheck G (G.applyChomsky phase start) phase start len = true := by
  apply own_chomsky_ok G phase start len hv hS ha hd hstart hd0
  intro _
  apply C13a.hd1_of_le3 G phase start h3 hd hd0
  rw [C13a.freshVariable_of_not_mem hstart]
  exact hd0'

example (len : Nat) : (∀ a, a ∈ C13a.exS.Sigma → a ≠ CFG.freshVariable (C13a.exS.V ++ ["T"]) "S") ∧
    Check.chomskyCheck C13a.exS (C13a.exS.applyChomsky 2 "T") 2 "T" len = true :=
  ⟨by decide, own_chomsky_ok_le3 C13a.exS 2 "T" len (by decide) C13a.exS_valid C13a.exS_S C13a.exS_alias
    C13a.exS_hd (by decide) C13a.exS_hd0 (by decide)⟩

#print axioms own_complement_ok
#print axioms own_language_ok
#print axioms own_product_ok
#print axioms own_reverse_ok
#print axioms own_minimal_quotient_ok
#print axioms own_minimal_hopcroft_ok
#print axioms own_chomsky_ok_stmt_false
#print axioms own_chomsky_ok
#print axioms own_chomsky_struct_ok
#print axioms own_chomsky_ok_le3

end Gamba
