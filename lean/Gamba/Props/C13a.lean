/-
  Gamba.Props.C13a — the exercise checkers of the notebooks (Model/Check.lean) ACCEPT the library's own answers:
  the object returned by the generator function of each exercise passes the checker of that exercise.
-/
import Gamba.Model.Check
import Gamba.Proofs.C13a
namespace Gamba
open Check C14a C14b

/-! ### complement -/

/-- complement exercise: `dfa_complement(D)` passes `check_dfa_complement`
    (`hv` is not needed: the comparison is structural; `hk` = unique keys, as in every Python dict) -/
theorem own_complement_ok (D : DFA String String) (hv : D.valid = true) (hk : (D.delta.map (·.1)).Nodup) :
    Check.complementCheck D D.complement = true := by
  have _ := hv
  unfold Check.complementCheck
  simp only [C13a.seq_refl, decide_true, Bool.and_true, Bool.true_and]
  exact C13a.deltaEq_refl _ hk

example : exD1.valid = true ∧ (exD1.delta.map (·.1)).Nodup ∧ Check.complementCheck exD1 exD1.complement = true := by
  decide

/-- without `hk` the statement fails in the association-list model: a shadowed second binding of a key is
    compared with the first one -/
example : C14b.exDup.valid = true ∧ Check.complementCheck C14b.exDup C14b.exDup.complement = false := by decide

/-! ### language from a word list -/

/-- language-from-words exercise: the word list generated from the reference passes for the reference itself -/
theorem own_language_ok (D : DFA String String) (len maxStates : Nat) (hm : maxStates = 0 ∨ D.Q.length ≤ maxStates) :
    Check.languageFromWords D.Q.length maxStates (D.wordsUpTo len) (D.wordsUpTo len) = true := by
  unfold Check.languageFromWords
  rw [Bool.and_eq_true, C12a.maxStatesOk_iff]
  exact ⟨hm, C13a.compare_refl _⟩

example : (2 = 0 ∨ exD1.Q.length ≤ 2) ∧
    Check.languageFromWords exD1.Q.length 2 (exD1.wordsUpTo 3) (exD1.wordsUpTo 3) = true := by decide
-- no state limit
example : Check.languageFromWords exD1.Q.length 0 (exD1.wordsUpTo 3) (exD1.wordsUpTo 3) = true :=
  own_language_ok exD1 3 0 (Or.inl rfl)
-- the hypothesis is needed: with a limit below the size of the reference the reference itself is rejected
example : Check.languageFromWords exD1.Q.length 1 (exD1.wordsUpTo 3) (exD1.wordsUpTo 3) = false := by decide

/-! ### product automata -/

/-- product exercises: the library's product automaton passes its checker.
    (`hn2` had to be strengthened from the placeholder `True`: see the counterexample below.) -/
theorem own_product_ok (t : ProductType) (D1 D2 : DFA String String) (len : Nat)
    (h1 : D1.valid = true) (h2 : D2.valid = true) (hS : ∀ a, a ∈ D1.Sigma ↔ a ∈ D2.Sigma)
    (hn1 : ∀ q, q ∈ D1.Q → ',' ∉ q.toList) (hn2 : ∀ q, q ∈ D2.Q → ',' ∉ q.toList) :
    Check.productCheck t D1 D2 ((D1.product D2 t).mapStates productName) len = some true :=
  C13a.productCheck_self t D1 D2 len h1 h2 hS hn1 hn2

example : exD1.valid = true ∧ exD2.valid = true ∧ (∀ a, a ∈ exD1.Sigma ↔ a ∈ exD2.Sigma) ∧
    (∀ q, q ∈ exD1.Q → ',' ∉ q.toList) ∧ (∀ q, q ∈ exD2.Q → ',' ∉ q.toList) ∧
    Check.productCheck .union exD1 exD2 ((exD1.product exD2 .union).mapStates productName) 3 = some true :=
  ⟨exD1_valid, exD2_valid, exD12_sigma, by decide, by decide, by decide⟩
example : Check.productCheck .intersection exD1 exD2
      ((exD1.product exD2 .intersection).mapStates productName) 3 = some true ∧
    Check.productCheck .symmetricDifference exD1 exD2
      ((exD1.product exD2 .symmetricDifference).mapStates productName) 3 = some true := by decide

/-- a comma in a state name of the SECOND automaton: `extract_states` cuts the name at the comma, the label is not a
    state of `D2`, and the library's own product automaton is rejected (so `hn2` cannot be `True`) -/
example : C13a.exComma.valid = true ∧ (∀ q, q ∈ exD1.Q → ',' ∉ q.toList) ∧
    Check.productCheck .union exD1 C13a.exComma ((exD1.product C13a.exComma .union).mapStates productName) 2 =
      some false := by decide
/-- … and in a state name of the FIRST automaton -/
example : Check.productCheck .union C13a.exComma exD1 ((C13a.exComma.product exD1 .union).mapStates productName) 2 =
      some false := by decide

#print axioms own_complement_ok
#print axioms own_language_ok
#print axioms own_product_ok

end Gamba
