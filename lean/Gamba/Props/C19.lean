/-
  Gamba.Props.C19 — determinism of the observable results and absence of operand mutation.

  PART A: alias micro-model (`Gamba.Model.Heap`).  The repaired `nfa_repetition` / `nfa_concatenation`
  (which copy δ's set objects) never write to a pre-existing address, hence leave their operands intact;
  the original versions (which shared the set objects) do modify their operand.
  PART B: order-independence corollaries of theorems proved for C01–C09, C20: every routine whose control flow
  depends on a `set.pop()` / set-iteration order returns the same observable value for every order.
-/
import Gamba.Model.Heap
import Gamba.Proofs.C19
import Gamba.Props.C01
import Gamba.Props.C02reg
import Gamba.Props.C03
import Gamba.Props.C04a
import Gamba.Props.C04b
import Gamba.Props.C04c
import Gamba.Props.C06b
import Gamba.Props.C08b
import Gamba.Props.C09
import Gamba.Props.C20
namespace Gamba
open Heap
variable {σ τ : Type} [DecidableEq σ] [DecidableEq τ]

-- `hwf`/`h1`/`h2` of the requested frame signatures are not needed (reads outside the store give `[]`);
-- `hQ` is not needed by the minimisation theorems
set_option linter.unusedVariables false

/-! ## PART A — the alias micro-model -/

/-- the repaired constructions never write to an address that existed before the call: every old address keeps its content -/
theorem repetitionCopied_frame (N : Heap.HNFA σ τ) (h : Heap.Store σ) (q0 : σ) (hwf : N.WF h) (a : Heap.Addr) (ha : a < h.length) :
    (Heap.repetitionCopied N h q0).2.read a = h.read a :=
  (Heap.repetitionCopied_frameOK N h q0).2 a ha

theorem concatCopied_frame (N1 N2 : Heap.HNFA σ τ) (h : Heap.Store σ) (h1 : N1.WF h) (h2 : N2.WF h) (a : Heap.Addr) (ha : a < h.length) :
    (Heap.concatCopied N1 N2 h).2.read a = h.read a :=
  (Heap.concatCopied_frameOK N1 N2 h).2 a ha

/-- hence the observable content of the operands is unchanged -/
theorem repetitionCopied_operand_intact (N : Heap.HNFA σ τ) (h : Heap.Store σ) (q0 : σ) (hwf : N.WF h) :
    N.view (Heap.repetitionCopied N h q0).2 = N.view h :=
  Heap.view_eq_of_frame N hwf (Heap.repetitionCopied_frameOK N h q0)

theorem concatCopied_operands_intact (N1 N2 : Heap.HNFA σ τ) (h : Heap.Store σ) (h1 : N1.WF h) (h2 : N2.WF h) :
    N1.view (Heap.concatCopied N1 N2 h).2 = N1.view h ∧ N2.view (Heap.concatCopied N1 N2 h).2 = N2.view h :=
  ⟨Heap.view_eq_of_frame N1 h1 (Heap.concatCopied_frameOK N1 N2 h),
   Heap.view_eq_of_frame N2 h2 (Heap.concatCopied_frameOK N1 N2 h)⟩

namespace C19
/-- `p -a-> f`, and an ε-transition `f -ε-> p` out of the final state `f`; the two target sets live at addresses 0 and 1 -/
def exN : Heap.HNFA String String :=
  { Q := ["p", "f"], delta := [(("p", "a"), 0), (("f", "eps"), 1)], q0 := "p", F := ["f"], eps := "eps" }
/-- a second operand (for concatenation): `r -b-> r`, target set at address 2 -/
def exN2 : Heap.HNFA String String :=
  { Q := ["r"], delta := [(("r", "b"), 2)], q0 := "r", F := ["r"], eps := "eps" }
def exH : Heap.Store String := [["f"], ["p"], ["r"]]

theorem exN_wf : exN.WF exH := by
  intro e he
  simp only [exN, List.mem_cons, List.not_mem_nil, or_false] at he
  rcases he with rfl | rfl <;> decide
theorem exN2_wf : exN2.WF exH := by
  intro e he
  simp only [exN2, List.mem_cons, List.not_mem_nil, or_false] at he
  subst he; decide

/-- two keys that share one set object (address 0): allowed by `WF` -/
def exAlias : Heap.HNFA String String :=
  { Q := ["f", "g"], delta := [(("f", "e"), 0), (("g", "a"), 0)], q0 := "f", F := ["f"], eps := "e" }
def exAliasH : Heap.Store String := [["g"]]
theorem exAlias_wf : exAlias.WF exAliasH := by
  intro e he
  simp only [exAlias, List.mem_cons, List.not_mem_nil, or_false] at he
  rcases he with rfl | rfl <;> decide
end C19

-- non-vacuity: the operands are well-formed, non-empty, and the repaired versions do write (to fresh cells only)
example : C19.exN.WF C19.exH ∧ C19.exN2.WF C19.exH ∧ (1 : Heap.Addr) < C19.exH.length := ⟨C19.exN_wf, C19.exN2_wf, by decide⟩
example : (Heap.repetitionCopied C19.exN C19.exH "s").2 = [["f"], ["p"], ["r"], ["f"], ["p"], ["p"], ["p"]] ∧
    (Heap.repetitionCopied C19.exN C19.exH "s").1.delta =
      [(("p", "a"), 3), (("f", "eps"), 4), (("s", "eps"), 6)] := by decide
example : (Heap.concatCopied C19.exN C19.exN2 C19.exH).2 = [["f"], ["p"], ["r"], ["f"], ["p", "r"], ["r"]] ∧
    (Heap.concatCopied C19.exN C19.exN2 C19.exH).1.delta =
      [(("p", "a"), 3), (("f", "eps"), 4), (("r", "b"), 5)] := by decide
example : C19.exN.view (Heap.repetitionCopied C19.exN C19.exH "s").2 = [(("p", "a"), ["f"]), (("f", "eps"), ["p"])] := by
  rw [repetitionCopied_operand_intact _ _ _ C19.exN_wf]; decide

/-- the ORIGINAL (shared) versions do modify their operand: concrete witnesses -/
theorem repetitionShared_mutates : ∃ (N : Heap.HNFA String String) (h : Heap.Store String) (q0 : String),
    N.WF h ∧ N.view (Heap.repetitionShared N h q0).2 ≠ N.view h :=
  ⟨{ C19.exN with q0 := "f" }, C19.exH, "s", C19.exN_wf, by decide⟩

theorem concatShared_mutates : ∃ (N1 N2 : Heap.HNFA String String) (h : Heap.Store String),
    N1.WF h ∧ N2.WF h ∧ N1.view (Heap.concatShared N1 N2 h).2 ≠ N1.view h :=
  ⟨C19.exN, C19.exN2, C19.exH, C19.exN_wf, C19.exN2_wf, by decide⟩

-- what the operand looks like after the original calls: the ε-target set of the final state `f` has grown
example : ({ C19.exN with q0 := "f" } : Heap.HNFA String String).view
      (Heap.repetitionShared { C19.exN with q0 := "f" } C19.exH "s").2 = [(("p", "a"), ["f"]), (("f", "eps"), ["p", "f"])] := by
  decide
example : C19.exN.view (Heap.concatShared C19.exN C19.exN2 C19.exH).2 = [(("p", "a"), ["f"]), (("f", "eps"), ["p", "r"])] := by
  decide

/-- the requested statement of `repetition_same_result` (keys of δ duplicate-free, no hypothesis on the addresses) -/
def repetition_same_result_stmt : Prop :=
  ∀ (σ τ : Type) [DecidableEq σ] [DecidableEq τ] (N : Heap.HNFA σ τ) (h : Heap.Store σ) (q0 : σ), N.WF h →
    (N.delta.map (·.1)).Nodup →
    ∀ k, ((Heap.repetitionCopied N h q0).1.delta.lookup k).map ((Heap.repetitionCopied N h q0).2.read) =
         ((Heap.repetitionShared N h q0).1.delta.lookup k).map ((Heap.repetitionShared N h q0).2.read)

/-- it is FALSE in the model: `WF` allows two keys of the operand to share one set object; the in-place update of the
    shared version then also changes the other key's set, the copying version does not. -/
theorem repetition_same_result_stmt_false : ¬ repetition_same_result_stmt := by
  intro hst
  have := hst String String C19.exAlias C19.exAliasH "s" C19.exAlias_wf (by decide) ("g", "a")
  revert this
  decide

/-- and the copied result is observably the same as what the shared version computes (the repair changes aliasing,
    not the result) — under the extra hypothesis that the operand itself has no aliasing (distinct keys own distinct
    set objects).  The key-`Nodup` hypothesis of the requested statement is not needed. -/
theorem repetition_same_result_partial (N : Heap.HNFA σ τ) (h : Heap.Store σ) (q0 : σ) (hwf : N.WF h)
    (hna : (N.delta.map (·.2)).Nodup) :
    ∀ k, ((Heap.repetitionCopied N h q0).1.delta.lookup k).map ((Heap.repetitionCopied N h q0).2.read) =
         ((Heap.repetitionShared N h q0).1.delta.lookup k).map ((Heap.repetitionShared N h q0).2.read) :=
  Heap.repetition_same_result_noalias N h q0 hwf hna

example : C19.exN.WF C19.exH ∧ (C19.exN.delta.map (·.2)).Nodup ∧
    ((Heap.repetitionCopied C19.exN C19.exH "s").1.delta.lookup ("f", "eps")).map ((Heap.repetitionCopied C19.exN C19.exH "s").2.read)
      = some ["p"] ∧
    ((Heap.repetitionShared C19.exN C19.exH "s").1.delta.lookup ("f", "eps")).map ((Heap.repetitionShared C19.exN C19.exH "s").2.read)
      = some ["p"] := ⟨C19.exN_wf, by decide, by decide, by decide⟩

/-! ## PART B — the observable value does not depend on the pop / iteration order -/

/-- acceptance tests and enumerators: identical VALUE for every pop order -/
theorem c19_nfa_accepts (N : NFA σ τ) (hv : N.valid = true) (s s' : Sched) (w : List τ) (hw : ∀ a, a ∈ w → a ∈ N.Sigma) :
    N.accepts s w = N.accepts s' w :=
  nfa_accepts_sched_indep N hv s s' w hw

example : C01.exNFA.valid = true ∧ (∀ a, a ∈ ["x", "y"] → a ∈ C01.exNFA.Sigma) ∧
    C01.exNFA.accepts [2, 0, 1] ["x", "y"] = .ok true ∧ C01.exNFA.accepts [7, 7, 7, 7] ["x", "y"] = .ok true :=
  ⟨by decide, by decide, rfl, rfl⟩

theorem c19_nfa_words (N : NFA σ τ) (hv : N.valid = true) (s s' : Sched) (n : Nat) :
    ∃ L L', N.wordsUpTo s n = .ok L ∧ N.wordsUpTo s' n = .ok L' ∧ ∀ w, w ∈ L ↔ w ∈ L' := by
  obtain ⟨L, hL, h⟩ := nfa_words_exact N hv s n
  obtain ⟨L', hL', h'⟩ := nfa_words_exact N hv s' n
  exact ⟨L, L', hL, hL', fun w => (h w).trans (h' w).symm⟩

example : C01.exNFA.valid = true ∧
    C01.exNFA.wordsUpTo [3, 1, 2, 5] 1 = .ok [[], ["x"], ["x"], ["x"], ["y"], ["y"], ["y"]] ∧
    C01.exNFA.wordsUpTo [] 1 = .ok [[], ["x"], ["x"], ["x"], ["y"], ["y"], ["y"]] :=
  ⟨by decide, rfl, rfl⟩

/-- subset construction: same language for every pop order -/
theorem c19_nfaToDfa (N : NFA σ τ) (hv : N.valid = true) (s s' : Sched) :
    ∃ D D', N.toDfaSets s = .ok D ∧ N.toDfaSets s' = .ok D' ∧
      ∀ w, (∀ a, a ∈ w → a ∈ N.Sigma) → (D.Accepts w ↔ D'.Accepts w) :=
  nfaToDfa_sched_indep N hv s s'

example : C03.exN.valid = true ∧ C03.exN.toDfaSets [] = .ok C03.exD := ⟨C03.exN_valid, rfl⟩

/-- Hopcroft: the same set of blocks for every pop order -/
theorem c19_hopcroft (D : DFA σ τ) (hv : D.valid = true) (hQ : D.Q.Nodup) (s s' : Sched) :
    ∃ M M', D.hopcroft s = .ok M ∧ D.hopcroft s' = .ok M' ∧
      ∀ B, B ∈ M.Q → ∃ B', B' ∈ M'.Q ∧ ∀ q, q ∈ B ↔ q ∈ B' := by
  obtain ⟨M, hM⟩ := hopcroft_terminates D hv hQ s
  obtain ⟨M', hM'⟩ := hopcroft_terminates D hv hQ s'
  have hN := (hopcroft_spec D hv hQ s M hM).2.2.1
  have hN' := (hopcroft_spec D hv hQ s' M' hM').2.2.1
  exact ⟨M, M', hM, hM', hN.block_corr hN'⟩

example : C04c.exD.valid = true ∧ C04c.exD.Q.Nodup ∧
    (C04c.exD.hopcroft []).toOption.map (·.Q) = some [["q3"], ["q1", "q2"], ["q0"], ["q4"]] ∧
    (C04c.exD.hopcroft [2, 0, 1]).toOption.map (·.Q) = some [["q3"], ["q1", "q2"], ["q0"], ["q4"]] :=
  ⟨by decide, by decide, rfl, rfl⟩

/-- the three minimisers agree with each other (same classes) -/
theorem c19_minimizers_agree (D : DFA σ τ) (hv : D.valid = true) (hQ : D.Q.Nodup) (s : Sched) :
    ∃ M1 M2 M3, D.minimizeTable = .ok M1 ∧ D.quotient = .ok M2 ∧ D.hopcroft s = .ok M3 ∧
      (∀ B, B ∈ M1.Q → ∃ B', B' ∈ M2.Q ∧ ∀ q, q ∈ B ↔ q ∈ B') ∧ (∀ B, B ∈ M2.Q → ∃ B', B' ∈ M3.Q ∧ ∀ q, q ∈ B ↔ q ∈ B') := by
  obtain ⟨M1, h1, _, _, hN1, _⟩ := minimizeTable_spec D hv hQ
  obtain ⟨M2, h2, _, _, hN2, _⟩ := quotient_spec D hv hQ
  obtain ⟨M3, h3⟩ := hopcroft_terminates D hv hQ s
  have hN3 := (hopcroft_spec D hv hQ s M3 h3).2.2.1
  exact ⟨M1, M2, M3, h1, h2, h3, hN1.block_corr hN2, hN2.block_corr hN3⟩

-- the three routines on one DFA: the same three classes, listed (and internally ordered) differently
example : exC04.valid = true ∧ exC04.Q.Nodup ∧
    exC04.minimizeTable.toOption.map (·.Q) = some [["q0"], ["q1", "q2"], ["q3"]] ∧
    exC04.quotient.toOption.map (·.Q) = some [["q3"], ["q0"], ["q1", "q2"]] ∧
    (exC04.hopcroft [1]).toOption.map (·.Q) = some [["q3"], ["q1", "q2"], ["q0"]] :=
  ⟨by decide, by decide, rfl, rfl, rfl⟩

/-- state elimination: the same LANGUAGE for every elimination order -/
theorem c19_toRegexp (D : DFA σ τ) (hv : D.valid = true) (hk : (D.delta.map (·.1)).Nodup) (hQ : D.Q.Nodup)
    (qs qa : σ) (hs : qs ∉ D.Q) (ha : qa ∉ D.Q) (hne : qs ≠ qa)
    (order order' : List σ) (ho : order.Nodup) (ho' : order'.Nodup)
    (hm : ∀ q, q ∈ order ↔ q ∈ D.Q) (hm' : ∀ q, q ∈ order' ↔ q ∈ D.Q) (w : List τ) :
    (D.toRegexp qs qa order).Lang w ↔ (D.toRegexp qs qa order').Lang w :=
  (toRegexp_lang D hv hk hQ qs qa hs ha hne order ho hm w).trans
    (toRegexp_lang D hv hk hQ qs qa hs ha hne order' ho' hm' w).symm

-- the two orders give different expressions, with the same language
example (w : List String) :
    (C06b.evenA.toRegexp "start" "accept" ["q0", "q1"]).Lang w ↔ (C06b.evenA.toRegexp "start" "accept" ["q1", "q0"]).Lang w :=
  c19_toRegexp C06b.evenA (by decide) (by decide) (by decide) "start" "accept" (by decide) (by decide)
    (by decide) ["q0", "q1"] ["q1", "q0"] (by decide) (by decide) (by intro q; simp [C06b.evenA])
    (by intro q; simp [C06b.evenA]; exact Or.comm) w
example : C06b.evenA.toRegexp "start" "accept" ["q0", "q1"] ≠ C06b.evenA.toRegexp "start" "accept" ["q1", "q0"] := by decide

/-- unit elimination: the same rule set for every iteration order of V -/
theorem c19_elimUnit (G : CFG) (V' : List String) (hp : ∀ A, A ∈ V' ↔ A ∈ G.V) (A : String) (rhs : List Sym) :
    ({ G with V := V' } : CFG).elimUnit.HasRule A rhs ↔ G.elimUnit.HasRule A rhs :=
  elimUnit_order_indep G V' hp A rhs

example : (∀ A, A ∈ ["B", "S", "A", "B"] ↔ A ∈ C08b.exG.V) ∧
    ({ C08b.exG with V := ["B", "S", "A", "B"] } : CFG).elimUnit.R =
      [⟨"S", 3, [.t "b"]⟩, ⟨"B", 3, [.t "b"]⟩, ⟨"A", 3, [.t "b"]⟩] := by
  refine ⟨?_, by decide⟩
  intro A; simp only [C08b.exG, List.mem_cons, List.not_mem_nil, or_false]
  constructor
  · rintro (h | h | h | h) <;> simp [h]
  · rintro (h | h | h) <;> simp [h]

/-- isomorphism tests: the same verdict for every exploration order -/
theorem c19_isomorphic {σ₂ : Type} [DecidableEq σ₂] (D1 : DFA σ τ) (D2 : DFA σ₂ τ) (h1 : D1.valid = true)
    (h2 : D2.valid = true) (hS : ∀ a, a ∈ D1.Sigma ↔ a ∈ D2.Sigma) (s s' : Sched) :
    D1.isomorphic1 D2 s = D1.isomorphic1 D2 s' ∧ D1.isomorphic D2 s = D1.isomorphic D2 s' ∧
      D1.isomorphic1 D2 s = D1.isomorphic D2 s' := by
  obtain ⟨b, e1, e2, _, _⟩ := isomorphic_agree D1 D2 h1 h2 hS s s'
  obtain ⟨b', e1', e2', _, _⟩ := isomorphic_agree D1 D2 h1 h2 hS s' s
  obtain ⟨b'', e1'', e2'', _, _⟩ := isomorphic_agree D1 D2 h1 h2 hS s s
  rw [e1] at e1''
  rw [e2'] at e2''
  cases e1''
  cases e2''
  exact ⟨e1.trans e1'.symm, e2'.trans e2.symm, e1.trans e2.symm⟩

example : C20.exA.valid = true ∧ C20.exB.valid = true ∧ (∀ a, a ∈ C20.exA.Sigma ↔ a ∈ C20.exB.Sigma) ∧
    C20.exA.isomorphic1 C20.exB [0, 1] = .ok true ∧ C20.exA.isomorphic1 C20.exB [4] = .ok true ∧
    C20.exA.isomorphic C20.exB [4] = .ok true :=
  ⟨C20.exA_valid, C20.exB_valid, C20.exAB_sigma, rfl, rfl, rfl⟩

/-- PDA acceptance below the limit: the same verdict for every pop order (and every limit), provided neither run was truncated -/
theorem c19_pda_accepts {γ : Type} [DecidableEq γ] (P : PDA σ τ γ) (hk : (P.delta.map (·.1)).Nodup) (hv : P.valid = true)
    (limit limit' : Nat) (s s' : Sched) (w : List τ) (hw : ∀ a, a ∈ w → a ∈ P.Sigma)
    (ht : (P.acceptsT limit s w).2 = false) (ht' : (P.acceptsT limit' s' w).2 = false) :
    P.accepts limit s w = P.accepts limit' s' w := by
  apply Bool.eq_iff_iff.mpr
  constructor
  · intro h
    exact pda_accepts_complete P hk hv limit' s' w hw ht' (pda_accepts_sound P hk hv limit s w hw h)
  · intro h
    exact pda_accepts_complete P hk hv limit s w hw ht (pda_accepts_sound P hk hv limit' s' w hw h)

example : (C09.exPDA.delta.map (·.1)).Nodup ∧ C09.exPDA.valid = true ∧
    (∀ a, a ∈ ["a", "a", "b", "b"] → a ∈ C09.exPDA.Sigma) ∧
    (C09.exPDA.acceptsT 1000 [] ["a", "a", "b", "b"]).2 = false ∧
    (C09.exPDA.acceptsT 50 [1, 2] ["a", "a", "b", "b"]).2 = false ∧
    C09.exPDA.accepts 1000 [] ["a", "a", "b", "b"] = true ∧ C09.exPDA.accepts 50 [1, 2] ["a", "a", "b", "b"] = true :=
  ⟨by decide, by decide, by decide, rfl, rfl, rfl, rfl⟩

#print axioms repetitionCopied_frame
#print axioms concatCopied_frame
#print axioms repetitionCopied_operand_intact
#print axioms concatCopied_operands_intact
#print axioms repetitionShared_mutates
#print axioms concatShared_mutates
#print axioms repetition_same_result_stmt_false
#print axioms repetition_same_result_partial
#print axioms c19_nfa_accepts
#print axioms c19_nfa_words
#print axioms c19_nfaToDfa
#print axioms c19_hopcroft
#print axioms c19_minimizers_agree
#print axioms c19_toRegexp
#print axioms c19_elimUnit
#print axioms c19_isomorphic
#print axioms c19_pda_accepts
end Gamba
