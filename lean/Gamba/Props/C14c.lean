/- Gamba.Props.C14c — finite-language helpers (language_algorithms.py) and `compare_languages`. -/
import Gamba.Model.Basic
import Gamba.Model.Lang
import Gamba.Proofs.Words
import Gamba.Proofs.C14c
namespace Gamba
variable {τ : Type} [DecidableEq τ]

theorem langUnion_spec (L1 L2 : List (List τ)) (w : List τ) : w ∈ langUnion L1 L2 ↔ w ∈ L1 ∨ w ∈ L2 := by
  simp [langUnion]

example : langUnion [[1], [1, 2]] [[1, 2], [3]] = [[1], [1, 2], [3]] := by decide

theorem langInter_spec (L1 L2 : List (List τ)) (w : List τ) : w ∈ langInter L1 L2 ↔ w ∈ L1 ∧ w ∈ L2 := by
  simp [langInter]

example : langInter [[1], [1, 2]] [[1, 2], [3]] = [[1, 2]] := by decide

theorem langSymDiff_spec (L1 L2 : List (List τ)) (w : List τ) :
    w ∈ langSymDiff L1 L2 ↔ (w ∈ L1 ∧ w ∉ L2) ∨ (w ∉ L1 ∧ w ∈ L2) := by
  simp only [langSymDiff, mem_sunion, mem_sdiff]
  constructor
  · rintro (⟨h1, h2⟩ | ⟨h1, h2⟩)
    · exact Or.inl ⟨h1, h2⟩
    · exact Or.inr ⟨h2, h1⟩
  · rintro (⟨h1, h2⟩ | ⟨h1, h2⟩)
    · exact Or.inl ⟨h1, h2⟩
    · exact Or.inr ⟨h2, h1⟩

example : langSymDiff [[1], [1, 2]] [[1, 2], [3]] = [[1], [3]] := by decide

theorem langConcat_spec (L1 L2 : List (List τ)) (w : List τ) :
    w ∈ langConcat L1 L2 ↔ ∃ u v, u ∈ L1 ∧ v ∈ L2 ∧ w = u ++ v := by
  simp only [langConcat, mem_dedup, List.mem_flatMap, List.mem_map]
  constructor
  · rintro ⟨u, hu, v, hv, rfl⟩; exact ⟨u, v, hu, hv, rfl⟩
  · rintro ⟨u, v, hu, hv, rfl⟩; exact ⟨u, hu, v, hv, rfl⟩

example : langConcat [[], [1]] [[1], [1, 1]] = [[1], [1, 1], [1, 1, 1]] := by decide

theorem langReverse_spec (L : List (List τ)) (w : List τ) : w ∈ langReverse L ↔ w.reverse ∈ L := by
  simp only [langReverse, mem_dedup, List.mem_map]
  constructor
  · rintro ⟨u, hu, rfl⟩; simpa using hu
  · intro h; exact ⟨w.reverse, h, List.reverse_reverse w⟩

example : langReverse [[1, 2], [2, 1], [3, 4, 5]] = [[2, 1], [1, 2], [5, 4, 3]] := by decide

/-- all words w in L such that no proper prefix of w is in L -/
theorem langNoPrefix_spec (L : List (List τ)) (w : List τ) :
    w ∈ langNoPrefix L ↔ w ∈ L ∧ ∀ u v, w = u ++ v → v ≠ [] → u ∉ L :=
  mem_langNoPrefix L w

example : langNoPrefix [[1], [1, 2]] = [[1]] := by decide
example : langNoPrefix [[1, 2, 3], [2], [1, 2], [2, 2]] = [[2], [1, 2]] := by decide
example : langNoPrefix [[], [1], [1, 2]] = [[]] := by decide

/-- all words w in L such that w is not a proper prefix of any word in L -/
theorem langNoExtend_spec (L : List (List τ)) (w : List τ) :
    w ∈ langNoExtend L ↔ w ∈ L ∧ ∀ v, v ≠ [] → w ++ v ∉ L :=
  mem_langNoExtend L w

example : langNoExtend [[1], [1, 2]] = [[1, 2]] := by decide
example : langNoExtend [[1, 2, 3], [2], [1, 2], [2, 2]] = [[1, 2, 3], [2, 2]] := by decide

omit [DecidableEq τ] in
theorem wordsOfLength_spec (Sigma : List τ) (n : Nat) (w : List τ) :
    w ∈ wordsOfLength Sigma n ↔ w.length = n ∧ ∀ a, a ∈ w → a ∈ Sigma :=
  mem_wordsOfLength Sigma n w

example : wordsOfLength [0, 1] 2 = [[0, 0], [0, 1], [1, 0], [1, 1]] := by decide

omit [DecidableEq τ] in
theorem wordsUpTo_spec (Sigma : List τ) (n : Nat) (w : List τ) :
    w ∈ wordsUpTo Sigma n ↔ w.length ≤ n ∧ ∀ a, a ∈ w → a ∈ Sigma :=
  mem_wordsUpTo Sigma n w

example : wordsUpTo [0, 1] 2 = [[], [0], [1], [0, 0], [0, 1], [1, 0], [1, 1]] := by decide

/-- `compare_languages` returns no feedback exactly when the two languages are equal as sets -/
theorem compare_none_iff (A1 A2 : List (List τ)) :
    compareLanguages A1 A2 = none ↔ ∀ w, w ∈ A1 ↔ w ∈ A2 :=
  compareLanguages_none A1 A2

-- equal as sets (different order, duplicates): no feedback
example : compareLanguages [[1], [1, 2], [1]] [[1, 2], [1]] = none := by decide

/-- a reported "should not be accepted" word is in the answer but not in the reference, and no shorter such word exists -/
theorem compare_extra (A1 A2 : List (List τ)) (w : List τ) (h : compareLanguages A1 A2 = some (w, true)) :
    w ∈ A1 ∧ w ∉ A2 ∧ ∀ v, v ∈ A1 → v ∉ A2 → w.length ≤ v.length :=
  compareLanguages_extra h

-- the answer has two extra words ([3,3,3] and [4]) and the reference a missing word ([2]):
-- the shortest extra word is reported, not the (equally short) missing one.
example : compareLanguages [[1], [3, 3, 3], [4]] [[1], [2]] = some ([4], true) := by decide
-- stable: first of the minimal-length extra words
example : compareLanguages [[5, 5], [3], [4]] ([] : List (List Nat)) = some ([3], true) := by decide
example : compareLanguages [['a', 'b'], ['a']] [['a']] = some (['a', 'b'], true) := by decide

/-- a reported "should be accepted" word is in the reference but not in the answer, minimal, and is only reported
    when the answer has no extra word at all (extra words are reported first) -/
theorem compare_missing (A1 A2 : List (List τ)) (w : List τ) (h : compareLanguages A1 A2 = some (w, false)) :
    w ∈ A2 ∧ w ∉ A1 ∧ (∀ v, v ∈ A2 → v ∉ A1 → w.length ≤ v.length) ∧ (∀ v, v ∈ A1 → v ∈ A2) :=
  compareLanguages_missing h

example : compareLanguages [[1]] [[1], [2, 2], [3]] = some ([3], false) := by decide
example : compareLanguages ([] : List (List Nat)) [[1, 1], [2, 2]] = some ([1, 1], false) := by decide

#print axioms langUnion_spec
#print axioms langInter_spec
#print axioms langSymDiff_spec
#print axioms langConcat_spec
#print axioms langReverse_spec
#print axioms langNoPrefix_spec
#print axioms langNoExtend_spec
#print axioms wordsOfLength_spec
#print axioms wordsUpTo_spec
#print axioms compare_none_iff
#print axioms compare_extra
#print axioms compare_missing

end Gamba
