/-
  Gamba.Props.C14n — the formal boundary of the hypotheses on the state names in the theorems about the
  product automaton the library REALLY returns, `(D1.product D2 t).mapStates productName` (pair `(p, q)` named
  `"(p,q)"`; `productAnswer_valid`, `own_product_ok`, … assume comma-free state names).

  `productName` is injective as soon as the first components (or the second components) contain no comma
  (`productName_inj`, `productName_inj_snd`).  Some such hypothesis is needed: with the states `a`, `a,b` in `D1`
  and `b,c`, `c` in `D2` the pairs `(a, "b,c")` and `("a,b", c)` are both named `"(a,b,c)"`
  (`productName_collision`), and the named union automaton accepts a word that neither operand accepts
  (`product_name_collision_witness`, the recorded defect `product-name-collision`).
-/
import Gamba.Model.DFA
import Gamba.Spec.Automata
import Gamba.Proofs.DFABasic
import Gamba.Proofs.C14n
namespace Gamba

/-- the product name determines the pair when the FIRST components are comma-free
    (nothing is assumed about the second components) -/
theorem productName_inj (p q : String × String) (hp : ',' ∉ p.1.toList) (hq : ',' ∉ q.1.toList)
    (h : productName p = productName q) : p = q := by
  obtain ⟨p1, p2⟩ := p
  obtain ⟨q1, q2⟩ := q
  exact C14n.productName_inj_left hp hq h

/-- non-vacuity: the second components may contain commas -/
example : ',' ∉ ("a", "b,c").1.toList ∧ ',' ∉ ("a", "b,c,d").1.toList ∧ ',' ∈ ("a", "b,c").2.toList := by
  refine ⟨?_, ?_, ?_⟩ <;> decide

/-- symmetrically: … when the SECOND components are comma-free -/
theorem productName_inj_snd (p q : String × String) (hp : ',' ∉ p.2.toList) (hq : ',' ∉ q.2.toList)
    (h : productName p = productName q) : p = q := by
  obtain ⟨p1, p2⟩ := p
  obtain ⟨q1, q2⟩ := q
  exact C14n.productName_inj_right hp hq h

example : ',' ∉ ("a,b", "c").2.toList ∧ ',' ∉ ("a", "c").2.toList ∧ ',' ∈ ("a,b", "c").1.toList := by
  refine ⟨?_, ?_, ?_⟩ <;> decide

/-- a hypothesis is needed: the collision that the real library exhibits -/
theorem productName_collision : productName ("a", "b,c") = productName ("a,b", "c") := by
  rw [C14n.name_a_bc, C14n.name_ab_c]

/-- … between two different pairs (one comma-free component on each side is not enough) -/
example : (("a", "b,c") : String × String) ≠ ("a,b", "c") ∧
    ',' ∉ ("a", "b,c").1.toList ∧ ',' ∉ ("a,b", "c").2.toList := by
  refine ⟨?_, ?_, ?_⟩ <;> decide

/-- the recorded defect `product-name-collision`, formally: two valid DFAs over the same alphabet whose NAMED
    union automaton is not equivalent to the union of the languages.  `D1` has the states `a`, `a,b`, `D2` the
    states `b,c`, `c`; the accepting pair `(a, "b,c")` and the rejecting pair `("a,b", c)` are both named
    `"(a,b,c)"`; the word `x` leads to `("a,b", c)`: neither operand accepts it, the named automaton does. -/
theorem product_name_collision_witness : ∃ (D1 D2 : DFA String String) (w : List String),
    D1.valid = true ∧ D2.valid = true ∧ (∀ a, a ∈ D1.Sigma ↔ a ∈ D2.Sigma) ∧ (∀ a, a ∈ w → a ∈ D1.Sigma) ∧
    ¬ (((D1.product D2 .union).mapStates productName).Accepts w ↔ (D1.Accepts w ∨ D2.Accepts w)) := by
  refine ⟨C14n.badD1, C14n.badD2, ["x"], C14n.badD1_valid, C14n.badD2_valid, C14n.bad_sigma, by decide, ?_⟩
  rw [C14n.bad_named]
  intro h
  have hN : C14n.badNamed.Accepts ["x"] :=
    (DFA.Accepts_iff_acceptsT C14n.badNamed_valid (w := ["x"]) (by decide)).mpr C14n.badNamed_acceptsT_x
  rcases h.mp hN with h1 | h2
  · have := (DFA.Accepts_iff_acceptsT C14n.badD1_valid (w := ["x"]) (by decide)).mp h1
    rw [C14n.badD1_acceptsT_x] at this
    cases this
  · have := (DFA.Accepts_iff_acceptsT C14n.badD2_valid (w := ["x"]) (by decide)).mp h2
    rw [C14n.badD2_acceptsT_x] at this
    cases this

/-- the witness in detail: only the names `"a,b"` and `"b,c"` contain a comma; the structured product is the
    correct union automaton (four pair states, valid, rejects `x`); two of its states are named alike, and the
    named automaton — still a valid DFA in the model — has three distinct states only and accepts `x` -/
example : ¬ (∀ q, q ∈ C14n.badD1.Q → ',' ∉ q.toList) ∧ ¬ (∀ q, q ∈ C14n.badD2.Q → ',' ∉ q.toList) ∧
    C14n.badD1.product C14n.badD2 .union = C14n.badP ∧ C14n.badP.valid = true ∧
    C14n.badP.Q = [("a", "b,c"), ("a", "c"), ("a,b", "b,c"), ("a,b", "c")] ∧
    ¬ (∀ p q, p ∈ C14n.badP.Q → q ∈ C14n.badP.Q → productName p = productName q → p = q) ∧
    (C14n.badP.mapStates productName).Q = ["(a,b,c)", "(a,c)", "(a,b,b,c)", "(a,b,c)"] ∧
    (C14n.badP.mapStates productName).valid = true ∧
    (dedup (C14n.badP.mapStates productName).Q).length = 3 ∧ (dedup C14n.badP.Q).length = 4 ∧
    (C14n.badP.mapStates productName).accepts ["x"] = .ok true ∧ C14n.badP.accepts ["x"] = .ok false ∧
    C14n.badD1.accepts ["x"] = .ok false ∧ C14n.badD2.accepts ["x"] = .ok false := by
  rw [C14n.badP_named]
  refine ⟨fun h => ?_, fun h => ?_, C14n.bad_product, C14n.badP_valid, rfl, fun h => ?_, rfl,
    C14n.badNamed_valid, by decide, by decide, by rfl, by rfl, by rfl, by rfl⟩
  · exact absurd (h "a,b" (by decide)) (by decide)
  · exact absurd (h "b,c" (by decide)) (by decide)
  · exact absurd (h ("a", "b,c") ("a,b", "c") (by decide) (by decide) productName_collision) (by decide)

#print axioms productName_inj
#print axioms productName_inj_snd
#print axioms productName_collision
#print axioms product_name_collision_witness

end Gamba
