/-
  Gamba.Props.C12c — soundness of the exercise checkers AS THE NOTEBOOKS CALL THEM, on text
  (Model/CheckText.lean): the verdict `OK` is only printed when every argument parses, the parsed objects satisfy
  their class invariants, and the criterion of the exercise holds for them.  No hypothesis other than
  "the verdict is OK": the side conditions of the object-level theorems (C12a, C12b) — validity, no repeated
  state, no repeated transition key, Chomsky normal form — are established for the parser results.
-/
import Gamba.Model.CheckText
import Gamba.Props.C12a
import Gamba.Props.C12b
import Gamba.Props.C05
import Gamba.Props.C02cfg
import Gamba.Proofs.C12c
namespace Gamba
open Parse

/-! ### verdicts -/

theorem ofBool_ok_iff (b : Bool) : CheckText.ofBool b = .ok ↔ b = true := C12c.ofBool_ok_iff b

theorem ofExcept_ok_iff (e : Except Err Bool) : CheckText.ofExcept e = .ok ↔ e = .ok true := C12c.ofExcept_ok_iff e

example : CheckText.ofBool true = .ok ∧ CheckText.ofBool false = .feedback ∧
    CheckText.ofExcept (.ok true) = .ok ∧ CheckText.ofExcept (.ok false) = .feedback ∧
    CheckText.ofExcept (.error .fuel) = .error := by decide

/-- the verdict `OK` is returned only if every argument parses (one clause per checker) -/
theorem text_ok_not_error :
    (∀ answer dfa1, CheckText.complement answer dfa1 = .ok →
      (∃ D, parseDfa dfa1.toList = .ok D) ∧ ∃ A, parseDfa answer.toList = .ok A) ∧
    (∀ t answer dfa1 dfa2 len, CheckText.product t answer dfa1 dfa2 len = .ok →
      (∃ D, parseDfa dfa1.toList = .ok D) ∧ (∃ D, parseDfa dfa2.toList = .ok D) ∧
      ∃ A, parseDfa answer.toList CheckText.productStateOk = .ok A) ∧
    (∀ dfa answer s len, CheckText.reverse dfa answer s len = .ok →
      (∃ D, parseDfa dfa.toList = .ok D) ∧ ∃ A, parseNfa answer.toList = .ok A) ∧
    (∀ dfa answer len, CheckText.minimal dfa answer len = .ok →
      (∃ D, parseDfa dfa.toList = .ok D) ∧ ∃ A, parseDfa answer.toList CheckText.wordOrSetStateOk = .ok A) ∧
    (∀ nfa answer s, CheckText.nfa2dfa nfa answer s = .ok →
      (∃ N, parseNfa nfa.toList = .ok N) ∧ ∃ A, parseNfa answer.toList CheckText.setStateOk = .ok A) ∧
    (∀ dfa answer len, CheckText.dfa2regexp dfa answer len = .ok →
      (∃ D, parseDfa dfa.toList = .ok D) ∧ ∃ r, RegexpText.parseSimple answer = some r) ∧
    (∀ cfg word answer, CheckText.cyk cfg word answer = .ok → ∃ G, CfgText.parseSimpleCfg cfg.toList = .ok G) ∧
    (∀ cfg deriv word kind, CheckText.derivation cfg deriv word kind = .ok →
      ∃ G, CfgText.parseSimpleCfg cfg.toList = .ok G) ∧
    (∀ cfg answer phase start len, CheckText.chomsky cfg answer phase start len = .ok →
      (∃ G, CfgText.parseSimpleCfg cfg.toList = .ok G) ∧ ∃ G1, CfgText.parseSimpleCfg answer.toList = .ok G1) := by
  refine ⟨?_, ?_, ?_, ?_, ?_, ?_, ?_, ?_, ?_⟩
  · intro answer dfa1 h
    obtain ⟨D1, A, h1, h2, _⟩ := C12c.complement_unpack h
    exact ⟨⟨D1, h1⟩, A, h2⟩
  · intro t answer dfa1 dfa2 len h
    obtain ⟨D1, D2, A, h1, h2, h3, _⟩ := C12c.product_unpack h
    exact ⟨⟨D1, h1⟩, ⟨D2, h2⟩, A, h3⟩
  · intro dfa answer s len h
    obtain ⟨D, A, h1, h2, _⟩ := C12c.reverse_unpack h
    exact ⟨⟨D, h1⟩, A, h2⟩
  · intro dfa answer len h
    obtain ⟨D, A, h1, h2, _⟩ := C12c.minimal_unpack h
    exact ⟨⟨D, h1⟩, A, h2⟩
  · intro nfa answer s h
    obtain ⟨N, A, h1, h2, _⟩ := C12c.nfa2dfa_unpack h
    exact ⟨⟨N, h1⟩, A, h2⟩
  · intro dfa answer len h
    obtain ⟨D, r, h1, h2, _⟩ := C12c.dfa2regexp_unpack h
    exact ⟨⟨D, h1⟩, r, h2⟩
  · intro cfg word answer h
    obtain ⟨G, eps, h1, _⟩ := C12c.cyk_unpack h
    exact ⟨_, h1⟩
  · intro cfg deriv word kind h
    obtain ⟨G, eps, h1, _⟩ := C12c.derivation_unpack h
    exact ⟨_, h1⟩
  · intro cfg answer phase start len h
    obtain ⟨G, eps, G1, eps1, h1, h2, _⟩ := C12c.chomsky_unpack h
    exact ⟨⟨_, h1⟩, _, h2⟩

/-! ### what the automaton parsers guarantee, for every state-label predicate -/

/-- `parseDfa_ok_valid` (C16a) for an arbitrary state-label predicate, together with the two facts the object-level
    theorems assume of Python sets and dicts: no repeated state, no repeated transition key -/
theorem parseDfa_ok_valid_gen (text : List Char) (stateOk : Word → Bool) (D : DFA String String)
    (h : Parse.parseDfa text stateOk = .ok D) :
    D.valid = true ∧ D.Q.Nodup ∧ (D.delta.map (·.1)).Nodup ∧ ∀ q, q ∈ D.Q → stateOk q.toList = true :=
  C12c.parseDfa_ok_facts h

theorem parseNfa_ok_valid_gen (text : List Char) (stateOk : Word → Bool) (N : NFA String String)
    (h : Parse.parseNfa text stateOk = .ok N) :
    N.valid = true ∧ N.Q.Nodup ∧ ∀ q, q ∈ N.Q → stateOk q.toList = true :=
  C12c.parseNfa_ok_facts h

/-- the grammar parser only returns valid grammars with a declared start variable and pairwise distinct rule identities -/
theorem parseSimpleCfg_ok_valid (text : List Char) (G : CFG) (eps : String)
    (h : CfgText.parseSimpleCfg text = .ok (G, eps)) : G.valid = true ∧ G.S ∈ G.V ∧ CFG.AliasOK G :=
  C12c.parseSimpleCfg_ok_facts h

example : ∃ D, Parse.parseDfa "initial {0}\nfinal {1,2}\n{0} {1,2} a\n{1,2} {1,2} a".toList CheckText.wordOrSetStateOk = .ok D ∧
    D.Q = ["{0}", "{1,2}"] := ⟨_, rfl, rfl⟩
example : ∃ G, CfgText.parseSimpleCfg "S -> AB | a\nA -> a\nB -> b".toList = .ok (G, "_") ∧ G.V = ["S", "A", "B"] :=
  ⟨_, rfl, rfl⟩

/-! ### complement -/

/-- `check_dfa_complement` on text: OK ⇒ both texts parse to valid DFAs, the answer has the alphabet, states,
    initial state and transitions of the given DFA and the complemented accepting set; hence its language is the
    complement, for words of every length -/
theorem complement_text_sound (answer dfa1 : String) (h : CheckText.complement answer dfa1 = .ok) :
    ∃ D1 A, Parse.parseDfa dfa1.toList = .ok D1 ∧ Parse.parseDfa answer.toList = .ok A ∧ D1.valid = true ∧ A.valid = true ∧
      (∀ a, a ∈ A.Sigma ↔ a ∈ D1.Sigma) ∧ (∀ q, q ∈ A.Q ↔ q ∈ D1.Q) ∧ A.q0 = D1.q0 ∧
      (∀ q, q ∈ A.F ↔ (q ∈ D1.Q ∧ q ∉ D1.F)) ∧
      ∀ w, (∀ a, a ∈ w → a ∈ D1.Sigma) → (A.Accepts w ↔ ¬ D1.Accepts w) := by
  obtain ⟨D1, A, h1, h2, hc⟩ := C12c.complement_unpack h
  obtain ⟨v1, _, k1, _⟩ := C12c.parseDfa_ok_facts h1
  obtain ⟨vA, _, kA, _⟩ := C12c.parseDfa_ok_facts h2
  obtain ⟨c1, c2, c3, _, c5, c6⟩ := chk_complement_sound D1 A v1 kA k1 hc
  exact ⟨D1, A, h1, h2, v1, vA, c1, c2, c3, c5, c6⟩

-- `p -a-> q -a-> q`, accepting `q`; the answer accepts `p` instead (declarations in another order, a comment)
example : CheckText.complement "initial p\nfinal p\np q a\nq q a" "initial p\nfinal q\np q a\nq q a" = .ok := by rfl
example : CheckText.complement "states p q\ninput_symbols a\ninitial p\nfinal p\n% swapped\nq q a\np q a"
    "initial p\nfinal q\np q a\nq q a" = .ok := by decide
-- the given DFA handed in unchanged: feedback
example : CheckText.complement "initial p\nfinal q\np q a\nq q a" "initial p\nfinal q\np q a\nq q a" = .feedback := by rfl
-- a partial transition table does not parse: `Error`
example : CheckText.complement "initial p\nfinal p\np q a" "initial p\nfinal q\np q a\nq q a" = .error := by rfl
-- consequence on the example: the answer accepts ε and rejects `a`
example : ∃ A, Parse.parseDfa "initial p\nfinal p\np q a\nq q a".toList = .ok A ∧ A.Accepts [] ∧ ¬ A.Accepts ["a"] := by
  refine ⟨_, rfl, ⟨"p", by decide, DFA.Run.nil _⟩, ?_⟩
  rintro ⟨f, hf, hr⟩
  cases hr with
  | cons hl hr' =>
    cases hl
    cases hr'
    revert hf; decide

/-- … and the transition tables agree key by key -/
theorem complement_text_delta (answer dfa1 : String) (h : CheckText.complement answer dfa1 = .ok) :
    ∃ D1 A, Parse.parseDfa dfa1.toList = .ok D1 ∧ Parse.parseDfa answer.toList = .ok A ∧
      ∀ k, A.delta.lookup k = D1.delta.lookup k := by
  obtain ⟨D1, A, h1, h2, hc⟩ := C12c.complement_unpack h
  obtain ⟨v1, _, k1, _⟩ := C12c.parseDfa_ok_facts h1
  obtain ⟨vA, _, kA, _⟩ := C12c.parseDfa_ok_facts h2
  exact ⟨D1, A, h1, h2, (chk_complement_sound D1 A v1 kA k1 hc).2.2.2.1⟩

/-! ### product automata -/

open Classical in
/-- `check_dfa_union / _intersection / _symmetric_difference` on text -/
theorem product_text_sound (t : ProductType) (answer dfa1 dfa2 : String) (len : Nat)
    (h : CheckText.product t answer dfa1 dfa2 len = .ok) :
    ∃ D1 D2 A, Parse.parseDfa dfa1.toList = .ok D1 ∧ Parse.parseDfa dfa2.toList = .ok D2 ∧
      Parse.parseDfa answer.toList CheckText.productStateOk = .ok A ∧
      D1.valid = true ∧ D2.valid = true ∧ A.valid = true ∧
      (∀ a, a ∈ D1.Sigma ↔ a ∈ D2.Sigma) ∧
      (∀ q, q ∈ A.Q → ∃ p r, Check.extractPair q = some (p, r) ∧ p ∈ D1.Q ∧ r ∈ D2.Q) ∧
      (∀ a, a ∈ A.Sigma ↔ a ∈ D1.Sigma) ∧
      A.q0 = productName (D1.q0, D2.q0) ∧
      (∀ q, q ∈ A.F ↔ q ∈ ((D1.product D2 t).mapStates productName).F) ∧
      (∀ k r v, A.delta.lookup k = some v →
        ((D1.product D2 t).mapStates productName).delta.lookup k = some r → v = r) ∧
      ∀ w, w.length ≤ len → (∀ a, a ∈ w → a ∈ D1.Sigma) →
        (A.Accepts w ↔ t.accept (decide (D1.Accepts w)) (decide (D2.Accepts w)) = true) := by
  obtain ⟨D1, D2, A, h1, h2, h3, hc⟩ := C12c.product_unpack h
  have v1 := (C12c.parseDfa_ok_facts h1).1
  have v2 := (C12c.parseDfa_ok_facts h2).1
  have vA := (C12c.parseDfa_ok_facts h3).1
  exact ⟨D1, D2, A, h1, h2, h3, v1, v2, vA, chk_product_sound t D1 D2 A len v1 v2 vA hc⟩

-- `D1`: words ending in `a`; `D2`: words of even length; the product automaton with states `(p,e)` …
example : CheckText.product .union
    "initial (p,e)\nfinal (q,o) (q,e) (p,e)\n(p,e) (q,o) a\n(p,e) (p,o) b\n(p,o) (q,e) a\n(p,o) (p,e) b\n(q,e) (q,o) a\n(q,e) (p,o) b\n(q,o) (q,e) a\n(q,o) (p,e) b"
    "initial p\nfinal q\np q a\np p b\nq q a\nq p b" "initial e\nfinal e\ne o a b\no e a b" 3 = .ok := by decide +kernel
-- the same answer for the intersection exercise (wrong accepting states): feedback
example : CheckText.product .intersection
    "initial (p,e)\nfinal (q,o) (q,e) (p,e)\n(p,e) (q,o) a\n(p,e) (p,o) b\n(p,o) (q,e) a\n(p,o) (p,e) b\n(q,e) (q,o) a\n(q,e) (p,o) b\n(q,o) (q,e) a\n(q,o) (p,e) b"
    "initial p\nfinal q\np q a\np p b\nq q a\nq p b" "initial e\nfinal e\ne o a b\no e a b" 3 = .feedback := by decide +kernel
-- states named `pe`, `po`, …: the answer does not parse (state labels must look like `(x,y)`): `Error`
example : CheckText.product .union
    "initial pe\nfinal qo qe pe\npe qo a\npe po b\npo qe a\npo pe b\nqe qo a\nqe po b\nqo qe a\nqo pe b"
    "initial p\nfinal q\np q a\np p b\nq q a\nq p b" "initial e\nfinal e\ne o a b\no e a b" 3 = .error := by rfl

/-! ### reverse -/

/-- `check_dfa_reverse` on text (the answer is an NFA) -/
theorem reverse_text_sound (dfa answer : String) (s : Sched) (len : Nat)
    (h : CheckText.reverse dfa answer s len = .ok) :
    ∃ D A, Parse.parseDfa dfa.toList = .ok D ∧ Parse.parseNfa answer.toList = .ok A ∧ D.valid = true ∧ A.valid = true ∧
      (∀ a, a ∈ A.Sigma ↔ a ∈ D.Sigma) ∧ (∀ q, q ∈ D.Q → q ∈ A.Q) ∧ A.q0 ∉ D.Q ∧
      (∀ q, q ∈ A.F ↔ q = D.q0) ∧
      (∀ e, e ∈ D.delta → e.1.1 ∈ A.succ e.2 e.1.2) ∧
      ∀ w, w.length ≤ len → (∀ a, a ∈ w → a ∈ D.Sigma) → (A.Accepts w ↔ D.Accepts w.reverse) := by
  obtain ⟨D, A, h1, h2, hc⟩ := C12c.reverse_unpack h
  have vD := (C12c.parseDfa_ok_facts h1).1
  have vA := (C12c.parseNfa_ok_facts h2).1
  exact ⟨D, A, h1, h2, vD, vA, chk_reverse_sound D A s len vD vA hc⟩

-- `D`: words containing an `a`; the reversal with the fresh initial state `s`
example : CheckText.reverse "initial p\nfinal q\np q a\np p b\nq q a b"
    "initial s\nfinal p\ns q ε\nq p a\np p b\nq q a b" [] 3 = .ok := by rfl
-- the reversed loop `p -b-> p` missing: feedback
example : CheckText.reverse "initial p\nfinal q\np q a\np p b\nq q a b"
    "initial s\nfinal p\ns q ε\nq p a\nq q a b" [] 3 = .feedback := by rfl
-- two initial states: `Error`
example : CheckText.reverse "initial p\nfinal q\np q a\np p b\nq q a b"
    "initial s t\nfinal p\ns q ε\nq p a\nq q a b" [] 3 = .error := by rfl

/-! ### minimal DFA -/

/-- `check_dfa_minimal` on text: the needed `D.Q.Nodup` holds for every parser result -/
theorem minimal_text_sound (dfa answer : String) (len : Nat) (h : CheckText.minimal dfa answer len = .ok) :
    ∃ D A, Parse.parseDfa dfa.toList = .ok D ∧ Parse.parseDfa answer.toList CheckText.wordOrSetStateOk = .ok A ∧
      D.valid = true ∧ A.valid = true ∧ D.Q.Nodup ∧ A.Q.Nodup ∧
      (∀ a, a ∈ A.Sigma ↔ a ∈ D.Sigma) ∧
      (∃ blocks, D.IsNerode blocks ∧ (dedup blocks).length = A.Q.length) ∧
      ∀ w, w.length ≤ len → (∀ a, a ∈ w → a ∈ D.Sigma) → (A.Accepts w ↔ D.Accepts w) := by
  obtain ⟨D, A, h1, h2, hc⟩ := C12c.minimal_unpack h
  obtain ⟨vD, nD, _, _⟩ := C12c.parseDfa_ok_facts h1
  obtain ⟨vA, nA, _, _⟩ := C12c.parseDfa_ok_facts h2
  obtain ⟨c1, ⟨blocks, hb, hlen⟩, c3⟩ := chk_minimal_sound D A len vD nD vA hc
  rw [dedup_eq_self_of_nodup nA] at hlen
  exact ⟨D, A, h1, h2, vD, vA, nD, nA, c1, ⟨blocks, hb, hlen⟩, c3⟩

-- the 4-state DFA of C04b (states `1` and `2` equivalent) and its 3-state quotient with set-labelled states
example : CheckText.minimal "initial 0\nfinal 3\n0 1 a\n0 2 b\n1 3 a\n1 0 b\n2 3 a\n2 0 b\n3 3 a b"
    "initial {0}\nfinal {3}\n{0} {1,2} a b\n{1,2} {3} a\n{1,2} {0} b\n{3} {3} a b" 4 = .ok := by rfl
-- the input itself (4 states): feedback
example : CheckText.minimal "initial 0\nfinal 3\n0 1 a\n0 2 b\n1 3 a\n1 0 b\n2 3 a\n2 0 b\n3 3 a b"
    "initial 0\nfinal 3\n0 1 a\n0 2 b\n1 3 a\n1 0 b\n2 3 a\n2 0 b\n3 3 a b" 4 = .feedback := by rfl
-- state labels `(0)`, `(1,2)`: neither words nor `{…}`: `Error`
example : CheckText.minimal "initial 0\nfinal 3\n0 1 a\n0 2 b\n1 3 a\n1 0 b\n2 3 a\n2 0 b\n3 3 a b"
    "initial (0)\nfinal (3)\n(0) (1,2) a b\n(1,2) (3) a\n(1,2) (0) b\n(3) (3) a b" 4 = .error := by rfl

/-! ### NFA → DFA -/

/-- `check_nfa2dfa` on text: the submitted automaton is, state by state, the subset construction; hence (last clause,
    not part of the object-level theorem of C12b) it accepts exactly the language of the given NFA -/
theorem nfa2dfa_text_sound (nfa answer : String) (s : Sched) (h : CheckText.nfa2dfa nfa answer s = .ok) :
    ∃ N A, Parse.parseNfa nfa.toList = .ok N ∧ Parse.parseNfa answer.toList CheckText.setStateOk = .ok A ∧
      N.valid = true ∧ A.valid = true ∧
      A.Q ≠ [] ∧ (∀ a, a ∈ A.Sigma ↔ a ∈ N.Sigma) ∧
      (∀ q, q ∈ A.Q → ∀ x, x ∈ Check.extractSet q → x ∈ N.Q) ∧
      (∀ x, x ∈ Check.extractSet A.q0 ↔ N.EpsReach [N.q0] x) ∧
      (∀ q, q ∈ A.Q → (q ∈ A.F ↔ ∃ x, x ∈ Check.extractSet q ∧ x ∈ N.F)) ∧
      (∀ q a, q ∈ A.Q → a ∈ A.Sigma → ∃ q1, (∀ t, t ∈ A.succ q a ↔ t = q1) ∧
          ∀ x, x ∈ Check.extractSet q1 ↔ ∃ p y, p ∈ Check.extractSet q ∧ N.Succ p a y ∧ N.EpsReach [y] x) ∧
      (∀ e, e ∈ A.delta → e.1.2 = A.eps → e.2 = []) ∧
      ∀ w, A.Accepts w ↔ N.Accepts w := by
  obtain ⟨N, A, h1, h2, hc⟩ := C12c.nfa2dfa_unpack h
  have vN := (C12c.parseNfa_ok_facts h1).1
  have vA := (C12c.parseNfa_ok_facts h2).1
  obtain ⟨c1, c2, c3, c4, c5, c6, c7⟩ := chk_nfaToDfa_sound N A s vN hc
  exact ⟨N, A, h1, h2, vN, vA, c1, c2, c3, c4, c5, c6, c7,
    C12c.subset_answer_lang_all vN vA c2 c4 c5 c6 c7⟩

-- `A -x-> B`, `A -ε-> B`, `F = {B}`; answer `{A,B} -x-> {B} -x-> {} -x-> {}`, accepting `{A,B}` and `{B}`
example : CheckText.nfa2dfa "initial A\nfinal B\nA B x ε"
    "initial {A,B}\nfinal {A,B} {B}\n{A,B} {B} x\n{B} {} x\n{} {} x" [3, 1, 2] = .ok := by rfl
-- a wrong target (`{B} -x-> {B}`): feedback
example : CheckText.nfa2dfa "initial A\nfinal B\nA B x ε"
    "initial {A,B}\nfinal {A,B} {B}\n{A,B} {B} x\n{B} {B} x\n{} {} x" [] = .feedback := by rfl
-- states not written as sets: the answer does not parse: `Error`
example : CheckText.nfa2dfa "initial A\nfinal B\nA B x ε" "initial AB\nfinal AB B\nAB B x\nB E x\nE E x" [] = .error := by rfl

/-! ### DFA → regular expression -/

/-- `check_dfa2regexp` on text: OK ⇒ on ALL words of length ≤ len the expression denotes exactly what the DFA accepts.
    No restriction to words over `D.Sigma` is needed: `Regexp.wordsUpTo` has no alphabet restriction while `DFA.wordsUpTo`
    only lists words over `D.Sigma`, so equal word lists force every short word of the expression to be over `D.Sigma`
    (third clause), and a valid DFA accepts no word with a foreign symbol.  The second clause is the requested form. -/
theorem dfa2regexp_text_sound (dfa answer : String) (len : Nat) (h : CheckText.dfa2regexp dfa answer len = .ok) :
    ∃ D r, Parse.parseDfa dfa.toList = .ok D ∧ RegexpText.parseSimple answer = some r ∧ D.valid = true ∧
      (∀ w, w.length ≤ len → (r.Lang w ↔ D.Accepts w)) ∧
      (∀ w, w.length ≤ len → (∀ a, a ∈ w → a ∈ D.Sigma) → (r.Lang w ↔ D.Accepts w)) ∧
      (∀ w, w.length ≤ len → r.Lang w → ∀ a, a ∈ w → a ∈ D.Sigma) := by
  obtain ⟨D, r, h1, h2, hc⟩ := C12c.dfa2regexp_unpack h
  have vD := (C12c.parseDfa_ok_facts h1).1
  have hE := chk_equalLanguages_sound _ _ hc
  have key : ∀ w, w.length ≤ len → (r.Lang w ↔ D.Accepts w) := by
    intro w hl
    have := hE w
    rw [regexp_words_exact, dfa_words_exact D vD] at this
    exact ⟨fun hr => (this.mp ⟨hl, hr⟩).2.2, fun hd => (this.mpr ⟨hl, DFA.Accepts.over vD hd, hd⟩).2⟩
  refine ⟨D, r, h1, h2, vD, key, fun w hl _ => key w hl, ?_⟩
  intro w hl hr
  exact DFA.Accepts.over vD ((key w hl).mp hr)

-- words ending in `a`
example : CheckText.dfa2regexp "initial p\nfinal q\np q a\np p b\nq q a\nq p b" "(a+b)*a" 2 = .ok := by decide +kernel
example : CheckText.dfa2regexp "initial p\nfinal q\np q a\np p b\nq q a\nq p b" "(a+b)*" 2 = .feedback := by
  decide +kernel
-- unbalanced parenthesis: `Error`
example : CheckText.dfa2regexp "initial p\nfinal q\np q a\np p b\nq q a\nq p b" "(a+b" 2 = .error := by rfl
-- an expression with a symbol the DFA does not know: the word `c` is enumerated for the expression only: feedback
example : CheckText.dfa2regexp "initial p\nfinal q\np q a\np p b\nq q a\nq p b" "(a+b)*a+c" 2 = .feedback := by
  decide +kernel

/-! ### CYK table -/

/-- `check_cyk_matrix` on text: OK ⇒ the grammar text parses to a valid grammar IN CHOMSKY NORMAL FORM (the check
    raises — verdict `Error` — otherwise), and the table is the CYK table of the word, cell by cell -/
theorem cyk_text_sound (cfg word answer : String) (h : CheckText.cyk cfg word answer = .ok) :
    ∃ G eps, CfgText.parseSimpleCfg cfg.toList = .ok (G, eps) ∧ G.valid = true ∧ G.isChomsky = true ∧
      let w := word.toList.map String.singleton
      let rows := ((Text.splitOn '\n' (Text.strip answer.toList)).map Check.splitWs).reverse
      rows.length = w.length ∧
      ∀ i j, i + j < w.length → ∃ row cell vs, rows[i]? = some row ∧ row.length = w.length - i ∧ row[j]? = some cell ∧
        Check.parseCell cell = some vs ∧
        ∀ A, A ∈ vs ↔ (A ∈ G.V ∧ G.Gen [.v A] ((w.drop j).take (i + 1))) := by
  obtain ⟨G, eps, h1, hc⟩ := C12c.cyk_unpack h
  have vG := C12c.parseSimpleCfg_ok_valid h1
  have cG := C12c.cykCheck_ok_isChomsky hc
  exact ⟨G, eps, h1, vG, cG, chk_cyk_sound G cG vG _ answer hc⟩

-- S → AB | a, A → a, B → b
example : CheckText.cyk "S -> AB | a\nA -> a\nB -> b" "ab" "{S}\n{A,S} {B}" = .ok := by rfl
-- the top row missing: feedback
example : CheckText.cyk "S -> AB | a\nA -> a\nB -> b" "ab" "{A,S} {B}" = .feedback := by rfl
-- a grammar that is not in Chomsky normal form / that does not parse: `Error`
example : CheckText.cyk "S -> aSb | ε" "ab" "{S}\n{} {}" = .error := by rfl
example : CheckText.cyk "S => a" "a" "{S}" = .error := by rfl

/-! ### derivations -/

/-- `check_cfg_derivation` on text: OK ⇒ the submitted text is a derivation of the word in the parsed grammar -/
theorem derivation_text_sound (cfg deriv word : String) (kind : Nat)
    (h : CheckText.derivation cfg deriv word kind = .ok) :
    ∃ G eps, CfgText.parseSimpleCfg cfg.toList = .ok (G, eps) ∧ G.valid = true ∧
      let w := word.toList.map String.singleton
      let forms := ((Text.splitArrow (Text.strip deriv.toList)).map Text.strip).map (fun w => w.map Check.parseChar)
      forms.head? = some [.v G.S] ∧ forms.getLast? = some (w.map Sym.t) ∧
      ChainOf (fun a b => (kind = 1 → G.LStep a b) ∧ (kind = 2 → G.RStep a b) ∧ G.Step a b) forms ∧
      G.Lang w := by
  obtain ⟨G, eps, h1, hc⟩ := C12c.derivation_unpack h
  exact ⟨G, eps, h1, C12c.parseSimpleCfg_ok_valid h1, chk_derivation_sound G deriv _ kind hc⟩

example : CheckText.derivation "S -> AB | a\nA -> a\nB -> b" "S => AB => aB => ab" "ab" 1 = .ok := by rfl
-- a leftmost derivation handed in as a rightmost one: feedback
example : CheckText.derivation "S -> AB | a\nA -> a\nB -> b" "S => AB => aB => ab" "ab" 2 = .feedback := by rfl
-- `T` has no rule, the grammar is rejected by the constructor check: `Error`
example : CheckText.derivation "S -> aT" "S => aT" "a" 0 = .error := by rfl
-- consequence on the example: `ab` is in the language of the parsed grammar
example : ∃ G, CfgText.parseSimpleCfg "S -> AB | a\nA -> a\nB -> b".toList = .ok (G, "_") ∧ G.Lang ["a", "b"] := by
  obtain ⟨G, eps, h1, _, h2⟩ := derivation_text_sound "S -> AB | a\nA -> a\nB -> b" "S => AB => aB => ab" "ab" 1 (by rfl)
  have e : CfgText.parseSimpleCfg "S -> AB | a\nA -> a\nB -> b".toList = .ok (_, "_") := rfl
  rw [e] at h1
  cases h1
  exact ⟨_, rfl, h2.2.2.2⟩

/-! ### Chomsky phases -/

/-- `cfg_check_chomsky` on text -/
theorem chomsky_text_sound (cfg answer : String) (phase : Nat) (start : String) (len : Nat)
    (h : CheckText.chomsky cfg answer phase start len = .ok) :
    ∃ G eps G1 eps1, CfgText.parseSimpleCfg cfg.toList = .ok (G, eps) ∧
      CfgText.parseSimpleCfg answer.toList = .ok (G1, eps1) ∧ G.valid = true ∧ G1.valid = true ∧
      (∀ w, w ∈ G1.wordsUpTo len ↔ w ∈ G.wordsUpTo len) ∧
      (1 ≤ phase → G1.S = start) ∧ (2 ≤ phase → CFG.NoEpsExceptStart G1) ∧ (3 ≤ phase → CFG.NoUnit G1) ∧
      (4 ≤ phase → CFG.RhsLe2 G1) ∧ (5 ≤ phase → CFG.AllCnfShaped G1) := by
  obtain ⟨G, eps, G1, eps1, h1, h2, hc⟩ := C12c.chomsky_unpack h
  exact ⟨G, eps, G1, eps1, h1, h2, C12c.parseSimpleCfg_ok_valid h1, C12c.parseSimpleCfg_ok_valid h2,
    chk_chomsky_sound G G1 phase start len hc⟩

/-- … and, when in both parsed grammars no terminal is also a variable name (nor the name `toChomsky` would pick for a
    new start variable) — which the text format does NOT guarantee, a left-hand side may be any `\\w+` word, e.g. `a` —
    the two languages agree on all words of length ≤ len -/
theorem chomsky_text_lang (cfg answer : String) (phase : Nat) (start : String) (len : Nat)
    (h : CheckText.chomsky cfg answer phase start len = .ok) :
    ∃ G eps G1 eps1, CfgText.parseSimpleCfg cfg.toList = .ok (G, eps) ∧
      CfgText.parseSimpleCfg answer.toList = .ok (G1, eps1) ∧
      ((∀ a, a ∈ G.Sigma → a ∉ G.V ∧ a ≠ CFG.freshVariable G.V "S") →
       (∀ a, a ∈ G1.Sigma → a ∉ G1.V ∧ a ≠ CFG.freshVariable G1.V "S") →
       ∀ w, w.length ≤ len → (G1.Lang w ↔ G.Lang w)) := by
  obtain ⟨G, eps, G1, eps1, h1, h2, hc⟩ := C12c.chomsky_unpack h
  obtain ⟨v, sv, al⟩ := C12c.parseSimpleCfg_ok_facts h1
  obtain ⟨v1, sv1, al1⟩ := C12c.parseSimpleCfg_ok_facts h2
  refine ⟨G, eps, G1, eps1, h1, h2, ?_⟩
  intro hd hd1 w hl
  have := (chk_chomsky_sound G G1 phase start len hc).1 w
  rw [cfg_words_exact G v sv al hd, cfg_words_exact G1 v1 sv1 al1 hd1] at this
  exact ⟨fun hw => (this.mp ⟨hl, hw⟩).2, fun hw => (this.mpr ⟨hl, hw⟩).2⟩

-- S → AB | a, A → a, B → b  and the CNF answer  S → XB | a, X → a, B → b
example : CheckText.chomsky "S -> AB | a\nA -> a\nB -> b" "S -> XB | a\nX -> a\nB -> b" 5 "S" 3 = .ok := by rfl
-- `S → a` dropped: feedback
example : CheckText.chomsky "S -> AB | a\nA -> a\nB -> b" "S -> XB\nX -> a\nB -> b" 5 "S" 3 = .feedback := by rfl
-- `B` has no rule in the answer: `Error`
example : CheckText.chomsky "S -> AB | a\nA -> a\nB -> b" "S -> XB | a\nX -> a" 5 "S" 3 = .error := by rfl
-- a parsed grammar in which `a` is both a variable and a terminal (the side condition of `chomsky_text_lang` fails)
example : ∃ G, CfgText.parseSimpleCfg "S -> a\na -> b".toList = .ok (G, "_") ∧ "a" ∈ G.Sigma ∧ "a" ∈ G.V :=
  ⟨_, rfl, by decide, by decide⟩

#print axioms ofBool_ok_iff
#print axioms ofExcept_ok_iff
#print axioms text_ok_not_error
#print axioms parseDfa_ok_valid_gen
#print axioms parseNfa_ok_valid_gen
#print axioms parseSimpleCfg_ok_valid
#print axioms complement_text_sound
#print axioms complement_text_delta
#print axioms product_text_sound
#print axioms reverse_text_sound
#print axioms minimal_text_sound
#print axioms nfa2dfa_text_sound
#print axioms dfa2regexp_text_sound
#print axioms cyk_text_sound
#print axioms derivation_text_sound
#print axioms chomsky_text_sound
#print axioms chomsky_text_lang

end Gamba
