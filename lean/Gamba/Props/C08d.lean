/-
  Gamba.Props.C08d — the whole Chomsky-normal-form conversion (`CFG.toChomsky`, the phase selector
  `CFG.applyChomsky`) and membership for arbitrary grammars (`CFG.accepts`), obtained by composing
  the phase theorems of `Gamba/Props/C08a.lean` (phases 1, 2), `C08b.lean` (phase 3), `C08c.lean`
  (phases 4, 5) and the CNF membership theorem of `C07.lean`.

  Hypotheses: `G.valid`, `G.S ∈ G.V` (not checked by `valid`), the aliasing invariant `AliasOK`
  (rules sharing an `Alternative` carry the same right-hand side; any parsed grammar has it), and
  `hd`: terminals and variables — including the start variable that phase 1 introduces — are
  disjoint as strings (phase 3 tests `rhs[0] in V` on strings; both parsers guarantee it).
-/
import Gamba.Model.CFG
import Gamba.Spec.CFG
import Gamba.Proofs.CFGBasic
import Gamba.Proofs.C08d
namespace Gamba

/-- the grammar `S → aSb | ε | T`, `T → c` (an ε-rule, a unit rule, a rule of length 3, the start
    variable on a right-hand side) -/
def C08d.exG : CFG :=
  { V := ["S", "T"], Sigma := ["a", "b", "c"], S := "S",
    R := [⟨"S", 0, [.t "a", .v "S", .t "b"]⟩, ⟨"S", 1, []⟩, ⟨"S", 2, [.v "T"]⟩, ⟨"T", 3, [.t "c"]⟩] }

theorem C08d.exG_valid : C08d.exG.valid = true := by decide
theorem C08d.exG_S : C08d.exG.S ∈ C08d.exG.V := by decide
theorem C08d.exG_alias : CFG.AliasOK C08d.exG := CFG.C08c.aliasOK_of_b (by decide)
theorem C08d.exG_fresh : CFG.freshVariable C08d.exG.V "S" = "A" := by decide
theorem C08d.exG_disj : ∀ a, a ∈ C08d.exG.Sigma → a ∉ C08d.exG.V ∧ a ≠ CFG.freshVariable C08d.exG.V "S" := by
  decide

/-- `a c b ∈ L(exG)` : S ⇒ aSb ⇒ aTb ⇒ acb -/
theorem C08d.exG_lang_acb : C08d.exG.Lang ["a", "c", "b"] := by
  have hS : C08d.exG.HasRule "S" [.t "a", .v "S", .t "b"] := ⟨⟨"S", 0, _⟩, by decide, rfl, rfl⟩
  have hST : C08d.exG.HasRule "S" [.v "T"] := ⟨⟨"S", 2, _⟩, by decide, rfl, rfl⟩
  have hT : C08d.exG.HasRule "T" [.t "c"] := ⟨⟨"T", 3, _⟩, by decide, rfl, rfl⟩
  have hTc : C08d.exG.Gen [.v "T"] ["c"] := CFG.Gen.v (u := ["c"]) (w := []) hT (.t .nil) .nil
  have hSc : C08d.exG.Gen [.v "S"] ["c"] := CFG.Gen.v (u := ["c"]) (w := []) hST hTc .nil
  exact CFG.Gen.v (u := ["a", "c", "b"]) (w := []) hS
    (.t (CFG.Gen.v (u := ["c"]) (w := ["b"]) hST hTc (.t .nil))) .nil

/-- the whole pipeline: a valid grammar in, an equivalent valid CNF grammar out -/
theorem toChomsky_spec (G : CFG) (hv : G.valid = true) (hS : G.S ∈ G.V) (ha : CFG.AliasOK G)
    (hd : ∀ a, a ∈ G.Sigma → a ∉ G.V ∧ a ≠ CFG.freshVariable G.V "S") :
    (G.toChomsky).valid = true ∧ (G.toChomsky).isChomsky = true ∧ (G.toChomsky).S ∈ (G.toChomsky).V ∧
    (∀ A, A ∈ G.V → A ∈ (G.toChomsky).V) ∧ (G.toChomsky).Sigma = G.Sigma ∧
    ∀ w, (G.toChomsky).Lang w ↔ G.Lang w :=
  have hp := CFG.C08d.pipe G "S" hv hS ha hd
  ⟨hp.valid5, hp.chomsky5, hp.S5, hp.V5, hp.Sigma5, hp.l5⟩

example : C08d.exG.toChomsky.valid = true ∧ C08d.exG.toChomsky.isChomsky = true ∧
    C08d.exG.toChomsky.Lang ["a", "c", "b"] := by
  obtain ⟨h1, h2, _, _, _, h6⟩ :=
    toChomsky_spec C08d.exG C08d.exG_valid C08d.exG_S C08d.exG_alias C08d.exG_disj
  exact ⟨h1, h2, (h6 _).mpr C08d.exG_lang_acb⟩

/-- the first three phases on the example, written out (new start variable `A`; the rules copied by
    phase 3 share the `Alternative` of the rule they come from) -/
example : (C08d.exG.applyChomsky 3 "S").S = "A" ∧ (C08d.exG.applyChomsky 3 "S").V = ["S", "T", "A"] ∧
    (C08d.exG.applyChomsky 3 "S").R =
      [⟨"A", 6, []⟩, ⟨"S", 7, [.t "a", .v "S", .t "b"]⟩, ⟨"S", 8, [.t "a", .t "b"]⟩, ⟨"T", 10, [.t "c"]⟩,
       ⟨"S", 10, [.t "c"]⟩, ⟨"A", 7, [.t "a", .v "S", .t "b"]⟩, ⟨"A", 8, [.t "a", .t "b"]⟩,
       ⟨"A", 10, [.t "c"]⟩] := by
  decide

/-- membership for ARBITRARY grammars (ε-rules, unit rules, cycles, useless rules): the test answers exactly `w ∈ L(G)` -/
theorem cfg_accepts_iff (G : CFG) (hv : G.valid = true) (hS : G.S ∈ G.V) (ha : CFG.AliasOK G)
    (hd : ∀ a, a ∈ G.Sigma → a ∉ G.V ∧ a ≠ CFG.freshVariable G.V "S") (w : List String) :
    ∃ b, G.accepts w = .ok b ∧ (b = true ↔ G.Lang w) := by
  cases hc : G.isChomsky with
  | true => exact cfg_accepts_cnf_iff_of_valid G hc hS hv w
  | false =>
    have hp := CFG.C08d.pipe G "S" hv hS ha hd
    rw [CFG.C08d.accepts_of_not_chomsky G w hc hp.chomsky5]
    obtain ⟨b, hb, hiff⟩ := cfg_accepts_cnf_iff_of_valid G.toChomsky hp.chomsky5 hp.S5 hp.valid5 w
    exact ⟨b, hb, hiff.trans (hp.l5 w)⟩

/-- the example grammar is not in CNF (so `accepts` converts it), and `acb` is accepted -/
example : C08d.exG.isChomsky = false ∧ C08d.exG.accepts ["a", "c", "b"] = .ok true := by
  refine ⟨by decide, ?_⟩
  obtain ⟨b, hb, hiff⟩ :=
    cfg_accepts_iff C08d.exG C08d.exG_valid C08d.exG_S C08d.exG_alias C08d.exG_disj ["a", "c", "b"]
  rw [hb, hiff.mpr C08d.exG_lang_acb]

/-- the phase selector used by the exercise: every prefix of the pipeline preserves the language -/
theorem applyChomsky_lang (G : CFG) (phase : Nat) (start : String) (hv : G.valid = true) (hS : G.S ∈ G.V) (ha : CFG.AliasOK G)
    (hd : ∀ a, a ∈ G.Sigma → a ∉ G.V ∧ a ≠ CFG.freshVariable G.V start) (w : List String) :
    (G.applyChomsky phase start).Lang w ↔ G.Lang w := by
  have hp := CFG.C08d.pipe G start hv hS ha hd
  rcases phase with _ | _ | _ | _ | _ | n
  · rw [CFG.C08d.applyChomsky_0]
  · rw [CFG.C08d.applyChomsky_1]; exact hp.l1 w
  · rw [CFG.C08d.applyChomsky_2]; exact hp.l2 w
  · rw [CFG.C08d.applyChomsky_3]; exact hp.l3 w
  · rw [CFG.C08d.applyChomsky_4]; exact hp.l4 w
  · rw [CFG.C08d.applyChomsky_ge5 G (n + 5) start (by omega)]; exact hp.l5 w

/-- with the start hint `"T"` (already a variable) the new start variable is `A` as well -/
example : CFG.freshVariable C08d.exG.V "T" = "A" ∧
    ∀ a, a ∈ C08d.exG.Sigma → a ∉ C08d.exG.V ∧ a ≠ CFG.freshVariable C08d.exG.V "T" := by decide

example (phase : Nat) : (C08d.exG.applyChomsky phase "T").Lang ["a", "c", "b"] :=
  (applyChomsky_lang C08d.exG phase "T" C08d.exG_valid C08d.exG_S C08d.exG_alias (by decide) _).mpr
    C08d.exG_lang_acb

#print axioms toChomsky_spec
#print axioms cfg_accepts_iff
#print axioms applyChomsky_lang

end Gamba
