/-
  Gamba.Props.C10n — the formal boundary of the hypothesis `hnames` of `pda_toCfg_lang` (Props/C10c): `pda_to_cfg` names
  the grammar variable of the state pair `(p, q)` by `p'q` (`pdaVar p q = p ++ "'" ++ q`).

  The name determines the pair as soon as the FIRST components contain no apostrophe (`pdaVar_inj`).  The hypothesis is
  needed: with the states `p` and `p'p` the pairs `(p, p'p)` and `(p'p, p)` are both named `p'p'p`
  (`pdaVar_collision`), and the grammar returned for a valid PDA with these two states generates the word `a a`,
  which the PDA does not accept (`pda2cfg_name_collision_witness`, the recorded defect
  `pda2cfg-variable-name-collision`).  Every other hypothesis of `pda_toCfg_lang` holds for the witness.

  The witness is proved WITHOUT evaluating the grammar (64 variables, 532 rules): the derivation of `a a` is given
  explicitly through the rule characterisation `C10b.hasRule_iff`, and the non-acceptance by an invariant of the PDA
  (its ε-closure is infinite — `p'p` pushes `B` for ever — so the executable `PDA.accepts` is always truncated and
  `pda_accepts_complete` does not apply).
-/
import Gamba.Model.PDA
import Gamba.Spec.PDA
import Gamba.Spec.CFG
import Gamba.Props.C10c
import Gamba.Proofs.C10n
namespace Gamba

/-- the variable name determines the state pair when the first components are apostrophe-free -/
theorem pdaVar_inj (p q p' q' : String) (hp : '\'' ∉ p.toList) (hp' : '\'' ∉ p'.toList)
    (h : pdaVar p q = pdaVar p' q') : p = p' ∧ q = q' :=
  C10c.pdaVar_inj hp hp' h

/-- non-vacuity: the second components are unrestricted -/
example : '\'' ∉ "p".toList ∧ '\'' ∉ "q_drain1".toList ∧ pdaVar "p" "p'p" = "p'p'p" := by
  refine ⟨?_, ?_, ?_⟩ <;> decide

/-- the hypothesis is needed: the collision that the real library exhibits -/
theorem pdaVar_collision : pdaVar "p" "p'p" = pdaVar "p'p" "p" := C10n.pdaVar_collision

/-- … between two different pairs; only the name `p'p` contains an apostrophe -/
example : (("p", "p'p") : String × String) ≠ ("p'p", "p") ∧ '\'' ∉ "p".toList ∧ '\'' ∈ "p'p".toList ∧
    pdaVar "p" "p'p" = "p'p'p" := by
  refine ⟨?_, ?_, ?_, ?_⟩ <;> decide

/-- the recorded defect `pda2cfg-variable-name-collision`, formally: a valid PDA (unique transition keys, one ε string)
    whose grammar generates a word the PDA does not accept.  `Q = {p, p'p}`, `q0 = p`, `F = Q`, `ε = ""`,
    `δ(p'p, ε, ε) = {(p'p, B)}`, `δ(p, ε, ε) = {(p'p, ε)}`, `δ(p, a, ε) = {(p'p, A)}`: the PDA reads at most one symbol
    (from `p'p` there is no way back to `p`), but since `A_{p'p, p}` and `A_{p, p'p}` are the same variable, the useless
    rule `A_{p'p, q_drain1} → A_{p'p, p} A_{p, q_drain1}` lets the grammar restart in `p` and generate `a a`. -/
theorem pda2cfg_name_collision_witness : ∃ (P : SPDA) (G : CFG) (w : List String),
    P.valid = true ∧ (P.delta.map (·.1)).Nodup ∧ P.epsG = P.eps ∧ P.toCfg = .ok G ∧ (G.Lang w ∧ ¬ P.Accepts w) :=
  ⟨C10n.badP, C10n.badG, ["a", "a"], C10n.badP_valid, C10n.badP_keys, rfl, C10n.badP_toCfg, C10n.badG_lang_aa,
    C10n.badP_not_accepts_aa⟩

/-- the witness in detail: all hypotheses of `pda_toCfg_lang` hold except `hnames`, and `hnames` fails only because of
    the name `p'p`; the word is over the alphabet; the PDA is not degenerate (it accepts ε and `a`); the variable list
    of the grammar has 64 = 8 · 8 entries, one per state pair of the normal form, but only 63 distinct names -/
example : C10n.badP.valid = true ∧ (C10n.badP.delta.map (·.1)).Nodup ∧ C10n.badP.epsG = C10n.badP.eps ∧
    freshSymbol C10n.badP.Gamma ≠ .ok C10n.badP.epsG ∧ C10n.badP.epsG ≠ "∅" ∧
    ¬ (∀ q, q ∈ C10n.badP.Q → '\'' ∉ q.toList) ∧ C10n.badP.Q = ["p", "p'p"] ∧
    (∀ a, a ∈ ["a", "a"] → a ∈ C10n.badP.Sigma) ∧
    C10n.badP.normalizeForCfg = .ok C10n.badNorm ∧ C10n.badP.toCfg = .ok C10n.badG ∧
    C10n.badG.S = "q_initial1'q_accept1" ∧ C10n.badG.V.length = 64 ∧ (dedup C10n.badG.V).length = 63 ∧
    C10n.badP.Accepts [] ∧ C10n.badP.Accepts ["a"] ∧ ¬ C10n.badP.Accepts ["a", "a"] ∧ C10n.badG.Lang ["a", "a"] := by
  refine ⟨C10n.badP_valid, C10n.badP_keys, rfl, C10n.badP_marker, by decide, fun h => ?_, rfl, by decide, C10n.badP_normalize,
    C10n.badP_toCfg, by decide, by decide, by decide +kernel, C10n.badP_accepts_nil, C10n.badP_accepts_a,
    C10n.badP_not_accepts_aa, C10n.badG_lang_aa⟩
  exact absurd (h "p'p" (by decide)) (by decide)

/-- so the conclusion of `pda_toCfg_lang` fails for the witness: `hnames` cannot be dropped from it -/
example : ¬ (∀ (P : SPDA), P.valid = true → (P.delta.map (·.1)).Nodup → P.epsG = P.eps →
    freshSymbol P.Gamma ≠ .ok P.epsG → P.epsG ≠ "∅" → ∀ G, P.toCfg = .ok G → ∀ w, G.Lang w ↔ P.Accepts w) := by
  intro h
  exact C10n.badP_not_accepts_aa
    ((h C10n.badP C10n.badP_valid C10n.badP_keys rfl C10n.badP_marker (by decide) _ C10n.badP_toCfg ["a", "a"]).mp C10n.badG_lang_aa)

#print axioms pdaVar_inj
#print axioms pdaVar_collision
#print axioms pda2cfg_name_collision_witness

end Gamba
