/-
  Gamba.Props.C08a — the first two phases of the Chomsky-normal-form conversion:
  `cfg_fresh_variable`, `cfg_add_new_start_variable_in_place` (phase 1), `cfg_nullable_variables` and
  `cfg_remove_epsilon_rules_in_place` (phase 2).
-/
import Gamba.Model.CFG
import Gamba.Spec.CFG
import Gamba.Proofs.CFGBasic
import Gamba.Proofs.C08a
namespace Gamba

/-! ### example grammar: `S → A S | ε`, `A → a | ε` (nullable start, nullable variable on a rhs,
    start variable on a rhs) -/

def exC08a : CFG :=
  { V := ["S", "A"], Sigma := ["a", "b"], S := "S",
    R := [⟨"S", 0, [.v "A", .v "S"]⟩, ⟨"S", 1, []⟩, ⟨"A", 2, [.t "a"]⟩, ⟨"A", 3, []⟩] }

theorem exC08a_valid : exC08a.valid = true := by decide
theorem exC08a_S : exC08a.S ∈ exC08a.V := by decide

/-! ### fresh variables -/

/-- `cfg_fresh_variable` returns a variable that is not in V — also when V has 26 or more variables -/
theorem freshVariable_fresh (V : List String) (hint : String) : CFG.freshVariable V hint ∉ V :=
  CFG.freshVariable_not_mem V hint

example : CFG.freshVariable ["S", "A"] "S" = "B" := by decide
example : CFG.freshVariable ["S", "A"] "T" = "T" := by decide
/-- all 26 letters taken: indexed names are used -/
example : CFG.freshVariable CFG.upperLetters "S" = "S0" := by decide
example : CFG.freshVariable ("S0" :: CFG.upperLetters) "S" = "S1" := by decide

/-! ### phase 1 -/

/-- phase 1: new start variable -/
theorem addStart_spec (G : CFG) (hint : String) (hv : G.valid = true) (hS : G.S ∈ G.V) :
    (G.addStart hint).valid = true ∧ (G.addStart hint).S ∉ G.V ∧ (G.addStart hint).S ∈ (G.addStart hint).V ∧
    (∀ A, A ∈ (G.addStart hint).V ↔ A ∈ G.V ∨ A = (G.addStart hint).S) ∧
    CFG.StartNotOnRhs (G.addStart hint) ∧ (CFG.AliasOK G → CFG.AliasOK (G.addStart hint)) ∧
    ∀ w, (G.addStart hint).Lang w ↔ G.Lang w := by
  refine ⟨CFG.addStart_valid G hint hv hS, CFG.freshVariable_not_mem G.V hint, ?_, ?_,
    CFG.addStart_startNotOnRhs G hint hv hS, CFG.addStart_aliasOK G hint,
    CFG.addStart_lang G hint hv hS⟩
  · rw [CFG.addStart_V, CFG.addStart_S]; simp
  · intro A
    rw [CFG.addStart_V, CFG.addStart_S]; simp

example : exC08a.valid = true ∧ exC08a.S ∈ exC08a.V ∧ (exC08a.addStart "S").S = "B" ∧
    (exC08a.addStart "S").R =
      [⟨"B", 4, [.v "S"]⟩, ⟨"S", 0, [.v "A", .v "S"]⟩, ⟨"S", 1, []⟩, ⟨"A", 2, [.t "a"]⟩, ⟨"A", 3, []⟩] := by
  decide

example : (exC08a.addStart "S").valid = true := (addStart_spec exC08a "S" exC08a_valid exC08a_S).1

/-! ### phase 2 -/

/-- the nullable set is exact -/
theorem nullable_exact (G : CFG) (A : String) : A ∈ G.nullable ↔ G.Gen [.v A] [] :=
  CFG.mem_nullable_iff G A

example : exC08a.nullable = ["S", "A"] := by decide
example : (exC08a.addStart "S").nullable = ["S", "A", "B"] := by decide

/-- phase 2: ε-rule removal preserves the language (also for the empty word, also when S is nullable or occurs on
    right-hand sides) and establishes its postcondition -/
theorem removeEps_spec (G : CFG) (hv : G.valid = true) :
    (G.removeEps).valid = true ∧ (G.removeEps).S = G.S ∧ (G.removeEps).V = G.V ∧
    CFG.NoEpsExceptStart G.removeEps ∧ CFG.AliasOK G.removeEps ∧
    (CFG.StartNotOnRhs G → CFG.StartNotOnRhs G.removeEps) ∧
    ∀ w, (G.removeEps).Lang w ↔ G.Lang w :=
  ⟨CFG.removeEps_valid G hv, rfl, rfl, CFG.removeEps_noEps G, CFG.removeEps_aliasOK G,
    CFG.removeEps_startNotOnRhs G, CFG.removeEps_lang G⟩

/-- nullable start variable that also occurs on a right-hand side: `S → ε` is kept, `A → ε` is removed,
    `S → A S` is expanded to `S → A S | A | S | ε` -/
example : exC08a.valid = true ∧ exC08a.removeEps.R =
    [⟨"S", 4, [.v "A", .v "S"]⟩, ⟨"S", 5, [.v "A"]⟩, ⟨"S", 6, [.v "S"]⟩, ⟨"S", 7, []⟩, ⟨"A", 8, [.t "a"]⟩] := by
  decide

/-- after phase 1 the start variable is not on a rhs and the only ε-rule left is the one of the new start -/
example : (exC08a.addStart "S").removeEps.R =
    [⟨"B", 5, [.v "S"]⟩, ⟨"B", 6, []⟩, ⟨"S", 7, [.v "A", .v "S"]⟩, ⟨"S", 8, [.v "A"]⟩, ⟨"S", 9, [.v "S"]⟩,
     ⟨"A", 10, [.t "a"]⟩] := by
  decide

/-- the empty word and `a` stay in the language -/
example : exC08a.removeEps.Lang [] ∧ exC08a.removeEps.Lang ["a"] := by
  have h := (removeEps_spec exC08a exC08a_valid).2.2.2.2.2.2
  have hS : exC08a.HasRule "S" [] := ⟨⟨"S", 1, []⟩, by decide, rfl, rfl⟩
  have hAS : exC08a.HasRule "S" [.v "A", .v "S"] := ⟨⟨"S", 0, _⟩, by decide, rfl, rfl⟩
  have hA : exC08a.HasRule "A" [.t "a"] := ⟨⟨"A", 2, _⟩, by decide, rfl, rfl⟩
  have hnil : exC08a.Gen [.v "S"] [] := CFG.gen_v_iff.mpr ⟨[], hS, .nil⟩
  refine ⟨(h []).mpr hnil, (h ["a"]).mpr ?_⟩
  refine CFG.gen_v_iff.mpr ⟨_, hAS, ?_⟩
  exact CFG.Gen.v (u := ["a"]) (w := []) hA (.t .nil) hnil

#print axioms freshVariable_fresh
#print axioms addStart_spec
#print axioms nullable_exact
#print axioms removeEps_spec

end Gamba
