/-
  Gamba.Props.C17m — layout independence of the automaton text format (C17), continued: the PDA and TM
  builders give the same automaton whatever the order of the lines (for TMs: as long as no two transitions
  have the same state and read symbol — otherwise the later line wins), and any layout of the printed text of
  an NFA / PDA / TM (lines permuted, comment and blank lines inserted) parses back to it.
  Definitions used (Proofs/C17m.lean): `Parse.parsePdaLines` / `Parse.parseTmLines` (`parse_pda` / `parse_tm` on a
  list of lines); (Proofs/C16c.lean) `Parse.ch l i` (the `i`-th character of a label, as a string).
-/
import Gamba.Proofs.C17m
import Gamba.Props.C16b
import Gamba.Props.C16c
namespace Gamba
open Parse

/-! ### the builders are functions of the list of lines -/

theorem parsePda_eq_parsePdaLines (text : Parse.Word) (ok : Parse.Word → Bool) :
    Parse.parsePda text ok = Parse.parsePdaLines (Text.splitOn '\n' text) ok := rfl

theorem parseTm_eq_parseTmLines (text : Parse.Word) (ok : Parse.Word → Bool) :
    Parse.parseTm text ok = Parse.parseTmLines (Text.splitOn '\n' text) ok := rfl

/-! ### 1 — the PDA builder -/

/-- a permutation of the lines of a text that `parse_pda` accepts is accepted, and gives the same initial state,
    final states and ε (chosen by a declaration, else by looking for `ε` inside the labels — neither depends on
    the order), the same input and stack alphabets (as sets), the same states (up to order) and the same set of
    targets `(q, v)` for every key `(p, a, u)` -/
theorem parsePda_lines_perm (ok : Parse.Word → Bool) (ls ls' : List Parse.Word) (hp : ls.Perm ls')
    (P : SPDA) (h : Parse.parsePdaLines ls ok = .ok P) :
    ∃ P', Parse.parsePdaLines ls' ok = .ok P' ∧ P'.Q.Perm P.Q ∧ P'.q0 = P.q0 ∧ P'.F = P.F ∧ P'.eps = P.eps ∧
      P'.epsG = P.epsG ∧ (∀ a, a ∈ P'.Sigma ↔ a ∈ P.Sigma) ∧ (∀ g, g ∈ P'.Gamma ↔ g ∈ P.Gamma) ∧
      ∀ k x, x ∈ (P'.delta.lookup k).getD [] ↔ x ∈ (P.delta.lookup k).getD [] := by
  obtain ⟨A0, P', _, hP', hQ, _, r⟩ := parsePdaLines_layout ok (normLines_perm hp) h
  exact ⟨P', hP', hQ, r⟩

/-- with an explicit `states` line the state list is literally the same -/
theorem parsePda_lines_perm_states (ok : Parse.Word → Bool) (ls ls' : List Parse.Word) (hp : ls.Perm ls')
    (P : SPDA) (h : Parse.parsePdaLines ls ok = .ok P)
    (hst : ∃ l rest, l ∈ ls ∧ Text.splitWs (Text.strip l) = "states".toList :: rest) :
    ∃ P', Parse.parsePdaLines ls' ok = .ok P' ∧ P'.Q = P.Q ∧ P'.q0 = P.q0 ∧ P'.F = P.F ∧ P'.eps = P.eps ∧
      P'.epsG = P.epsG ∧ (∀ a, a ∈ P'.Sigma ↔ a ∈ P.Sigma) ∧ (∀ g, g ∈ P'.Gamma ↔ g ∈ P.Gamma) ∧
      ∀ k x, x ∈ (P'.delta.lookup k).getD [] ↔ x ∈ (P.delta.lookup k).getD [] := by
  obtain ⟨A0, P', h0, hP', _, hQ, r⟩ := parsePdaLines_layout ok (normLines_perm hp) h
  obtain ⟨l, rest, hl', hw⟩ := hst
  exact ⟨P', hP', hQ (parseLines_states_ne .pda ok hl' hw h0), r⟩

/-- 1, 2 and 4 of Props/C17l together, for the PDA builder: only the multiset of the word lists of the
    non-comment, non-blank lines matters -/
theorem parsePda_layout_independent (ok : Parse.Word → Bool) (ls ls' : List Parse.Word)
    (hp : (Parse.normLines ls).Perm (Parse.normLines ls')) (P : SPDA) (h : Parse.parsePdaLines ls ok = .ok P) :
    ∃ P', Parse.parsePdaLines ls' ok = .ok P' ∧ P'.Q.Perm P.Q ∧ P'.q0 = P.q0 ∧ P'.F = P.F ∧ P'.eps = P.eps ∧
      P'.epsG = P.epsG ∧ (∀ a, a ∈ P'.Sigma ↔ a ∈ P.Sigma) ∧ (∀ g, g ∈ P'.Gamma ↔ g ∈ P.Gamma) ∧
      ∀ k x, x ∈ (P'.delta.lookup k).getD [] ↔ x ∈ (P.delta.lookup k).getD [] := by
  obtain ⟨A0, P', _, hP', hQ, _, r⟩ := parsePdaLines_layout ok hp h
  exact ⟨P', hP', hQ, r⟩

/-- a 6-line PDA for `{aⁿbⁿ | n ≥ 1}`-like words; ε is not declared, it is found inside the labels -/
def C17.pdaText1 : List Char := "states p q\ninitial p\nfinal q\np p a,εA\np q b,Aε\nq q b,Aε".toList

/-- declarations reordered, comments and blank lines added, white space changed; the transition entries come in
    the same order, so the result is literally the same -/
def C17.pdaText2 : List Char :=
  "% a PDA\n\nfinal   q\n p  p\ta,εA \nstates p q\n%% pop\np q b,Aε\n   q q   b,Aε\ninitial p\n".toList

/-- the transition lines permuted as well -/
def C17.pdaText3 : List Char := "q q b,Aε\nfinal q\np q b,Aε\ninitial p\np p a,εA\nstates p q".toList

example : Parse.parsePda C17.pdaText1 =
    .ok { Q := ["p", "q"], Sigma := ["a", "b"], Gamma := ["A"], q0 := "p", F := ["q"], eps := "ε", epsG := "ε",
          delta := [(("p", "a", "ε"), [("p", "A")]), (("p", "b", "A"), [("q", "ε")]),
                    (("q", "b", "A"), [("q", "ε")])] } := by rfl

example : Parse.parsePda C17.pdaText2 =
    .ok { Q := ["p", "q"], Sigma := ["a", "b"], Gamma := ["A"], q0 := "p", F := ["q"], eps := "ε", epsG := "ε",
          delta := [(("p", "a", "ε"), [("p", "A")]), (("p", "b", "A"), [("q", "ε")]),
                    (("q", "b", "A"), [("q", "ε")])] } := by rfl

/-- the undeclared input alphabet and the entries of `δ` come out in another order -/
example : Parse.parsePda C17.pdaText3 =
    .ok { Q := ["p", "q"], Sigma := ["b", "a"], Gamma := ["A"], q0 := "p", F := ["q"], eps := "ε", epsG := "ε",
          delta := [(("q", "b", "A"), [("q", "ε")]), (("p", "b", "A"), [("q", "ε")]),
                    (("p", "a", "ε"), [("p", "A")])] } := by rfl

/-- the hypotheses of `parsePda_lines_perm_states` on these texts -/
example : (Text.splitOn '\n' C17.pdaText1).Perm (Text.splitOn '\n' C17.pdaText3) ∧
    (∃ l rest, l ∈ Text.splitOn '\n' C17.pdaText1 ∧ Text.splitWs (Text.strip l) = "states".toList :: rest) :=
  ⟨by decide, "states p q".toList, ["p".toList, "q".toList], by decide, by decide⟩

/-- … and of `parsePda_layout_independent` -/
example : (Parse.normLines (Text.splitOn '\n' C17.pdaText1)).Perm (Parse.normLines (Text.splitOn '\n' C17.pdaText2)) := by
  decide

def C17.pdaLines1 : List Parse.Word :=
  ["initial p".toList, "p q a,εA".toList, "p r a,εB".toList, "q p b,Bε".toList]

def C17.pdaLines2 : List Parse.Word :=
  ["q p b,Bε".toList, "p r a,εB".toList, "initial p".toList, "p q a,εA".toList]

/-- without a `states` line the state list is collected in an order that depends on the order of the lines (so only
    `Perm` holds for `Q`), and the target list of `(p, a, ε)` is `[(q, A), (r, B)]` in one layout and
    `[(r, B), (q, A)]` in the other (so only the membership statement holds for `δ`) -/
example : C17.pdaLines1.Perm C17.pdaLines2 ∧
    Parse.parsePdaLines C17.pdaLines1 =
      .ok { Q := ["r", "q", "p"], Sigma := ["a", "b"], Gamma := ["A", "B"], q0 := "p", F := [], eps := "ε", epsG := "ε",
            delta := [(("p", "a", "ε"), [("q", "A"), ("r", "B")]), (("q", "b", "B"), [("p", "ε")])] } ∧
    Parse.parsePdaLines C17.pdaLines2 =
      .ok { Q := ["r", "p", "q"], Sigma := ["b", "a"], Gamma := ["B", "A"], q0 := "p", F := [], eps := "ε", epsG := "ε",
            delta := [(("q", "b", "B"), [("p", "ε")]), (("p", "a", "ε"), [("r", "B"), ("q", "A")])] } :=
  ⟨by decide, rfl, rfl⟩

/-! ### 2 — the TM builder -/

/-- a permutation of the lines of a text that `parse_tm` accepts is ALWAYS accepted, and gives the same initial,
    accepting and rejecting state, the same blank, the same input and tape alphabets (as sets), the same states (up
    to order), and a transition function defined for the same (state, symbol) pairs.  The VALUES of the transition
    function may differ: see `parseTm_lines_perm` and `parseTm_lines_perm_needs_nodup`. -/
theorem parseTm_lines_perm_weak (ok : Parse.Word → Bool) (ls ls' : List Parse.Word) (hp : ls.Perm ls')
    (T : TM String String) (h : Parse.parseTmLines ls ok = .ok T) :
    ∃ T', Parse.parseTmLines ls' ok = .ok T' ∧ T'.Q.Perm T.Q ∧ T'.q0 = T.q0 ∧ T'.qAccept = T.qAccept ∧
      T'.qReject = T.qReject ∧ T'.blank = T.blank ∧ (∀ a, a ∈ T'.Sigma ↔ a ∈ T.Sigma) ∧
      (∀ g, g ∈ T'.Gamma ↔ g ∈ T.Gamma) ∧ ∀ k, T'.delta.lookup k = none ↔ T.delta.lookup k = none := by
  obtain ⟨A0, T', _, hT', hQ, _, h0, ha, hr, hb, hS, hG, hn, _⟩ := parseTmLines_layout ok (normLines_perm hp) h
  exact ⟨T', hT', hQ, h0, ha, hr, hb, hS, hG, hn⟩

/-- … and when no two transition entries of the text have the same state and the same read symbol (stated on the
    record `A` returned by the line parser: the keys `(p, first character of the label)` of `A.transitions` are
    distinct), the transition function is the same too -/
theorem parseTm_lines_perm (ok : Parse.Word → Bool) (ls ls' : List Parse.Word) (hp : ls.Perm ls')
    (T : TM String String) (h : Parse.parseTmLines ls ok = .ok T)
    (A : Parse.Raw) (hA : Parse.parseLines .tm ok ls = .ok A)
    (hnd : (A.transitions.map fun t => (t.1, Parse.ch t.2.1 0)).Nodup) :
    ∃ T', Parse.parseTmLines ls' ok = .ok T' ∧ T'.Q.Perm T.Q ∧ T'.q0 = T.q0 ∧ T'.qAccept = T.qAccept ∧
      T'.qReject = T.qReject ∧ T'.blank = T.blank ∧ (∀ a, a ∈ T'.Sigma ↔ a ∈ T.Sigma) ∧
      (∀ g, g ∈ T'.Gamma ↔ g ∈ T.Gamma) ∧ ∀ k, T'.delta.lookup k = T.delta.lookup k := by
  obtain ⟨A0, T', hA0, hT', hQ, _, h0, ha, hr, hb, hS, hG, _, hd⟩ := parseTmLines_layout ok (normLines_perm hp) h
  rw [hA] at hA0
  cases hA0
  exact ⟨T', hT', hQ, h0, ha, hr, hb, hS, hG, hd hnd⟩

/-- with an explicit `states` line the state list is literally the same -/
theorem parseTm_lines_perm_states (ok : Parse.Word → Bool) (ls ls' : List Parse.Word) (hp : ls.Perm ls')
    (T : TM String String) (h : Parse.parseTmLines ls ok = .ok T)
    (A : Parse.Raw) (hA : Parse.parseLines .tm ok ls = .ok A)
    (hnd : (A.transitions.map fun t => (t.1, Parse.ch t.2.1 0)).Nodup)
    (hst : ∃ l rest, l ∈ ls ∧ Text.splitWs (Text.strip l) = "states".toList :: rest) :
    ∃ T', Parse.parseTmLines ls' ok = .ok T' ∧ T'.Q = T.Q ∧ T'.q0 = T.q0 ∧ T'.qAccept = T.qAccept ∧
      T'.qReject = T.qReject ∧ T'.blank = T.blank ∧ (∀ a, a ∈ T'.Sigma ↔ a ∈ T.Sigma) ∧
      (∀ g, g ∈ T'.Gamma ↔ g ∈ T.Gamma) ∧ ∀ k, T'.delta.lookup k = T.delta.lookup k := by
  obtain ⟨A0, T', hA0, hT', _, hQ, h0, ha, hr, hb, hS, hG, _, hd⟩ := parseTmLines_layout ok (normLines_perm hp) h
  obtain ⟨l, rest, hl', hw⟩ := hst
  have hne := parseLines_states_ne .tm ok hl' hw hA0
  rw [hA] at hA0
  cases hA0
  exact ⟨T', hT', hQ hne, h0, ha, hr, hb, hS, hG, hd hnd⟩

/-- the layout form: only the multiset of the word lists of the non-comment, non-blank lines matters -/
theorem parseTm_layout_independent (ok : Parse.Word → Bool) (ls ls' : List Parse.Word)
    (hp : (Parse.normLines ls).Perm (Parse.normLines ls')) (T : TM String String)
    (h : Parse.parseTmLines ls ok = .ok T) (A : Parse.Raw) (hA : Parse.parseLines .tm ok ls = .ok A)
    (hnd : (A.transitions.map fun t => (t.1, Parse.ch t.2.1 0)).Nodup) :
    ∃ T', Parse.parseTmLines ls' ok = .ok T' ∧ T'.Q.Perm T.Q ∧ T'.q0 = T.q0 ∧ T'.qAccept = T.qAccept ∧
      T'.qReject = T.qReject ∧ T'.blank = T.blank ∧ (∀ a, a ∈ T'.Sigma ↔ a ∈ T.Sigma) ∧
      (∀ g, g ∈ T'.Gamma ↔ g ∈ T.Gamma) ∧ ∀ k, T'.delta.lookup k = T.delta.lookup k := by
  obtain ⟨A0, T', hA0, hT', hQ, _, h0, ha, hr, hb, hS, hG, _, hd⟩ := parseTmLines_layout ok hp h
  rw [hA] at hA0
  cases hA0
  exact ⟨T', hT', hQ, h0, ha, hr, hb, hS, hG, hd hnd⟩

/-- the statement without the hypothesis on repeated keys -/
def parseTm_lines_perm_stmt : Prop :=
  ∀ (ok : Parse.Word → Bool) (ls ls' : List Parse.Word) (_ : ls.Perm ls') (T : TM String String)
    (_ : Parse.parseTmLines ls ok = .ok T),
    ∃ T', Parse.parseTmLines ls' ok = .ok T' ∧ ∀ k, T'.delta.lookup k = T.delta.lookup k

/-- two transitions for `(p, a)`: `p p aa,R` and `p q ab,L` -/
def C17.tmDupText1 : List Char := "initial p\np p aa,R\np q ab,L\np accept __,R".toList
/-- the same lines, the two transitions for `(p, a)` swapped -/
def C17.tmDupText2 : List Char := "initial p\np q ab,L\np p aa,R\np accept __,R".toList

theorem C17.tmDup_eval :
    Parse.parseTm C17.tmDupText1 =
      .ok { Q := ["q", "p", "accept", "reject"], Sigma := ["a", "b"], Gamma := ["a", "b", "_"], q0 := "p",
            qAccept := "accept", qReject := "reject", blank := "_",
            delta := [(("p", "a"), ("q", "b", Dir.L)), (("p", "_"), ("accept", "_", Dir.R))] } ∧
    Parse.parseTm C17.tmDupText2 =
      .ok { Q := ["q", "p", "accept", "reject"], Sigma := ["b", "a"], Gamma := ["b", "a", "_"], q0 := "p",
            qAccept := "accept", qReject := "reject", blank := "_",
            delta := [(("p", "a"), ("p", "a", Dir.R)), (("p", "_"), ("accept", "_", Dir.R))] } :=
  ⟨rfl, rfl⟩

/-- the hypothesis on repeated keys is needed: `parse_tm` lets a later transition for the same state and read symbol
    REPLACE an earlier one, so two texts with the same lines in a different order can parse to different machines -/
theorem parseTm_lines_perm_needs_nodup :
    (Text.splitOn '\n' C17.tmDupText1).Perm (Text.splitOn '\n' C17.tmDupText2) ∧
    ∃ T1 T2, Parse.parseTm C17.tmDupText1 = .ok T1 ∧ Parse.parseTm C17.tmDupText2 = .ok T2 ∧
      T1.delta.lookup ("p", "a") = some ("q", "b", Dir.L) ∧ T2.delta.lookup ("p", "a") = some ("p", "a", Dir.R) :=
  ⟨by decide, _, _, C17.tmDup_eval.1, C17.tmDup_eval.2, rfl, rfl⟩

theorem parseTm_lines_perm_stmt_false : ¬ parseTm_lines_perm_stmt := by
  intro H
  obtain ⟨hp, T1, T2, h1, h2, l1, l2⟩ := parseTm_lines_perm_needs_nodup
  rw [parseTm_eq_parseTmLines] at h1 h2
  obtain ⟨T', hT', hd⟩ := H Parse.isWord _ _ hp T1 h1
  rw [h2] at hT'
  cases hT'
  have := hd ("p", "a")
  rw [l1, l2] at this
  revert this
  decide

/-- the record of the first text has the key `(p, a)` twice -/
example : ∃ A, Parse.parseLines .tm Parse.isWord (Text.splitOn '\n' C17.tmDupText1) = .ok A ∧
    (A.transitions.map fun t => (t.1, Parse.ch t.2.1 0)) = [("p", "a"), ("p", "a"), ("p", "_")] := ⟨_, rfl, rfl⟩

/-- a TM that overwrites its input with `x` and accepts on the first blank -/
def C17.tmText1 : List Char :=
  "states s qa qr\ninitial s\naccept qa\nreject qr\ns s ax,R\ns qa __,L".toList

/-- declarations reordered, comments and blank lines added, white space changed; the transition entries come in
    the same order, so the result is literally the same -/
def C17.tmText2 : List Char :=
  "% a TM\nreject qr\n\n s  s\tax,R \naccept   qa\n%% halt\ns qa __,L\nstates s qa qr\ninitial s\n".toList

/-- the transition lines swapped as well -/
def C17.tmText3 : List Char := "s qa __,L\nreject qr\ninitial s\ns s ax,R\naccept qa\nstates s qa qr".toList

example : Parse.parseTm C17.tmText1 =
    .ok { Q := ["s", "qa", "qr"], Sigma := ["a", "x"], Gamma := ["a", "x", "_"], q0 := "s", qAccept := "qa",
          qReject := "qr", blank := "_",
          delta := [(("s", "a"), ("s", "x", Dir.R)), (("s", "_"), ("qa", "_", Dir.L))] } := by rfl

example : Parse.parseTm C17.tmText2 =
    .ok { Q := ["s", "qa", "qr"], Sigma := ["a", "x"], Gamma := ["a", "x", "_"], q0 := "s", qAccept := "qa",
          qReject := "qr", blank := "_",
          delta := [(("s", "a"), ("s", "x", Dir.R)), (("s", "_"), ("qa", "_", Dir.L))] } := by rfl

/-- the undeclared alphabets and the entries of `δ` come out in another order -/
example : Parse.parseTm C17.tmText3 =
    .ok { Q := ["s", "qa", "qr"], Sigma := ["a", "x"], Gamma := ["_", "a", "x"], q0 := "s", qAccept := "qa",
          qReject := "qr", blank := "_",
          delta := [(("s", "_"), ("qa", "_", Dir.L)), (("s", "a"), ("s", "x", Dir.R))] } := by rfl

/-- the hypotheses of `parseTm_lines_perm_states` on these texts: a permutation, distinct keys, a `states` line -/
example : (Text.splitOn '\n' C17.tmText1).Perm (Text.splitOn '\n' C17.tmText3) ∧
    (∃ A, Parse.parseLines .tm Parse.isWord (Text.splitOn '\n' C17.tmText1) = .ok A ∧
      (A.transitions.map fun t => (t.1, Parse.ch t.2.1 0)) = [("s", "a"), ("s", "_")] ∧
      (A.transitions.map fun t => (t.1, Parse.ch t.2.1 0)).Nodup) ∧
    (∃ l rest, l ∈ Text.splitOn '\n' C17.tmText1 ∧ Text.splitWs (Text.strip l) = "states".toList :: rest) :=
  ⟨by decide, ⟨_, rfl, rfl, by decide⟩, "states s qa qr".toList, ["s".toList, "qa".toList, "qr".toList], by decide,
    by decide⟩

example : (Parse.normLines (Text.splitOn '\n' C17.tmText1)).Perm (Parse.normLines (Text.splitOn '\n' C17.tmText2)) := by
  decide

/-! ### 3 — any layout of the printed text of an NFA, a PDA, a TM -/

/-- a text whose non-comment, non-blank lines have the same words as those of `print_nfa N`, in any order,
    parses to `N` (hypotheses and conclusion of `parse_print_nfa`) -/
theorem parse_any_layout_nfa_words (N : NFA String String) (hv : N.valid = true) (hk : (N.delta.map (·.1)).Nodup)
    (hQ : ∀ q, q ∈ N.Q → Parse.NfaNameOk q) (hS : ∀ a, a ∈ N.Sigma → Parse.isWord a.toList = true)
    (he : Parse.isWord N.eps.toList = true) (text : List Char)
    (hp : (Parse.normLines (Text.splitOn '\n' text)).Perm (Parse.normLines (Text.splitOn '\n' (Parse.printNfa N).toList))) :
    ∃ N', Parse.parseNfa text = .ok N' ∧
      (∀ q, q ∈ N'.Q ↔ q ∈ N.Q) ∧ (∀ a, a ∈ N'.Sigma ↔ a ∈ N.Sigma) ∧ N'.q0 = N.q0 ∧ (∀ q, q ∈ N'.F ↔ q ∈ N.F) ∧
      N'.eps = N.eps ∧ ∀ q a x, x ∈ N'.succ q a ↔ x ∈ N.succ q a := by
  obtain ⟨N1, hp1, hQ1, hS1, hq1, hF1, he1, hd1⟩ := parse_print_nfa N hv hk hQ hS he
  have hp1' : Parse.parseNfaLines (Text.splitOn '\n' (Parse.printNfa N).toList) Parse.isWord = .ok N1 := hp1
  obtain ⟨A0, N', _, hN', gQ, _, gq0, gF, ge, gS, gl⟩ := parseNfaLines_layout Parse.isWord hp.symm hp1'
  refine ⟨N', hN', ?_, ?_, gq0.trans hq1, ?_, ge.trans he1, ?_⟩
  · intro q; rw [gQ.mem_iff, hQ1]
  · intro a; rw [gS a, hS1]
  · intro q; rw [gF, hF1]
  · intro q a x
    exact (gl q a x).trans (hd1 q a x)

/-- any permutation of the lines of `print_nfa N`, with comment and blank lines `cs` inserted anywhere, parses
    to `N` -/
theorem parse_any_layout_nfa (N : NFA String String) (hv : N.valid = true) (hk : (N.delta.map (·.1)).Nodup)
    (hQ : ∀ q, q ∈ N.Q → Parse.NfaNameOk q) (hS : ∀ a, a ∈ N.Sigma → Parse.isWord a.toList = true)
    (he : Parse.isWord N.eps.toList = true) (text : List Char) (cs : List Parse.Word)
    (hcs : ∀ c, c ∈ cs → Parse.isSkipLine c = true)
    (hp : (Text.splitOn '\n' text).Perm (Text.splitOn '\n' (Parse.printNfa N).toList ++ cs)) :
    ∃ N', Parse.parseNfa text = .ok N' ∧
      (∀ q, q ∈ N'.Q ↔ q ∈ N.Q) ∧ (∀ a, a ∈ N'.Sigma ↔ a ∈ N.Sigma) ∧ N'.q0 = N.q0 ∧ (∀ q, q ∈ N'.F ↔ q ∈ N.F) ∧
      N'.eps = N.eps ∧ ∀ q a x, x ∈ N'.succ q a ↔ x ∈ N.succ q a := by
  apply parse_any_layout_nfa_words N hv hk hQ hS he text
  have := normLines_perm hp
  rw [normLines_append, normLines_all_skip hcs, List.append_nil] at this
  exact this

/-- the printed text of `C16.exN` is `"states p q r\nfinal \ninitial p\ninput_symbols a b\nepsilon _\np q b _\nq p a\nq q a\n"`
    (`C16.exN_print`; its hypotheses are checked in Props/C16b.lean); this is a permutation of its lines — the last,
    empty one included — with two comment lines and a blank one -/
def C17.exNShuffled : List Char :=
  "% shuffled\nq q a\ninput_symbols a b\nq p a\n\nfinal \nstates p q r\n% the only two-label edge\np q b _\nepsilon _\n\ninitial p".toList

set_option maxRecDepth 8192 in
example : (Text.splitOn '\n' C17.exNShuffled).Perm
    (Text.splitOn '\n' (Parse.printNfa C16.exN).toList ++
      ["% shuffled".toList, "".toList, "% the only two-label edge".toList]) ∧
    (∀ c, c ∈ ["% shuffled".toList, "".toList, "% the only two-label edge".toList] → Parse.isSkipLine c = true) := by
  rw [C16.exN_print]
  decide

set_option maxRecDepth 8192 in
example : Parse.parseNfa C17.exNShuffled =
    .ok { Q := ["p", "q", "r"], Sigma := ["a", "b"], q0 := "p", F := [], eps := "_",
          delta := [(("q", "a"), ["q", "p"]), (("p", "b"), ["q"]), (("p", "_"), ["q"])] } := by rfl

/-- a text whose non-comment, non-blank lines have the same words as those of `print_pda P`, in any order,
    parses to `P` (hypotheses and conclusion of `parse_print_pda`) -/
theorem parse_any_layout_pda_words (P : SPDA) (hv : P.valid = true) (hk : (P.delta.map (·.1)).Nodup)
    (heq : P.epsG = P.eps) (hQ : ∀ q, q ∈ P.Q → Parse.PdaNameOk q)
    (hS : ∀ a, a ∈ P.Sigma → Parse.Char1 Text.isWordChar a)
    (hG : ∀ x, x ∈ P.Gamma → Parse.Char1 (Parse.isLabelSym false) x)
    (he : Parse.Char1 Text.isWordChar P.eps) (text : List Char)
    (hp : (Parse.normLines (Text.splitOn '\n' text)).Perm (Parse.normLines (Text.splitOn '\n' (Parse.printPda P).toList))) :
    ∃ P', Parse.parsePda text = .ok P' ∧
      (∀ q, q ∈ P'.Q ↔ q ∈ P.Q) ∧ (∀ a, a ∈ P'.Sigma ↔ a ∈ P.Sigma) ∧ (∀ x, x ∈ P'.Gamma ↔ x ∈ P.Gamma) ∧
      P'.q0 = P.q0 ∧ (∀ q, q ∈ P'.F ↔ q ∈ P.F) ∧ P'.eps = P.eps ∧ P'.epsG = P.epsG ∧
      ∀ k t, t ∈ (P'.delta.lookup k).getD [] ↔ t ∈ (P.delta.lookup k).getD [] := by
  obtain ⟨P1, hp1, hQ1, hS1, hG1, hq1, hF1, he1, he2, hd1⟩ := parse_print_pda P hv hk heq hQ hS hG he
  have hp1' : Parse.parsePdaLines (Text.splitOn '\n' (Parse.printPda P).toList) Parse.isWord = .ok P1 := hp1
  obtain ⟨A0, P', _, hP', gQ, _, gq0, gF, ge, geG, gS, gG, gl⟩ := parsePdaLines_layout Parse.isWord hp.symm hp1'
  refine ⟨P', hP', ?_, ?_, ?_, gq0.trans hq1, ?_, ge.trans he1, geG.trans he2, ?_⟩
  · intro q; rw [gQ.mem_iff, hQ1]
  · intro a; rw [gS a, hS1]
  · intro x; rw [gG x, hG1]
  · intro q; rw [gF, hF1]
  · intro k t
    exact (gl k t).trans (hd1 k t)

/-- any permutation of the lines of `print_pda P`, with comment and blank lines `cs` inserted anywhere, parses
    to `P` -/
theorem parse_any_layout_pda (P : SPDA) (hv : P.valid = true) (hk : (P.delta.map (·.1)).Nodup)
    (heq : P.epsG = P.eps) (hQ : ∀ q, q ∈ P.Q → Parse.PdaNameOk q)
    (hS : ∀ a, a ∈ P.Sigma → Parse.Char1 Text.isWordChar a)
    (hG : ∀ x, x ∈ P.Gamma → Parse.Char1 (Parse.isLabelSym false) x)
    (he : Parse.Char1 Text.isWordChar P.eps) (text : List Char) (cs : List Parse.Word)
    (hcs : ∀ c, c ∈ cs → Parse.isSkipLine c = true)
    (hp : (Text.splitOn '\n' text).Perm (Text.splitOn '\n' (Parse.printPda P).toList ++ cs)) :
    ∃ P', Parse.parsePda text = .ok P' ∧
      (∀ q, q ∈ P'.Q ↔ q ∈ P.Q) ∧ (∀ a, a ∈ P'.Sigma ↔ a ∈ P.Sigma) ∧ (∀ x, x ∈ P'.Gamma ↔ x ∈ P.Gamma) ∧
      P'.q0 = P.q0 ∧ (∀ q, q ∈ P'.F ↔ q ∈ P.F) ∧ P'.eps = P.eps ∧ P'.epsG = P.epsG ∧
      ∀ k t, t ∈ (P'.delta.lookup k).getD [] ↔ t ∈ (P.delta.lookup k).getD [] := by
  apply parse_any_layout_pda_words P hv hk heq hQ hS hG he text
  have := normLines_perm hp
  rw [normLines_append, normLines_all_skip hcs, List.append_nil] at this
  exact this

/-- the printed text of `C16.exP` (`C16.exP_print`; its hypotheses are checked in Props/C16c.lean), its lines
    permuted, with a comment line and a blank line -/
def C17.exPShuffled : List Char :=
  "q q b,Aε\nepsilon ε\n% push\np p a,εA a,ε$\ns p ε,ε$\nstack_symbols $ A\nfinal f\n\nq f ε,$ε\nstates f p q s\np q ε,εε\ninput_symbols a b\n\ninitial s".toList

set_option maxRecDepth 8192 in
example : (Text.splitOn '\n' C17.exPShuffled).Perm
    (Text.splitOn '\n' (Parse.printPda C16.exP).toList ++
      ["% push".toList, "".toList]) ∧
    (∀ c, c ∈ ["% push".toList, "".toList] → Parse.isSkipLine c = true) := by
  rw [C16.exP_print]
  decide

set_option maxRecDepth 8192 in
example : Parse.parsePda C17.exPShuffled =
    .ok { C16.exP with Q := ["f", "p", "q", "s"], Sigma := ["a", "b"], Gamma := ["$", "A"],
                       delta := [(("q", "b", "A"), [("q", "ε")]), (("p", "a", "ε"), [("p", "A"), ("p", "$")]),
                                 (("s", "ε", "ε"), [("p", "$")]), (("q", "ε", "$"), [("f", "ε")]),
                                 (("p", "ε", "ε"), [("q", "ε")])] } := by rfl

/-- a text whose non-comment, non-blank lines have the same words as those of `print_tm T`, in any order,
    parses to `T` (hypotheses and conclusion of `parse_print_tm`; the keys of the printed transition entries are
    distinct because those of `T.delta` are) -/
theorem parse_any_layout_tm_words (T : TM String String) (hv : T.valid = true) (hk : (T.delta.map (·.1)).Nodup)
    (hQ : ∀ q, q ∈ T.Q → Parse.TmNameOk q)
    (hG : ∀ x, x ∈ T.Gamma → Parse.Char1 (Parse.isLabelSym true) x)
    (hb : Parse.Char1 (Parse.isLabelSym true) T.blank) (text : List Char)
    (hp : (Parse.normLines (Text.splitOn '\n' text)).Perm (Parse.normLines (Text.splitOn '\n' (Parse.printTm T).toList))) :
    ∃ T', Parse.parseTm text = .ok T' ∧
      (∀ q, q ∈ T'.Q ↔ q ∈ T.Q) ∧ (∀ a, a ∈ T'.Sigma ↔ a ∈ T.Sigma) ∧ (∀ x, x ∈ T'.Gamma ↔ x ∈ T.Gamma) ∧
      T'.q0 = T.q0 ∧ T'.qAccept = T.qAccept ∧ T'.qReject = T.qReject ∧ T'.blank = T.blank ∧
      ∀ k, T'.delta.lookup k = T.delta.lookup k := by
  obtain ⟨T1, hp1, hQ1, hS1, hG1, h01, ha1, hr1, hb1, hd1⟩ := parse_print_tm T hv hk hQ hG hb
  have hp1' : Parse.parseTmLines (Text.splitOn '\n' (Parse.printTm T).toList) Parse.isWord = .ok T1 := hp1
  obtain ⟨A0, T', hA0, hT', gQ, _, g0, ga, gr, gb, gS, gG, _, gd⟩ := parseTmLines_layout Parse.isWord hp.symm hp1'
  rw [parseLines_print_tm T hv hQ hG] at hA0
  cases hA0
  have hnd := tmRaw_keys_nodup T hv hk hG
  refine ⟨T', hT', ?_, ?_, ?_, g0.trans h01, ga.trans ha1, gr.trans hr1, gb.trans hb1, ?_⟩
  · intro q; rw [gQ.mem_iff, hQ1]
  · intro a; rw [gS a, hS1]
  · intro x; rw [gG x, hG1]
  · intro k
    exact (gd hnd k).trans (hd1 k)

/-- any permutation of the lines of `print_tm T`, with comment and blank lines `cs` inserted anywhere, parses
    to `T` -/
theorem parse_any_layout_tm (T : TM String String) (hv : T.valid = true) (hk : (T.delta.map (·.1)).Nodup)
    (hQ : ∀ q, q ∈ T.Q → Parse.TmNameOk q)
    (hG : ∀ x, x ∈ T.Gamma → Parse.Char1 (Parse.isLabelSym true) x)
    (hb : Parse.Char1 (Parse.isLabelSym true) T.blank) (text : List Char) (cs : List Parse.Word)
    (hcs : ∀ c, c ∈ cs → Parse.isSkipLine c = true)
    (hp : (Text.splitOn '\n' text).Perm (Text.splitOn '\n' (Parse.printTm T).toList ++ cs)) :
    ∃ T', Parse.parseTm text = .ok T' ∧
      (∀ q, q ∈ T'.Q ↔ q ∈ T.Q) ∧ (∀ a, a ∈ T'.Sigma ↔ a ∈ T.Sigma) ∧ (∀ x, x ∈ T'.Gamma ↔ x ∈ T.Gamma) ∧
      T'.q0 = T.q0 ∧ T'.qAccept = T.qAccept ∧ T'.qReject = T.qReject ∧ T'.blank = T.blank ∧
      ∀ k, T'.delta.lookup k = T.delta.lookup k := by
  apply parse_any_layout_tm_words T hv hk hQ hG hb text
  have := normLines_perm hp
  rw [normLines_append, normLines_all_skip hcs, List.append_nil] at this
  exact this

/-- the printed text of `C16.exT` (`C16.exT_print`; its hypotheses are checked in Props/C16c.lean), its lines
    permuted, with two comment lines -/
def C17.exTShuffled : List Char :=
  "s s _x,R\nblank _\n% the empty input alphabet stays empty\ninput_symbols \nreject qr\n\ns qa x_,L\ntape_symbols _ x\n%\nstates qa qr s\naccept qa\ninitial s".toList

set_option maxRecDepth 8192 in
example : (Text.splitOn '\n' C17.exTShuffled).Perm
    (Text.splitOn '\n' (Parse.printTm C16.exT).toList ++
      ["% the empty input alphabet stays empty".toList, "%".toList]) ∧
    (∀ c, c ∈ ["% the empty input alphabet stays empty".toList, "%".toList] → Parse.isSkipLine c = true) := by
  rw [C16.exT_print]
  decide

set_option maxRecDepth 8192 in
example : Parse.parseTm C17.exTShuffled =
    .ok { C16.exT with Q := ["qa", "qr", "s"], Sigma := [], Gamma := ["_", "x"],
                       delta := [(("s", "_"), ("s", "x", Dir.R)), (("s", "x"), ("qa", "_", Dir.L))] } := by rfl

#print axioms parsePda_eq_parsePdaLines
#print axioms parseTm_eq_parseTmLines
#print axioms parsePda_lines_perm
#print axioms parsePda_lines_perm_states
#print axioms parsePda_layout_independent
#print axioms parseTm_lines_perm_weak
#print axioms parseTm_lines_perm
#print axioms parseTm_lines_perm_states
#print axioms parseTm_layout_independent
#print axioms parseTm_lines_perm_needs_nodup
#print axioms parseTm_lines_perm_stmt_false
#print axioms parse_any_layout_nfa_words
#print axioms parse_any_layout_nfa
#print axioms parse_any_layout_pda_words
#print axioms parse_any_layout_pda
#print axioms parse_any_layout_tm_words
#print axioms parse_any_layout_tm

end Gamba
