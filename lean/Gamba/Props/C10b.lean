/-
  Gamba.Props.C10b — Sipser's Lemma 2.27 for the model of the triple construction of `pda_to_cfg`
  (`SPDA.tripleCfg`): for a PDA in push/pop form the variable `A_pq` (named `p'q`) generates exactly the words
  that take the PDA from `p` with the empty stack to `q` with the empty stack; hence for a push/pop PDA with one
  accepting state that accepts only with the empty stack the grammar generates exactly the PDA's language.

  Completeness needs `P.epsG = P.eps` (the two ε fields are the same Python string; `tripleRules` compares the
  stack component of a transition with `P.eps`, the semantics with `P.epsG`): without it the statement is false,
  see `tripleCfg_complete_needs_heq` below.
-/
import Gamba.Proofs.C10b
namespace Gamba

-- some hypotheses of the requested signatures (`hinj`, `hk` in the completeness part) are not needed by the proofs
set_option linter.unusedVariables false

/-- soundness: whatever `A_pq` generates is an empty-stack-to-empty-stack computation -/
theorem tripleCfg_sound (P : SPDA) (hv : P.valid = true) (hk : (P.delta.map (·.1)).Nodup) (hpp : P.isPushPop = true)
    (hinj : P.VarInj) (qa : String) (p q : String) (hp : p ∈ P.Q) (hq : q ∈ P.Q) (w : List String)
    (h : (P.tripleCfg qa).Gen [.v (pdaVar p q)] w) : P.Run (p, []) w (q, []) :=
  C10b.sound P hv hk hpp hinj qa p q hp hq w h

/-- the hypotheses hold for the concrete push/pop PDA `C10b.exPDA` (`aⁿbⁿ`, `n ≥ 1`, bottom marker `$`) -/
example : C10b.exPDA.valid = true ∧ (C10b.exPDA.delta.map (·.1)).Nodup ∧ C10b.exPDA.isPushPop = true ∧
    C10b.exPDA.VarInj ∧ "q1" ∈ C10b.exPDA.Q ∧ "q2" ∈ C10b.exPDA.Q :=
  ⟨by decide, by decide, by decide, C10b.exPDA_varInj, by decide, by decide⟩

/-- … and the premise: `A_{q1 q2}` generates `a b` (rule `A_{q1 q2} → a A_{q1 q1} b`, then `A_{q1 q1} → ε`) -/
example : (C10b.exPDA.tripleCfg "q3").Gen [.v (pdaVar "q1" "q2")] ["a", "b"] :=
  CFG.gen_v_iff.mpr ⟨[.t "a", .v (pdaVar "q1" "q1"), .t "b"],
    (C10b.hasRule_iff _ _ _ _).mpr (.inl ⟨"x", "q1", "a", "q1", "q1", "b", "q2", "", by decide,
      ⟨[("q1", "x")], by decide, by decide⟩, ⟨[("q2", "")], by decide, by decide⟩, by decide, rfl, rfl⟩),
    .t (.v ((C10b.hasRule_iff _ _ _ _).mpr (.inr (.inr ⟨"q1", by decide, rfl, rfl⟩))) .nil (.t .nil))⟩

/-- completeness -/
theorem tripleCfg_complete (P : SPDA) (hv : P.valid = true) (hk : (P.delta.map (·.1)).Nodup) (hpp : P.isPushPop = true)
    (hinj : P.VarInj) (heq : P.epsG = P.eps) (qa : String) (p q : String) (hp : p ∈ P.Q) (hq : q ∈ P.Q)
    (w : List String) (h : P.Run (p, []) w (q, [])) : (P.tripleCfg qa).Gen [.v (pdaVar p q)] w :=
  C10b.complete P hv hk hpp heq qa p q hp hq w h

/-- the premise on `exPDA`: `(q1, []) --a b--> (q2, [])` (push `x` reading `a`, pop it reading `b`) -/
example : C10b.exPDA.epsG = C10b.exPDA.eps ∧ C10b.exPDA.Run ("q1", []) ["a", "b"] ("q2", []) :=
  have m1 : C10b.exPDA.Move "a" ("q1", []) ("q1", [] ++ ["x"]) :=
    C10b.move_push (by decide) ⟨[("q1", "x")], by decide, by decide⟩ (by decide) []
  have m2 : C10b.exPDA.Move "b" ("q1", [] ++ ["x"]) ("q2", []) :=
    C10b.move_pop (by decide) ⟨[("q2", "")], by decide, by decide⟩ (by decide) []
  ⟨rfl, .sym (by decide) m1 (.sym (by decide) m2 (.nil _))⟩

/-- the completeness statement without `heq` … -/
def tripleCfg_complete_noHeq_stmt : Prop :=
  ∀ (P : SPDA), P.valid = true → (P.delta.map (·.1)).Nodup → P.isPushPop = true → P.VarInj →
    ∀ (qa p q : String), p ∈ P.Q → q ∈ P.Q → ∀ (w : List String),
      P.Run (p, []) w (q, []) → (P.tripleCfg qa).Gen [.v (pdaVar p q)] w

/-- … is false: `C10b.exBad` (`eps = "e"`, `epsG = ""`) runs `(p, []) --a b--> (p, [])` but its triple grammar has
    no terminal at all.  (Every PDA the driver builds has `epsG = eps`.) -/
theorem tripleCfg_complete_needs_heq : ¬ tripleCfg_complete_noHeq_stmt := fun h =>
  C10b.exBad_not_gen "p" (h C10b.exBad (by decide) (by decide) (by decide) C10b.exBad_varInj "p" "p" "p"
    (by decide) (by decide) _ C10b.exBad_run)

/-- hence: for a push/pop PDA with the single accepting state `qa` that accepts only with the empty stack,
    the grammar generates exactly the PDA's language -/
theorem tripleCfg_lang (P : SPDA) (hv : P.valid = true) (hk : (P.delta.map (·.1)).Nodup) (hpp : P.isPushPop = true)
    (hinj : P.VarInj) (heq : P.epsG = P.eps) (qa : String) (hF : P.F = [qa])
    (hes : ∀ w st, P.Run (P.q0, []) w (qa, st) → st = []) (w : List String) :
    (P.tripleCfg qa).Lang w ↔ P.Accepts w := by
  have hq0 : P.q0 ∈ P.Q := by
    simp only [PDA.valid, Bool.and_eq_true, decide_eq_true_eq] at hv
    exact hv.1.1.1.1
  have hqa : qa ∈ P.Q := by
    simp only [PDA.valid, Bool.and_eq_true, ssubset, List.all_eq_true, decide_eq_true_eq] at hv
    exact hv.1.2 qa (by rw [hF]; exact List.mem_singleton.mpr rfl)
  constructor
  · intro h
    exact ⟨qa, [], by rw [hF]; exact List.mem_singleton.mpr rfl,
      tripleCfg_sound P hv hk hpp hinj qa P.q0 qa hq0 hqa w h⟩
  · rintro ⟨f, st, hf, hr⟩
    rw [hF] at hf
    cases List.mem_singleton.mp hf
    cases hes w st hr
    exact tripleCfg_complete P hv hk hpp hinj heq qa P.q0 qa hq0 hqa w hr

/-- all hypotheses hold for `exPDA` (accepting state `q3`, reached only by popping the bottom marker) -/
example : C10b.exPDA.F = ["q3"] ∧ (∀ w st, C10b.exPDA.Run (C10b.exPDA.q0, []) w ("q3", st) → st = []) :=
  ⟨rfl, C10b.exPDA_hes⟩

/-- … so the triple grammar of `exPDA` generates `a a b b` -/
example : (C10b.exPDA.tripleCfg "q3").Lang ["a", "a", "b", "b"] :=
  (tripleCfg_lang C10b.exPDA (by decide) (by decide) (by decide) C10b.exPDA_varInj rfl "q3" rfl C10b.exPDA_hes _).mpr
    (C10b.exPDA.accepts_sound' (by decide) 1000 [] _ (by decide) rfl)

#print axioms tripleCfg_sound
#print axioms tripleCfg_complete
#print axioms tripleCfg_lang
#print axioms tripleCfg_complete_needs_heq

end Gamba
