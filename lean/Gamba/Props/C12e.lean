/-
  Gamba.Props.C12e — the two `check_*_accepts_rejects` checkers AS THE NOTEBOOKS CALL THEM, on text
  (`CheckText.parseWordList`, `CheckText.acceptsRejectsWith`, `CheckText.dfaAcceptsRejects`, `CheckText.cfgAcceptsRejects`).
  Soundness: the verdict `OK` is only printed when the first text parses to a valid object which accepts every word of
  the first list and none of the second; completeness: in that case `OK` IS printed.  The verdict `Error` is
  characterised as well (DFA: the text does not parse, or a listed word has a symbol outside the alphabet — `DFA.accepts`
  raises `KeyError` exactly then, it never silently rejects).
  For grammars the link between `CFG.accepts` and the language needs, for a grammar that is not in Chomsky normal form,
  that no terminal is also a variable name; the text format does NOT guarantee it (`S -> a | bb`, `a -> b` parses) and
  without it the checker is really wrong (see the example after `cfgAcceptsRejects_text_sound`).
-/
import Gamba.Model.CheckText
import Gamba.Props.C01
import Gamba.Props.C07
import Gamba.Props.C08d
import Gamba.Props.C12a
import Gamba.Props.C12c
import Gamba.Proofs.C12e
namespace Gamba
open Parse

/-! ### the word list -/

/-- members of the parsed word list: the white-space separated items of the text, with ε / _ read as the empty word -/
theorem mem_parseWordList (s : String) (w : List String) :
    w ∈ CheckText.parseWordList s ↔
      ∃ t, t ∈ Text.splitWs s.toList ∧ w = (if t = ['ε'] ∨ t = ['_'] then [] else t.map String.singleton) :=
  C12e.mem_parseWordList s w

-- several blanks, a line break, both spellings of the empty word, a repeated word
example : CheckText.parseWordList "a  ba\n ε _ a" = [["b", "a"], [], ["a"]] := by decide
example : CheckText.parseWordList "" = [] ∧ CheckText.parseWordList " \n " = [] := by decide
example : ["b", "a"] ∈ CheckText.parseWordList "a  ba\n ε _ a" :=
  (mem_parseWordList _ _).mpr ⟨['b', 'a'], by decide, by decide⟩

/-! ### the generic checker: the three verdicts through the acceptance test -/

/-- OK iff the test answers `true` on every word of the first list and `false` on every word of the second -/
theorem acceptsRejectsWith_ok_iff (acc : List String → Except Err Bool) (accepted rejected : String) :
    CheckText.acceptsRejectsWith acc accepted rejected = .ok ↔
      (∀ w, w ∈ CheckText.parseWordList accepted → acc w = .ok true) ∧
      (∀ w, w ∈ CheckText.parseWordList rejected → acc w = .ok false) :=
  C12e.acceptsRejectsWith_ok_iff acc accepted rejected

/-- an exception of the test on a listed word gives `Error` (never `OK`), and `Error` has no other cause -/
theorem acceptsRejectsWith_error_iff (acc : List String → Except Err Bool) (accepted rejected : String) :
    CheckText.acceptsRejectsWith acc accepted rejected = .error ↔
      ∃ w, (w ∈ CheckText.parseWordList accepted ∨ w ∈ CheckText.parseWordList rejected) ∧ ∃ e, acc w = .error e :=
  C12e.acceptsRejectsWith_error_iff acc accepted rejected

-- a test that accepts the words of even length and raises on words containing `x`
example : let acc : List String → Except Err Bool := fun w => if "x" ∈ w then .error .keyError else .ok (w.length % 2 == 0)
    CheckText.acceptsRejectsWith acc "ab ε" "a" = .ok ∧ CheckText.acceptsRejectsWith acc "ab a" "" = .feedback ∧
    CheckText.acceptsRejectsWith acc "ab" "a xy" = .error := by decide

/-- the object-level core `Check.acceptsRejects` (spec: `chk_acceptsRejects_sound`, C12a) is what decides between `OK`
    and feedback once every call of the test has returned -/
theorem acceptsRejectsWith_core (acc : List String → Except Err Bool) (accepted rejected : String)
    (h : CheckText.acceptsRejectsWith acc accepted rejected = .ok) :
    ∃ a r, (CheckText.parseWordList accepted).mapM acc = .ok a ∧ (CheckText.parseWordList rejected).mapM acc = .ok r ∧
      Check.acceptsRejects (a.map some) (r.map some) = true ∧
      (∀ v, v ∈ a.map some → v = some true) ∧ (∀ v, v ∈ r.map some → v ≠ some true) := by
  unfold CheckText.acceptsRejectsWith at h
  split at h
  · rename_i a r ha hr
    have hb := (ofBool_ok_iff _).mp h
    exact ⟨a, r, ha, hr, hb, chk_acceptsRejects_sound _ _ hb⟩
  · cases h

/-! ### `check_dfa_accepts_rejects` -/

/-- `check_dfa_accepts_rejects` on text: OK ⇒ the text parses to a valid DFA, every listed word is over its alphabet
    (otherwise `DFA.accepts` raises and the verdict is `Error`), the words of the first list are accepted and those of
    the second are not -/
theorem dfaAcceptsRejects_text_sound (dfa accepted rejected : String)
    (h : CheckText.dfaAcceptsRejects dfa accepted rejected = .ok) :
    ∃ D, Parse.parseDfa dfa.toList = .ok D ∧ D.valid = true ∧
      (∀ w, w ∈ CheckText.parseWordList accepted → (∀ a, a ∈ w → a ∈ D.Sigma) ∧ D.Accepts w) ∧
      (∀ w, w ∈ CheckText.parseWordList rejected → (∀ a, a ∈ w → a ∈ D.Sigma) ∧ ¬ D.Accepts w) := by
  obtain ⟨D, h1, hc⟩ := C12e.dfaAcceptsRejects_unpack (by decide) h
  have vD := (parseDfa_ok_valid_gen _ _ D h1).1
  obtain ⟨ha, hr⟩ := (acceptsRejectsWith_ok_iff _ _ _).mp hc
  refine ⟨D, h1, vD, fun w hw => ?_, fun w hw => ?_⟩
  · obtain ⟨ho, hb⟩ := (C12e.dfa_accepts_ok_iff vD w true).mp (ha w hw)
    exact ⟨ho, hb.mp rfl⟩
  · obtain ⟨ho, hb⟩ := (C12e.dfa_accepts_ok_iff vD w false).mp (hr w hw)
    exact ⟨ho, fun hacc => Bool.noConfusion (hb.mpr hacc)⟩

-- words ending in `a` (states `p`, `q`)
example : CheckText.dfaAcceptsRejects "initial p\nfinal q\np q a\np p b\nq q a\nq p b" "a ba aa" "ε b ab" = .ok := by
  decide +kernel
-- nothing listed: OK
example : CheckText.dfaAcceptsRejects "initial p\nfinal q\np q a\np p b\nq q a\nq p b" "" "" = .ok := by decide +kernel
-- a word of the first list is rejected (`ab`) / a word of the second list is accepted (`ba`): feedback
example : CheckText.dfaAcceptsRejects "initial p\nfinal q\np q a\np p b\nq q a\nq p b" "a ab" "b" = .feedback := by
  decide +kernel
example : CheckText.dfaAcceptsRejects "initial p\nfinal q\np q a\np p b\nq q a\nq p b" "a" "b ba" = .feedback := by
  decide +kernel
-- a listed word with a symbol outside the alphabet (`c`), in either list: `Error` — also where "rejected" would be right
example : CheckText.dfaAcceptsRejects "initial p\nfinal q\np q a\np p b\nq q a\nq p b" "a ca" "b" = .error := by
  decide +kernel
example : CheckText.dfaAcceptsRejects "initial p\nfinal q\np q a\np p b\nq q a\nq p b" "a" "c" = .error := by
  decide +kernel
-- a partial transition table does not parse: `Error`
example : CheckText.dfaAcceptsRejects "initial p\nfinal q\np q a\np p b\nq q a" "a" "b" = .error := by rfl
-- consequence on the first example: the parsed DFA accepts `b a` and rejects `a b`
example : ∃ D, Parse.parseDfa "initial p\nfinal q\np q a\np p b\nq q a\nq p b".toList = .ok D ∧
    D.Accepts ["b", "a"] ∧ ¬ D.Accepts ["a", "b"] := by
  obtain ⟨D, h1, _, ha, hr⟩ := dfaAcceptsRejects_text_sound
    "initial p\nfinal q\np q a\np p b\nq q a\nq p b" "a ba aa" "ε b ab" (by decide +kernel)
  exact ⟨D, h1, (ha _ (by decide)).2, (hr _ (by decide)).2⟩

/-- completeness: if the text parses, the words of the first list are accepted, and the words of the second list are
    over the alphabet and not accepted, the verdict is `OK` (accepted words of a valid DFA are over the alphabet anyway) -/
theorem dfaAcceptsRejects_text_complete (dfa accepted rejected : String) (D : DFA String String)
    (hp : Parse.parseDfa dfa.toList = .ok D)
    (ha : ∀ w, w ∈ CheckText.parseWordList accepted → D.Accepts w)
    (hr : ∀ w, w ∈ CheckText.parseWordList rejected → (∀ a, a ∈ w → a ∈ D.Sigma) ∧ ¬ D.Accepts w) :
    CheckText.dfaAcceptsRejects dfa accepted rejected = .ok := by
  have vD := (parseDfa_ok_valid_gen _ _ D hp).1
  unfold CheckText.dfaAcceptsRejects
  rw [hp]
  refine (acceptsRejectsWith_ok_iff _ _ _).mpr ⟨fun w hw => ?_, fun w hw => ?_⟩
  · exact (C12e.dfa_accepts_ok_iff vD w true).mpr ⟨DFA.Accepts.over vD (ha w hw), fun _ => ha w hw, fun _ => rfl⟩
  · exact (C12e.dfa_accepts_ok_iff vD w false).mpr
      ⟨(hr w hw).1, fun hb => Bool.noConfusion hb, fun hacc => absurd hacc (hr w hw).2⟩

example : ∃ D, Parse.parseDfa "initial p\nfinal q\np q a\np p b\nq q a\nq p b".toList = .ok D ∧ D.Sigma = ["a", "b"] :=
  ⟨_, rfl, rfl⟩

/-- soundness and completeness in one statement -/
theorem dfaAcceptsRejects_text_ok_iff (dfa accepted rejected : String) :
    CheckText.dfaAcceptsRejects dfa accepted rejected = .ok ↔
      ∃ D, Parse.parseDfa dfa.toList = .ok D ∧
        (∀ w, w ∈ CheckText.parseWordList accepted → D.Accepts w) ∧
        (∀ w, w ∈ CheckText.parseWordList rejected → (∀ a, a ∈ w → a ∈ D.Sigma) ∧ ¬ D.Accepts w) := by
  constructor
  · intro h
    obtain ⟨D, h1, _, ha, hr⟩ := dfaAcceptsRejects_text_sound dfa accepted rejected h
    exact ⟨D, h1, fun w hw => (ha w hw).2, hr⟩
  · rintro ⟨D, h1, ha, hr⟩
    exact dfaAcceptsRejects_text_complete dfa accepted rejected D h1 ha hr

/-- the verdict `Error` (the call raises): the text does not parse, or some listed word has a symbol outside the alphabet -/
theorem dfaAcceptsRejects_text_error_iff (dfa accepted rejected : String) :
    CheckText.dfaAcceptsRejects dfa accepted rejected = .error ↔
      (∃ e, Parse.parseDfa dfa.toList = .error e) ∨
      ∃ D, Parse.parseDfa dfa.toList = .ok D ∧
        ∃ w, (w ∈ CheckText.parseWordList accepted ∨ w ∈ CheckText.parseWordList rejected) ∧ ∃ a, a ∈ w ∧ a ∉ D.Sigma := by
  unfold CheckText.dfaAcceptsRejects
  cases hp : Parse.parseDfa dfa.toList with
  | error e =>
    constructor
    · intro _; exact Or.inl ⟨e, rfl⟩
    · intro _; rfl
  | ok D =>
    have vD := (parseDfa_ok_valid_gen _ _ D hp).1
    show CheckText.acceptsRejectsWith D.accepts accepted rejected = .error ↔ _
    rw [acceptsRejectsWith_error_iff]
    constructor
    · rintro ⟨w, hw, he⟩
      have hn := (C12e.dfa_accepts_error_iff vD w).mp he
      refine Or.inr ⟨D, rfl, w, hw, ?_⟩
      exact Classical.byContradiction fun hne => hn (fun a ha => Classical.byContradiction fun hna => hne ⟨a, ha, hna⟩)
    · rintro (⟨e, he⟩ | ⟨D', hD', w, hw, a, ha, hna⟩)
      · cases he
      · cases hD'
        exact ⟨w, hw, (C12e.dfa_accepts_error_iff vD w).mpr (fun hall => hna (hall a ha))⟩

/-- hence feedback is printed exactly for a parsable text and word lists over the alphabet of which some word is
    classified wrongly -/
theorem dfaAcceptsRejects_text_feedback (dfa accepted rejected : String)
    (h : CheckText.dfaAcceptsRejects dfa accepted rejected = .feedback) :
    ∃ D, Parse.parseDfa dfa.toList = .ok D ∧ D.valid = true ∧
      (∀ w, w ∈ CheckText.parseWordList accepted ∨ w ∈ CheckText.parseWordList rejected → ∀ a, a ∈ w → a ∈ D.Sigma) ∧
      ((∃ w, w ∈ CheckText.parseWordList accepted ∧ ¬ D.Accepts w) ∨
       (∃ w, w ∈ CheckText.parseWordList rejected ∧ D.Accepts w)) := by
  obtain ⟨D, h1, hc⟩ := C12e.dfaAcceptsRejects_unpack (by decide) h
  have vD := (parseDfa_ok_valid_gen _ _ D h1).1
  have hne : CheckText.dfaAcceptsRejects dfa accepted rejected ≠ .error := by rw [h]; decide
  have hno : CheckText.dfaAcceptsRejects dfa accepted rejected ≠ .ok := by rw [h]; decide
  have hover : ∀ w, w ∈ CheckText.parseWordList accepted ∨ w ∈ CheckText.parseWordList rejected →
      ∀ a, a ∈ w → a ∈ D.Sigma := by
    intro w hw a ha
    refine Classical.byContradiction fun hna => hne ?_
    exact (dfaAcceptsRejects_text_error_iff _ _ _).mpr (Or.inr ⟨D, h1, w, hw, a, ha, hna⟩)
  refine ⟨D, h1, vD, hover, ?_⟩
  refine Classical.byContradiction fun hn => hno ?_
  refine dfaAcceptsRejects_text_complete dfa accepted rejected D h1 (fun w hw => ?_) (fun w hw => ⟨hover w (Or.inr hw), ?_⟩)
  · exact Classical.byContradiction fun hna => hn (Or.inl ⟨w, hw, hna⟩)
  · exact fun hacc => hn (Or.inr ⟨w, hw, hacc⟩)

/-! ### `check_cfg_accepts_rejects` -/

/-- unconditionally: OK iff the grammar text parses (to a valid grammar with declared start variable and the aliasing
    invariant) and the membership test `CFG.accepts` (CNF conversion + CYK) answers `true` on the first list and `false`
    on the second; an exception of the test (none occurs under the side conditions of the next theorems) gives `Error` -/
theorem cfgAcceptsRejects_text_verdicts (cfg accepted rejected : String) :
    CheckText.cfgAcceptsRejects cfg accepted rejected = .ok ↔
      ∃ G e, CfgText.parseSimpleCfg cfg.toList = .ok (G, e) ∧ G.valid = true ∧ G.S ∈ G.V ∧ CFG.AliasOK G ∧
        (∀ w, w ∈ CheckText.parseWordList accepted → G.accepts w = .ok true) ∧
        (∀ w, w ∈ CheckText.parseWordList rejected → G.accepts w = .ok false) := by
  constructor
  · intro h
    obtain ⟨G, e, h1, hc⟩ := C12e.cfgAcceptsRejects_unpack (by decide) h
    obtain ⟨v, sv, al⟩ := parseSimpleCfg_ok_valid _ G e h1
    exact ⟨G, e, h1, v, sv, al, (acceptsRejectsWith_ok_iff _ _ _).mp hc⟩
  · rintro ⟨G, e, h1, _, _, _, hc⟩
    unfold CheckText.cfgAcceptsRejects
    rw [h1]
    exact (acceptsRejectsWith_ok_iff _ _ _).mpr hc

/-- `check_cfg_accepts_rejects` on text: OK ⇒ the text parses to a valid grammar and — when no terminal of the parsed
    grammar is also a variable name (nor the name `toChomsky` picks for the new start variable), which the text format
    does NOT guarantee — every word of the first list is in the language and no word of the second.
    `S ∈ V` and `AliasOK`, the other hypotheses of `cfg_accepts_iff`, hold for every parser result. -/
theorem cfgAcceptsRejects_text_sound (cfg accepted rejected : String)
    (h : CheckText.cfgAcceptsRejects cfg accepted rejected = .ok) :
    ∃ G e, CfgText.parseSimpleCfg cfg.toList = .ok (G, e) ∧ G.valid = true ∧
      ((∀ a, a ∈ G.Sigma → a ∉ G.V ∧ a ≠ CFG.freshVariable G.V "S") →
        (∀ w, w ∈ CheckText.parseWordList accepted → G.Lang w) ∧
        (∀ w, w ∈ CheckText.parseWordList rejected → ¬ G.Lang w)) := by
  obtain ⟨G, e, h1, v, sv, al, ha, hr⟩ := (cfgAcceptsRejects_text_verdicts _ _ _).mp h
  refine ⟨G, e, h1, v, fun hd => ⟨fun w hw => ?_, fun w hw => ?_⟩⟩
  · exact ((C12e.cfg_accepts_ok_iff v sv al (Or.inr hd) w true).mp (ha w hw)).mp rfl
  · exact fun hl => Bool.noConfusion (((C12e.cfg_accepts_ok_iff v sv al (Or.inr hd) w false).mp (hr w hw)).mpr hl)

/-- … the same without side condition when the parsed grammar is in Chomsky normal form (no conversion takes place) -/
theorem cfgAcceptsRejects_text_sound_cnf (cfg accepted rejected : String)
    (h : CheckText.cfgAcceptsRejects cfg accepted rejected = .ok) :
    ∃ G e, CfgText.parseSimpleCfg cfg.toList = .ok (G, e) ∧ G.valid = true ∧
      (G.isChomsky = true →
        (∀ w, w ∈ CheckText.parseWordList accepted → G.Lang w) ∧
        (∀ w, w ∈ CheckText.parseWordList rejected → ¬ G.Lang w)) := by
  obtain ⟨G, e, h1, v, sv, al, ha, hr⟩ := (cfgAcceptsRejects_text_verdicts _ _ _).mp h
  refine ⟨G, e, h1, v, fun hc => ⟨fun w hw => ?_, fun w hw => ?_⟩⟩
  · exact ((C12e.cfg_accepts_ok_iff v sv al (Or.inl hc) w true).mp (ha w hw)).mp rfl
  · exact fun hl => Bool.noConfusion (((C12e.cfg_accepts_ok_iff v sv al (Or.inl hc) w false).mp (hr w hw)).mpr hl)

-- `{aⁿbⁿ}` (not in CNF: the conversion runs)
example : CheckText.cfgAcceptsRejects "S -> aSb | ε" "ε ab aabb" "a ba abb" = .ok := by decide +kernel
-- a CNF grammar for `{ab, a}`
example : CheckText.cfgAcceptsRejects "S -> AB | a\nA -> a\nB -> b" "ab a" "b _" = .ok := by decide +kernel
-- a word of the first list is not generated (`aab`) / a word of the second list is generated (`aabb`): feedback
example : CheckText.cfgAcceptsRejects "S -> aSb | ε" "ab aab" "a" = .feedback := by decide +kernel
example : CheckText.cfgAcceptsRejects "S -> aSb | ε" "ab" "a aabb" = .feedback := by decide +kernel
-- a foreign symbol is no error for grammars (unlike DFAs): `c` is just not generated
example : CheckText.cfgAcceptsRejects "S -> aSb | ε" "ab" "c" = .ok := by decide +kernel
-- a text that does not parse; a variable without rule: `Error`
example : CheckText.cfgAcceptsRejects "S => a" "a" "b" = .error := by rfl
example : CheckText.cfgAcceptsRejects "S -> aT" "a" "b" = .error := by rfl
-- the side condition holds for the first example, and the conclusion follows: `aabb ∈ L`, `abb ∉ L`
example : ∃ G, CfgText.parseSimpleCfg "S -> aSb | ε".toList = .ok (G, "ε") ∧
    (∀ a, a ∈ G.Sigma → a ∉ G.V ∧ a ≠ CFG.freshVariable G.V "S") ∧
    G.Lang ["a", "a", "b", "b"] ∧ ¬ G.Lang ["a", "b", "b"] := by
  obtain ⟨G, e, h1, _, hL⟩ := cfgAcceptsRejects_text_sound "S -> aSb | ε" "ε ab aabb" "a ba abb" (by decide +kernel)
  rw [C12e.exAnBn_parse] at h1
  cases h1
  have hd : ∀ a, a ∈ C12e.exAnBn.Sigma → a ∉ C12e.exAnBn.V ∧ a ≠ CFG.freshVariable C12e.exAnBn.V "S" := by decide
  exact ⟨_, C12e.exAnBn_parse, hd, (hL hd).1 _ (by decide), (hL hd).2 _ (by decide)⟩
-- the side condition is NEEDED: `S -> a | bb`, `a -> b` parses (the lower-case `a` is a variable AND a terminal, the
-- grammar is not in CNF); `toChomsky` takes the rule `S -> a` for a unit rule and adds `S -> b`: the checker prints OK
-- for the first list `a b bb` although `b` is not in the language {a, bb} of the parsed grammar
example : CheckText.cfgAcceptsRejects "S -> a | bb\na -> b" "a b bb" "" = .ok ∧
    CfgText.parseSimpleCfg "S -> a | bb\na -> b".toList = .ok (C12e.exBad, "_") ∧
    ["b"] ∈ CheckText.parseWordList "a b bb" ∧ ¬ C12e.exBad.Lang ["b"] ∧
    C12e.exBad.isChomsky = false ∧ "a" ∈ C12e.exBad.Sigma ∧ "a" ∈ C12e.exBad.V :=
  ⟨by decide +kernel, C12e.exBad_parse, by decide, C12e.exBad_not_lang_b, by decide, by decide, by decide⟩

/-- completeness: if the text parses to a grammar in which no terminal is a variable name, the words of the first list
    are in its language and those of the second are not, the verdict is `OK` (in particular `CFG.accepts` raises on no word) -/
theorem cfgAcceptsRejects_text_complete (cfg accepted rejected : String) (G : CFG) (e : String)
    (hp : CfgText.parseSimpleCfg cfg.toList = .ok (G, e))
    (hd : ∀ a, a ∈ G.Sigma → a ∉ G.V ∧ a ≠ CFG.freshVariable G.V "S")
    (ha : ∀ w, w ∈ CheckText.parseWordList accepted → G.Lang w)
    (hr : ∀ w, w ∈ CheckText.parseWordList rejected → ¬ G.Lang w) :
    CheckText.cfgAcceptsRejects cfg accepted rejected = .ok := by
  obtain ⟨v, sv, al⟩ := parseSimpleCfg_ok_valid _ G e hp
  refine (cfgAcceptsRejects_text_verdicts _ _ _).mpr ⟨G, e, hp, v, sv, al, fun w hw => ?_, fun w hw => ?_⟩
  · exact (C12e.cfg_accepts_ok_iff v sv al (Or.inr hd) w true).mpr ⟨fun _ => ha w hw, fun _ => rfl⟩
  · exact (C12e.cfg_accepts_ok_iff v sv al (Or.inr hd) w false).mpr
      ⟨fun hb => Bool.noConfusion hb, fun hl => absurd hl (hr w hw)⟩

/-- … and for a parsed grammar in Chomsky normal form, without side condition -/
theorem cfgAcceptsRejects_text_complete_cnf (cfg accepted rejected : String) (G : CFG) (e : String)
    (hp : CfgText.parseSimpleCfg cfg.toList = .ok (G, e)) (hc : G.isChomsky = true)
    (ha : ∀ w, w ∈ CheckText.parseWordList accepted → G.Lang w)
    (hr : ∀ w, w ∈ CheckText.parseWordList rejected → ¬ G.Lang w) :
    CheckText.cfgAcceptsRejects cfg accepted rejected = .ok := by
  obtain ⟨v, sv, al⟩ := parseSimpleCfg_ok_valid _ G e hp
  refine (cfgAcceptsRejects_text_verdicts _ _ _).mpr ⟨G, e, hp, v, sv, al, fun w hw => ?_, fun w hw => ?_⟩
  · exact (C12e.cfg_accepts_ok_iff v sv al (Or.inl hc) w true).mpr ⟨fun _ => ha w hw, fun _ => rfl⟩
  · exact (C12e.cfg_accepts_ok_iff v sv al (Or.inl hc) w false).mpr
      ⟨fun hb => Bool.noConfusion hb, fun hl => absurd hl (hr w hw)⟩

example : ∃ G, CfgText.parseSimpleCfg "S -> AB | a\nA -> a\nB -> b".toList = .ok (G, "_") ∧ G.isChomsky = true ∧
    (∀ a, a ∈ G.Sigma → a ∉ G.V ∧ a ≠ CFG.freshVariable G.V "S") := ⟨_, rfl, by decide, by decide⟩

/-- under the side condition (or for a CNF grammar) the membership test cannot raise: no `Error` once the text parses -/
theorem cfgAcceptsRejects_text_no_error (cfg accepted rejected : String) (G : CFG) (e : String)
    (hp : CfgText.parseSimpleCfg cfg.toList = .ok (G, e))
    (hside : G.isChomsky = true ∨ ∀ a, a ∈ G.Sigma → a ∉ G.V ∧ a ≠ CFG.freshVariable G.V "S") :
    CheckText.cfgAcceptsRejects cfg accepted rejected ≠ .error := by
  obtain ⟨v, sv, al⟩ := parseSimpleCfg_ok_valid _ G e hp
  unfold CheckText.cfgAcceptsRejects
  rw [hp]
  intro herr
  obtain ⟨w, _, e', he⟩ := (acceptsRejectsWith_error_iff _ _ _).mp herr
  obtain ⟨b, hb⟩ := C12e.cfg_accepts_total v sv al hside w
  rw [hb] at he
  cases he

/-! ### OK ⇒ the text parses -/

/-- the verdict `OK` is returned only if the first argument parses (the clauses of `text_ok_not_error` for the two
    checkers; word lists always parse) -/
theorem acceptsRejects_ok_not_error :
    (∀ dfa accepted rejected, CheckText.dfaAcceptsRejects dfa accepted rejected = .ok →
      ∃ D, parseDfa dfa.toList = .ok D) ∧
    (∀ cfg accepted rejected, CheckText.cfgAcceptsRejects cfg accepted rejected = .ok →
      ∃ G, CfgText.parseSimpleCfg cfg.toList = .ok G) := by
  refine ⟨?_, ?_⟩
  · intro dfa accepted rejected h
    obtain ⟨D, h1, _⟩ := C12e.dfaAcceptsRejects_unpack (by decide) h
    exact ⟨D, h1⟩
  · intro cfg accepted rejected h
    obtain ⟨G, e, h1, _⟩ := C12e.cfgAcceptsRejects_unpack (by decide) h
    exact ⟨_, h1⟩

#print axioms mem_parseWordList
#print axioms acceptsRejectsWith_ok_iff
#print axioms acceptsRejectsWith_error_iff
#print axioms acceptsRejectsWith_core
#print axioms dfaAcceptsRejects_text_sound
#print axioms dfaAcceptsRejects_text_complete
#print axioms dfaAcceptsRejects_text_ok_iff
#print axioms dfaAcceptsRejects_text_error_iff
#print axioms dfaAcceptsRejects_text_feedback
#print axioms cfgAcceptsRejects_text_verdicts
#print axioms cfgAcceptsRejects_text_sound
#print axioms cfgAcceptsRejects_text_sound_cnf
#print axioms cfgAcceptsRejects_text_complete
#print axioms cfgAcceptsRejects_text_complete_cnf
#print axioms cfgAcceptsRejects_text_no_error
#print axioms acceptsRejects_ok_not_error

end Gamba
