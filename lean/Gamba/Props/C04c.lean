/-
  Gamba.Props.C04c — Hopcroft's algorithm (`DFA.hopcroft`, the model of `dfa_hopfcroft`, including the dead
  `if P in W_cal` test: a split block that is still pending stays in the waiting list as a stale entry and only
  the smaller half is added): for every fuel and every pop order a returned automaton is the minimal quotient,
  and the run always returns within the model's fuel.
-/
import Gamba.Proofs.C04c
namespace Gamba
variable {σ τ : Type} [DecidableEq σ] [DecidableEq τ]

-- `hQ` of the requested signatures is not needed by the proofs
set_option linter.unusedVariables false

namespace C04c
/-- `q1 ≡ q2`; `q3` accepting sink, `q4` rejecting sink -/
def exD : DFA String String :=
  { Q := ["q0", "q1", "q2", "q3", "q4"], Sigma := ["a", "b"],
    delta := [(("q0", "a"), "q1"), (("q0", "b"), "q2"), (("q1", "a"), "q3"), (("q1", "b"), "q4"),
              (("q2", "a"), "q3"), (("q2", "b"), "q4"), (("q3", "a"), "q3"), (("q3", "b"), "q3"),
              (("q4", "a"), "q4"), (("q4", "b"), "q4")],
    q0 := "q0", F := ["q3"] }
end C04c

/-- partial correctness for EVERY fuel and EVERY pop order: if the run returns, the result is the minimal quotient -/
theorem hopcroft_spec (D : DFA σ τ) (hv : D.valid = true) (hQ : D.Q.Nodup) (s : Sched) (M : DFA (List σ) τ)
    (h : D.hopcroft s = .ok M) :
    M.valid = true ∧ M.Sigma = D.Sigma ∧ D.IsNerode M.Q ∧
      (∀ w, (∀ a, a ∈ w → a ∈ D.Sigma) → (M.Accepts w ↔ D.Accepts w)) ∧
      (∀ B C, B ∈ M.Q → C ∈ M.Q → B ≠ C → M.Dist B C) :=
  D.hopcroft_spec' hv s M h

example : C04c.exD.valid = true ∧ C04c.exD.Q.Nodup := ⟨by decide, by decide⟩

/-- two pop orders, same blocks -/
example : (C04c.exD.hopcroft []).toOption.map (·.Q) = some [["q3"], ["q1", "q2"], ["q0"], ["q4"]] ∧
    (C04c.exD.hopcroft [2, 0, 1]).toOption.map (·.Q) = some [["q3"], ["q1", "q2"], ["q0"], ["q4"]] ∧
    (C04c.exD.hopcroft [2, 0, 1]).toOption.map (fun M => (M.q0, M.F)) = some (["q0"], [["q3"]]) :=
  ⟨rfl, rfl, rfl⟩

/-- the hypothesis `D.hopcroft s = .ok M` is satisfiable, and the conclusion then applies -/
example : ∃ M, C04c.exD.hopcroft [2, 0, 1] = .ok M ∧ M.Q = [["q3"], ["q1", "q2"], ["q0"], ["q4"]] ∧
    C04c.exD.IsNerode M.Q :=
  match h : C04c.exD.hopcroft [2, 0, 1] with
  | .ok M => ⟨M, rfl, by
      have : (C04c.exD.hopcroft [2, 0, 1]).toOption.map (·.Q) = some [["q3"], ["q1", "q2"], ["q0"], ["q4"]] := rfl
      rw [h] at this
      simpa [Except.toOption] using this,
      (hopcroft_spec C04c.exD (by decide) (by decide) [2, 0, 1] M h).2.2.1⟩
  | .error e => by
      have : (C04c.exD.hopcroft [2, 0, 1]).toOption.map (·.Q) = some [["q3"], ["q1", "q2"], ["q0"], ["q4"]] := rfl
      rw [h] at this
      simp [Except.toOption] at this

/-- termination within the model's fuel, for every pop order -/
theorem hopcroft_terminates (D : DFA σ τ) (hv : D.valid = true) (hQ : D.Q.Nodup) (s : Sched) :
    ∃ M, D.hopcroft s = .ok M :=
  D.hopcroft_terminates' hv s

/-- for every pop order the run on `exD` returns, and what it returns is the quotient by the Nerode classes -/
example (s : Sched) : ∃ M, C04c.exD.hopcroft s = .ok M ∧ C04c.exD.IsNerode M.Q := by
  obtain ⟨M, hM⟩ := hopcroft_terminates C04c.exD (by decide) (by decide) s
  exact ⟨M, hM, (hopcroft_spec C04c.exD (by decide) (by decide) s M hM).2.2.1⟩

#print axioms hopcroft_spec
#print axioms hopcroft_terminates
end Gamba
