/-
  Gamba.Props.C06a — property C06 (first half): `regexp_to_nfa` (Thompson-style composition with the
  generated state names q0, q1, … and the generator's shared alphabet accumulator) yields a valid NFA
  with ε = "" over exactly the symbols of the expression, accepting exactly the denoted language —
  provided no symbol of the expression is the ε symbol "" itself (otherwise the NFA constructor raises).
-/
import Gamba.Model.NFA
import Gamba.Model.GNFA
import Gamba.Spec.Automata
import Gamba.Spec.Regexp
import Gamba.Proofs.C06a
namespace Gamba

open C06a

theorem regexpToNfa_spec (r : Regexp String) (hr : r.NoEps) :
    ∃ N, regexpToNfa r = .ok N ∧ N.valid = true ∧ N.eps = "" ∧
      (∀ a, a ∈ N.Sigma ↔ a ∈ r.symbols) ∧
      ∀ w, N.Accepts w ↔ r.Lang w := by
  obtain ⟨g, st, h, inv⟩ := regexpGenerate_inv r hr { counter := 0, Sigma := [] } (by simp)
  have hsig : ∀ a, a ∈ st.Sigma ↔ a ∈ r.symbols := by
    intro a; rw [inv.sigma]; simp
  have he : "" ∉ st.Sigma := fun h => noEps_symbols hr ((hsig "").mp h)
  obtain ⟨hv, hs, ht⟩ := inv.valid st (fun _ h => h) he
  refine ⟨effN g st, regexpToNfa_eq h, hv, inv.eps, ?_, ?_⟩
  · intro a
    exact ⟨fun ha => (hsig a).mp (ht a ha), hs a⟩
  · intro w
    rw [effN_accepts, inv.lang]

/-- non-vacuity: the hypothesis holds on a non-degenerate expression, `a*(b + 1)` -/
example : (Regexp.cat (.star (.sym "a")) (.sum (.sym "b") .one)).NoEps := by decide

/-- the automaton built for `a*(b + 1)`: states q0 … q6, the alphabet collected by the generator -/
example : regexpToNfa (.cat (.star (.sym "a")) (.sum (.sym "b") .one)) = .ok
    { Q := ["q0", "q1", "q2", "q3", "q4", "q5", "q6"], Sigma := ["a", "b"],
      delta := [(("q0", "a"), ["q1"]), (("q1", ""), ["q0", "q6"]), (("q2", ""), ["q0", "q6"]),
                (("q3", "b"), ["q4"]), (("q6", ""), ["q3", "q5"])],
      q0 := "q2", F := ["q4", "q5"], eps := "" } := by rfl

/-- the language clause at work: `aab ∈ L(a*(b + 1))` is accepted by the generated automaton -/
example : ∃ N, regexpToNfa (.cat (.star (.sym "a")) (.sum (.sym "b") .one)) = .ok N ∧
    N.Accepts ["a", "a", "b"] ∧ ¬ N.Accepts ["b", "a"] := by
  obtain ⟨N, hN, _, _, _, hL⟩ :=
    regexpToNfa_spec (.cat (.star (.sym "a")) (.sum (.sym "b") .one)) (by decide)
  refine ⟨N, hN, (hL _).mpr ?_, fun h => ?_⟩
  · exact Regexp.Lang.cat (u := ["a", "a"]) (v := ["b"])
      (Regexp.Lang.starApp (u := ["a"]) (v := ["a"]) (.sym "a")
        (Regexp.Lang.starApp (u := ["a"]) (v := []) (.sym "a") .starNil))
      (.sumL (.sym "b"))
  · have h := (hL _).mp h
    rw [Regexp.lang_cat] at h
    obtain ⟨u, v, huv, hu, hv⟩ := h
    rw [Regexp.lang_sum, Regexp.lang_sym, Regexp.lang_one] at hv
    rcases hv with rfl | rfl
    · cases u with
      | nil => simp at huv
      | cons x u => cases u with
        | nil => simp at huv
        | cons y u => simp at huv
    · rw [List.append_nil] at huv
      subst huv
      rw [lang_star_flatten] at hu
      obtain ⟨ws, hws, hall⟩ := hu
      have : ∀ x, x ∈ ws.flatten → x = "a" := by
        intro x hx
        obtain ⟨l, hl, hxl⟩ := List.mem_flatten.mp hx
        have := Regexp.lang_sym.mp (hall l hl)
        subst this
        exact List.mem_singleton.mp hxl
      exact absurd (this "b" (hws ▸ by simp)) (by decide)

/-- the hypothesis is needed: a symbol equal to the ε symbol makes the NFA constructor fail -/
example : regexpToNfa (.sym "") = .error .assertion := by rfl

#print axioms regexpToNfa_spec

end Gamba
