/-
  Gamba.Props.C13c — the library's own CYK answer key passes the library's CYK checker:
  for a grammar in Chomsky normal form whose variables are single word characters (the "simple"
  grammar format of the notebooks) and a non-empty word, `cfg_print_cyk_matrix` of the CYK table is
  produced (the table is not empty) and `check_cyk_matrix` answers "OK" on that text.

  The hypothesis `hv` (validity) is not used by the proof: the cells of the table are subsets of
  `G.V` for every CNF grammar.  It is kept in the signature as requested.
-/
import Gamba.Model.CFG
import Gamba.Model.Keys
import Gamba.Model.Check
import Gamba.Proofs.C13c
namespace Gamba

namespace C13c

/-- S → A B | a, A → a, B → b -/
def exG : CFG where
  V := ["S", "A", "B"]
  Sigma := ["a", "b"]
  S := "S"
  R := [⟨"S", 0, [.v "A", .v "B"]⟩, ⟨"S", 1, [.t "a"]⟩, ⟨"A", 2, [.t "a"]⟩, ⟨"B", 3, [.t "b"]⟩]

/-- the CYK table of `exG` for the word `a a b` -/
def exX : CFG.CykTable :=
  [((0, 0), ["S", "A"]), ((1, 1), ["S", "A"]), ((2, 2), ["B"]), ((0, 1), []), ((1, 2), ["S"]), ((0, 2), [])]

theorem exG_simple : exG.SimpleVars := by
  intro A hA
  simp only [exG, List.mem_cons, List.not_mem_nil, or_false] at hA
  rcases hA with rfl | rfl | rfl
  · exact ⟨'S', by decide, by decide⟩
  · exact ⟨'A', by decide, by decide⟩
  · exact ⟨'B', by decide, by decide⟩

end C13c

/-- the answer key printed by the library (`cfg_print_cyk_matrix` of `cfg_cyk_matrix`) is accepted by the
    library's own checker `check_cyk_matrix` -/
theorem own_cyk_ok (G : CFG) (w : List String) (hw : w ≠ []) (hc : G.isChomsky = true) (hv : G.valid = true)
    (h1 : G.SimpleVars) (X : CFG.CykTable) (hX : G.cykMatrix w = .ok X) :
    ∃ key, Keys.printCyk X w.length = .ok key ∧ Check.cykCheck G w key = .ok true :=
  have _ := hv
  ⟨_, C13c.own_cyk_ok_aux hw hc h1 hX⟩

/-! non-vacuity: a CNF grammar with three variables and a word of length three -/

example : ["a", "a", "b"] ≠ [] ∧ C13c.exG.isChomsky = true ∧ C13c.exG.valid = true ∧ C13c.exG.SimpleVars ∧
    C13c.exG.cykMatrix ["a", "a", "b"] = .ok C13c.exX :=
  ⟨by decide, by decide, by decide, C13c.exG_simple, rfl⟩

/-- what the key looks like (lines in reversed order, cells sorted and padded to width `2·2+1`) -/
theorem C13c.exX_print : Keys.printCyk C13c.exX 3 = .ok "{}   \n{}     {S}  \n{A,S}  {A,S}  {B}  " := by
  have p1 : Keys.printSet ["S", "A"] = "{A,S}".toList := by
    have : sortStrings (dedup ["S", "A"]) = ["A", "S"] := by
      have : dedup ["S", "A"] = ["S", "A"] := by rfl
      rw [this]; simp [sortStrings, List.mergeSort, List.MergeSort.Internal.splitInTwo]
    unfold Keys.printSet; rw [this]; rfl
  have p2 : Keys.printSet ["B"] = "{B}".toList := by
    have : sortStrings (dedup ["B"]) = ["B"] := by
      have : dedup ["B"] = ["B"] := by rfl
      rw [this]; simp [sortStrings]
    unfold Keys.printSet; rw [this]; rfl
  have p3 : Keys.printSet ["S"] = "{S}".toList := by
    have : sortStrings (dedup ["S"]) = ["S"] := by
      have : dedup ["S"] = ["S"] := by rfl
      rw [this]; simp [sortStrings]
    unfold Keys.printSet; rw [this]; rfl
  have p4 : Keys.printSet [] = "{}".toList := by
    have : sortStrings (dedup []) = [] := by simp [sortStrings, dedup]
    unfold Keys.printSet; rw [this]; rfl
  have l0 : Keys.cykLine C13c.exX 3 0 = Keys.joinWith [' ', ' ']
      [Keys.pad 5 (Keys.printSet ["S", "A"]), Keys.pad 5 (Keys.printSet ["S", "A"]),
        Keys.pad 5 (Keys.printSet ["B"])] := rfl
  have l1 : Keys.cykLine C13c.exX 3 1 = Keys.joinWith [' ', ' ']
      [Keys.pad 5 (Keys.printSet []), Keys.pad 5 (Keys.printSet ["S"])] := rfl
  have l2 : Keys.cykLine C13c.exX 3 2 = Keys.joinWith [' ', ' '] [Keys.pad 5 (Keys.printSet [])] := rfl
  have : Keys.printCyk C13c.exX 3 = .ok (String.ofList (Keys.joinWith ['\n']
      [Keys.cykLine C13c.exX 3 2, Keys.cykLine C13c.exX 3 1, Keys.cykLine C13c.exX 3 0])) := rfl
  rw [this, l0, l1, l2, p1, p2, p3, p4]
  rfl

/-- the checker model accepts it -/
example : Check.cykCheck C13c.exG ["a", "a", "b"] "{}   \n{}     {S}  \n{A,S}  {A,S}  {B}  " = .ok true := by
  rfl

/-- the checker model rejects a key with a wrong cell -/
example : Check.cykCheck C13c.exG ["a", "a", "b"] "{}   \n{S}    {S}  \n{A,S}  {A,S}  {B}  " = .ok false := by
  rfl

/-- the instance of the theorem -/
example : ∃ key, Keys.printCyk C13c.exX 3 = .ok key ∧ Check.cykCheck C13c.exG ["a", "a", "b"] key = .ok true :=
  own_cyk_ok C13c.exG ["a", "a", "b"] (by decide) (by decide) (by decide) C13c.exG_simple C13c.exX rfl

/-! the hypothesis on the variable names is needed: a two-character variable name (the fresh start variable
    `S0` of the CNF conversion, say) is printed as it is, and the checker's cell syntax `{\w(,\w)*}` rejects it -/

/-- S0 → a -/
def C13c.exLong : CFG := ⟨["S0"], ["a"], [⟨"S0", 0, [.t "a"]⟩], "S0"⟩

theorem C13c.exLong_print : Keys.printCyk [((0, 0), ["S0"])] 1 = .ok "{S0}" := by
  have hs : sortStrings (dedup ["S0"]) = ["S0"] := by
    have : dedup ["S0"] = ["S0"] := by rfl
    rw [this]; simp [sortStrings]
  have h : Keys.printCyk [((0, 0), ["S0"])] 1 = .ok (String.ofList (Keys.pad 3
      ('{' :: Keys.joinWith [','] ((sortStrings (dedup ["S0"])).map String.toList) ++ ['}']))) := rfl
  rw [h, hs]; rfl

/-- without `SimpleVars` the statement is false -/
theorem own_cyk_needs_simple :
    ¬ ∀ (G : CFG) (w : List String), w ≠ [] → G.isChomsky = true → G.valid = true →
      ∀ X : CFG.CykTable, G.cykMatrix w = .ok X →
        ∃ key, Keys.printCyk X w.length = .ok key ∧ Check.cykCheck G w key = .ok true := by
  intro h
  obtain ⟨key, hk, hc⟩ := h C13c.exLong ["a"] (by decide) (by decide) (by decide) [((0, 0), ["S0"])] rfl
  have hk' : Keys.printCyk [((0, 0), ["S0"])] 1 = .ok key := hk
  rw [C13c.exLong_print] at hk'
  injection hk' with hk'
  subst hk'
  have : Check.cykCheck C13c.exLong ["a"] "{S0}" = .ok false := by rfl
  rw [this] at hc
  injection hc with hc
  cases hc

#print axioms own_cyk_ok
#print axioms own_cyk_needs_simple

end Gamba
