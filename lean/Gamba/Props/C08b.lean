/-
  Gamba.Props.C08b — phase 3 of the CNF conversion: unit-rule elimination (`CFG.elimUnit`).
  (`CFG.UnitReach` is defined in `Gamba.Proofs.C08b`.)
-/
import Gamba.Model.CFG
import Gamba.Spec.CFG
import Gamba.Proofs.CFGBasic
import Gamba.Proofs.C08b
namespace Gamba

/-- example: a cycle of unit rules `A → B`, `B → A | b`, `S → A` -/
def C08b.exG : CFG :=
  { V := ["S", "A", "B"], Sigma := ["b"], S := "S",
    R := [⟨"S", 0, [.v "A"]⟩, ⟨"A", 1, [.v "B"]⟩, ⟨"B", 2, [.v "A"]⟩, ⟨"B", 3, [.t "b"]⟩] }

theorem C08b.exG_valid : C08b.exG.valid = true := by decide
theorem C08b.exG_disjoint : C08b.exG.Disjoint := by
  intro x hx; revert x; decide

/-- for a valid grammar whose terminals and variables are disjoint as strings, the Python test
    `len(rhs) == 1 and rhs[0] in V` (`unitTarget`) recognises exactly the rules `A → B`, `B` a variable -/
theorem unitTarget_exact (G : CFG) (hv : G.valid = true) (hd : G.Disjoint) (r : CRule) (hr : r ∈ G.R)
    (B : String) : CFG.unitTarget G r = some B ↔ r.rhs = [.v B] :=
  CFG.unitTarget_eq_some_iff hv hd hr B

example : CFG.unitTarget C08b.exG ⟨"A", 1, [.v "B"]⟩ = some "B" ∧
    CFG.unitTarget C08b.exG ⟨"B", 3, [.t "b"]⟩ = none := by decide

/-- unit-derivability: for a valid grammar whose terminals and variables are disjoint as strings,
    `derivable G A` is exactly the set of variables B ≠ A reachable from A by a non-empty chain of unit rules -/
theorem derivable_exact (G : CFG) (hv : G.valid = true) (hd : G.Disjoint) (A B : String) :
    B ∈ G.derivable A ↔ (G.UnitReach A B ∧ B ≠ A) :=
  CFG.mem_derivable_iff_unitReach hv hd A B

-- the cycle A → B → A: `A` reaches itself but is filtered out
example : C08b.exG.derivable "S" = ["A", "B"] ∧ C08b.exG.derivable "A" = ["B"] ∧
    C08b.exG.derivable "B" = ["A"] := by decide

example : C08b.exG.UnitReach "S" "B" ∧ "B" ≠ "S" :=
  (derivable_exact C08b.exG C08b.exG_valid C08b.exG_disjoint "S" "B").mp (by decide)

example : C08b.exG.UnitReach "A" "A" :=
  .step (.one ⟨⟨"A", 1, [.v "B"]⟩, by decide, rfl, rfl⟩) ⟨⟨"B", 2, [.v "A"]⟩, by decide, rfl, rfl⟩

/-- the (lhs, rhs) pairs of `elimUnit G`, for ANY grammar: the non-unit rules of `G`, plus `(A, α)`
    for `A ∈ V`, `B ∈ derivable G A` and `(B, α)` a non-unit rule of `G` -/
theorem elimUnit_rules (G : CFG) (A : String) (rhs : List Sym) :
    G.elimUnit.HasRule A rhs ↔
      CFG.unitRhs rhs = false ∧ (G.HasRule A rhs ∨
        (A ∈ G.V ∧ ∃ B, B ∈ G.derivable A ∧ G.HasRule B rhs)) :=
  CFG.elimUnit_hasRule_iff G A rhs

/-- phase 3: unit-rule elimination preserves the language, removes every unit rule, keeps the other postconditions -/
theorem elimUnit_spec (G : CFG) (hv : G.valid = true) (hd : G.Disjoint) :
    (G.elimUnit).valid = true ∧ (G.elimUnit).S = G.S ∧ (G.elimUnit).V = G.V ∧
    CFG.NoUnit G.elimUnit ∧
    (CFG.NoEpsExceptStart G → CFG.StartNotOnRhs G → CFG.NoEpsExceptStart G.elimUnit) ∧
    (CFG.StartNotOnRhs G → CFG.StartNotOnRhs G.elimUnit) ∧
    (CFG.AliasOK G → CFG.AliasOK G.elimUnit) ∧
    ∀ w, (G.elimUnit).Lang w ↔ G.Lang w :=
  ⟨CFG.elimUnit_valid hv, rfl, rfl, CFG.elimUnit_noUnit G, CFG.elimUnit_noEps hv hd,
    CFG.elimUnit_startNotOnRhs, CFG.elimUnit_aliasOK,
    fun w => CFG.elimUnit_gen_iff hv hd [.v G.S] w⟩

/-- the same for every sentential form (not only the start variable) -/
theorem elimUnit_gen (G : CFG) (hv : G.valid = true) (hd : G.Disjoint) (f : List Sym) (w : List String) :
    (G.elimUnit).Gen f w ↔ G.Gen f w :=
  CFG.elimUnit_gen_iff hv hd f w

-- all three new rules share the `Alternative` (aid 3) of `B → b`; the start rule is moved in front
example : C08b.exG.elimUnit.R = [⟨"S", 3, [.t "b"]⟩, ⟨"B", 3, [.t "b"]⟩, ⟨"A", 3, [.t "b"]⟩] ∧
    C08b.exG.elimUnit.V = ["S", "A", "B"] ∧ C08b.exG.elimUnit.S = "S" := by decide

-- the hypotheses of the inner implications hold on the example
example : CFG.NoEpsExceptStart C08b.exG ∧ CFG.StartNotOnRhs C08b.exG ∧ CFG.AliasOK C08b.exG := by
  refine ⟨?_, ?_, ?_⟩
  · unfold CFG.NoEpsExceptStart; decide
  · unfold CFG.StartNotOnRhs; decide
  · have : ∀ r ∈ C08b.exG.R, ∀ s ∈ C08b.exG.R, r.aid = s.aid → r.rhs = s.rhs := by decide
    exact fun r s hr hs => this r hr s hs

example : C08b.exG.elimUnit.Lang ["b"] :=
  ((elimUnit_spec C08b.exG C08b.exG_valid C08b.exG_disjoint).2.2.2.2.2.2.2 ["b"]).mpr
    (.v (u := ["b"]) (w := []) ⟨⟨"S", 0, [.v "A"]⟩, by decide, rfl, rfl⟩
      (.v (u := ["b"]) (w := []) ⟨⟨"A", 1, [.v "B"]⟩, by decide, rfl, rfl⟩
        (.v (u := ["b"]) (w := []) ⟨⟨"B", 3, [.t "b"]⟩, by decide, rfl, rfl⟩ (.t .nil) .nil) .nil) .nil)

/-- the set of rules produced does not depend on the order in which the variables are visited
    (Python iterates a set): same (lhs, rhs) pairs for any permutation V' of V -/
theorem elimUnit_order_indep (G : CFG) (V' : List String) (hp : ∀ A, A ∈ V' ↔ A ∈ G.V) (A : String) (rhs : List Sym) :
    ({ G with V := V' } : CFG).elimUnit.HasRule A rhs ↔ G.elimUnit.HasRule A rhs := by
  rw [CFG.elimUnit_hasRule_iff, CFG.elimUnit_hasRule_iff]
  have h1 : ∀ B, ({ G with V := V' } : CFG).HasRule B rhs ↔ G.HasRule B rhs := fun _ => Iff.rfl
  simp only [h1, hp, CFG.mem_derivable_congr G V' hp]

example : ∀ A, A ∈ ["B", "S", "A", "B"] ↔ A ∈ C08b.exG.V := by
  intro A; simp only [C08b.exG, List.mem_cons, List.not_mem_nil, or_false]
  constructor
  · rintro (h | h | h | h) <;> simp [h]
  · rintro (h | h | h) <;> simp [h]

-- a different order (and a duplicate) gives the same rules, in another list order
example : ({ C08b.exG with V := ["B", "S", "A", "B"] } : CFG).elimUnit.R =
    [⟨"S", 3, [.t "b"]⟩, ⟨"B", 3, [.t "b"]⟩, ⟨"A", 3, [.t "b"]⟩] := by decide

#print axioms unitTarget_exact
#print axioms derivable_exact
#print axioms elimUnit_rules
#print axioms elimUnit_spec
#print axioms elimUnit_gen
#print axioms elimUnit_order_indep
end Gamba
