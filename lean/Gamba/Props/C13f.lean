/-
  Gamba.Props.C13f — C13 at the TEXT level: the answer keys the library prints pass the checkers as the notebooks
  call them (`Gamba.Model.CheckText`): the reference argument is an arbitrary text that parses, the answer is the
  printed key.
-/
import Gamba.Proofs.C13f
namespace Gamba
open Parse

/-! ### CYK table -/

/-- the statement as first requested (without `hV`) -/
def own_cyk_text_ok_stmt : Prop :=
  ∀ (cfg : String) (G : CFG) (e : String), CfgText.parseSimpleCfg cfg.toList = .ok (G, e) →
    ∀ (word : String), word ≠ "" → G.isChomsky = true → ∀ (key : String),
    (do let X ← G.cykMatrix (word.toList.map String.singleton); Keys.printCyk X word.length) = .ok key →
    CheckText.cyk cfg word key = .ok

/-- CYK exercise at the text level.  Added hypothesis `hV`: every variable of the parsed grammar is a single
    character (`parse_simple_cfg` accepts `\w+` on the left of `->`, e.g. `S0 -> a`, and the cell syntax
    `{\w(,\w)*}` of the checker cannot express such a name). -/
theorem own_cyk_text_ok (cfg : String) (G : CFG) (e : String) (hp : CfgText.parseSimpleCfg cfg.toList = .ok (G, e))
    (hV : ∀ A, A ∈ G.V → A.length = 1)
    (word : String) (hw : word ≠ "") (hc : G.isChomsky = true) (key : String)
    (hk : (do let X ← G.cykMatrix (word.toList.map String.singleton); Keys.printCyk X word.length) = .ok key) :
    CheckText.cyk cfg word key = .ok := by
  obtain ⟨hv, _, hVars, _⟩ := C13f.parseSimpleCfg_facts hp
  have h1 : G.SimpleVars := C13f.simpleVars_of_length hVars hV
  have hw' : word.toList.map String.singleton ≠ [] := by
    intro h
    apply hw
    have : word.toList = [] := List.map_eq_nil_iff.mp h
    exact String.toList_eq_nil_iff.mp this
  cases hX : G.cykMatrix (word.toList.map String.singleton) with
  | error err => rw [hX] at hk; cases hk
  | ok X =>
    rw [hX] at hk
    obtain ⟨key', hk', hck⟩ := own_cyk_ok G _ hw' hc hv h1 X hX
    have hl : (word.toList.map String.singleton).length = word.length := by simp [String.length_toList]
    rw [hl] at hk'
    have hk2 : Keys.printCyk X word.length = .ok key := hk
    rw [hk2] at hk'
    cases hk'
    unfold CheckText.cyk
    rw [hp]
    simp only [hck]
    rfl

/-- non-vacuity: the text `S -> AB | a`, `A -> a`, `B -> b` parses to `C13c.exG`; word `aab` -/
example : CfgText.parseSimpleCfg "S -> AB | a\nA -> a\nB -> b".toList = .ok (C13c.exG, "_") ∧
    (∀ A, A ∈ C13c.exG.V → A.length = 1) ∧ "aab" ≠ "" ∧ C13c.exG.isChomsky = true ∧
    (do let X ← C13c.exG.cykMatrix ("aab".toList.map String.singleton); Keys.printCyk X "aab".length) =
      .ok "{}   \n{}     {S}  \n{A,S}  {A,S}  {B}  " := by
  refine ⟨by rfl, by decide, by decide, by decide, ?_⟩
  have h : C13c.exG.cykMatrix ("aab".toList.map String.singleton) = .ok C13c.exX := by rfl
  rw [h]
  exact C13c.exX_print

example : CheckText.cyk "S -> AB | a\nA -> a\nB -> b" "aab" "{}   \n{}     {S}  \n{A,S}  {A,S}  {B}  " = .ok :=
  own_cyk_text_ok _ C13c.exG "_" (by rfl) (by decide) "aab" (by decide) (by decide) _ (by
    have h : C13c.exG.cykMatrix ("aab".toList.map String.singleton) = .ok C13c.exX := by rfl
    rw [h]
    exact C13c.exX_print)

/-- the same verdict, by evaluation of the model (independent of the theorem); a wrong cell gives feedback -/
example : CheckText.cyk "S -> AB | a\nA -> a\nB -> b" "aab" "{}   \n{}     {S}  \n{A,S}  {A,S}  {B}  " = .ok ∧
    CheckText.cyk "S -> AB | a\nA -> a\nB -> b" "aab" "{}   \n{S}    {S}  \n{A,S}  {A,S}  {B}  " = .feedback ∧
    CheckText.cyk "S -> AB | a\nA -> " "aab" "{}" = .error := ⟨by rfl, by rfl, by rfl⟩

/-- `hV` cannot be dropped: `S0 -> a` parses (the left-hand side of a production is `\w+`), the grammar is in CNF, the
    answer key for the word `a` is `{S0}`, and the checker's cell syntax rejects it -/
theorem own_cyk_text_ok_stmt_false : ¬ own_cyk_text_ok_stmt := by
  intro h
  have hk : (do let X ← C13c.exLong.cykMatrix ("a".toList.map String.singleton); Keys.printCyk X "a".length) =
      .ok "{S0}" := by
    have h1 : C13c.exLong.cykMatrix ("a".toList.map String.singleton) = .ok [((0, 0), ["S0"])] := by rfl
    rw [h1]
    exact C13c.exLong_print
  have := h "S0 -> a" C13c.exLong "_" (by rfl) "a" (by decide) (by decide) "{S0}" hk
  have h2 : CheckText.cyk "S0 -> a" "a" "{S0}" = .feedback := by rfl
  rw [h2] at this
  cases this

/-! ### derivations -/

/-- the statement as first requested (without `hV`) -/
def own_derivation_text_ok_stmt : Prop :=
  ∀ (cfg : String) (G : CFG) (e : String), CfgText.parseSimpleCfg cfg.toList = .ok (G, e) →
    ∀ (word : String), word ≠ "" → G.isChomsky = true → G.Lang (word.toList.map String.singleton) →
    ∀ (leftmost : Bool), ∃ d, G.deriveWord (word.toList.map String.singleton) leftmost = .ok d ∧
      CheckText.derivation cfg (Keys.printDerivation d) word (if leftmost then 1 else 2) = .ok

/-- derivation exercise at the text level.  Added hypothesis `hV`: every variable of the parsed grammar is a single
    UPPER-CASE character (`parse_simple_cfg` accepts any `\w+` on the left of `->`, e.g. `a -> b` or `S0 -> a`; the
    checker reads the printed derivation one character at a time and takes exactly the upper-case ones for variables). -/
theorem own_derivation_text_ok (cfg : String) (G : CFG) (e : String) (hp : CfgText.parseSimpleCfg cfg.toList = .ok (G, e))
    (hV : ∀ A, A ∈ G.V → ∃ c, A = String.singleton c ∧ c.isUpper = true)
    (word : String) (hw : word ≠ "") (hc : G.isChomsky = true) (hL : G.Lang (word.toList.map String.singleton))
    (leftmost : Bool) :
    ∃ d, G.deriveWord (word.toList.map String.singleton) leftmost = .ok d ∧
      CheckText.derivation cfg (Keys.printDerivation d) word (if leftmost then 1 else 2) = .ok := by
  obtain ⟨hv, hS, _, _⟩ := C13f.parseSimpleCfg_facts hp
  have hw' : word.toList.map String.singleton ≠ [] := by
    intro h
    apply hw
    have : word.toList = [] := List.map_eq_nil_iff.mp h
    exact String.toList_eq_nil_iff.mp this
  obtain ⟨d, hd, hck⟩ := own_derivation_ok G hc hv hS (C13f.simpleNames_of_parse hp hV) _ hw' hL leftmost
  refine ⟨d, hd, ?_⟩
  unfold CheckText.derivation
  rw [hp]
  simp only [hck]
  rfl

/-- non-vacuity: the text `S -> a | AB`, `A -> a`, `B -> b` parses to `C15b.exG`; word `ab` -/
example : CfgText.parseSimpleCfg "S -> a | AB\nA -> a\nB -> b".toList = .ok (C15b.exG, "_") ∧
    (∀ A, A ∈ C15b.exG.V → ∃ c, A = String.singleton c ∧ c.isUpper = true) ∧ "ab" ≠ "" ∧
    C15b.exG.isChomsky = true ∧ C15b.exG.Lang ("ab".toList.map String.singleton) :=
  ⟨by rfl, C13d.exG_simple.vars, by decide, by decide, C15b.exG_lang⟩

example (leftmost : Bool) : ∃ d, C15b.exG.deriveWord ("ab".toList.map String.singleton) leftmost = .ok d ∧
    CheckText.derivation "S -> a | AB\nA -> a\nB -> b" (Keys.printDerivation d) "ab" (if leftmost then 1 else 2) = .ok :=
  own_derivation_text_ok _ C15b.exG "_" (by rfl) C13d.exG_simple.vars "ab" (by decide) (by decide) C15b.exG_lang leftmost

/-- the verdicts by evaluation of the model: the leftmost key passes as a leftmost derivation and fails as a
    rightmost one -/
example : CheckText.derivation "S -> a | AB\nA -> a\nB -> b" "S => AB => aB => ab" "ab" 1 = .ok ∧
    CheckText.derivation "S -> a | AB\nA -> a\nB -> b" "S => AB => aB => ab" "ab" 2 = .feedback := by
  decide +kernel

/-- the grammar of the text `a -> b` (a lower-case "variable") -/
def C13f.exLower : CFG := { V := ["a"], Sigma := ["b"], R := [⟨"a", 0, [.t "b"]⟩], S := "a" }

/-- `hV` cannot be dropped: `a -> b` parses, the grammar is in CNF and generates `b`; the answer key is `a => b`, and
    the checker reads the lower-case `a` as a terminal that is not in Σ -/
theorem own_derivation_text_ok_stmt_false : ¬ own_derivation_text_ok_stmt := by
  intro h
  have hL : C13f.exLower.Lang ("b".toList.map String.singleton) :=
    CFG.gen_v_iff.mpr ⟨[.t "b"], ⟨⟨"a", 0, [.t "b"]⟩, by decide, rfl, rfl⟩, CFG.gen_t_iff.mpr rfl⟩
  obtain ⟨d, hd, hc⟩ := h "a -> b" C13f.exLower "_" (by rfl) "b" (by decide) (by decide) hL true
  have hd' : C13f.exLower.deriveWord ("b".toList.map String.singleton) true = .ok [[.v "a"], [.t "b"]] := by rfl
  rw [hd'] at hd
  cases hd
  have h2 : CheckText.derivation "a -> b" (Keys.printDerivation [[.v "a"], [.t "b"]]) "b" (if true then 1 else 2) =
      .feedback := by decide +kernel
  rw [h2] at hc
  cases hc

/-! ### complement -/

/-- complement exercise at the text level (`hn`: the state names of the reference are not keywords of the format) -/
theorem own_complement_text_ok (dfa1 : String) (D1 : DFA String String) (hp : Parse.parseDfa dfa1.toList = .ok D1)
    (hn : ∀ q, q ∈ D1.Q → Parse.DfaNameOk q) :
    CheckText.complement (Parse.printDfa D1.complement) dfa1 = .ok := by
  have hD := C13f.parsedDfa_of hp
  obtain ⟨A', hA', hsim⟩ := C13f.dfaSim_of_print D1.complement (complement_valid D1 hD.valid) hD.keys hn hD.syms
  unfold CheckText.complement
  rw [hp, hA']
  simp only [C13f.complementCheck_sim hsim hD.keys rfl]
  rfl

/-- non-vacuity: a text with a comment, a blank line and two labels on one line; it parses to `C16.exDFA` -/
example : Parse.parseDfa "% a DFA\nstates p q\ninitial p\nfinal q\n\np q a b\nq q a\nq p b".toList = .ok C16.exDFA ∧
    (∀ q, q ∈ C16.exDFA.Q → Parse.DfaNameOk q) := by
  refine ⟨by rfl, ?_⟩
  unfold Parse.DfaNameOk
  decide

example : CheckText.complement (Parse.printDfa C16.exDFA.complement)
    "% a DFA\nstates p q\ninitial p\nfinal q\n\np q a b\nq q a\nq p b" = .ok :=
  own_complement_text_ok _ C16.exDFA (by rfl) (by unfold Parse.DfaNameOk; decide)

/-- the printed answer key … -/
theorem C13f.exCompl_print :
    Parse.printDfa C16.exDFA.complement = "states p q\nfinal p\ninitial p\ninput_symbols a b\np q a b\nq p b\nq q a" := by
  have s1 : sortStrings (dedup C16.exDFA.complement.Q) = ["p", "q"] := by
    have : dedup C16.exDFA.complement.Q = ["p", "q"] := by rfl
    rw [this]; simp [sortStrings, List.mergeSort, List.MergeSort.Internal.splitInTwo]
  have s2 : sortStrings (dedup C16.exDFA.complement.F) = ["p"] := by
    have : dedup C16.exDFA.complement.F = ["p"] := by rfl
    rw [this]; simp [sortStrings]
  have s3 : sortStrings (dedup C16.exDFA.complement.Sigma) = ["a", "b"] := by
    have : dedup C16.exDFA.complement.Sigma = ["a", "b"] := by rfl
    rw [this]; simp [sortStrings, List.mergeSort, List.MergeSort.Internal.splitInTwo]
  have s4 : sortStrings (dedup ((C16.exDFA.complement.delta.map fun e => (e.1.1, e.2, e.1.2)).map
      fun t => t.1 ++ " " ++ t.2.1)) = ["p q", "q p", "q q"] := by
    have : dedup ((C16.exDFA.complement.delta.map fun e => (e.1.1, e.2, e.1.2)).map fun t => t.1 ++ " " ++ t.2.1) =
        ["p q", "q q", "q p"] := by rfl
    rw [this]; simp [sortStrings, List.mergeSort, List.MergeSort.Internal.splitInTwo]
  unfold Parse.printDfa Parse.transLines
  simp only [s1, s2, s3, s4]
  rfl

/-- … and the verdict by evaluation of the model (independent of the theorem); the reference itself gives feedback -/
example : CheckText.complement "states p q\nfinal p\ninitial p\ninput_symbols a b\np q a b\nq p b\nq q a"
      "% a DFA\nstates p q\ninitial p\nfinal q\n\np q a b\nq q a\nq p b" = .ok ∧
    CheckText.complement "states p q\nfinal q\ninitial p\ninput_symbols a b\np q a b\nq p b\nq q a"
      "% a DFA\nstates p q\ninitial p\nfinal q\n\np q a b\nq q a\nq p b" = .feedback := by decide +kernel

/-! ### DFA → regular expression -/

/-- DFA → regexp exercise at the text level: no hypothesis beyond the single-letter alphabet of `own_dfa2regexp_ok` -/
theorem own_dfa2regexp_text_ok (dfa : String) (D : DFA String String) (hp : Parse.parseDfa dfa.toList = .ok D)
    (hsig : ∀ a, a ∈ D.Sigma → ∃ c : Char, a = String.singleton c ∧ c.isAlpha = true)
    (order : List String) (ho : order.Nodup) (hm : ∀ q, q ∈ order ↔ q ∈ D.Q) (len : Nat) :
    CheckText.dfa2regexp dfa (RegexpText.printSimple (D.toRegexp (gnfaNames D.Q).1 (gnfaNames D.Q).2 order)) len = .ok := by
  have hD := C13f.parsedDfa_of hp
  obtain ⟨r', hr', hck⟩ := own_dfa2regexp_ok D hD.valid hD.keys hD.nodupQ hsig order ho hm len
  unfold CheckText.dfa2regexp
  rw [hp, hr']
  simp only [hck]
  rfl

/-- non-vacuity: the even-number-of-`a`s DFA as text (no `states` / `input_symbols` declarations) -/
example : Parse.parseDfa "initial q0\nfinal q0\nq0 q1 a\nq0 q0 b\nq1 q0 a\nq1 q1 b".toList = .ok C06b.evenA ∧
    (∀ a, a ∈ C06b.evenA.Sigma → ∃ c : Char, a = String.singleton c ∧ c.isAlpha = true) ∧
    ["q1", "q0"].Nodup ∧ (∀ q, q ∈ ["q1", "q0"] ↔ q ∈ C06b.evenA.Q) := by
  refine ⟨by rfl, ?_, by decide, ?_⟩
  · intro a ha
    simp only [C06b.evenA, List.mem_cons, List.not_mem_nil, or_false] at ha
    rcases ha with rfl | rfl
    · exact ⟨'a', rfl, by decide⟩
    · exact ⟨'b', rfl, by decide⟩
  · intro q; simp [C06b.evenA]; exact Or.comm

example (len : Nat) : CheckText.dfa2regexp "initial q0\nfinal q0\nq0 q1 a\nq0 q0 b\nq1 q0 a\nq1 q1 b"
    (RegexpText.printSimple (C06b.evenA.toRegexp (gnfaNames C06b.evenA.Q).1 (gnfaNames C06b.evenA.Q).2 ["q1", "q0"]))
    len = .ok :=
  own_dfa2regexp_text_ok _ C06b.evenA (by rfl)
    (by
      intro a ha
      simp only [C06b.evenA, List.mem_cons, List.not_mem_nil, or_false] at ha
      rcases ha with rfl | rfl
      · exact ⟨'a', rfl, by decide⟩
      · exact ⟨'b', rfl, by decide⟩)
    ["q1", "q0"] (by decide) (by intro q; simp [C06b.evenA]; exact Or.comm) len

/-- the key is `(ab*a+b)*`; verdicts by evaluation of the model -/
example : RegexpText.printSimple (C06b.evenA.toRegexp (gnfaNames C06b.evenA.Q).1 (gnfaNames C06b.evenA.Q).2 ["q1", "q0"]) =
      "(ab*a+b)*" ∧
    CheckText.dfa2regexp "initial q0\nfinal q0\nq0 q1 a\nq0 q0 b\nq1 q0 a\nq1 q1 b" "(ab*a+b)*" 3 = .ok ∧
    CheckText.dfa2regexp "initial q0\nfinal q0\nq0 q1 a\nq0 q0 b\nq1 q0 a\nq1 q1 b" "(ab*a)*" 3 = .feedback := by
  refine ⟨by decide, by decide +kernel, by decide +kernel⟩

/-! ### reverse -/

/-- the statement as first requested (without `hn`, `he`) -/
def own_reverse_text_ok_stmt : Prop :=
  ∀ (dfa : String) (D : DFA String String), Parse.parseDfa dfa.toList = .ok D → ∀ (s : Sched) (len : Nat),
    CheckText.reverse dfa (Parse.printNfa (D.reverse (freshState D.Q "q") "ε")) s len = .ok

/-- reverse exercise at the text level.  Added hypotheses: `hn` — no state of the reference is called like a keyword
    of the NFA format (a DFA may have a state called `epsilon`; its reversal prints a transition line that starts with
    `epsilon`, which `parse_nfa` takes for a second `epsilon` declaration); `he` — `ε` is not an input symbol of the
    reference (`ε` matches `\w`, so `parse_dfa` accepts it as a symbol; the reversal uses `ε` as its ε-label). -/
theorem own_reverse_text_ok (dfa : String) (D : DFA String String) (hp : Parse.parseDfa dfa.toList = .ok D)
    (hn : ∀ q, q ∈ D.Q → Parse.NfaNameOk q) (he : "ε" ∉ D.Sigma) (s : Sched) (len : Nat) :
    CheckText.reverse dfa (Parse.printNfa (D.reverse (freshState D.Q "q") "ε")) s len = .ok := by
  have hD := C13f.parsedDfa_of hp
  obtain ⟨hRv, N', hN', hsim⟩ := C13f.reverse_roundtrip D hD hn he
  have hck := C13f.reverseCheck_sim hsim hRv s len (own_reverse_ok D hD.valid hD.keys s len he)
  unfold CheckText.reverse
  rw [hp, hN']
  simp only [hck]
  rfl

/-- non-vacuity on `C16.exDFA` -/
example : Parse.parseDfa "% a DFA\nstates p q\ninitial p\nfinal q\n\np q a b\nq q a\nq p b".toList = .ok C16.exDFA ∧
    (∀ q, q ∈ C16.exDFA.Q → Parse.NfaNameOk q) ∧ "ε" ∉ C16.exDFA.Sigma := by
  refine ⟨by rfl, ?_, by decide⟩
  unfold Parse.NfaNameOk
  decide

example (s : Sched) (len : Nat) :
    CheckText.reverse "% a DFA\nstates p q\ninitial p\nfinal q\n\np q a b\nq q a\nq p b"
      (Parse.printNfa (C16.exDFA.reverse (freshState C16.exDFA.Q "q") "ε")) s len = .ok :=
  own_reverse_text_ok _ C16.exDFA (by rfl) (by unfold Parse.NfaNameOk; decide) (by decide) s len

/-- a DFA whose only state is called `epsilon` -/
def C13f.exEps : DFA String String :=
  { Q := ["epsilon"], Sigma := ["a"], delta := [(("epsilon", "a"), "epsilon")], q0 := "epsilon", F := [] }

theorem C13f.exEps_print :
    Parse.printNfa (C13f.exEps.reverse (freshState C13f.exEps.Q "q") "ε") =
      "states epsilon q1\nfinal epsilon\ninitial q1\ninput_symbols a\nepsilon ε\nepsilon epsilon a\n" := by
  have hf : freshState C13f.exEps.Q "q" = "q1" := by decide
  rw [hf]
  have s1 : sortStrings (dedup (C13f.exEps.reverse "q1" "ε").Q) = ["epsilon", "q1"] := by
    have : dedup (C13f.exEps.reverse "q1" "ε").Q = ["epsilon", "q1"] := by rfl
    rw [this]; simp [sortStrings, List.mergeSort, List.MergeSort.Internal.splitInTwo]
  have s2 : sortStrings (dedup (C13f.exEps.reverse "q1" "ε").F) = ["epsilon"] := by
    have : dedup (C13f.exEps.reverse "q1" "ε").F = ["epsilon"] := by rfl
    rw [this]; simp [sortStrings]
  have s3 : sortStrings (dedup (C13f.exEps.reverse "q1" "ε").Sigma) = ["a"] := by
    have : dedup (C13f.exEps.reverse "q1" "ε").Sigma = ["a"] := by rfl
    rw [this]; simp [sortStrings]
  have s4 : sortStrings (dedup (((C13f.exEps.reverse "q1" "ε").delta.flatMap fun e => e.2.map fun q => (e.1.1, q, e.1.2)).map
      fun t => t.1 ++ " " ++ t.2.1)) = ["epsilon epsilon"] := by
    have : dedup (((C13f.exEps.reverse "q1" "ε").delta.flatMap fun e => e.2.map fun q => (e.1.1, q, e.1.2)).map
        fun t => t.1 ++ " " ++ t.2.1) = ["epsilon epsilon"] := by rfl
    rw [this]; simp [sortStrings]
  unfold Parse.printNfa Parse.transLines
  simp only [s1, s2, s3, s4]
  rfl

/-- `hn` cannot be dropped: `parse_dfa` accepts a state called `epsilon` (not a keyword of the DFA format); the
    reversed automaton prints the transition line `epsilon epsilon a`, which `parse_nfa` reads as a second `epsilon`
    declaration, and the library's own answer key is rejected with an error -/
theorem own_reverse_text_ok_stmt_false : ¬ own_reverse_text_ok_stmt := by
  intro h
  have := h "initial epsilon\nepsilon epsilon a" C13f.exEps (by rfl) [] 1
  rw [C13f.exEps_print] at this
  have h2 : CheckText.reverse "initial epsilon\nepsilon epsilon a"
      "states epsilon q1\nfinal epsilon\ninitial q1\ninput_symbols a\nepsilon ε\nepsilon epsilon a\n" [] 1 = .error := by decide +kernel
  rw [h2] at this
  cases this

/-- `he` cannot be dropped either: `ε` is a word character of the model, so `initial p` / `p p ε` is a DFA over the
    symbol `ε`; its reversal uses `ε` as ε-label and the NFA constructor rejects the re-parsed answer key -/
example : Parse.parseDfa "initial p\np p ε".toList =
      .ok { Q := ["p"], Sigma := ["ε"], delta := [(("p", "ε"), "p")], q0 := "p", F := [] } ∧
    Parse.parseNfa "states p q1\nfinal p\ninitial q1\ninput_symbols ε\nepsilon ε\np p ε\n".toList = .error .assertion :=
  ⟨by rfl, by rfl⟩

/-! ### NFA → DFA (answer states are named `{q0,q1}`; the answer is parsed with `parse_nfa`) -/

/-- the statement as first requested (without `he`, `hu`) -/
def own_nfa2dfa_text_ok_stmt : Prop :=
  ∀ (nfa : String) (N : NFA String String), Parse.parseNfa nfa.toList = .ok N → ∀ (s : Sched) (D : DFA String String),
    N.toDfa s = .ok D → ∀ (s' : Sched), CheckText.nfa2dfa nfa (Parse.printDfa D) s' = .ok

/-- NFA → DFA exercise at the text level.  Added hypotheses `he`, `hu`: neither `ε` nor `_` is an input symbol of the
    reference NFA.  The answer key is printed by `print_dfa` (no `epsilon` line) and read by `parse_nfa`, which then
    infers the ε-label (`ε` if that character occurs in a label, else `_`); if the inferred label is an input symbol,
    the NFA constructor rejects the answer key. -/
theorem own_nfa2dfa_text_ok (nfa : String) (N : NFA String String) (hp : Parse.parseNfa nfa.toList = .ok N)
    (he : "ε" ∉ N.Sigma) (hu : "_" ∉ N.Sigma) (s : Sched)
    (D : DFA String String) (hD : N.toDfa s = .ok D) (s' : Sched) :
    CheckText.nfa2dfa nfa (Parse.printDfa D) s' = .ok := by
  obtain ⟨A', hA', hck⟩ := C13f.nfa2dfa_text N (C13f.parsedNfa_of hp) s D hD he hu s'
  unfold CheckText.nfa2dfa
  rw [hp, hA']
  simp only [hck]
  rfl

/-- an NFA with an ε-move written as text (ε inferred from the label `ε`) -/
def C13f.exN : NFA String String :=
  { Q := ["p", "q"], Sigma := ["a"], q0 := "p", F := ["q"], eps := "ε",
    delta := [(("p", "a"), ["q"]), (("p", "ε"), ["q"]), (("q", "a"), ["q"])] }

/-- non-vacuity: the hypotheses hold for it, and the subset construction succeeds -/
example : Parse.parseNfa "initial p\nfinal q\np q a ε\nq q a".toList = .ok C13f.exN ∧ "ε" ∉ C13f.exN.Sigma ∧
    "_" ∉ C13f.exN.Sigma ∧
    ∃ D, C13f.exN.toDfa [] = .ok D ∧ CheckText.nfa2dfa "initial p\nfinal q\np q a ε\nq q a" (Parse.printDfa D) [2, 1] = .ok := by
  refine ⟨by rfl, by decide, by decide, ?_⟩
  obtain ⟨D, hD, _⟩ := nfaToDfa_named_clean C13f.exN (by decide) (by decide) []
  exact ⟨D, hD, own_nfa2dfa_text_ok _ C13f.exN (by rfl) (by decide) (by decide) [] D hD [2, 1]⟩

/-- the answer key of that exercise and its verdict, by evaluation of the model (independent of the theorem);
    an answer with a wrong target gives feedback -/
example : CheckText.nfa2dfa "initial p\nfinal q\np q a ε\nq q a"
      "states {p,q} {q}\nfinal {p,q} {q}\ninitial {p,q}\ninput_symbols a\n{p,q} {q} a\n{q} {q} a" [2, 1] = .ok ∧
    CheckText.nfa2dfa "initial p\nfinal q\np q a ε\nq q a"
      "states {p,q} {q}\nfinal {p,q} {q}\ninitial {p,q}\ninput_symbols a\n{p,q} {p,q} a\n{q} {q} a" [] = .feedback := by
  decide +kernel

/-- an NFA with the declared ε-label `e` and the input symbol `_` -/
def C13f.exUs : NFA String String :=
  { Q := ["p"], Sigma := ["_"], q0 := "p", F := [], eps := "e", delta := [(("p", "_"), ["p"])] }

def C13f.exUsD : DFA String String :=
  { Q := ["{p}"], Sigma := ["_"], q0 := "{p}", F := [], delta := [(("{p}", "_"), "{p}")] }

theorem C13f.exUs_toDfa : C13f.exUs.toDfa [] = .ok C13f.exUsD := by
  have h : C13f.exUs.toDfaSets [] =
      .ok { Q := [["p"]], Sigma := ["_"], q0 := ["p"], F := [], delta := [((["p"], "_"), ["p"])] } := by rfl
  have hn : printStateSet ["p"] = "{p}" := by simp [printStateSet, sortStrings, dedup]
  unfold NFA.toDfa
  rw [h]
  show Except.ok (DFA.mapStates printStateSet _) = _
  simp [DFA.mapStates, C13f.exUsD, hn]

theorem C13f.exUsD_print :
    Parse.printDfa C13f.exUsD = "states {p}\nfinal \ninitial {p}\ninput_symbols _\n{p} {p} _" := by
  have s1 : sortStrings (dedup C13f.exUsD.Q) = ["{p}"] := by
    have : dedup C13f.exUsD.Q = ["{p}"] := by rfl
    rw [this]; simp [sortStrings]
  have s2 : sortStrings (dedup C13f.exUsD.F) = [] := by
    have : dedup C13f.exUsD.F = [] := by rfl
    rw [this]; simp [sortStrings]
  have s3 : sortStrings (dedup C13f.exUsD.Sigma) = ["_"] := by
    have : dedup C13f.exUsD.Sigma = ["_"] := by rfl
    rw [this]; simp [sortStrings]
  have s4 : sortStrings (dedup ((C13f.exUsD.delta.map fun e => (e.1.1, e.2, e.1.2)).map fun t => t.1 ++ " " ++ t.2.1)) =
      ["{p} {p}"] := by
    have : dedup ((C13f.exUsD.delta.map fun e => (e.1.1, e.2, e.1.2)).map fun t => t.1 ++ " " ++ t.2.1) =
        ["{p} {p}"] := by rfl
    rw [this]; simp [sortStrings]
  unfold Parse.printDfa Parse.transLines
  simp only [s1, s2, s3, s4]
  rfl

/-- `hu` cannot be dropped: the answer key has no `epsilon` line, `parse_nfa` infers the ε-label `_`, which is an
    input symbol, and the NFA constructor rejects the library's own answer key (verdict: error) -/
theorem own_nfa2dfa_text_ok_stmt_false : ¬ own_nfa2dfa_text_ok_stmt := by
  intro h
  have := h "initial p\nepsilon e\np p _" C13f.exUs (by rfl) [] C13f.exUsD C13f.exUs_toDfa []
  rw [C13f.exUsD_print] at this
  have h2 : CheckText.nfa2dfa "initial p\nepsilon e\np p _"
      "states {p}\nfinal \ninitial {p}\ninput_symbols _\n{p} {p} _" [] = .error := by decide +kernel
  rw [h2] at this
  cases this

/-! ### minimal DFA (answer states are named `{q0,q1}`) -/

/-- minimal-DFA exercise at the text level: exactly the requested statement -/
theorem own_minimal_text_ok (dfa : String) (D : DFA String String) (hp : Parse.parseDfa dfa.toList = .ok D) (len : Nat)
    (M : DFA (List String) String) (hM : D.quotient = .ok M) :
    CheckText.minimal dfa (Parse.printDfa (M.mapStates printStateSet)) len = .ok := by
  obtain ⟨A', hA', hck⟩ := C13f.minimal_text D (C13f.parsedDfa_of hp) len M hM
  unfold CheckText.minimal
  rw [hp, hA']
  simp only [hck]
  rfl

/-- non-vacuity: `exC04b` (states `1` and `2` are equivalent) as text; its quotient has the blocks `{3}`, `{0}`, `{1,2}` -/
example : Parse.parseDfa ("states 0 1 2 3\ninput_symbols a b\ninitial 0\nfinal 3\n0 1 a\n0 2 b\n1 3 a\n1 0 b\n" ++
      "2 3 a\n2 0 b\n3 3 a b").toList = .ok exC04b ∧ exC04b.quotient = .ok C13a.exQuot ∧
    (C13a.exQuot.mapStates printStateSet).Q = ["{3}", "{0}", "{1,2}"] := by
  refine ⟨by rfl, by rfl, ?_⟩
  rw [C13a.exQuot_named]; rfl

example (len : Nat) : CheckText.minimal
    ("states 0 1 2 3\ninput_symbols a b\ninitial 0\nfinal 3\n0 1 a\n0 2 b\n1 3 a\n1 0 b\n" ++ "2 3 a\n2 0 b\n3 3 a b")
    (Parse.printDfa (C13a.exQuot.mapStates printStateSet)) len = .ok :=
  own_minimal_text_ok _ exC04b (by rfl) len C13a.exQuot (by rfl)

/-- the verdict on the text of that key, by evaluation of the model; the reference itself (4 states) gives feedback -/
example : CheckText.minimal "states 0 1 2 3\ninput_symbols a b\ninitial 0\nfinal 3\n0 1 a\n0 2 b\n1 3 a\n1 0 b\n2 3 a\n2 0 b\n3 3 a b"
      "states {0} {1,2} {3}\nfinal {3}\ninitial {0}\ninput_symbols a b\n{0} {1,2} a b\n{1,2} {0} b\n{1,2} {3} a\n{3} {3} a b" 4 = .ok ∧
    CheckText.minimal "states 0 1 2 3\ninput_symbols a b\ninitial 0\nfinal 3\n0 1 a\n0 2 b\n1 3 a\n1 0 b\n2 3 a\n2 0 b\n3 3 a b"
      "states 0 1 2 3\ninput_symbols a b\ninitial 0\nfinal 3\n0 1 a\n0 2 b\n1 3 a\n1 0 b\n2 3 a\n2 0 b\n3 3 a b" 4 = .feedback := by
  decide +kernel

/-! ### product automata (answer states are named `(p,q)`) -/

/-- product exercises at the text level: exactly the requested statement -/
theorem own_product_text_ok (t : ProductType) (dfa1 dfa2 : String) (D1 D2 : DFA String String)
    (h1 : Parse.parseDfa dfa1.toList = .ok D1) (h2 : Parse.parseDfa dfa2.toList = .ok D2)
    (hS : ∀ a, a ∈ D1.Sigma ↔ a ∈ D2.Sigma) (len : Nat) :
    CheckText.product t (Parse.printDfa ((D1.product D2 t).mapStates productName)) dfa1 dfa2 len = .ok := by
  obtain ⟨A', hA', hck⟩ := C13f.product_text t D1 D2 (C13f.parsedDfa_of h1) (C13f.parsedDfa_of h2) hS len
  unfold CheckText.product
  rw [h1, h2, hA']
  simp only [hck]
  rfl

/-- the even-length DFA, written without declarations -/
def C13f.exEven : DFA String String :=
  { Q := ["o", "e"], Sigma := ["a", "b"], q0 := "e", F := ["e"],
    delta := [(("e", "a"), "o"), (("e", "b"), "o"), (("o", "a"), "e"), (("o", "b"), "e")] }

/-- non-vacuity: two different texts over the same alphabet -/
example : Parse.parseDfa "% a DFA\nstates p q\ninitial p\nfinal q\n\np q a b\nq q a\nq p b".toList = .ok C16.exDFA ∧
    Parse.parseDfa "initial e\nfinal e\ne o a b\no e a b".toList = .ok C13f.exEven ∧
    (∀ a, a ∈ C16.exDFA.Sigma ↔ a ∈ C13f.exEven.Sigma) := ⟨by rfl, by rfl, fun _ => Iff.rfl⟩

example (t : ProductType) (len : Nat) :
    CheckText.product t (Parse.printDfa ((C16.exDFA.product C13f.exEven t).mapStates productName))
      "% a DFA\nstates p q\ninitial p\nfinal q\n\np q a b\nq q a\nq p b" "initial e\nfinal e\ne o a b\no e a b" len = .ok :=
  own_product_text_ok t _ _ C16.exDFA C13f.exEven (by rfl) (by rfl) (fun _ => Iff.rfl) len

/-- the verdict on a text of the intersection automaton, by evaluation of the model; with the final states of the
    union it gives feedback -/
example : CheckText.product .intersection
      "states (p,e) (p,o) (q,e) (q,o)\nfinal (q,e)\ninitial (p,e)\ninput_symbols a b\n(p,e) (q,o) a b\n(p,o) (q,e) a b\n(q,e) (q,o) a\n(q,e) (p,o) b\n(q,o) (q,e) a\n(q,o) (p,e) b"
      "% a DFA\nstates p q\ninitial p\nfinal q\n\np q a b\nq q a\nq p b" "initial e\nfinal e\ne o a b\no e a b" 3 = .ok ∧
    CheckText.product .intersection
      "states (p,e) (p,o) (q,e) (q,o)\nfinal (q,e) (p,e) (q,o)\ninitial (p,e)\ninput_symbols a b\n(p,e) (q,o) a b\n(p,o) (q,e) a b\n(q,e) (q,o) a\n(q,e) (p,o) b\n(q,o) (q,e) a\n(q,o) (p,e) b"
      "% a DFA\nstates p q\ninitial p\nfinal q\n\np q a b\nq q a\nq p b" "initial e\nfinal e\ne o a b\no e a b" 3 = .feedback := by
  decide +kernel

#print axioms own_cyk_text_ok
#print axioms own_derivation_text_ok
#print axioms own_complement_text_ok
#print axioms own_dfa2regexp_text_ok
#print axioms own_reverse_text_ok
#print axioms own_nfa2dfa_text_ok
#print axioms own_minimal_text_ok
#print axioms own_product_text_ok
#print axioms own_cyk_text_ok_stmt_false
#print axioms own_derivation_text_ok_stmt_false
#print axioms own_reverse_text_ok_stmt_false
#print axioms own_nfa2dfa_text_ok_stmt_false

end Gamba
