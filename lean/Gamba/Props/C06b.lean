/-
  Gamba.Props.C06b — `dfa_to_gnfa`, `gnfa_minimize`, `dfa_to_regexp`: the GNFA built from a DFA has the
  DFA's language, ripping a state preserves it, and for EVERY elimination order the resulting regular
  expression denotes exactly the language of the DFA.
-/
import Gamba.Model.GNFA
import Gamba.Spec.Automata
import Gamba.Spec.Regexp
import Gamba.Spec.GNFA
import Gamba.Proofs.C06b
namespace Gamba

set_option linter.unusedSectionVars false

variable {σ τ : Type} [DecidableEq σ] [DecidableEq τ]

/-- the GNFA built from a DFA is proper and has the DFA's language -/
theorem toGnfa_spec (D : DFA σ τ) (hv : D.valid = true) (hk : (D.delta.map (·.1)).Nodup) (qs qa : σ)
    (hs : qs ∉ D.Q) (ha : qa ∉ D.Q) (hne : qs ≠ qa) :
    (D.toGnfa qs qa).Proper ∧ (∀ q, q ∈ (D.toGnfa qs qa).Q ↔ q ∈ D.Q ∨ q = qs ∨ q = qa) ∧
    ∀ w, (D.toGnfa qs qa).GLang w ↔ D.Accepts w :=
  ⟨C06b.toGnfa_proper D qs qa hv hs ha hne, C06b.toGnfa_mem_Q D qs qa hv hs ha hne,
    C06b.toGnfa_glang D qs qa hv hs ha hne hk⟩

example : C06b.evenA.valid = true ∧ (C06b.evenA.delta.map (·.1)).Nodup ∧ "start" ∉ C06b.evenA.Q ∧
    "accept" ∉ C06b.evenA.Q ∧ "start" ≠ "accept" := by decide

-- the conclusion on the concrete DFA: "aba" has two `a`s, so the GNFA accepts it
example : (C06b.evenA.toGnfa "start" "accept").GLang ["a", "b", "a"] :=
  ((toGnfa_spec C06b.evenA (by decide) (by decide) "start" "accept" (by decide) (by decide)
    (by decide)).2.2 _).2
    ⟨"q0", by decide,
      .cons (q' := "q1") (by decide) (.cons (q' := "q1") (by decide) (.cons (q' := "q0") (by decide) (.nil _)))⟩

/-- ripping one inner state preserves properness and the language -/
theorem rip_spec (G : GNFA σ τ) (hp : G.Proper) (q : σ) (hq : q ∈ G.Q) (hqs : q ≠ G.qStart) (hqa : q ≠ G.qAccept)
    (hnd : G.Q.Nodup) :
    (G.rip q).Proper ∧ (∀ p, p ∈ (G.rip q).Q ↔ p ∈ G.Q ∧ p ≠ q) ∧ (G.rip q).Q.Nodup ∧
    ∀ w, (G.rip q).GLang w ↔ G.GLang w :=
  ⟨C06b.rip_proper G hp q hqs hqa hnd, C06b.rip_mem_Q G q, C06b.rip_nodup G q hnd,
    C06b.rip_glang G hp q hq hqs hqa hnd⟩

/-- the label written by `rip` for a pair of remaining states: `L(R1)·L(R2)*·L(R3) ∪ L(R4)` -/
theorem rip_label_lang (G : GNFA σ τ) (hp : G.Proper) (q : σ) (hnd : G.Q.Nodup) (x y : σ)
    (hx : x ∈ (G.rip q).Q) (hy : y ∈ (G.rip q).Q) (w : List τ) :
    ((G.rip q).get x y).Lang w ↔
      (∃ u1 u2 u3, w = u1 ++ (u2 ++ u3) ∧ (G.get x q).Lang u1 ∧ (Regexp.star (G.get q q)).Lang u2 ∧
        (G.get q y).Lang u3) ∨ (G.get x y).Lang w :=
  C06b.rip_get_lang G hp q hnd x y hx hy w

-- hypotheses of `rip_spec` on the GNFA of the concrete DFA, ripping "q0"
example : (C06b.evenA.toGnfa "start" "accept").Proper :=
  (toGnfa_spec C06b.evenA (by decide) (by decide) "start" "accept" (by decide) (by decide) (by decide)).1
example : "q0" ∈ (C06b.evenA.toGnfa "start" "accept").Q ∧ "q0" ≠ (C06b.evenA.toGnfa "start" "accept").qStart ∧
    "q0" ≠ (C06b.evenA.toGnfa "start" "accept").qAccept ∧ (C06b.evenA.toGnfa "start" "accept").Q.Nodup := by
  decide
example : ((C06b.evenA.toGnfa "start" "accept").rip "q0").Q = ["q1", "accept", "start"] := by decide
example : ((C06b.evenA.toGnfa "start" "accept").rip "q0").get "q1" "q1" =
    .sum (.cat (.sym "a") (.cat (.star (.sym "b")) (.sym "a"))) (.sym "b") := by decide
example : ((C06b.evenA.toGnfa "start" "accept").rip "q0").get "start" "accept" = .star (.sym "b") := by decide

/-- `dfa_to_regexp`, for EVERY elimination order (any duplicate-free enumeration of the DFA's states) -/
theorem toRegexp_lang (D : DFA σ τ) (hv : D.valid = true) (hk : (D.delta.map (·.1)).Nodup) (hQ : D.Q.Nodup)
    (qs qa : σ) (hs : qs ∉ D.Q) (ha : qa ∉ D.Q) (hne : qs ≠ qa)
    (order : List σ) (ho : order.Nodup) (hm : ∀ q, q ∈ order ↔ q ∈ D.Q) (w : List τ) :
    (D.toRegexp qs qa order).Lang w ↔ D.Accepts w :=
  C06b.toRegexp_lang D hv hk hQ qs qa hs ha hne order ho hm w

-- both elimination orders of the concrete DFA satisfy the hypotheses and give (different) expressions
example : C06b.evenA.Q.Nodup ∧ ["q0", "q1"].Nodup ∧ ["q1", "q0"].Nodup ∧
    (∀ q, q ∈ ["q0", "q1"] → q ∈ C06b.evenA.Q) ∧ (∀ q, q ∈ C06b.evenA.Q → q ∈ ["q1", "q0"]) := by decide
example : C06b.evenA.toRegexp "start" "accept" ["q1", "q0"] =
    .star (.sum (.cat (.sym "a") (.cat (.star (.sym "b")) (.sym "a"))) (.sym "b")) := by decide
example : C06b.evenA.toRegexp "start" "accept" ["q0", "q1"] =
    .sum (.cat (.cat (.star (.sym "b")) (.sym "a"))
      (.cat (.star (.sum (.cat (.sym "a") (.cat (.star (.sym "b")) (.sym "a"))) (.sym "b")))
        (.cat (.sym "a") (.star (.sym "b")))))
      (.star (.sym "b")) := by decide
example (w : List String) :
    (C06b.evenA.toRegexp "start" "accept" ["q0", "q1"]).Lang w ↔ C06b.evenA.Accepts w :=
  toRegexp_lang C06b.evenA (by decide) (by decide) (by decide) "start" "accept" (by decide) (by decide)
    (by decide) ["q0", "q1"] (by decide) (by intro q; simp [C06b.evenA]) w
example (w : List String) :
    (C06b.evenA.toRegexp "start" "accept" ["q1", "q0"]).Lang w ↔ C06b.evenA.Accepts w :=
  toRegexp_lang C06b.evenA (by decide) (by decide) (by decide) "start" "accept" (by decide) (by decide)
    (by decide) ["q1", "q0"] (by decide) (by intro q; simp [C06b.evenA]; exact Or.comm) w

#print axioms toGnfa_spec
#print axioms rip_spec
#print axioms rip_label_lang
#print axioms toRegexp_lang

end Gamba
