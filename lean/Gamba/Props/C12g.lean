/-
  Gamba.Props.C12g — property C12, second sentence: "whenever a counterexample word is reported it is a genuine word on
  which answer and reference differ, with the right polarity, and the language-comparison feedback reports one of minimal
  length."  `Gamba.Model.CheckCex` gives, for every text-level checker, the reported word and its polarity
  (`true` = "should not be accepted", `false` = "should be accepted").  Here: the report does not depend on the iteration
  order of Python's sets (polarity and length), it is genuine for the SEMANTIC languages of the parsed objects (same
  acceptance predicates as the `*_text_sound` theorems of C12c–C12f), minimal among the differing words, and absent when
  the verdict is `OK`.
-/
import Gamba.Model.CheckCex
import Gamba.Props.C14c
import Gamba.Props.C12c
import Gamba.Props.C12d
import Gamba.Props.C12e
import Gamba.Props.C12f
import Gamba.Proofs.C12g
namespace Gamba
open Parse

/-! ### 1. independence of the iteration order -/

/-- Python's sets iterate in an arbitrary order: polarity and LENGTH of the reported word do not depend on it -/
theorem compare_order_independent {τ : Type} [DecidableEq τ] (A1 A1' A2 A2' : List (List τ))
    (e1 : ∀ w, w ∈ A1' ↔ w ∈ A1) (e2 : ∀ w, w ∈ A2' ↔ w ∈ A2) (w : List τ) (b : Bool)
    (h : compareLanguages A1 A2 = some (w, b)) :
    ∃ w', compareLanguages A1' A2' = some (w', b) ∧ w'.length = w.length :=
  C12g.compare_order_independent e1 e2 h

-- the same two sets listed in other orders (and with a repetition): another word, same polarity, same length
example : compareLanguages [[1], [3, 3, 3], [4], [5]] [[1], [2]] = some ([4], true) ∧
    compareLanguages [[5], [3, 3, 3], [1], [4], [1]] [[2], [1]] = some ([5], true) := by decide
example : (∀ w, w ∈ [[5], [3, 3, 3], [1], [4], [1]] ↔ w ∈ [[1], [3, 3, 3], [4], [5]]) ∧
    (∀ w, w ∈ [[2], [1]] ↔ w ∈ [[1], [2]]) := by
  refine ⟨fun w => ?_, fun w => ?_⟩ <;> simp only [List.mem_cons, List.not_mem_nil, or_false] <;> grind

/-- … nor does the absence of a report -/
theorem compare_order_independent_none {τ : Type} [DecidableEq τ] (A1 A1' A2 A2' : List (List τ))
    (e1 : ∀ w, w ∈ A1' ↔ w ∈ A1) (e2 : ∀ w, w ∈ A2' ↔ w ∈ A2) (h : compareLanguages A1 A2 = none) :
    compareLanguages A1' A2' = none :=
  C12g.compare_order_independent_none e1 e2 h

example : compareLanguages [[1], [1, 2], [1]] [[1, 2], [1]] = none ∧
    compareLanguages [[1, 2], [1]] [[1], [1], [1, 2]] = none := by decide

/-! ### 2. the reported word is genuine — languages given by two automata / an expression / two grammars -/

/-- `check_dfa_language_from_file`: the reported word is at most `len` long, accepted by exactly one of the two parsed
    DFAs (answer only: "should not be accepted"; reference only: "should be accepted"), of minimal length among such
    words, and "should be accepted" is only reported when the answer accepts no word outside the reference language -/
theorem dfa_language_file_cex_genuine (answer refText : String) (len : Nat) (w : List String) (b : Bool)
    (h : CheckCex.report (CheckCex.dfaLanguageFileLangs answer refText len) = some (w, b)) :
    ∃ A D, Parse.parseDfa answer.toList = .ok A ∧ Parse.parseDfa refText.toList = .ok D ∧
      A.valid = true ∧ D.valid = true ∧ w.length ≤ len ∧
      (b = true → A.Accepts w ∧ ¬ D.Accepts w ∧
        ∀ v, v.length ≤ len → A.Accepts v → ¬ D.Accepts v → w.length ≤ v.length) ∧
      (b = false → D.Accepts w ∧ ¬ A.Accepts w ∧
        (∀ v, v.length ≤ len → D.Accepts v → ¬ A.Accepts v → w.length ≤ v.length) ∧
        ∀ v, v.length ≤ len → A.Accepts v → D.Accepts v) := by
  obtain ⟨A1, A2, hP, hc⟩ := C12g.report_some h
  obtain ⟨A, D, h1, h2, rfl, rfl⟩ := C12g.dfaLanguageFileLangs_some hP
  have vA := (parseDfa_ok_valid_gen _ _ A h1).1
  have vD := (parseDfa_ok_valid_gen _ _ D h2).1
  exact ⟨A, D, h1, h2, vA, vD, C12g.genuine_of_compare (C12g.dfa_words_iff vA len) (C12g.dfa_words_iff vD len) hc⟩

-- reference: words ending in `a`.  Answer "words containing an `a`": `ab` is accepted by the answer only
example : CheckCex.report (CheckCex.dfaLanguageFileLangs "initial p\nfinal q\np q a\np p b\nq q a b"
    "initial p\nfinal q\np q a\np p b\nq q a\nq p b" 3) = some (["a", "b"], true) := by decide +kernel
-- answer "words ending in `aa`": nothing extra, the shortest missing word is `a`
example : CheckCex.report (CheckCex.dfaLanguageFileLangs
    "initial p\nfinal r\np q a\np p b\nq r a\nq p b\nr r a\nr p b"
    "initial p\nfinal q\np q a\np p b\nq q a\nq p b" 3) = some (["a"], false) := by decide +kernel

/-- `check_dfa2regexp`: answer = the parsed expression, reference = the parsed DFA -/
theorem dfa2regexp_cex_genuine (dfa answer : String) (len : Nat) (w : List String) (b : Bool)
    (h : CheckCex.report (CheckCex.dfa2regexpLangs dfa answer len) = some (w, b)) :
    ∃ D r, Parse.parseDfa dfa.toList = .ok D ∧ RegexpText.parseSimple answer = some r ∧ D.valid = true ∧
      w.length ≤ len ∧
      (b = true → r.Lang w ∧ ¬ D.Accepts w ∧
        ∀ v, v.length ≤ len → r.Lang v → ¬ D.Accepts v → w.length ≤ v.length) ∧
      (b = false → D.Accepts w ∧ ¬ r.Lang w ∧
        (∀ v, v.length ≤ len → D.Accepts v → ¬ r.Lang v → w.length ≤ v.length) ∧
        ∀ v, v.length ≤ len → r.Lang v → D.Accepts v) := by
  obtain ⟨A1, A2, hP, hc⟩ := C12g.report_some h
  obtain ⟨D, r, h1, h2, rfl, rfl⟩ := C12g.dfa2regexpLangs_some hP
  have vD := (parseDfa_ok_valid_gen _ _ D h1).1
  exact ⟨D, r, h1, h2, vD, C12g.genuine_of_compare (regexp_words_exact r len) (C12g.dfa_words_iff vD len) hc⟩

-- words ending in `a`; `(a+b)*` also matches ε; `(a+b)*a+c` matches `c`, a word the DFA cannot read; `a` misses `aa`
example : CheckCex.report (CheckCex.dfa2regexpLangs "initial p\nfinal q\np q a\np p b\nq q a\nq p b" "(a+b)*" 2)
    = some ([], true) := by decide +kernel
example : CheckCex.report (CheckCex.dfa2regexpLangs "initial p\nfinal q\np q a\np p b\nq q a\nq p b" "(a+b)*a+c" 2)
    = some (["c"], true) := by decide +kernel
example : CheckCex.report (CheckCex.dfa2regexpLangs "initial p\nfinal q\np q a\np p b\nq q a\nq p b" "a" 2)
    = some (["a", "a"], false) := by decide +kernel

/-- `cfg_check_chomsky`: answer = the second grammar text, reference = the first.  Unconditionally the reported word is
    in exactly one of the two ENUMERATIONS `cfg_words_up_to_n`; the passage to the languages needs for each grammar that it
    is in Chomsky normal form or that no terminal is a variable name (as in `chomsky_text_lang`, `cfgLanguageWords_text_sound`) -/
theorem chomsky_cex_genuine (cfg answer : String) (len : Nat) (w : List String) (b : Bool)
    (h : CheckCex.report (CheckCex.chomskyLangs cfg answer len) = some (w, b)) :
    ∃ G eps G1 eps1, CfgText.parseSimpleCfg cfg.toList = .ok (G, eps) ∧
      CfgText.parseSimpleCfg answer.toList = .ok (G1, eps1) ∧ G.valid = true ∧ G1.valid = true ∧
      (b = true → w ∈ G1.wordsUpTo len ∧ w ∉ G.wordsUpTo len) ∧
      (b = false → w ∈ G.wordsUpTo len ∧ w ∉ G1.wordsUpTo len) ∧
      ((G.isChomsky = true ∨ ∀ a, a ∈ G.Sigma → a ∉ G.V ∧ a ≠ CFG.freshVariable G.V "S") →
       (G1.isChomsky = true ∨ ∀ a, a ∈ G1.Sigma → a ∉ G1.V ∧ a ≠ CFG.freshVariable G1.V "S") →
        w.length ≤ len ∧
        (b = true → G1.Lang w ∧ ¬ G.Lang w ∧
          ∀ v, v.length ≤ len → G1.Lang v → ¬ G.Lang v → w.length ≤ v.length) ∧
        (b = false → G.Lang w ∧ ¬ G1.Lang w ∧
          (∀ v, v.length ≤ len → G.Lang v → ¬ G1.Lang v → w.length ≤ v.length) ∧
          ∀ v, v.length ≤ len → G1.Lang v → G.Lang v)) := by
  obtain ⟨A1, A2, hP, hc⟩ := C12g.report_some h
  obtain ⟨G, eps, G1, eps1, h1, h2, rfl, rfl⟩ := C12g.chomskyLangs_some hP
  obtain ⟨v, sv, al⟩ := parseSimpleCfg_ok_valid _ G eps h1
  obtain ⟨v1, sv1, al1⟩ := parseSimpleCfg_ok_valid _ G1 eps1 h2
  refine ⟨G, eps, G1, eps1, h1, h2, v, v1, ?_, ?_, ?_⟩
  · rintro rfl
    exact ⟨(compare_extra _ _ _ hc).1, (compare_extra _ _ _ hc).2.1⟩
  · rintro rfl
    exact ⟨(compare_missing _ _ _ hc).1, (compare_missing _ _ _ hc).2.1⟩
  · intro hs hs1
    exact C12g.genuine_of_compare (C12f.cfg_words_exact_side v1 sv1 al1 hs1 len) (C12f.cfg_words_exact_side v sv al hs len) hc

-- S → AB | a, A → a, B → b (language {ab, a}); the answer drops `S → a` / adds `S → b`
example : CheckCex.report (CheckCex.chomskyLangs "S -> AB | a\nA -> a\nB -> b" "S -> XB\nX -> a\nB -> b" 3)
    = some (["a"], false) := by decide +kernel
example : CheckCex.report (CheckCex.chomskyLangs "S -> AB | a\nA -> a\nB -> b" "S -> XB | a | b\nX -> a\nB -> b" 3)
    = some (["b"], true) := by decide +kernel

/-- `check_nfa_language_from_file`, for every pop order `s` of the ε-closure worklists -/
theorem nfa_language_file_cex_genuine (answer refText : String) (s : Sched) (len : Nat) (w : List String) (b : Bool)
    (h : CheckCex.report (CheckCex.nfaLanguageFileLangs answer refText s len) = some (w, b)) :
    ∃ A N, Parse.parseNfa answer.toList = .ok A ∧ Parse.parseNfa refText.toList = .ok N ∧
      A.valid = true ∧ N.valid = true ∧ w.length ≤ len ∧
      (b = true → A.Accepts w ∧ ¬ N.Accepts w ∧
        ∀ v, v.length ≤ len → A.Accepts v → ¬ N.Accepts v → w.length ≤ v.length) ∧
      (b = false → N.Accepts w ∧ ¬ A.Accepts w ∧
        (∀ v, v.length ≤ len → N.Accepts v → ¬ A.Accepts v → w.length ≤ v.length) ∧
        ∀ v, v.length ≤ len → A.Accepts v → N.Accepts v) := by
  obtain ⟨A1, A2, hP, hc⟩ := C12g.report_some h
  obtain ⟨A, N, h1, h2, h3, h4⟩ := C12g.nfaLanguageFileLangs_some hP
  have vA := (parseNfa_ok_valid_gen _ _ A h1).1
  have vN := (parseNfa_ok_valid_gen _ _ N h2).1
  exact ⟨A, N, h1, h2, vA, vN, C12g.genuine_of_compare (C12g.nfa_words_iff vA h3) (C12g.nfa_words_iff vN h4) hc⟩

-- reference {ε, x}; the answer accepts `x` only / accepts `xx` as well
example : CheckCex.report (CheckCex.nfaLanguageFileLangs "initial s\nfinal t\ns t x" "initial A\nfinal B\nA B x ε" [] 3)
    = some ([], false) := by rfl
example : CheckCex.report (CheckCex.nfaLanguageFileLangs "initial s\nfinal s t u\ns t x\nt u x"
    "initial A\nfinal B\nA B x ε" [3, 1, 2] 3) = some (["x", "x"], true) := by rfl

/-- `check_dfa_reverse`: the answer is an NFA, the expected language the mirror image of the DFA's language -/
theorem reverse_cex_genuine (dfa answer : String) (s : Sched) (len : Nat) (w : List String) (b : Bool)
    (h : CheckCex.report (CheckCex.reverseLangs dfa answer s len) = some (w, b)) :
    ∃ D A, Parse.parseDfa dfa.toList = .ok D ∧ Parse.parseNfa answer.toList = .ok A ∧
      D.valid = true ∧ A.valid = true ∧ w.length ≤ len ∧
      (b = true → A.Accepts w ∧ ¬ D.Accepts w.reverse ∧
        ∀ v, v.length ≤ len → A.Accepts v → ¬ D.Accepts v.reverse → w.length ≤ v.length) ∧
      (b = false → D.Accepts w.reverse ∧ ¬ A.Accepts w ∧
        (∀ v, v.length ≤ len → D.Accepts v.reverse → ¬ A.Accepts v → w.length ≤ v.length) ∧
        ∀ v, v.length ≤ len → A.Accepts v → D.Accepts v.reverse) := by
  obtain ⟨A1, A2, hP, hc⟩ := C12g.report_some h
  obtain ⟨D, A, h1, h2, h3, rfl⟩ := C12g.reverseLangs_some hP
  have vD := (parseDfa_ok_valid_gen _ _ D h1).1
  have vA := (parseNfa_ok_valid_gen _ _ A h2).1
  exact ⟨D, A, h1, h2, vD, vA,
    C12g.genuine_of_compare (P2 := fun w => D.Accepts w.reverse) (C12g.nfa_words_iff vA h3)
      (C12g.reverse_words_iff vD len) hc⟩

-- `D`: `p -a-> q`, `p -b-> p`, `q` absorbing and final: the words containing an `a`
-- the reversed loop `p -b-> p` is missing in the answer: `ab` (mirror image `ba` is accepted by `D`) should be accepted
example : CheckCex.report (CheckCex.reverseLangs "initial p\nfinal q\np q a\np p b\nq q a b"
    "initial s\nfinal p\ns q ε\nq p a\nq q a b" [] 3) = some (["a", "b"], false) := by rfl
-- the answer also accepts in `q`, which it reaches by `s -ε-> q`: ε (not accepted by `D`) should not be accepted
example : CheckCex.report (CheckCex.reverseLangs "initial p\nfinal q\np q a\np p b\nq q a b"
    "initial s\nfinal p q\ns q ε\nq p a\np p b\nq q a b" [] 3) = some ([], true) := by rfl

/-- `check_dfa_minimal`: the code compares with the quotient automaton, which has the language of the given DFA (C04b):
    the statement is about the given DFA itself -/
theorem minimal_cex_genuine (dfa answer : String) (len : Nat) (w : List String) (b : Bool)
    (h : CheckCex.report (CheckCex.minimalLangs dfa answer len) = some (w, b)) :
    ∃ D A, Parse.parseDfa dfa.toList = .ok D ∧ Parse.parseDfa answer.toList CheckText.wordOrSetStateOk = .ok A ∧
      D.valid = true ∧ A.valid = true ∧ w.length ≤ len ∧
      (b = true → A.Accepts w ∧ ¬ D.Accepts w ∧
        ∀ v, v.length ≤ len → A.Accepts v → ¬ D.Accepts v → w.length ≤ v.length) ∧
      (b = false → D.Accepts w ∧ ¬ A.Accepts w ∧
        (∀ v, v.length ≤ len → D.Accepts v → ¬ A.Accepts v → w.length ≤ v.length) ∧
        ∀ v, v.length ≤ len → A.Accepts v → D.Accepts v) := by
  obtain ⟨A1, A2, hP, hc⟩ := C12g.report_some h
  obtain ⟨D, A, M, h1, h2, h3, rfl, rfl⟩ := C12g.minimalLangs_some hP
  obtain ⟨vD, nD, _, _⟩ := parseDfa_ok_valid_gen _ _ D h1
  have vA := (parseDfa_ok_valid_gen _ _ A h2).1
  obtain ⟨vM, hML⟩ := C12g.quotient_lang vD nD h3
  refine ⟨D, A, h1, h2, vD, vA, C12g.genuine_of_compare (C12g.dfa_words_iff vA len) (fun u => ?_) hc⟩
  rw [C12g.dfa_words_iff vM len u, hML u]

-- the 4-state DFA of C04b (accepts after two steps through `1`/`2` into the absorbing `3`); an answer that merges too
-- much (`{1,2}` accepting): `a` should not be accepted
example : CheckCex.report (CheckCex.minimalLangs "initial 0\nfinal 3\n0 1 a\n0 2 b\n1 3 a\n1 0 b\n2 3 a\n2 0 b\n3 3 a b"
    "initial {0}\nfinal {3} {1,2}\n{0} {1,2} a b\n{1,2} {3} a\n{1,2} {0} b\n{3} {3} a b" 3) = some (["a"], true) := by
  decide +kernel
-- an answer with no accepting state: the shortest accepted word of the DFA has length 2
example : CheckCex.report (CheckCex.minimalLangs "initial 0\nfinal 3\n0 1 a\n0 2 b\n1 3 a\n1 0 b\n2 3 a\n2 0 b\n3 3 a b"
    "initial {0}\n{0} {1,2} a b\n{1,2} {3} a\n{1,2} {0} b\n{3} {3} a b" 3) = some (["a", "a"], false) := by
  decide +kernel

open Classical in
/-- `check_dfa_union / _intersection / _symmetric_difference`: the expected language is the union / intersection /
    symmetric difference (`t.accept`) of the languages of the two given DFAs -/
theorem product_cex_genuine (t : ProductType) (answer dfa1 dfa2 : String) (len : Nat) (w : List String) (b : Bool)
    (h : CheckCex.report (CheckCex.productLangs t answer dfa1 dfa2 len) = some (w, b)) :
    ∃ D1 D2 A, Parse.parseDfa dfa1.toList = .ok D1 ∧ Parse.parseDfa dfa2.toList = .ok D2 ∧
      Parse.parseDfa answer.toList CheckText.productStateOk = .ok A ∧
      D1.valid = true ∧ D2.valid = true ∧ A.valid = true ∧ (∀ a, a ∈ D1.Sigma ↔ a ∈ D2.Sigma) ∧ w.length ≤ len ∧
      (b = true → A.Accepts w ∧ ¬ t.accept (decide (D1.Accepts w)) (decide (D2.Accepts w)) = true ∧
        ∀ v, v.length ≤ len → A.Accepts v → ¬ t.accept (decide (D1.Accepts v)) (decide (D2.Accepts v)) = true →
          w.length ≤ v.length) ∧
      (b = false → t.accept (decide (D1.Accepts w)) (decide (D2.Accepts w)) = true ∧ ¬ A.Accepts w ∧
        (∀ v, v.length ≤ len → t.accept (decide (D1.Accepts v)) (decide (D2.Accepts v)) = true → ¬ A.Accepts v →
          w.length ≤ v.length) ∧
        ∀ v, v.length ≤ len → A.Accepts v → t.accept (decide (D1.Accepts v)) (decide (D2.Accepts v)) = true) := by
  obtain ⟨A1, A2, hP, hc⟩ := C12g.report_some h
  obtain ⟨D1, D2, A, h1, h2, h3, hS, rfl, rfl⟩ := C12g.productLangs_some hP
  have v1 := (parseDfa_ok_valid_gen _ _ D1 h1).1
  have v2 := (parseDfa_ok_valid_gen _ _ D2 h2).1
  have vA := (parseDfa_ok_valid_gen _ _ A h3).1
  exact ⟨D1, D2, A, h1, h2, h3, v1, v2, vA, hS,
    C12g.genuine_of_compare
      (P2 := fun w => t.accept (decide (D1.Accepts w)) (decide (D2.Accepts w)) = true)
      (C12g.dfa_words_iff vA len) (C12g.product_words_iff v1 v2 t len) hc⟩

/-- … spelled out for the union: a "should not be accepted" word is accepted by the answer and by neither given DFA, a
    "should be accepted" word by one of the two given DFAs and not by the answer -/
theorem product_cex_genuine_union (answer dfa1 dfa2 : String) (len : Nat) (w : List String) (b : Bool)
    (h : CheckCex.report (CheckCex.productLangs .union answer dfa1 dfa2 len) = some (w, b)) :
    ∃ D1 D2 A, Parse.parseDfa dfa1.toList = .ok D1 ∧ Parse.parseDfa dfa2.toList = .ok D2 ∧
      Parse.parseDfa answer.toList CheckText.productStateOk = .ok A ∧ w.length ≤ len ∧
      (b = true → A.Accepts w ∧ ¬ D1.Accepts w ∧ ¬ D2.Accepts w) ∧
      (b = false → (D1.Accepts w ∨ D2.Accepts w) ∧ ¬ A.Accepts w) := by
  obtain ⟨D1, D2, A, h1, h2, h3, _, _, _, _, hl, ht, hf⟩ := product_cex_genuine .union answer dfa1 dfa2 len w b h
  refine ⟨D1, D2, A, h1, h2, h3, hl, fun hb => ?_, fun hb => ?_⟩
  · obtain ⟨a1, a2, _⟩ := ht hb
    simp only [ProductType.accept, Bool.or_eq_true, decide_eq_true_eq, not_or] at a2
    exact ⟨a1, a2.1, a2.2⟩
  · obtain ⟨a1, a2, _⟩ := hf hb
    simp only [ProductType.accept, Bool.or_eq_true, decide_eq_true_eq] at a1
    exact ⟨a1, a2⟩

-- `D1`: words ending in `a`; `D2`: words of even length.  The intersection automaton handed in for the union exercise:
-- ε (even length) should be accepted
example : CheckCex.report (CheckCex.productLangs .union
    "initial (p,e)\nfinal (q,e)\n(p,e) (q,o) a\n(p,e) (p,o) b\n(p,o) (q,e) a\n(p,o) (p,e) b\n(q,e) (q,o) a\n(q,e) (p,o) b\n(q,o) (q,e) a\n(q,o) (p,e) b"
    "initial p\nfinal q\np q a\np p b\nq q a\nq p b" "initial e\nfinal e\ne o a b\no e a b" 3) = some ([], false) := by
  decide +kernel
-- every state accepting: `b` (odd length, does not end in `a`) should not be accepted
example : CheckCex.report (CheckCex.productLangs .union
    "initial (p,e)\nfinal (q,o) (q,e) (p,e) (p,o)\n(p,e) (q,o) a\n(p,e) (p,o) b\n(p,o) (q,e) a\n(p,o) (p,e) b\n(q,e) (q,o) a\n(q,e) (p,o) b\n(q,o) (q,e) a\n(q,o) (p,e) b"
    "initial p\nfinal q\np q a\np p b\nq q a\nq p b" "initial e\nfinal e\ne o a b\no e a b" 3) = some (["b"], true) := by
  decide +kernel
-- the union automaton handed in for the intersection exercise: ε should not be accepted
example : CheckCex.report (CheckCex.productLangs .intersection
    "initial (p,e)\nfinal (q,o) (q,e) (p,e)\n(p,e) (q,o) a\n(p,e) (p,o) b\n(p,o) (q,e) a\n(p,o) (p,e) b\n(q,e) (q,o) a\n(q,e) (p,o) b\n(q,o) (q,e) a\n(q,o) (p,e) b"
    "initial p\nfinal q\np q a\np p b\nq q a\nq p b" "initial e\nfinal e\ne o a b\no e a b" 3) = some ([], true) := by
  decide +kernel

/-! ### 2'. the reported word is genuine — the expected language is a word list
    The list may contain words longer than `len` (or over a foreign alphabet); the enumeration of the answer never does.  A
    listed word is "missing" when it is longer than `len` OR not accepted: this is the difference of the two sets the code
    computes (a listed word longer than the bound is reported as "should be accepted" even if the answer accepts it). -/

/-- `check_dfa_language_from_words` -/
theorem dfa_language_words_cex_genuine (answer wordList : String) (len : Nat) (w : List String) (b : Bool)
    (h : CheckCex.report (CheckCex.dfaLanguageWordsLangs answer wordList len) = some (w, b)) :
    ∃ A, Parse.parseDfa answer.toList = .ok A ∧ A.valid = true ∧
      (b = true → w.length ≤ len ∧ A.Accepts w ∧ w ∉ CheckText.parseWordList wordList ∧
        ∀ v, v.length ≤ len → A.Accepts v → v ∉ CheckText.parseWordList wordList → w.length ≤ v.length) ∧
      (b = false → w ∈ CheckText.parseWordList wordList ∧ (len < w.length ∨ ¬ A.Accepts w) ∧
        (∀ v, v ∈ CheckText.parseWordList wordList → (len < v.length ∨ ¬ A.Accepts v) → w.length ≤ v.length) ∧
        ∀ v, v.length ≤ len → A.Accepts v → v ∈ CheckText.parseWordList wordList) := by
  obtain ⟨A1, A2, hP, hc⟩ := C12g.report_some h
  obtain ⟨A, h1, rfl, rfl⟩ := C12g.dfaLanguageWordsLangs_some hP
  have vA := (parseDfa_ok_valid_gen _ _ A h1).1
  exact ⟨A, h1, vA, C12g.genuine_of_compare_list (C12g.dfa_words_iff vA len) hc⟩

-- words ending in `a`, bound 2: `ba` is accepted but not listed; `b` is listed but not accepted; the accepted word `aba`
-- is listed but longer than the bound
example : CheckCex.report (CheckCex.dfaLanguageWordsLangs "initial p\nfinal q\np q a\np p b\nq q a\nq p b" "a aa" 2)
    = some (["b", "a"], true) := by decide +kernel
example : CheckCex.report (CheckCex.dfaLanguageWordsLangs "initial p\nfinal q\np q a\np p b\nq q a\nq p b" "a aa ba b" 2)
    = some (["b"], false) := by decide +kernel
example : CheckCex.report (CheckCex.dfaLanguageWordsLangs "initial p\nfinal q\np q a\np p b\nq q a\nq p b" "a aa ba aba" 2)
    = some (["a", "b", "a"], false) := by decide +kernel

/-- `check_nfa_language_from_words`, for every pop order -/
theorem nfa_language_words_cex_genuine (answer wordList : String) (s : Sched) (len : Nat) (w : List String) (b : Bool)
    (h : CheckCex.report (CheckCex.nfaLanguageWordsLangs answer wordList s len) = some (w, b)) :
    ∃ A, Parse.parseNfa answer.toList = .ok A ∧ A.valid = true ∧
      (b = true → w.length ≤ len ∧ A.Accepts w ∧ w ∉ CheckText.parseWordList wordList ∧
        ∀ v, v.length ≤ len → A.Accepts v → v ∉ CheckText.parseWordList wordList → w.length ≤ v.length) ∧
      (b = false → w ∈ CheckText.parseWordList wordList ∧ (len < w.length ∨ ¬ A.Accepts w) ∧
        (∀ v, v ∈ CheckText.parseWordList wordList → (len < v.length ∨ ¬ A.Accepts v) → w.length ≤ v.length) ∧
        ∀ v, v.length ≤ len → A.Accepts v → v ∈ CheckText.parseWordList wordList) := by
  obtain ⟨A1, A2, hP, hc⟩ := C12g.report_some h
  obtain ⟨A, h1, h2, rfl⟩ := C12g.nfaLanguageWordsLangs_some hP
  have vA := (parseNfa_ok_valid_gen _ _ A h1).1
  exact ⟨A, h1, vA, C12g.genuine_of_compare_list (C12g.nfa_words_iff vA h2) hc⟩

-- language {ε, x}: ε accepted but not listed / `xx` listed but not accepted
example : CheckCex.report (CheckCex.nfaLanguageWordsLangs "initial A\nfinal B\nA B x ε" "x" [] 3) = some ([], true) := by rfl
example : CheckCex.report (CheckCex.nfaLanguageWordsLangs "initial A\nfinal B\nA B x ε" "x ε xx" [3, 1, 2] 3)
    = some (["x", "x"], false) := by rfl

/-- `check_cfg_language_from_words`: unconditionally in terms of the enumeration `cfg_words_up_to_n`; in terms of the
    language when the parsed grammar is in Chomsky normal form or none of its terminals is a variable name -/
theorem cfg_language_words_cex_genuine (answer wordList : String) (len : Nat) (w : List String) (b : Bool)
    (h : CheckCex.report (CheckCex.cfgLanguageWordsLangs answer wordList len) = some (w, b)) :
    ∃ G e, CfgText.parseSimpleCfg answer.toList = .ok (G, e) ∧ G.valid = true ∧
      (b = true → w ∈ G.wordsUpTo len ∧ w ∉ CheckText.parseWordList wordList) ∧
      (b = false → w ∈ CheckText.parseWordList wordList ∧ w ∉ G.wordsUpTo len) ∧
      ((G.isChomsky = true ∨ ∀ a, a ∈ G.Sigma → a ∉ G.V ∧ a ≠ CFG.freshVariable G.V "S") →
        (b = true → w.length ≤ len ∧ G.Lang w ∧ w ∉ CheckText.parseWordList wordList ∧
          ∀ v, v.length ≤ len → G.Lang v → v ∉ CheckText.parseWordList wordList → w.length ≤ v.length) ∧
        (b = false → w ∈ CheckText.parseWordList wordList ∧ (len < w.length ∨ ¬ G.Lang w) ∧
          (∀ v, v ∈ CheckText.parseWordList wordList → (len < v.length ∨ ¬ G.Lang v) → w.length ≤ v.length) ∧
          ∀ v, v.length ≤ len → G.Lang v → v ∈ CheckText.parseWordList wordList)) := by
  obtain ⟨A1, A2, hP, hc⟩ := C12g.report_some h
  obtain ⟨G, e, h1, rfl, rfl⟩ := C12g.cfgLanguageWordsLangs_some hP
  obtain ⟨v, sv, al⟩ := parseSimpleCfg_ok_valid _ G e h1
  refine ⟨G, e, h1, v, ?_, ?_, ?_⟩
  · rintro rfl
    exact ⟨(compare_extra _ _ _ hc).1, (compare_extra _ _ _ hc).2.1⟩
  · rintro rfl
    exact ⟨(compare_missing _ _ _ hc).1, (compare_missing _ _ _ hc).2.1⟩
  · intro hs
    exact C12g.genuine_of_compare_list (C12f.cfg_words_exact_side v sv al hs len) hc

-- `{aⁿbⁿ}`, bound 4: `aabb` generated but not listed / `ba` listed but not generated / `aaabbb` listed, too long
example : CheckCex.report (CheckCex.cfgLanguageWordsLangs "S -> aSb | ε" "ε ab" 4) = some (["a", "a", "b", "b"], true) := by
  decide +kernel
example : CheckCex.report (CheckCex.cfgLanguageWordsLangs "S -> aSb | ε" "ε ab aabb ba" 4) = some (["b", "a"], false) := by
  decide +kernel
example : CheckCex.report (CheckCex.cfgLanguageWordsLangs "S -> aSb | ε" "ε ab aabb aaabbb" 4)
    = some (["a", "a", "a", "b", "b", "b"], false) := by decide +kernel

/-! ### 3. `check_*_accepts_rejects`: the offending word that is printed -/

/-- `check_dfa_accepts_rejects`: a "should be accepted" word is on the first list, over the alphabet and NOT accepted by the
    parsed DFA; a "should not be accepted" word is on the second list and accepted (and is only reported when every word
    of the first list is accepted) -/
theorem dfa_accepts_rejects_report_genuine (dfa accepted rejected : String) (w : List String) (b : Bool)
    (h : CheckCex.dfaAcceptsRejectsReport dfa accepted rejected = some (w, b)) :
    ∃ D, Parse.parseDfa dfa.toList = .ok D ∧ D.valid = true ∧
      (b = false → w ∈ CheckText.parseWordList accepted ∧ (∀ a, a ∈ w → a ∈ D.Sigma) ∧ ¬ D.Accepts w) ∧
      (b = true → w ∈ CheckText.parseWordList rejected ∧ D.Accepts w ∧
        ∀ v, v ∈ CheckText.parseWordList accepted → D.Accepts v) := by
  obtain ⟨D, h1, hr⟩ := C12g.dfaAcceptsRejectsReport_some h
  have vD := (parseDfa_ok_valid_gen _ _ D h1).1
  obtain ⟨hf, ht⟩ := C12g.acceptsRejectsReport_some hr
  refine ⟨D, h1, vD, fun hb => ?_, fun hb => ?_⟩
  · obtain ⟨hm, hacc⟩ := hf hb
    obtain ⟨ho, hiff⟩ := (C12e.dfa_accepts_ok_iff vD w false).mp hacc
    exact ⟨hm, ho, fun ha => Bool.noConfusion (hiff.mpr ha)⟩
  · obtain ⟨hm, hacc, hall⟩ := ht hb
    refine ⟨hm, ((C12e.dfa_accepts_ok_iff vD w true).mp hacc).2.mp rfl, fun v hv => ?_⟩
    exact ((C12e.dfa_accepts_ok_iff vD v true).mp (hall v hv)).2.mp rfl

-- words ending in `a`: `ab` on the first list is rejected / `ba` on the second list is accepted
example : CheckCex.dfaAcceptsRejectsReport "initial p\nfinal q\np q a\np p b\nq q a\nq p b" "a ab" "b"
    = some (["a", "b"], false) := by decide +kernel
example : CheckCex.dfaAcceptsRejectsReport "initial p\nfinal q\np q a\np p b\nq q a\nq p b" "a" "b ba"
    = some (["b", "a"], true) := by decide +kernel

/-- `check_cfg_accepts_rejects`: unconditionally in terms of the membership test `CFG.accepts`, in terms of the language
    under the side condition of `cfgAcceptsRejects_text_sound` (or for a grammar in Chomsky normal form) -/
theorem cfg_accepts_rejects_report_genuine (cfg accepted rejected : String) (w : List String) (b : Bool)
    (h : CheckCex.cfgAcceptsRejectsReport cfg accepted rejected = some (w, b)) :
    ∃ G e, CfgText.parseSimpleCfg cfg.toList = .ok (G, e) ∧ G.valid = true ∧
      (b = false → w ∈ CheckText.parseWordList accepted ∧ G.accepts w = .ok false) ∧
      (b = true → w ∈ CheckText.parseWordList rejected ∧ G.accepts w = .ok true) ∧
      ((G.isChomsky = true ∨ ∀ a, a ∈ G.Sigma → a ∉ G.V ∧ a ≠ CFG.freshVariable G.V "S") →
        (b = false → w ∈ CheckText.parseWordList accepted ∧ ¬ G.Lang w) ∧
        (b = true → w ∈ CheckText.parseWordList rejected ∧ G.Lang w ∧
          ∀ v, v ∈ CheckText.parseWordList accepted → G.Lang v)) := by
  obtain ⟨G, e, h1, hr⟩ := C12g.cfgAcceptsRejectsReport_some h
  obtain ⟨v, sv, al⟩ := parseSimpleCfg_ok_valid _ G e h1
  obtain ⟨hf, ht⟩ := C12g.acceptsRejectsReport_some hr
  refine ⟨G, e, h1, v, hf, fun hb => ⟨(ht hb).1, (ht hb).2.1⟩, fun hs => ⟨fun hb => ?_, fun hb => ?_⟩⟩
  · obtain ⟨hm, hacc⟩ := hf hb
    exact ⟨hm, fun hl => Bool.noConfusion (((C12e.cfg_accepts_ok_iff v sv al hs w false).mp hacc).mpr hl)⟩
  · obtain ⟨hm, hacc, hall⟩ := ht hb
    refine ⟨hm, ((C12e.cfg_accepts_ok_iff v sv al hs w true).mp hacc).mp rfl, fun u hu => ?_⟩
    exact ((C12e.cfg_accepts_ok_iff v sv al hs u true).mp (hall u hu)).mp rfl

-- `{aⁿbⁿ}`: `aab` on the first list is not generated / `aabb` on the second list is generated
example : CheckCex.cfgAcceptsRejectsReport "S -> aSb | ε" "ab aab" "a" = some (["a", "a", "b"], false) := by decide +kernel
example : CheckCex.cfgAcceptsRejectsReport "S -> aSb | ε" "ab" "a aabb" = some (["a", "a", "b", "b"], true) := by
  decide +kernel

/-! ### 4. verdict `OK` ⇒ no word is reported -/

theorem product_ok_no_report (t : ProductType) (answer dfa1 dfa2 : String) (len : Nat)
    (h : CheckText.product t answer dfa1 dfa2 len = .ok) :
    CheckCex.report (CheckCex.productLangs t answer dfa1 dfa2 len) = none := by
  refine C12g.report_none_of fun A1 A2 hP => ?_
  obtain ⟨D1, D2, A, h1, h2, h3, hc⟩ := C12c.product_unpack h
  obtain ⟨D1', D2', A', h1', h2', h3', _, rfl, rfl⟩ := C12g.productLangs_some hP
  rw [h1] at h1'; rw [h2] at h2'; rw [h3] at h3'
  cases h1'; cases h2'; cases h3'
  exact C12g.productCheck_true_compare hc

example : CheckText.product .union
    "initial (p,e)\nfinal (q,o) (q,e) (p,e)\n(p,e) (q,o) a\n(p,e) (p,o) b\n(p,o) (q,e) a\n(p,o) (p,e) b\n(q,e) (q,o) a\n(q,e) (p,o) b\n(q,o) (q,e) a\n(q,o) (p,e) b"
    "initial p\nfinal q\np q a\np p b\nq q a\nq p b" "initial e\nfinal e\ne o a b\no e a b" 3 = .ok := by decide +kernel

theorem reverse_ok_no_report (dfa answer : String) (s : Sched) (len : Nat)
    (h : CheckText.reverse dfa answer s len = .ok) :
    CheckCex.report (CheckCex.reverseLangs dfa answer s len) = none := by
  refine C12g.report_none_of fun A1 A2 hP => ?_
  obtain ⟨D, A, h1, h2, hc⟩ := C12c.reverse_unpack h
  obtain ⟨D', A', h1', h2', h3, rfl⟩ := C12g.reverseLangs_some hP
  rw [h1] at h1'; rw [h2] at h2'
  cases h1'; cases h2'
  exact C12g.reverseCheck_true_compare hc h3

example : CheckText.reverse "initial p\nfinal q\np q a\np p b\nq q a b"
    "initial s\nfinal p\ns q ε\nq p a\np p b\nq q a b" [] 3 = .ok := by rfl

theorem minimal_ok_no_report (dfa answer : String) (len : Nat) (h : CheckText.minimal dfa answer len = .ok) :
    CheckCex.report (CheckCex.minimalLangs dfa answer len) = none := by
  refine C12g.report_none_of fun A1 A2 hP => ?_
  obtain ⟨D, A, h1, h2, hc⟩ := C12c.minimal_unpack h
  obtain ⟨D', A', M, h1', h2', h3, rfl, rfl⟩ := C12g.minimalLangs_some hP
  rw [h1] at h1'; rw [h2] at h2'
  cases h1'; cases h2'
  exact C12g.minimalCheck_true_compare hc h3

example : CheckText.minimal "initial 0\nfinal 3\n0 1 a\n0 2 b\n1 3 a\n1 0 b\n2 3 a\n2 0 b\n3 3 a b"
    "initial {0}\nfinal {3}\n{0} {1,2} a b\n{1,2} {3} a\n{1,2} {0} b\n{3} {3} a b" 4 = .ok := by rfl

theorem dfa2regexp_ok_no_report (dfa answer : String) (len : Nat) (h : CheckText.dfa2regexp dfa answer len = .ok) :
    CheckCex.report (CheckCex.dfa2regexpLangs dfa answer len) = none := by
  refine C12g.report_none_of fun A1 A2 hP => ?_
  obtain ⟨D, r, h1, h2, hc⟩ := C12c.dfa2regexp_unpack h
  obtain ⟨D', r', h1', h2', rfl, rfl⟩ := C12g.dfa2regexpLangs_some hP
  rw [h1] at h1'; rw [h2] at h2'
  cases h1'; cases h2'
  exact chk_equalLanguages_sound _ _ hc

example : CheckText.dfa2regexp "initial p\nfinal q\np q a\np p b\nq q a\nq p b" "(a+b)*a" 2 = .ok := by decide +kernel

theorem chomsky_ok_no_report (cfg answer : String) (phase : Nat) (start : String) (len : Nat)
    (h : CheckText.chomsky cfg answer phase start len = .ok) :
    CheckCex.report (CheckCex.chomskyLangs cfg answer len) = none := by
  refine C12g.report_none_of fun A1 A2 hP => ?_
  obtain ⟨G, eps, G1, eps1, h1, h2, hc⟩ := C12c.chomsky_unpack h
  obtain ⟨G', eps', G1', eps1', h1', h2', rfl, rfl⟩ := C12g.chomskyLangs_some hP
  rw [h1] at h1'; rw [h2] at h2'
  cases h1'; cases h2'
  exact C12g.chomskyCheck_true_compare hc

example : CheckText.chomsky "S -> AB | a\nA -> a\nB -> b" "S -> XB | a\nX -> a\nB -> b" 5 "S" 3 = .ok := by rfl

theorem dfa_language_file_ok_no_report (answer refText : String) (len : Nat)
    (h : CheckText.dfaLanguageFile answer refText len = .ok) :
    CheckCex.report (CheckCex.dfaLanguageFileLangs answer refText len) = none := by
  refine C12g.report_none_of fun A1 A2 hP => ?_
  obtain ⟨A, D, h1, h2, hc⟩ := C12d.dfaLanguageFile_unpack h
  obtain ⟨A', D', h1', h2', rfl, rfl⟩ := C12g.dfaLanguageFileLangs_some hP
  rw [h1] at h1'; rw [h2] at h2'
  cases h1'; cases h2'
  exact chk_equalLanguages_sound _ _ hc

example : CheckText.dfaLanguageFile "initial p\nfinal q r\np q a\np p b\nq r a\nq p b\nr q a\nr p b"
    "initial p\nfinal q\np q a\np p b\nq q a\nq p b" 3 = .ok := by decide +kernel

theorem nfa_language_file_ok_no_report (answer refText : String) (s : Sched) (len : Nat)
    (h : CheckText.nfaLanguageFile answer refText s len = .ok) :
    CheckCex.report (CheckCex.nfaLanguageFileLangs answer refText s len) = none := by
  refine C12g.report_none_of fun A1 A2 hP => ?_
  obtain ⟨A, N, L1, L2, h1, h2, h3, h4, hc⟩ := C12d.nfaLanguageFile_unpack h
  obtain ⟨A', N', h1', h2', h3', h4'⟩ := C12g.nfaLanguageFileLangs_some hP
  rw [h1] at h1'; rw [h2] at h2'
  cases h1'; cases h2'
  rw [h3] at h3'; rw [h4] at h4'
  cases h3'; cases h4'
  exact chk_equalLanguages_sound _ _ hc

example : CheckText.nfaLanguageFile "initial s\nfinal s t\ns t x" "initial A\nfinal B\nA B x ε" [3, 1, 2] 3 = .ok := by rfl

theorem dfa_language_words_ok_no_report (answer wordList : String) (len maxStates : Nat)
    (h : CheckText.dfaLanguageWords answer wordList len maxStates = .ok) :
    CheckCex.report (CheckCex.dfaLanguageWordsLangs answer wordList len) = none := by
  refine C12g.report_none_of fun A1 A2 hP => ?_
  obtain ⟨A, h1, _, _, hw⟩ := (dfaLanguageWords_text_verdicts _ _ _ _).mp h
  obtain ⟨A', h1', rfl, rfl⟩ := C12g.dfaLanguageWordsLangs_some hP
  rw [h1] at h1'
  cases h1'
  exact hw

example : CheckText.dfaLanguageWords "initial p\nfinal q\np q a\np p b\nq q a\nq p b" "ba a  aa\na" 2 2 = .ok := by
  decide +kernel

theorem nfa_language_words_ok_no_report (answer wordList : String) (s : Sched) (len maxStates : Nat)
    (h : CheckText.nfaLanguageWords answer wordList s len maxStates = .ok) :
    CheckCex.report (CheckCex.nfaLanguageWordsLangs answer wordList s len) = none := by
  refine C12g.report_none_of fun A1 A2 hP => ?_
  obtain ⟨A', h1', h2', rfl⟩ := C12g.nfaLanguageWordsLangs_some hP
  rcases C12f.nfaLanguageWords_cases answer wordList s len maxStates with ⟨e, he, _⟩ | ⟨A, L, hA, _, hL, _, hv⟩
  · rw [he] at h1'; cases h1'
  · rw [hA] at h1'
    cases h1'
    rw [hL] at h2'
    cases h2'
    rw [hv, ofBool_ok_iff, C12f.languageFromWords_iff] at h
    exact h.2

example : CheckText.nfaLanguageWords "initial A\nfinal B\nA B x ε" "x _" [3, 1, 2] 3 2 = .ok := by rfl

theorem cfg_language_words_ok_no_report (answer wordList : String) (len : Nat)
    (h : CheckText.cfgLanguageWords answer wordList len = .ok) :
    CheckCex.report (CheckCex.cfgLanguageWordsLangs answer wordList len) = none := by
  refine C12g.report_none_of fun A1 A2 hP => ?_
  obtain ⟨G, e, h1, _, _, _, hw⟩ := (cfgLanguageWords_text_verdicts _ _ _).mp h
  obtain ⟨G', e', h1', rfl, rfl⟩ := C12g.cfgLanguageWordsLangs_some hP
  rw [h1] at h1'
  cases h1'
  exact hw

example : CheckText.cfgLanguageWords "S -> aSb | ε" "ε ab aabb" 4 = .ok := by decide +kernel

theorem dfa_accepts_rejects_ok_no_report (dfa accepted rejected : String)
    (h : CheckText.dfaAcceptsRejects dfa accepted rejected = .ok) :
    CheckCex.dfaAcceptsRejectsReport dfa accepted rejected = none := by
  obtain ⟨D, h1, hc⟩ := C12e.dfaAcceptsRejects_unpack (by decide) h
  unfold CheckCex.dfaAcceptsRejectsReport
  rw [h1]
  exact C12g.acceptsRejectsReport_none_of_ok hc

example : CheckText.dfaAcceptsRejects "initial p\nfinal q\np q a\np p b\nq q a\nq p b" "a ba aa" "ε b ab" = .ok := by
  decide +kernel

theorem cfg_accepts_rejects_ok_no_report (cfg accepted rejected : String)
    (h : CheckText.cfgAcceptsRejects cfg accepted rejected = .ok) :
    CheckCex.cfgAcceptsRejectsReport cfg accepted rejected = none := by
  obtain ⟨G, e, h1, hc⟩ := C12e.cfgAcceptsRejects_unpack (by decide) h
  unfold CheckCex.cfgAcceptsRejectsReport
  rw [h1]
  exact C12g.acceptsRejectsReport_none_of_ok hc

example : CheckText.cfgAcceptsRejects "S -> aSb | ε" "ε ab aabb" "a ba abb" = .ok := by decide +kernel

#print axioms compare_order_independent
#print axioms compare_order_independent_none
#print axioms dfa_language_file_cex_genuine
#print axioms dfa2regexp_cex_genuine
#print axioms chomsky_cex_genuine
#print axioms nfa_language_file_cex_genuine
#print axioms reverse_cex_genuine
#print axioms minimal_cex_genuine
#print axioms product_cex_genuine
#print axioms product_cex_genuine_union
#print axioms dfa_language_words_cex_genuine
#print axioms nfa_language_words_cex_genuine
#print axioms cfg_language_words_cex_genuine
#print axioms dfa_accepts_rejects_report_genuine
#print axioms cfg_accepts_rejects_report_genuine
#print axioms product_ok_no_report
#print axioms reverse_ok_no_report
#print axioms minimal_ok_no_report
#print axioms dfa2regexp_ok_no_report
#print axioms chomsky_ok_no_report
#print axioms dfa_language_file_ok_no_report
#print axioms nfa_language_file_ok_no_report
#print axioms dfa_language_words_ok_no_report
#print axioms nfa_language_words_ok_no_report
#print axioms cfg_language_words_ok_no_report
#print axioms dfa_accepts_rejects_ok_no_report
#print axioms cfg_accepts_rejects_ok_no_report

end Gamba
