/-
  Gamba.Props.C08c — phases 4 (`binarise`) and 5 (`isolateTerminals`) of the Chomsky-normal-form
  conversion: structure, invariants and language preservation; runs of fresh variables.
  Freshness of `freshVariable` (proved in `Gamba/Props/C08a.lean`) is an explicit hypothesis.

  Deviation from the requested statements: the language conjunct of both theorems is guarded by
  `G.S ∈ G.V` (`valid` does not check it, and a start symbol outside `V` can be captured by a
  "fresh" variable; counterexamples `c08cCexBin`, `c08cCexIso` below).
-/
import Gamba.Model.CFG
import Gamba.Spec.CFG
import Gamba.Proofs.CFGBasic
import Gamba.Proofs.C08c
namespace Gamba

/-- all variables introduced in one run are pairwise distinct and new -/
theorem freshVariables_distinct (hfresh : ∀ (V : List String) (hint : String), CFG.freshVariable V hint ∉ V)
    (V : List String) (hint : String) (n : Nat) :
    (CFG.freshVariables V hint n).1.Nodup ∧ (∀ A, A ∈ (CFG.freshVariables V hint n).1 → A ∉ V) ∧
    (∀ A, A ∈ (CFG.freshVariables V hint n).2 ↔ A ∈ V ∨ A ∈ (CFG.freshVariables V hint n).1) ∧
    (CFG.freshVariables V hint n).1.length = n :=
  CFG.C08c.freshVariables_spec hfresh hint n V

example : CFG.freshVariables ["S", "A"] "S" 3 = (["B", "C", "D"], ["S", "A", "B", "C", "D"]) := by decide

/-- phase 4: splitting long right-hand sides into chains of fresh variables -/
theorem binarise_spec (hfresh : ∀ (V : List String) (hint : String), CFG.freshVariable V hint ∉ V)
    (G : CFG) (hv : G.valid = true) (ha : CFG.AliasOK G) :
    (G.binarise).valid = true ∧ (G.binarise).S = G.S ∧ (∀ A, A ∈ G.V → A ∈ (G.binarise).V) ∧
    CFG.RhsLe2 G.binarise ∧ CFG.AliasOK G.binarise ∧
    (CFG.NoUnit G → CFG.NoUnit G.binarise) ∧
    (CFG.NoEpsExceptStart G → CFG.NoEpsExceptStart G.binarise) ∧
    (G.S ∈ G.V → CFG.StartNotOnRhs G → CFG.StartNotOnRhs G.binarise) ∧
    (G.S ∈ G.V → ∀ w, (G.binarise).Lang w ↔ G.Lang w) := by
  obtain ⟨h, h2⟩ := CFG.C08c.binarise_inv hfresh hv ha
  exact ⟨h.valid, h.hS, h.hV, h2, h.alias, h.noUnit, h.noEps, h.start, h.lang⟩

/-- the grammar `S → aSbS | ab` -/
def c08cG : CFG := ⟨["S"], ["a", "b"],
  [⟨"S", 0, [.t "a", .v "S", .t "b", .v "S"]⟩, ⟨"S", 1, [.t "a", .t "b"]⟩], "S"⟩

example : c08cG.valid = true ∧ CFG.AliasOK c08cG ∧ CFG.NoUnit c08cG ∧ CFG.NoEpsExceptStart c08cG ∧ c08cG.S ∈ c08cG.V :=
  ⟨by decide, CFG.C08c.aliasOK_of_b (by decide), by decide, by decide, by decide⟩

example : c08cG.binarise.V = ["S", "A", "B"] ∧ c08cG.binarise.R =
    [⟨"S", 0, [.t "a", .v "A"]⟩, ⟨"S", 1, [.t "a", .t "b"]⟩,
     ⟨"A", 2, [.v "S", .v "B"]⟩, ⟨"B", 3, [.t "b", .v "S"]⟩] := by decide

/-- two rules sharing one `Alternative` (what `elimUnit` produces from `S → A`, `A → abc`) -/
def c08cAlias : CFG := ⟨["S", "A"], ["a", "b", "c"],
  [⟨"S", 1, [.t "a", .t "b", .t "c"]⟩, ⟨"A", 1, [.t "a", .t "b", .t "c"]⟩], "S"⟩

example : c08cAlias.valid = true ∧ CFG.AliasOK c08cAlias ∧ CFG.StartNotOnRhs c08cAlias ∧ c08cAlias.S ∈ c08cAlias.V :=
  ⟨by decide, CFG.C08c.aliasOK_of_b (by decide), by decide, by decide⟩

/-- both rules are rewritten by the first step, the second step does nothing -/
example : c08cAlias.binarise.V = ["S", "A", "B"] ∧ c08cAlias.binarise.R =
    [⟨"S", 1, [.t "a", .v "B"]⟩, ⟨"A", 1, [.t "a", .v "B"]⟩, ⟨"B", 2, [.t "b", .t "c"]⟩] := by decide

/-- counterexample to the unguarded language conjunct: the start symbol `S` is not in `V`, all of
    `A` … `R` are, so the "fresh" variable of the chain is `S` itself -/
def c08cCexBin : CFG := ⟨["A","B","C","D","E","F","G","H","I","J","K","L","M","N","O","P","Q","R"], ["a"],
  [⟨"A", 0, [.t "a", .t "a", .t "a"]⟩], "S"⟩

example : c08cCexBin.valid = true ∧ CFG.AliasOK c08cCexBin ∧ ¬ (∀ w, c08cCexBin.binarise.Lang w ↔ c08cCexBin.Lang w) := by
  refine ⟨by decide, CFG.C08c.aliasOK_of_b (by decide), ?_⟩
  intro h
  have hR : c08cCexBin.binarise.R = [⟨"A", 0, [.t "a", .v "S"]⟩, ⟨"S", 1, [.t "a", .t "a"]⟩] := by decide
  have hS : c08cCexBin.binarise.S = "S" := by decide
  have h1 : c08cCexBin.binarise.Lang ["a", "a"] := by
    unfold CFG.Lang
    rw [hS]
    refine CFG.gen_v_iff.mpr ⟨[.t "a", .t "a"], ⟨⟨"S", 1, [.t "a", .t "a"]⟩, ?_, rfl, rfl⟩, .t (.t .nil)⟩
    rw [hR]; simp
  obtain ⟨rhs, ⟨r, hr, hl, _⟩, _⟩ := CFG.gen_v_iff.mp ((h _).mp h1)
  simp only [c08cCexBin, List.mem_singleton] at hr
  subst hr
  revert hl; decide

/-- phase 5: one fresh variable per terminal occurring in a rule of length ≥ 2 -/
theorem isolateTerminals_spec (hfresh : ∀ (V : List String) (hint : String), CFG.freshVariable V hint ∉ V)
    (G : CFG) (hv : G.valid = true) (ha : CFG.AliasOK G) :
    (G.isolateTerminals).valid = true ∧ (G.isolateTerminals).S = G.S ∧ (∀ A, A ∈ G.V → A ∈ (G.isolateTerminals).V) ∧
    (CFG.RhsLe2 G → CFG.NoUnit G → CFG.AllCnfShaped G.isolateTerminals) ∧
    (CFG.NoEpsExceptStart G → CFG.NoEpsExceptStart G.isolateTerminals) ∧
    (G.S ∈ G.V → CFG.StartNotOnRhs G → CFG.StartNotOnRhs G.isolateTerminals) ∧
    (G.S ∈ G.V → ∀ w, (G.isolateTerminals).Lang w ↔ G.Lang w) := by
  obtain ⟨acc, h⟩ := CFG.C08c.isolateTerminals_char hfresh hv ha
  exact ⟨h.valid' hv, h.hS, h.V_mono, h.cnfShaped', h.noEps', h.startNotOnRhs', h.lang' hv⟩

/-- `c08cG.binarise`, written out -/
def c08cG2 : CFG := ⟨["S", "A", "B"], ["a", "b"],
  [⟨"S", 0, [.t "a", .v "A"]⟩, ⟨"S", 1, [.t "a", .t "b"]⟩,
   ⟨"A", 2, [.v "S", .v "B"]⟩, ⟨"B", 3, [.t "b", .v "S"]⟩], "S"⟩

example : c08cG2.valid = true ∧ CFG.AliasOK c08cG2 ∧ CFG.RhsLe2 c08cG2 ∧ CFG.NoUnit c08cG2 ∧
    CFG.NoEpsExceptStart c08cG2 ∧ c08cG2.S ∈ c08cG2.V :=
  ⟨by decide, CFG.C08c.aliasOK_of_b (by decide), by decide, by decide, by decide, by decide⟩

/-- (`isolateLoop` is defined by well-founded recursion and `String.map` does not reduce in the
    kernel, so `simp` unrolls the loop before `decide` finishes) -/
example : c08cG2.isolateTerminals.V = ["S", "A", "B", "C", "D"] ∧ c08cG2.isolateTerminals.R =
    [⟨"S", 0, [.v "C", .v "A"]⟩, ⟨"S", 1, [.v "C", .v "D"]⟩,
     ⟨"A", 2, [.v "S", .v "B"]⟩, ⟨"B", 3, [.v "D", .v "S"]⟩,
     ⟨"C", 4, [.t "a"]⟩, ⟨"D", 5, [.t "b"]⟩] := by
  have ha : CFG.upperAscii "a" = "A" := CFG.C08c.upperAscii_eq (by decide)
  have hb : CFG.upperAscii "b" = "B" := CFG.C08c.upperAscii_eq (by decide)
  have h1 : CFG.freshVariable ["S", "A", "B"] "A" = "C" := by decide
  have h2 : CFG.freshVariable ["S", "A", "B", "C"] "B" = "D" := by decide
  simp [CFG.isolateTerminals, c08cG2, CFG.isolateLoop, CFG.replaceSymbols, CFG.replaceSymbol, ha, hb, h1, h2]
  decide

/-- two rules sharing one `Alternative` of length 2: both are rewritten at the first visit -/
def c08cAlias2 : CFG := ⟨["S", "A"], ["a", "b"],
  [⟨"S", 1, [.t "a", .t "b"]⟩, ⟨"A", 1, [.t "a", .t "b"]⟩, ⟨"A", 2, [.t "a"]⟩], "S"⟩

example : c08cAlias2.valid = true ∧ CFG.AliasOK c08cAlias2 ∧ CFG.RhsLe2 c08cAlias2 ∧ CFG.NoUnit c08cAlias2 ∧
    CFG.NoEpsExceptStart c08cAlias2 ∧ c08cAlias2.S ∈ c08cAlias2.V ∧ CFG.StartNotOnRhs c08cAlias2 :=
  ⟨by decide, CFG.C08c.aliasOK_of_b (by decide), by decide, by decide, by decide, by decide, by decide⟩

example : c08cAlias2.isolateTerminals.V = ["S", "A", "B", "C"] ∧ c08cAlias2.isolateTerminals.R =
    [⟨"S", 1, [.v "B", .v "C"]⟩, ⟨"A", 1, [.v "B", .v "C"]⟩, ⟨"A", 2, [.t "a"]⟩,
     ⟨"B", 3, [.t "a"]⟩, ⟨"C", 4, [.t "b"]⟩] := by
  have ha : CFG.upperAscii "a" = "A" := CFG.C08c.upperAscii_eq (by decide)
  have hb : CFG.upperAscii "b" = "B" := CFG.C08c.upperAscii_eq (by decide)
  have h1 : CFG.freshVariable ["S", "A"] "A" = "B" := by decide
  have h2 : CFG.freshVariable ["S", "A", "B"] "B" = "C" := by decide
  simp [CFG.isolateTerminals, c08cAlias2, CFG.isolateLoop, CFG.replaceSymbols, CFG.replaceSymbol, ha, hb, h1, h2]
  decide

/-- counterexample to the unguarded language conjunct: `S ∉ V` and the variable allocated for
    the terminal `s` is `upperAscii "s" = "S"` -/
def c08cCexIso : CFG := ⟨["A"], ["s"], [⟨"A", 0, [.t "s", .t "s"]⟩], "S"⟩

example : c08cCexIso.valid = true ∧ CFG.AliasOK c08cCexIso ∧
    ¬ (∀ w, c08cCexIso.isolateTerminals.Lang w ↔ c08cCexIso.Lang w) := by
  refine ⟨by decide, CFG.C08c.aliasOK_of_b (by decide), ?_⟩
  intro h
  have hs : CFG.upperAscii "s" = "S" := CFG.C08c.upperAscii_eq (by decide)
  have h1 : CFG.freshVariable ["A"] "S" = "S" := by decide
  have hR : c08cCexIso.isolateTerminals.R = [⟨"A", 0, [.v "S", .v "S"]⟩, ⟨"S", 1, [.t "s"]⟩] := by
    simp [CFG.isolateTerminals, c08cCexIso, CFG.isolateLoop, CFG.replaceSymbols, CFG.replaceSymbol, hs, h1]
    decide
  have h1 : c08cCexIso.isolateTerminals.Lang ["s"] := by
    unfold CFG.Lang
    refine CFG.gen_v_iff.mpr ⟨[.t "s"], ⟨⟨"S", 1, [.t "s"]⟩, ?_, rfl, rfl⟩, .t .nil⟩
    rw [hR]; simp
  obtain ⟨rhs, ⟨r, hr, hl, _⟩, _⟩ := CFG.gen_v_iff.mp ((h _).mp h1)
  simp only [c08cCexIso, List.mem_singleton] at hr
  subst hr
  revert hl; decide

#print axioms freshVariables_distinct
#print axioms binarise_spec
#print axioms isolateTerminals_spec
