/-
  Gamba.Props.C12f — the three `check_*_language_from_words` checkers AS THE NOTEBOOKS CALL THEM, on text
  (`CheckText.dfaLanguageWords`, `CheckText.nfaLanguageWords`, `CheckText.cfgLanguageWords`): the submitted automaton /
  grammar text must have exactly the listed words (`CheckText.parseWordList`, spec `mem_parseWordList` in C12e) as its
  words up to `length`, and an automaton at most `max_states` states when `max_states > 0`.
  Soundness: the verdict `OK` is only printed when the text parses to a valid object, the state bound holds, the object
  agrees with the list on every word of length ≤ `length`, and no listed word is longer than `length` (a longer listed
  word can never be enumerated, so it is reported as missing).  Completeness: in that case `OK` IS printed.  `Error` is
  printed exactly when the text does not parse (the enumerators never raise on a parser result).
  For grammars the link between the enumerator `CFG.wordsUpTo` and the language needs, for a grammar that is not in
  Chomsky normal form, that no terminal is also a variable name; the text format does NOT guarantee it and without it
  the checker is really wrong (see the example after `cfgLanguageWords_text_sound`).
-/
import Gamba.Model.CheckText
import Gamba.Props.C02reg
import Gamba.Props.C02cfg
import Gamba.Props.C12a
import Gamba.Props.C12c
import Gamba.Props.C12e
import Gamba.Proofs.C12f
namespace Gamba
open Parse

/-! ### `check_dfa_language_from_words` -/

/-- unconditionally: OK iff the text parses (to a valid DFA without repeated state), the state bound holds and the
    enumeration `dfa_words_up_to_n` lists exactly the listed words -/
theorem dfaLanguageWords_text_verdicts (answer wordList : String) (len maxStates : Nat) :
    CheckText.dfaLanguageWords answer wordList len maxStates = .ok ↔
      ∃ A, Parse.parseDfa answer.toList = .ok A ∧ A.valid = true ∧ (maxStates = 0 ∨ A.Q.length ≤ maxStates) ∧
        ∀ w, w ∈ A.wordsUpTo len ↔ w ∈ CheckText.parseWordList wordList := by
  rcases C12f.dfaLanguageWords_cases answer wordList len maxStates with ⟨e, he, hv⟩ | ⟨A, hA, vA, hv⟩
  · rw [hv]
    constructor
    · intro h; cases h
    · rintro ⟨A, hA, _⟩; rw [he] at hA; cases hA
  · rw [hv, ofBool_ok_iff, C12f.languageFromWords_iff]
    constructor
    · rintro ⟨h1, h2⟩; exact ⟨A, hA, vA, h1, h2⟩
    · rintro ⟨A', hA', _, h1, h2⟩
      rw [hA] at hA'; cases hA'
      exact ⟨h1, h2⟩

/-- `check_dfa_language_from_words` on text: OK ⇒ the text parses to a valid DFA with at most `maxStates` states (if a
    bound is set), which accepts, among the words of length ≤ len, exactly the listed ones; and every listed word has
    length ≤ len -/
theorem dfaLanguageWords_text_sound (answer wordList : String) (len maxStates : Nat)
    (h : CheckText.dfaLanguageWords answer wordList len maxStates = .ok) :
    ∃ A, Parse.parseDfa answer.toList = .ok A ∧ A.valid = true ∧ (maxStates = 0 ∨ A.Q.length ≤ maxStates) ∧
      (∀ w, w.length ≤ len →
        (((∀ a, a ∈ w → a ∈ A.Sigma) ∧ A.Accepts w) ↔ w ∈ CheckText.parseWordList wordList)) ∧
      ∀ w, w ∈ CheckText.parseWordList wordList → w.length ≤ len := by
  obtain ⟨A, hA, vA, hb, hw⟩ := (dfaLanguageWords_text_verdicts _ _ _ _).mp h
  refine ⟨A, hA, vA, hb, ?_⟩
  refine (C12f.bounded_eq_iff (fun w : List String => w.length ≤ len) _ _).mp fun w => ?_
  rw [← hw w, dfa_words_exact A vA len w]

/-- … in the strongest form: a valid DFA accepts no word with a foreign symbol, so the alphabet clause can be dropped -/
theorem dfaLanguageWords_text_lang (answer wordList : String) (len maxStates : Nat)
    (h : CheckText.dfaLanguageWords answer wordList len maxStates = .ok) :
    ∃ A, Parse.parseDfa answer.toList = .ok A ∧ (maxStates = 0 ∨ A.Q.length ≤ maxStates) ∧
      (∀ w, w.length ≤ len → (A.Accepts w ↔ w ∈ CheckText.parseWordList wordList)) ∧
      ∀ w, w ∈ CheckText.parseWordList wordList → w.length ≤ len := by
  obtain ⟨A, hA, vA, hb, hw, hl⟩ := dfaLanguageWords_text_sound answer wordList len maxStates h
  exact ⟨A, hA, hb, fun w hlen => ⟨fun ha => (hw w hlen).mp ⟨DFA.Accepts.over vA ha, ha⟩, fun hm => ((hw w hlen).mpr hm).2⟩, hl⟩

-- words ending in `a` (states `p`, `q`); the words of length ≤ 2 are `a`, `aa`, `ba` (listed in another order, one twice)
example : CheckText.dfaLanguageWords "initial p\nfinal q\np q a\np p b\nq q a\nq p b" "ba a  aa\na" 2 2 = .ok := by
  decide +kernel
-- no state bound (`max_states = 0`)
example : CheckText.dfaLanguageWords "initial p\nfinal q\np q a\np p b\nq q a\nq p b" "a aa ba" 2 0 = .ok := by
  decide +kernel
-- the empty word is listed as `ε` or `_` (even length, bound 2: ε, aa)
example : CheckText.dfaLanguageWords "initial e\nfinal e\ne o a\no e a" "ε aa" 2 2 = .ok ∧
    CheckText.dfaLanguageWords "initial e\nfinal e\ne o a\no e a" "aa _" 3 2 = .ok := by decide +kernel
-- a missing word (`ba` is accepted but not listed) / an extra word (`b` is listed but not accepted): feedback
example : CheckText.dfaLanguageWords "initial p\nfinal q\np q a\np p b\nq q a\nq p b" "a aa" 2 2 = .feedback := by
  decide +kernel
example : CheckText.dfaLanguageWords "initial p\nfinal q\np q a\np p b\nq q a\nq p b" "a aa ba b" 2 2 = .feedback := by
  decide +kernel
-- too many states (2 > 1): feedback
example : CheckText.dfaLanguageWords "initial p\nfinal q\np q a\np p b\nq q a\nq p b" "a aa ba" 2 1 = .feedback := by
  decide +kernel
-- a listed word longer than the bound, although accepted (`aba`): feedback — the last conjunct of the theorem
example : CheckText.dfaLanguageWords "initial p\nfinal q\np q a\np p b\nq q a\nq p b" "a aa ba aba" 2 2 = .feedback := by
  decide +kernel
-- a listed word with a foreign symbol is just an extra word: feedback, no `Error` (unlike `check_dfa_accepts_rejects`)
example : CheckText.dfaLanguageWords "initial p\nfinal q\np q a\np p b\nq q a\nq p b" "a aa ba ca" 2 2 = .feedback := by
  decide +kernel
-- a partial transition table does not parse: `Error`
example : CheckText.dfaLanguageWords "initial p\nfinal q\np q a\np p b\nq q a" "a aa ba" 2 2 = .error := by rfl
-- consequence on the first example: the parsed DFA has ≤ 2 states, accepts `b a` and rejects `a b`
example : ∃ A, Parse.parseDfa "initial p\nfinal q\np q a\np p b\nq q a\nq p b".toList = .ok A ∧ A.Q.length ≤ 2 ∧
    A.Accepts ["b", "a"] ∧ ¬ A.Accepts ["a", "b"] := by
  obtain ⟨A, hA, hb, hw, _⟩ := dfaLanguageWords_text_lang
    "initial p\nfinal q\np q a\np p b\nq q a\nq p b" "ba a  aa\na" 2 2 (by decide +kernel)
  refine ⟨A, hA, hb.resolve_left (by decide), (hw _ (by decide)).mpr (by decide), fun hc => ?_⟩
  exact absurd ((hw _ (by decide)).mp hc) (by decide)

/-- completeness: if the text parses, the state bound holds, the DFA accepts among the words of length ≤ len exactly
    the listed ones, and no listed word is longer, the verdict is `OK` -/
theorem dfaLanguageWords_text_complete (answer wordList : String) (len maxStates : Nat) (A : DFA String String)
    (hp : Parse.parseDfa answer.toList = .ok A) (hb : maxStates = 0 ∨ A.Q.length ≤ maxStates)
    (hw : ∀ w, w.length ≤ len → (A.Accepts w ↔ w ∈ CheckText.parseWordList wordList))
    (hl : ∀ w, w ∈ CheckText.parseWordList wordList → w.length ≤ len) :
    CheckText.dfaLanguageWords answer wordList len maxStates = .ok := by
  have vA := (parseDfa_ok_valid_gen _ _ A hp).1
  refine (dfaLanguageWords_text_verdicts _ _ _ _).mpr ⟨A, hp, vA, hb, fun w => ?_⟩
  rw [dfa_words_exact A vA len w]
  constructor
  · rintro ⟨h1, _, h3⟩; exact (hw w h1).mp h3
  · intro hm
    have ha := (hw w (hl w hm)).mpr hm
    exact ⟨hl w hm, DFA.Accepts.over vA ha, ha⟩

example : ∃ A, Parse.parseDfa "initial p\nfinal q\np q a\np p b\nq q a\nq p b".toList = .ok A ∧
    (2 = 0 ∨ A.Q.length ≤ 2) ∧ ∀ w, w ∈ CheckText.parseWordList "a aa ba" → w.length ≤ 2 :=
  ⟨_, rfl, by decide, by decide⟩

/-- soundness and completeness in one statement (the shape of the request, plus the length bound on the list) -/
theorem dfaLanguageWords_text_ok_iff (answer wordList : String) (len maxStates : Nat) :
    CheckText.dfaLanguageWords answer wordList len maxStates = .ok ↔
      ∃ A, Parse.parseDfa answer.toList = .ok A ∧ (maxStates = 0 ∨ A.Q.length ≤ maxStates) ∧
        (∀ w, w.length ≤ len →
          (((∀ a, a ∈ w → a ∈ A.Sigma) ∧ A.Accepts w) ↔ w ∈ CheckText.parseWordList wordList)) ∧
        ∀ w, w ∈ CheckText.parseWordList wordList → w.length ≤ len := by
  constructor
  · intro h
    obtain ⟨A, hA, _, hb, hw, hl⟩ := dfaLanguageWords_text_sound answer wordList len maxStates h
    exact ⟨A, hA, hb, hw, hl⟩
  · rintro ⟨A, hA, hb, hw, hl⟩
    have vA := (parseDfa_ok_valid_gen _ _ A hA).1
    exact dfaLanguageWords_text_complete answer wordList len maxStates A hA hb
      (fun w hlen => ⟨fun ha => (hw w hlen).mp ⟨DFA.Accepts.over vA ha, ha⟩, fun hm => ((hw w hlen).mpr hm).2⟩) hl

/-- … equivalently, in one clause: the accepted words of length ≤ len are exactly the listed words -/
theorem dfaLanguageWords_text_ok_iff_set (answer wordList : String) (len maxStates : Nat) :
    CheckText.dfaLanguageWords answer wordList len maxStates = .ok ↔
      ∃ A, Parse.parseDfa answer.toList = .ok A ∧ (maxStates = 0 ∨ A.Q.length ≤ maxStates) ∧
        ∀ w, (w.length ≤ len ∧ A.Accepts w) ↔ w ∈ CheckText.parseWordList wordList := by
  constructor
  · intro h
    obtain ⟨A, hA, hb, hw, hl⟩ := dfaLanguageWords_text_lang answer wordList len maxStates h
    exact ⟨A, hA, hb, (C12f.bounded_eq_iff (fun w : List String => w.length ≤ len) _ _).mpr ⟨hw, hl⟩⟩
  · rintro ⟨A, hA, hb, h⟩
    obtain ⟨hw, hl⟩ := (C12f.bounded_eq_iff (fun w : List String => w.length ≤ len) _ _).mp h
    exact dfaLanguageWords_text_complete answer wordList len maxStates A hA hb hw hl

/-- the verdict `Error`: exactly when the text does not parse -/
theorem dfaLanguageWords_text_error_iff (answer wordList : String) (len maxStates : Nat) :
    CheckText.dfaLanguageWords answer wordList len maxStates = .error ↔ ∃ e, Parse.parseDfa answer.toList = .error e := by
  rcases C12f.dfaLanguageWords_cases answer wordList len maxStates with ⟨e, he, hv⟩ | ⟨A, hA, _, hv⟩
  · exact ⟨fun _ => ⟨e, he⟩, fun _ => hv⟩
  · rw [hv]
    constructor
    · intro h; exact absurd h (C12f.ofBool_error _)
    · rintro ⟨e, he⟩; rw [hA] at he; cases he

/-- hence feedback is printed exactly for a parsable text whose DFA has too many states, or misses a listed word of
    length ≤ len, or accepts an unlisted word of length ≤ len, or when a listed word is longer than len -/
theorem dfaLanguageWords_text_feedback (answer wordList : String) (len maxStates : Nat)
    (h : CheckText.dfaLanguageWords answer wordList len maxStates = .feedback) :
    ∃ A, Parse.parseDfa answer.toList = .ok A ∧ A.valid = true ∧
      ((0 < maxStates ∧ maxStates < A.Q.length) ∨
       (∃ w, w ∈ CheckText.parseWordList wordList ∧ (len < w.length ∨ ¬ A.Accepts w)) ∨
       (∃ w, w.length ≤ len ∧ A.Accepts w ∧ w ∉ CheckText.parseWordList wordList)) := by
  have hne : CheckText.dfaLanguageWords answer wordList len maxStates ≠ .error := by rw [h]; decide
  have hno : CheckText.dfaLanguageWords answer wordList len maxStates ≠ .ok := by rw [h]; decide
  rcases C12f.dfaLanguageWords_cases answer wordList len maxStates with ⟨e, _, hv⟩ | ⟨A, hA, vA, _⟩
  · exact absurd hv hne
  · refine ⟨A, hA, vA, Classical.byContradiction fun hn => hno ?_⟩
    refine dfaLanguageWords_text_complete answer wordList len maxStates A hA ?_ (fun w hlen => ⟨fun ha => ?_, fun hm => ?_⟩)
      (fun w hm => ?_)
    · exact Classical.byContradiction fun hb => hn (Or.inl (by omega))
    · exact Classical.byContradiction fun hm => hn (Or.inr (Or.inr ⟨w, hlen, ha, hm⟩))
    · exact Classical.byContradiction fun ha => hn (Or.inr (Or.inl ⟨w, hm, Or.inr ha⟩))
    · exact Classical.byContradiction fun hlen => hn (Or.inr (Or.inl ⟨w, hm, Or.inl (by omega)⟩))

/-! ### `check_nfa_language_from_words` -/

/-- `check_nfa_language_from_words` on text, for every pop order of the ε-closure worklists: OK ⇒ the text parses to a
    valid NFA with at most `maxStates` states (if a bound is set), which accepts, among the words of length ≤ len,
    exactly the listed ones; and every listed word has length ≤ len -/
theorem nfaLanguageWords_text_sound (answer wordList : String) (s : Sched) (len maxStates : Nat)
    (h : CheckText.nfaLanguageWords answer wordList s len maxStates = .ok) :
    ∃ A, Parse.parseNfa answer.toList = .ok A ∧ A.valid = true ∧ (maxStates = 0 ∨ A.Q.length ≤ maxStates) ∧
      (∀ w, w.length ≤ len →
        (((∀ a, a ∈ w → a ∈ A.Sigma) ∧ A.Accepts w) ↔ w ∈ CheckText.parseWordList wordList)) ∧
      ∀ w, w ∈ CheckText.parseWordList wordList → w.length ≤ len := by
  rcases C12f.nfaLanguageWords_cases answer wordList s len maxStates with ⟨e, _, hv⟩ | ⟨A, L, hA, vA, _, hm, hv⟩
  · rw [hv] at h; cases h
  · rw [hv, ofBool_ok_iff, C12f.languageFromWords_iff] at h
    obtain ⟨hb, hw⟩ := h
    refine ⟨A, hA, vA, hb, ?_⟩
    refine (C12f.bounded_eq_iff (fun w : List String => w.length ≤ len) _ _).mp fun w => ?_
    rw [← hw w, hm w]

/-- … in the strongest form: a valid NFA accepts no word with a foreign symbol either -/
theorem nfaLanguageWords_text_lang (answer wordList : String) (s : Sched) (len maxStates : Nat)
    (h : CheckText.nfaLanguageWords answer wordList s len maxStates = .ok) :
    ∃ A, Parse.parseNfa answer.toList = .ok A ∧ (maxStates = 0 ∨ A.Q.length ≤ maxStates) ∧
      (∀ w, w.length ≤ len → (A.Accepts w ↔ w ∈ CheckText.parseWordList wordList)) ∧
      ∀ w, w ∈ CheckText.parseWordList wordList → w.length ≤ len := by
  obtain ⟨A, hA, vA, hb, hw, hl⟩ := nfaLanguageWords_text_sound answer wordList s len maxStates h
  exact ⟨A, hA, hb, fun w hlen => ⟨fun ha => (hw w hlen).mp ⟨NFA.Accepts.over vA ha, ha⟩, fun hm => ((hw w hlen).mpr hm).2⟩, hl⟩

-- `A -x-> B`, `A -ε-> B`, accepting `B`: the language is {ε, x}; two pop orders
example : CheckText.nfaLanguageWords "initial A\nfinal B\nA B x ε" "x _" [3, 1, 2] 3 2 = .ok ∧
    CheckText.nfaLanguageWords "initial A\nfinal B\nA B x ε" "ε x" [] 3 0 = .ok := ⟨by rfl, by rfl⟩
-- a missing word (ε) / an extra word (`xx`) / too many states (2 > 1): feedback
example : CheckText.nfaLanguageWords "initial A\nfinal B\nA B x ε" "x" [] 3 2 = .feedback := by rfl
example : CheckText.nfaLanguageWords "initial A\nfinal B\nA B x ε" "x ε xx" [] 3 2 = .feedback := by rfl
example : CheckText.nfaLanguageWords "initial A\nfinal B\nA B x ε" "x ε" [] 3 1 = .feedback := by rfl
-- a listed word longer than the bound (`x`, bound 0): feedback
example : CheckText.nfaLanguageWords "initial A\nfinal B\nA B x ε" "x ε" [] 0 2 = .feedback := by rfl
-- two initial states: `Error`
example : CheckText.nfaLanguageWords "initial A B\nfinal B\nA B x ε" "x ε" [] 3 2 = .error := by rfl
-- consequence on the first example: the parsed NFA accepts `x` and ε and rejects `x x`
example : ∃ A, Parse.parseNfa "initial A\nfinal B\nA B x ε".toList = .ok A ∧ A.Accepts ["x"] ∧ A.Accepts [] ∧
    ¬ A.Accepts ["x", "x"] := by
  obtain ⟨A, hA, _, hw, _⟩ := nfaLanguageWords_text_lang "initial A\nfinal B\nA B x ε" "x _" [3, 1, 2] 3 2 (by rfl)
  refine ⟨A, hA, (hw _ (by decide)).mpr (by decide), (hw _ (by decide)).mpr (by decide), fun hc => ?_⟩
  exact absurd ((hw _ (by decide)).mp hc) (by decide)

/-- completeness, for every pop order (the enumeration cannot fail on a parser result): if the text parses, the state
    bound holds, the NFA accepts among the words of length ≤ len exactly the listed ones, and no listed word is longer,
    the verdict is `OK` -/
theorem nfaLanguageWords_text_complete (answer wordList : String) (s : Sched) (len maxStates : Nat)
    (A : NFA String String) (hp : Parse.parseNfa answer.toList = .ok A)
    (hb : maxStates = 0 ∨ A.Q.length ≤ maxStates)
    (hw : ∀ w, w.length ≤ len → (A.Accepts w ↔ w ∈ CheckText.parseWordList wordList))
    (hl : ∀ w, w ∈ CheckText.parseWordList wordList → w.length ≤ len) :
    CheckText.nfaLanguageWords answer wordList s len maxStates = .ok := by
  rcases C12f.nfaLanguageWords_cases answer wordList s len maxStates with ⟨e, he, _⟩ | ⟨A', L, hA, vA, _, hm, hv⟩
  · rw [hp] at he; cases he
  · rw [hp] at hA; cases hA
    rw [hv, ofBool_ok_iff, C12f.languageFromWords_iff]
    refine ⟨hb, fun w => ?_⟩
    rw [hm w]
    constructor
    · rintro ⟨h1, _, h3⟩; exact (hw w h1).mp h3
    · intro hmem
      have ha := (hw w (hl w hmem)).mpr hmem
      exact ⟨hl w hmem, NFA.Accepts.over vA ha, ha⟩

example : ∃ A, Parse.parseNfa "initial A\nfinal B\nA B x ε".toList = .ok A ∧
    (2 = 0 ∨ A.Q.length ≤ 2) ∧ ∀ w, w ∈ CheckText.parseWordList "x _" → w.length ≤ 3 :=
  ⟨_, rfl, by decide, by decide⟩

/-- soundness and completeness in one statement; the right-hand side does not mention the pop order -/
theorem nfaLanguageWords_text_ok_iff (answer wordList : String) (s : Sched) (len maxStates : Nat) :
    CheckText.nfaLanguageWords answer wordList s len maxStates = .ok ↔
      ∃ A, Parse.parseNfa answer.toList = .ok A ∧ (maxStates = 0 ∨ A.Q.length ≤ maxStates) ∧
        (∀ w, w.length ≤ len →
          (((∀ a, a ∈ w → a ∈ A.Sigma) ∧ A.Accepts w) ↔ w ∈ CheckText.parseWordList wordList)) ∧
        ∀ w, w ∈ CheckText.parseWordList wordList → w.length ≤ len := by
  constructor
  · intro h
    obtain ⟨A, hA, _, hb, hw, hl⟩ := nfaLanguageWords_text_sound answer wordList s len maxStates h
    exact ⟨A, hA, hb, hw, hl⟩
  · rintro ⟨A, hA, hb, hw, hl⟩
    have vA := (parseNfa_ok_valid_gen _ _ A hA).1
    exact nfaLanguageWords_text_complete answer wordList s len maxStates A hA hb
      (fun w hlen => ⟨fun ha => (hw w hlen).mp ⟨NFA.Accepts.over vA ha, ha⟩, fun hm => ((hw w hlen).mpr hm).2⟩) hl

/-- in particular the verdict `OK` does not depend on the pop order -/
theorem nfaLanguageWords_text_sched (answer wordList : String) (s s' : Sched) (len maxStates : Nat) :
    CheckText.nfaLanguageWords answer wordList s len maxStates = .ok ↔
      CheckText.nfaLanguageWords answer wordList s' len maxStates = .ok := by
  rw [nfaLanguageWords_text_ok_iff, nfaLanguageWords_text_ok_iff]

/-- the verdict `Error`: exactly when the text does not parse (`nfa_words_up_to_n` never raises on a parser result) -/
theorem nfaLanguageWords_text_error_iff (answer wordList : String) (s : Sched) (len maxStates : Nat) :
    CheckText.nfaLanguageWords answer wordList s len maxStates = .error ↔
      ∃ e, Parse.parseNfa answer.toList = .error e := by
  rcases C12f.nfaLanguageWords_cases answer wordList s len maxStates with ⟨e, he, hv⟩ | ⟨A, L, hA, _, _, _, hv⟩
  · exact ⟨fun _ => ⟨e, he⟩, fun _ => hv⟩
  · rw [hv]
    constructor
    · intro h; exact absurd h (C12f.ofBool_error _)
    · rintro ⟨e, he⟩; rw [hA] at he; cases he

/-! ### `check_cfg_language_from_words` -/

/-- unconditionally: OK iff the grammar text parses (to a valid grammar with declared start variable and the aliasing
    invariant) and the enumeration `cfg_words_up_to_n` (CNF conversion + bottom-up generation) lists exactly the listed
    words -/
theorem cfgLanguageWords_text_verdicts (answer wordList : String) (len : Nat) :
    CheckText.cfgLanguageWords answer wordList len = .ok ↔
      ∃ G e, CfgText.parseSimpleCfg answer.toList = .ok (G, e) ∧ G.valid = true ∧ G.S ∈ G.V ∧ CFG.AliasOK G ∧
        ∀ w, w ∈ G.wordsUpTo len ↔ w ∈ CheckText.parseWordList wordList := by
  rcases C12f.cfgLanguageWords_cases answer wordList len with ⟨e, he, hv⟩ | ⟨G, eps, hG, hv⟩
  · rw [hv]
    constructor
    · intro h; cases h
    · rintro ⟨G, e', hG, _⟩; rw [he] at hG; cases hG
  · obtain ⟨v, sv, al⟩ := parseSimpleCfg_ok_valid _ G eps hG
    rw [hv, ofBool_ok_iff, C12f.equalLanguages_iff]
    constructor
    · intro h; exact ⟨G, eps, hG, v, sv, al, h⟩
    · rintro ⟨G', e', hG', _, _, _, h⟩
      rw [hG] at hG'; cases hG'
      exact h

/-- `check_cfg_language_from_words` on text: OK ⇒ the text parses to a valid grammar and — when the parsed grammar is
    in Chomsky normal form, or no terminal of it is also a variable name (nor the name `toChomsky` picks for the new
    start variable), which the text format does NOT guarantee — its words of length ≤ len are exactly the listed ones,
    and every listed word has length ≤ len.
    `S ∈ V` and `AliasOK`, the other hypotheses of `cfg_words_exact`, hold for every parser result. -/
theorem cfgLanguageWords_text_sound (answer wordList : String) (len : Nat)
    (h : CheckText.cfgLanguageWords answer wordList len = .ok) :
    ∃ G e, CfgText.parseSimpleCfg answer.toList = .ok (G, e) ∧ G.valid = true ∧
      ((G.isChomsky = true ∨ ∀ a, a ∈ G.Sigma → a ∉ G.V ∧ a ≠ CFG.freshVariable G.V "S") →
        (∀ w, w.length ≤ len → (G.Lang w ↔ w ∈ CheckText.parseWordList wordList)) ∧
        ∀ w, w ∈ CheckText.parseWordList wordList → w.length ≤ len) := by
  obtain ⟨G, e, hG, v, sv, al, hw⟩ := (cfgLanguageWords_text_verdicts _ _ _).mp h
  refine ⟨G, e, hG, v, fun hside => ?_⟩
  refine (C12f.bounded_eq_iff (fun w : List String => w.length ≤ len) _ _).mp fun w => ?_
  rw [← hw w, C12f.cfg_words_exact_side v sv al hside len w]

-- `{aⁿbⁿ}` (not in CNF: the conversion runs); up to length 4 and 5: ε, ab, aabb
example : CheckText.cfgLanguageWords "S -> aSb | ε" "ε ab aabb" 4 = .ok ∧
    CheckText.cfgLanguageWords "S -> aSb | ε" "aabb ab _ ab" 5 = .ok := by decide +kernel
-- a CNF grammar for `{ab, a}`
example : CheckText.cfgLanguageWords "S -> AB | a\nA -> a\nB -> b" "ab a" 3 = .ok := by decide +kernel
-- a missing word (`aabb` is generated but not listed) / an extra word (`ba` is listed but not generated): feedback
example : CheckText.cfgLanguageWords "S -> aSb | ε" "ε ab" 4 = .feedback := by decide +kernel
example : CheckText.cfgLanguageWords "S -> aSb | ε" "ε ab aabb ba" 4 = .feedback := by decide +kernel
-- a listed word longer than the bound, although generated (`aaabbb`): feedback
example : CheckText.cfgLanguageWords "S -> aSb | ε" "ε ab aabb aaabbb" 4 = .feedback := by decide +kernel
-- a text that does not parse; a variable without rule: `Error`
example : CheckText.cfgLanguageWords "S => a" "a" 4 = .error := by rfl
example : CheckText.cfgLanguageWords "S -> aT" "a" 4 = .error := by rfl
-- the side condition holds for the first example, and the conclusion follows: `aabb ∈ L`, `abb ∉ L`
example : ∃ G, CfgText.parseSimpleCfg "S -> aSb | ε".toList = .ok (G, "ε") ∧
    (∀ a, a ∈ G.Sigma → a ∉ G.V ∧ a ≠ CFG.freshVariable G.V "S") ∧
    G.Lang ["a", "a", "b", "b"] ∧ ¬ G.Lang ["a", "b", "b"] := by
  obtain ⟨G, e, h1, _, hL⟩ := cfgLanguageWords_text_sound "S -> aSb | ε" "ε ab aabb" 4 (by decide +kernel)
  rw [C12e.exAnBn_parse] at h1
  cases h1
  have hd : ∀ a, a ∈ C12e.exAnBn.Sigma → a ∉ C12e.exAnBn.V ∧ a ≠ CFG.freshVariable C12e.exAnBn.V "S" := by decide
  refine ⟨_, C12e.exAnBn_parse, hd, ((hL (Or.inr hd)).1 _ (by decide)).mpr (by decide), fun hc => ?_⟩
  exact absurd (((hL (Or.inr hd)).1 _ (by decide)).mp hc) (by decide)
-- the side condition is NEEDED: `S -> a | bb`, `a -> b` parses (the lower-case `a` is a variable AND a terminal, the
-- grammar is not in CNF); `toChomsky` takes the rule `S -> a` for a unit rule and adds `S -> b`: the checker prints OK
-- for the list `a b bb` although `b` is not in the language {a, bb} of the parsed grammar, and prints feedback for
-- the right list `a bb`
example : CheckText.cfgLanguageWords "S -> a | bb\na -> b" "a b bb" 2 = .ok ∧
    CheckText.cfgLanguageWords "S -> a | bb\na -> b" "a bb" 2 = .feedback ∧
    CfgText.parseSimpleCfg "S -> a | bb\na -> b".toList = .ok (C12e.exBad, "_") ∧
    ["b"] ∈ CheckText.parseWordList "a b bb" ∧ ¬ C12e.exBad.Lang ["b"] ∧
    C12e.exBad.isChomsky = false ∧ "a" ∈ C12e.exBad.Sigma ∧ "a" ∈ C12e.exBad.V :=
  ⟨by decide +kernel, by decide +kernel, C12e.exBad_parse, by decide, C12e.exBad_not_lang_b, by decide, by decide,
    by decide⟩

/-- completeness: if the text parses to a grammar in CNF or in which no terminal is a variable name, its words of
    length ≤ len are exactly the listed ones and no listed word is longer, the verdict is `OK` -/
theorem cfgLanguageWords_text_complete (answer wordList : String) (len : Nat) (G : CFG) (e : String)
    (hp : CfgText.parseSimpleCfg answer.toList = .ok (G, e))
    (hside : G.isChomsky = true ∨ ∀ a, a ∈ G.Sigma → a ∉ G.V ∧ a ≠ CFG.freshVariable G.V "S")
    (hw : ∀ w, w.length ≤ len → (G.Lang w ↔ w ∈ CheckText.parseWordList wordList))
    (hl : ∀ w, w ∈ CheckText.parseWordList wordList → w.length ≤ len) :
    CheckText.cfgLanguageWords answer wordList len = .ok := by
  obtain ⟨v, sv, al⟩ := parseSimpleCfg_ok_valid _ G e hp
  refine (cfgLanguageWords_text_verdicts _ _ _).mpr ⟨G, e, hp, v, sv, al, fun w => ?_⟩
  rw [C12f.cfg_words_exact_side v sv al hside len w]
  exact (C12f.bounded_eq_iff (fun w : List String => w.length ≤ len) _ _).mpr ⟨hw, hl⟩ w

example : ∃ G, CfgText.parseSimpleCfg "S -> AB | a\nA -> a\nB -> b".toList = .ok (G, "_") ∧ G.isChomsky = true ∧
    (∀ a, a ∈ G.Sigma → a ∉ G.V ∧ a ≠ CFG.freshVariable G.V "S") ∧
    ∀ w, w ∈ CheckText.parseWordList "ab a" → w.length ≤ 3 := ⟨_, rfl, by decide, by decide, by decide⟩

/-- soundness and completeness in one statement, for a parsed grammar that satisfies the side condition -/
theorem cfgLanguageWords_text_ok_iff (answer wordList : String) (len : Nat) (G : CFG) (e : String)
    (hp : CfgText.parseSimpleCfg answer.toList = .ok (G, e))
    (hside : G.isChomsky = true ∨ ∀ a, a ∈ G.Sigma → a ∉ G.V ∧ a ≠ CFG.freshVariable G.V "S") :
    CheckText.cfgLanguageWords answer wordList len = .ok ↔
      (∀ w, w.length ≤ len → (G.Lang w ↔ w ∈ CheckText.parseWordList wordList)) ∧
      ∀ w, w ∈ CheckText.parseWordList wordList → w.length ≤ len := by
  constructor
  · intro h
    obtain ⟨G', e', hG', _, hL⟩ := cfgLanguageWords_text_sound answer wordList len h
    rw [hp] at hG'; cases hG'
    exact hL hside
  · rintro ⟨hw, hl⟩
    exact cfgLanguageWords_text_complete answer wordList len G e hp hside hw hl

example : ∃ G, CfgText.parseSimpleCfg "S -> aSb | ε".toList = .ok (G, "ε") ∧
    (G.isChomsky = true ∨ ∀ a, a ∈ G.Sigma → a ∉ G.V ∧ a ≠ CFG.freshVariable G.V "S") :=
  ⟨_, C12e.exAnBn_parse, Or.inr (by decide)⟩

/-- the verdict `Error`: exactly when the text does not parse (`cfg_words_up_to_n` is total in the model) -/
theorem cfgLanguageWords_text_error_iff (answer wordList : String) (len : Nat) :
    CheckText.cfgLanguageWords answer wordList len = .error ↔ ∃ e, CfgText.parseSimpleCfg answer.toList = .error e := by
  rcases C12f.cfgLanguageWords_cases answer wordList len with ⟨e, he, hv⟩ | ⟨G, eps, hG, hv⟩
  · exact ⟨fun _ => ⟨e, he⟩, fun _ => hv⟩
  · rw [hv]
    constructor
    · intro h; exact absurd h (C12f.ofBool_error _)
    · rintro ⟨e, he⟩; rw [hG] at he; cases he

/-! ### OK ⇒ the text parses -/

/-- the verdict `OK` is returned only if the first argument parses (the clauses of `text_ok_not_error` for the three
    checkers; word lists always parse) -/
theorem languageWords_ok_not_error :
    (∀ answer wordList len maxStates, CheckText.dfaLanguageWords answer wordList len maxStates = .ok →
      ∃ A, parseDfa answer.toList = .ok A) ∧
    (∀ answer wordList s len maxStates, CheckText.nfaLanguageWords answer wordList s len maxStates = .ok →
      ∃ A, parseNfa answer.toList = .ok A) ∧
    (∀ answer wordList len, CheckText.cfgLanguageWords answer wordList len = .ok →
      ∃ G, CfgText.parseSimpleCfg answer.toList = .ok G) := by
  refine ⟨?_, ?_, ?_⟩
  · intro answer wordList len maxStates h
    obtain ⟨A, hA, _⟩ := (dfaLanguageWords_text_verdicts _ _ _ _).mp h
    exact ⟨A, hA⟩
  · intro answer wordList s len maxStates h
    obtain ⟨A, hA, _⟩ := nfaLanguageWords_text_sound _ _ _ _ _ h
    exact ⟨A, hA⟩
  · intro answer wordList len h
    obtain ⟨G, e, hG, _⟩ := (cfgLanguageWords_text_verdicts _ _ _).mp h
    exact ⟨_, hG⟩

#print axioms dfaLanguageWords_text_verdicts
#print axioms dfaLanguageWords_text_sound
#print axioms dfaLanguageWords_text_lang
#print axioms dfaLanguageWords_text_complete
#print axioms dfaLanguageWords_text_ok_iff
#print axioms dfaLanguageWords_text_ok_iff_set
#print axioms dfaLanguageWords_text_error_iff
#print axioms dfaLanguageWords_text_feedback
#print axioms nfaLanguageWords_text_sound
#print axioms nfaLanguageWords_text_lang
#print axioms nfaLanguageWords_text_complete
#print axioms nfaLanguageWords_text_ok_iff
#print axioms nfaLanguageWords_text_sched
#print axioms nfaLanguageWords_text_error_iff
#print axioms cfgLanguageWords_text_verdicts
#print axioms cfgLanguageWords_text_sound
#print axioms cfgLanguageWords_text_complete
#print axioms cfgLanguageWords_text_ok_iff
#print axioms cfgLanguageWords_text_error_iff
#print axioms languageWords_ok_not_error

end Gamba
