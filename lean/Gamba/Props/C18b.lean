/-
  Gamba.Props.C18b — property C18 without the restriction `N2.eps = N1.eps`:
  `nfa_union` and `nfa_concatenation` of operands whose ε symbols may differ.  The result uses the FIRST
  operand's ε; the second operand's ε-transitions are re-keyed to it (`N2.rekey N1.eps`).  The only
  requirement is that the first operand's ε is not an ordinary symbol of the second operand
  (`N1.eps ∉ N2.Sigma`); when it is, the constructor's validity check fails (`…_eps_clash`).

  As in `Gamba.Props.C18` the hypotheses `(N.delta.map (·.1)).Nodup` ("δ is a Python dict") are needed for
  the language clauses.
-/
import Gamba.Model.NFA
import Gamba.Spec.Automata
import Gamba.Proofs.NFABasic
import Gamba.Proofs.C18
import Gamba.Proofs.C18b
import Gamba.Props.C18
namespace Gamba
variable {σ τ : Type} [DecidableEq σ] [DecidableEq τ]

open C18

/-! ### union -/

theorem nfa_union_spec_eps (N1 N2 : NFA σ τ) (q0 : σ) (h1 : N1.valid = true) (h2 : N2.valid = true)
    (hk1 : (N1.delta.map (·.1)).Nodup) (hk2 : (N2.delta.map (·.1)).Nodup)
    (hd : ∀ q, q ∈ N1.Q → q ∉ N2.Q) (hq1 : q0 ∉ N1.Q) (hq2 : q0 ∉ N2.Q) (he : N1.eps ∉ N2.Sigma) :
    ∃ N, N1.union N2 q0 = .ok N ∧ N.valid = true ∧ N.eps = N1.eps ∧
      (∀ a, a ∈ N.Sigma ↔ a ∈ N1.Sigma ∨ a ∈ N2.Sigma) ∧
      ∀ w, N.Accepts w ↔ (N1.Accepts w ∨ N2.Accepts w) := by
  obtain ⟨N, hN, hv, hε, hS, hL⟩ := nfa_union_spec N1 (N2.withEps N1.eps) q0 h1
    (NFA.withEps_valid h2 he) hk1 (NFA.withEps_keys_nodup h2 he hk2) hd hq1 hq2 rfl
  rw [NFA.union_withEps] at hN
  exact ⟨N, hN, hv, hε, hS, fun w => (hL w).trans (or_congr Iff.rfl (NFA.withEps_Accepts h2 he w))⟩

/-- the new theorem subsumes the old one: equal ε symbols satisfy `N1.eps ∉ N2.Sigma` by validity -/
theorem nfa_union_spec_of_eq (N1 N2 : NFA σ τ) (q0 : σ) (h1 : N1.valid = true) (h2 : N2.valid = true)
    (hk1 : (N1.delta.map (·.1)).Nodup) (hk2 : (N2.delta.map (·.1)).Nodup)
    (hd : ∀ q, q ∈ N1.Q → q ∉ N2.Q) (hq1 : q0 ∉ N1.Q) (hq2 : q0 ∉ N2.Q) (he : N2.eps = N1.eps) :
    ∃ N, N1.union N2 q0 = .ok N ∧ N.valid = true ∧ N.eps = N1.eps ∧
      (∀ a, a ∈ N.Sigma ↔ a ∈ N1.Sigma ∨ a ∈ N2.Sigma) ∧
      ∀ w, N.Accepts w ↔ (N1.Accepts w ∨ N2.Accepts w) :=
  nfa_union_spec_eps N1 N2 q0 h1 h2 hk1 hk2 hd hq1 hq2 (he ▸ NFA.valid_eps h2)

/-- the hypotheses hold for two concrete operands with DIFFERENT ε symbols (`"eps"` / `"lambda"`),
    the second one having an ε-move -/
example : exA.valid = true ∧ exC.valid = true ∧ (exA.delta.map (·.1)).Nodup ∧ (exC.delta.map (·.1)).Nodup ∧
    (∀ q, q ∈ exA.Q → q ∉ exC.Q) ∧ "s" ∉ exA.Q ∧ "s" ∉ exC.Q ∧ exA.eps ∉ exC.Sigma ∧ exC.eps ≠ exA.eps ∧
    exC.Succ "c1" exC.eps "c0" :=
  ⟨by decide, by decide, by decide, by decide, sdisjoint_iff.mp (by decide), by decide, by decide, by decide,
   by decide, ⟨["c0"], by decide, by decide⟩⟩

example : exA.union exC "s" = .ok
    { Q := ["a0", "a1", "c0", "c1", "s"], Sigma := ["a", "c"],
      delta := [(("a0", "a"), ["a1"]), (("c0", "c"), ["c1"]), (("c1", "eps"), ["c0"]),
                (("s", "eps"), ["a0", "c0"])],
      q0 := "s", F := ["a1", "c1"], eps := "eps" } := by rfl

/-- the operands the other way round: the result carries the ε symbol of the first operand -/
example : exC.union exA "s" = .ok
    { Q := ["c0", "c1", "a0", "a1", "s"], Sigma := ["c", "a"],
      delta := [(("c0", "c"), ["c1"]), (("c1", "lambda"), ["c0"]), (("a0", "a"), ["a1"]),
                (("s", "lambda"), ["c0", "a0"])],
      q0 := "s", F := ["c1", "a1"], eps := "lambda" } := by rfl

example : ∃ N, exA.union exC "s" = .ok N ∧ N.Accepts ["c", "c"] ∧ N.Accepts ["a"] := by
  obtain ⟨N, hN, _, _, _, hL⟩ := nfa_union_spec_eps exA exC "s" (by decide) (by decide) (by decide)
    (by decide) (sdisjoint_iff.mp (by decide)) (by decide) (by decide) (by decide)
  exact ⟨N, hN, (hL _).mpr (Or.inr exC_accepts), (hL _).mpr (Or.inl exA_accepts)⟩

/-! ### concatenation -/

theorem nfa_concat_spec_eps (N1 N2 : NFA σ τ) (h1 : N1.valid = true) (h2 : N2.valid = true)
    (hk1 : (N1.delta.map (·.1)).Nodup) (hk2 : (N2.delta.map (·.1)).Nodup)
    (hd : ∀ q, q ∈ N1.Q → q ∉ N2.Q) (he : N1.eps ∉ N2.Sigma) :
    ∃ N, N1.concat N2 = .ok N ∧ N.valid = true ∧ N.eps = N1.eps ∧
      (∀ a, a ∈ N.Sigma ↔ a ∈ N1.Sigma ∨ a ∈ N2.Sigma) ∧
      ∀ w, N.Accepts w ↔ ∃ u v, w = u ++ v ∧ N1.Accepts u ∧ N2.Accepts v := by
  obtain ⟨N, hN, hv, hε, hS, hL⟩ := nfa_concat_spec N1 (N2.withEps N1.eps) h1
    (NFA.withEps_valid h2 he) hk1 (NFA.withEps_keys_nodup h2 he hk2) hd rfl
  rw [NFA.concat_withEps] at hN
  refine ⟨N, hN, hv, hε, hS, fun w => (hL w).trans ?_⟩
  constructor
  · rintro ⟨u, v, hw, hu, hv'⟩; exact ⟨u, v, hw, hu, (NFA.withEps_Accepts h2 he v).mp hv'⟩
  · rintro ⟨u, v, hw, hu, hv'⟩; exact ⟨u, v, hw, hu, (NFA.withEps_Accepts h2 he v).mpr hv'⟩

theorem nfa_concat_spec_of_eq (N1 N2 : NFA σ τ) (h1 : N1.valid = true) (h2 : N2.valid = true)
    (hk1 : (N1.delta.map (·.1)).Nodup) (hk2 : (N2.delta.map (·.1)).Nodup)
    (hd : ∀ q, q ∈ N1.Q → q ∉ N2.Q) (he : N2.eps = N1.eps) :
    ∃ N, N1.concat N2 = .ok N ∧ N.valid = true ∧ N.eps = N1.eps ∧
      (∀ a, a ∈ N.Sigma ↔ a ∈ N1.Sigma ∨ a ∈ N2.Sigma) ∧
      ∀ w, N.Accepts w ↔ ∃ u v, w = u ++ v ∧ N1.Accepts u ∧ N2.Accepts v :=
  nfa_concat_spec_eps N1 N2 h1 h2 hk1 hk2 hd (he ▸ NFA.valid_eps h2)

example : exA.valid = true ∧ exC.valid = true ∧ (exA.delta.map (·.1)).Nodup ∧ (exC.delta.map (·.1)).Nodup ∧
    (∀ q, q ∈ exA.Q → q ∉ exC.Q) ∧ exA.eps ∉ exC.Sigma ∧ exC.eps ≠ exA.eps :=
  ⟨by decide, by decide, by decide, by decide, sdisjoint_iff.mp (by decide), by decide, by decide⟩

example : exA.concat exC = .ok
    { Q := ["a0", "a1", "c0", "c1"], Sigma := ["a", "c"],
      delta := [(("a0", "a"), ["a1"]), (("c0", "c"), ["c1"]), (("c1", "eps"), ["c0"]),
                (("a1", "eps"), ["c0"])],
      q0 := "a0", F := ["c1"], eps := "eps" } := by rfl

/-- first operand with the ε-move: its ε-transitions are kept, the second operand has none to re-key -/
example : exC.concat exA = .ok
    { Q := ["c0", "c1", "a0", "a1"], Sigma := ["c", "a"],
      delta := [(("c0", "c"), ["c1"]), (("c1", "lambda"), ["c0", "a0"]), (("a0", "a"), ["a1"])],
      q0 := "c0", F := ["a1"], eps := "lambda" } := by rfl

example : ∃ N, exA.concat exC = .ok N ∧ N.Accepts ["a", "c", "c"] := by
  obtain ⟨N, hN, _, _, _, hL⟩ := nfa_concat_spec_eps exA exC (by decide) (by decide) (by decide) (by decide)
    (sdisjoint_iff.mp (by decide)) (by decide)
  exact ⟨N, hN, (hL _).mpr ⟨["a"], ["c", "c"], rfl, exA_accepts, exC_accepts⟩⟩

/-! ### ε clash -/

/-- when the first operand's ε is an ordinary symbol of the second operand the constructor's validity
    check fails -/
theorem nfa_union_eps_clash (N1 N2 : NFA σ τ) (q0 : σ) (hd : ∀ q, q ∈ N1.Q → q ∉ N2.Q)
    (he : N1.eps ∈ N2.Sigma) : N1.union N2 q0 = .error .assertion := by
  rw [NFA.union_eq, sdisjoint_iff.mpr hd]
  exact NFA.checked_eps_mem (N := N1.unionRaw N2 q0) (mem_sunion.mpr (Or.inr he))

theorem nfa_concat_eps_clash (N1 N2 : NFA σ τ) (hd : ∀ q, q ∈ N1.Q → q ∉ N2.Q)
    (he : N1.eps ∈ N2.Sigma) : N1.concat N2 = .error .assertion := by
  rw [NFA.concat_eq, sdisjoint_iff.mpr hd]
  exact NFA.checked_eps_mem (N := N1.concatRaw N2) (mem_sunion.mpr (Or.inr he))

/-- the hypotheses hold for a concrete pair (`"eps"`, the ε of `exA`, is a letter of `exClash`);
    both operands are valid on their own -/
example : exA.valid = true ∧ exClash.valid = true ∧ (∀ q, q ∈ exA.Q → q ∉ exClash.Q) ∧
    exA.eps ∈ exClash.Sigma :=
  ⟨by decide, by decide, sdisjoint_iff.mp (by decide), by decide⟩

example : exA.union exClash "s" = .error .assertion := by rfl
example : exA.concat exClash = .error .assertion := by rfl
/-- the clash is one-sided: with the operands swapped the construction succeeds
    (`exClash.eps = "lambda" ∉ exA.Sigma`) -/
example : ∃ N, exClash.union exA "s" = .ok N ∧ N.eps = "lambda" := ⟨_, by rfl, rfl⟩

#print axioms nfa_union_spec_eps
#print axioms nfa_union_spec_of_eq
#print axioms nfa_concat_spec_eps
#print axioms nfa_concat_spec_of_eq
#print axioms nfa_union_eps_clash
#print axioms nfa_concat_eps_clash

end Gamba
