/-
  Gamba.Props.C14b — `dfa_reachable_states`, `dfa_remove_unreachable_states`, `dfa_no_extend` and
  `dfa_reverse` compute what they claim (on valid DFAs whose transition dict has unique keys, as every
  Python dict has).
-/
import Gamba.Model.DFA
import Gamba.Model.NFA
import Gamba.Spec.Automata
import Gamba.Proofs.DFABasic
import Gamba.Proofs.C14b
namespace Gamba
variable {σ τ : Type} [DecidableEq σ] [DecidableEq τ]

open C14b

/-! ### reachable states -/

/-- `dfa_reachable_states(D, q, 0)`: exactly the states reachable from q by a (possibly empty) word over Σ;
    the fuel suffices -/
theorem reachableStates_zero (D : DFA σ τ) (hv : D.valid = true) (q : σ) (hq : q ∈ D.Q) :
    ∃ R, D.reachableStates q 0 = .ok R ∧
      ∀ r, r ∈ R ↔ ∃ w, (∀ a, a ∈ w → a ∈ D.Sigma) ∧ D.runT q w = r :=
  DFA.reachableStates_zero' D hv q hq

example : exD.valid = true ∧ "p" ∈ exD.Q ∧ exD.reachableStates "p" 0 = .ok ["p", "q"] ∧
    exD.reachableStates "z" 0 = .ok ["z", "p", "q"] := ⟨by decide, by decide, rfl, rfl⟩

/-- depth ≥ 1: exactly the states reachable by a NON-EMPTY word -/
theorem reachableStates_pos (D : DFA σ τ) (hv : D.valid = true) (q : σ) (hq : q ∈ D.Q) (d : Nat)
    (hd : d ≠ 0) :
    ∃ R, D.reachableStates q d = .ok R ∧
      ∀ r, r ∈ R ↔ ∃ w, w ≠ [] ∧ (∀ a, a ∈ w → a ∈ D.Sigma) ∧ D.runT q w = r :=
  DFA.reachableStates_pos' D hv q hq d hd

/-- `t` is not reachable from itself by a non-empty word, `p` is -/
example : exE.valid = true ∧ "t" ∈ exE.Q ∧ exE.reachableStates "t" 1 = .ok ["d"] ∧
    exD.reachableStates "p" 1 = .ok ["q", "p"] ∧ exD.reachableStates "z" 3 = .ok ["p", "z", "q"] :=
  ⟨by decide, by decide, rfl, rfl, rfl⟩

/-! ### removal of unreachable states -/

/-- `dfa_remove_unreachable_states`.  The hypothesis `hnd` (unique keys in `δ`) holds for every Python dict;
    in the association-list model it is needed, see the counterexample below. -/
theorem removeUnreachable_spec (D : DFA σ τ) (hv : D.valid = true)
    (hnd : (D.delta.map (·.1)).Nodup) :
    ∃ D', D.removeUnreachable = .ok D' ∧ D'.valid = true ∧ (∀ a, a ∈ D'.Sigma ↔ a ∈ D.Sigma) ∧
      (∀ r, r ∈ D'.Q ↔ D.Reachable r) ∧
      ∀ w, (∀ a, a ∈ w → a ∈ D.Sigma) → (D'.Accepts w ↔ D.Accepts w) := by
  obtain ⟨Q1, hR, hm⟩ := DFA.reachableStates_zero' D hv D.q0 (DFA.valid_q0 hv)
  have hq0 : D.q0 ∈ Q1 := (hm _).mpr ⟨[], fun _ h => (by cases h), rfl⟩
  have hsub : ∀ q, q ∈ Q1 → q ∈ D.Q := by
    intro q hq
    obtain ⟨w, hw, rfl⟩ := (hm q).mp hq
    exact DFA.runT_mem hv (DFA.valid_q0 hv) hw
  have hcl : ∀ q, q ∈ Q1 → ∀ a, a ∈ D.Sigma → D.next q a ∈ Q1 := by
    intro q hq a ha
    obtain ⟨w, hw, rfl⟩ := (hm q).mp hq
    refine (hm _).mpr ⟨w ++ [a], ?_, ?_⟩
    · intro b hb
      rcases List.mem_append.mp hb with hb | hb
      · exact hw b hb
      · rw [List.mem_singleton.mp hb]; exact ha
    · rw [DFA.runT_append]; rfl
  have hv' := DFA.restrict_valid D hv hnd Q1 hsub hq0 hcl
  refine ⟨D.restrict Q1, ?_, hv', fun a => Iff.rfl, ?_, ?_⟩
  · rw [DFA.removeUnreachable_eq D hR, DFA.checked_of_valid hv']
  · intro r
    have hQ : (D.restrict Q1).Q = Q1 := rfl
    rw [hQ, hm]
    unfold DFA.Reachable
    constructor
    · rintro ⟨w, hw, rfl⟩; exact ⟨w, hw, DFA.Run_runT hv (DFA.valid_q0 hv) hw⟩
    · rintro ⟨w, hw, hr⟩; exact ⟨w, hw, hr.eq_runT.symm⟩
  · intro w hw
    have hw' : ∀ a, a ∈ w → a ∈ (D.restrict Q1).Sigma := hw
    rw [DFA.Accepts_iff_runT hv' hw', DFA.Accepts_iff_runT hv hw]
    have hq : (D.restrict Q1).q0 = D.q0 := rfl
    have hF : (D.restrict Q1).F = sinter D.F Q1 := rfl
    rw [hq, hF, DFA.restrict_runT D Q1 hcl hq0 w hw, mem_sinter]
    constructor
    · exact fun h => h.1
    · exact fun h => ⟨h, (hm _).mpr ⟨w, hw, rfl⟩⟩

example : exD.valid = true ∧ (exD.delta.map (·.1)).Nodup ∧
    (exD.removeUnreachable.map fun D' => (D'.Q, D'.F, D'.delta.length)) = .ok (["p", "q"], ["q"], 4) :=
  ⟨by decide, by decide, rfl⟩

/-- without `hnd` the statement fails in the model: the shadowed second binding of `("p","a")` survives the
    filter and points to the removed state `z`, so the constructor's validity assertion fails -/
example : exDup.valid = true ∧
    (exDup.removeUnreachable.map fun D' => D'.Q) = .error .assertion :=
  ⟨by decide, rfl⟩

/-! ### no_extend -/

/-- `dfa_no_extend`: keeps exactly the words of L(D) that are not a proper prefix of another word of L(D) -/
theorem noExtend_spec (D : DFA σ τ) (hv : D.valid = true) :
    ∃ D', D.noExtend = .ok D' ∧ D'.valid = true ∧
      ∀ w, (∀ a, a ∈ w → a ∈ D.Sigma) →
        (D'.Accepts w ↔
          (D.Accepts w ∧ ∀ v, v ≠ [] → (∀ a, a ∈ v → a ∈ D.Sigma) → ¬ D.Accepts (w ++ v))) := by
  have hv' : ({ D with F := D.F.filter D.noExtTest } : DFA σ τ).valid = true :=
    DFA.withF_valid D hv _ (fun f hf => (List.mem_filter.mp hf).1)
  refine ⟨{ D with F := D.F.filter D.noExtTest }, ?_, hv', ?_⟩
  · rw [DFA.noExtend_eq D hv, DFA.checked_of_valid hv']
  · intro w hw
    have hw' : ∀ a, a ∈ w → a ∈ ({ D with F := D.F.filter D.noExtTest } : DFA σ τ).Sigma := hw
    rw [DFA.Accepts_iff_runT hv' hw', DFA.Accepts_iff_runT hv hw]
    have hrun : ({ D with F := D.F.filter D.noExtTest } : DFA σ τ).runT D.q0 w = D.runT D.q0 w :=
      DFA.runT_congr (D := { D with F := D.F.filter D.noExtTest }) (D' := D) rfl _ _
    have hq : ({ D with F := D.F.filter D.noExtTest } : DFA σ τ).q0 = D.q0 := rfl
    have hF : ({ D with F := D.F.filter D.noExtTest } : DFA σ τ).F = D.F.filter D.noExtTest := rfl
    rw [hq, hF, hrun, List.mem_filter,
      DFA.noExtTest_iff D hv _ (DFA.runT_mem hv (DFA.valid_q0 hv) hw)]
    have hiff : ∀ v, (∀ a, a ∈ v → a ∈ D.Sigma) →
        (D.Accepts (w ++ v) ↔ D.runT (D.runT D.q0 w) v ∈ D.F) := by
      intro v hvw
      rw [DFA.Accepts_iff_runT hv (by
        intro a ha
        rcases List.mem_append.mp ha with ha | ha
        · exact hw a ha
        · exact hvw a ha), DFA.runT_append]
    constructor
    · rintro ⟨h1, h2⟩
      exact ⟨h1, fun v hne hvw hacc => h2 v hne hvw ((hiff v hvw).mp hacc)⟩
    · rintro ⟨h1, h2⟩
      exact ⟨h1, fun v hne hvw hF' => h2 v hne hvw ((hiff v hvw).mpr hF')⟩

/-- `exE` accepts ε and `a`; only `a` has no accepted proper extension -/
example : exE.valid = true ∧ (exE.noExtend.map fun D' => D'.F) = .ok ["t"] ∧
    (exD.noExtend.map fun D' => D'.F) = .ok [] :=
  ⟨by decide, rfl, rfl⟩

/-! ### reverse -/

/-- `dfa_reverse`: a valid NFA whose language is the mirror image -/
theorem reverse_valid (D : DFA σ τ) (fresh : σ) (eps : τ) (hv : D.valid = true)
    (hf : fresh ∉ D.Q) (he : eps ∉ D.Sigma) : (D.reverse fresh eps).valid = true := by
  -- freshness of the new initial state is not needed for validity (only for the language)
  have _ := hf
  exact DFA.reverse_valid' D fresh eps hv he

example : exD.valid = true ∧ "q1" ∉ exD.Q ∧ "" ∉ exD.Sigma ∧ (exD.reverse "q1" "").valid = true ∧
    (exD.reverse "q1" "").delta =
      [(("q", "a"), ["p", "q"]), (("p", "b"), ["p", "q"]), (("p", "a"), ["z"]), (("z", "b"), ["z"]),
       (("q1", ""), ["q", "z"])] := by
  decide

/-- The hypothesis `hnd` (unique keys in `δ`) holds for every Python dict; in the association-list model it
    is needed, see the counterexample below. (`hw` is not needed: both sides are false for words that are
    not over Σ.) -/
theorem reverse_lang (D : DFA σ τ) (fresh : σ) (eps : τ) (hv : D.valid = true)
    (hf : fresh ∉ D.Q) (he : eps ∉ D.Sigma) (hnd : (D.delta.map (·.1)).Nodup)
    (w : List τ) (hw : ∀ a, a ∈ w → a ∈ D.Sigma) :
    (D.reverse fresh eps).Accepts w ↔ D.Accepts w.reverse := by
  have _ := hw
  exact DFA.reverse_accepts_iff D fresh eps hv hf he hnd w

/-- `exD` accepts the words ending in `a`, its reversal those beginning with `a` -/
example : (exD.reverse "q1" "").Accepts ["a", "b"] ∧ ¬ (exD.reverse "q1" "").Accepts ["b", "a"] := by
  have hw : ∀ a, a ∈ ["a", "b"] → a ∈ exD.Sigma := by decide
  have hw' : ∀ a, a ∈ ["b", "a"] → a ∈ exD.Sigma := by decide
  rw [reverse_lang exD "q1" "" exD_valid (by decide) (by decide) exD_nodup _ hw,
    reverse_lang exD "q1" "" exD_valid (by decide) (by decide) exD_nodup _ hw',
    DFA.Accepts_iff_runT exD_valid (by decide), DFA.Accepts_iff_runT exD_valid (by decide)]
  decide

/-- without `hnd` the statement fails in the model: `addEdge` folds over the shadowed binding
    `(("p","a"),"z")` too, so the reversed automaton accepts `a` although `L(exDup) = ∅` -/
example : exDup.valid = true ∧ (exDup.reverse "q1" "").Accepts ["a"] ∧ ¬ exDup.Accepts ["a"] := by
  refine ⟨exDup_valid, ?_, ?_⟩
  · refine ⟨"p", by decide, ?_⟩
    refine NFA.Run.eps (q' := "z") ⟨["z"], by decide, by decide⟩ ?_
    refine NFA.Run.sym (q' := "p") (by decide) ⟨["p", "z"], by decide, by decide⟩ ?_
    exact NFA.Run.nil _
  · rw [DFA.Accepts_iff_runT exDup_valid (by decide)]
    decide

#print axioms reachableStates_zero
#print axioms reachableStates_pos
#print axioms removeUnreachable_spec
#print axioms noExtend_spec
#print axioms reverse_valid
#print axioms reverse_lang

end Gamba
