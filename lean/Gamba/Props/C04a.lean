/-
  Gamba.Props.C04a — `dfa_minimize` (table filling): the fixed point of the table marks exactly the
  inequivalent pairs and the loop terminates within its fuel; the result is a valid DFA over the same
  alphabet, with the same language, whose states are the Nerode classes of ALL states of the input
  (unreachable ones included) and are pairwise distinguishable.
-/
import Gamba.Model.DFA
import Gamba.Model.Minimize
import Gamba.Spec.Automata
import Gamba.Proofs.DFABasic
import Gamba.Proofs.MinBasic
import Gamba.Proofs.C04a
namespace Gamba
variable {σ τ : Type} [DecidableEq σ] [DecidableEq τ]

/-- the table-filling fixed point marks exactly the distinguishable pairs (of distinct positions of Q),
    and the loop terminates within its fuel -/
theorem table_exact (D : DFA σ τ) (hv : D.valid = true) (_hQ : D.Q.Nodup) :
    ∃ m, D.table = .ok m ∧ ∀ p q, p ∈ D.Q → q ∈ D.Q → (marked m p q = true ↔ ¬ D.Equiv p q) := by
  obtain ⟨m, h1, _, h3⟩ := D.table_exact' hv
  exact ⟨m, h1, h3⟩

/-- `dfa_minimize`: result valid, same alphabet and language, states = Nerode classes of ALL states,
    pairwise distinguishable -/
theorem minimizeTable_spec (D : DFA σ τ) (hv : D.valid = true) (_hQ : D.Q.Nodup) :
    ∃ M, D.minimizeTable = .ok M ∧ M.valid = true ∧ M.Sigma = D.Sigma ∧ D.IsNerode M.Q ∧
      (∀ w, (∀ a, a ∈ w → a ∈ D.Sigma) → (M.Accepts w ↔ D.Accepts w)) ∧
      (∀ B C, B ∈ M.Q → C ∈ M.Q → B ≠ C → M.Dist B C) :=
  D.minimizeTable_spec' hv

/-! ### a concrete instance: 4 states, `q1` and `q2` equivalent -/

/-- words over `{a,b}`; `q0 -a-> q1`, `q0 -b-> q2`, `q1, q2 -a/b-> q3`, `q3` absorbing and final -/
def exC04 : DFA String String :=
  { Q := ["q0", "q1", "q2", "q3"]
    Sigma := ["a", "b"]
    delta := [(("q0", "a"), "q1"), (("q0", "b"), "q2"), (("q1", "a"), "q3"), (("q1", "b"), "q3"),
              (("q2", "a"), "q3"), (("q2", "b"), "q3"), (("q3", "a"), "q3"), (("q3", "b"), "q3")]
    q0 := "q0"
    F := ["q3"] }

theorem exC04_valid : exC04.valid = true := by decide
theorem exC04_nodup : exC04.Q.Nodup := by decide

/-- the hypotheses of both theorems hold on `exC04`; the table marks every pair except `(q1, q2)` -/
example : exC04.valid = true ∧ exC04.Q.Nodup ∧
    exC04.table = .ok [("q0", "q3"), ("q1", "q3"), ("q2", "q3"), ("q0", "q1"), ("q0", "q2")] :=
  ⟨exC04_valid, exC04_nodup, by rfl⟩

example : ∃ m, exC04.table = .ok m ∧ marked m "q1" "q2" = false ∧ marked m "q0" "q1" = true ∧
    exC04.Equiv "q1" "q2" ∧ ¬ exC04.Equiv "q0" "q1" := by
  obtain ⟨m, hm, hE⟩ := table_exact exC04 exC04_valid exC04_nodup
  have hm' : exC04.table = .ok [("q0", "q3"), ("q1", "q3"), ("q2", "q3"), ("q0", "q1"), ("q0", "q2")] := by
    rfl
  have : m = [("q0", "q3"), ("q1", "q3"), ("q2", "q3"), ("q0", "q1"), ("q0", "q2")] := by
    rw [hm] at hm'; exact Except.ok.inj hm'
  subst this
  have h12 : marked [("q0", "q3"), ("q1", "q3"), ("q2", "q3"), ("q0", "q1"), ("q0", "q2")] "q1" "q2" = false := by
    decide
  have h01 : marked [("q0", "q3"), ("q1", "q3"), ("q2", "q3"), ("q0", "q1"), ("q0", "q2")] "q0" "q1" = true := by
    decide
  refine ⟨_, hm, h12, h01, ?_, (hE "q0" "q1" (by decide) (by decide)).mp h01⟩
  apply Classical.byContradiction
  intro hne
  have := (hE "q1" "q2" (by decide) (by decide)).mpr hne
  rw [h12] at this
  cases this

/-- `minimizeTable` merges `q1` and `q2`: three states -/
example : ∃ M, exC04.minimizeTable = .ok M ∧ M.Q = [["q0"], ["q1", "q2"], ["q3"]] ∧
    M.q0 = ["q0"] ∧ M.F = [["q3"]] ∧ M.next ["q0"] "b" = ["q1", "q2"] ∧ M.next ["q1", "q2"] "a" = ["q3"] := by
  refine ⟨exC04.ofBlocks [["q0"], ["q1", "q2"], ["q3"]], by rfl, rfl, by decide, by decide,
    by decide, by decide⟩

example : ∃ M, exC04.minimizeTable = .ok M ∧ M.Q.length = 3 ∧ exC04.IsNerode M.Q ∧
    (M.Accepts ["a", "b"] ↔ exC04.Accepts ["a", "b"]) := by
  obtain ⟨M, h1, _, _, h4, h5, _⟩ := minimizeTable_spec exC04 exC04_valid exC04_nodup
  have hM : exC04.minimizeTable = .ok (exC04.ofBlocks [["q0"], ["q1", "q2"], ["q3"]]) := by rfl
  refine ⟨M, h1, ?_, h4, h5 _ (by decide)⟩
  rw [h1] at hM
  rw [Except.ok.inj hM]
  rfl

#print axioms table_exact
#print axioms minimizeTable_spec

end Gamba
