/-
  Gamba.Props.C04b — property C04 for the Moore-style refinement `dfa_quotient` (`DFA.quotient`):
  the loop terminates within its fuel `|Q| + 2`, and the result is the valid quotient of `D` by the Nerode
  partition of ALL states (same alphabet, same language, pairwise distinguishable states).

  Remark: the hypothesis `hQ : D.Q.Nodup` is not needed by the proof (the fuel bound is obtained by a
  pigeonhole on the heads of the pairwise disjoint non-empty blocks, which holds for any list `Q`);
  it is kept because the statement was requested in this form.
-/
import Gamba.Model.DFA
import Gamba.Model.Minimize
import Gamba.Spec.Automata
import Gamba.Proofs.DFABasic
import Gamba.Proofs.MinBasic
import Gamba.Proofs.C04b
namespace Gamba
variable {σ τ : Type} [DecidableEq σ] [DecidableEq τ]

/-- `dfa_quotient`: terminates within its fuel; result valid, same alphabet and language, states = Nerode classes of ALL states, pairwise distinguishable -/
theorem quotient_spec (D : DFA σ τ) (hv : D.valid = true) (hQ : D.Q.Nodup) :
    ∃ M, D.quotient = .ok M ∧ M.valid = true ∧ M.Sigma = D.Sigma ∧ D.IsNerode M.Q ∧
      (∀ w, (∀ a, a ∈ w → a ∈ D.Sigma) → (M.Accepts w ↔ D.Accepts w)) ∧
      (∀ B C, B ∈ M.Q → C ∈ M.Q → B ≠ C → M.Dist B C) := by
  have _ := hQ
  obtain ⟨R, hR, hN⟩ := C04b.quotient_ok D hv
  obtain ⟨h1, h2, _, h4, h5⟩ := DFA.ofBlocks_nerode D hv R hN
  exact ⟨D.ofBlocks R, hR, h1, h2, hN, h4, h5⟩

/-! ### non-vacuity: a 4-state DFA with two equivalent states (`"1"` and `"2"`) -/

/-- `0 -a-> 1`, `0 -b-> 2`, `1,2 -a-> 3`, `1,2 -b-> 0`, `3` absorbing and final -/
def exC04b : DFA String String :=
  { Q := ["0", "1", "2", "3"], Sigma := ["a", "b"],
    delta := [(("0", "a"), "1"), (("0", "b"), "2"), (("1", "a"), "3"), (("1", "b"), "0"),
              (("2", "a"), "3"), (("2", "b"), "0"), (("3", "a"), "3"), (("3", "b"), "3")],
    q0 := "0", F := ["3"] }

/-- the same automaton with `F = ∅`: the initial partition `[[], Q]` contains an empty block -/
def exC04bNoF : DFA String String := { exC04b with F := [] }

example : exC04b.valid = true ∧ exC04b.Q.Nodup := ⟨by decide, by decide⟩

example : exC04bNoF.valid = true ∧ exC04bNoF.Q.Nodup := ⟨by decide, by decide⟩

/-- `"1"` and `"2"` are merged, `"0"` and `"3"` stay alone -/
example : exC04b.quotient = .ok
    { Q := [["3"], ["0"], ["1", "2"]], Sigma := ["a", "b"],
      delta := [((["3"], "a"), ["3"]), ((["3"], "b"), ["3"]),
                ((["0"], "a"), ["1", "2"]), ((["0"], "b"), ["1", "2"]),
                ((["1", "2"], "a"), ["3"]), ((["1", "2"], "b"), ["0"])],
      q0 := ["0"], F := [["3"]] } := by rfl

/-- two rounds are needed (one split, one confirming round) and suffice -/
example : exC04b.quotientLoop 2 [exC04b.F, sdiff exC04b.Q exC04b.F] = .ok [["3"], ["0"], ["1", "2"]] ∧
    exC04b.quotientLoop 1 [exC04b.F, sdiff exC04b.Q exC04b.F] = .error .fuel := ⟨by rfl, by rfl⟩

/-- `F = ∅`: the first round only drops the empty block, the second one confirms; one class, no final state -/
example : exC04bNoF.quotient = .ok
    { Q := [["0", "1", "2", "3"]], Sigma := ["a", "b"],
      delta := [((["0", "1", "2", "3"], "a"), ["0", "1", "2", "3"]),
                ((["0", "1", "2", "3"], "b"), ["0", "1", "2", "3"])],
      q0 := ["0", "1", "2", "3"], F := [] } := by rfl

example : exC04bNoF.quotientLoop 2 [exC04bNoF.F, sdiff exC04bNoF.Q exC04bNoF.F] = .ok [["0", "1", "2", "3"]] ∧
    exC04bNoF.quotientLoop 1 [exC04bNoF.F, sdiff exC04bNoF.Q exC04bNoF.F] = .error .fuel := ⟨by rfl, by rfl⟩

/-- the conclusion of `quotient_spec` instantiated on the example -/
example : ∃ M, exC04b.quotient = .ok M ∧ M.valid = true ∧ exC04b.IsNerode M.Q :=
  let ⟨M, h1, h2, _, h4, _⟩ := quotient_spec exC04b (by decide) (by decide)
  ⟨M, h1, h2, h4⟩

#print axioms quotient_spec

end Gamba
