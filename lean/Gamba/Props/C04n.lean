/-
  Gamba.Props.C04n — property C04 for the automata the three minimisers REALLY return, i.e. with every
  Myhill–Nerode class named by `print_state_set` (`M.named = M.mapStates printStateSet`).

  For a DFA whose state names are CLEAN (non-empty, no comma) the naming is injective on the classes, so the
  named automaton is valid, has the same alphabet and language, pairwise distinguishable states, and as many
  states as there are classes (`minimize_named_clean`, `quotient_named_clean`, `hopcroft_named_clean`).

  The hypothesis on the names is needed: with states `a ≡ b` and a third state called `"a,b"` the classes
  `{a, b}` and `{"a,b"}` are both named `"{a,b}"`, and the returned automaton accepts a different language
  (`minimize_name_collision_witness`, the recorded defect `minimize-class-name-collision`).
-/
import Gamba.Model.DFA
import Gamba.Model.Minimize
import Gamba.Spec.Automata
import Gamba.Proofs.C04n
import Gamba.Props.C04a
import Gamba.Props.C04b
import Gamba.Props.C04c
namespace Gamba

/-- `dfa_minimize` with `print_state_set` names, clean state names -/
theorem minimize_named_clean (D : DFA String String) (hv : D.valid = true) (hQ : D.Q.Nodup)
    (hn : ∀ q, q ∈ D.Q → CleanName q) :
    ∃ M, D.minimizeTable = .ok M ∧ M.named.valid = true ∧ M.named.Sigma = D.Sigma ∧
      (∀ w, (∀ a, a ∈ w → a ∈ D.Sigma) → (M.named.Accepts w ↔ D.Accepts w)) ∧
      (∀ p q, p ∈ M.named.Q → q ∈ M.named.Q → p ≠ q → M.named.Dist p q) ∧
      (dedup M.named.Q).length = (dedup M.Q).length := by
  obtain ⟨M, hM, hMv, hS, hN, hL, hD⟩ := minimizeTable_spec D hv hQ
  exact ⟨M, hM, D.named_of_nerode hn M hMv hS hN hL hD⟩

/-- non-vacuity: `exC04` has clean names; its named minimal automaton has three states -/
example : exC04.valid = true ∧ exC04.Q.Nodup ∧ (∀ q, q ∈ exC04.Q → CleanName q) :=
  ⟨exC04_valid, exC04_nodup, by decide⟩

example : ∃ M, exC04.minimizeTable = .ok M ∧ M.named.Q = ["{q0}", "{q1,q2}", "{q3}"] ∧
    M.named.q0 = "{q0}" ∧ M.named.F = ["{q3}"] ∧ M.named.valid = true ∧
    (M.named.Accepts ["a", "b"] ↔ exC04.Accepts ["a", "b"]) := by
  obtain ⟨M, h1, h2, _, h4, _⟩ := minimize_named_clean exC04 exC04_valid exC04_nodup (by decide)
  have hM : exC04.minimizeTable = .ok (exC04.ofBlocks [["q0"], ["q1", "q2"], ["q3"]]) := by rfl
  rw [h1] at hM
  cases hM
  refine ⟨_, h1, ?_, ?_, ?_, h2, h4 _ (by decide)⟩ <;>
    simp [DFA.named, DFA.mapStates, DFA.ofBlocks, blockOf, exC04, sdisjoint, printStateSet, sortStrings, dedup,
      List.mergeSort]

/-- `dfa_quotient` with `print_state_set` names, clean state names -/
theorem quotient_named_clean (D : DFA String String) (hv : D.valid = true) (hQ : D.Q.Nodup)
    (hn : ∀ q, q ∈ D.Q → CleanName q) :
    ∃ M, D.quotient = .ok M ∧ M.named.valid = true ∧ M.named.Sigma = D.Sigma ∧
      (∀ w, (∀ a, a ∈ w → a ∈ D.Sigma) → (M.named.Accepts w ↔ D.Accepts w)) ∧
      (∀ p q, p ∈ M.named.Q → q ∈ M.named.Q → p ≠ q → M.named.Dist p q) ∧
      (dedup M.named.Q).length = (dedup M.Q).length := by
  obtain ⟨M, hM, hMv, hS, hN, hL, hD⟩ := quotient_spec D hv hQ
  exact ⟨M, hM, D.named_of_nerode hn M hMv hS hN hL hD⟩

example : exC04b.valid = true ∧ exC04b.Q.Nodup ∧ (∀ q, q ∈ exC04b.Q → CleanName q) :=
  ⟨by decide, by decide, by decide⟩

example : exC04bNoF.valid = true ∧ exC04bNoF.Q.Nodup ∧ (∀ q, q ∈ exC04bNoF.Q → CleanName q) :=
  ⟨by decide, by decide, by decide⟩

/-- the conclusion instantiated on `exC04b`: three named states, none merged -/
example : ∃ M, exC04b.quotient = .ok M ∧ M.named.valid = true ∧ (dedup M.named.Q).length = 3 := by
  obtain ⟨M, h1, h2, _, _, _, h6⟩ := quotient_named_clean exC04b (by decide) (by decide) (by decide)
  have hM : exC04b.quotient = .ok (exC04b.ofBlocks [["3"], ["0"], ["1", "2"]]) := by rfl
  rw [h1] at hM
  cases hM
  exact ⟨_, h1, h2, h6.trans (by decide)⟩

/-- `dfa_hopfcroft` with `print_state_set` names, clean state names; every pop order -/
theorem hopcroft_named_clean (D : DFA String String) (hv : D.valid = true) (hQ : D.Q.Nodup)
    (hn : ∀ q, q ∈ D.Q → CleanName q) (s : Sched) (M : DFA (List String) String) (hM : D.hopcroft s = .ok M) :
    M.named.valid = true ∧ M.named.Sigma = D.Sigma ∧
      (∀ w, (∀ a, a ∈ w → a ∈ D.Sigma) → (M.named.Accepts w ↔ D.Accepts w)) ∧
      (∀ p q, p ∈ M.named.Q → q ∈ M.named.Q → p ≠ q → M.named.Dist p q) ∧
      (dedup M.named.Q).length = (dedup M.Q).length := by
  obtain ⟨hMv, hS, hN, hL, hD⟩ := hopcroft_spec D hv hQ s M hM
  exact D.named_of_nerode hn M hMv hS hN hL hD

example : C04c.exD.valid = true ∧ C04c.exD.Q.Nodup ∧ (∀ q, q ∈ C04c.exD.Q → CleanName q) :=
  ⟨by decide, by decide, by decide⟩

/-- the hypothesis `D.hopcroft s = .ok M` is satisfiable for every pop order, and the conclusion then applies -/
example (s : Sched) : ∃ M, C04c.exD.hopcroft s = .ok M ∧ M.named.valid = true ∧
    (∀ w, (∀ a, a ∈ w → a ∈ C04c.exD.Sigma) → (M.named.Accepts w ↔ C04c.exD.Accepts w)) := by
  obtain ⟨M, hM⟩ := hopcroft_terminates C04c.exD (by decide) (by decide) s
  obtain ⟨h1, _, h3, _⟩ := hopcroft_named_clean C04c.exD (by decide) (by decide) (by decide) s M hM
  exact ⟨M, hM, h1, h3⟩

/-- the recorded defect `minimize-class-name-collision`, formally: a valid DFA with states `a`, `b` (equivalent),
    `"a,b"` and `c` whose NAMED minimal automaton is not equivalent.  The classes `{a, b}` and `{"a,b"}` are both
    named `"{a,b}"`; the word `b a` leads `D` to the rejecting state `a`, but the named automaton stays in the
    accepting state `"{a,b}"`. -/
theorem minimize_name_collision_witness :
    ∃ (D : DFA String String) (M : DFA (List String) String) (w : List String),
      D.valid = true ∧ D.Q.Nodup ∧ D.quotient = .ok M ∧ (∀ a, a ∈ w → a ∈ D.Sigma) ∧
      ¬ (M.named.Accepts w ↔ D.Accepts w) := by
  refine ⟨C04n.badD, C04n.badM, ["b", "a"], C04n.badD_valid, C04n.badD_nodup, C04n.badD_quotient, by decide, ?_⟩
  rw [C04n.badM_named]
  intro h
  have hN : C04n.badNamed.Accepts ["b", "a"] :=
    (DFA.Accepts_iff_acceptsT C04n.badNamed_valid (w := ["b", "a"]) (by decide)).mpr C04n.badNamed_acceptsT_ba
  have hD := (DFA.Accepts_iff_acceptsT C04n.badD_valid (w := ["b", "a"]) (by decide)).mp (h.mp hN)
  rw [C04n.badD_acceptsT_ba] at hD
  cases hD

/-- the witness in detail: only the name `"a,b"` is not clean; the structured quotient is the correct minimal
    automaton (three classes), two of its classes print alike, and the named automaton — still a valid DFA — has
    two distinct states only -/
example : ¬ (∀ q, q ∈ C04n.badD.Q → CleanName q) ∧ CleanName "a" ∧ CleanName "b" ∧ CleanName "c" ∧
    C04n.badM.Q = [["a,b"], ["a", "b"], ["c"]] ∧ C04n.badM.valid = true ∧
    printStateSet ["a,b"] = printStateSet ["a", "b"] ∧
    ¬ (∀ B C, B ∈ C04n.badM.Q → C ∈ C04n.badM.Q → printStateSet B = printStateSet C → B = C) ∧
    C04n.badM.named.Q = ["{a,b}", "{a,b}", "{c}"] ∧ C04n.badM.named.valid = true ∧
    (dedup C04n.badM.named.Q).length = 2 ∧ (dedup C04n.badM.Q).length = 3 ∧
    C04n.badM.named.accepts ["b", "a"] = .ok true ∧ C04n.badD.accepts ["b", "a"] = .ok false := by
  have hnames : printStateSet ["a,b"] = printStateSet ["a", "b"] := by rw [C04n.name_comma, C04n.name_ab]
  rw [C04n.badM_named]
  refine ⟨fun h => ?_, by decide, by decide, by decide, rfl, by decide, hnames, fun h => ?_, rfl,
    C04n.badNamed_valid, by decide, by decide, by rfl, by rfl⟩
  · exact absurd (h "a,b" (by decide)) (by decide)
  · exact absurd (h ["a,b"] ["a", "b"] (by decide) (by decide) hnames) (by decide)

/-- the other two minimisers find the same three classes on the witness (in another order), so their named
    results merge `{a, b}` and `{"a,b"}` in the same way -/
example : (C04n.badD.minimizeTable).toOption.map (·.Q) = some [["a", "b"], ["a,b"], ["c"]] ∧
    (C04n.badD.hopcroft []).toOption.map (·.Q) = some [["a,b"], ["c"], ["a", "b"]] := ⟨by rfl, by rfl⟩

#print axioms minimize_named_clean
#print axioms quotient_named_clean
#print axioms hopcroft_named_clean
#print axioms minimize_name_collision_witness

end Gamba
