/-
  Gamba.Props.C12d — the two `check_*_language_from_file` checkers AS THE NOTEBOOKS CALL THEM, on text
  (`CheckText.dfaLanguageFile`, `CheckText.nfaLanguageFile`; the reference automaton is the content of a `.dfa` / `.nfa`
  file).  Soundness: the verdict `OK` is only printed when both texts parse to valid automata whose languages agree on
  all words of length ≤ `length`.  Conversely the reference text handed in as the answer is always accepted.
  No hypothesis other than "the verdict is OK" (resp. "the reference text parses").
-/
import Gamba.Model.CheckText
import Gamba.Props.C12a
import Gamba.Props.C12c
import Gamba.Props.C02reg
import Gamba.Proofs.C12d
namespace Gamba
open Parse

/-! ### `check_dfa_language_from_file` -/

/-- `check_dfa_language_from_file` on text: OK ⇒ both texts parse to valid DFAs which accept the same words of
    length ≤ len (each over its own alphabet) -/
theorem dfaLanguageFile_text_sound (answer refText : String) (len : Nat)
    (h : CheckText.dfaLanguageFile answer refText len = .ok) :
    ∃ A D, Parse.parseDfa answer.toList = .ok A ∧ Parse.parseDfa refText.toList = .ok D ∧ A.valid = true ∧ D.valid = true ∧
      ∀ w, w.length ≤ len → ((∀ a, a ∈ w → a ∈ A.Sigma) ∧ A.Accepts w ↔ (∀ a, a ∈ w → a ∈ D.Sigma) ∧ D.Accepts w) := by
  obtain ⟨A, D, h1, h2, hc⟩ := C12d.dfaLanguageFile_unpack h
  have vA := (parseDfa_ok_valid_gen _ _ A h1).1
  have vD := (parseDfa_ok_valid_gen _ _ D h2).1
  refine ⟨A, D, h1, h2, vA, vD, ?_⟩
  intro w hl
  have := chk_equalLanguages_sound _ _ hc w
  rw [dfa_words_exact A vA, dfa_words_exact D vD] at this
  exact ⟨fun hw => (this.mp ⟨hl, hw⟩).2, fun hw => (this.mpr ⟨hl, hw⟩).2⟩

/-- … in the strongest form: a valid DFA accepts no word with a foreign symbol, so the alphabet side conditions can be
    dropped altogether: the two DFAs accept the same words of length ≤ len, whatever their alphabets -/
theorem dfaLanguageFile_text_lang (answer refText : String) (len : Nat)
    (h : CheckText.dfaLanguageFile answer refText len = .ok) :
    ∃ A D, Parse.parseDfa answer.toList = .ok A ∧ Parse.parseDfa refText.toList = .ok D ∧
      ∀ w, w.length ≤ len → (A.Accepts w ↔ D.Accepts w) := by
  obtain ⟨A, D, h1, h2, vA, vD, hL⟩ := dfaLanguageFile_text_sound answer refText len h
  refine ⟨A, D, h1, h2, fun w hl => ?_⟩
  exact ⟨fun hw => ((hL w hl).mp ⟨DFA.Accepts.over vA hw, hw⟩).2, fun hw => ((hL w hl).mpr ⟨DFA.Accepts.over vD hw, hw⟩).2⟩

-- reference: words ending in `a` (2 states); the answer has a redundant third state and another declaration order
example : CheckText.dfaLanguageFile "initial p\nfinal q r\np q a\np p b\nq r a\nq p b\nr q a\nr p b"
    "initial p\nfinal q\np q a\np p b\nq q a\nq p b" 3 = .ok := by decide +kernel
-- words containing an `a` instead: feedback (`ab` is accepted by the answer only)
example : CheckText.dfaLanguageFile "initial p\nfinal q\np q a\np p b\nq q a b"
    "initial p\nfinal q\np q a\np p b\nq q a\nq p b" 3 = .feedback := by decide +kernel
-- … but the two agree on all words of length ≤ 1: the bound `len` in the conclusion is sharp
example : CheckText.dfaLanguageFile "initial p\nfinal q\np q a\np p b\nq q a b"
    "initial p\nfinal q\np q a\np p b\nq q a\nq p b" 1 = .ok := by decide +kernel
-- a partial transition table does not parse: `Error`; likewise an unreadable reference file
example : CheckText.dfaLanguageFile "initial p\nfinal q\np q a\np p b\nq q a"
    "initial p\nfinal q\np q a\np p b\nq q a\nq p b" 3 = .error := by rfl
example : CheckText.dfaLanguageFile "initial p\nfinal q\np q a\np p b\nq q a\nq p b" "initial p q" 3 = .error := by rfl
-- an answer over a LARGER alphabet (`c` leads to a trap): accepted words are over the smaller alphabet on both sides
example : CheckText.dfaLanguageFile "initial p\nfinal q\np q a\np p b\nq q a\nq p b\np t c\nq t c\nt t a b c"
    "initial p\nfinal q\np q a\np p b\nq q a\nq p b" 2 = .ok := by decide +kernel
-- consequence on the first example: the three-state answer accepts `b a` and rejects `a b`
example : ∃ A, Parse.parseDfa "initial p\nfinal q r\np q a\np p b\nq r a\nq p b\nr q a\nr p b".toList = .ok A ∧
    A.Accepts ["b", "a"] ∧ ¬ A.Accepts ["a", "b"] := by
  obtain ⟨A, D, h1, h2, hL⟩ := dfaLanguageFile_text_lang
    "initial p\nfinal q r\np q a\np p b\nq r a\nq p b\nr q a\nr p b" "initial p\nfinal q\np q a\np p b\nq q a\nq p b" 3
    (by decide +kernel)
  have e : Parse.parseDfa "initial p\nfinal q\np q a\np p b\nq q a\nq p b".toList = .ok
      { Q := ["q", "p"], Sigma := ["a", "b"],
        delta := [(("p", "a"), "q"), (("p", "b"), "p"), (("q", "a"), "q"), (("q", "b"), "p")],
        q0 := "p", F := ["q"] } := by rfl
  rw [e] at h2
  cases h2
  refine ⟨A, h1, (hL _ (by decide)).mpr ?_, fun hc => ?_⟩
  · exact (DFA.Accepts_iff_acceptsT (by decide) (w := ["b", "a"]) (by decide)).mpr (by decide)
  · have := (DFA.Accepts_iff_acceptsT (by decide) (w := ["a", "b"]) (by decide)).mp ((hL _ (by decide)).mp hc)
    revert this
    decide

/-- the reference text itself is accepted, for every bound -/
theorem dfaLanguageFile_own_ok (refText : String) (D : DFA String String) (hp : Parse.parseDfa refText.toList = .ok D)
    (len : Nat) : CheckText.dfaLanguageFile refText refText len = .ok := by
  unfold CheckText.dfaLanguageFile
  rw [hp]
  exact (ofBool_ok_iff _).mpr (C12d.equalLanguages_refl _)

example : ∃ D, Parse.parseDfa "initial p\nfinal q\np q a\np p b\nq q a\nq p b".toList = .ok D ∧ D.Q = ["q", "p"] :=
  ⟨_, rfl, rfl⟩
-- the hypothesis is needed: a text that does not parse is answered by `Error`, also against itself
example : CheckText.dfaLanguageFile "initial p q" "initial p q" 3 = .error := by rfl

/-! ### `check_nfa_language_from_file` -/

/-- `check_nfa_language_from_file` on text, for every pop order of the ε-closure worklists: OK ⇒ both texts parse to valid
    NFAs which accept the same words of length ≤ len (each over its own alphabet) -/
theorem nfaLanguageFile_text_sound (answer refText : String) (s : Sched) (len : Nat)
    (h : CheckText.nfaLanguageFile answer refText s len = .ok) :
    ∃ A N, Parse.parseNfa answer.toList = .ok A ∧ Parse.parseNfa refText.toList = .ok N ∧ A.valid = true ∧ N.valid = true ∧
      ∀ w, w.length ≤ len → ((∀ a, a ∈ w → a ∈ A.Sigma) ∧ A.Accepts w ↔ (∀ a, a ∈ w → a ∈ N.Sigma) ∧ N.Accepts w) := by
  obtain ⟨A, N, L1, L2, h1, h2, h3, h4, hc⟩ := C12d.nfaLanguageFile_unpack h
  have vA := (parseNfa_ok_valid_gen _ _ A h1).1
  have vN := (parseNfa_ok_valid_gen _ _ N h2).1
  refine ⟨A, N, h1, h2, vA, vN, ?_⟩
  intro w hl
  obtain ⟨L1', e1, m1⟩ := nfa_words_exact A vA s len
  obtain ⟨L2', e2, m2⟩ := nfa_words_exact N vN s len
  rw [h3] at e1
  rw [h4] at e2
  cases e1
  cases e2
  have := chk_equalLanguages_sound _ _ hc w
  rw [m1, m2] at this
  exact ⟨fun hw => (this.mp ⟨hl, hw⟩).2, fun hw => (this.mpr ⟨hl, hw⟩).2⟩

/-- … in the strongest form: a valid NFA accepts no word with a foreign symbol either -/
theorem nfaLanguageFile_text_lang (answer refText : String) (s : Sched) (len : Nat)
    (h : CheckText.nfaLanguageFile answer refText s len = .ok) :
    ∃ A N, Parse.parseNfa answer.toList = .ok A ∧ Parse.parseNfa refText.toList = .ok N ∧
      ∀ w, w.length ≤ len → (A.Accepts w ↔ N.Accepts w) := by
  obtain ⟨A, N, h1, h2, vA, vN, hL⟩ := nfaLanguageFile_text_sound answer refText s len h
  refine ⟨A, N, h1, h2, fun w hl => ?_⟩
  exact ⟨fun hw => ((hL w hl).mp ⟨NFA.Accepts.over vA hw, hw⟩).2, fun hw => ((hL w hl).mpr ⟨NFA.Accepts.over vN hw, hw⟩).2⟩

-- reference: `A -x-> B`, `A -ε-> B`, accepting `B` (language {ε, x}); the answer is a deterministic automaton for it
example : CheckText.nfaLanguageFile "initial s\nfinal s t\ns t x" "initial A\nfinal B\nA B x ε" [3, 1, 2] 3 = .ok := by rfl
-- ε not accepted by the answer: feedback
example : CheckText.nfaLanguageFile "initial s\nfinal t\ns t x" "initial A\nfinal B\nA B x ε" [] 3 = .feedback := by rfl
-- two initial states: `Error`
example : CheckText.nfaLanguageFile "initial s u\nfinal s t\ns t x" "initial A\nfinal B\nA B x ε" [] 3 = .error := by rfl

/-- the reference text itself is accepted, for every bound and every pop order: the enumeration `wordsUpTo` cannot fail
    on a parser result (`nfa_words_exact`) -/
theorem nfaLanguageFile_own_ok (refText : String) (N : NFA String String) (hp : Parse.parseNfa refText.toList = .ok N)
    (s : Sched) (len : Nat) : CheckText.nfaLanguageFile refText refText s len = .ok := by
  have vN := (parseNfa_ok_valid_gen _ _ N hp).1
  obtain ⟨L, hL, _⟩ := nfa_words_exact N vN s len
  unfold CheckText.nfaLanguageFile
  rw [hp]
  simp only [hL]
  exact (ofBool_ok_iff _).mpr (C12d.equalLanguages_refl _)

example : ∃ N, Parse.parseNfa "initial A\nfinal B\nA B x ε".toList = .ok N ∧ N.Q = ["A", "B"] := ⟨_, rfl, rfl⟩
example : CheckText.nfaLanguageFile "initial A B" "initial A B" [] 3 = .error := by rfl

/-- the verdict `OK` is returned only if both arguments parse (the clauses of `text_ok_not_error` for the two new checkers) -/
theorem languageFile_ok_not_error :
    (∀ answer refText len, CheckText.dfaLanguageFile answer refText len = .ok →
      (∃ A, parseDfa answer.toList = .ok A) ∧ ∃ D, parseDfa refText.toList = .ok D) ∧
    (∀ answer refText s len, CheckText.nfaLanguageFile answer refText s len = .ok →
      (∃ A, parseNfa answer.toList = .ok A) ∧ ∃ N, parseNfa refText.toList = .ok N) := by
  refine ⟨?_, ?_⟩
  · intro answer refText len h
    obtain ⟨A, D, h1, h2, _⟩ := C12d.dfaLanguageFile_unpack h
    exact ⟨⟨A, h1⟩, D, h2⟩
  · intro answer refText s len h
    obtain ⟨A, N, _, _, h1, h2, _⟩ := C12d.nfaLanguageFile_unpack h
    exact ⟨⟨A, h1⟩, N, h2⟩

#print axioms dfaLanguageFile_text_sound
#print axioms dfaLanguageFile_text_lang
#print axioms dfaLanguageFile_own_ok
#print axioms nfaLanguageFile_text_sound
#print axioms nfaLanguageFile_text_lang
#print axioms nfaLanguageFile_own_ok
#print axioms languageFile_ok_not_error

end Gamba
