/-
  Gamba.Props.C05 — the regular-expression matcher, simplifier and bounded enumerator
  agree with the denotational semantics `Regexp.Lang`.
-/
import Gamba.Model.Regexp
import Gamba.Spec.Regexp
import Gamba.Proofs.C05
namespace Gamba

set_option linter.unusedSectionVars false

variable {τ : Type} [DecidableEq τ]

/-- the split matcher decides membership in the denoted language (nested stars, star of nullable operands included) -/
theorem regexp_matches_iff (r : Regexp τ) (w : List τ) : r.matchesW w = true ↔ r.Lang w :=
  Regexp.matchesAux_iff r w.length w (Nat.le_refl _)

-- (`matchesAux` is defined by well-founded recursion, so `decide` cannot unfold it; `simp` evaluates it)
example : (Regexp.star (.sum (.sym 'a') .one)).matchesW ['a', 'a'] = true := by
  simp [Regexp.matchesW, Regexp.matchesAux, Regexp.splits]
example : (Regexp.star (.star (.sum (.sym 'a') .one))).matchesW ['a', 'b'] = false := by
  simp [Regexp.matchesW, Regexp.matchesAux, Regexp.splits]
example : (Regexp.star (.star (.sum (.sym 'a') .one)) : Regexp Char).Lang ['a', 'a'] :=
  (regexp_matches_iff _ _).1 (by simp [Regexp.matchesW, Regexp.matchesAux, Regexp.splits])

/-- simplification preserves the language -/
theorem regexp_simplify_lang (r : Regexp τ) (w : List τ) : r.simplify.Lang w ↔ r.Lang w :=
  Regexp.simplify_lang r w

/-- simplification never makes the expression larger (the library's `regexp_size` measure) -/
theorem regexp_simplify_size (r : Regexp τ) : r.simplify.size ≤ r.size :=
  Regexp.simplify_size r

/-- nor in number of nodes -/
theorem regexp_simplify_nodes (r : Regexp τ) : r.simplify.nodes ≤ r.nodes :=
  Regexp.simplify_nodes r

example : (Regexp.cat (.star (.star (.sym 'a'))) (.sum .zero (.cat .one (.star .zero)))).simplify
    = Regexp.star (.sym 'a') := by decide
example : (Regexp.cat (.sum (.sym 'a') .zero) (.cat (.sym 'b') .zero) : Regexp Char).simplify
    = Regexp.zero := by decide

/-- bounded enumeration is exact: `wordsUpTo r n` lists exactly the words of length ≤ n of the language -/
theorem regexp_words_exact (r : Regexp τ) (n : Nat) (w : List τ) :
    w ∈ r.wordsUpTo n ↔ w.length ≤ n ∧ r.Lang w :=
  Regexp.mem_wordsUpTo r n w

/-- hence enumeration agrees with the matcher -/
theorem regexp_words_matches (r : Regexp τ) (n : Nat) (w : List τ) :
    w ∈ r.wordsUpTo n ↔ w.length ≤ n ∧ r.matchesW w = true := by
  rw [regexp_words_exact, regexp_matches_iff]

example : (Regexp.star (.sum (.sym 'a') .one)).wordsUpTo 2 = [[], ['a', 'a'], ['a']] := by
  simp [Regexp.wordsUpTo, Regexp.starWords, sunion, sunions, Regexp.concatLang, dedup, List.range,
    List.range.loop]
example : (Regexp.cat (.star (.sym 'a')) (.sym 'b')).wordsUpTo 2 = [['b'], ['a', 'b']] := by
  simp [Regexp.wordsUpTo, Regexp.starWords, sunion, sunions, Regexp.concatLang, dedup, List.range,
    List.range.loop]

#print axioms regexp_matches_iff
#print axioms regexp_simplify_lang
#print axioms regexp_simplify_size
#print axioms regexp_simplify_nodes
#print axioms regexp_words_exact
#print axioms regexp_words_matches

end Gamba
