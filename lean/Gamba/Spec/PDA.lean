/-
  Gamba.Spec.PDA — Sipser-style PDA semantics (acceptance by final state), stack top = last element.
-/
import Gamba.Model.PDA
namespace Gamba
variable {σ τ γ : Type} [DecidableEq σ] [DecidableEq τ] [DecidableEq γ]

/-- `[]` for ε, `[x]` otherwise -/
def PDA.stk (P : PDA σ τ γ) (x : γ) : List γ := if x = P.epsG then [] else [x]

/-- one move reading `a` (`a = P.eps` for an ε-move): pop `u` (if not ε), push `v` (if not ε) -/
inductive PDA.Move (P : PDA σ τ γ) (a : τ) : PConf σ γ → PConf σ γ → Prop
  | mk {p q : σ} {u v : γ} {T : List (σ × γ)} {st : List γ} :
      P.delta.lookup (p, a, u) = some T → (q, v) ∈ T →
      PDA.Move P a (p, st ++ P.stk u) (q, st ++ P.stk v)

/-- `P.Run c w c'`: from configuration `c`, consuming exactly `w`, the PDA can reach `c'` -/
inductive PDA.Run (P : PDA σ τ γ) : PConf σ γ → List τ → PConf σ γ → Prop
  | nil (c : PConf σ γ) : PDA.Run P c [] c
  | eps {c c' c'' : PConf σ γ} {w : List τ} : P.Move P.eps c c' → PDA.Run P c' w c'' → PDA.Run P c w c''
  | sym {c c' c'' : PConf σ γ} {a : τ} {w : List τ} :
      a ≠ P.eps → P.Move a c c' → PDA.Run P c' w c'' → PDA.Run P c (a :: w) c''

/-- `w ∈ L(P)`: acceptance by final state, any stack content -/
def PDA.Accepts (P : PDA σ τ γ) (w : List τ) : Prop :=
  ∃ f st, f ∈ P.F ∧ P.Run (P.q0, []) w (f, st)

/-- ε-reachability between configurations -/
inductive PDA.EpsReach (P : PDA σ τ γ) (R : List (PConf σ γ)) : PConf σ γ → Prop
  | base {c : PConf σ γ} : c ∈ R → PDA.EpsReach P R c
  | step {c c' : PConf σ γ} : PDA.EpsReach P R c → P.Move P.eps c c' → PDA.EpsReach P R c'

end Gamba
