/- Gamba.Spec.GNFA — language of a generalised NFA: words that split along a path from the start
   state to the accept state, each piece in the language of the edge label. -/
import Gamba.Model.GNFA
import Gamba.Spec.Regexp
namespace Gamba
variable {σ τ : Type} [DecidableEq σ] [DecidableEq τ]

/-- `G.Path p w q`: a non-empty path `p → … → q` through states of `G.Q` spelling `w` -/
inductive GNFA.Path (G : GNFA σ τ) : σ → List τ → σ → Prop
  | one {p q : σ} {w : List τ} : p ∈ G.Q → q ∈ G.Q → (G.get p q).Lang w → GNFA.Path G p w q
  | cons {p r q : σ} {u v : List τ} : p ∈ G.Q → r ∈ G.Q → (G.get p r).Lang u → GNFA.Path G r v q →
      GNFA.Path G p (u ++ v) q

/-- `w ∈ L(G)` -/
def GNFA.GLang (G : GNFA σ τ) (w : List τ) : Prop := G.Path G.qStart w G.qAccept

/-- no edge enters the start state and none leaves the accept state (missing entries mean `0`) -/
def GNFA.Proper (G : GNFA σ τ) : Prop :=
  G.qStart ∈ G.Q ∧ G.qAccept ∈ G.Q ∧ G.qStart ≠ G.qAccept ∧
  (∀ p, G.get p G.qStart = .zero) ∧ (∀ p, G.get G.qAccept p = .zero)

end Gamba
