/-
  Gamba.Spec.CFG — semantics of context-free grammars: big-step generation over sentential
  forms, the language, leftmost / rightmost / unrestricted derivation steps.
-/
import Gamba.Model.CFG
namespace Gamba
namespace CFG

/-- `(A, rhs)` is a production of `G` -/
def HasRule (G : CFG) (A : String) (rhs : List Sym) : Prop := ∃ r, r ∈ G.R ∧ r.lhs = A ∧ r.rhs = rhs

/-- `G.Gen form w`: the sentential form `form` generates the terminal word `w`. -/
inductive Gen (G : CFG) : List Sym → List String → Prop
  | nil : Gen G [] []
  | t {a : String} {ss : List Sym} {w : List String} : Gen G ss w → Gen G (.t a :: ss) (a :: w)
  | v {A : String} {rhs ss : List Sym} {u w : List String} :
      G.HasRule A rhs → Gen G rhs u → Gen G ss w → Gen G (.v A :: ss) (u ++ w)

/-- `w ∈ L(G)` -/
def Lang (G : CFG) (w : List String) : Prop := G.Gen [.v G.S] w

/-- one derivation step rewriting the variable at an arbitrary position -/
inductive Step (G : CFG) : List Sym → List Sym → Prop
  | mk {A : String} {rhs pre post : List Sym} : G.HasRule A rhs → Step G (pre ++ .v A :: post) (pre ++ rhs ++ post)

/-- leftmost step: everything before the rewritten variable is terminal -/
inductive LStep (G : CFG) : List Sym → List Sym → Prop
  | mk {A : String} {rhs pre post : List Sym} : G.HasRule A rhs → (∀ x, x ∈ pre → x.isVar = false) →
      LStep G (pre ++ .v A :: post) (pre ++ rhs ++ post)

/-- rightmost step -/
inductive RStep (G : CFG) : List Sym → List Sym → Prop
  | mk {A : String} {rhs pre post : List Sym} : G.HasRule A rhs → (∀ x, x ∈ post → x.isVar = false) →
      RStep G (pre ++ .v A :: post) (pre ++ rhs ++ post)

/-- terminals and variables are disjoint as strings (what both parsers guarantee) -/
def Disjoint (G : CFG) : Prop := ∀ x, x ∈ G.V → x ∉ G.Sigma

/-- no rule refers to a symbol that is not declared (= `CFG.valid`, as a Prop) -/
def WF (G : CFG) : Prop := G.valid = true

/-! ### phase postconditions and the aliasing invariant (used by the C08 theorems) -/

/-- rules that share an `Alternative` object (`aid`) carry the same right-hand side -/
def AliasOK (G : CFG) : Prop := ∀ r s, r ∈ G.R → s ∈ G.R → r.aid = s.aid → r.rhs = s.rhs

def StartNotOnRhs (G : CFG) : Prop := ∀ r, r ∈ G.R → Sym.v G.S ∉ r.rhs
def NoEpsExceptStart (G : CFG) : Prop := ∀ r, r ∈ G.R → r.rhs = [] → r.lhs = G.S
def NoUnit (G : CFG) : Prop := ∀ r, r ∈ G.R → isUnit r = false
def RhsLe2 (G : CFG) : Prop := ∀ r, r ∈ G.R → r.rhs.length ≤ 2
def AllCnfShaped (G : CFG) : Prop := ∀ r, r ∈ G.R → altIsChomsky r.rhs = true

end CFG
end Gamba
