/- Gamba.Spec.Iso — isomorphism of the reachable parts of two DFAs over the same alphabet. -/
import Gamba.Spec.Automata
import Gamba.Model.Iso
namespace Gamba
variable {σ σ₂ τ : Type} [DecidableEq σ] [DecidableEq σ₂] [DecidableEq τ]

/-- `f` is a bijection between the reachable states of `D1` and those of `D2` that maps initial state to initial
    state, commutes with every transition and preserves acceptance -/
def DFA.IsIsoMap (D1 : DFA σ τ) (D2 : DFA σ₂ τ) (f : σ → σ₂) : Prop :=
  (∀ p q, D1.Reachable p → D1.Reachable q → f p = f q → p = q) ∧
  (∀ p, D1.Reachable p → D2.Reachable (f p)) ∧
  (∀ r, D2.Reachable r → ∃ p, D1.Reachable p ∧ f p = r) ∧
  f D1.q0 = D2.q0 ∧
  (∀ p a, D1.Reachable p → a ∈ D1.Sigma → f (D1.next p a) = D2.next (f p) a) ∧
  (∀ p, D1.Reachable p → (p ∈ D1.F ↔ f p ∈ D2.F))

def DFA.Iso (D1 : DFA σ τ) (D2 : DFA σ₂ τ) : Prop := ∃ f, D1.IsIsoMap D2 f

end Gamba
