/-
  Gamba.Spec.Automata — textbook semantics of DFAs and NFAs (doc/main.tex §1): what the
  property theorems about acceptance, closure and the regular constructions are *about*.
-/
import Gamba.Model.DFA
namespace Gamba
variable {σ τ : Type} [DecidableEq σ] [DecidableEq τ]

/-- `D.Run q w r`: reading `w` from `q` the DFA arrives in `r` (one δ-step per symbol). -/
inductive DFA.Run (D : DFA σ τ) : σ → List τ → σ → Prop
  | nil (q : σ) : DFA.Run D q [] q
  | cons {q q' r : σ} {a : τ} {w : List τ} :
      D.delta.lookup (q, a) = some q' → DFA.Run D q' w r → DFA.Run D q (a :: w) r

/-- `w ∈ L(D)`. -/
def DFA.Accepts (D : DFA σ τ) (w : List τ) : Prop := ∃ f, f ∈ D.F ∧ D.Run D.q0 w f

/-- δ(q, a) of an NFA: a missing entry means ∅. -/
def NFA.Succ (N : NFA σ τ) (q : σ) (a : τ) (q' : σ) : Prop :=
  ∃ T, N.delta.lookup (q, a) = some T ∧ q' ∈ T

/-- states reachable from some state of `S` by ε-moves alone -/
inductive NFA.EpsReach (N : NFA σ τ) (S : List σ) : σ → Prop
  | base {q : σ} : q ∈ S → NFA.EpsReach N S q
  | step {q q' : σ} : NFA.EpsReach N S q → N.Succ q N.eps q' → NFA.EpsReach N S q'

/-- `N.Run q w r`: ε-steps consume nothing, symbol steps consume the head of the word. -/
inductive NFA.Run (N : NFA σ τ) : σ → List τ → σ → Prop
  | nil (q : σ) : NFA.Run N q [] q
  | eps {q q' r : σ} {w : List τ} : N.Succ q N.eps q' → NFA.Run N q' w r → NFA.Run N q w r
  | sym {q q' r : σ} {a : τ} {w : List τ} :
      a ≠ N.eps → N.Succ q a q' → NFA.Run N q' w r → NFA.Run N q (a :: w) r

/-- `w ∈ L(N)`. -/
def NFA.Accepts (N : NFA σ τ) (w : List τ) : Prop := ∃ f, f ∈ N.F ∧ N.Run N.q0 w f

/-- Myhill–Nerode distinguishability of two states of a DFA. -/
def DFA.Dist (D : DFA σ τ) (p q : σ) : Prop :=
  ∃ w, (∀ a, a ∈ w → a ∈ D.Sigma) ∧ ∃ p' q', D.Run p w p' ∧ D.Run q w q' ∧ ¬ (p' ∈ D.F ↔ q' ∈ D.F)

/-- reachable from the initial state by a word over Σ -/
def DFA.Reachable (D : DFA σ τ) (q : σ) : Prop :=
  ∃ w, (∀ a, a ∈ w → a ∈ D.Sigma) ∧ D.Run D.q0 w q

end Gamba
