/- Gamba.Spec.TM — Sipser-style single-tape TM semantics with the library's conventions:
   a missing transition moves to the rejecting state (same symbol, right move); a left move at
   cell 0 stays put; the tape is extended with a blank when the head walks off its end. -/
import Gamba.Model.TM
namespace Gamba
variable {σ τ : Type} [DecidableEq σ] [DecidableEq τ]

/-- the transition actually applied in state `q` reading `a` -/
def TM.action (T : TM σ τ) (q : σ) (a : τ) : σ × τ × Dir :=
  match T.delta.lookup (q, a) with
  | some t => t
  | none => (T.qReject, a, Dir.R)

/-- one step as a relation on configurations -/
inductive TM.Step (T : TM σ τ) : TMConfig σ τ → TMConfig σ τ → Prop
  | left {q q' : σ} {tape : List τ} {h : Nat} {a b : τ} :
      tape[h]? = some a → T.action q a = (q', b, Dir.L) →
      TM.Step T ⟨q, tape, h⟩ ⟨q', tape.set h b, h - 1⟩
  | right {q q' : σ} {tape : List τ} {h : Nat} {a b : τ} :
      tape[h]? = some a → T.action q a = (q', b, Dir.R) → h + 1 < tape.length →
      TM.Step T ⟨q, tape, h⟩ ⟨q', tape.set h b, h + 1⟩
  | rightExtend {q q' : σ} {tape : List τ} {h : Nat} {a b : τ} :
      tape[h]? = some a → T.action q a = (q', b, Dir.R) → h + 1 = tape.length →
      TM.Step T ⟨q, tape, h⟩ ⟨q', tape.set h b ++ [T.blank], h + 1⟩

/-- the configuration after exactly `i` steps (ignoring halting) -/
def TM.stepN (T : TM σ τ) : Nat → TMConfig σ τ → TMConfig σ τ
  | 0, c => c
  | i + 1, c => TM.stepN T i (T.step c)

/-- the machine first enters a halting state after exactly `i` steps, and that state is `q` -/
def TM.HaltsAt (T : TM σ τ) (w : List τ) (i : Nat) (q : σ) : Prop :=
  (T.stepN i (T.init w)).q = q ∧ T.halting q = true ∧
  ∀ j, j < i → T.halting (T.stepN j (T.init w)).q = false

end Gamba
