/- Gamba.Spec.Trace — what it means for a simulation trace / derivation to be a genuine witness. -/
import Gamba.Spec.Automata
import Gamba.Spec.PDA
import Gamba.Spec.CFG
import Gamba.Model.Simulate
namespace Gamba

/-- consecutive elements of a list are related by `R` -/
inductive ChainOf {α : Type} (R : α → α → Prop) : List α → Prop
  | nil : ChainOf R []
  | single (a : α) : ChainOf R [a]
  | cons {a b : α} {l : List α} : R a b → ChainOf R (b :: l) → ChainOf R (a :: b :: l)

section
variable {σ τ γ : Type} [DecidableEq σ] [DecidableEq τ] [DecidableEq γ]

/-- one row of a DFA trace follows from the previous one -/
def DFA.TraceStep (D : DFA σ τ) (x y : σ × List τ) : Prop :=
  ∃ a, x.2 = a :: y.2 ∧ D.delta.lookup (x.1, a) = some y.1

def DFA.ValidTrace (D : DFA σ τ) (w : List τ) (tr : List (σ × List τ)) : Prop :=
  tr.head? = some (D.q0, w) ∧ ChainOf D.TraceStep tr ∧ ∃ q, tr.getLast? = some (q, [])

/-- an ε-move keeps the unread input, a symbol move consumes its first symbol -/
def NFA.TraceStep (N : NFA σ τ) (x y : σ × List τ) : Prop :=
  (x.2 = y.2 ∧ N.Succ x.1 N.eps y.1) ∨ (∃ a, x.2 = a :: y.2 ∧ a ≠ N.eps ∧ N.Succ x.1 a y.1)

/-- starts in `(q0, w)`, moves only by transitions of `N` with the unread input shrinking from the front,
    ends in an accepting state with nothing unread -/
def NFA.ValidTrace (N : NFA σ τ) (w : List τ) (tr : List (σ × List τ)) : Prop :=
  tr.head? = some (N.q0, w) ∧ ChainOf N.TraceStep tr ∧ ∃ f, tr.getLast? = some (f, []) ∧ f ∈ N.F

def PDA.TraceStep (P : PDA σ τ γ) (x y : σ × List τ × List γ) : Prop :=
  (x.2.1 = y.2.1 ∧ P.Move P.eps (x.1, x.2.2) (y.1, y.2.2)) ∨
  (∃ a, x.2.1 = a :: y.2.1 ∧ a ≠ P.eps ∧ P.Move a (x.1, x.2.2) (y.1, y.2.2))

def PDA.ValidTrace (P : PDA σ τ γ) (w : List τ) (tr : List (σ × List τ × List γ)) : Prop :=
  tr.head? = some (P.q0, w, []) ∧ ChainOf P.TraceStep tr ∧ ∃ f st, tr.getLast? = some (f, [], st) ∧ f ∈ P.F
end

/-- a leftmost (rightmost) derivation of `w`: starts with the start variable, every step rewrites the leftmost
    (rightmost) variable by a rule of the grammar, ends with the word -/
def CFG.ValidDerivation (G : CFG) (leftmost : Bool) (w : List String) (d : List (List Sym)) : Prop :=
  d.head? = some [.v G.S] ∧ ChainOf (if leftmost then G.LStep else G.RStep) d ∧ d.getLast? = some (w.map Sym.t)

end Gamba
