/- Gamba.Spec.Regexp — denotational semantics of regular expressions. -/
import Gamba.Model.Regexp
namespace Gamba
variable {τ : Type}

inductive Regexp.Lang : Regexp τ → List τ → Prop
  | one : Regexp.Lang .one []
  | sym (a : τ) : Regexp.Lang (.sym a) [a]
  | sumL {r s : Regexp τ} {w : List τ} : Regexp.Lang r w → Regexp.Lang (.sum r s) w
  | sumR {r s : Regexp τ} {w : List τ} : Regexp.Lang s w → Regexp.Lang (.sum r s) w
  | cat {r s : Regexp τ} {u v : List τ} : Regexp.Lang r u → Regexp.Lang s v → Regexp.Lang (.cat r s) (u ++ v)
  | starNil {r : Regexp τ} : Regexp.Lang (.star r) []
  | starApp {r : Regexp τ} {u v : List τ} :
      Regexp.Lang r u → Regexp.Lang (.star r) v → Regexp.Lang (.star r) (u ++ v)

end Gamba
