import Gamba.Model.Basic
import Gamba.Model.DFA
import Gamba.Model.NFA
import Gamba.Model.Regexp
import Gamba.Model.TM
import Gamba.Model.Lang
import Gamba.Model.CFG
import Gamba.Model.PDA
