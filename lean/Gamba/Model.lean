import Gamba.Model.Basic
import Gamba.Model.DFA
import Gamba.Model.NFA
import Gamba.Model.Regexp
import Gamba.Model.TM
import Gamba.Model.Lang
