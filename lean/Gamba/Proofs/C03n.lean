/-
  Gamba.Proofs.C03n — helper lemmas for the named subset construction with CLEAN state names:
  `print_state_set` is injective (as a map on sets) on lists of non-empty, comma-free names, hence the
  injectivity hypothesis of `nfaToDfa_named` can be discharged; and the concrete collision witness
  (a state named "") showing that the hypothesis on the names is needed.
-/
import Gamba.Proofs.C03
import Gamba.Proofs.TextBasic
namespace Gamba
set_option linter.unusedSectionVars false

/-- a state name is clean when it is non-empty and contains no comma -/
def CleanName (q : String) : Prop := q ≠ "" ∧ ',' ∉ q.toList

instance (q : String) : Decidable (CleanName q) := by unfold CleanName; infer_instance

namespace C03n
open Text

/-! ### the text of `print_state_set` at the level of character lists -/

theorem toList_comma : ",".toList = [','] := rfl
theorem toList_lbrace : "{".toList = ['{'] := rfl
theorem toList_rbrace : "}".toList = ['}'] := rfl

theorem toList_printStateSet (S : List String) :
    (printStateSet S).toList =
      '{' :: ([','].intercalate ((sortStrings (dedup S)).map String.toList) ++ ['}']) := by
  unfold printStateSet
  rw [Text.toList_append, Text.toList_append, Text.toList_intercalate, toList_comma, toList_lbrace,
    toList_rbrace]
  rfl

theorem toList_ne_nil_of_ne_empty {q : String} (h : q ≠ "") : q.toList ≠ [] := by
  intro hc
  apply h
  rw [← Text.str_toList q, hc]
  rfl

theorem map_toList_inj {l l' : List String} (h : l.map String.toList = l'.map String.toList) : l = l' := by
  have := congrArg (List.map str) h
  rw [Text.map_str_map_toList, Text.map_str_map_toList] at this
  exact this

/-- the sorted duplicate-free name list is determined by the printed text, for clean names -/
theorem names_eq_of_print_eq {L L' : List String} (hL : ∀ q, q ∈ L → CleanName q)
    (hL' : ∀ q, q ∈ L' → CleanName q)
    (h : [','].intercalate (L.map String.toList) = [','].intercalate (L'.map String.toList)) : L = L' := by
  have hsplit : ∀ {M : List String}, (∀ q, q ∈ M → CleanName q) → M ≠ [] →
      splitOn ',' ([','].intercalate (M.map String.toList)) = M.map String.toList := by
    intro M hM hne
    apply splitOn_intercalate (by simpa using hne)
    intro p hp
    obtain ⟨q, hq, rfl⟩ := List.mem_map.mp hp
    exact (hM q hq).2
  have hempty : ∀ {M : List String}, (∀ q, q ∈ M → CleanName q) → M ≠ [] →
      [','].intercalate (M.map String.toList) ≠ [] := by
    intro M hM hne hc
    have h1 := hsplit hM hne
    rw [hc] at h1
    cases M with
    | nil => exact hne rfl
    | cons q M =>
      have h2 : splitOn ',' [] = [[]] := rfl
      rw [h2, List.map_cons] at h1
      have h3 : q.toList = [] := by
        have := (List.cons.inj h1).1
        exact this.symm
      exact toList_ne_nil_of_ne_empty (hM q List.mem_cons_self).1 h3
  by_cases h1 : L = []
  · subst h1
    by_cases h2 : L' = []
    · exact h2.symm
    · exact absurd h.symm (hempty hL' h2)
  · by_cases h2 : L' = []
    · subst h2
      exact absurd h (hempty hL h1)
    · apply map_toList_inj
      rw [← hsplit hL h1, ← hsplit hL' h2, h]

end C03n

/-- the set notation determines the set, for clean names (sorted duplicate-free lists form) -/
theorem printStateSet_inj_sorted (S T : List String) (hS : ∀ q, q ∈ S → CleanName q)
    (hT : ∀ q, q ∈ T → CleanName q) (h : printStateSet S = printStateSet T) :
    sortStrings (dedup S) = sortStrings (dedup T) := by
  have h1 := congrArg String.toList h
  rw [C03n.toList_printStateSet, C03n.toList_printStateSet] at h1
  have h2 := List.append_cancel_right (List.cons.inj h1).2
  apply C03n.names_eq_of_print_eq _ _ h2
  · intro q hq; exact hS q (mem_sortStrings_dedup.mp hq)
  · intro q hq; exact hT q (mem_sortStrings_dedup.mp hq)

theorem printStateSet_mem_iff (S T : List String) (hS : ∀ q, q ∈ S → CleanName q)
    (hT : ∀ q, q ∈ T → CleanName q) (h : printStateSet S = printStateSet T) : ∀ q, q ∈ S ↔ q ∈ T := by
  intro q
  have := printStateSet_inj_sorted S T hS hT h
  rw [← mem_sortStrings_dedup (l := S), ← mem_sortStrings_dedup (l := T), this]

/-! ### every state of the subset automaton is a canonical sublist of `N.Q` -/
section
variable {σ τ : Type} [DecidableEq σ] [DecidableEq τ]

/-- the full specification of `NFA.toDfaSets_spec`, plus: every constructed state is canonical -/
theorem NFA.toDfaSets_spec_canon {N : NFA σ τ} (hv : N.valid = true) (s : Sched) :
    ∃ D, N.toDfaSets s = .ok D ∧ D.valid = true ∧ D.Sigma = N.Sigma ∧
      (∀ S, S ∈ D.Q → D.Reachable S) ∧
      (∀ S, S ∈ D.Q → N.canon S = S) ∧
      ∀ w, (∀ a, a ∈ w → a ∈ N.Sigma) → (D.Accepts w ↔ N.Accepts w) := by
  have h0 := NFA.OInv.initial hv s
  obtain ⟨acc, hacc⟩ := NFA.subsetLoop_terminates hv s _ (2 ^ N.Q.length + 1) _ h0 (by
    simp only [List.length_singleton]
    have : 0 < 2 ^ N.Q.length := Nat.pow_pos (by decide)
    generalize 2 ^ N.Q.length = M at *
    omega)
  obtain ⟨h1, ht⟩ := NFA.subsetLoop_inv hv s _ _ _ _ h0 hacc
  obtain ⟨hval, hSig, _, hreach, _, hL⟩ := h1.final hv ht
  refine ⟨acc.toDFA N.Sigma (N.canon (N.closureT s [N.q0])), ?_, hval, hSig, hreach, ?_, hL⟩
  · rw [NFA.toDfaSets_eq hv, hacc]
    show DFA.checked _ = _
    unfold DFA.checked
    rw [if_pos hval]
  · intro S hS
    obtain ⟨u, _, hsub⟩ := h1.sub S hS
    exact hsub.1

theorem NFA.canon_eq_of_mem_iff (N : NFA σ τ) {S T : List σ} (hS : N.canon S = S) (hT : N.canon T = T)
    (h : ∀ q, q ∈ S ↔ q ∈ T) : S = T := by
  rw [← hS, ← hT]
  exact N.canon_congr (fun q _ => h q)

theorem NFA.mem_Q_of_canon (N : NFA σ τ) {S : List σ} (hS : N.canon S = S) {q : σ} (hq : q ∈ S) : q ∈ N.Q := by
  rw [← hS] at hq
  exact ((N.mem_canon _ _).mp hq).1

/-- reachability transfers through an injective renaming -/
theorem DFA.mapStates_reachable {σ' : Type} [DecidableEq σ'] (f : σ → σ') (D : DFA σ τ) (h : D.valid = true)
    (hf : ∀ p q, p ∈ D.Q → q ∈ D.Q → f p = f q → p = q) {S : σ} (hS : D.Reachable S) :
    (D.mapStates f).Reachable (f S) := by
  obtain ⟨u, hu, hrun⟩ := hS
  have hv' := DFA.mapStates_valid' f D h hf
  have hu' : ∀ a, a ∈ u → a ∈ (D.mapStates f).Sigma := hu
  refine ⟨u, hu', ?_⟩
  have h1 := DFA.Run_runT hv' (DFA.valid_q0 hv') hu'
  have hq0 : (D.mapStates f).q0 = f D.q0 := rfl
  rw [hq0, DFA.mapStates_runT f D h hf (DFA.valid_q0 h) u hu, ← hrun.eq_runT] at h1
  rw [hq0]
  exact h1

end

/-- `print_state_set` is injective on the states of the subset automaton of an NFA with clean names -/
theorem NFA.printStateSet_inj_on_canon (N : NFA String String) (hn : ∀ q, q ∈ N.Q → CleanName q)
    {S T : List String} (hS : N.canon S = S) (hT : N.canon T = T)
    (h : printStateSet S = printStateSet T) : S = T :=
  N.canon_eq_of_mem_iff hS hT
    (printStateSet_mem_iff S T (fun q hq => hn q (N.mem_Q_of_canon hS hq))
      (fun q hq => hn q (N.mem_Q_of_canon hT hq)) h)

/-! ### the recorded defect: a state named "" makes two subsets print alike -/
namespace C03n

/-- a valid NFA with a state named `""` (witness found on the real library) -/
def badN : NFA String String :=
  { Q := ["", "q"], Sigma := ["x", "y"],
    delta := [(("", "x"), ["", "q"]), (("q", "_"), ["q"]), (("q", "x"), [""])],
    q0 := "", F := ["q"], eps := "_" }

/-- its subset automaton on structured states: `{""}`, `{"", q}` and `∅` are three different states -/
def badD : DFA (List String) String :=
  { Q := [[""], ["", "q"], []],
    Sigma := ["x", "y"],
    delta := [(([""], "x"), ["", "q"]), (([""], "y"), []), (([], "x"), []), (([], "y"), []),
              ((["", "q"], "x"), ["", "q"]), ((["", "q"], "y"), [])],
    q0 := [""],
    F := [["", "q"]] }

/-- … and with `print_state_set` names: `{""}` and `∅` are both called `"{}"` -/
def badDnamed : DFA String String :=
  { Q := ["{}", "{,q}", "{}"],
    Sigma := ["x", "y"],
    delta := [(("{}", "x"), "{,q}"), (("{}", "y"), "{}"), (("{}", "x"), "{}"), (("{}", "y"), "{}"),
              (("{,q}", "x"), "{,q}"), (("{,q}", "y"), "{}")],
    q0 := "{}",
    F := ["{,q}"] }

theorem badN_valid : badN.valid = true := by decide

theorem badN_toDfaSets : badN.toDfaSets [] = .ok badD := by rfl

theorem name_empty : printStateSet [] = "{}" := by simp [printStateSet, sortStrings, dedup]
theorem name_emptyName : printStateSet [""] = "{}" := by simp [printStateSet, sortStrings, dedup]
theorem name_emptyName_q : printStateSet ["", "q"] = "{,q}" := by
  simp [printStateSet, sortStrings, dedup, List.mergeSort]

theorem badD_named : badD.mapStates printStateSet = badDnamed := by
  simp [DFA.mapStates, badD, badDnamed, name_empty, name_emptyName, name_emptyName_q]

theorem badN_toDfa : badN.toDfa [] = .ok badDnamed := by
  unfold NFA.toDfa
  rw [badN_toDfaSets]
  show Except.ok (badD.mapStates printStateSet) = _
  rw [badD_named]

theorem badDnamed_valid : badDnamed.valid = true := by decide

theorem badN_accepts_yx : badN.accepts [] ["y", "x"] = .ok false := by rfl

theorem badDnamed_acceptsT_yx : badDnamed.acceptsT ["y", "x"] = true := by decide

end C03n

end Gamba
