/-
  Gamba.Proofs.C02cfg — helper lemmas for the exactness of the bounded enumerator
  `CFG.wordsUpTo` on grammars in Chomsky normal form.

  * `IterN r k a b` : `b` is reachable from `a` in exactly `k` steps of `r`;
  * `Step2 G f g`   : `g` is obtained from the form `f` by rewriting one variable with a rule of length two;
  * `MW G f w`      : `w` is obtained from the form `f` (variables only) by replacing every variable by the
                       terminal of one of its terminal rules;
  * `mem_wordsLoop` : what the loop computes (no hypothesis on the grammar);
  * `cnf_gen_iff_steps` : the semantic lemma (CNF).
-/
import Gamba.Model.CFG
import Gamba.Spec.CFG
import Gamba.Proofs.CFGBasic
namespace Gamba
namespace CFG

variable {G : CFG}

/-! ### exact-length iteration of a relation -/

inductive IterN {α : Type} (r : α → α → Prop) : Nat → α → α → Prop
  | refl (a : α) : IterN r 0 a a
  | head {k : Nat} {a b c : α} : r a b → IterN r k b c → IterN r (k + 1) a c

theorem iterN_zero_iff {α : Type} {r : α → α → Prop} {a c : α} : IterN r 0 a c ↔ a = c := by
  constructor
  · intro h; cases h; rfl
  · rintro rfl; exact .refl _

theorem iterN_succ_iff {α : Type} {r : α → α → Prop} {k : Nat} {a c : α} :
    IterN r (k + 1) a c ↔ ∃ b, r a b ∧ IterN r k b c := by
  constructor
  · intro h; cases h with
    | head h1 h2 => exact ⟨_, h1, h2⟩
  · rintro ⟨b, h1, h2⟩; exact .head h1 h2

theorem IterN.cast {α : Type} {r : α → α → Prop} {k k' : Nat} {a c : α} (h : IterN r k a c)
    (hk : k = k') : IterN r k' a c := hk ▸ h

theorem IterN.trans {α : Type} {r : α → α → Prop} {k l : Nat} {a b c : α}
    (h1 : IterN r k a b) (h2 : IterN r l b c) : IterN r (l + k) a c := by
  induction h1 with
  | refl _ => exact h2
  | head hs _ ih => exact .head hs (ih h2)

/-- mapping an iteration through a function that preserves steps -/
theorem IterN.map {α : Type} {r : α → α → Prop} (φ : α → α) (hφ : ∀ a b, r a b → r (φ a) (φ b))
    {k : Nat} {a c : α} (h : IterN r k a c) : IterN r k (φ a) (φ c) := by
  induction h with
  | refl _ => exact .refl _
  | head hs _ ih => exact .head (hφ _ _ hs) ih

/-- two relations that agree on an invariant have the same iterations from a point satisfying it -/
theorem iterN_congr {α : Type} {r r' : α → α → Prop} (P : α → Prop)
    (hrr : ∀ a b, P a → (r a b ↔ r' a b)) (hP : ∀ a b, P a → r a b → P b)
    {k : Nat} {a c : α} (ha : P a) : IterN r k a c ↔ IterN r' k a c := by
  induction k generalizing a with
  | zero => rw [iterN_zero_iff, iterN_zero_iff]
  | succ k ih =>
    rw [iterN_succ_iff, iterN_succ_iff]
    constructor
    · rintro ⟨b, h1, h2⟩
      exact ⟨b, (hrr a b ha).mp h1, (ih (hP a b ha h1)).mp h2⟩
    · rintro ⟨b, h1, h2⟩
      have h1' := (hrr a b ha).mpr h1
      exact ⟨b, h1', (ih (hP a b ha h1')).mpr h2⟩

theorem IterN.inv {α : Type} {r : α → α → Prop} (P : α → Prop) (hP : ∀ a b, P a → r a b → P b)
    {k : Nat} {a c : α} (h : IterN r k a c) (ha : P a) : P c := by
  induction h with
  | refl _ => exact ha
  | head hs _ ih => exact ih (hP _ _ ha hs)

/-! ### the rule tables `r1`, `r2` -/

theorem mem_r2 {A : String} {rhs : List Sym} : rhs ∈ G.r2 A ↔ G.HasRule A rhs ∧ rhs.length = 2 := by
  simp only [r2, HasRule, List.mem_map, List.mem_filter, Bool.and_eq_true, decide_eq_true_eq]
  constructor
  · rintro ⟨r, ⟨hr, hl, hlen⟩, rfl⟩; exact ⟨⟨r, hr, hl, rfl⟩, hlen⟩
  · rintro ⟨⟨r, hr, hl, rfl⟩, hlen⟩; exact ⟨r, ⟨hr, hl, hlen⟩, rfl⟩

theorem mem_r1 (hc : G.isChomsky = true) {A a : String} : a ∈ G.r1 A ↔ G.HasRule A [.t a] := by
  simp only [r1, List.mem_map, List.mem_filter, Bool.and_eq_true, decide_eq_true_eq]
  constructor
  · rintro ⟨r, ⟨hr, hl, hlen⟩, hn⟩
    have hR : G.HasRule A r.rhs := ⟨r, hr, hl, rfl⟩
    rcases cnf_rule hc hR with ⟨h, _⟩ | ⟨b, h⟩ | ⟨B, C, h, _⟩
    · rw [h] at hlen; simp at hlen
    · rw [h] at hn hR
      simp only [Sym.name] at hn
      subst hn; exact hR
    · rw [h] at hlen; simp at hlen
  · rintro ⟨r, hr, hl, hrhs⟩
    exact ⟨r, ⟨hr, hl, by rw [hrhs]; rfl⟩, by rw [hrhs]; rfl⟩

/-! ### forms consisting of variables -/

def AllVar (f : List Sym) : Prop := ∀ x, x ∈ f → ∃ A, x = Sym.v A

theorem allVar_nil : AllVar [] := fun x hx => by cases hx

theorem allVar_cons {x : Sym} {f : List Sym} : AllVar (x :: f) ↔ (∃ A, x = Sym.v A) ∧ AllVar f := by
  simp only [AllVar, List.mem_cons]
  constructor
  · intro h; exact ⟨h x (Or.inl rfl), fun y hy => h y (Or.inr hy)⟩
  · rintro ⟨h1, h2⟩ y (rfl | hy)
    · exact h1
    · exact h2 y hy

theorem allVar_append {f g : List Sym} : AllVar (f ++ g) ↔ AllVar f ∧ AllVar g := by
  simp only [AllVar, List.mem_append]
  constructor
  · intro h; exact ⟨fun x hx => h x (Or.inl hx), fun x hx => h x (Or.inr hx)⟩
  · rintro ⟨h1, h2⟩ x (hx | hx)
    · exact h1 x hx
    · exact h2 x hx

theorem allVar_single (A : String) : AllVar [Sym.v A] :=
  allVar_cons.mpr ⟨⟨A, rfl⟩, allVar_nil⟩

/-! ### one binary rewriting -/

/-- `g` is obtained from `f` by rewriting one occurrence of a variable with a rule of length two -/
inductive Step2 (G : CFG) : List Sym → List Sym → Prop
  | mk {A : String} {rhs pre post : List Sym} : G.HasRule A rhs → rhs.length = 2 →
      Step2 G (pre ++ .v A :: post) (pre ++ rhs ++ post)

theorem mem_replaceOne {x y : List Sym} :
    y ∈ G.replaceOne x ↔
      ∃ pre s post rhs, x = pre ++ s :: post ∧ rhs ∈ G.r2 s.name ∧ y = pre ++ rhs ++ post := by
  simp only [replaceOne, List.mem_flatMap, List.mem_range]
  constructor
  · rintro ⟨j, hj, hy⟩
    rw [List.getElem?_eq_getElem hj] at hy
    simp only [List.mem_map] at hy
    obtain ⟨rhs, hrhs, rfl⟩ := hy
    refine ⟨x.take j, x[j], x.drop (j + 1), rhs, ?_, hrhs, rfl⟩
    rw [← List.drop_eq_getElem_cons hj, List.take_append_drop]
  · rintro ⟨pre, s, post, rhs, rfl, hrhs, rfl⟩
    refine ⟨pre.length, by simp, ?_⟩
    have h1 : (pre ++ s :: post)[pre.length]? = some s := by simp
    rw [h1]
    simp only [List.mem_map]
    refine ⟨rhs, hrhs, ?_⟩
    have h2 : (pre ++ s :: post).take pre.length = pre := by simp
    have h3 : (pre ++ s :: post).drop (pre.length + 1) = post := by simp
    rw [h2, h3]

theorem replaceOne_iff_step2 {f g : List Sym} (hf : AllVar f) :
    g ∈ G.replaceOne f ↔ Step2 G f g := by
  rw [mem_replaceOne]
  constructor
  · rintro ⟨pre, s, post, rhs, rfl, hrhs, rfl⟩
    obtain ⟨A, rfl⟩ := hf s (by simp)
    obtain ⟨hr, hlen⟩ := mem_r2.mp hrhs
    exact .mk hr hlen
  · rintro ⟨hr, hlen⟩
    exact ⟨_, _, _, _, rfl, mem_r2.mpr ⟨hr, hlen⟩, rfl⟩

theorem Step2.length {f g : List Sym} (h : Step2 G f g) : g.length = f.length + 1 := by
  cases h with
  | mk _ hlen => simp only [List.length_append, List.length_cons, hlen]; omega

theorem Step2.allVar (hc : G.isChomsky = true) {f g : List Sym} (hf : AllVar f) (h : Step2 G f g) :
    AllVar g := by
  cases h with
  | @mk A rhs pre post hr hlen =>
    obtain ⟨hpre, hpost⟩ := allVar_append.mp hf
    have hpost := (allVar_cons.mp hpost).2
    refine allVar_append.mpr ⟨allVar_append.mpr ⟨hpre, ?_⟩, hpost⟩
    rcases cnf_rule hc hr with ⟨h, _⟩ | ⟨b, h⟩ | ⟨B, C, h, _⟩
    · subst h; simp at hlen
    · subst h; simp at hlen
    · subst h
      exact allVar_cons.mpr ⟨⟨B, rfl⟩, allVar_single C⟩

theorem Step2.gen {f g : List Sym} {w : List String} (h : Step2 G f g) (hg : G.Gen g w) :
    G.Gen f w := by
  cases h with
  | @mk A rhs pre post hr hlen =>
    rw [List.append_assoc] at hg
    obtain ⟨w1, w2, rfl, g1, g2⟩ := gen_split hg
    obtain ⟨w3, w4, rfl, g3, g4⟩ := gen_split g2
    exact gen_append g1 (.v hr g3 g4)

theorem Step2.append_left (pre : List Sym) {f g : List Sym} (h : Step2 G f g) :
    Step2 G (pre ++ f) (pre ++ g) := by
  cases h with
  | @mk A rhs p post hr hlen =>
    have := Step2.mk (G := G) (pre := pre ++ p) (post := post) hr hlen
    simpa only [List.append_assoc] using this

theorem Step2.append_right (post : List Sym) {f g : List Sym} (h : Step2 G f g) :
    Step2 G (f ++ post) (g ++ post) := by
  cases h with
  | @mk A rhs p q hr hlen =>
    have := Step2.mk (G := G) (pre := p) (post := q ++ post) hr hlen
    simpa only [List.append_assoc, List.cons_append] using this

theorem iterN_step2_length {k : Nat} {f g : List Sym} (h : IterN (Step2 G) k f g) :
    g.length = f.length + k := by
  induction h with
  | refl _ => rfl
  | head hs _ ih => rw [ih, hs.length]; omega

/-! ### terminal replacement -/

/-- `w` is obtained from the all-variable form `f` by replacing every variable with a terminal rule -/
inductive MW (G : CFG) : List Sym → List String → Prop
  | nil : MW G [] []
  | cons {A a : String} {f : List Sym} {w : List String} :
      G.HasRule A [.t a] → MW G f w → MW G (.v A :: f) (a :: w)

theorem MW.length {f : List Sym} {w : List String} (h : MW G f w) : w.length = f.length := by
  induction h with
  | nil => rfl
  | cons _ _ ih => simp [ih]

theorem MW.gen {f : List Sym} {w : List String} (h : MW G f w) : G.Gen f w := by
  induction h with
  | nil => exact .nil
  | @cons A a f w hr _ ih =>
    have : G.Gen (.v A :: f) ([a] ++ w) := .v hr (gen_t_iff.mpr rfl) ih
    simpa using this

theorem MW.append {f1 f2 : List Sym} {w1 w2 : List String} (h1 : MW G f1 w1) (h2 : MW G f2 w2) :
    MW G (f1 ++ f2) (w1 ++ w2) := by
  induction h1 with
  | nil => simpa using h2
  | cons hr _ ih => exact .cons hr ih

theorem mw_nil_iff {w : List String} : MW G [] w ↔ w = [] := by
  constructor
  · intro h; cases h; rfl
  · rintro rfl; exact .nil

theorem mw_cons_iff {A : String} {f : List Sym} {w : List String} :
    MW G (.v A :: f) w ↔ ∃ a w', w = a :: w' ∧ G.HasRule A [.t a] ∧ MW G f w' := by
  constructor
  · intro h; cases h with
    | cons hr h' => exact ⟨_, _, rfl, hr, h'⟩
  · rintro ⟨a, w', rfl, hr, h'⟩; exact .cons hr h'

theorem mem_makeWords (hc : G.isChomsky = true) {f : List Sym} (hf : AllVar f) {w : List String} :
    w ∈ G.makeWords f ↔ f ≠ [] ∧ MW G f w := by
  induction f generalizing w with
  | nil => simp [makeWords]
  | cons x xs ih =>
    obtain ⟨⟨A, rfl⟩, hxs⟩ := allVar_cons.mp hf
    cases xs with
    | nil =>
      simp only [makeWords, List.mem_map, Sym.name, ne_eq, reduceCtorEq, not_false_eq_true, true_and,
        mw_cons_iff, mw_nil_iff, mem_r1 hc]
      constructor
      · rintro ⟨a, hr, rfl⟩; exact ⟨a, [], rfl, hr, rfl⟩
      · rintro ⟨a, w', rfl, hr, rfl⟩; exact ⟨a, hr, rfl⟩
    | cons y ys =>
      have ih' := fun {w} => ih (w := w) hxs
      simp only [makeWords, List.mem_flatMap, List.mem_map, Sym.name, ne_eq, reduceCtorEq,
        not_false_eq_true, true_and, mem_r1 hc]
      rw [mw_cons_iff]
      constructor
      · rintro ⟨a, hr, w', hw', rfl⟩
        exact ⟨a, w', rfl, hr, (ih'.mp hw').2⟩
      · rintro ⟨a, w', rfl, hr, hw'⟩
        exact ⟨a, hr, w', ih'.mpr ⟨by simp, hw'⟩, rfl⟩

/-! ### what the loop computes (any grammar) -/

/-- the model-level one-step relation of `replace` -/
def Repl (G : CFG) (f g : List Sym) : Prop := g ∈ G.replaceOne f

theorem mem_wordsLoop (k : Nat) (W : List (List Sym)) (words : List (List String)) (w : List String) :
    w ∈ G.wordsLoop k W words ↔
      w ∈ words ∨ ∃ j f0 f, 1 ≤ j ∧ j ≤ k ∧ f0 ∈ W ∧ IterN (Repl G) j f0 f ∧ w ∈ G.makeWords f := by
  induction k generalizing W words with
  | zero =>
    simp only [wordsLoop]
    constructor
    · exact Or.inl
    · rintro (h | ⟨j, _, _, h1, h2, _⟩)
      · exact h
      · omega
  | succ k ih =>
    rw [wordsLoop, ih]
    simp only [mem_sunion, mem_sunions, List.mem_map, mem_dedup, List.mem_flatMap]
    constructor
    · rintro ((h | ⟨l, ⟨f1, ⟨f0, hf0, hf1⟩, rfl⟩, hw⟩) | ⟨j, f1, f, hj1, hjk, ⟨f0, hf0, hf1⟩, hit, hw⟩)
      · exact Or.inl h
      · exact Or.inr ⟨1, f0, f1, Nat.le_refl _, by omega, hf0, .head hf1 (.refl _), hw⟩
      · exact Or.inr ⟨j + 1, f0, f, by omega, by omega, hf0, .head hf1 hit, hw⟩
    · rintro (h | ⟨j, f0, f, hj1, hjk, hf0, hit, hw⟩)
      · exact Or.inl (Or.inl h)
      · obtain ⟨j', rfl⟩ : ∃ j', j = j' + 1 := ⟨j - 1, by omega⟩
        obtain ⟨f1, hs, hit'⟩ := iterN_succ_iff.mp hit
        cases j' with
        | zero =>
          rw [iterN_zero_iff.mp hit'] at hs
          exact Or.inl (Or.inr ⟨_, ⟨f, ⟨f0, hf0, hs⟩, rfl⟩, hw⟩)
        | succ j'' =>
          exact Or.inr ⟨j'' + 1, f1, f, by omega, by omega, ⟨f0, hf0, hs⟩, hit', hw⟩

/-- on all-variable forms of a CNF grammar the model-level iteration is the iteration of `Step2` -/
theorem iterN_repl_iff (hc : G.isChomsky = true) {k : Nat} {f g : List Sym} (hf : AllVar f) :
    IterN (Repl G) k f g ↔ IterN (Step2 G) k f g :=
  iterN_congr AllVar (fun _ _ ha => replaceOne_iff_step2 ha)
    (fun _ _ ha h => Step2.allVar hc ha ((replaceOne_iff_step2 ha).mp h)) hf

theorem iterN_step2_allVar (hc : G.isChomsky = true) {k : Nat} {f g : List Sym} (hf : AllVar f)
    (h : IterN (Step2 G) k f g) : AllVar g :=
  h.inv AllVar (fun _ _ ha hs => Step2.allVar hc ha hs) hf

/-! ### semantics -/

theorem iterN_step2_gen {k : Nat} {f g : List Sym} {w : List String}
    (h : IterN (Step2 G) k f g) (hg : G.Gen g w) : G.Gen f w := by
  induction h with
  | refl _ => exact hg
  | head hs _ ih => exact hs.gen (ih hg)

theorem iterN_step2_append_left (pre : List Sym) {k : Nat} {f g : List Sym}
    (h : IterN (Step2 G) k f g) : IterN (Step2 G) k (pre ++ f) (pre ++ g) :=
  h.map (pre ++ ·) (fun _ _ hs => hs.append_left pre)

theorem iterN_step2_append_right (post : List Sym) {k : Nat} {f g : List Sym}
    (h : IterN (Step2 G) k f g) : IterN (Step2 G) k (f ++ post) (g ++ post) :=
  h.map (· ++ post) (fun _ _ hs => hs.append_right post)

/-- completeness: a variable that generates a non-empty word `u` reaches, in `|u| - 1` binary
    rewritings, a form of `|u|` variables from which `u` is obtained by terminal rules -/
theorem cnf_gen_v_steps (hc : G.isChomsky = true) (m : Nat) :
    ∀ (A : String) (u : List String), u.length ≤ m → u ≠ [] → G.Gen [.v A] u →
      ∃ k f, k + 1 = u.length ∧ IterN (Step2 G) k [.v A] f ∧ MW G f u := by
  induction m with
  | zero =>
    intro A u hlen hne
    exact absurd (List.length_eq_zero_iff.mp (Nat.le_zero.mp hlen)) hne
  | succ m ih =>
    intro A u hlen hne hgen
    rcases (cnf_gen_v_iff hc).mp hgen with ⟨h, _⟩ | ⟨a, rfl, hr⟩ | ⟨B, C, u1, u2, hr, h1, h2, rfl, hu1, hu2⟩
    · exact absurd h hne
    · exact ⟨0, [.v A], rfl, .refl _, .cons hr .nil⟩
    · have l1 := List.length_pos_iff.mpr hu1
      have l2 := List.length_pos_iff.mpr hu2
      rw [List.length_append] at hlen
      obtain ⟨k1, f1, hk1, it1, mw1⟩ := ih B u1 (by omega) hu1 h1
      obtain ⟨k2, f2, hk2, it2, mw2⟩ := ih C u2 (by omega) hu2 h2
      have s0 : Step2 G [.v A] [.v B, .v C] := by
        have := Step2.mk (G := G) (pre := []) (post := []) hr rfl
        simpa using this
      have s1 : IterN (Step2 G) k1 [.v B, .v C] (f1 ++ [.v C]) :=
        iterN_step2_append_right [.v C] it1
      have s2 : IterN (Step2 G) k2 (f1 ++ [.v C]) (f1 ++ f2) :=
        iterN_step2_append_left f1 it2
      refine ⟨k2 + k1 + 1, f1 ++ f2, ?_, .head s0 (s1.trans s2), mw1.append mw2⟩
      rw [List.length_append]; omega

/-- the semantic lemma: non-empty words of a CNF grammar -/
theorem cnf_gen_iff_steps (hc : G.isChomsky = true) {A : String} {w : List String} (hw : w ≠ []) :
    G.Gen [.v A] w ↔ ∃ k f, k + 1 = w.length ∧ IterN (Step2 G) k [.v A] f ∧ MW G f w := by
  constructor
  · exact cnf_gen_v_steps hc w.length A w (Nat.le_refl _) hw
  · rintro ⟨k, f, _, hit, hmw⟩
    exact iterN_step2_gen hit hmw.gen

/-! ### the enumerator -/

theorem any_eps_iff : (G.R.any fun r => decide (r.lhs = G.S) && r.rhs.isEmpty) = true ↔ G.HasRule G.S [] := by
  simp only [List.any_eq_true, Bool.and_eq_true, decide_eq_true_eq, List.isEmpty_iff, HasRule]

/-- what `wordsUpTo` computes on a CNF grammar, in terms of `Step2` / `MW` -/
theorem mem_wordsUpTo_cnf (hc : G.isChomsky = true) (n : Nat) (w : List String) :
    w ∈ G.wordsUpTo n ↔
      (w = [] ∧ G.HasRule G.S []) ∨
      ∃ k f, k + 1 ≤ n ∧ IterN (Step2 G) k [.v G.S] f ∧ MW G f w := by
  have hS := allVar_single G.S
  have hw0 : ∀ w : List String,
      (w ∈ if (G.R.any fun r => decide (r.lhs = G.S) && r.rhs.isEmpty) = true then [([] : List String)] else []) ↔
        (w = [] ∧ G.HasRule G.S []) := by
    intro w
    split
    · rename_i h; simp [any_eps_iff.mp h]
    · rename_i h
      have : ¬ G.HasRule G.S [] := fun h' => h (any_eps_iff.mpr h')
      simp [this]
  unfold wordsUpTo
  simp only [hc, if_true]
  rw [mem_wordsLoop]
  cases n with
  | zero =>
    have h0 : ¬ (0 ≥ 1) := by omega
    simp only [h0, if_false, hw0]
    constructor
    · rintro (h | ⟨j, _, _, h1, h2, _⟩)
      · exact Or.inl h
      · omega
    · rintro (h | ⟨k, _, hk, _⟩)
      · exact Or.inl h
      · omega
  | succ m =>
    have h1 : m + 1 ≥ 1 := by omega
    simp only [h1, if_true, mem_sunion, mem_dedup, hw0, Nat.add_sub_cancel, List.mem_singleton]
    constructor
    · rintro ((h | h) | ⟨j, f0, f, hj1, hjm, rfl, hit, hw⟩)
      · exact Or.inl h
      · exact Or.inr ⟨0, [.v G.S], by omega, .refl _, ((mem_makeWords hc hS).mp h).2⟩
      · have hit' := (iterN_repl_iff hc hS).mp hit
        exact Or.inr ⟨j, f, by omega, hit', ((mem_makeWords hc (iterN_step2_allVar hc hS hit')).mp hw).2⟩
    · rintro (h | ⟨k, f, hk, hit, hmw⟩)
      · exact Or.inl (Or.inl h)
      · have hne : f ≠ [] := by
          have := iterN_step2_length hit
          intro h; rw [h] at this; simp only [List.length_nil, List.length_cons] at this; omega
        have hav := iterN_step2_allVar hc hS hit
        cases k with
        | zero =>
          rw [← iterN_zero_iff.mp hit] at hmw
          exact Or.inl (Or.inr ((mem_makeWords hc hS).mpr ⟨by simp, hmw⟩))
        | succ k' =>
          exact Or.inr ⟨k' + 1, [.v G.S], f, by omega, by omega, rfl,
            (iterN_repl_iff hc hS).mpr hit, (mem_makeWords hc hav).mpr ⟨hne, hmw⟩⟩

theorem wordsUpTo_toChomsky (hn : G.isChomsky = false) (hC : (G.toChomsky).isChomsky = true) (n : Nat) :
    G.wordsUpTo n = (G.toChomsky).wordsUpTo n := by
  unfold wordsUpTo
  simp only [hn, hC, if_true, Bool.false_eq_true, if_false]

end CFG
end Gamba
