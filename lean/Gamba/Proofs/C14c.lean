/- Gamba.Proofs.C14c — helper lemmas for the finite-language helpers and `compareLanguages`. -/
import Gamba.Model.Basic
import Gamba.Model.Lang
import Gamba.Proofs.Words
namespace Gamba
variable {τ : Type} [DecidableEq τ]

omit [DecidableEq τ] in
/-- `u` is one of `w[:i]`, `i < len w`, iff `w = u ++ v` for a non-empty `v`. -/
theorem mem_properPrefixes (w u : List τ) :
    u ∈ properPrefixes w ↔ ∃ v, v ≠ [] ∧ w = u ++ v := by
  simp only [properPrefixes, List.mem_map, List.mem_range]
  constructor
  · rintro ⟨i, hi, rfl⟩
    refine ⟨w.drop i, ?_, (List.take_append_drop i w).symm⟩
    intro h
    have := congrArg List.length h
    simp only [List.length_drop, List.length_nil] at this
    omega
  · rintro ⟨v, hv, rfl⟩
    refine ⟨u.length, ?_, ?_⟩
    · have : 0 < v.length := List.length_pos_iff.mpr hv
      simp only [List.length_append]; omega
    · simp

theorem mem_langNoPrefix (L : List (List τ)) (w : List τ) :
    w ∈ langNoPrefix L ↔ w ∈ L ∧ ∀ u v, w = u ++ v → v ≠ [] → u ∉ L := by
  simp only [langNoPrefix, List.mem_filter, Bool.not_eq_eq_eq_not, Bool.not_true,
    List.any_eq_false, decide_eq_true_eq, mem_properPrefixes]
  constructor
  · rintro ⟨hw, h⟩
    exact ⟨hw, fun u v huv hv => h u ⟨v, hv, huv⟩⟩
  · rintro ⟨hw, h⟩
    exact ⟨hw, fun u ⟨v, hv, huv⟩ => h u v huv hv⟩

theorem mem_langNoExtend (L : List (List τ)) (w : List τ) :
    w ∈ langNoExtend L ↔ w ∈ L ∧ ∀ v, v ≠ [] → w ++ v ∉ L := by
  simp only [langNoExtend, List.mem_filter, List.all_eq_true, Bool.not_eq_eq_eq_not, Bool.not_true,
    Bool.and_eq_false_imp, List.isPrefixOf_iff_prefix, decide_eq_false_iff_not, Decidable.not_not]
  constructor
  · rintro ⟨hw, h⟩
    refine ⟨hw, fun v hv hmem => hv ?_⟩
    have := h (w ++ v) hmem ⟨v, rfl⟩
    simpa using this
  · rintro ⟨hw, h⟩
    refine ⟨hw, ?_⟩
    rintro v hv ⟨t, rfl⟩
    by_cases ht : t = []
    · simp [ht]
    · exact absurd hv (h t ht)

omit [DecidableEq τ] in
theorem firstShortest_eq_none (l : List (List τ)) : firstShortest l = none ↔ l = [] := by
  cases l with
  | nil => simp [firstShortest]
  | cons w l =>
    simp only [firstShortest]
    split
    · simp
    · split <;> simp

omit [DecidableEq τ] in
theorem firstShortest_some {l : List (List τ)} {w : List τ} (h : firstShortest l = some w) :
    w ∈ l ∧ ∀ v, v ∈ l → w.length ≤ v.length := by
  induction l generalizing w with
  | nil => simp [firstShortest] at h
  | cons x l ih =>
    simp only [firstShortest] at h
    split at h
    · rename_i hn
      have hl : l = [] := (firstShortest_eq_none l).mp hn
      cases h
      subst hl
      simp
    · rename_i v hv
      obtain ⟨hvm, hvmin⟩ := ih hv
      split at h
      · rename_i hlt
        cases h
        refine ⟨List.mem_cons_of_mem _ hvm, ?_⟩
        intro u hu
        rcases List.mem_cons.mp hu with rfl | hu
        · omega
        · exact hvmin u hu
      · rename_i hlt
        cases h
        refine ⟨List.mem_cons_self, ?_⟩
        intro u hu
        rcases List.mem_cons.mp hu with rfl | hu
        · exact Nat.le_refl _
        · have := hvmin u hu; omega

theorem compareLanguages_none (A1 A2 : List (List τ)) :
    compareLanguages A1 A2 = none ↔ ∀ w, w ∈ A1 ↔ w ∈ A2 := by
  unfold compareLanguages
  constructor
  · intro h
    split at h
    · cases h
    · rename_i h1
      split at h
      · cases h
      · rename_i h2
        have e1 := (firstShortest_eq_none _).mp h1
        have e2 := (firstShortest_eq_none _).mp h2
        intro w
        constructor
        · intro hw
          apply Classical.byContradiction
          intro hn
          have : w ∈ sdiff (dedup A1) A2 := by simp [hw, hn]
          rw [e1] at this; cases this
        · intro hw
          apply Classical.byContradiction
          intro hn
          have : w ∈ sdiff (dedup A2) A1 := by simp [hw, hn]
          rw [e2] at this; cases this
  · intro h
    have e1 : sdiff (dedup A1) A2 = [] := by
      apply List.eq_nil_iff_forall_not_mem.mpr
      intro w hw
      simp only [mem_sdiff, mem_dedup] at hw
      exact hw.2 ((h w).mp hw.1)
    have e2 : sdiff (dedup A2) A1 = [] := by
      apply List.eq_nil_iff_forall_not_mem.mpr
      intro w hw
      simp only [mem_sdiff, mem_dedup] at hw
      exact hw.2 ((h w).mpr hw.1)
    rw [e1, e2]
    simp [firstShortest]

theorem compareLanguages_extra {A1 A2 : List (List τ)} {w : List τ}
    (h : compareLanguages A1 A2 = some (w, true)) :
    w ∈ A1 ∧ w ∉ A2 ∧ ∀ v, v ∈ A1 → v ∉ A2 → w.length ≤ v.length := by
  unfold compareLanguages at h
  split at h
  · rename_i u hu
    simp only [Option.some.injEq, Prod.mk.injEq, and_true] at h
    subst h
    obtain ⟨hm, hmin⟩ := firstShortest_some hu
    simp only [mem_sdiff, mem_dedup] at hm hmin
    exact ⟨hm.1, hm.2, fun v h1 h2 => hmin v ⟨h1, h2⟩⟩
  · split at h
    · simp at h
    · cases h

theorem compareLanguages_missing {A1 A2 : List (List τ)} {w : List τ}
    (h : compareLanguages A1 A2 = some (w, false)) :
    w ∈ A2 ∧ w ∉ A1 ∧ (∀ v, v ∈ A2 → v ∉ A1 → w.length ≤ v.length) ∧ (∀ v, v ∈ A1 → v ∈ A2) := by
  unfold compareLanguages at h
  split at h
  · simp at h
  · rename_i h1
    have e1 := (firstShortest_eq_none _).mp h1
    split at h
    · rename_i u hu
      simp only [Option.some.injEq, Prod.mk.injEq, and_true] at h
      subst h
      obtain ⟨hm, hmin⟩ := firstShortest_some hu
      simp only [mem_sdiff, mem_dedup] at hm hmin
      refine ⟨hm.1, hm.2, fun v h1 h2 => hmin v ⟨h1, h2⟩, ?_⟩
      intro v hv
      apply Classical.byContradiction
      intro hn
      have : v ∈ sdiff (dedup A1) A2 := by simp [hv, hn]
      rw [e1] at this; cases this
    · cases h

end Gamba
