/-
  Gamba.Proofs.C08b — helper lemmas for phase 3 of the CNF conversion (`CFG.elimUnit`):
  unit-derivability (`derivable`), the rule set of `elimUnit`, language preservation.
-/
import Gamba.Model.CFG
import Gamba.Spec.CFG
import Gamba.Proofs.CFGBasic
namespace Gamba

/-! ### list facts (core only) -/

theorem nodup_subset_length_le {α : Type} [DecidableEq α] :
    ∀ (l1 l2 : List α), l1.Nodup → (∀ x, x ∈ l1 → x ∈ l2) → l1.length ≤ l2.length
  | [], _, _, _ => by simp
  | x :: l1, l2, hnd, hsub => by
    have hx : x ∈ l2 := hsub x (List.mem_cons_self ..)
    obtain ⟨hx1, hnd1⟩ := List.nodup_cons.mp hnd
    have ih := nodup_subset_length_le l1 (l2.erase x) hnd1 (by
      intro y hy
      have hne : y ≠ x := by rintro rfl; exact hx1 hy
      exact (List.mem_erase_of_ne hne).mpr (hsub y (List.mem_cons_of_mem _ hy)))
    rw [List.length_erase_of_mem hx] at ih
    have : 0 < l2.length := List.length_pos_of_mem hx
    simp only [List.length_cons]; omega

theorem nodup_sinsert {α : Type} [DecidableEq α] {l : List α} {x : α} (h : l.Nodup) :
    (sinsert l x).Nodup := by
  unfold sinsert
  split
  · exact h
  · rename_i hx
    rw [List.nodup_append]
    refine ⟨h, by simp, ?_⟩
    intro a ha b hb
    simp only [List.mem_singleton] at hb
    subst hb
    rintro rfl
    exact hx ha

theorem sinsert_eq_append {α : Type} [DecidableEq α] (l : List α) (x : α) :
    ∃ e, sinsert l x = l ++ e := by
  unfold sinsert
  split
  · exact ⟨[], by simp⟩
  · exact ⟨[x], rfl⟩

namespace CFG

/-! ### a fold that inserts optional targets -/

/-- `for r in rs: if g r = some B: acc.add(B)` -/
def sfold (g : CRule → Option String) (init : List String) (rs : List CRule) : List String :=
  rs.foldl (fun acc r => match g r with | some B => sinsert acc B | none => acc) init

theorem mem_sfold {g : CRule → Option String} {rs : List CRule} {init : List String} {x : String} :
    x ∈ sfold g init rs ↔ x ∈ init ∨ ∃ r, r ∈ rs ∧ g r = some x := by
  induction rs generalizing init with
  | nil => simp [sfold]
  | cons r rs ih =>
    have ih' := fun init => ih (init := init)
    simp only [sfold, List.foldl_cons] at ih' ⊢
    rw [ih']
    cases hg : g r with
    | none =>
      simp only [List.mem_cons]
      constructor
      · rintro (h | ⟨r', hr', h⟩)
        · exact Or.inl h
        · exact Or.inr ⟨r', Or.inr hr', h⟩
      · rintro (h | ⟨r', (rfl | hr'), h⟩)
        · exact Or.inl h
        · rw [hg] at h; cases h
        · exact Or.inr ⟨r', hr', h⟩
    | some B =>
      simp only [mem_sinsert, List.mem_cons]
      constructor
      · rintro ((h | rfl) | ⟨r', hr', h⟩)
        · exact Or.inl h
        · exact Or.inr ⟨r, Or.inl rfl, hg⟩
        · exact Or.inr ⟨r', Or.inr hr', h⟩
      · rintro (h | ⟨r', (rfl | hr'), h⟩)
        · exact Or.inl (Or.inl h)
        · rw [hg] at h; injection h with h; exact Or.inl (Or.inr h.symm)
        · exact Or.inr ⟨r', hr', h⟩

theorem nodup_sfold {g : CRule → Option String} {rs : List CRule} {init : List String}
    (h : init.Nodup) : (sfold g init rs).Nodup := by
  induction rs generalizing init with
  | nil => simpa [sfold] using h
  | cons r rs ih =>
    have ih' := fun init => ih (init := init)
    simp only [sfold, List.foldl_cons] at ih' ⊢
    apply ih'
    cases g r with
    | none => exact h
    | some B => exact nodup_sinsert h

theorem sfold_eq_append (g : CRule → Option String) (rs : List CRule) (init : List String) :
    ∃ e, sfold g init rs = init ++ e := by
  induction rs generalizing init with
  | nil => exact ⟨[], by simp [sfold]⟩
  | cons r rs ih =>
    have ih' := fun init => ih (init := init)
    simp only [sfold, List.foldl_cons] at ih' ⊢
    cases g r with
    | none => exact ih' init
    | some B =>
      obtain ⟨e1, h1⟩ := sinsert_eq_append init B
      obtain ⟨e2, h2⟩ := ih' (sinsert init B)
      exact ⟨e1 ++ e2, by rw [h2, h1, List.append_assoc]⟩

/-! ### unit edges and reachability -/

/-- transitive closure (non-empty chains), extended at the end -/
inductive TC (E : String → String → Prop) : String → String → Prop
  | one {A B : String} : E A B → TC E A B
  | step {A B C : String} : TC E A B → E B C → TC E A C

theorem TC.head {E : String → String → Prop} {A B C : String} (h : E A B) (h2 : TC E B C) :
    TC E A C := by
  induction h2 with
  | one h' => exact .step (.one h) h'
  | step _ h' ih => exact .step ih h'

theorem TC.mono {E E' : String → String → Prop} (hE : ∀ A B, E A B → E' A B) {A B : String}
    (h : TC E A B) : TC E' A B := by
  induction h with
  | one h' => exact .one (hE _ _ h')
  | step _ h' ih => exact .step ih (hE _ _ h')

/-- what the Python code calls a unit rule `A → B`: a length-one rhs whose name is in `V` -/
def UEdge (G : CFG) (A B : String) : Prop := ∃ r, r ∈ G.R ∧ r.lhs = A ∧ unitTarget G r = some B

theorem unitTarget_mem_V {G : CFG} {r : CRule} {B : String} (h : unitTarget G r = some B) : B ∈ G.V := by
  unfold unitTarget at h
  split at h
  · split at h
    · injection h with h; subst h; assumption
    · cases h
  · cases h

/-- unit-derivability: non-empty chains of unit rules -/
inductive UnitReach (G : CFG) : String → String → Prop
  | one {A B : String} : G.HasRule A [.v B] → UnitReach G A B
  | step {A B C : String} : UnitReach G A B → G.HasRule B [.v C] → UnitReach G A C

/-! ### the bridging lemma -/

theorem valid_rule {G : CFG} (hv : G.valid = true) {r : CRule} (hr : r ∈ G.R) :
    r.lhs ∈ G.V ∧ (∀ A, Sym.v A ∈ r.rhs → A ∈ G.V) ∧ (∀ a, Sym.t a ∈ r.rhs → a ∈ G.Sigma) := by
  simp only [valid, List.all_eq_true, Bool.and_eq_true, decide_eq_true_eq] at hv
  obtain ⟨h1, h2⟩ := hv r hr
  refine ⟨h1, fun A hA => ?_, fun a ha => ?_⟩
  · simpa using h2 _ hA
  · simpa using h2 _ ha

/-- for a valid grammar with disjoint names, `unitTarget` recognises exactly the rules `A → B`
    with `B` a variable -/
theorem unitTarget_eq_some_iff {G : CFG} (hv : G.valid = true) (hd : G.Disjoint) {r : CRule}
    (hr : r ∈ G.R) (B : String) : unitTarget G r = some B ↔ r.rhs = [.v B] := by
  obtain ⟨_, hV, hT⟩ := valid_rule hv hr
  unfold unitTarget
  constructor
  · intro h
    split at h
    · rename_i x hx
      split at h
      · rename_i hxV
        injection h with h
        subst h
        cases x with
        | v A => simpa [Sym.name] using hx
        | t a =>
          exfalso
          exact hd a hxV (hT a (by rw [hx]; simp))
      · cases h
    · cases h
  · intro h
    rw [h]
    have : B ∈ G.V := hV B (by rw [h]; simp)
    simp [Sym.name, this]

theorem uedge_iff {G : CFG} (hv : G.valid = true) (hd : G.Disjoint) (A B : String) :
    UEdge G A B ↔ G.HasRule A [.v B] := by
  constructor
  · rintro ⟨r, hr, hl, ht⟩; exact ⟨r, hr, hl, (unitTarget_eq_some_iff hv hd hr B).mp ht⟩
  · rintro ⟨r, hr, hl, ht⟩; exact ⟨r, hr, hl, (unitTarget_eq_some_iff hv hd hr B).mpr ht⟩

theorem unitReach_iff_tc {G : CFG} (hv : G.valid = true) (hd : G.Disjoint) (A B : String) :
    UnitReach G A B ↔ TC (UEdge G) A B := by
  constructor
  · intro h
    induction h with
    | one h' => exact .one ((uedge_iff hv hd _ _).mpr h')
    | step _ h' ih => exact .step ih ((uedge_iff hv hd _ _).mpr h')
  · intro h
    induction h with
    | one h' => exact .one ((uedge_iff hv hd _ _).mp h')
    | step _ h' ih => exact .step ih ((uedge_iff hv hd _ _).mp h')

theorem UnitReach.head {G : CFG} {A B C : String} (h : G.HasRule A [.v B]) (h2 : UnitReach G B C) :
    UnitReach G A C := by
  induction h2 with
  | one h' => exact .step (.one h) h'
  | step _ h' ih => exact .step ih h'

/-! ### `derivableLoop` / `derivable` -/

/-- one pass of the loop, as an `sfold` -/
def passG (G : CFG) (W : List String) (r : CRule) : Option String :=
  if r.lhs ∈ W then unitTarget G r else none

theorem derivableLoop_succ (G : CFG) (fuel : Nat) (W : List String) :
    derivableLoop G (fuel + 1) W =
      if (sfold (passG G W) W G.R).length = W.length then sfold (passG G W) W G.R
      else derivableLoop G fuel (sfold (passG G W) W G.R) := by
  have key : ∀ (X Y : List String), X = Y →
      (if X.length = W.length then X else derivableLoop G fuel X) =
      (if Y.length = W.length then Y else derivableLoop G fuel Y) := by
    intro X Y h; rw [h]
  simp only [derivableLoop, sfold]
  apply key
  congr 1
  funext acc r
  unfold passG
  by_cases h : r.lhs ∈ W
  · simp only [h, if_true]; cases unitTarget G r <;> rfl
  · simp only [h, if_false]; cases unitTarget G r <;> rfl

theorem derivableLoop_spec (G : CFG) (fuel : Nat) (W : List String) (hnd : W.Nodup)
    (hV : ∀ x, x ∈ W → x ∈ G.V) (hf : G.V.length + 1 ≤ fuel + W.length) :
    (∀ x, x ∈ W → x ∈ derivableLoop G fuel W) ∧
    (∀ C B, C ∈ derivableLoop G fuel W → UEdge G C B → B ∈ derivableLoop G fuel W) ∧
    (∀ x, x ∈ derivableLoop G fuel W → x ∈ W ∨ ∃ C, C ∈ W ∧ TC (UEdge G) C x) := by
  induction fuel generalizing W with
  | zero =>
    have := nodup_subset_length_le W G.V hnd hV
    omega
  | succ fuel ih =>
    rw [derivableLoop_succ]
    have hmem : ∀ x, x ∈ sfold (passG G W) W G.R ↔ x ∈ W ∨ ∃ C, C ∈ W ∧ UEdge G C x := by
      intro x
      rw [mem_sfold]
      constructor
      · rintro (h | ⟨r, hr, hg⟩)
        · exact Or.inl h
        · unfold passG at hg
          split at hg
          · rename_i hl; exact Or.inr ⟨r.lhs, hl, r, hr, rfl, hg⟩
          · cases hg
      · rintro (h | ⟨C, hC, r, hr, rfl, ht⟩)
        · exact Or.inl h
        · exact Or.inr ⟨r, hr, by simp [passG, hC, ht]⟩
    split
    · rename_i hlen
      obtain ⟨e, he⟩ := sfold_eq_append (passG G W) G.R W
      have he0 : e = [] := by
        have := congrArg List.length he
        rw [hlen, List.length_append] at this
        exact List.eq_nil_of_length_eq_zero (by omega)
      rw [he0, List.append_nil] at he
      rw [he]
      refine ⟨fun x h => h, ?_, fun x h => Or.inl h⟩
      intro C B hC hE
      have : B ∈ sfold (passG G W) W G.R := (hmem B).mpr (Or.inr ⟨C, hC, hE⟩)
      rwa [he] at this
    · rename_i hlen
      have hnd' : (sfold (passG G W) W G.R).Nodup := nodup_sfold hnd
      have hV' : ∀ x, x ∈ sfold (passG G W) W G.R → x ∈ G.V := by
        intro x hx
        rcases (hmem x).mp hx with h | ⟨C, _, r, _, _, ht⟩
        · exact hV x h
        · exact unitTarget_mem_V ht
      have hf' : G.V.length + 1 ≤ fuel + (sfold (passG G W) W G.R).length := by
        obtain ⟨e, he⟩ := sfold_eq_append (passG G W) G.R W
        have := congrArg List.length he
        rw [List.length_append] at this
        omega
      obtain ⟨h1, h2, h3⟩ := ih _ hnd' hV' hf'
      refine ⟨fun x h => h1 x ((hmem x).mpr (Or.inl h)), h2, ?_⟩
      intro x hx
      rcases h3 x hx with h | ⟨C, hC, hreach⟩
      · rcases (hmem x).mp h with h | ⟨C, hC, hE⟩
        · exact Or.inl h
        · exact Or.inr ⟨C, hC, .one hE⟩
      · rcases (hmem C).mp hC with h | ⟨C', hC', hE⟩
        · exact Or.inr ⟨C, h, hreach⟩
        · exact Or.inr ⟨C', hC', TC.head hE hreach⟩

def startG (G : CFG) (A : String) (r : CRule) : Option String :=
  if r.lhs = A then unitTarget G r else none

theorem derivable_eq (G : CFG) (A : String) :
    G.derivable A = (derivableLoop G (G.V.length + 1) (sfold (startG G A) [] G.R)).filter (· ≠ A) := by
  simp only [derivable, sfold]
  congr 3
  funext acc r
  unfold startG
  by_cases h : r.lhs = A
  · simp only [h, if_true]; cases unitTarget G r <;> rfl
  · simp only [h, if_false]

/-- `derivable` without any hypothesis on the grammar, in terms of `unitTarget` edges -/
theorem mem_derivable_iff (G : CFG) (A B : String) :
    B ∈ G.derivable A ↔ TC (UEdge G) A B ∧ B ≠ A := by
  rw [derivable_eq]
  have hW0 : ∀ x, x ∈ sfold (startG G A) [] G.R ↔ UEdge G A x := by
    intro x
    rw [mem_sfold]
    constructor
    · rintro (h | ⟨r, hr, hg⟩)
      · cases h
      · unfold startG at hg
        split at hg
        · rename_i hl; exact ⟨r, hr, hl, hg⟩
        · cases hg
    · rintro ⟨r, hr, hl, ht⟩
      exact Or.inr ⟨r, hr, by simp [startG, hl, ht]⟩
  obtain ⟨h1, h2, h3⟩ := derivableLoop_spec G (G.V.length + 1) (sfold (startG G A) [] G.R)
    (nodup_sfold List.nodup_nil)
    (fun x hx => by obtain ⟨r, _, _, ht⟩ := (hW0 x).mp hx; exact unitTarget_mem_V ht)
    (by omega)
  simp only [List.mem_filter, decide_eq_true_eq]
  constructor
  · rintro ⟨hB, hne⟩
    refine ⟨?_, hne⟩
    rcases h3 B hB with h | ⟨C, hC, hreach⟩
    · exact .one ((hW0 B).mp h)
    · exact TC.head ((hW0 C).mp hC) hreach
  · rintro ⟨hreach, hne⟩
    refine ⟨?_, hne⟩
    clear hne
    induction hreach with
    | one h => exact h1 _ ((hW0 _).mpr h)
    | step _ hE ih => exact h2 _ _ ih hE

/-- `derivable` for a valid grammar with disjoint names -/
theorem mem_derivable_iff_unitReach {G : CFG} (hv : G.valid = true) (hd : G.Disjoint) (A B : String) :
    B ∈ G.derivable A ↔ (UnitReach G A B ∧ B ≠ A) := by
  rw [mem_derivable_iff, unitReach_iff_tc hv hd]

/-! ### `putStartInFront` only permutes -/

theorem mem_putStartInFront (S : String) (R : List CRule) (x : CRule) :
    x ∈ putStartInFront S R ↔ x ∈ R := by
  unfold putStartInFront
  split
  · rfl
  · rename_i i hi
    split
    · rename_i r0 ri h0 hi'
      simp only [List.mem_iff_getElem?]
      constructor
      · rintro ⟨j, hj⟩
        rw [List.getElem?_set] at hj
        split at hj
        · split at hj
          · injection hj with hj; subst hj; exact ⟨0, h0⟩
          · cases hj
        · rw [List.getElem?_set] at hj
          split at hj
          · split at hj
            · injection hj with hj; subst hj; exact ⟨i, hi'⟩
            · cases hj
          · exact ⟨j, hj⟩
      · rintro ⟨j, hj⟩
        have hlen0 : 0 < R.length := by
          rcases Nat.lt_or_ge 0 R.length with h | h
          · exact h
          · rw [List.getElem?_eq_none h] at h0; cases h0
        have hleni : i < R.length := by
          rcases Nat.lt_or_ge i R.length with h | h
          · exact h
          · rw [List.getElem?_eq_none h] at hi'; cases hi'
        by_cases hji : j = i
        · -- x = ri, now at position 0 (unless i = 0, then r0 = ri at position i)
          subst hji
          rw [hi'] at hj; injection hj with hj; subst hj
          by_cases hi0 : j = 0
          · subst hi0
            rw [h0] at hi'; injection hi' with hi'; subst hi'
            exact ⟨0, by simp [hlen0]⟩
          · refine ⟨0, ?_⟩
            rw [List.getElem?_set]
            simp only [hi0, if_false]
            rw [List.getElem?_set]
            simp [hlen0]
        · by_cases hj0 : j = 0
          · subst hj0
            rw [h0] at hj; injection hj with hj; subst hj
            refine ⟨i, ?_⟩
            rw [List.getElem?_set]
            simp [hleni]
          · refine ⟨j, ?_⟩
            rw [List.getElem?_set]
            have : ¬ i = j := fun h => hji h.symm
            simp only [this, if_false]
            rw [List.getElem?_set]
            have : ¬ 0 = j := fun h => hj0 h.symm
            simp only [this, if_false]
            exact hj
    · rfl

/-! ### the rules of `elimUnit` -/

/-- `isUnit` only looks at the right-hand side -/
def unitRhs (rhs : List Sym) : Bool :=
  match rhs with
  | [.v _] => true
  | _ => false

theorem isUnit_eq (r : CRule) : isUnit r = unitRhs r.rhs := rfl

/-- inner step of `elimUnit` -/
def euInner (A : String) (W : List String) (R1 : List CRule) (r : CRule) : List CRule :=
  if r.lhs ∈ W ∧ !isUnit r then
    let r1 : CRule := { lhs := A, aid := r.aid, rhs := r.rhs }
    if R1.any (sameRule r1) then R1 else R1 ++ [r1]
  else R1

/-- the double loop of `elimUnit`, over an arbitrary list of variables -/
def euR1 (G : CFG) (Vs : List String) (acc : List CRule) : List CRule :=
  Vs.foldl (fun R1 A => G.R.foldl (euInner A (G.derivable A)) R1) acc

theorem elimUnit_eq (G : CFG) :
    G.elimUnit = { G with R := putStartInFront G.S ((euR1 G G.V G.R).filter (fun r => !isUnit r)) } := rfl

theorem euInner_mono {A : String} {W : List String} {rs : List CRule} {acc : List CRule} {x : CRule}
    (h : x ∈ acc) : x ∈ rs.foldl (euInner A W) acc := by
  induction rs generalizing acc with
  | nil => exact h
  | cons r rs ih =>
    simp only [List.foldl_cons]
    apply ih
    unfold euInner
    split
    · simp only []
      split
      · exact h
      · exact List.mem_append_left _ h
    · exact h

theorem euInner_sound {A : String} {W : List String} {rs : List CRule} {acc : List CRule} {x : CRule}
    (h : x ∈ rs.foldl (euInner A W) acc) :
    x ∈ acc ∨ ∃ r, r ∈ rs ∧ r.lhs ∈ W ∧ isUnit r = false ∧ x = { lhs := A, aid := r.aid, rhs := r.rhs } := by
  induction rs generalizing acc with
  | nil => exact Or.inl h
  | cons r rs ih =>
    simp only [List.foldl_cons] at h
    rcases ih h with h' | ⟨r', hr', h1, h2, h3⟩
    · unfold euInner at h'
      split at h'
      · rename_i hc
        simp only [] at h'
        split at h'
        · exact Or.inl h'
        · rcases List.mem_append.mp h' with h'' | h''
          · exact Or.inl h''
          · simp only [List.mem_singleton] at h''
            refine Or.inr ⟨r, List.mem_cons_self .., hc.1, ?_, h''⟩
            simpa using hc.2
      · exact Or.inl h'
    · exact Or.inr ⟨r', List.mem_cons_of_mem _ hr', h1, h2, h3⟩

theorem euInner_complete {A : String} {W : List String} {rs : List CRule} {acc : List CRule} {r : CRule}
    (hr : r ∈ rs) (hW : r.lhs ∈ W) (hu : isUnit r = false) :
    ∃ x, x ∈ rs.foldl (euInner A W) acc ∧ x.lhs = A ∧ x.rhs = r.rhs := by
  induction rs generalizing acc with
  | nil => cases hr
  | cons r' rs ih =>
    simp only [List.foldl_cons]
    rcases List.mem_cons.mp hr with rfl | hr
    · have : ∃ x, x ∈ euInner A W acc r ∧ x.lhs = A ∧ x.rhs = r.rhs := by
        unfold euInner
        have hc : r.lhs ∈ W ∧ (!isUnit r) = true := ⟨hW, by simp [hu]⟩
        simp only [hc, and_self, if_true]
        split
        · rename_i hany
          obtain ⟨y, hy, hs⟩ := List.any_eq_true.mp hany
          simp only [sameRule, Bool.and_eq_true, decide_eq_true_eq] at hs
          exact ⟨y, hy, hs.1.symm, hs.2.symm⟩
        · exact ⟨_, List.mem_append_right _ (List.mem_singleton.mpr rfl), rfl, rfl⟩
      obtain ⟨x, hx, h1, h2⟩ := this
      exact ⟨x, euInner_mono hx, h1, h2⟩
    · exact ih hr

theorem euR1_mono {G : CFG} {Vs : List String} {acc : List CRule} {x : CRule} (h : x ∈ acc) :
    x ∈ euR1 G Vs acc := by
  induction Vs generalizing acc with
  | nil => exact h
  | cons A Vs ih =>
    simp only [euR1, List.foldl_cons] at ih ⊢
    exact ih (euInner_mono h)

theorem euR1_sound {G : CFG} {Vs : List String} {acc : List CRule} {x : CRule} (h : x ∈ euR1 G Vs acc) :
    x ∈ acc ∨ ∃ r, r ∈ G.R ∧ x.lhs ∈ Vs ∧ r.lhs ∈ G.derivable x.lhs ∧ isUnit r = false ∧
      x.aid = r.aid ∧ x.rhs = r.rhs := by
  induction Vs generalizing acc with
  | nil => exact Or.inl h
  | cons A Vs ih =>
    simp only [euR1, List.foldl_cons] at ih h
    rcases ih h with h' | ⟨r, hr, h1, h2, h3, h4, h5⟩
    · rcases euInner_sound h' with h'' | ⟨r, hr, h1, h2, rfl⟩
      · exact Or.inl h''
      · exact Or.inr ⟨r, hr, List.mem_cons_self .., h1, h2, rfl, rfl⟩
    · exact Or.inr ⟨r, hr, List.mem_cons_of_mem _ h1, h2, h3, h4, h5⟩

theorem euR1_complete {G : CFG} {Vs : List String} {acc : List CRule} {A : String} {r : CRule}
    (hA : A ∈ Vs) (hr : r ∈ G.R) (hW : r.lhs ∈ G.derivable A) (hu : isUnit r = false) :
    ∃ x, x ∈ euR1 G Vs acc ∧ x.lhs = A ∧ x.rhs = r.rhs := by
  induction Vs generalizing acc with
  | nil => cases hA
  | cons A' Vs ih =>
    simp only [euR1, List.foldl_cons] at ih ⊢
    rcases List.mem_cons.mp hA with rfl | hA
    · obtain ⟨x, hx, h1, h2⟩ := euInner_complete (A := A) (acc := acc) hr hW hu
      exact ⟨x, euR1_mono hx, h1, h2⟩
    · exact ih hA

/-- rule-level description of the rules of `elimUnit` (keeps track of `aid`) -/
theorem mem_elimUnit_R {G : CFG} {x : CRule} (h : x ∈ G.elimUnit.R) :
    isUnit x = false ∧ (x ∈ G.R ∨ ∃ r, r ∈ G.R ∧ x.lhs ∈ G.V ∧ r.lhs ∈ G.derivable x.lhs ∧
      isUnit r = false ∧ x.aid = r.aid ∧ x.rhs = r.rhs) := by
  rw [elimUnit_eq] at h
  simp only [mem_putStartInFront, List.mem_filter, Bool.not_eq_true'] at h
  exact ⟨h.2, euR1_sound h.1⟩

/-- the (lhs, rhs) pairs of `elimUnit`, for any grammar -/
theorem elimUnit_hasRule_iff (G : CFG) (A : String) (rhs : List Sym) :
    G.elimUnit.HasRule A rhs ↔
      unitRhs rhs = false ∧ (G.HasRule A rhs ∨
        (A ∈ G.V ∧ ∃ B, B ∈ G.derivable A ∧ G.HasRule B rhs)) := by
  constructor
  · rintro ⟨x, hx, rfl, rfl⟩
    obtain ⟨hu, h⟩ := mem_elimUnit_R hx
    refine ⟨by rw [← isUnit_eq]; exact hu, ?_⟩
    rcases h with h | ⟨r, hr, h1, h2, h3, h4, h5⟩
    · exact Or.inl ⟨x, h, rfl, rfl⟩
    · exact Or.inr ⟨h1, r.lhs, h2, r, hr, rfl, h5.symm⟩
  · rintro ⟨hu, h⟩
    have key : ∃ x, x ∈ euR1 G G.V G.R ∧ x.lhs = A ∧ x.rhs = rhs := by
      rcases h with ⟨r, hr, h1, h2⟩ | ⟨hA, B, hB, r, hr, rfl, rfl⟩
      · exact ⟨r, euR1_mono hr, h1, h2⟩
      · exact euR1_complete hA hr hB (by rw [isUnit_eq]; exact hu)
    obtain ⟨x, hx, h1, h2⟩ := key
    refine ⟨x, ?_, h1, h2⟩
    rw [elimUnit_eq]
    simp only [mem_putStartInFront, List.mem_filter, Bool.not_eq_true']
    exact ⟨hx, by rw [isUnit_eq, h2]; exact hu⟩

/-! ### structural postconditions -/

theorem elimUnit_S (G : CFG) : G.elimUnit.S = G.S := rfl
theorem elimUnit_V (G : CFG) : G.elimUnit.V = G.V := rfl
theorem elimUnit_Sigma (G : CFG) : G.elimUnit.Sigma = G.Sigma := rfl

theorem elimUnit_noUnit (G : CFG) : NoUnit G.elimUnit :=
  fun _ hr => (mem_elimUnit_R hr).1

theorem valid_iff_c08b {G : CFG} : G.valid = true ↔ ∀ r, r ∈ G.R →
    r.lhs ∈ G.V ∧ (∀ A, Sym.v A ∈ r.rhs → A ∈ G.V) ∧ (∀ a, Sym.t a ∈ r.rhs → a ∈ G.Sigma) := by
  constructor
  · intro hv r hr; exact valid_rule hv hr
  · intro h
    simp only [valid, List.all_eq_true, Bool.and_eq_true, decide_eq_true_eq]
    intro r hr
    obtain ⟨h1, h2, h3⟩ := h r hr
    refine ⟨h1, fun x hx => ?_⟩
    cases x with
    | v A => simpa using h2 A hx
    | t a => simpa using h3 a hx

theorem elimUnit_valid {G : CFG} (hv : G.valid = true) : G.elimUnit.valid = true := by
  rw [valid_iff_c08b]
  intro x hx
  rw [elimUnit_V, elimUnit_Sigma]
  rcases (mem_elimUnit_R hx).2 with h | ⟨r, hr, h1, _, _, _, h5⟩
  · exact valid_rule hv h
  · obtain ⟨_, h2, h3⟩ := valid_rule hv hr
    rw [h5]
    exact ⟨h1, h2, h3⟩

theorem elimUnit_startNotOnRhs {G : CFG} (h : StartNotOnRhs G) : StartNotOnRhs G.elimUnit := by
  intro x hx
  rw [elimUnit_S]
  rcases (mem_elimUnit_R hx).2 with h' | ⟨r, hr, _, _, _, _, h5⟩
  · exact h x h'
  · rw [h5]; exact h r hr

theorem elimUnit_aliasOK {G : CFG} (h : AliasOK G) : AliasOK G.elimUnit := by
  have key : ∀ x, x ∈ G.elimUnit.R → ∃ r, r ∈ G.R ∧ x.aid = r.aid ∧ x.rhs = r.rhs := by
    intro x hx
    rcases (mem_elimUnit_R hx).2 with h' | ⟨r, hr, _, _, _, h4, h5⟩
    · exact ⟨x, h', rfl, rfl⟩
    · exact ⟨r, hr, h4, h5⟩
  intro x y hx hy hxy
  obtain ⟨r, hr, h1, h2⟩ := key x hx
  obtain ⟨s, hs, h3, h4⟩ := key y hy
  rw [h2, h4]
  exact h r s hr hs (by rw [← h1, ← h3]; exact hxy)

/-- the last edge of a chain -/
theorem UnitReach.last {G : CFG} {A B : String} (h : UnitReach G A B) : ∃ C, G.HasRule C [.v B] := by
  cases h with
  | one h' => exact ⟨_, h'⟩
  | step _ h' => exact ⟨_, h'⟩

theorem elimUnit_noEps {G : CFG} (hv : G.valid = true) (hd : G.Disjoint)
    (h1 : NoEpsExceptStart G) (h2 : StartNotOnRhs G) : NoEpsExceptStart G.elimUnit := by
  intro x hx hnil
  rw [elimUnit_S]
  rcases (mem_elimUnit_R hx).2 with h' | ⟨r, hr, _, hder, _, _, h5⟩
  · exact h1 x h' hnil
  · exfalso
    have hrS : r.lhs = G.S := h1 r hr (by rw [← h5]; exact hnil)
    obtain ⟨hreach, _⟩ := (mem_derivable_iff_unitReach hv hd _ _).mp hder
    obtain ⟨C, s, hs, _, hrhs⟩ := hreach.last
    apply h2 s hs
    rw [hrhs, hrS]; simp

/-! ### language preservation -/

theorem gen_of_unitReach {G : CFG} {A B : String} (h : UnitReach G A B) {u : List String}
    (hg : G.Gen [.v B] u) : G.Gen [.v A] u := by
  induction h with
  | one h' => exact gen_v_iff.mpr ⟨_, h', hg⟩
  | step _ h' ih => exact ih (gen_v_iff.mpr ⟨_, h', hg⟩)

theorem elimUnit_gen_sound {G : CFG} (hv : G.valid = true) (hd : G.Disjoint) {f : List Sym}
    {w : List String} (h : G.elimUnit.Gen f w) : G.Gen f w := by
  induction h with
  | nil => exact .nil
  | t _ ih => exact .t ih
  | @v A rhs ss u w hr _ _ ih1 ih2 =>
    obtain ⟨_, hr'⟩ := (elimUnit_hasRule_iff G A rhs).mp hr
    rcases hr' with hr' | ⟨_, B, hB, hr'⟩
    · exact .v hr' ih1 ih2
    · obtain ⟨hreach, _⟩ := (mem_derivable_iff_unitReach hv hd _ _).mp hB
      have hA : G.Gen [.v A] u := gen_of_unitReach hreach (gen_v_iff.mpr ⟨_, hr', ih1⟩)
      exact gen_append hA ih2

theorem hasRule_lhs_mem_V {G : CFG} (hv : G.valid = true) {A : String} {rhs : List Sym}
    (h : G.HasRule A rhs) : A ∈ G.V := by
  obtain ⟨r, hr, rfl, _⟩ := h
  exact (valid_rule hv hr).1

theorem unitRhs_eq_true {rhs : List Sym} (h : unitRhs rhs = true) : ∃ B, rhs = [.v B] := by
  unfold unitRhs at h
  split at h
  · exact ⟨_, rfl⟩
  · cases h

theorem elimUnit_gen_complete_aux {G : CFG} (hv : G.valid = true) (hd : G.Disjoint) {f : List Sym}
    {w : List String} (h : G.Gen f w) :
    G.elimUnit.Gen f w ∧ ∀ B, f = [.v B] → ∃ C α, (C = B ∨ UnitReach G B C) ∧ G.HasRule C α ∧
      unitRhs α = false ∧ G.elimUnit.Gen α w := by
  induction h with
  | nil => exact ⟨.nil, fun B hB => by cases hB⟩
  | t _ ih => exact ⟨.t ih.1, fun B hB => by cases hB⟩
  | @v A rhs ss u w hr _ _ ih1 ih2 =>
    have hQ : ∃ C α, (C = A ∨ UnitReach G A C) ∧ G.HasRule C α ∧ unitRhs α = false ∧
        G.elimUnit.Gen α u := by
      cases hu : unitRhs rhs with
      | false => exact ⟨A, rhs, Or.inl rfl, hr, hu, ih1.1⟩
      | true =>
        obtain ⟨B, rfl⟩ := unitRhs_eq_true hu
        obtain ⟨C, α, hC, h1, h2, h3⟩ := ih1.2 B rfl
        refine ⟨C, α, Or.inr ?_, h1, h2, h3⟩
        rcases hC with rfl | hC
        · exact .one hr
        · exact UnitReach.head hr hC
    obtain ⟨C, α, hC, h1, h2, h3⟩ := hQ
    have hA : G.elimUnit.HasRule A α := by
      rw [elimUnit_hasRule_iff]
      refine ⟨h2, ?_⟩
      by_cases hCA : C = A
      · subst hCA; exact Or.inl h1
      · rcases hC with hC | hC
        · exact absurd hC hCA
        · exact Or.inr ⟨hasRule_lhs_mem_V hv hr, C,
            (mem_derivable_iff_unitReach hv hd _ _).mpr ⟨hC, hCA⟩, h1⟩
    refine ⟨.v hA h3 ih2.1, ?_⟩
    intro B hB
    injection hB with hB1 hB2
    injection hB1 with hB1
    subst hB1 hB2
    have hw := gen_nil_iff.mp ih2.1
    subst hw
    rw [List.append_nil]
    exact ⟨C, α, hC, h1, h2, h3⟩

theorem elimUnit_gen_iff {G : CFG} (hv : G.valid = true) (hd : G.Disjoint) (f : List Sym)
    (w : List String) : G.elimUnit.Gen f w ↔ G.Gen f w :=
  ⟨elimUnit_gen_sound hv hd, fun h => (elimUnit_gen_complete_aux hv hd h).1⟩

/-! ### independence of the order of `V` -/

theorem unitTarget_congr (G : CFG) (V' : List String) (hp : ∀ A, A ∈ V' ↔ A ∈ G.V) (r : CRule) :
    unitTarget ({ G with V := V' } : CFG) r = unitTarget G r := by
  unfold unitTarget
  split
  · rename_i x _
    by_cases h : x.name ∈ G.V
    · simp [h, (hp _).mpr h]
    · have h2 : ¬ x.name ∈ V' := fun h' => h ((hp _).mp h')
      simp [h, h2]
  · rfl

theorem uedge_congr (G : CFG) (V' : List String) (hp : ∀ A, A ∈ V' ↔ A ∈ G.V) (A B : String) :
    UEdge ({ G with V := V' } : CFG) A B ↔ UEdge G A B := by
  unfold UEdge
  simp only [unitTarget_congr G V' hp]

theorem mem_derivable_congr (G : CFG) (V' : List String) (hp : ∀ A, A ∈ V' ↔ A ∈ G.V) (A B : String) :
    B ∈ ({ G with V := V' } : CFG).derivable A ↔ B ∈ G.derivable A := by
  rw [mem_derivable_iff, mem_derivable_iff]
  have : TC (UEdge ({ G with V := V' } : CFG)) A B ↔ TC (UEdge G) A B :=
    ⟨TC.mono (fun A B => (uedge_congr G V' hp A B).mp), TC.mono (fun A B => (uedge_congr G V' hp A B).mpr)⟩
  rw [this]

end CFG
end Gamba
