/-
  Gamba.Proofs.C15b — `cfg_derive_word` on a CNF grammar: the parse tree built from the CYK table is
  a correct parse tree of the word, and the work-list extraction of a leftmost / rightmost
  derivation from a correct parse tree yields a genuine leftmost / rightmost derivation.
-/
import Gamba.Model.CFG
import Gamba.Model.Simulate
import Gamba.Spec.CFG
import Gamba.Spec.Trace
import Gamba.Proofs.CFGBasic
import Gamba.Proofs.C07
namespace Gamba
namespace CFG

/-! ### parse trees: yield, correctness -/

/-- the word at the leaves of a tree -/
def PTree.yield : PTree → List String
  | .leaf a => [a]
  | .node _ cs => yieldList cs
where yieldList : List PTree → List String
  | [] => []
  | t :: ts => t.yield ++ yieldList ts

/-- every inner node has children, and `label → labels of the children` is a rule of `G` -/
inductive Proper (G : CFG) : PTree → Prop
  | leaf (a : String) : Proper G (.leaf a)
  | node (A : String) (cs : List PTree) : cs ≠ [] → G.HasRule A (cs.map PTree.label) →
      (∀ c, c ∈ cs → Proper G c) → Proper G (.node A cs)

theorem yieldList_append (l₁ l₂ : List PTree) :
    PTree.yield.yieldList (l₁ ++ l₂) = PTree.yield.yieldList l₁ ++ PTree.yield.yieldList l₂ := by
  induction l₁ with
  | nil => simp [PTree.yield.yieldList]
  | cons t ts ih => simp [PTree.yield.yieldList, ih]

theorem sizeList_append (l₁ l₂ : List PTree) :
    PTree.size.sizeList (l₁ ++ l₂) = PTree.size.sizeList l₁ + PTree.size.sizeList l₂ := by
  induction l₁ with
  | nil => simp [PTree.size.sizeList]
  | cons t ts ih => simp [PTree.size.sizeList, ih]; omega

theorem PTree.size_pos (t : PTree) : 1 ≤ t.size := by
  cases t with
  | leaf a => simp [PTree.size]
  | node A cs => simp [PTree.size]

/-! ### the extraction loop -/

theorem extractLoop_nil (lm : Bool) (fuel : Nat) (el : List Sym) (res : List (List Sym)) :
    extractLoop lm fuel [] el res = res := by
  cases fuel <;> rfl

theorem extractLoop_succ (lm : Bool) (fuel : Nat) (todo : List PTree) (hne : todo ≠ [])
    (el : List Sym) (res : List (List Sym)) :
    extractLoop lm (fuel + 1) todo el res =
      (let (t, rest) := if lm then (todo.head!, todo.tail) else (todo.getLast!, todo.dropLast)
      match t with
      | .leaf _ => extractLoop lm fuel rest el res
      | .node _ [] => extractLoop lm fuel rest el res
      | .node A children =>
        let value := children.map PTree.label
        let pos := if lm then el.idxOf (.v A) else lastIdxOf el (.v A)
        let element' := replaceAt el pos value
        let todo' := if lm then children ++ rest else rest ++ children
        extractLoop lm fuel todo' element' (res ++ [element'])) := by
  cases todo with
  | nil => exact absurd rfl hne
  | cons t ts => rfl

theorem idxOf_var_terminals (u : List String) (A : String) (post : List Sym) :
    (u.map Sym.t ++ Sym.v A :: post).idxOf (Sym.v A) = u.length := by
  rw [List.idxOf_append]
  have : Sym.v A ∉ u.map Sym.t := by simp
  rw [if_neg this, List.idxOf_cons_self]
  simp

theorem replaceAt_mid (pre post value : List Sym) (x : Sym) (n : Nat) (hn : n = pre.length) :
    replaceAt (pre ++ x :: post) n value = pre ++ value ++ post := by
  subst hn
  unfold replaceAt
  simp

theorem terminals_isVar (u : List String) : ∀ x, x ∈ u.map Sym.t → x.isVar = false := by
  intro x hx
  obtain ⟨a, _, rfl⟩ := List.mem_map.mp hx
  rfl

/-- leftmost extraction: the work list is processed in pre-order -/
theorem extract_left (G : CFG) : ∀ (fuel : Nat) (todo : List PTree) (u : List String)
    (res : List (List Sym)),
    PTree.size.sizeList todo ≤ fuel → (∀ t, t ∈ todo → Proper G t) →
    ∃ steps, extractLoop true fuel todo (u.map Sym.t ++ todo.map PTree.label) res = res ++ steps ∧
      ChainOf G.LStep ((u.map Sym.t ++ todo.map PTree.label) :: steps) ∧
      ((u.map Sym.t ++ todo.map PTree.label) :: steps).getLast? =
        some ((u ++ PTree.yield.yieldList todo).map Sym.t) := by
  intro fuel
  induction fuel with
  | zero =>
    intro todo u res hsz hp
    cases todo with
    | nil =>
      refine ⟨[], by simp [extractLoop], .single _, ?_⟩
      simp [PTree.yield.yieldList]
    | cons t ts =>
      have := t.size_pos
      simp only [PTree.size.sizeList] at hsz
      omega
  | succ fuel ih =>
    intro todo u res hsz hp
    cases todo with
    | nil =>
      refine ⟨[], by simp [extractLoop], .single _, ?_⟩
      simp [PTree.yield.yieldList]
    | cons t rest =>
      rw [extractLoop_succ _ _ _ (by simp)]
      simp only [if_true, List.head!, List.tail]
      have hprest : ∀ t, t ∈ rest → Proper G t := fun t ht => hp t (List.mem_cons_of_mem _ ht)
      cases t with
      | leaf a =>
        have he : u.map Sym.t ++ (PTree.leaf a :: rest).map PTree.label
            = (u ++ [a]).map Sym.t ++ rest.map PTree.label := by simp [PTree.label]
        have hsz' : PTree.size.sizeList rest ≤ fuel := by
          simp only [PTree.size.sizeList, PTree.size] at hsz; omega
        obtain ⟨steps, h1, h2, h3⟩ := ih rest (u ++ [a]) res hsz' hprest
        rw [he]
        refine ⟨steps, h1, h2, ?_⟩
        rw [h3]
        simp [PTree.yield.yieldList, PTree.yield]
      | node A cs =>
        have hpt := hp _ (List.mem_cons_self ..)
        cases hpt with
        | node _ _ hne hrule hcs =>
        cases cs with
        | nil => exact absurd rfl hne
        | cons c cs =>
          have hel : u.map Sym.t ++ (PTree.node A (c :: cs) :: rest).map PTree.label
              = u.map Sym.t ++ Sym.v A :: rest.map PTree.label := by simp [PTree.label]
          have hrep : replaceAt (u.map Sym.t ++ Sym.v A :: rest.map PTree.label)
              ((u.map Sym.t ++ Sym.v A :: rest.map PTree.label).idxOf (Sym.v A))
              ((c :: cs).map PTree.label)
              = u.map Sym.t ++ ((c :: cs) ++ rest).map PTree.label := by
            rw [replaceAt_mid _ _ _ _ _ (by rw [idxOf_var_terminals]; simp)]
            simp
          have hsz' : PTree.size.sizeList ((c :: cs) ++ rest) ≤ fuel := by
            rw [sizeList_append]
            simp only [PTree.size.sizeList, PTree.size] at hsz ⊢; omega
          have hp' : ∀ t, t ∈ (c :: cs) ++ rest → Proper G t := by
            intro t ht
            rcases List.mem_append.mp ht with h | h
            · exact hcs t h
            · exact hprest t h
          obtain ⟨steps, h1, h2, h3⟩ := ih ((c :: cs) ++ rest) u
            (res ++ [u.map Sym.t ++ ((c :: cs) ++ rest).map PTree.label]) hsz' hp'
          rw [hel]
          simp only
          rw [hrep]
          refine ⟨(u.map Sym.t ++ ((c :: cs) ++ rest).map PTree.label) :: steps, ?_, ?_, ?_⟩
          · rw [h1]; simp
          · refine .cons ?_ h2
            have := LStep.mk (G := G) (pre := u.map Sym.t) (post := rest.map PTree.label) hrule
              (terminals_isVar u)
            rw [List.map_append, ← List.append_assoc]
            exact this
          · rw [List.getLast?_cons_cons, h3]
            simp [PTree.yield.yieldList, PTree.yield, yieldList_append]

theorem lastIdxOf_var_terminals (u : List String) (A : String) (pre : List Sym) :
    lastIdxOf (pre ++ Sym.v A :: u.map Sym.t) (Sym.v A) = pre.length := by
  unfold lastIdxOf
  have hr : (pre ++ Sym.v A :: u.map Sym.t).reverse
      = (u.reverse.map Sym.t) ++ Sym.v A :: pre.reverse := by simp
  rw [hr, idxOf_var_terminals]
  simp

theorem getLast!_concat (l : List PTree) (t : PTree) : (l ++ [t]).getLast! = t := by
  rw [List.getLast!_eq_getLast?_getD, List.getLast?_concat]; rfl

/-- rightmost extraction: the work list is processed from its end -/
theorem extract_right (G : CFG) : ∀ (fuel : Nat) (todo : List PTree) (u : List String)
    (res : List (List Sym)),
    PTree.size.sizeList todo ≤ fuel → (∀ t, t ∈ todo → Proper G t) →
    ∃ steps, extractLoop false fuel todo (todo.map PTree.label ++ u.map Sym.t) res = res ++ steps ∧
      ChainOf G.RStep ((todo.map PTree.label ++ u.map Sym.t) :: steps) ∧
      ((todo.map PTree.label ++ u.map Sym.t) :: steps).getLast? =
        some ((PTree.yield.yieldList todo ++ u).map Sym.t) := by
  intro fuel
  induction fuel with
  | zero =>
    intro todo u res hsz hp
    cases todo with
    | nil =>
      refine ⟨[], by simp [extractLoop], .single _, ?_⟩
      simp [PTree.yield.yieldList]
    | cons t ts =>
      have := t.size_pos
      simp only [PTree.size.sizeList] at hsz
      omega
  | succ fuel ih =>
    intro todo u res hsz hp
    rcases List.eq_nil_or_concat todo with rfl | ⟨rest, t, rfl⟩
    · refine ⟨[], by simp [extractLoop], .single _, ?_⟩
      simp [PTree.yield.yieldList]
    · rw [List.concat_eq_append] at hsz hp ⊢
      rw [extractLoop_succ _ _ _ (by simp)]
      simp only [Bool.false_eq_true, if_false, getLast!_concat, List.dropLast_concat]
      have hprest : ∀ t, t ∈ rest → Proper G t := fun t ht => hp t (List.mem_append_left _ ht)
      rw [sizeList_append] at hsz
      cases t with
      | leaf a =>
        have he : (rest ++ [PTree.leaf a]).map PTree.label ++ u.map Sym.t
            = rest.map PTree.label ++ (a :: u).map Sym.t := by simp [PTree.label]
        have hsz' : PTree.size.sizeList rest ≤ fuel := by
          simp only [PTree.size.sizeList, PTree.size] at hsz; omega
        obtain ⟨steps, h1, h2, h3⟩ := ih rest (a :: u) res hsz' hprest
        rw [he]
        refine ⟨steps, h1, h2, ?_⟩
        rw [h3]
        simp [PTree.yield.yieldList, PTree.yield, yieldList_append]
      | node A cs =>
        have hpt := hp (.node A cs) (by simp)
        cases hpt with
        | node _ _ hne hrule hcs =>
        cases cs with
        | nil => exact absurd rfl hne
        | cons c cs =>
          have hel : (rest ++ [PTree.node A (c :: cs)]).map PTree.label ++ u.map Sym.t
              = rest.map PTree.label ++ Sym.v A :: u.map Sym.t := by simp [PTree.label]
          have hrep : replaceAt (rest.map PTree.label ++ Sym.v A :: u.map Sym.t)
              (lastIdxOf (rest.map PTree.label ++ Sym.v A :: u.map Sym.t) (Sym.v A))
              ((c :: cs).map PTree.label)
              = (rest ++ (c :: cs)).map PTree.label ++ u.map Sym.t := by
            rw [replaceAt_mid _ _ _ _ _ (by rw [lastIdxOf_var_terminals])]
            simp
          have hsz' : PTree.size.sizeList (rest ++ (c :: cs)) ≤ fuel := by
            rw [sizeList_append]
            simp only [PTree.size.sizeList, PTree.size] at hsz ⊢; omega
          have hp' : ∀ t, t ∈ rest ++ (c :: cs) → Proper G t := by
            intro t ht
            rcases List.mem_append.mp ht with h | h
            · exact hprest t h
            · exact hcs t h
          obtain ⟨steps, h1, h2, h3⟩ := ih (rest ++ (c :: cs)) u
            (res ++ [(rest ++ (c :: cs)).map PTree.label ++ u.map Sym.t]) hsz' hp'
          rw [hel]
          simp only
          rw [hrep]
          refine ⟨((rest ++ (c :: cs)).map PTree.label ++ u.map Sym.t) :: steps, ?_, ?_, ?_⟩
          · rw [h1]; simp
          · refine .cons ?_ h2
            have := RStep.mk (G := G) (pre := rest.map PTree.label) (post := u.map Sym.t) hrule
              (terminals_isVar u)
            rw [List.map_append]
            exact this
          · rw [List.getLast?_cons_cons, h3]
            simp [PTree.yield.yieldList, PTree.yield, yieldList_append]

/-! ### the parse tree built from the CYK table -/

/-- a variable in a cell of a span of length ≥ 2 has a binary rule and a split point -/
theorem cell_split {G : CFG} (hc : G.isChomsky = true) (hv : G.valid = true) {w : List String}
    {X : CykTable} (hX : G.cykMatrix w = .ok X) {i j : Nat} (hij : i < j) (hj : j < w.length)
    {A : String} (hA : A ∈ cykGet X i j) :
    ∃ k B C, i ≤ k ∧ k < j ∧ B ∈ cykGet X i k ∧ C ∈ cykGet X (k + 1) j ∧
      G.HasRule A [.v B, .v C] := by
  have hdecl := rhsDeclared_of_valid hv
  have hg := (cykMatrix_sound hc hX (Nat.le_of_lt hij) hj hA).2
  change G.Gen [.v A] (subw w i j) at hg
  have hlen : (subw w i j).length = j - i + 1 := length_subw (by omega) hj
  obtain ⟨B, C, u, v, hr, hu, hv', huv, hune, hvne⟩ := (cnf_gen_v_ge2_iff hc (by omega)).mp hg
  have hul := List.length_pos_iff.mpr hune
  have hvl := List.length_pos_iff.mpr hvne
  have hsum : u.length + v.length = j - i + 1 := by
    rw [← List.length_append, ← huv, hlen]
  have hik : i ≤ i + u.length - 1 := by omega
  have hkj : i + u.length - 1 < j := by omega
  have hsp := subw_split (w := w) hik hkj
  rw [huv] at hsp
  have hl1 : u.length = (subw w i (i + u.length - 1)).length := by
    rw [length_subw hik (by omega)]; omega
  obtain ⟨e1, e2⟩ := List.append_inj hsp hl1
  refine ⟨i + u.length - 1, B, C, hik, hkj, ?_, ?_, hr⟩
  · apply cykMatrix_complete hc hdecl hX hik (by omega) (hdecl.of_hasRule hr (by simp))
    change G.Gen [.v B] (subw w i (i + u.length - 1))
    rw [← e1]; exact hu
  · apply cykMatrix_complete hc hdecl hX (by omega) hj (hdecl.of_hasRule hr (by simp))
    change G.Gen [.v C] (subw w (i + u.length - 1 + 1) j)
    rw [← e2]; exact hv'

theorem findRule_some {G : CFG} (hc : G.isChomsky = true) {A B C : String} {X1 X2 : List String}
    (h : findRule G A X1 X2 = some (B, C)) :
    G.HasRule A [.v B, .v C] ∧ B ∈ X1 ∧ C ∈ X2 := by
  unfold findRule at h
  obtain ⟨rhs, hmem, hf⟩ := List.exists_of_findSome?_eq_some h
  have hr := mem_prods_iff.mp hmem
  rcases cnf_rule hc hr with ⟨h1, _⟩ | ⟨a, h1⟩ | ⟨B', C', h1, _, _⟩
  · subst h1; simp at hf
  · subst h1; simp at hf
  · subst h1
    change (if B' ∈ X1 ∧ C' ∈ X2 then some (B', C') else none) = some (B, C) at hf
    by_cases hcond : B' ∈ X1 ∧ C' ∈ X2
    · rw [if_pos hcond] at hf
      injection hf with hf
      injection hf with hB hC
      subst hB; subst hC
      exact ⟨hr, hcond.1, hcond.2⟩
    · rw [if_neg hcond] at hf
      cases hf

theorem findRule_ne_none {G : CFG} {A B C : String} {X1 X2 : List String}
    (hr : G.HasRule A [.v B, .v C]) (hB : B ∈ X1) (hC : C ∈ X2) :
    findRule G A X1 X2 ≠ none := by
  intro h
  unfold findRule at h
  have := List.findSome?_eq_none_iff.mp h _ (mem_prods_iff.mpr hr)
  simp [Sym.name, hB, hC] at this

/-- the tree below `(A, p, q)` is a correct parse tree of `w[p..q)` whenever `A ∈ X[p, q-1]` -/
theorem buildTree_good {G : CFG} (hc : G.isChomsky = true) (hv : G.valid = true) {w : List String}
    {X : CykTable} (hX : G.cykMatrix w = .ok X) :
    ∀ (fuel : Nat) (A : String) (p q : Nat), p < q → q ≤ w.length → q - p ≤ fuel →
      A ∈ cykGet X p (q - 1) →
      Proper G (buildTree G X w fuel A p q) ∧ (buildTree G X w fuel A p q).label = .v A ∧
        (buildTree G X w fuel A p q).yield = subw w p (q - 1) := by
  intro fuel
  induction fuel with
  | zero => intro A p q hpq _ hf; omega
  | succ fuel ih =>
    intro A p q hpq hq hf hA
    unfold buildTree
    by_cases h1 : q - p = 1
    · rw [if_pos h1]
      have hq1 : q - 1 = p := by omega
      have hp : p < w.length := by omega
      rw [hq1] at hA ⊢
      have hg := (cykMatrix_sound hc hX (Nat.le_refl p) hp hA).2
      change G.Gen [.v A] (subw w p p) at hg
      rw [subw_diag hp] at hg
      have hget : w.getD p "" = w[p] := by
        rw [List.getD_eq_getElem?_getD, List.getElem?_eq_getElem hp]; rfl
      rw [hget]
      refine ⟨?_, rfl, ?_⟩
      · refine .node _ _ (by simp) ?_ ?_
        · exact (cnf_gen_v_single_iff hc).mp hg
        · intro c hcmem
          rw [List.mem_singleton] at hcmem
          subst hcmem
          exact .leaf _
      · rw [subw_diag hp]
        simp [PTree.yield, PTree.yield.yieldList]
    · rw [if_neg h1]
      obtain ⟨k, B, C, hik, hkj, hB, hC, hr⟩ := cell_split hc hv hX (i := p) (j := q - 1)
        (by omega) (by omega) hA
      cases hfs : (List.range (q - p - 1)).findSome? (fun d =>
        (findRule G A (cykGet X p (p + 1 + d - 1)) (cykGet X (p + 1 + d) (q - 1))).map
          fun bc => (p + 1 + d, bc)) with
      | none =>
        exfalso
        have := List.findSome?_eq_none_iff.mp hfs (k - p) (by simp; omega)
        simp only [Option.map_eq_none_iff] at this
        have e1 : p + 1 + (k - p) - 1 = k := by omega
        have e2 : p + 1 + (k - p) = k + 1 := by omega
        rw [e1, e2] at this
        exact findRule_ne_none hr hB hC this
      | some val =>
        obtain ⟨m, B', C'⟩ := val
        obtain ⟨d, hd, hfd⟩ := List.exists_of_findSome?_eq_some hfs
        simp only [Option.map_eq_some_iff] at hfd
        obtain ⟨bc, hfr, hbc⟩ := hfd
        injection hbc with hm hbc
        subst hbc
        have hd' : d < q - p - 1 := by simpa using hd
        obtain ⟨hr', hB', hC'⟩ := findRule_some hc hfr
        have e1 : p + 1 + d - 1 = m - 1 := by omega
        rw [e1] at hB'
        rw [hm] at hC'
        dsimp only
        obtain ⟨gB1, gB2, gB3⟩ := ih B' p m (by omega) (by omega) (by omega) hB'
        obtain ⟨gC1, gC2, gC3⟩ := ih C' m q (by omega) hq (by omega) hC'
        refine ⟨?_, rfl, ?_⟩
        · refine .node _ _ (by simp) ?_ ?_
          · simp only [List.map_cons, List.map_nil, gB2, gC2]
            exact hr'
          · intro c hcmem
            simp only [List.mem_cons, List.not_mem_nil, or_false] at hcmem
            rcases hcmem with rfl | rfl
            · exact gB1
            · exact gC1
        · simp only [PTree.yield, PTree.yield.yieldList, List.append_nil, gB3, gC3]
          have := subw_split (w := w) (i := p) (k := m - 1) (j := q - 1) (by omega) (by omega)
          have e2 : m - 1 + 1 = m := by omega
          rw [e2] at this
          exact this.symm

/-! ### `deriveWord` -/

theorem deriveWord_eq {G : CFG} {w : List String} {X : CykTable} (hX : G.cykMatrix w = .ok X)
    (lm : Bool) :
    G.deriveWord w lm =
      if decide (G.S ∈ cykGet X 0 (w.length - 1)) = false then .error .runtimeError else
        .ok (extractLoop lm ((buildTree G X w (w.length + 1) G.S 0 w.length).size + 1)
          [buildTree G X w (w.length + 1) G.S 0 w.length] [.v G.S] [[.v G.S]]) := by
  unfold deriveWord
  rw [hX]
  rfl

theorem start_mem_cell_iff {G : CFG} (hc : G.isChomsky = true) (hv : G.valid = true)
    (hS : G.S ∈ G.V) {w : List String} (hw : w ≠ []) {X : CykTable}
    (hX : G.cykMatrix w = .ok X) : G.S ∈ cykGet X 0 (w.length - 1) ↔ G.Lang w := by
  have hpos := List.length_pos_iff.mpr hw
  constructor
  · intro h
    have := (cykMatrix_sound hc hX (Nat.zero_le _) (by omega) h).2
    change G.Gen [.v G.S] (subw w 0 (w.length - 1)) at this
    rw [subw_full] at this
    exact this
  · intro h
    apply cykMatrix_complete hc (rhsDeclared_of_valid hv) hX (Nat.zero_le _) (by omega) hS
    change G.Gen [.v G.S] (subw w 0 (w.length - 1))
    rw [subw_full]
    exact h

theorem deriveWord_valid {G : CFG} (hc : G.isChomsky = true) (hv : G.valid = true)
    (hS : G.S ∈ G.V) {w : List String} (hw : w ≠ []) (hL : G.Lang w) (lm : Bool) :
    ∃ d, G.deriveWord w lm = .ok d ∧ G.ValidDerivation lm w d := by
  have hX : G.cykMatrix w = .ok _ := cykMatrix_eq hc w
  have hpos := List.length_pos_iff.mpr hw
  have hmem := (start_mem_cell_iff hc hv hS hw hX).mpr hL
  rw [deriveWord_eq hX, if_neg (by simpa using hmem)]
  obtain ⟨g1, g2, g3⟩ := buildTree_good hc hv hX (w.length + 1) G.S 0 w.length hpos
    (Nat.le_refl _) (by omega) hmem
  rw [subw_full] at g3
  generalize buildTree G _ w (w.length + 1) G.S 0 w.length = root at g1 g2 g3 ⊢
  have hsz : PTree.size.sizeList [root] ≤ root.size + 1 := by
    simp [PTree.size.sizeList]
  have hp : ∀ t, t ∈ [root] → Proper G t := by
    intro t ht; rw [List.mem_singleton] at ht; subst ht; exact g1
  have hy : PTree.yield.yieldList [root] = w := by
    simp [PTree.yield.yieldList, g3]
  have hl : [root].map PTree.label = [Sym.v G.S] := by simp [g2]
  cases lm with
  | true =>
    obtain ⟨steps, h1, h2, h3⟩ := extract_left G (root.size + 1) [root] [] [[.v G.S]] hsz hp
    rw [hl] at h1 h2 h3
    rw [hy] at h3
    simp only [List.map_nil, List.nil_append] at h1 h2 h3
    refine ⟨_, rfl, ?_⟩
    rw [h1]
    exact ⟨rfl, h2, h3⟩
  | false =>
    obtain ⟨steps, h1, h2, h3⟩ := extract_right G (root.size + 1) [root] [] [[.v G.S]] hsz hp
    rw [hl] at h1 h2 h3
    rw [hy] at h3
    simp only [List.map_nil, List.append_nil] at h1 h2 h3
    refine ⟨_, rfl, ?_⟩
    rw [h1]
    exact ⟨rfl, h2, h3⟩

theorem deriveWord_rejects {G : CFG} (hc : G.isChomsky = true) (hv : G.valid = true)
    (hS : G.S ∈ G.V) {w : List String} (hw : w ≠ []) (hL : ¬ G.Lang w) (lm : Bool) :
    G.deriveWord w lm = .error .runtimeError := by
  have hX : G.cykMatrix w = .ok _ := cykMatrix_eq hc w
  have hmem := mt (start_mem_cell_iff hc hv hS hw hX).mp hL
  rw [deriveWord_eq hX, if_pos (by simpa using hmem)]

end CFG
end Gamba
