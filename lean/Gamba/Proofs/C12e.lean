/-
  Gamba.Proofs.C12e — helper lemmas for the two `check_*_accepts_rejects` checkers on text
  (`CheckText.parseWordList`, `CheckText.acceptsRejectsWith`, `CheckText.dfaAcceptsRejects`, `CheckText.cfgAcceptsRejects`):
  `List.mapM` in the `Except` monad, the three verdicts of `acceptsRejectsWith` characterised through the acceptance test,
  and the exact behaviour of `DFA.accepts` on a valid DFA (an answer iff the word is over the alphabet).
-/
import Gamba.Model.CheckText
import Gamba.Proofs.C01
import Gamba.Proofs.DFABasic
import Gamba.Proofs.C12c
import Gamba.Props.C07
import Gamba.Props.C08d
namespace Gamba
namespace C12e
open Parse

/-! ### `List.mapM` in `Except` -/

section
variable {α β ε : Type}

theorem mapM_cons_ok {f : α → Except ε β} {x : α} {l : List α} {b : β} (h : f x = .ok b) :
    (x :: l).mapM f = (l.mapM f).map (b :: ·) := by
  rw [List.mapM_cons, h]
  cases l.mapM f <;> rfl

theorem mapM_cons_error {f : α → Except ε β} {x : α} {l : List α} {e : ε} (h : f x = .error e) :
    (x :: l).mapM f = .error e := by
  rw [List.mapM_cons, h]
  rfl

/-- the result list of a successful `mapM` is the list of the individual results -/
theorem mapM_ok_forall {f : α → Except ε β} {l : List α} {bs : List β} (h : l.mapM f = .ok bs) :
    (∀ x, x ∈ l → ∃ b, b ∈ bs ∧ f x = .ok b) ∧ (∀ b, b ∈ bs → ∃ x, x ∈ l ∧ f x = .ok b) := by
  induction l generalizing bs with
  | nil =>
    rw [List.mapM_nil] at h
    cases h
    exact ⟨fun x hx => (nomatch hx), fun b hb => (nomatch hb)⟩
  | cons x l ih =>
    cases hx : f x with
    | error e => rw [mapM_cons_error hx] at h; cases h
    | ok b0 =>
      rw [mapM_cons_ok hx] at h
      cases hl : l.mapM f with
      | error e => rw [hl] at h; cases h
      | ok bs' =>
        rw [hl] at h
        cases h
        obtain ⟨i1, i2⟩ := ih hl
        refine ⟨?_, ?_⟩
        · intro y hy
          rcases List.mem_cons.mp hy with rfl | hy
          · exact ⟨b0, List.mem_cons_self, hx⟩
          · obtain ⟨b, hb, hfb⟩ := i1 y hy
            exact ⟨b, List.mem_cons_of_mem _ hb, hfb⟩
        · intro b hb
          rcases List.mem_cons.mp hb with rfl | hb
          · exact ⟨x, List.mem_cons_self, hx⟩
          · obtain ⟨y, hy, hfy⟩ := i2 b hb
            exact ⟨y, List.mem_cons_of_mem _ hy, hfy⟩

/-- `mapM` succeeds when every call does -/
theorem mapM_ok_of_forall {f : α → Except ε β} {l : List α} (h : ∀ x, x ∈ l → ∃ b, f x = .ok b) :
    ∃ bs, l.mapM f = .ok bs := by
  induction l with
  | nil => exact ⟨[], by rw [List.mapM_nil]; rfl⟩
  | cons x l ih =>
    obtain ⟨b, hb⟩ := h x List.mem_cons_self
    obtain ⟨bs, hbs⟩ := ih (fun y hy => h y (List.mem_cons_of_mem _ hy))
    exact ⟨b :: bs, by rw [mapM_cons_ok hb, hbs]; rfl⟩

/-- `mapM` fails exactly when some call fails -/
theorem mapM_error_iff {f : α → Except ε β} {l : List α} :
    (∃ e, l.mapM f = .error e) ↔ ∃ x, x ∈ l ∧ ∃ e, f x = .error e := by
  constructor
  · rintro ⟨e, he⟩
    refine Classical.byContradiction fun hn => ?_
    have : ∀ x, x ∈ l → ∃ b, f x = .ok b := by
      intro x hx
      cases hfx : f x with
      | ok b => exact ⟨b, rfl⟩
      | error e' => exact absurd ⟨x, hx, e', hfx⟩ hn
    obtain ⟨bs, hbs⟩ := mapM_ok_of_forall this
    rw [hbs] at he
    cases he
  · rintro ⟨x, hx, e, he⟩
    cases hl : l.mapM f with
    | error e' => exact ⟨e', rfl⟩
    | ok bs =>
      obtain ⟨b, _, hb⟩ := (mapM_ok_forall hl).1 x hx
      rw [hb] at he
      cases he

end

/-! ### the word list -/

theorem mem_parseWordList (s : String) (w : List String) :
    w ∈ CheckText.parseWordList s ↔
      ∃ t, t ∈ Text.splitWs s.toList ∧ w = (if t = ['ε'] ∨ t = ['_'] then [] else t.map String.singleton) := by
  unfold CheckText.parseWordList
  rw [mem_dedup, List.mem_map]
  constructor
  · rintro ⟨t, ht, rfl⟩; exact ⟨t, ht, rfl⟩
  · rintro ⟨t, ht, rfl⟩; exact ⟨t, ht, rfl⟩

/-! ### the three verdicts of `acceptsRejectsWith` -/

theorem all_some_true (a : List Bool) : (a.map some).all (fun v => v == some true) = true ↔ ∀ b, b ∈ a → b = true := by
  simp

theorem all_not_some_true (a : List Bool) :
    (a.map some).all (fun v => v != some true) = true ↔ ∀ b, b ∈ a → b = false := by
  simp

open CheckText in
/-- OK iff the test answers `true` on every word of the first list and `false` on every word of the second -/
theorem acceptsRejectsWith_ok_iff (acc : List String → Except Err Bool) (accepted rejected : String) :
    acceptsRejectsWith acc accepted rejected = .ok ↔
      (∀ w, w ∈ parseWordList accepted → acc w = .ok true) ∧ (∀ w, w ∈ parseWordList rejected → acc w = .ok false) := by
  unfold acceptsRejectsWith
  constructor
  · intro h
    split at h
    · rename_i a r ha hr
      have hb := (C12c.ofBool_ok_iff _).mp h
      unfold Check.acceptsRejects at hb
      rw [Bool.and_eq_true, all_some_true, all_not_some_true] at hb
      refine ⟨fun w hw => ?_, fun w hw => ?_⟩
      · obtain ⟨b, hba, hb'⟩ := (mapM_ok_forall ha).1 w hw
        rw [hb', hb.1 b hba]
      · obtain ⟨b, hbr, hb'⟩ := (mapM_ok_forall hr).1 w hw
        rw [hb', hb.2 b hbr]
    · cases h
  · rintro ⟨h1, h2⟩
    obtain ⟨a, ha⟩ := mapM_ok_of_forall (fun w hw => ⟨true, h1 w hw⟩)
    obtain ⟨r, hr⟩ := mapM_ok_of_forall (fun w hw => ⟨false, h2 w hw⟩)
    rw [ha, hr]
    apply (C12c.ofBool_ok_iff _).mpr
    unfold Check.acceptsRejects
    rw [Bool.and_eq_true, all_some_true, all_not_some_true]
    refine ⟨fun b hb => ?_, fun b hb => ?_⟩
    · obtain ⟨w, hw, hwb⟩ := (mapM_ok_forall ha).2 b hb
      rw [h1 w hw] at hwb
      cases hwb; rfl
    · obtain ⟨w, hw, hwb⟩ := (mapM_ok_forall hr).2 b hb
      rw [h2 w hw] at hwb
      cases hwb; rfl

open CheckText in
/-- `Error` iff the test raises on some listed word -/
theorem acceptsRejectsWith_error_iff (acc : List String → Except Err Bool) (accepted rejected : String) :
    acceptsRejectsWith acc accepted rejected = .error ↔
      ∃ w, (w ∈ parseWordList accepted ∨ w ∈ parseWordList rejected) ∧ ∃ e, acc w = .error e := by
  unfold acceptsRejectsWith
  constructor
  · intro h
    split at h
    · rename_i a r ha hr
      unfold ofBool at h
      split at h <;> cases h
    · rename_i hn
      cases ha : (parseWordList accepted).mapM acc with
      | error e =>
        obtain ⟨w, hw, he⟩ := mapM_error_iff.mp ⟨e, ha⟩
        exact ⟨w, Or.inl hw, he⟩
      | ok a =>
        cases hr : (parseWordList rejected).mapM acc with
        | error e =>
          obtain ⟨w, hw, he⟩ := mapM_error_iff.mp ⟨e, hr⟩
          exact ⟨w, Or.inr hw, he⟩
        | ok r => exact absurd hr (hn a r ha)
  · rintro ⟨w, hw | hw, he⟩
    · obtain ⟨e, he'⟩ := mapM_error_iff.mpr ⟨w, hw, he⟩
      rw [he']
    · obtain ⟨e, he'⟩ := mapM_error_iff.mpr ⟨w, hw, he⟩
      rw [he']
      split
      · rename_i h1 h2; cases h2
      · rfl

/-! ### `DFA.accepts` on a valid DFA -/

section
variable {σ τ : Type} [DecidableEq σ] [DecidableEq τ]

/-- the test answers `b` iff the word is over the alphabet and `b` is the specification verdict -/
theorem dfa_accepts_ok_iff {D : DFA σ τ} (hv : D.valid = true) (w : List τ) (b : Bool) :
    D.accepts w = .ok b ↔ (∀ a, a ∈ w → a ∈ D.Sigma) ∧ (b = true ↔ D.Accepts w) := by
  constructor
  · intro h
    have hover : ∀ a, a ∈ w → a ∈ D.Sigma := by
      unfold DFA.accepts at h
      cases hr : D.run D.q0 w with
      | error e => rw [hr] at h; cases h
      | ok q => exact (((D.c01_run_ok_iff _ _ _).mp hr).mem hv (DFA.valid_q0 hv)).2
    refine ⟨hover, ?_⟩
    unfold DFA.accepts at h
    rw [DFA.run_eq_ok hv (DFA.valid_q0 hv) hover] at h
    cases h
    rw [DFA.Accepts_iff_runT hv hover, decide_eq_true_eq]
  · rintro ⟨hover, hb⟩
    unfold DFA.accepts
    rw [DFA.run_eq_ok hv (DFA.valid_q0 hv) hover]
    rw [DFA.Accepts_iff_runT hv hover] at hb
    show Except.ok (decide (D.runT D.q0 w ∈ D.F)) = Except.ok b
    congr 1
    cases b
    · exact decide_eq_false (fun hm => by simpa using hb.mpr hm)
    · exact decide_eq_true (hb.mp rfl)

/-- the test raises (`KeyError`) iff the word has a symbol outside the alphabet -/
theorem dfa_accepts_error_iff {D : DFA σ τ} (hv : D.valid = true) (w : List τ) :
    (∃ e, D.accepts w = .error e) ↔ ¬ ∀ a, a ∈ w → a ∈ D.Sigma := by
  constructor
  · rintro ⟨e, he⟩ hover
    have := (dfa_accepts_ok_iff hv w (decide (D.runT D.q0 w ∈ D.F))).mpr
      ⟨hover, by rw [DFA.Accepts_iff_runT hv hover, decide_eq_true_eq]⟩
    rw [this] at he
    cases he
  · intro hn
    cases h : D.accepts w with
    | error e => exact ⟨e, rfl⟩
    | ok b => exact absurd ((dfa_accepts_ok_iff hv w b).mp h).1 hn

end

/-! ### `CFG.accepts` on a parser result -/

/-- for a valid grammar with declared start variable and the aliasing invariant (every parser result), which is in
    Chomsky normal form or whose terminals are no variable names: the test answers, and answers `w ∈ L(G)` -/
theorem cfg_accepts_ok_iff {G : CFG} (hv : G.valid = true) (hS : G.S ∈ G.V) (ha : CFG.AliasOK G)
    (hside : G.isChomsky = true ∨ ∀ a, a ∈ G.Sigma → a ∉ G.V ∧ a ≠ CFG.freshVariable G.V "S")
    (w : List String) (b : Bool) : G.accepts w = .ok b ↔ (b = true ↔ G.Lang w) := by
  have key : ∃ b', G.accepts w = .ok b' ∧ (b' = true ↔ G.Lang w) := by
    rcases hside with hc | hd
    · exact cfg_accepts_cnf_iff_of_valid G hc hS hv w
    · exact cfg_accepts_iff G hv hS ha hd w
  obtain ⟨b', hb', hiff⟩ := key
  constructor
  · intro h
    rw [hb'] at h
    cases h
    exact hiff
  · intro hb
    rw [hb']
    congr 1
    cases b <;> cases b' <;> simp_all

/-- … in particular the test does not raise -/
theorem cfg_accepts_total {G : CFG} (hv : G.valid = true) (hS : G.S ∈ G.V) (ha : CFG.AliasOK G)
    (hside : G.isChomsky = true ∨ ∀ a, a ∈ G.Sigma → a ∉ G.V ∧ a ≠ CFG.freshVariable G.V "S")
    (w : List String) : ∃ b, G.accepts w = .ok b := by
  rcases hside with hc | hd
  · obtain ⟨b, hb, _⟩ := cfg_accepts_cnf_iff_of_valid G hc hS hv w
    exact ⟨b, hb⟩
  · obtain ⟨b, hb, _⟩ := cfg_accepts_iff G hv hS ha hd w
    exact ⟨b, hb⟩

/-- the parsed form of `S -> aSb | ε` -/
def exAnBn : CFG :=
  { V := ["S"], Sigma := ["a", "b"], S := "S", R := [⟨"S", 0, [.t "a", .v "S", .t "b"]⟩, ⟨"S", 1, []⟩] }

theorem exAnBn_parse : CfgText.parseSimpleCfg "S -> aSb | ε".toList = .ok (exAnBn, "ε") := by rfl

/-- the parsed form of `S -> a | bb` / `a -> b`: the lower-case `a` is a variable name and a terminal -/
def exBad : CFG :=
  { V := ["S", "a"], Sigma := ["a", "b"], S := "S",
    R := [⟨"S", 0, [.t "a"]⟩, ⟨"S", 1, [.t "b", .t "b"]⟩, ⟨"a", 2, [.t "b"]⟩] }

theorem exBad_parse : CfgText.parseSimpleCfg "S -> a | bb\na -> b".toList = .ok (exBad, "_") := by rfl

/-- `b ∉ L(exBad)` (= {a, bb}) -/
theorem exBad_not_lang_b : ¬ exBad.Lang ["b"] := by
  intro h
  obtain ⟨rhs, hr, hg⟩ := CFG.gen_v_iff.mp h
  have hm : rhs ∈ exBad.prods "S" := CFG.mem_prods_iff.mpr hr
  have hp : exBad.prods "S" = [[.t "a"], [.t "b", .t "b"]] := by decide
  rw [hp] at hm
  simp only [List.mem_cons, List.not_mem_nil, or_false] at hm
  rcases hm with rfl | rfl
  · have := (CFG.gen_terminals (by decide)).mp hg
    revert this; decide
  · have := (CFG.gen_terminals (by decide)).mp hg
    revert this; decide

/-! ### unpacking the two checkers -/

open CheckText in
theorem dfaAcceptsRejects_unpack {dfa accepted rejected : String} {v : Verdict} (hv : v ≠ .error)
    (h : dfaAcceptsRejects dfa accepted rejected = v) :
    ∃ D, parseDfa dfa.toList = .ok D ∧ acceptsRejectsWith D.accepts accepted rejected = v := by
  unfold dfaAcceptsRejects at h
  split at h
  · rename_i D h1; exact ⟨D, h1, h⟩
  · exact absurd h.symm hv

open CheckText in
theorem cfgAcceptsRejects_unpack {cfg accepted rejected : String} {v : Verdict} (hv : v ≠ .error)
    (h : cfgAcceptsRejects cfg accepted rejected = v) :
    ∃ G eps, CfgText.parseSimpleCfg cfg.toList = .ok (G, eps) ∧ acceptsRejectsWith G.accepts accepted rejected = v := by
  unfold cfgAcceptsRejects at h
  split at h
  · rename_i G eps h1; exact ⟨G, eps, h1, h⟩
  · exact absurd h.symm hv

end C12e
end Gamba
