/-
  Gamba.Proofs.C03 — helper lemmas for property C03: the subset construction `nfa_to_dfa`
  (`NFA.toDfaSets` / `NFA.toDfa`) terminates and yields a valid total DFA with the same language,
  all of whose states are reachable.
-/
import Gamba.Proofs.C02reg
import Gamba.Proofs.C14a
namespace Gamba
set_option linter.unusedSectionVars false

/-! ### generic: `Dict.set`, `foldlM` in `Except`, counting sublists -/
section Generic

/-- lookup of a pair key, elaborated at generic key types (so that it is syntactically the lookup used by
    `DFA.Run`, `DFA.next`, `DFA.valid_iff` after instantiation) -/
def C03.dget {κ₁ κ₂ ν : Type} [DecidableEq κ₁] [DecidableEq κ₂] (d : Dict (κ₁ × κ₂) ν) (q : κ₁) (a : κ₂) :
    Option ν := d.lookup (q, a)

theorem C03.lookup_cons_ite {κ ν : Type} [DecidableEq κ] [BEq κ] [LawfulBEq κ]
    (d : List (κ × ν)) (k1 : κ) (v1 : ν) (k : κ) :
    List.lookup k ((k1, v1) :: d) = if k = k1 then some v1 else d.lookup k := by
  rw [List.lookup_cons]
  by_cases h : k = k1
  · subst h; simp
  · have hb : (k == k1) = false := by simp [h]
    rw [hb]; simp [h]

theorem C03.lookup_set {κ ν : Type} [DecidableEq κ] [BEq κ] [LawfulBEq κ]
    (d : Dict κ ν) (k : κ) (v : ν) (k' : κ) :
    (d.set k v).lookup k' = if k' = k then some v else d.lookup k' := by
  induction d with
  | nil => simp only [Dict.set, C03.lookup_cons_ite, List.lookup_nil]
  | cons e d ih =>
    obtain ⟨k1, v1⟩ := e
    simp only [Dict.set]
    by_cases h1 : k1 = k
    · subst h1
      simp only [if_true, C03.lookup_cons_ite]
      split <;> simp_all
    · simp only [h1, if_false, C03.lookup_cons_ite, ih]
      by_cases h2 : k' = k1
      · subst h2; simp [h1]
      · simp [h2]

theorem C03.dget_set {κ₁ κ₂ ν : Type} [DecidableEq κ₁] [DecidableEq κ₂] (d : Dict (κ₁ × κ₂) ν)
    (q : κ₁) (a : κ₂) (v : ν) (q' : κ₁) (a' : κ₂) :
    C03.dget (d.set (q, a) v) q' a' = if q' = q ∧ a' = a then some v else C03.dget d q' a' := by
  unfold C03.dget
  rw [C03.lookup_set]
  simp only [Prod.mk.injEq]

theorem C03.mem_set {κ ν : Type} [DecidableEq κ] {d : Dict κ ν} {k : κ} {v : ν} {e : κ × ν}
    (h : e ∈ d.set k v) : e = (k, v) ∨ e ∈ d := by
  induction d with
  | nil => simp only [Dict.set, List.mem_singleton] at h; exact Or.inl h
  | cons e1 d ih =>
    obtain ⟨k1, v1⟩ := e1
    simp only [Dict.set] at h
    split at h
    · rcases List.mem_cons.mp h with h | h
      · exact Or.inl h
      · exact Or.inr (List.mem_cons_of_mem _ h)
    · rcases List.mem_cons.mp h with h | h
      · exact Or.inr (h ▸ List.mem_cons_self)
      · rcases ih h with h | h
        · exact Or.inl h
        · exact Or.inr (List.mem_cons_of_mem _ h)

theorem C03.foldlM_ok {α β : Type} {f : β → α → Except Err β} {g : β → α → β} (l : List α) (b : β)
    (h : ∀ b a, f b a = .ok (g b a)) : l.foldlM f b = .ok (l.foldl g b) := by
  induction l generalizing b with
  | nil => rfl
  | cons a l ih =>
    rw [List.foldlM_cons, h]
    exact ih _

/-- all sublists of a list (with multiplicity): `2 ^ length` of them -/
def C03.subLists {α : Type} : List α → List (List α)
  | [] => [[]]
  | x :: l => C03.subLists l ++ (C03.subLists l).map (x :: ·)

theorem C03.length_subLists {α : Type} (l : List α) : (C03.subLists l).length = 2 ^ l.length := by
  induction l with
  | nil => rfl
  | cons x l ih =>
    simp only [C03.subLists, List.length_append, List.length_map, ih, List.length_cons, Nat.pow_succ]
    omega

theorem C03.filter_mem_subLists {α : Type} (p : α → Bool) (l : List α) : l.filter p ∈ C03.subLists l := by
  induction l with
  | nil => simp [C03.subLists]
  | cons x l ih =>
    simp only [C03.subLists, List.filter_cons, List.mem_append, List.mem_map]
    cases p x with
    | false => exact Or.inl ih
    | true => exact Or.inr ⟨_, ih, rfl⟩

end Generic

section
variable {σ τ : Type} [DecidableEq σ] [DecidableEq τ]

/-! ### canonical subsets -/

theorem NFA.mem_canon (N : NFA σ τ) (C : List σ) (q : σ) : q ∈ N.canon C ↔ q ∈ N.Q ∧ q ∈ C := by
  simp [NFA.canon, List.mem_filter]

theorem NFA.canon_congr (N : NFA σ τ) {C C' : List σ} (h : ∀ q, q ∈ N.Q → (q ∈ C ↔ q ∈ C')) :
    N.canon C = N.canon C' := by
  unfold NFA.canon
  apply List.filter_congr
  intro q hq
  simp only [decide_eq_decide]
  exact h q hq

theorem NFA.canon_canon (N : NFA σ τ) (C : List σ) : N.canon (N.canon C) = N.canon C := by
  apply N.canon_congr
  intro q hq
  rw [N.mem_canon]
  exact ⟨fun h => h.2, fun h => ⟨hq, h⟩⟩

/-- `S` is the canonical list of the set of states reached on the word `u` -/
def NFA.Sub (N : NFA σ τ) (S : List σ) (u : List τ) : Prop :=
  N.canon S = S ∧ ∀ q, q ∈ S ↔ N.Run N.q0 u q

theorem NFA.Sub.ext {N : NFA σ τ} {S T : List σ} {u : List τ} (h1 : N.Sub S u) (h2 : N.Sub T u) : S = T := by
  rw [← h1.1, ← h2.1]
  apply N.canon_congr
  intro q _
  rw [h1.2, h2.2]

theorem NFA.canon_mem_subLists (N : NFA σ τ) (C : List σ) : N.canon C ∈ C03.subLists N.Q :=
  C03.filter_mem_subLists _ _

/-! ### semantic core: one subset step -/

theorem NFA.mem_moveSet (N : NFA σ τ) (S : List σ) (a : τ) (x : σ) :
    x ∈ N.moveSet S a ↔ ∃ p, p ∈ S ∧ N.Succ p a x := by
  simp only [NFA.moveSet, mem_sunions, List.mem_map]
  constructor
  · rintro ⟨l, ⟨p, hp, rfl⟩, hx⟩
    exact ⟨p, hp, (N.mem_succ_iff _ _ _).mp hx⟩
  · rintro ⟨p, hp, hs⟩
    exact ⟨_, ⟨p, hp, rfl⟩, (N.mem_succ_iff _ _ _).mpr hs⟩

theorem NFA.EpsReach.exists_base {N : NFA σ τ} {S : List σ} {q : σ} (h : N.EpsReach S q) :
    ∃ x, x ∈ S ∧ N.EpsReach [x] q := by
  induction h with
  | base hm => exact ⟨_, hm, NFA.EpsReach.base (List.mem_singleton.mpr rfl)⟩
  | step _ hs ih =>
    obtain ⟨x, hx, he⟩ := ih
    exact ⟨x, hx, NFA.EpsReach.step he hs⟩

/-- the state `canon (closure (move S a))` computed by one round of the inner loop -/
def NFA.stepT (N : NFA σ τ) (s : Sched) (S : List σ) (a : τ) : List σ :=
  N.canon (N.closureT s (N.moveSet S a))

theorem NFA.mem_stepT {N : NFA σ τ} (hv : N.valid = true) (s : Sched) (S : List σ) (a : τ) (q : σ) :
    q ∈ N.stepT s S a ↔ ∃ p, p ∈ S ∧ ∃ q1, N.Succ p a q1 ∧ N.EpsReach [q1] q := by
  unfold NFA.stepT
  rw [N.mem_canon, NFA.mem_closureT hv]
  constructor
  · rintro ⟨_, he⟩
    obtain ⟨x, hx, he'⟩ := he.exists_base
    obtain ⟨p, hp, hs⟩ := (N.mem_moveSet _ _ _).mp hx
    exact ⟨p, hp, x, hs, he'⟩
  · rintro ⟨p, hp, q1, hs, he⟩
    have hq1 : q1 ∈ N.Q := NFA.valid_Succ hv hs
    refine ⟨NFA.EpsReach.mem_Q hv (S := [q1]) ?_ he, ?_⟩
    · intro x hx; rw [List.mem_singleton.mp hx]; exact hq1
    · exact NFA.EpsReach.trans (NFA.EpsReach.base ((N.mem_moveSet _ _ _).mpr ⟨p, hp, hs⟩)) he

theorem NFA.Sub.step {N : NFA σ τ} (hv : N.valid = true) (s : Sched) {S : List σ} {u : List τ}
    (h : N.Sub S u) {a : τ} (ha : a ∈ N.Sigma) : N.Sub (N.stepT s S a) (u ++ [a]) := by
  have hne : a ≠ N.eps := fun hc => NFA.valid_eps hv (hc ▸ ha)
  refine ⟨N.canon_canon _, ?_⟩
  intro q
  rw [NFA.mem_stepT hv, NFA.Run_snoc_iff hne]
  constructor
  · rintro ⟨p, hp, q1, hs, he⟩; exact ⟨p, q1, (h.2 p).mp hp, hs, he⟩
  · rintro ⟨p, q1, hr, hs, he⟩; exact ⟨p, (h.2 p).mpr hr, q1, hs, he⟩

theorem NFA.Sub.init {N : NFA σ τ} (hv : N.valid = true) (s : Sched) :
    N.Sub (N.canon (N.closureT s [N.q0])) [] := by
  refine ⟨N.canon_canon _, ?_⟩
  intro q
  rw [N.mem_canon, NFA.mem_closureT hv, NFA.Run_nil_iff_epsReach]
  constructor
  · exact fun h => h.2
  · intro h
    refine ⟨NFA.EpsReach.mem_Q hv (S := [N.q0]) ?_ h, h⟩
    intro x hx; rw [List.mem_singleton.mp hx]; exact NFA.valid_q0 hv

theorem NFA.Sub.mem_Q {N : NFA σ τ} {S : List σ} {u : List τ} (h : N.Sub S u) {q : σ} (hq : q ∈ S) :
    q ∈ N.Q := by
  rw [← h.1] at hq
  exact ((N.mem_canon _ _).mp hq).1

/-! ### the inner loop as a total function -/

def NFA.innerF (N : NFA σ τ) (F : List (List σ)) (Q2 : List σ) : List (List σ) :=
  if !sdisjoint Q2 N.F then sinsert F Q2 else F

theorem NFA.mem_innerF (N : NFA σ τ) (F : List (List σ)) (Q2 S : List σ) :
    S ∈ N.innerF F Q2 ↔ S ∈ F ∨ (S = Q2 ∧ sdisjoint Q2 N.F = false) := by
  unfold NFA.innerF
  cases h : sdisjoint Q2 N.F <;> simp

def NFA.innerT (N : NFA σ τ) (s : Sched) (Q1 : List σ) (acc : SubsetAcc σ τ) (a : τ) : SubsetAcc σ τ :=
  if N.stepT s Q1 a ∈ acc.Q then
    { Q := acc.Q, delta := acc.delta.set (Q1, a) (N.stepT s Q1 a), F := N.innerF acc.F (N.stepT s Q1 a),
      todo := acc.todo }
  else
    { Q := acc.Q ++ [N.stepT s Q1 a], delta := acc.delta.set (Q1, a) (N.stepT s Q1 a),
      F := N.innerF acc.F (N.stepT s Q1 a), todo := N.stepT s Q1 a :: acc.todo }

theorem NFA.subsetInner_eq {N : NFA σ τ} (hv : N.valid = true) (s : Sched) (Q1 : List σ)
    (acc : SubsetAcc σ τ) (a : τ) : N.subsetInner s Q1 acc a = .ok (N.innerT s Q1 acc a) := by
  unfold NFA.subsetInner
  rw [NFA.closure_eq_ok hv]
  show (if N.stepT s Q1 a ∈ acc.Q then _ else _) = _
  unfold NFA.innerT
  split <;> rfl

/-- one iteration of the `while todo:` loop after popping `Q1` (rest of the stack: `rest`) -/
def NFA.popT (N : NFA σ τ) (s : Sched) (Q1 : List σ) (rest : List (List σ)) (acc : SubsetAcc σ τ) :
    SubsetAcc σ τ :=
  N.Sigma.foldl (N.innerT s Q1) { acc with todo := rest }

theorem NFA.subsetLoop_succ {N : NFA σ τ} (hv : N.valid = true) (s : Sched) (fuel : Nat)
    (acc : SubsetAcc σ τ) :
    N.subsetLoop s (fuel + 1) acc =
      match acc.todo with
      | [] => .ok acc
      | Q1 :: rest => N.subsetLoop s fuel (N.popT s Q1 rest acc) := by
  rw [NFA.subsetLoop]
  cases acc.todo with
  | nil => rfl
  | cons Q1 rest =>
    simp only
    rw [C03.foldlM_ok (g := N.innerT s Q1) _ _ (fun b a => NFA.subsetInner_eq hv s Q1 b a)]
    rfl

/-! ### invariants -/

/-- invariant of the inner `for a in Sigma:` loop while `Q1` is being processed; `done` = the symbols
    already handled -/
structure NFA.SInv (N : NFA σ τ) (s : Sched) (Q0 : List σ) (acc : SubsetAcc σ τ) (Q1 : List σ)
    (done : List τ) : Prop where
  q0 : Q0 ∈ acc.Q
  sub : ∀ S, S ∈ acc.Q → ∃ u, (∀ a, a ∈ u → a ∈ N.Sigma) ∧ N.Sub S u
  todo : ∀ S, S ∈ acc.todo → S ∈ acc.Q
  dlt : ∀ S, S ∈ acc.Q → S ∉ acc.todo → S ≠ Q1 → ∀ a, a ∈ N.Sigma →
    C03.dget acc.delta S a = some (N.stepT s S a) ∧ N.stepT s S a ∈ acc.Q
  cur : Q1 ∈ acc.Q ∧ ∀ a, a ∈ done →
    C03.dget acc.delta Q1 a = some (N.stepT s Q1 a) ∧ N.stepT s Q1 a ∈ acc.Q
  closed : ∀ e, e ∈ acc.delta → e.1.1 ∈ acc.Q ∧ e.1.2 ∈ N.Sigma ∧ e.2 ∈ acc.Q
  fin : ∀ S, S ∈ acc.F ↔ S ∈ acc.Q ∧ sdisjoint S N.F = false
  nodup : acc.Q.Nodup

/-- invariant of the outer `while todo:` loop -/
structure NFA.OInv (N : NFA σ τ) (s : Sched) (Q0 : List σ) (acc : SubsetAcc σ τ) : Prop where
  q0 : Q0 ∈ acc.Q
  sub : ∀ S, S ∈ acc.Q → ∃ u, (∀ a, a ∈ u → a ∈ N.Sigma) ∧ N.Sub S u
  todo : ∀ S, S ∈ acc.todo → S ∈ acc.Q
  dlt : ∀ S, S ∈ acc.Q → S ∉ acc.todo → ∀ a, a ∈ N.Sigma →
    C03.dget acc.delta S a = some (N.stepT s S a) ∧ N.stepT s S a ∈ acc.Q
  closed : ∀ e, e ∈ acc.delta → e.1.1 ∈ acc.Q ∧ e.1.2 ∈ N.Sigma ∧ e.2 ∈ acc.Q
  fin : ∀ S, S ∈ acc.F ↔ S ∈ acc.Q ∧ sdisjoint S N.F = false
  nodup : acc.Q.Nodup

/-- one round of the inner loop, abstractly: `acc'` extends `acc` by the (possibly new) state `Q2 = stepT Q1 a` -/
theorem NFA.SInv.step_abs {N : NFA σ τ} (hv : N.valid = true) {s : Sched} {Q0 : List σ}
    {acc acc' : SubsetAcc σ τ} {Q1 : List σ} {done : List τ} (h : N.SInv s Q0 acc Q1 done)
    {a : τ} (ha : a ∈ N.Sigma)
    (hQ : ∀ S, S ∈ acc'.Q ↔ S ∈ acc.Q ∨ S = N.stepT s Q1 a)
    (hT : ∀ S, S ∈ acc'.todo ↔ S ∈ acc.todo ∨ (S = N.stepT s Q1 a ∧ N.stepT s Q1 a ∉ acc.Q))
    (hD : acc'.delta = acc.delta.set (Q1, a) (N.stepT s Q1 a))
    (hF : acc'.F = N.innerF acc.F (N.stepT s Q1 a))
    (hN : acc'.Q.Nodup) : N.SInv s Q0 acc' Q1 (a :: done) := by
  obtain ⟨u, hu, hsub1⟩ := h.sub Q1 h.cur.1
  have hsub2 : N.Sub (N.stepT s Q1 a) (u ++ [a]) := hsub1.step hv s ha
  have hu2 : ∀ b, b ∈ u ++ [a] → b ∈ N.Sigma := by
    intro b hb
    rcases List.mem_append.mp hb with hb | hb
    · exact hu b hb
    · rw [List.mem_singleton.mp hb]; exact ha
  have hQ2 : N.stepT s Q1 a ∈ acc'.Q := (hQ _).mpr (Or.inr rfl)
  refine ⟨(hQ _).mpr (Or.inl h.q0), ?_, ?_, ?_, ?_, ?_, ?_, hN⟩
  · intro S hS
    rcases (hQ S).mp hS with hS | rfl
    · exact h.sub S hS
    · exact ⟨_, hu2, hsub2⟩
  · intro S hS
    rcases (hT S).mp hS with hS | ⟨rfl, _⟩
    · exact (hQ S).mpr (Or.inl (h.todo S hS))
    · exact hQ2
  · intro S hS hnt hne b hb
    have hnt0 : S ∉ acc.todo := fun hc => hnt ((hT S).mpr (Or.inl hc))
    have hS0 : S ∈ acc.Q := by
      rcases (hQ S).mp hS with hS | rfl
      · exact hS
      · by_cases hc : N.stepT s Q1 a ∈ acc.Q
        · exact hc
        · exact absurd ((hT _).mpr (Or.inr ⟨rfl, hc⟩)) hnt
    obtain ⟨h1, h2⟩ := h.dlt S hS0 hnt0 hne b hb
    rw [hD, C03.dget_set, if_neg (fun hc => hne hc.1)]
    exact ⟨h1, (hQ _).mpr (Or.inl h2)⟩
  · refine ⟨(hQ _).mpr (Or.inl h.cur.1), ?_⟩
    intro b hb
    rw [hD, C03.dget_set]
    by_cases hba : b = a
    · subst hba
      rw [if_pos ⟨rfl, rfl⟩]
      exact ⟨rfl, hQ2⟩
    · rw [if_neg (fun hc => hba hc.2)]
      rcases List.mem_cons.mp hb with hb | hb
      · exact absurd hb hba
      · obtain ⟨h1, h2⟩ := h.cur.2 b hb
        exact ⟨h1, (hQ _).mpr (Or.inl h2)⟩
  · intro e he
    rw [hD] at he
    rcases C03.mem_set he with rfl | he
    · exact ⟨(hQ _).mpr (Or.inl h.cur.1), ha, hQ2⟩
    · obtain ⟨h1, h2, h3⟩ := h.closed e he
      exact ⟨(hQ _).mpr (Or.inl h1), h2, (hQ _).mpr (Or.inl h3)⟩
  · intro S
    rw [hF, N.mem_innerF, h.fin, hQ]
    constructor
    · rintro (⟨h1, h2⟩ | ⟨rfl, h2⟩)
      · exact ⟨Or.inl h1, h2⟩
      · exact ⟨Or.inr rfl, h2⟩
    · rintro ⟨h1 | rfl, h2⟩
      · exact Or.inl ⟨h1, h2⟩
      · exact Or.inr ⟨rfl, h2⟩

theorem NFA.SInv.inner {N : NFA σ τ} (hv : N.valid = true) {s : Sched} {Q0 : List σ}
    {acc : SubsetAcc σ τ} {Q1 : List σ} {done : List τ} (h : N.SInv s Q0 acc Q1 done)
    {a : τ} (ha : a ∈ N.Sigma) :
    N.SInv s Q0 (N.innerT s Q1 acc a) Q1 (a :: done) ∧
      (N.innerT s Q1 acc a).Q.length + acc.todo.length =
        acc.Q.length + (N.innerT s Q1 acc a).todo.length := by
  unfold NFA.innerT
  by_cases hc : N.stepT s Q1 a ∈ acc.Q
  · rw [if_pos hc]
    refine ⟨h.step_abs hv ha ?_ ?_ rfl rfl h.nodup, rfl⟩
    · intro S
      constructor
      · exact Or.inl
      · rintro (h1 | rfl)
        · exact h1
        · exact hc
    · intro S
      constructor
      · exact Or.inl
      · rintro (h1 | ⟨_, h2⟩)
        · exact h1
        · exact absurd hc h2
  · rw [if_neg hc]
    refine ⟨h.step_abs hv ha ?_ ?_ rfl rfl ?_, ?_⟩
    · intro S
      simp only [List.mem_append, List.mem_singleton]
    · intro S
      simp only [List.mem_cons]
      constructor
      · rintro (rfl | h1)
        · exact Or.inr ⟨rfl, hc⟩
        · exact Or.inl h1
      · rintro (h1 | ⟨rfl, _⟩)
        · exact Or.inr h1
        · exact Or.inl rfl
    · simp only
      rw [List.nodup_append]
      refine ⟨h.nodup, by simp, ?_⟩
      intro x hx y hy hxy
      rw [List.mem_singleton] at hy
      subst hy; subst hxy
      exact hc hx
    · simp only [List.length_append, List.length_cons, List.length_nil]
      omega

theorem NFA.SInv.fold {N : NFA σ τ} (hv : N.valid = true) {s : Sched} {Q0 : List σ} {Q1 : List σ}
    (l : List τ) (hl : ∀ a, a ∈ l → a ∈ N.Sigma) :
    ∀ (acc : SubsetAcc σ τ) (done : List τ), N.SInv s Q0 acc Q1 done →
    N.SInv s Q0 (l.foldl (N.innerT s Q1) acc) Q1 (l.reverse ++ done) ∧
      (l.foldl (N.innerT s Q1) acc).Q.length + acc.todo.length =
        acc.Q.length + (l.foldl (N.innerT s Q1) acc).todo.length := by
  induction l with
  | nil => intro acc done h; exact ⟨h, rfl⟩
  | cons a l ih =>
    intro acc done h
    obtain ⟨h1, hlen1⟩ := h.inner hv (hl a List.mem_cons_self)
    obtain ⟨h2, hlen2⟩ := ih (fun b hb => hl b (List.mem_cons_of_mem _ hb)) _ _ h1
    rw [List.foldl_cons, List.reverse_cons, List.append_assoc]
    refine ⟨h2, ?_⟩
    omega

theorem NFA.OInv.pop {N : NFA σ τ} {s : Sched} {Q0 : List σ} {acc : SubsetAcc σ τ}
    (h : N.OInv s Q0 acc) {Q1 : List σ} {rest : List (List σ)} (ht : acc.todo = Q1 :: rest) :
    N.SInv s Q0 { acc with todo := rest } Q1 [] := by
  refine ⟨h.q0, h.sub, ?_, ?_, ⟨h.todo Q1 (ht ▸ List.mem_cons_self), fun a ha => by cases ha⟩,
    h.closed, h.fin, h.nodup⟩
  · intro S hS
    exact h.todo S (ht ▸ List.mem_cons_of_mem _ hS)
  · intro S hS hnt hne a ha
    refine h.dlt S hS ?_ a ha
    rw [ht]
    intro hc
    rcases List.mem_cons.mp hc with hc | hc
    · exact hne hc
    · exact hnt hc

theorem NFA.SInv.unpop {N : NFA σ τ} {s : Sched} {Q0 : List σ} {acc : SubsetAcc σ τ} {Q1 : List σ}
    {done : List τ} (h : N.SInv s Q0 acc Q1 done) (hd : ∀ a, a ∈ N.Sigma → a ∈ done) :
    N.OInv s Q0 acc := by
  refine ⟨h.q0, h.sub, h.todo, ?_, h.closed, h.fin, h.nodup⟩
  intro S hS hnt a ha
  by_cases hne : S = Q1
  · subst hne
    exact h.cur.2 a (hd a ha)
  · exact h.dlt S hS hnt hne a ha

/-- one iteration of the outer loop preserves the invariant and decreases the measure by one -/
theorem NFA.OInv.popT {N : NFA σ τ} (hv : N.valid = true) {s : Sched} {Q0 : List σ}
    {acc : SubsetAcc σ τ} (h : N.OInv s Q0 acc) {Q1 : List σ} {rest : List (List σ)}
    (ht : acc.todo = Q1 :: rest) :
    N.OInv s Q0 (N.popT s Q1 rest acc) ∧
      (N.popT s Q1 rest acc).Q.length + rest.length = acc.Q.length + (N.popT s Q1 rest acc).todo.length := by
  obtain ⟨h1, hlen⟩ := NFA.SInv.fold hv N.Sigma (fun a ha => ha) _ _ (h.pop ht)
  refine ⟨h1.unpop ?_, hlen⟩
  intro a ha
  simp [ha]

/-! ### the outer loop: partial correctness and termination -/

theorem NFA.OInv.length_le {N : NFA σ τ} {s : Sched} {Q0 : List σ} {acc : SubsetAcc σ τ}
    (h : N.OInv s Q0 acc) : acc.Q.length ≤ 2 ^ N.Q.length := by
  rw [← C03.length_subLists]
  apply List.Nodup.length_le_of_subset h.nodup
  intro S hS
  obtain ⟨u, _, hsub⟩ := h.sub S hS
  rw [← hsub.1]
  exact N.canon_mem_subLists S

/-- partial correctness for EVERY fuel: a successful run of the loop ends in a state satisfying the invariant
    with an empty worklist -/
theorem NFA.subsetLoop_inv {N : NFA σ τ} (hv : N.valid = true) (s : Sched) (Q0 : List σ) (fuel : Nat) :
    ∀ acc acc', N.OInv s Q0 acc → N.subsetLoop s fuel acc = .ok acc' →
      N.OInv s Q0 acc' ∧ acc'.todo = [] := by
  induction fuel with
  | zero =>
    intro acc acc' h he
    simp only [NFA.subsetLoop] at he
    split at he
    · rename_i hemp
      cases he
      exact ⟨h, by simpa using hemp⟩
    · cases he
  | succ fuel ih =>
    intro acc acc' h he
    rw [NFA.subsetLoop_succ hv] at he
    split at he
    · rename_i ht
      cases he
      exact ⟨h, ht⟩
    · rename_i Q1 rest ht
      exact ih _ _ (h.popT hv ht).1 he

/-- termination: the measure `(2^|Q_N| - |Q|) + |todo|` bounds the number of iterations -/
theorem NFA.subsetLoop_terminates {N : NFA σ τ} (hv : N.valid = true) (s : Sched) (Q0 : List σ)
    (fuel : Nat) :
    ∀ acc, N.OInv s Q0 acc → (2 ^ N.Q.length - acc.Q.length) + acc.todo.length ≤ fuel →
      ∃ acc', N.subsetLoop s fuel acc = .ok acc' := by
  induction fuel with
  | zero =>
    intro acc _ hm
    have : acc.todo = [] := List.eq_nil_of_length_eq_zero (by omega)
    exact ⟨acc, by simp [NFA.subsetLoop, this]⟩
  | succ fuel ih =>
    intro acc h hm
    rw [NFA.subsetLoop_succ hv]
    split
    · exact ⟨acc, rfl⟩
    · rename_i Q1 rest ht
      obtain ⟨h', hlen⟩ := h.popT hv ht
      apply ih _ h'
      have h1 := h'.length_le
      have h2 := h.length_le
      rw [ht, List.length_cons] at hm
      generalize 2 ^ N.Q.length = M at *
      omega

/-! ### the resulting DFA -/

def SubsetAcc.toDFA (acc : SubsetAcc σ τ) (Sigma : List τ) (Q0 : List σ) : DFA (List σ) τ :=
  { Q := acc.Q, Sigma := Sigma, delta := acc.delta, q0 := Q0, F := acc.F }

theorem NFA.OInv.valid {N : NFA σ τ} {s : Sched} {Q0 : List σ} {acc : SubsetAcc σ τ}
    (h : N.OInv s Q0 acc) (ht : acc.todo = []) : (acc.toDFA N.Sigma Q0).valid = true := by
  rw [DFA.valid_iff]
  refine ⟨h.q0, fun f hf => ((h.fin f).mp hf).1, fun q a r he => h.closed _ he, ?_⟩
  intro q a hq ha
  exact ⟨_, (h.dlt q hq (by rw [ht]; simp) a ha).1⟩

theorem NFA.OInv.next {N : NFA σ τ} {s : Sched} {Q0 : List σ} {acc : SubsetAcc σ τ}
    (h : N.OInv s Q0 acc) (ht : acc.todo = []) {S : List σ} (hS : S ∈ acc.Q) {a : τ} (ha : a ∈ N.Sigma) :
    (acc.toDFA N.Sigma Q0).next S a = N.stepT s S a ∧ N.stepT s S a ∈ acc.Q := by
  obtain ⟨h1, h2⟩ := h.dlt S hS (by rw [ht]; simp) a ha
  exact ⟨DFA.next_of_lookup h1, h2⟩

theorem NFA.OInv.runT {N : NFA σ τ} (hv : N.valid = true) {s : Sched} {Q0 : List σ}
    {acc : SubsetAcc σ τ} (h : N.OInv s Q0 acc) (ht : acc.todo = []) (w : List τ)
    (hw : ∀ a, a ∈ w → a ∈ N.Sigma) :
    ∀ (S : List σ) (u : List τ), S ∈ acc.Q → N.Sub S u →
      (acc.toDFA N.Sigma Q0).runT S w ∈ acc.Q ∧ N.Sub ((acc.toDFA N.Sigma Q0).runT S w) (u ++ w) := by
  induction w with
  | nil => intro S u hS hsub; rw [List.append_nil]; exact ⟨hS, hsub⟩
  | cons a w ih =>
    intro S u hS hsub
    have ha := hw a List.mem_cons_self
    obtain ⟨hn, hm⟩ := h.next ht hS ha
    rw [DFA.runT_cons, hn]
    have := ih (fun b hb => hw b (List.mem_cons_of_mem _ hb)) _ _ hm (hsub.step hv s ha)
    rw [List.append_assoc] at this
    exact this

/-- everything about the DFA assembled from a final accumulator -/
theorem NFA.OInv.final {N : NFA σ τ} (hv : N.valid = true) {s : Sched} {acc : SubsetAcc σ τ}
    (h : N.OInv s (N.canon (N.closureT s [N.q0])) acc) (ht : acc.todo = []) :
    let D := acc.toDFA N.Sigma (N.canon (N.closureT s [N.q0]))
    D.valid = true ∧ D.Sigma = N.Sigma ∧
      (∀ q, q ∈ D.q0 ↔ N.EpsReach [N.q0] q) ∧
      (∀ S, S ∈ D.Q → D.Reachable S) ∧
      (∀ S, S ∈ D.Q → ∀ q, q ∈ S → q ∈ N.Q) ∧
      ∀ w, (∀ a, a ∈ w → a ∈ N.Sigma) → (D.Accepts w ↔ N.Accepts w) := by
  intro D
  have hval : D.valid = true := h.valid ht
  have hinit := NFA.Sub.init hv s
  have hrun : ∀ w, (∀ a, a ∈ w → a ∈ N.Sigma) → D.runT D.q0 w ∈ acc.Q ∧ N.Sub (D.runT D.q0 w) w := by
    intro w hw
    have := h.runT hv ht w hw _ _ h.q0 hinit
    rw [List.nil_append] at this
    exact this
  refine ⟨hval, rfl, ?_, ?_, ?_, ?_⟩
  · intro q
    rw [← NFA.Run_nil_iff_epsReach]
    exact hinit.2 q
  · intro S hS
    obtain ⟨u, hu, hsub⟩ := h.sub S hS
    refine ⟨u, hu, ?_⟩
    have heq : D.runT D.q0 u = S := (hrun u hu).2.ext hsub
    rw [← heq]
    exact DFA.Run_runT hval (DFA.valid_q0 hval) hu
  · intro S hS q hq
    obtain ⟨u, _, hsub⟩ := h.sub S hS
    exact hsub.mem_Q hq
  · intro w hw
    obtain ⟨hm, hsub⟩ := hrun w hw
    rw [DFA.Accepts_iff_runT hval hw]
    show D.runT D.q0 w ∈ acc.F ↔ _
    rw [h.fin, sdisjoint_false_iff]
    constructor
    · rintro ⟨_, f, hf1, hf2⟩
      exact ⟨f, hf2, (hsub.2 f).mp hf1⟩
    · rintro ⟨f, hf, hr⟩
      exact ⟨hm, f, (hsub.2 f).mpr hr, hf⟩

theorem NFA.OInv.initial {N : NFA σ τ} (hv : N.valid = true) (s : Sched) :
    N.OInv s (N.canon (N.closureT s [N.q0]))
      { Q := [N.canon (N.closureT s [N.q0])], delta := [],
        F := if !sdisjoint (N.canon (N.closureT s [N.q0])) N.F then [N.canon (N.closureT s [N.q0])] else [],
        todo := [N.canon (N.closureT s [N.q0])] } := by
  refine ⟨List.mem_singleton.mpr rfl, ?_, fun S hS => hS, ?_, ?_, ?_, by simp⟩
  · intro S hS
    rw [List.mem_singleton.mp hS]
    exact ⟨[], fun a ha => (by cases ha), NFA.Sub.init hv s⟩
  · intro S hS hnt
    exact absurd hS hnt
  · intro e he
    cases he
  · intro S
    simp only [List.mem_singleton]
    cases hd : sdisjoint (N.canon (N.closureT s [N.q0])) N.F
    · simp only [Bool.not_false, if_true, List.mem_singleton]
      constructor
      · rintro rfl; exact ⟨rfl, hd⟩
      · exact fun h => h.1
    · simp only [Bool.not_true, Bool.false_eq_true, if_false, List.not_mem_nil, false_iff]
      rintro ⟨rfl, h2⟩
      rw [hd] at h2
      cases h2

/-- partial correctness of `nfa_to_dfa` for every fuel the outer loop could be given -/
theorem NFA.toDfaSets_eq {N : NFA σ τ} (hv : N.valid = true) (s : Sched) :
    N.toDfaSets s = (do
      let acc ← N.subsetLoop s (2 ^ N.Q.length + 1)
        { Q := [N.canon (N.closureT s [N.q0])], delta := [],
          F := if !sdisjoint (N.canon (N.closureT s [N.q0])) N.F then [N.canon (N.closureT s [N.q0])] else [],
          todo := [N.canon (N.closureT s [N.q0])] }
      DFA.checked (acc.toDFA N.Sigma (N.canon (N.closureT s [N.q0])))) := by
  unfold NFA.toDfaSets
  rw [NFA.closure_eq_ok hv]
  rfl

theorem NFA.toDfaSets_spec {N : NFA σ τ} (hv : N.valid = true) (s : Sched) :
    ∃ D, N.toDfaSets s = .ok D ∧ D.valid = true ∧ D.Sigma = N.Sigma ∧
      (∀ q, q ∈ D.q0 ↔ N.EpsReach [N.q0] q) ∧
      (∀ S, S ∈ D.Q → D.Reachable S) ∧
      (∀ S, S ∈ D.Q → ∀ q, q ∈ S → q ∈ N.Q) ∧
      ∀ w, (∀ a, a ∈ w → a ∈ N.Sigma) → (D.Accepts w ↔ N.Accepts w) := by
  have h0 := NFA.OInv.initial hv s
  obtain ⟨acc, hacc⟩ := NFA.subsetLoop_terminates hv s _ (2 ^ N.Q.length + 1) _ h0 (by
    simp only [List.length_singleton]
    have : 0 < 2 ^ N.Q.length := Nat.pow_pos (by decide)
    generalize 2 ^ N.Q.length = M at *
    omega)
  obtain ⟨h1, ht⟩ := NFA.subsetLoop_inv hv s _ _ _ _ h0 hacc
  have hfin := h1.final hv ht
  refine ⟨acc.toDFA N.Sigma (N.canon (N.closureT s [N.q0])), ?_, hfin⟩
  rw [NFA.toDfaSets_eq hv, hacc]
  show DFA.checked _ = _
  unfold DFA.checked
  rw [if_pos hfin.1]

end

/-! ### concrete objects for the non-vacuity examples of `Gamba.Props.C03` -/
namespace C03

/-- `a`-move `0 → {0,1}` (nondeterminism), ε-move `1 → 2`, `b`-loop on `2`; partial δ -/
def exN : NFA String String :=
  { Q := ["0", "1", "2"], Sigma := ["a", "b"],
    delta := [(("0", "a"), ["0", "1"]), (("1", "eps"), ["2"]), (("2", "b"), ["2"])],
    q0 := "0", F := ["2"], eps := "eps" }

/-- the subset automaton of `exN` on structured states: 4 subsets, among them `∅` -/
def exD : DFA (List String) String :=
  { Q := [["0"], ["0", "1", "2"], [], ["2"]],
    Sigma := ["a", "b"],
    delta := [((["0"], "a"), ["0", "1", "2"]), ((["0"], "b"), []), (([], "a"), []), (([], "b"), []),
              ((["0", "1", "2"], "a"), ["0", "1", "2"]), ((["0", "1", "2"], "b"), ["2"]),
              ((["2"], "a"), []), ((["2"], "b"), ["2"])],
    q0 := ["0"],
    F := [["0", "1", "2"], ["2"]] }

/-- … and with `print_state_set` names -/
def exDnamed : DFA String String :=
  { Q := ["{0}", "{0,1,2}", "{}", "{2}"],
    Sigma := ["a", "b"],
    delta := [(("{0}", "a"), "{0,1,2}"), (("{0}", "b"), "{}"), (("{}", "a"), "{}"), (("{}", "b"), "{}"),
              (("{0,1,2}", "a"), "{0,1,2}"), (("{0,1,2}", "b"), "{2}"),
              (("{2}", "a"), "{}"), (("{2}", "b"), "{2}")],
    q0 := "{0}",
    F := ["{0,1,2}", "{2}"] }

theorem exN_valid : exN.valid = true := by decide

theorem exN_toDfaSets : exN.toDfaSets [] = .ok exD := by rfl

theorem exN_toDfaSets' : exN.toDfaSets [3, 1, 2] = .ok exD := by rfl

theorem name_0 : printStateSet ["0"] = "{0}" := by simp [printStateSet, sortStrings, dedup]
theorem name_empty : printStateSet [] = "{}" := by simp [printStateSet, sortStrings, dedup]
theorem name_2 : printStateSet ["2"] = "{2}" := by simp [printStateSet, sortStrings, dedup]
theorem name_012 : printStateSet ["0", "1", "2"] = "{0,1,2}" := by
  simp [printStateSet, sortStrings, dedup, List.mergeSort]

theorem exD_named : exD.mapStates printStateSet = exDnamed := by
  simp [DFA.mapStates, exD, exDnamed, name_0, name_empty, name_2, name_012]

theorem exN_toDfa : exN.toDfa [] = .ok exDnamed := by
  unfold NFA.toDfa
  rw [exN_toDfaSets]
  show Except.ok (exD.mapStates printStateSet) = _
  rw [exD_named]

/-- the naming is injective on the four subsets -/
theorem exD_names_inj :
    ∀ S T, S ∈ exD.Q → T ∈ exD.Q → printStateSet S = printStateSet T → S = T := by
  intro S T hS hT
  simp only [exD, List.mem_cons, List.not_mem_nil, or_false] at hS hT
  rcases hS with rfl | rfl | rfl | rfl <;> rcases hT with rfl | rfl | rfl | rfl <;>
    simp only [name_0, name_empty, name_2, name_012] <;> decide

end C03
end Gamba
