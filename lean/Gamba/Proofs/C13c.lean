/-
  Gamba.Proofs.C13c — the library's own CYK answer key (`Keys.printCyk`) is accepted by the
  library's CYK checker (`Check.cykCheck`): character-level facts about the printed table
  (cells, padded lines, the final `strip`) and the index arithmetic of the checker.
-/
import Gamba.Model.Keys
import Gamba.Model.Check
import Gamba.Proofs.TextBasic
import Gamba.Proofs.C07
namespace Gamba

/-- single-character word-character variable names (the "simple" grammar format of the notebooks) -/
def CFG.SimpleVars (G : CFG) : Prop :=
  ∀ A, A ∈ G.V → ∃ c, A = String.singleton c ∧ Text.isWordChar c = true

namespace C13c
open Text Keys

/-! ### `joinWith` -/

theorem joinWith_eq_intercalate (sep : List Char) (xs : List (List Char)) :
    joinWith sep xs = sep.intercalate xs := by
  induction xs with
  | nil => rfl
  | cons x xs ih =>
    cases xs with
    | nil => simp [joinWith]
    | cons y ys => rw [List.intercalate_cons_cons, ← ih]; rfl

theorem intercalate_concat (sep : List Char) (xs : List (List Char)) (x : List Char) :
    sep.intercalate (xs ++ [x]) = xs.flatMap (· ++ sep) ++ x := by
  induction xs with
  | nil => simp
  | cons y ys ih =>
    rw [List.cons_append, intercalate_cons_of_ne_nil sep y (by simp), ih]
    simp [List.append_assoc]

theorem mem_intercalate_of_mem {sep : List Char} {xs : List (List Char)} {x : List Char} {c : Char}
    (hx : x ∈ xs) (hc : c ∈ x) : c ∈ sep.intercalate xs := by
  induction xs with
  | nil => cases hx
  | cons y ys ih =>
    cases ys with
    | nil =>
      simp only [List.mem_singleton] at hx
      subst hx
      simpa using hc
    | cons z zs =>
      rw [List.intercalate_cons_cons]
      rcases List.mem_cons.mp hx with rfl | hx
      · simp [hc]
      · exact List.mem_append_right _ (ih hx)

theorem head_intercalate {sep : List Char} {xs : List (List Char)} (hne : xs ≠ []) {a : Char}
    (h : ∀ x, x ∈ xs → ∃ t, x = a :: t) : ∃ t, sep.intercalate xs = a :: t := by
  cases xs with
  | nil => exact absurd rfl hne
  | cons x ys =>
    obtain ⟨t, rfl⟩ := h x (by simp)
    cases ys with
    | nil => exact ⟨t, by simp⟩
    | cons z zs => exact ⟨_, by rw [List.intercalate_cons_cons]; rfl⟩

/-! ### the text seen by the checker: `strip`, lines, words -/

theorem mem_rstrip {l : List Char} {c : Char} (h : c ∈ rstrip l) : c ∈ l := by
  obtain ⟨sp, _, h2, _⟩ := rstrip_spec l
  rw [h2]; exact List.mem_append_left _ h

/-- `strip` + `split('\n')` + `split()` of newline-joined lines that all start with `{` -/
theorem lines_strip {L : List (List Char)} (hne : L ≠ []) (hnl : ∀ l, l ∈ L → '\n' ∉ l)
    (hhd : ∀ l, l ∈ L → ∃ t, l = '{' :: t) :
    (splitOn '\n' (strip (joinWith ['\n'] L))).map splitWs = L.map splitWs := by
  rw [joinWith_eq_intercalate]
  have hstrip : strip (['\n'].intercalate L) = rstrip (['\n'].intercalate L) := by
    apply strip_eq_rstrip
    obtain ⟨t, ht⟩ := head_intercalate (sep := ['\n']) hne hhd
    rw [ht]
    intro c hc
    simp only [List.head?_cons, Option.some.injEq] at hc
    subst hc; decide
  rw [hstrip]
  rcases List.eq_nil_or_concat L with h | ⟨L', last, h⟩
  · exact absurd h hne
  · rw [List.concat_eq_append] at h
    subst h
    obtain ⟨t, ht⟩ := hhd last (by simp)
    have hlast : ∃ c, c ∈ last ∧ isSpace c = false := ⟨'{', by rw [ht]; simp, by decide⟩
    rw [intercalate_concat, rstrip_append _ hlast, ← intercalate_concat, splitOn_intercalate (by simp)]
    · simp [splitWs_rstrip]
    · intro p hp
      rcases List.mem_append.mp hp with hp | hp
      · exact hnl p (List.mem_append_left _ hp)
      · simp only [List.mem_singleton] at hp
        subst hp
        exact fun hm => hnl last (by simp) (mem_rstrip hm)

/-! ### printed cells -/

/-- the elements of a cell are single word characters -/
def Good (S : List String) : Prop := ∀ A, A ∈ S → ∃ c, A = String.singleton c ∧ isWordChar c = true

theorem good_chars {T : List String} (h : Good T) :
    ∃ cs : List Char, T = cs.map String.singleton ∧ ∀ c, c ∈ cs → isWordChar c = true := by
  induction T with
  | nil => exact ⟨[], rfl, by simp⟩
  | cons A T ih =>
    obtain ⟨c, rfl, hc⟩ := h A (by simp)
    obtain ⟨cs, rfl, hcs⟩ := ih (fun B hB => h B (List.mem_cons_of_mem _ hB))
    refine ⟨c :: cs, rfl, ?_⟩
    intro d hd
    rcases List.mem_cons.mp hd with rfl | hd
    · exact hc
    · exact hcs d hd

theorem good_sort_dedup {S : List String} (h : Good S) : Good (sortStrings (dedup S)) :=
  fun A hA => h A (by simpa using hA)

/-- the characters between the braces -/
def cellBody (cs : List Char) : List Char := [','].intercalate (cs.map fun c => [c])

theorem printSet_eq {S : List String} {cs : List Char} (h : sortStrings (dedup S) = cs.map String.singleton) :
    printSet S = '{' :: cellBody cs ++ ['}'] := by
  unfold printSet cellBody
  rw [joinWith_eq_intercalate, h, List.map_map]
  have : (String.toList ∘ String.singleton) = fun c => [c] := by
    funext c; simp
  rw [this]

theorem cellBody_cons_cons (c d : Char) (cs : List Char) :
    cellBody (c :: d :: cs) = c :: ',' :: cellBody (d :: cs) := by
  simp [cellBody, List.intercalate_cons_cons]

theorem mem_cellBody {cs : List Char} {c : Char} (h : c ∈ cellBody cs) : c = ',' ∨ c ∈ cs := by
  rcases mem_intercalate h with h | ⟨x, hx, hc⟩
  · left; simpa using h
  · right
    obtain ⟨d, hd, rfl⟩ := List.mem_map.mp hx
    simp only [List.mem_singleton] at hc
    subst hc; exact hd

theorem parseCellInner_body {cs : List Char} (hne : cs ≠ []) (h : ∀ c, c ∈ cs → isWordChar c = true) :
    Check.parseCellInner (cellBody cs) = some (cs.map String.singleton) := by
  induction cs with
  | nil => exact absurd rfl hne
  | cons c cs ih =>
    have hc : Check.isWordChar c = true := h c (by simp)
    cases cs with
    | nil => simp [cellBody, Check.parseCellInner, hc]
    | cons d ds =>
      rw [cellBody_cons_cons, Check.parseCellInner, if_pos hc, ih (by simp) (fun x hx => h x (List.mem_cons_of_mem _ hx))]
      rfl

theorem cellBody_ne_nil {cs : List Char} (hne : cs ≠ []) : cellBody cs ≠ [] := by
  cases cs with
  | nil => exact absurd rfl hne
  | cons c cs =>
    cases cs with
    | nil => simp [cellBody]
    | cons d ds => rw [cellBody_cons_cons]; simp

theorem parseCell_printSet {S : List String} (h : Good S) :
    Check.parseCell (printSet S) = some (sortStrings (dedup S)) := by
  obtain ⟨cs, hcs, hw⟩ := good_chars (good_sort_dedup h)
  rw [printSet_eq hcs, hcs]
  by_cases hne : cs = []
  · subst hne; rfl
  · have hb := cellBody_ne_nil hne
    have h1 : ¬ ('{' :: cellBody cs ++ ['}'] = ['{', '}']) := by
      cases hcb : cellBody cs with
      | nil => exact absurd hcb hb
      | cons x xs => cases xs <;> simp
    have h2 : Check.braced ('{' :: cellBody cs ++ ['}']) = true := by
      unfold Check.braced
      rw [List.getLast?_concat]
      simp
    have h3 : inner ('{' :: cellBody cs ++ ['}']) = cellBody cs := by
      simp [inner]
    rw [Check.parseCell, if_neg h1, if_pos h2, h3, parseCellInner_body hne hw]

theorem printSet_token {S : List String} (h : Good S) : Token (printSet S) := by
  obtain ⟨cs, hcs, hw⟩ := good_chars (good_sort_dedup h)
  rw [printSet_eq hcs]
  refine ⟨by simp, ?_⟩
  intro c hc
  simp only [List.cons_append, List.mem_cons, List.mem_append, List.not_mem_nil, or_false] at hc
  rcases hc with rfl | hc | rfl
  · decide
  · rcases mem_cellBody hc with rfl | hc
    · decide
    · exact not_isSpace_of_isWordChar (hw c hc)
  · decide

theorem printSet_head (S : List String) : ∃ t, printSet S = '{' :: t := ⟨_, rfl⟩

/-! ### printed lines -/

/-- one printed line: the padded cells joined by two spaces -/
def line (W : Nat) (row : List (List String)) : List Char :=
  [' ', ' '].intercalate (row.map fun S => pad W (printSet S))

theorem all_space_replicate (k : Nat) : ∀ c, c ∈ List.replicate k ' ' → isSpace c = true := by
  intro c hc
  rw [(List.mem_replicate.mp hc).2]; decide

theorem splitWs_line (W : Nat) {row : List (List String)} (h : ∀ S, S ∈ row → Good S) :
    Text.splitWs (line W row) = row.map printSet := by
  induction row with
  | nil => rfl
  | cons S row ih =>
    have hS := printSet_token (h S (by simp))
    cases row with
    | nil =>
      simp only [line, List.map_cons, List.map_nil, List.intercalate_singleton, pad]
      rw [splitWs_append_spaces _ (all_space_replicate _), splitWs_token hS]
    | cons S' row' =>
      have ih' := ih (fun T hT => h T (List.mem_cons_of_mem _ hT))
      unfold line at ih' ⊢
      rw [List.map_cons, intercalate_cons_of_ne_nil _ _ (by simp), pad,
        List.append_assoc, List.append_assoc, splitWs_token_append hS, ← List.append_assoc,
        splitWs_spaces_append, ih']
      · rfl
      · intro c hc
        rcases List.mem_append.mp hc with hc | hc
        · exact all_space_replicate _ c hc
        · simp only [List.mem_cons, List.not_mem_nil, or_false, or_self] at hc
          subst hc; decide
      · intro d hd
        cases hk : W - (printSet S).length with
        | zero => rw [hk] at hd; simp at hd; subst hd; decide
        | succ k => rw [hk] at hd; simp [List.replicate_succ] at hd; subst hd; decide

theorem mem_line {W : Nat} {row : List (List String)} {c : Char} (h : c ∈ line W row) :
    c = ' ' ∨ ∃ S, S ∈ row ∧ c ∈ printSet S := by
  rcases mem_intercalate h with h | ⟨x, hx, hc⟩
  · left; simpa using h
  · obtain ⟨S, hS, rfl⟩ := List.mem_map.mp hx
    rcases List.mem_append.mp hc with hc | hc
    · exact Or.inr ⟨S, hS, hc⟩
    · exact Or.inl (List.mem_replicate.mp hc).2

theorem newline_not_mem_line (W : Nat) {row : List (List String)} (h : ∀ S, S ∈ row → Good S) :
    '\n' ∉ line W row := by
  intro hm
  rcases mem_line hm with hm | ⟨S, hS, hc⟩
  · revert hm; decide
  · exact (printSet_token (h S hS)).newline_not_mem hc

theorem line_head (W : Nat) {row : List (List String)} (hne : row ≠ []) : ∃ t, line W row = '{' :: t := by
  apply head_intercalate (by simpa using hne)
  intro x hx
  obtain ⟨S, _, rfl⟩ := List.mem_map.mp hx
  exact ⟨_, rfl⟩

/-! ### the checker as a function of the words of the answer's lines -/

/-- the body of `Check.cykCheck` after the table `Y` has been computed and the answer split into words -/
def checkLines (G : CFG) (Y : CFG.CykTable) (n : Nat) (lines : List (List (List Char))) : Bool :=
  let cells := lines.map fun ws => ws.map Check.parseCell
  let okSyntax := cells.all fun row => row.all fun c =>
    match c with
    | some vs => ssubset vs G.V
    | none => false
  let okRows := decide (lines.length = n)
  let okSizes := lines.zipIdx.all fun (ws, i) => ws.length == i + 1
  if !(okSyntax && okRows && okSizes) then false else
  cells.reverse.zipIdx.all fun (row, i) => row.zipIdx.all fun (c, j) =>
    match c with
    | some vs => seq vs (CFG.cykGet Y j (i + j))
    | none => false

theorem cykCheck_eq {G : CFG} {w : List String} {Y : CFG.CykTable} (hY : G.cykMatrix w = .ok Y) (answer : String) :
    Check.cykCheck G w answer =
      .ok (checkLines G Y w.length ((splitOn '\n' (strip answer.toList)).map Text.splitWs)) := by
  unfold Check.cykCheck checkLines
  rw [hY]
  simp only [bind, Except.bind, pure, Except.pure]
  have e : Check.splitWs = Text.splitWs := rfl
  rw [e]
  split
  · rename_i h; exact congrArg Except.ok (if_pos h).symm
  · rename_i h; exact congrArg Except.ok (if_neg h).symm

/-! ### the rows of the printed table -/

/-- row `i` (before the reversal): the cells `X[d, d+i]`, `d = 0 … n-i-1` -/
def rowOf (X : CFG.CykTable) (n i : Nat) : List (List String) :=
  (List.range (n - i)).map fun d => CFG.cykGet X d (d + i)

def rowsOf (X : CFG.CykTable) (n : Nat) : List (List (List String)) := (List.range n).map (rowOf X n)

theorem length_rowsOf (X : CFG.CykTable) (n : Nat) : (rowsOf X n).length = n := by simp [rowsOf]

theorem getElem?_rowsOf (X : CFG.CykTable) {n i : Nat} (h : i < n) : (rowsOf X n)[i]? = some (rowOf X n i) := by
  simp [rowsOf, h]

theorem getElem?_rowOf (X : CFG.CykTable) {n i d : Nat} (h : d + i < n) :
    (rowOf X n i)[d]? = some (CFG.cykGet X d (d + i)) := by
  have : d < n - i := by omega
  simp [rowOf, this]

theorem length_rowOf (X : CFG.CykTable) (n i : Nat) : (rowOf X n i).length = n - i := by simp [rowOf]

theorem mem_rowsOf {X : CFG.CykTable} {n : Nat} {row : List (List String)} (h : row ∈ rowsOf X n) :
    ∃ i, i < n ∧ row = rowOf X n i := by
  obtain ⟨i, hi, rfl⟩ := List.mem_map.mp h
  exact ⟨i, List.mem_range.mp hi, rfl⟩

theorem mem_rowOf {X : CFG.CykTable} {n i : Nat} {S : List String} (h : S ∈ rowOf X n i) :
    ∃ d, d + i < n ∧ S = CFG.cykGet X d (d + i) := by
  obtain ⟨d, hd, rfl⟩ := List.mem_map.mp h
  have := List.mem_range.mp hd
  exact ⟨d, by omega, rfl⟩

theorem cykLine_eq (X : CFG.CykTable) (n i : Nat) : cykLine X n i = line (cykWidth X) (rowOf X n i) := by
  unfold cykLine line rowOf
  rw [joinWith_eq_intercalate, List.map_map]
  rfl

/-- every cell of the table that is printed holds declared single-character variables -/
def CellsOk (G : CFG) (Y : CFG.CykTable) (n : Nat) : Prop :=
  ∀ i d, d + i < n → Good (CFG.cykGet Y d (d + i)) ∧ ∀ A, A ∈ CFG.cykGet Y d (d + i) → A ∈ G.V

/-- the words of the lines of the printed table -/
def keyLines (Y : CFG.CykTable) (n : Nat) : List (List (List Char)) :=
  ((rowsOf Y n).map fun row => row.map printSet).reverse

def parsedRow (Y : CFG.CykTable) (n i : Nat) : List (Option (List String)) :=
  (rowOf Y n i).map fun S => some (sortStrings (dedup S))

theorem cells_keyLines {G : CFG} {Y : CFG.CykTable} {n : Nat} (h : CellsOk G Y n) :
    (keyLines Y n).map (fun ws => ws.map Check.parseCell) = ((List.range n).map (parsedRow Y n)).reverse := by
  unfold keyLines rowsOf
  rw [List.map_reverse, List.map_map, List.map_map]
  congr 1
  apply List.map_congr_left
  intro i hi
  have hi' := List.mem_range.mp hi
  simp only [Function.comp_def, parsedRow, List.map_map]
  apply List.map_congr_left
  intro S hS
  obtain ⟨d, hd, rfl⟩ := mem_rowOf hS
  exact parseCell_printSet (h i d hd).1

theorem getElem?_keyLines (Y : CFG.CykTable) {n i : Nat} (h : i < n) :
    (keyLines Y n)[i]? = some ((rowOf Y n (n - 1 - i)).map printSet) := by
  unfold keyLines
  rw [List.getElem?_reverse (by simpa [length_rowsOf] using h), List.length_map, length_rowsOf, List.getElem?_map,
    getElem?_rowsOf Y (by omega)]
  rfl

theorem length_keyLines (Y : CFG.CykTable) (n : Nat) : (keyLines Y n).length = n := by
  simp [keyLines, length_rowsOf]

theorem checkLines_keyLines {G : CFG} {Y : CFG.CykTable} {n : Nat} (h : CellsOk G Y n) :
    checkLines G Y n (keyLines Y n) = true := by
  have hsyn : (((List.range n).map (parsedRow Y n)).reverse.all fun row => row.all fun c =>
      match c with
      | some vs => ssubset vs G.V
      | none => false) = true := by
    simp only [List.all_eq_true, List.mem_reverse, List.mem_map, List.mem_range]
    rintro row ⟨i, hi, rfl⟩ c hc
    obtain ⟨S, hS, rfl⟩ := List.mem_map.mp hc
    obtain ⟨d, hd, rfl⟩ := mem_rowOf hS
    simp only [ssubset_iff, mem_sortStrings, mem_dedup]
    exact (h i d hd).2
  have hsz : ((keyLines Y n).zipIdx.all fun (ws, i) => ws.length == i + 1) = true := by
    simp only [List.all_eq_true]
    rintro ⟨ws, i⟩ hm
    have hm' := List.mem_zipIdx_iff_getElem?.mp hm
    simp only at hm'
    have hi : i < n := by
      have := (List.getElem?_eq_some_iff.mp hm').1
      rwa [length_keyLines] at this
    rw [getElem?_keyLines Y hi] at hm'
    injection hm' with hm'
    subst hm'
    simp only [List.length_map, length_rowOf, beq_iff_eq]
    omega
  have hfin : ((List.range n).map (parsedRow Y n)).zipIdx.all (fun (row, i) => row.zipIdx.all fun (c, j) =>
      match c with
      | some vs => seq vs (CFG.cykGet Y j (i + j))
      | none => false) = true := by
    simp only [List.all_eq_true]
    rintro ⟨row, i⟩ hm ⟨c, j⟩ hc
    have hm' := List.mem_zipIdx_iff_getElem?.mp hm
    have hc' := List.mem_zipIdx_iff_getElem?.mp hc
    simp only at hm' hc'
    have hi : i < n := by
      have := (List.getElem?_eq_some_iff.mp hm').1
      simpa using this
    rw [List.getElem?_map, List.getElem?_range hi] at hm'
    simp only [Option.map_some, Option.some.injEq] at hm'
    subst hm'
    have hj : j < n - i := by
      have := (List.getElem?_eq_some_iff.mp hc').1
      simpa [parsedRow, length_rowOf] using this
    unfold parsedRow at hc'
    rw [List.getElem?_map, getElem?_rowOf Y (by omega)] at hc'
    simp only [Option.map_some, Option.some.injEq] at hc'
    subst hc'
    rw [Nat.add_comm i j]
    simp [seq_iff]
  unfold checkLines
  simp only [cells_keyLines h, hsyn, hsz, length_keyLines, List.reverse_reverse, hfin, decide_true, Bool.and_self,
    Bool.not_true, Bool.false_eq_true, if_false]

/-! ### the printed key -/

/-- the text of the key -/
def keyText (X : CFG.CykTable) (n : Nat) : List Char :=
  joinWith ['\n'] ((rowsOf X n).map (line (cykWidth X))).reverse

theorem printCyk_eq {X : CFG.CykTable} (hX : X ≠ []) (n : Nat) :
    printCyk X n = .ok (String.ofList (keyText X n)) := by
  have : X.isEmpty = false := by cases X <;> simp_all
  unfold printCyk keyText rowsOf
  rw [this, List.map_map]
  have e : cykLine X n = line (cykWidth X) ∘ rowOf X n := funext fun i => cykLine_eq X n i
  rw [e]
  rfl

theorem good_of_mem_rowsOf {G : CFG} {Y : CFG.CykTable} {n : Nat} (h : CellsOk G Y n)
    {row : List (List String)} (hr : row ∈ rowsOf Y n) : row ≠ [] ∧ ∀ S, S ∈ row → Good S := by
  obtain ⟨i, hi, rfl⟩ := mem_rowsOf hr
  constructor
  · intro he
    have := length_rowOf Y n i
    rw [he] at this
    simp at this; omega
  · intro S hS
    obtain ⟨d, hd, rfl⟩ := mem_rowOf hS
    exact (h i d hd).1

/-- what the checker reads from the key: exactly the printed cells -/
theorem lines_keyText {G : CFG} {Y : CFG.CykTable} {n : Nat} (hn : 0 < n) (h : CellsOk G Y n) :
    (splitOn '\n' (strip (keyText Y n))).map Text.splitWs = keyLines Y n := by
  unfold keyText
  rw [lines_strip]
  · unfold keyLines
    rw [List.map_reverse, List.map_map]
    congr 1
    apply List.map_congr_left
    intro row hr
    exact splitWs_line _ (good_of_mem_rowsOf h hr).2
  · have : (rowsOf Y n).length ≠ 0 := by rw [length_rowsOf]; omega
    intro he
    apply this
    have := congrArg List.length he
    simpa using this
  · intro l hl
    obtain ⟨row, hr, rfl⟩ := List.mem_map.mp (List.mem_reverse.mp hl)
    exact newline_not_mem_line _ (good_of_mem_rowsOf h hr).2
  · intro l hl
    obtain ⟨row, hr, rfl⟩ := List.mem_map.mp (List.mem_reverse.mp hl)
    exact line_head _ (good_of_mem_rowsOf h hr).1

/-! ### the table is not empty -/

theorem cykRow_ne_nil (G : CFG) (n m : Nat) {X : CFG.CykTable} (h : X ≠ []) : CFG.cykRow G n m X ≠ [] := by
  unfold CFG.cykRow
  generalize List.range (n - m) = l
  induction l generalizing X with
  | nil => exact h
  | cons i l ih => exact ih (by simp)

theorem cykMatrix_ne_nil {G : CFG} {w : List String} (hw : w ≠ []) {X : CFG.CykTable}
    (hX : G.cykMatrix w = .ok X) : X ≠ [] := by
  unfold CFG.cykMatrix at hX
  split at hX
  · cases hX
  · injection hX with hX
    subst hX
    have h0 : (w.zipIdx.map fun (a, i) => ((i, i), G.V.filter fun A => decide ([Sym.t a] ∈ G.prods A))) ≠ [] := by
      cases w with
      | nil => exact absurd rfl hw
      | cons a w => simp
    revert h0
    generalize (w.zipIdx.map fun (a, i) => ((i, i), G.V.filter fun A => decide ([Sym.t a] ∈ G.prods A))) = X0
    generalize List.range w.length = l
    intro h0
    induction l generalizing X0 with
    | nil => exact h0
    | cons m l ih =>
      rw [List.foldl_cons]
      apply ih
      split
      · exact h0
      · exact cykRow_ne_nil G _ m h0

/-! ### assembly -/

theorem cellsOk_of_simple {G : CFG} (hc : G.isChomsky = true) (h1 : G.SimpleVars) {w : List String}
    {X : CFG.CykTable} (hX : G.cykMatrix w = .ok X) : CellsOk G X w.length := by
  intro i d hd
  have hV : ∀ A, A ∈ CFG.cykGet X d (d + i) → A ∈ G.V :=
    fun A hA => (CFG.cykMatrix_sound hc hX (Nat.le_add_right d i) hd hA).1
  exact ⟨fun A hA => h1 A (hV A hA), hV⟩

theorem own_cyk_ok_aux {G : CFG} {w : List String} (hw : w ≠ []) (hc : G.isChomsky = true)
    (h1 : G.SimpleVars) {X : CFG.CykTable} (hX : G.cykMatrix w = .ok X) :
    printCyk X w.length = .ok (String.ofList (keyText X w.length)) ∧
      Check.cykCheck G w (String.ofList (keyText X w.length)) = .ok true := by
  have hcells := cellsOk_of_simple hc h1 hX
  refine ⟨printCyk_eq (cykMatrix_ne_nil hw hX) _, ?_⟩
  rw [cykCheck_eq hX, String.toList_ofList, lines_keyText (List.length_pos_iff.mpr hw) hcells,
    checkLines_keyLines hcells]

end C13c
end Gamba
