/-
  Gamba.Proofs.C18b — helper lemmas for C18b: `nfa_union` / `nfa_concatenation` for operands whose
  ε symbols differ.  The second operand enters the constructions only through `N2.rekey N1.eps`,
  `N2.Q`, `N2.Sigma`, `N2.q0`, `N2.F`; `N2.withEps N1.eps` (the second operand with its ε-transitions
  re-keyed) is a valid NFA with the same language whenever `N1.eps ∉ N2.Sigma`.
-/
import Gamba.Model.NFA
import Gamba.Spec.Automata
import Gamba.Proofs.DFABasic
import Gamba.Proofs.C01
import Gamba.Proofs.NFABasic
import Gamba.Proofs.C18
namespace Gamba

/-! ### lookups through a key map -/
section
variable {κ ν : Type} [DecidableEq κ] [BEq κ] [LawfulBEq κ]

/-- mapping the keys by a `g` that is injective "at `k`" on the keys present preserves `lookup` -/
theorem lookup_map_key (g : κ → κ) (d : List (κ × ν)) (k : κ)
    (hinj : ∀ x, x ∈ d → g x.1 = g k → x.1 = k) :
    (d.map fun x => (g x.1, x.2)).lookup (g k) = d.lookup k := by
  induction d with
  | nil => rfl
  | cons x d ih =>
    obtain ⟨k1, v1⟩ := x
    have ih' := ih (fun y hy => hinj y (List.mem_cons_of_mem _ hy))
    rw [List.map_cons, lookup_cons_ite, lookup_cons_ite, ih']
    by_cases h : k = k1
    · subst h; simp
    · have h' : ¬ g k = g k1 := fun hg => h (hinj (k1, v1) List.mem_cons_self hg.symm).symm
      simp [h, h']

end

section
variable {σ τ : Type} [DecidableEq σ] [DecidableEq τ]

/-! ### `withEps`: an NFA with its ε-transitions re-keyed to another ε symbol -/

/-- `N` with `e` as its ε symbol (what `_nfa_copy_delta(N, e)` makes of `N`) -/
def NFA.withEps (N : NFA σ τ) (e : τ) : NFA σ τ := { N with delta := N.rekey e, eps := e }

/-- the key map of `rekey` -/
def rekeyKey (old new : τ) (k : σ × τ) : σ × τ := (k.1, if k.2 = old then new else k.2)

omit [DecidableEq σ] in
theorem NFA.rekey_eq_map (N : NFA σ τ) (e : τ) :
    N.rekey e = N.delta.map fun x => (rekeyKey N.eps e x.1, x.2) := rfl

omit [DecidableEq σ] in
/-- (d) re-keying twice = re-keying once -/
theorem NFA.withEps_rekey (N : NFA σ τ) (e : τ) : (N.withEps e).rekey e = N.rekey e :=
  NFA.rekey_self (N.withEps e) (rfl : (N.withEps e).eps = e)

theorem NFA.union_withEps (N1 N2 : NFA σ τ) (q0 : σ) :
    N1.union (N2.withEps N1.eps) q0 = N1.union N2 q0 := by
  unfold NFA.union
  rw [NFA.withEps_rekey]
  rfl

theorem NFA.concat_withEps (N1 N2 : NFA σ τ) :
    N1.concat (N2.withEps N1.eps) = N1.concat N2 := by
  unfold NFA.concat
  rw [NFA.withEps_rekey]
  rfl

/-- a key of a valid δ that is re-keyed to `(q, e)`, with `e` not an ordinary symbol, was the ε key -/
theorem rekeyKey_eq_eps {N : NFA σ τ} (hv : N.valid = true) {e : τ} (he : e ∉ N.Sigma)
    {x : (σ × τ) × List σ} (hx : x ∈ N.delta) {q : σ} (h : rekeyKey N.eps e x.1 = (q, e)) :
    x.1 = (q, N.eps) := by
  obtain ⟨⟨q1, a1⟩, T⟩ := x
  simp only [rekeyKey, Prod.mk.injEq] at h ⊢
  obtain ⟨hq, ha⟩ := h
  refine ⟨hq, ?_⟩
  by_cases h1 : a1 = N.eps
  · exact h1
  · rw [if_neg h1] at ha
    rcases (NFA.valid_closed hv hx).2.1 with hs | hs
    · exact absurd (ha ▸ hs) he
    · exact hs

/-- the re-keying map is injective on the keys of a valid δ when the new ε is not an ordinary symbol -/
theorem rekeyKey_inj {N : NFA σ τ} (hv : N.valid = true) {e : τ} (he : e ∉ N.Sigma)
    {x y : (σ × τ) × List σ} (hx : x ∈ N.delta) (hy : y ∈ N.delta)
    (h : rekeyKey N.eps e x.1 = rekeyKey N.eps e y.1) : x.1 = y.1 := by
  obtain ⟨⟨q2, a2⟩, T2⟩ := y
  by_cases h2 : a2 = N.eps
  · subst h2
    have : rekeyKey N.eps e ((q2, N.eps), T2).1 = (q2, e) := by simp [rekeyKey]
    rw [this] at h
    exact rekeyKey_eq_eps hv he hx h
  · obtain ⟨⟨q1, a1⟩, T1⟩ := x
    by_cases h1 : a1 = N.eps
    · subst h1
      have : rekeyKey N.eps e ((q1, N.eps), T1).1 = (q1, e) := by simp [rekeyKey]
      rw [this] at h
      exact (rekeyKey_eq_eps hv he hy h.symm).symm
    · simpa [rekeyKey, h1, h2] using h

/-- ε-moves of `N.withEps e` are the ε-moves of `N` -/
theorem NFA.withEps_Succ_eps {N : NFA σ τ} (hv : N.valid = true) {e : τ} (he : e ∉ N.Sigma)
    (q q' : σ) : (N.withEps e).Succ q e q' ↔ N.Succ q N.eps q' := by
  have hl : (N.withEps e).delta.lookup (q, e) = N.delta.lookup (q, N.eps) := by
    show (N.rekey e).lookup (q, e) = _
    rw [NFA.rekey_eq_map]
    have hk : (q, e) = rekeyKey N.eps e (q, N.eps) := by simp [rekeyKey]
    rw [hk]
    apply lookup_map_key (rekeyKey N.eps e) N.delta (q, N.eps)
    intro x hx hg
    rw [← hk] at hg
    exact rekeyKey_eq_eps hv he hx hg
  unfold NFA.Succ
  rw [hl]

/-- symbol moves of `N.withEps e` are symbol moves of `N` -/
theorem NFA.withEps_Succ_sym {N : NFA σ τ} {e : τ} {q q' : σ} {a : τ} (ha : a ≠ e)
    (h : (N.withEps e).Succ q a q') : a ≠ N.eps ∧ N.Succ q a q' := by
  obtain ⟨T, hl, hm⟩ := h
  have hmem : ((q, a), T) ∈ N.rekey e := mem_of_lookup_eq_some hl
  rw [NFA.rekey_eq_map] at hmem
  obtain ⟨⟨⟨q1, a1⟩, T1⟩, _, hx⟩ := List.mem_map.mp hmem
  simp only [rekeyKey, Prod.mk.injEq] at hx
  obtain ⟨⟨_, h2⟩, _⟩ := hx
  have h1 : a1 ≠ N.eps := by
    intro h1
    rw [if_pos h1] at h2
    exact ha h2.symm
  rw [if_neg h1] at h2
  subst h2
  refine ⟨h1, T, ?_, hm⟩
  have hl' : (N.rekey e).lookup (q, a1) = some T := hl
  rw [NFA.rekey_eq_map] at hl'
  have hk : (q, a1) = rekeyKey N.eps e (q, a1) := by simp [rekeyKey, h1]
  rw [hk, lookup_map_key (rekeyKey N.eps e) N.delta (q, a1)] at hl'
  · exact hl'
  · intro x _ hg
    obtain ⟨⟨q3, a3⟩, T3⟩ := x
    rw [← hk] at hg
    simp only [rekeyKey, Prod.mk.injEq] at hg ⊢
    refine ⟨hg.1, ?_⟩
    by_cases h3 : a3 = N.eps
    · rw [if_pos h3] at hg; exact absurd hg.2.symm ha
    · rw [if_neg h3] at hg; exact hg.2

/-- symbol moves of a valid `N` are symbol moves of `N.withEps e` -/
theorem NFA.Succ_withEps_sym {N : NFA σ τ} (hv : N.valid = true) {e : τ} (he : e ∉ N.Sigma)
    {q q' : σ} {a : τ} (ha : a ≠ N.eps) (h : N.Succ q a q') : a ≠ e ∧ (N.withEps e).Succ q a q' := by
  have hae : a ≠ e := by
    rintro rfl
    rcases (NFA.valid_Succ_all hv h).2.1 with hs | hs
    · exact he hs
    · exact ha hs
  refine ⟨hae, ?_⟩
  obtain ⟨T, hl, hm⟩ := h
  refine ⟨T, ?_, hm⟩
  show (N.rekey e).lookup (q, a) = some T
  rw [NFA.rekey_eq_map]
  have hk : (q, a) = rekeyKey N.eps e (q, a) := by simp [rekeyKey, ha]
  rw [hk, lookup_map_key (rekeyKey N.eps e) N.delta (q, a)]
  · exact hl
  · intro x _ hg
    obtain ⟨⟨q3, a3⟩, T3⟩ := x
    rw [← hk] at hg
    simp only [rekeyKey, Prod.mk.injEq] at hg ⊢
    refine ⟨hg.1, ?_⟩
    by_cases h3 : a3 = N.eps
    · rw [if_pos h3] at hg; exact absurd hg.2.symm hae
    · rw [if_neg h3] at hg; exact hg.2

theorem NFA.withEps_Run {N : NFA σ τ} (hv : N.valid = true) {e : τ} (he : e ∉ N.Sigma)
    {q r : σ} {w : List τ} : (N.withEps e).Run q w r ↔ N.Run q w r := by
  constructor
  · intro h
    induction h with
    | nil q => exact NFA.Run.nil _
    | eps hs _ ih => exact NFA.Run.eps ((NFA.withEps_Succ_eps hv he _ _).mp hs) ih
    | sym ha hs _ ih =>
      obtain ⟨h1, h2⟩ := NFA.withEps_Succ_sym ha hs
      exact NFA.Run.sym h1 h2 ih
  · intro h
    induction h with
    | nil q => exact NFA.Run.nil _
    | eps hs _ ih =>
      exact NFA.Run.eps (N := N.withEps e) ((NFA.withEps_Succ_eps hv he _ _).mpr hs) ih
    | sym ha hs _ ih =>
      obtain ⟨h1, h2⟩ := NFA.Succ_withEps_sym hv he ha hs
      exact NFA.Run.sym (N := N.withEps e) h1 h2 ih

/-- (c) same language -/
theorem NFA.withEps_Accepts {N : NFA σ τ} (hv : N.valid = true) {e : τ} (he : e ∉ N.Sigma)
    (w : List τ) : (N.withEps e).Accepts w ↔ N.Accepts w := by
  unfold NFA.Accepts
  constructor
  · rintro ⟨f, hf, hr⟩; exact ⟨f, hf, (NFA.withEps_Run hv he).mp hr⟩
  · rintro ⟨f, hf, hr⟩; exact ⟨f, hf, (NFA.withEps_Run hv he).mpr hr⟩

/-- (a) still valid -/
theorem NFA.withEps_valid {N : NFA σ τ} (hv : N.valid = true) {e : τ} (he : e ∉ N.Sigma) :
    (N.withEps e).valid = true := by
  rw [NFA.valid_iff]
  refine ⟨NFA.valid_q0 (N := N) hv, fun f hf => NFA.valid_F (N := N) hv hf, he, ?_⟩
  intro q a T hmem
  have hmem' : ((q, a), T) ∈ N.rekey e := hmem
  rw [NFA.rekey_eq_map] at hmem'
  obtain ⟨⟨⟨q1, a1⟩, T1⟩, hx, hxe⟩ := List.mem_map.mp hmem'
  simp only [rekeyKey, Prod.mk.injEq] at hxe
  obtain ⟨⟨rfl, h2⟩, rfl⟩ := hxe
  obtain ⟨c1, c2, c3⟩ := NFA.valid_closed hv hx
  refine ⟨c1, ?_, c3⟩
  by_cases h1 : a1 = N.eps
  · rw [if_pos h1] at h2; exact Or.inr h2.symm
  · rw [if_neg h1] at h2
    subst h2
    rcases c2 with c2 | c2
    · exact Or.inl c2
    · exact absurd c2 h1

/-- (b) still a dict -/
theorem NFA.withEps_keys_nodup {N : NFA σ τ} (hv : N.valid = true) {e : τ} (he : e ∉ N.Sigma)
    (hk : (N.delta.map (·.1)).Nodup) : ((N.withEps e).delta.map (·.1)).Nodup := by
  show ((N.rekey e).map (·.1)).Nodup
  rw [NFA.rekey_eq_map, List.map_map]
  unfold List.Nodup at hk ⊢
  rw [List.pairwise_map] at hk ⊢
  refine hk.imp_of_mem ?_
  intro x y hx hy hne hg
  exact hne (rekeyKey_inj hv he hx hy hg)

/-! ### ε clash: the validity check of the constructor fails -/

theorem NFA.checked_eps_mem {N : NFA σ τ} (h : N.eps ∈ N.Sigma) : N.checked = .error .assertion := by
  have hv : N.valid = false := by
    cases hv : N.valid with
    | false => rfl
    | true => exact absurd h (NFA.valid_eps hv)
  unfold NFA.checked
  rw [hv]
  rfl

end

/-! ### concrete operands with different ε symbols -/
namespace C18

/-- `c⁺` with ε symbol `"lambda"` (≠ `"eps"` of `exA`) and an ε-move back to the start -/
def exC : NFA String String :=
  { Q := ["c0", "c1"], Sigma := ["c"], delta := [(("c0", "c"), ["c1"]), (("c1", "lambda"), ["c0"])],
    q0 := "c0", F := ["c1"], eps := "lambda" }

/-- an operand having the ε symbol of `exA` as an ordinary symbol -/
def exClash : NFA String String :=
  { Q := ["d0", "d1"], Sigma := ["eps"], delta := [(("d0", "eps"), ["d1"])],
    q0 := "d0", F := ["d1"], eps := "lambda" }

theorem exC_accepts : exC.Accepts ["c", "c"] :=
  ⟨"c1", by decide,
    NFA.Run.sym (q' := "c1") (by decide) ⟨["c1"], by decide, by decide⟩
      (NFA.Run.eps (q' := "c0") ⟨["c0"], by decide, by decide⟩
        (NFA.Run.sym (q' := "c1") (by decide) ⟨["c1"], by decide, by decide⟩ (NFA.Run.nil _)))⟩

end C18

end Gamba
