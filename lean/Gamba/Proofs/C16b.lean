/-
  Gamba.Proofs.C16b — the NFA text format: unpacking `parseNfa`, the grouping of the parsed transitions
  (`groupNfa`), "the parser builds exactly what was written" for DFAs and NFAs, and the round trip
  `parseNfa (printNfa N)`.
-/
import Gamba.Proofs.C16a
import Gamba.Proofs.NFABasic
namespace Gamba
open Parse Text

/-! ### association lists -/

theorem C16b.lookup_eq_some_iff_mem {κ ν : Type} [BEq κ] [LawfulBEq κ] {l : List (κ × ν)}
    (hl : (l.map (·.1)).Nodup) (k : κ) (v : ν) : l.lookup k = some v ↔ (k, v) ∈ l := by
  constructor
  · exact mem_of_lookup_eq_some
  · intro hm
    apply lookup_eq_some_of_unique hm
    intro v' hm'
    induction l with
    | nil => cases hm
    | cons e l ih =>
      obtain ⟨he, hl'⟩ := List.nodup_cons.mp (by simpa only [List.map_cons] using hl)
      rcases List.mem_cons.mp hm with rfl | hm2
      · rcases List.mem_cons.mp hm' with h | hm3
        · cases h; rfl
        · exact absurd (List.mem_map.mpr ⟨(k, v'), hm3, rfl⟩ : k ∈ l.map (·.1)) he
      · rcases List.mem_cons.mp hm' with rfl | hm3
        · exact absurd (List.mem_map.mpr ⟨(k, v), hm2, rfl⟩ : k ∈ l.map (·.1)) he
        · exact ih hl' hm2 hm3

theorem C16b.lookup_cons_ite {κ ν : Type} [BEq κ] [LawfulBEq κ] [DecidableEq κ] (d : List (κ × ν)) (k1 : κ) (v1 : ν) (k : κ) :
    List.lookup k ((k1, v1) :: d) = if k = k1 then some v1 else d.lookup k := by
  rw [List.lookup_cons]
  by_cases h : k = k1
  · subst h; simp
  · have hb : (k == k1) = false := by simp [h]
    rw [hb]; simp [h]

theorem C16b.lookup_set {κ ν : Type} [DecidableEq κ] [BEq κ] [LawfulBEq κ] (d : Dict κ ν) (k : κ) (v : ν) (k' : κ) :
    (d.set k v).lookup k' = if k' = k then some v else d.lookup k' := by
  induction d with
  | nil => simp only [Dict.set, C16b.lookup_cons_ite, List.lookup_nil]
  | cons e d ih =>
    obtain ⟨k1, v1⟩ := e
    simp only [Dict.set]
    by_cases h1 : k1 = k
    · subst h1
      simp only [if_true, C16b.lookup_cons_ite]
      split <;> simp_all
    · simp only [h1, if_false, C16b.lookup_cons_ite, ih]
      by_cases h2 : k' = k1
      · subst h2; simp [h1]
      · simp [h2]

theorem C16b.mem_set {κ ν : Type} [DecidableEq κ] {d : Dict κ ν} {k : κ} {v : ν} {e : κ × ν} (h : e ∈ d.set k v) :
    e = (k, v) ∨ e ∈ d := by
  induction d with
  | nil => simp only [Dict.set, List.mem_singleton] at h; exact Or.inl h
  | cons e1 d ih =>
    obtain ⟨k1, v1⟩ := e1
    simp only [Dict.set] at h
    split at h
    · rcases List.mem_cons.mp h with h | h
      · exact Or.inl h
      · exact Or.inr (List.mem_cons_of_mem _ h)
    · rcases List.mem_cons.mp h with h | h
      · exact Or.inr (h ▸ List.mem_cons_self)
      · rcases ih h with h | h
        · exact Or.inl h
        · exact Or.inr (List.mem_cons_of_mem _ h)

/-! ### `groupNfa` -/
namespace Parse

/-- one step of `groupNfa` -/
def groupStep (d : Dict (String × String) (List String)) (t : String × String × String) :
    Dict (String × String) (List String) :=
  d.set (t.1, t.2.1) (sinsert ((d.lookup (t.1, t.2.1)).getD []) t.2.2)

theorem groupNfa_eq (ts : List (String × String × String)) : groupNfa ts = ts.foldl groupStep [] := rfl

theorem mem_foldl_groupStep (ts : List (String × String × String)) (d : Dict (String × String) (List String))
    (p a x : String) :
    x ∈ ((ts.foldl groupStep d).lookup (p, a)).getD [] ↔ x ∈ (d.lookup (p, a)).getD [] ∨ (p, a, x) ∈ ts := by
  induction ts generalizing d with
  | nil => simp
  | cons t ts ih =>
    obtain ⟨p', a', x'⟩ := t
    rw [List.foldl_cons, ih]
    simp only [groupStep, C16b.lookup_set, List.mem_cons, Prod.mk.injEq]
    by_cases hk : (p, a) = (p', a')
    · obtain ⟨rfl, rfl⟩ := Prod.mk.inj hk
      simp only [if_true, Option.getD_some, mem_sinsert, true_and]
      constructor
      · rintro ((h | h) | h)
        · exact Or.inl h
        · exact Or.inr (Or.inl h)
        · exact Or.inr (Or.inr h)
      · rintro (h | h | h)
        · exact Or.inl (Or.inl h)
        · exact Or.inl (Or.inr h)
        · exact Or.inr h
    · have hk' : ¬ (p = p' ∧ a = a') := fun h => hk (by rw [h.1, h.2])
      simp only [hk', if_false]
      constructor
      · rintro (h | h)
        · exact Or.inl h
        · exact Or.inr (Or.inr h)
      · rintro (h | h | h)
        · exact Or.inl h
        · exact absurd ⟨h.1, h.2.1⟩ hk'
        · exact Or.inr h

/-- `groupNfa` characterised: the targets stored under `(p, a)` are exactly the `x` with `(p, a, x)` listed -/
theorem mem_groupNfa_lookup (ts : List (String × String × String)) (p a x : String) :
    x ∈ ((groupNfa ts).lookup (p, a)).getD [] ↔ (p, a, x) ∈ ts := by
  rw [groupNfa_eq, mem_foldl_groupStep]
  simp

theorem foldl_groupStep_mem (S : List (String × String × String)) (ts : List (String × String × String))
    (hts : ∀ t, t ∈ ts → t ∈ S) (d : Dict (String × String) (List String))
    (hd : ∀ e, e ∈ d → (∃ x, (e.1.1, e.1.2, x) ∈ S) ∧ ∀ x, x ∈ e.2 → (e.1.1, e.1.2, x) ∈ S) :
    ∀ e, e ∈ ts.foldl groupStep d → (∃ x, (e.1.1, e.1.2, x) ∈ S) ∧ ∀ x, x ∈ e.2 → (e.1.1, e.1.2, x) ∈ S := by
  induction ts generalizing d with
  | nil => exact hd
  | cons t ts ih =>
    rw [List.foldl_cons]
    apply ih (fun t' ht' => hts t' (List.mem_cons_of_mem _ ht'))
    intro e he
    rcases C16b.mem_set he with rfl | he
    · obtain ⟨p', a', x'⟩ := t
      have hS : (p', a', x') ∈ S := hts _ List.mem_cons_self
      refine ⟨⟨x', hS⟩, ?_⟩
      intro x hx
      simp only [mem_sinsert] at hx
      rcases hx with hx | rfl
      · cases hl : List.lookup (p', a') d with
        | none => simp only [hl, Option.getD_none] at hx; cases hx
        | some T =>
          simp only [hl, Option.getD_some] at hx
          exact (hd _ (mem_of_lookup_eq_some hl)).2 x hx
      · exact hS
    · exact hd e he

/-- every entry of `groupNfa ts` comes from listed transitions (and is non-empty) -/
theorem groupNfa_mem {ts : List (String × String × String)} {p a : String} {T : List String}
    (h : ((p, a), T) ∈ groupNfa ts) : (∃ x, (p, a, x) ∈ ts) ∧ ∀ x, x ∈ T → (p, a, x) ∈ ts := by
  rw [groupNfa_eq] at h
  exact foldl_groupStep_mem ts ts (fun _ h => h) [] (by simp) _ h

end Parse

/-! ### `parseNfa` unpacked -/

theorem Parse.parseNfa_ok_unpack {text : List Char} {N : NFA String String} (h : Parse.parseNfa text = .ok N) :
    ∃ A0 A eps Sigma, parseRaw .nfa isWord text = .ok A0 ∧ commonChecks A0 [] isWord = .ok A ∧
      parseSymbol A "epsilon" 'ε' "_" = .ok eps ∧
      getSymbolSet A "input_symbols" (dedup ((A.transitions.map fun t => str t.2.1).filter (· ≠ eps))) = .ok Sigma ∧
      wordsOk Sigma = true ∧
      NFA.checked { Q := A.states, Sigma := Sigma,
                    delta := groupNfa (A.transitions.map fun t => (t.1, str t.2.1, t.2.2)),
                    q0 := initialOf A, F := A.final, eps := eps } = .ok N := by
  unfold parseNfa at h
  simp only [bind, Except.bind] at h
  repeat' split at h
  all_goals first | cases h | skip
  rename_i A0 h0 _ A h1 _ eps h2 _ Sigma h3 h4
  exact ⟨A0, A, eps, Sigma, h0, h1, h2, h3, by simpa using h4, h⟩

theorem Parse.parseNfa_eq_of {text : List Char} {A0 A : Raw} {eps : String} {Sigma : List String}
    (h0 : parseRaw .nfa isWord text = .ok A0) (h1 : commonChecks A0 [] isWord = .ok A)
    (h2 : parseSymbol A "epsilon" 'ε' "_" = .ok eps)
    (h3 : getSymbolSet A "input_symbols" (dedup ((A.transitions.map fun t => str t.2.1).filter (· ≠ eps))) = .ok Sigma)
    (h4 : wordsOk Sigma = true) :
    Parse.parseNfa text =
      NFA.checked { Q := A.states, Sigma := Sigma,
                    delta := groupNfa (A.transitions.map fun t => (t.1, str t.2.1, t.2.2)),
                    q0 := initialOf A, F := A.final, eps := eps } := by
  unfold parseNfa
  simp only [bind, Except.bind, h0, h1, h2, h3, h4]
  simp

/-! ### the builder steps as functions of the raw parse -/
namespace Parse

theorem usedStates_nodup (A : Raw) : (usedStates A).Nodup := nodup_dedup _

/-- `commonChecks` with no extra states: only `states` changes, to the used states when none are declared -/
theorem commonChecks_nil_ok {A0 A : Raw} {ok : Word → Bool} (h : commonChecks A0 [] ok = .ok A) :
    A.states = (if A0.states.isEmpty then usedStates A0 else A0.states) ∧ A.transitions = A0.transitions ∧
      A.initial = A0.initial ∧ A.final = A0.final ∧ A.items = A0.items ∧ A0.initial = [initialOf A] := by
  obtain ⟨rfl, _, _, h4⟩ := commonChecks_ok h
  refine ⟨?_, rfl, rfl, rfl, rfl, ?_⟩
  · simp only [List.append_nil]
    rw [show dedup (usedStates A0) = usedStates A0 from dedup_eq_self_of_nodup (usedStates_nodup A0)]
  · simp only [initialOf]
    cases hi : A0.initial with
    | nil => rw [hi] at h4; cases h4
    | cons x xs =>
      cases xs with
      | nil => rfl
      | cons y ys => rw [hi] at h4; simp at h4

/-- `getSymbolSet`: the declared symbols when there is a declaration, else the used ones -/
theorem getSymbolSet_mem {A : Raw} {key : String} {used S : List String} (h : getSymbolSet A key used = .ok S) (a : String) :
    a ∈ S ↔ (match A.items.lookup key with
             | some declared => a ∈ declared
             | none => a ∈ used) := by
  unfold getSymbolSet at h
  cases hl : A.items.lookup key with
  | none => rw [hl] at h; cases h; rfl
  | some declared =>
    rw [hl] at h
    simp only at h
    split at h
    · cases h
    · cases h; simp

/-- … and when both are present the used symbols are among the declared ones -/
theorem getSymbolSet_used_sub {A : Raw} {key : String} {used S declared : List String}
    (h : getSymbolSet A key used = .ok S) (hd : A.items.lookup key = some declared) : ∀ a, a ∈ used → a ∈ declared := by
  unfold getSymbolSet at h
  rw [hd] at h
  simp only at h
  split at h
  · cases h
  · rename_i hc
    intro a ha
    have hne : used.isEmpty = false := by cases used with
      | nil => cases ha
      | cons => rfl
    simp only [hne, Bool.not_false, true_and, Bool.not_eq_true', Bool.not_eq_false] at hc
    exact ssubset_iff.mp hc a ha

theorem parseSymbol_ok {A : Raw} {key : String} {c : Char} {dflt v : String} (h : parseSymbol A key c dflt = .ok v) :
    (match A.items.lookup key with
     | some [w] => v = w
     | some _ => False
     | none => v = (if A.transitions.any (fun t => t.2.1.contains c) then String.singleton c else dflt)) := by
  unfold parseSymbol at h
  cases hl : A.items.lookup key with
  | none => rw [hl] at h; cases h; rfl
  | some l =>
    rw [hl] at h
    match l, h with
    | [], h => cases h
    | [w], h => cases h; rfl
    | _ :: _ :: _, h => cases h

end Parse

end Gamba
