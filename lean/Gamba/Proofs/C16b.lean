/-
  Gamba.Proofs.C16b — the NFA text format: unpacking `parseNfa`, the grouping of the parsed transitions
  (`groupNfa`), "the parser builds exactly what was written" for DFAs and NFAs, and the round trip
  `parseNfa (printNfa N)`.
-/
import Gamba.Proofs.C16a
import Gamba.Proofs.NFABasic
namespace Gamba
open Parse Text

/-! ### association lists -/

theorem C16b.lookup_eq_some_iff_mem {κ ν : Type} [BEq κ] [LawfulBEq κ] {l : List (κ × ν)}
    (hl : (l.map (·.1)).Nodup) (k : κ) (v : ν) : l.lookup k = some v ↔ (k, v) ∈ l := by
  constructor
  · exact mem_of_lookup_eq_some
  · intro hm
    apply lookup_eq_some_of_unique hm
    intro v' hm'
    induction l with
    | nil => cases hm
    | cons e l ih =>
      obtain ⟨he, hl'⟩ := List.nodup_cons.mp (by simpa only [List.map_cons] using hl)
      rcases List.mem_cons.mp hm with rfl | hm2
      · rcases List.mem_cons.mp hm' with h | hm3
        · cases h; rfl
        · exact absurd (List.mem_map.mpr ⟨(k, v'), hm3, rfl⟩ : k ∈ l.map (·.1)) he
      · rcases List.mem_cons.mp hm' with rfl | hm3
        · exact absurd (List.mem_map.mpr ⟨(k, v), hm2, rfl⟩ : k ∈ l.map (·.1)) he
        · exact ih hl' hm2 hm3

theorem C16b.lookup_cons_ite {κ ν : Type} [BEq κ] [LawfulBEq κ] [DecidableEq κ] (d : List (κ × ν)) (k1 : κ) (v1 : ν) (k : κ) :
    List.lookup k ((k1, v1) :: d) = if k = k1 then some v1 else d.lookup k := by
  rw [List.lookup_cons]
  by_cases h : k = k1
  · subst h; simp
  · have hb : (k == k1) = false := by simp [h]
    rw [hb]; simp [h]

theorem C16b.lookup_set {κ ν : Type} [DecidableEq κ] [BEq κ] [LawfulBEq κ] (d : Dict κ ν) (k : κ) (v : ν) (k' : κ) :
    (d.set k v).lookup k' = if k' = k then some v else d.lookup k' := by
  induction d with
  | nil => simp only [Dict.set, C16b.lookup_cons_ite, List.lookup_nil]
  | cons e d ih =>
    obtain ⟨k1, v1⟩ := e
    simp only [Dict.set]
    by_cases h1 : k1 = k
    · subst h1
      simp only [if_true, C16b.lookup_cons_ite]
      split <;> simp_all
    · simp only [h1, if_false, C16b.lookup_cons_ite, ih]
      by_cases h2 : k' = k1
      · subst h2; simp [h1]
      · simp [h2]

theorem C16b.mem_set {κ ν : Type} [DecidableEq κ] {d : Dict κ ν} {k : κ} {v : ν} {e : κ × ν} (h : e ∈ d.set k v) :
    e = (k, v) ∨ e ∈ d := by
  induction d with
  | nil => simp only [Dict.set, List.mem_singleton] at h; exact Or.inl h
  | cons e1 d ih =>
    obtain ⟨k1, v1⟩ := e1
    simp only [Dict.set] at h
    split at h
    · rcases List.mem_cons.mp h with h | h
      · exact Or.inl h
      · exact Or.inr (List.mem_cons_of_mem _ h)
    · rcases List.mem_cons.mp h with h | h
      · exact Or.inr (h ▸ List.mem_cons_self)
      · rcases ih h with h | h
        · exact Or.inl h
        · exact Or.inr (List.mem_cons_of_mem _ h)

/-! ### `groupNfa` -/
namespace Parse

/-- one step of `groupNfa` -/
def groupStep (d : Dict (String × String) (List String)) (t : String × String × String) :
    Dict (String × String) (List String) :=
  d.set (t.1, t.2.1) (sinsert ((d.lookup (t.1, t.2.1)).getD []) t.2.2)

theorem groupNfa_eq (ts : List (String × String × String)) : groupNfa ts = ts.foldl groupStep [] := rfl

theorem mem_foldl_groupStep (ts : List (String × String × String)) (d : Dict (String × String) (List String))
    (p a x : String) :
    x ∈ ((ts.foldl groupStep d).lookup (p, a)).getD [] ↔ x ∈ (d.lookup (p, a)).getD [] ∨ (p, a, x) ∈ ts := by
  induction ts generalizing d with
  | nil => simp
  | cons t ts ih =>
    obtain ⟨p', a', x'⟩ := t
    rw [List.foldl_cons, ih]
    simp only [groupStep, C16b.lookup_set, List.mem_cons, Prod.mk.injEq]
    by_cases hk : (p, a) = (p', a')
    · obtain ⟨rfl, rfl⟩ := Prod.mk.inj hk
      simp only [if_true, Option.getD_some, mem_sinsert, true_and]
      constructor
      · rintro ((h | h) | h)
        · exact Or.inl h
        · exact Or.inr (Or.inl h)
        · exact Or.inr (Or.inr h)
      · rintro (h | h | h)
        · exact Or.inl (Or.inl h)
        · exact Or.inl (Or.inr h)
        · exact Or.inr h
    · have hk' : ¬ (p = p' ∧ a = a') := fun h => hk (by rw [h.1, h.2])
      simp only [hk', if_false]
      constructor
      · rintro (h | h)
        · exact Or.inl h
        · exact Or.inr (Or.inr h)
      · rintro (h | h | h)
        · exact Or.inl h
        · exact absurd ⟨h.1, h.2.1⟩ hk'
        · exact Or.inr h

/-- `groupNfa` characterised: the targets stored under `(p, a)` are exactly the `x` with `(p, a, x)` listed -/
theorem mem_groupNfa_lookup (ts : List (String × String × String)) (p a x : String) :
    x ∈ ((groupNfa ts).lookup (p, a)).getD [] ↔ (p, a, x) ∈ ts := by
  rw [groupNfa_eq, mem_foldl_groupStep]
  simp

theorem foldl_groupStep_mem (S : List (String × String × String)) (ts : List (String × String × String))
    (hts : ∀ t, t ∈ ts → t ∈ S) (d : Dict (String × String) (List String))
    (hd : ∀ e, e ∈ d → (∃ x, (e.1.1, e.1.2, x) ∈ S) ∧ ∀ x, x ∈ e.2 → (e.1.1, e.1.2, x) ∈ S) :
    ∀ e, e ∈ ts.foldl groupStep d → (∃ x, (e.1.1, e.1.2, x) ∈ S) ∧ ∀ x, x ∈ e.2 → (e.1.1, e.1.2, x) ∈ S := by
  induction ts generalizing d with
  | nil => exact hd
  | cons t ts ih =>
    rw [List.foldl_cons]
    apply ih (fun t' ht' => hts t' (List.mem_cons_of_mem _ ht'))
    intro e he
    rcases C16b.mem_set he with rfl | he
    · obtain ⟨p', a', x'⟩ := t
      have hS : (p', a', x') ∈ S := hts _ List.mem_cons_self
      refine ⟨⟨x', hS⟩, ?_⟩
      intro x hx
      simp only [mem_sinsert] at hx
      rcases hx with hx | rfl
      · cases hl : List.lookup (p', a') d with
        | none => simp only [hl, Option.getD_none] at hx; cases hx
        | some T =>
          simp only [hl, Option.getD_some] at hx
          exact (hd _ (mem_of_lookup_eq_some hl)).2 x hx
      · exact hS
    · exact hd e he

/-- every entry of `groupNfa ts` comes from listed transitions (and is non-empty) -/
theorem groupNfa_mem {ts : List (String × String × String)} {p a : String} {T : List String}
    (h : ((p, a), T) ∈ groupNfa ts) : (∃ x, (p, a, x) ∈ ts) ∧ ∀ x, x ∈ T → (p, a, x) ∈ ts := by
  rw [groupNfa_eq] at h
  exact foldl_groupStep_mem ts ts (fun _ h => h) [] (by simp) _ h

end Parse

/-! ### `parseNfa` unpacked -/

theorem Parse.parseNfa_ok_unpack {text : List Char} {N : NFA String String} (h : Parse.parseNfa text = .ok N) :
    ∃ A0 A eps Sigma, parseRaw .nfa isWord text = .ok A0 ∧ commonChecks A0 [] isWord = .ok A ∧
      parseSymbol A "epsilon" 'ε' "_" = .ok eps ∧
      getSymbolSet A "input_symbols" (dedup ((A.transitions.map fun t => str t.2.1).filter (· ≠ eps))) = .ok Sigma ∧
      wordsOk Sigma = true ∧
      NFA.checked { Q := A.states, Sigma := Sigma,
                    delta := groupNfa (A.transitions.map fun t => (t.1, str t.2.1, t.2.2)),
                    q0 := initialOf A, F := A.final, eps := eps } = .ok N := by
  unfold parseNfa at h
  simp only [bind, Except.bind] at h
  repeat' split at h
  all_goals first | cases h | skip
  rename_i A0 h0 _ A h1 _ eps h2 _ Sigma h3 h4
  exact ⟨A0, A, eps, Sigma, h0, h1, h2, h3, by simpa using h4, h⟩

theorem Parse.parseNfa_eq_of {text : List Char} {A0 A : Raw} {eps : String} {Sigma : List String}
    (h0 : parseRaw .nfa isWord text = .ok A0) (h1 : commonChecks A0 [] isWord = .ok A)
    (h2 : parseSymbol A "epsilon" 'ε' "_" = .ok eps)
    (h3 : getSymbolSet A "input_symbols" (dedup ((A.transitions.map fun t => str t.2.1).filter (· ≠ eps))) = .ok Sigma)
    (h4 : wordsOk Sigma = true) :
    Parse.parseNfa text =
      NFA.checked { Q := A.states, Sigma := Sigma,
                    delta := groupNfa (A.transitions.map fun t => (t.1, str t.2.1, t.2.2)),
                    q0 := initialOf A, F := A.final, eps := eps } := by
  unfold parseNfa
  simp only [bind, Except.bind, h0, h1, h2, h3, h4]
  simp

/-! ### the builder steps as functions of the raw parse -/
namespace Parse

theorem usedStates_nodup (A : Raw) : (usedStates A).Nodup := nodup_dedup _

/-- `commonChecks` with no extra states: only `states` changes, to the used states when none are declared -/
theorem commonChecks_nil_ok {A0 A : Raw} {ok : Word → Bool} (h : commonChecks A0 [] ok = .ok A) :
    A.states = (if A0.states.isEmpty then usedStates A0 else A0.states) ∧ A.transitions = A0.transitions ∧
      A.initial = A0.initial ∧ A.final = A0.final ∧ A.items = A0.items ∧ A0.initial = [initialOf A] := by
  obtain ⟨rfl, _, _, h4⟩ := commonChecks_ok h
  refine ⟨?_, rfl, rfl, rfl, rfl, ?_⟩
  · simp only [List.append_nil]
    rw [show dedup (usedStates A0) = usedStates A0 from dedup_eq_self_of_nodup (usedStates_nodup A0)]
  · simp only [initialOf]
    cases hi : A0.initial with
    | nil => rw [hi] at h4; cases h4
    | cons x xs =>
      cases xs with
      | nil => rfl
      | cons y ys => rw [hi] at h4; simp at h4

/-- `getSymbolSet`: the declared symbols when there is a declaration, else the used ones -/
theorem getSymbolSet_mem {A : Raw} {key : String} {used S : List String} (h : getSymbolSet A key used = .ok S) (a : String) :
    a ∈ S ↔ (match A.items.lookup key with
             | some declared => a ∈ declared
             | none => a ∈ used) := by
  unfold getSymbolSet at h
  cases hl : A.items.lookup key with
  | none => rw [hl] at h; cases h; rfl
  | some declared =>
    rw [hl] at h
    simp only at h
    split at h
    · cases h
    · cases h; simp

/-- … and when both are present the used symbols are among the declared ones -/
theorem getSymbolSet_used_sub {A : Raw} {key : String} {used S declared : List String}
    (h : getSymbolSet A key used = .ok S) (hd : A.items.lookup key = some declared) : ∀ a, a ∈ used → a ∈ declared := by
  unfold getSymbolSet at h
  rw [hd] at h
  simp only at h
  split at h
  · cases h
  · rename_i hc
    intro a ha
    have hne : used.isEmpty = false := by cases used with
      | nil => cases ha
      | cons => rfl
    simp only [hne, Bool.not_false, true_and, Bool.not_eq_true', Bool.not_eq_false] at hc
    exact ssubset_iff.mp hc a ha

theorem parseSymbol_ok {A : Raw} {key : String} {c : Char} {dflt v : String} (h : parseSymbol A key c dflt = .ok v) :
    (match A.items.lookup key with
     | some [w] => v = w
     | some _ => False
     | none => v = (if A.transitions.any (fun t => t.2.1.contains c) then String.singleton c else dflt)) := by
  unfold parseSymbol at h
  cases hl : A.items.lookup key with
  | none => rw [hl] at h; cases h; rfl
  | some l =>
    rw [hl] at h
    match l, h with
    | [], h => cases h
    | [w], h => cases h; rfl
    | _ :: _ :: _, h => cases h

end Parse

/-! ### step 1 of the NFA round trip: the raw parse of `printNfa N` -/

/-- names that survive the NFA text format: `\w+`, not a keyword of the format -/
def Parse.NfaNameOk (s : String) : Prop :=
  Parse.isWord s.toList = true ∧ s ∉ ["states", "final", "initial", "input_symbols", "epsilon"]

namespace Parse

/-- the `(p, q, a)` triples `print_nfa` groups into lines -/
def nfaTrans (N : NFA String String) : List (String × String × String) :=
  N.delta.flatMap fun e => e.2.map fun q => (e.1.1, q, e.1.2)

/-- what the line parser reads back from `printNfa N` -/
def nfaRaw (N : NFA String String) : Raw :=
  { states := sortStrings (dedup N.Q), final := sortStrings (dedup N.F), initial := [N.q0],
    items := [("states", sortStrings (dedup N.Q)), ("final", sortStrings (dedup N.F)), ("initial", [N.q0]),
              ("input_symbols", sortStrings (dedup N.Sigma)), ("epsilon", [N.eps])],
    transitions := transOf (nfaTrans N) }

theorem printNfa_eq (N : NFA String String) :
    printNfa N = "".intercalate
      ((["states" ++ " " ++ joinSp (sortStrings (dedup N.Q)), "final" ++ " " ++ joinSp (sortStrings (dedup N.F)),
        "initial" ++ " " ++ joinSp [N.q0], "input_symbols" ++ " " ++ joinSp (sortStrings (dedup N.Sigma)),
        "epsilon" ++ " " ++ joinSp [N.eps]] ++ transLines (nfaTrans N)).map (· ++ "\n")) := by
  unfold printNfa
  have e1 : ("states " : String) = "states" ++ " " := by decide
  have e2 : ("final " : String) = "final" ++ " " := by decide
  have e3 : ("initial " : String) = "initial" ++ " " := by decide
  have e4 : ("input_symbols " : String) = "input_symbols" ++ " " := by decide
  have e5 : ("epsilon " : String) = "epsilon" ++ " " := by decide
  have e6 : ∀ s : String, joinSp [s] = s := fun s => by simp [joinSp]
  rw [e1, e2, e3, e4, e5, e6, e6]
  rfl

theorem mem_nfaTrans {N : NFA String String} {t : String × String × String} :
    t ∈ nfaTrans N ↔ ∃ T, ((t.1, t.2.2), T) ∈ N.delta ∧ t.2.1 ∈ T := by
  simp only [nfaTrans, List.mem_flatMap, List.mem_map]
  constructor
  · rintro ⟨⟨⟨p, a⟩, T⟩, he, q, hq, rfl⟩
    exact ⟨T, he, hq⟩
  · rintro ⟨T, he, hq⟩
    exact ⟨_, he, t.2.1, hq, rfl⟩

theorem nfaTrans_ok {N : NFA String String} (hv : N.valid = true) (hQ : ∀ q, q ∈ N.Q → Parse.NfaNameOk q)
    (hS : ∀ a, a ∈ N.Sigma → Parse.isWord a.toList = true) (he : Parse.isWord N.eps.toList = true) :
    ∀ t, t ∈ nfaTrans N → TransOk .nfa t := by
  intro t ht
  obtain ⟨T, hm, hq⟩ := mem_nfaTrans.mp ht
  obtain ⟨hp, ha, hT⟩ := NFA.valid_closed hv hm
  have hw : isWord t.2.2.toList = true := by
    rcases ha with ha | ha
    · exact hS _ ha
    · rw [ha]; exact he
  refine ⟨(hQ _ hp).1, (hQ _ hp).2, (hQ _ (hT _ hq)).1, isWord_token hw, ?_⟩
  have := isWord_ne_nil hw
  simp only [labelOk]
  cases h : t.2.2.toList with
  | nil => exact absurd h this
  | cons => rfl

theorem parse_print_nfa_raw (N : NFA String String) (hv : N.valid = true) (hQ : ∀ q, q ∈ N.Q → Parse.NfaNameOk q)
    (hS : ∀ a, a ∈ N.Sigma → Parse.isWord a.toList = true) (he : Parse.isWord N.eps.toList = true) :
    parseRaw .nfa isWord (printNfa N).toList = .ok (nfaRaw N) := by
  obtain ⟨hq0, hF, _, hcl⟩ := (NFA.valid_iff N).mp hv
  have hts := nfaTrans_ok hv hQ hS he
  have tokQ : ∀ n, n ∈ sortStrings (dedup N.Q) → Token n.toList := fun n hn =>
    isWord_token (hQ n (mem_sortStrings_dedup.mp hn)).1
  have tokF : ∀ n, n ∈ sortStrings (dedup N.F) → Token n.toList := fun n hn =>
    isWord_token (hQ n (hF n (mem_sortStrings_dedup.mp hn))).1
  have tokS : ∀ n, n ∈ sortStrings (dedup N.Sigma) → Token n.toList := fun n hn =>
    isWord_token (hS n (mem_sortStrings_dedup.mp hn))
  have tok0 : ∀ n, n ∈ [N.q0] → Token n.toList := fun n hn => by
    simp only [List.mem_singleton] at hn; subst hn; exact isWord_token (hQ _ hq0).1
  have tokE : ∀ n, n ∈ [N.eps] → Token n.toList := fun n hn => by
    simp only [List.mem_singleton] at hn; subst hn; exact isWord_token he
  have k1 : Token "states".toList := isWord_token (by decide)
  have k2 : Token "final".toList := isWord_token (by decide)
  have k3 : Token "initial".toList := isWord_token (by decide)
  have k4 : Token "input_symbols".toList := isWord_token (by decide)
  have k5 : Token "epsilon".toList := isWord_token (by decide)
  rw [printNfa_eq, parseRaw_join_terminated]
  · rw [List.map_append, lineWords_append]
    simp only [List.map_cons, List.map_nil]
    rw [lineWords_of_ne]
    · simp only [List.map_cons, List.map_nil, splitWs_kw_joinSp k1 tokQ, splitWs_kw_joinSp k2 tokF,
        splitWs_kw_joinSp k3 tok0, splitWs_kw_joinSp k4 tokS, splitWs_kw_joinSp k5 tokE]
      have okQ : ∀ n, n ∈ sortStrings (dedup N.Q) → isWord n.toList = true := fun n hn =>
        (hQ n (mem_sortStrings_dedup.mp hn)).1
      have okF : ∀ n, n ∈ sortStrings (dedup N.F) → isWord n.toList = true := fun n hn =>
        (hQ n (hF n (mem_sortStrings_dedup.mp hn))).1
      have ok0 : ∀ n, n ∈ [N.q0] → isWord n.toList = true := fun n hn => by
        simp only [List.mem_singleton] at hn; subst hn; exact (hQ _ hq0).1
      have hneQ : sortStrings (dedup N.Q) ≠ [] := by
        intro e
        have : N.q0 ∈ sortStrings (dedup N.Q) := mem_sortStrings_dedup.mpr hq0
        rw [e] at this; cases this
      simp only [List.cons_append, List.nil_append]
      refine (parseWordLines_cons_ok _ _ (parseWords_states .nfa isWord {} (str_toList _) rfl
        (nodup_sortStrings_dedup _) hneQ okQ) _).trans ?_
      refine (parseWordLines_cons_ok _ _ (parseWords_final .nfa isWord _ (str_toList _) (by rfl)
        (nodup_sortStrings_dedup _) okF) _).trans ?_
      refine (parseWordLines_cons_ok _ _ (parseWords_initial .nfa isWord _ (names := [N.q0]) (str_toList _) (by rfl)
        (by simp) ok0) _).trans ?_
      refine (parseWordLines_cons_ok _ _ (parseWords_keyword .nfa isWord _ (args := sortStrings (dedup N.Sigma))
        (str_toList _) (by decide) (by rfl)) _).trans ?_
      refine (parseWordLines_cons_ok _ _ (parseWords_keyword .nfa isWord _ (args := [N.eps])
        (str_toList _) (by decide) (by rfl)) _).trans ?_
      rw [parseWordLines_transLines .nfa _ hts]
      rfl
    · intro l hl
      simp only [List.mem_cons, List.not_mem_nil, or_false] at hl
      rcases hl with rfl | rfl | rfl | rfl | rfl
      · rw [splitWs_kw_joinSp k1 tokQ]; simp
      · rw [splitWs_kw_joinSp k2 tokF]; simp
      · rw [splitWs_kw_joinSp k3 tok0]; simp
      · rw [splitWs_kw_joinSp k4 tokS]; simp
      · rw [splitWs_kw_joinSp k5 tokE]; simp
  · intro l hl
    rcases List.mem_append.mp hl with hl | hl
    · simp only [List.mem_cons, List.not_mem_nil, or_false] at hl
      rcases hl with rfl | rfl | rfl | rfl | rfl
      · exact newline_not_mem_kw_joinSp k1.newline_not_mem (fun n hn => (tokQ n hn).newline_not_mem)
      · exact newline_not_mem_kw_joinSp k2.newline_not_mem (fun n hn => (tokF n hn).newline_not_mem)
      · exact newline_not_mem_kw_joinSp k3.newline_not_mem (fun n hn => (tok0 n hn).newline_not_mem)
      · exact newline_not_mem_kw_joinSp k4.newline_not_mem (fun n hn => (tokS n hn).newline_not_mem)
      · exact newline_not_mem_kw_joinSp k5.newline_not_mem (fun n hn => (tokE n hn).newline_not_mem)
    · exact newline_not_mem_transLines hts l hl

end Parse

/-! ### step 2: the builder checks on that raw parse -/
namespace Parse

/-- the parsed transition entries, as `(p, a, x)` triples, are the printed ones -/
theorem nfaRaw_trans_mem (N : NFA String String) (p a x : String) :
    (p, a, x) ∈ ((nfaRaw N).transitions.map fun t => (t.1, str t.2.1, t.2.2)) ↔ (p, x, a) ∈ nfaTrans N := by
  show (p, a, x) ∈ ((transOf (nfaTrans N)).map fun t => (t.1, str t.2.1, t.2.2)) ↔ _
  rw [List.mem_map]
  constructor
  · rintro ⟨t0, ht0, he⟩
    obtain ⟨t, ht, rfl⟩ := mem_transOf.mp ht0
    simp only [str_toList, Prod.mk.injEq] at he
    obtain ⟨rfl, rfl, rfl⟩ := he
    exact ht
  · intro ht
    exact ⟨(p, a.toList, x), mem_transOf.mpr ⟨_, ht, rfl⟩, by simp⟩

theorem nfaRaw_trans_closed {N : NFA String String} (hv : N.valid = true) {t : String × Word × String}
    (ht : t ∈ (nfaRaw N).transitions) : t.1 ∈ N.Q ∧ (str t.2.1 ∈ N.Sigma ∨ str t.2.1 = N.eps) ∧ t.2.2 ∈ N.Q := by
  have ht0 : t ∈ transOf (nfaTrans N) := ht
  obtain ⟨t', ht', rfl⟩ := mem_transOf.mp ht0
  obtain ⟨T, hm, hq⟩ := mem_nfaTrans.mp ht'
  obtain ⟨hp, ha, hT⟩ := NFA.valid_closed hv hm
  exact ⟨hp, by simpa using ha, hT _ hq⟩

/-- the round trip, with the parsed NFA described explicitly -/
theorem parse_print_nfa_explicit (N : NFA String String) (hv : N.valid = true)
    (hQ : ∀ q, q ∈ N.Q → Parse.NfaNameOk q) (hS : ∀ a, a ∈ N.Sigma → Parse.isWord a.toList = true)
    (he : Parse.isWord N.eps.toList = true) :
    ∃ N', Parse.parseNfa (Parse.printNfa N).toList = .ok N' ∧ N'.valid = true ∧
      N'.Q = sortStrings (dedup N.Q) ∧ N'.Sigma = dedup (sortStrings (dedup N.Sigma)) ∧ N'.q0 = N.q0 ∧
      N'.F = sortStrings (dedup N.F) ∧ N'.eps = N.eps ∧
      N'.delta = groupNfa ((nfaRaw N).transitions.map fun t => (t.1, str t.2.1, t.2.2)) := by
  obtain ⟨hq0, hF, heps, hcl⟩ := (NFA.valid_iff N).mp hv
  have h0 := parse_print_nfa_raw N hv hQ hS he
  have h1 : commonChecks (nfaRaw N) [] isWord = .ok (nfaRaw N) := by
    apply commonChecks_eq_ok
    · intro e
      have : N.q0 ∈ sortStrings (dedup N.Q) := mem_sortStrings_dedup.mpr hq0
      have e' : sortStrings (dedup N.Q) = [] := e
      rw [e'] at this; cases this
    · intro q hq
      show q ∈ sortStrings (dedup N.Q)
      rw [mem_sortStrings_dedup]
      simp only [usedStates, mem_dedup, List.mem_append, List.mem_flatMap] at hq
      rcases hq with (hq | hq) | ⟨t, ht, hq⟩
      · have : q ∈ [N.q0] := hq
        simp only [List.mem_singleton] at this; subst this; exact hq0
      · have : q ∈ sortStrings (dedup N.F) := hq
        exact hF q (mem_sortStrings_dedup.mp this)
      · have := nfaRaw_trans_closed hv ht
        simp only [List.mem_cons, List.not_mem_nil, or_false] at hq
        rcases hq with rfl | rfl
        · exact this.1
        · exact this.2.2
    · intro q hq
      have : q ∈ sortStrings (dedup N.Q) := hq
      exact (hQ q (mem_sortStrings_dedup.mp this)).1
    · rfl
  have h2 : parseSymbol (nfaRaw N) "epsilon" 'ε' "_" = .ok N.eps := by rfl
  have h3 : getSymbolSet (nfaRaw N) "input_symbols"
      (dedup (((nfaRaw N).transitions.map fun t => str t.2.1).filter (· ≠ N.eps))) =
      .ok (dedup (sortStrings (dedup N.Sigma))) := by
    have hl : (nfaRaw N).items.lookup "input_symbols" = some (sortStrings (dedup N.Sigma)) := by rfl
    have hsub : ssubset (dedup (((nfaRaw N).transitions.map fun t => str t.2.1).filter (· ≠ N.eps)))
        (sortStrings (dedup N.Sigma)) = true := by
      rw [ssubset_iff]
      intro a ha
      rw [mem_dedup, List.mem_filter] at ha
      obtain ⟨ha, hne⟩ := ha
      obtain ⟨t, ht, rfl⟩ := List.mem_map.mp ha
      rcases (nfaRaw_trans_closed hv ht).2.1 with h | h
      · exact mem_sortStrings_dedup.mpr h
      · simp [h] at hne
    unfold getSymbolSet
    rw [hl]
    generalize dedup (((nfaRaw N).transitions.map fun t => str t.2.1).filter (· ≠ N.eps)) = used at hsub
    simp [hsub]
  have h4 : wordsOk (dedup (sortStrings (dedup N.Sigma))) = true := by
    simp only [wordsOk, List.all_eq_true]
    intro a ha
    exact hS a (by simpa using ha)
  have hparse := parseNfa_eq_of h0 h1 h2 h3 h4
  have hvalid : NFA.valid
      { Q := (nfaRaw N).states, Sigma := dedup (sortStrings (dedup N.Sigma)),
        delta := groupNfa ((nfaRaw N).transitions.map fun t => (t.1, str t.2.1, t.2.2)), q0 := initialOf (nfaRaw N),
        F := (nfaRaw N).final, eps := N.eps : NFA String String } = true := by
    rw [NFA.valid_iff]
    refine ⟨?_, ?_, ?_, ?_⟩
    · show N.q0 ∈ sortStrings (dedup N.Q)
      exact mem_sortStrings_dedup.mpr hq0
    · intro f hf
      have : f ∈ sortStrings (dedup N.F) := hf
      show f ∈ sortStrings (dedup N.Q)
      exact mem_sortStrings_dedup.mpr (hF f (mem_sortStrings_dedup.mp this))
    · show N.eps ∉ dedup (sortStrings (dedup N.Sigma))
      simpa using heps
    · intro q a T hm
      obtain ⟨⟨x, hx⟩, hall⟩ := groupNfa_mem hm
      have key : ∀ y, (q, a, y) ∈ ((nfaRaw N).transitions.map fun t => (t.1, str t.2.1, t.2.2)) →
          q ∈ N.Q ∧ (a ∈ N.Sigma ∨ a = N.eps) ∧ y ∈ N.Q := by
        intro y hy
        obtain ⟨t, ht, het⟩ := List.mem_map.mp hy
        simp only [Prod.mk.injEq] at het
        obtain ⟨rfl, rfl, rfl⟩ := het
        exact nfaRaw_trans_closed hv ht
      refine ⟨?_, ?_, ?_⟩
      · show q ∈ sortStrings (dedup N.Q); exact mem_sortStrings_dedup.mpr (key x hx).1
      · show a ∈ dedup (sortStrings (dedup N.Sigma)) ∨ a = N.eps
        rcases (key x hx).2.1 with h | h
        · exact Or.inl (by simpa using h)
        · exact Or.inr h
      · intro y hy
        show y ∈ sortStrings (dedup N.Q); exact mem_sortStrings_dedup.mpr (key y (hall y hy)).2.2
  refine ⟨_, hparse.trans (by simp only [NFA.checked, hvalid]; rfl), hvalid, rfl, rfl, rfl, rfl, rfl, rfl⟩

/-- the successor sets read back are the printed ones (distinct keys in `δ`) -/
theorem nfaRaw_succ (N : NFA String String) (hk : (N.delta.map (·.1)).Nodup) (q a x : String) :
    x ∈ ((groupNfa ((nfaRaw N).transitions.map fun t => (t.1, str t.2.1, t.2.2))).lookup (q, a)).getD [] ↔
      x ∈ N.succ q a := by
  rw [mem_groupNfa_lookup, nfaRaw_trans_mem, mem_nfaTrans]
  unfold NFA.succ
  constructor
  · rintro ⟨T, hm, hx⟩
    rw [(C16b.lookup_eq_some_iff_mem hk (q, a) T).mpr hm]
    exact hx
  · intro hx
    cases hl : N.delta.lookup (q, a) with
    | none => rw [hl] at hx; cases hx
    | some T =>
      rw [hl] at hx
      exact ⟨T, mem_of_lookup_eq_some hl, hx⟩

end Parse

end Gamba
